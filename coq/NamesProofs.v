From SE Require Import Base Codecs Cue Names FatProofs.

(** * Generic facts about strip and friends *)
Lemma lstrip_sub l : exists p, l = p ++ lstrip l /\ Forall (fun c => is_space_c c = true) p.
Proof.
  induction l as [|c t IH]; [exists []; split; [reflexivity|constructor]|].
  cbn [lstrip]. destruct (is_space_c c) eqn:E.
  - destruct IH as (p & Hp & Hf). exists (c :: p). split; [cbn; now f_equal|constructor; assumption].
  - exists []. split; [reflexivity|constructor].
Qed.
Lemma lstrip_Forall (P : Z -> Prop) l : Forall P l -> Forall P (lstrip l).
Proof.
  intros H. destruct (lstrip_sub l) as (p & Hp & _). rewrite Hp in H. now apply Forall_app in H.
Qed.
Lemma lstrip_hd l c t : lstrip l = c :: t -> is_space_c c = false.
Proof.
  induction l as [|x l IH]; cbn [lstrip]; [discriminate|].
  destruct (is_space_c x) eqn:E; [apply IH|]. intros [= <- <-]. assumption.
Qed.
Lemma strip_Forall (P : Z -> Prop) l : Forall P l -> Forall P (strip l).
Proof.
  intros H. unfold strip. apply Forall_rev. apply lstrip_Forall. apply Forall_rev. now apply lstrip_Forall.
Qed.
Lemma lstrip_nonblank_id l c t : l = c :: t -> is_space_c c = false -> lstrip l = l.
Proof. intros -> H. cbn [lstrip]. now rewrite H. Qed.

(** first and last characters of a stripped string are not blanks *)
Lemma strip_first l c t : strip l = c :: t -> is_space_c c = false.
Proof.
  unfold strip. intros H.
  (* rev (lstrip (rev (lstrip l))) = c :: t: c is the first char of lstrip l unless ... *)
  destruct (lstrip l) as [|a m] eqn:EA.
  { cbn in H. discriminate. }
  pose proof (lstrip_hd _ _ _ EA) as Ha.
  (* rev (a :: m) = rev m ++ [a]; lstrip of it ends with a (a not blank) *)
  assert (K : forall p, exists p', lstrip (p ++ [a]) = p' ++ [a]).
  { induction p as [|x p IH]; cbn [app lstrip]; [rewrite Ha; exists []; reflexivity|].
    destruct (is_space_c x); [assumption|]. exists (x :: p). reflexivity. }
  cbn [rev] in H. destruct (K (rev m)) as [p' Hp']. rewrite Hp' in H.
  rewrite rev_app_distr in H. cbn [rev app] in H. injection H as <- _. assumption.
Qed.
Lemma strip_last l c t : rev (strip l) = c :: t -> is_space_c c = false.
Proof. unfold strip. rewrite rev_involutive. apply lstrip_hd. Qed.

(** * make_export_name yields a safe path component, for EVERY input string *)
Definition ok_comp (c : Z) : bool := ok_file c || (c =? 40) || (c =? 41).

Lemma drop_while_len p l : (length (drop_while p l) <= length l)%nat.
Proof. induction l as [|c t IH]; cbn [drop_while]; [lia|]. destruct (p c); cbn [length]; lia. Qed.

Lemma replace_runs_ok : forall fuel ok l,
  (forall c, ok c = true -> ok_file c = true) -> Forall (fun c => ok_file c = true) (replace_runs fuel ok l).
Proof.
  induction fuel as [|fuel IH]; intros ok l Hok; cbn [replace_runs]; [constructor|].
  destruct l as [|c t]; [constructor|]. destruct (ok c) eqn:E; constructor; auto.
Qed.

Lemma safe_ending_sub (P : Z -> Prop) s : Forall P s -> Forall P (safe_ending s).
Proof.
  intros H. unfold safe_ending. destruct (rev s) as [|c [|x r']] eqn:E; try assumption.
  destruct (c =? 46); [|assumption].
  apply Forall_rev. apply lstrip_Forall.
  apply Forall_rev in H. rewrite E in H. now inversion H.
Qed.

(** after safe_ending the string is still free of a trailing blank *)
Lemma safe_ending_last s c t :
  (forall c0 t0, rev s = c0 :: t0 -> is_space_c c0 = false) ->
  rev (safe_ending s) = c :: t -> is_space_c c = false.
Proof.
  intros Hs. unfold safe_ending. destruct (rev s) as [|c0 [|x r']] eqn:E.
  - intros H. rewrite E in H. discriminate.
  - intros H. rewrite E in H. injection H as <- _. eapply Hs; reflexivity.
  - destruct (c0 =? 46).
    + rewrite rev_involutive. apply lstrip_hd.
    + intros H. rewrite E in H. injection H as <- _. eapply Hs; reflexivity.
Qed.
Lemma safe_ending_first s c t :
  (forall c0 t0, s = c0 :: t0 -> is_space_c c0 = false) ->
  safe_ending s = c :: t -> is_space_c c = false.
Proof.
  intros Hs. unfold safe_ending. destruct (rev s) as [|c0 [|x r']] eqn:E; try (intros H; eapply Hs; eassumption).
  destruct (c0 =? 46); [|intros H; eapply Hs; eassumption].
  (* s = rev r' ++ [x; c0]; the result is a prefix of s that still starts with s's first char *)
  intros H.
  assert (Hs' : s = rev (x :: r') ++ [c0]).
  { rewrite <- (rev_involutive s), E. reflexivity. }
  destruct (lstrip_sub (x :: r')) as (p & Hp & _).
  set (ls := lstrip (x :: r')) in *.
  assert (Hpre : exists u, s = (c :: t) ++ u).
  { exists (rev p ++ [c0]). rewrite Hs', Hp, rev_app_distr, H. now rewrite <- app_assoc. }
  destruct Hpre as [u Hu]. eapply Hs. rewrite Hu. reflexivity.
Qed.

Definition last_char (l : list Z) : Z := hd 0 (rev l).

Lemma is_word_not_space c : is_word c = true -> is_space_c c = false.
Proof. unfold is_word, is_space_c. lia. Qed.
Lemma is_word_ok_file c : is_word c = true -> ok_file c = true.
Proof. unfold ok_file. intros ->. reflexivity. Qed.

(** The export name of ANY string (any character codes, any length): non-empty, only word
    characters / blank / - . #, starts with a word character, does not end with a blank; a
    directory name additionally does not end with a dot or a hyphen. *)
Lemma export_name_safe_lemma :
  forall name is_file,
    let e := make_export_name name is_file in
    e <> [] /\ Forall (fun c => ok_file c = true) e /\ is_word (hd 0 e) = true
    /\ is_space_c (last_char e) = false
    /\ (is_file = false -> last_char e <> 46 /\ last_char e <> 45).
Proof.
  intros name is_file.
  set (r := strip (replace_runs (S (length name)) ok_file name)).
  assert (Hr : Forall (fun c => ok_file c = true) r).
  { apply strip_Forall. apply replace_runs_ok. auto. }
  set (e1 := safe_ending r).
  assert (H1 : Forall (fun c => ok_file c = true) e1) by (apply safe_ending_sub; assumption).
  assert (H1last : forall c t, rev e1 = c :: t -> is_space_c c = false).
  { intros c t. apply safe_ending_last. intros c0 t0. apply strip_last. }
  set (e2 := match e1 with [] => [48] | _ => e1 end).
  assert (H2 : e2 <> [] /\ Forall (fun c => ok_file c = true) e2
               /\ (forall c t, rev e2 = c :: t -> is_space_c c = false)).
  { unfold e2. destruct e1 as [|a m] eqn:E1.
    - split; [discriminate|]. split; [repeat constructor|]. intros c t [= <- <-]. reflexivity.
    - split; [discriminate|]. split; [assumption|]. exact H1last. }
  destruct H2 as (H2ne & H2ok & H2last).
  set (e3 := match e2 with c :: _ => if is_word c then e2 else 48 :: e2 | [] => e2 end).
  assert (H3 : e3 <> [] /\ Forall (fun c => ok_file c = true) e3 /\ is_word (hd 0 e3) = true
               /\ (forall c t, rev e3 = c :: t -> is_space_c c = false)).
  { unfold e3. destruct e2 as [|a m] eqn:E2; [congruence|].
    destruct (is_word a) eqn:Ew.
    - repeat split; try assumption; discriminate.
    - split; [discriminate|]. split; [constructor; [reflexivity|assumption]|]. split; [reflexivity|].
      intros c t Hrev. change (rev (48 :: a :: m)) with (rev (a :: m) ++ [48]) in Hrev.
      destruct (rev (a :: m)) as [|c' t'] eqn:Er.
      { apply (f_equal (@length Z)) in Er. rewrite rev_length in Er. cbn in Er. lia. }
      cbn [app] in Hrev. injection Hrev as <- _. eapply H2last. reflexivity. }
  destruct H3 as (H3ne & H3ok & H3w & H3last).
  change (make_export_name name is_file)
    with (if is_file then e3 else match rev e3 with c :: _ => if (c =? 46) || (c =? 45) then e3 ++ [48] else e3 | [] => e3 end).
  destruct is_file.
  - cbv zeta. split; [assumption|]. split; [assumption|]. split; [assumption|]. split.
    + unfold last_char. destruct (rev e3) as [|c t] eqn:E; [reflexivity|]. cbn. eapply H3last. reflexivity.
    + discriminate.
  - cbv zeta. destruct (rev e3) as [|c t] eqn:E.
    { apply (f_equal (@length Z)) in E. rewrite rev_length in E. destruct e3; [congruence|cbn in E; lia]. }
    destruct ((c =? 46) || (c =? 45)) eqn:Ec.
    + split; [destruct e3; discriminate|]. split; [apply Forall_app; split; [assumption|repeat constructor]|].
      split; [destruct e3; [congruence|assumption]|].
      unfold last_char. rewrite rev_app_distr. cbn. split; [reflexivity|]. intros _. split; discriminate.
    + split; [assumption|]. split; [assumption|]. split; [assumption|].
      unfold last_char. rewrite E. cbn [hd]. split; [eapply H3last; reflexivity|].
      intros _. split; lia.
Qed.

(** * Sibling names are pairwise distinct after sanitize_names_general (with the D5 fix) *)
Lemma str_eqb_eq : forall a b, str_eqb a b = true <-> a = b.
Proof.
  induction a as [|x a IH]; intros [|y b]; cbn [str_eqb]; split; intros H; try discriminate; try reflexivity.
  - apply andb_prop in H as [H1 H2]. apply Z.eqb_eq in H1. apply IH in H2. now subst.
  - injection H as -> ->. rewrite Z.eqb_refl. cbn. now apply IH.
Qed.
Lemma str_eqb_refl a : str_eqb a a = true.
Proof. now apply str_eqb_eq. Qed.
Lemma in_names_In n l : in_names n l = true <-> In n l.
Proof.
  unfold in_names. rewrite existsb_exists. split.
  - intros (x & Hin & He). apply str_eqb_eq in He. now subst.
  - intros H. exists n. split; [assumption|apply str_eqb_refl].
Qed.
Lemma in_names_false n l : in_names n l = false <-> ~ In n l.
Proof. rewrite <- in_names_In. destruct (in_names n l); split; congruence. Qed.

Lemma add_taken_In n taken x : In x (add_taken n taken) <-> x = n \/ In x taken.
Proof.
  unfold add_taken. destruct (in_names n taken) eqn:E.
  - apply in_names_In in E. split; [auto|]. intros [->|H]; assumption.
  - rewrite in_app_iff. cbn. intuition.
Qed.

Lemma free_name_fresh : forall fuel name i j taken nn i',
  free_name fuel name i j taken = Ok (nn, i') -> ~ In nn taken.
Proof.
  induction fuel as [|fuel IH]; intros name i j taken nn i' H; [discriminate|].
  cbn [free_name] in H. destruct (in_names (add_count name i) taken) eqn:E.
  - destruct (j + 1 >? zlen taken); [discriminate|]. eapply IH; eassumption.
  - injection H as <- <-. now apply in_names_false.
Qed.

(** one group: the names handed out are [name] followed by names that were not taken,
    pairwise distinct; everything handed out ends up in [taken] *)
Lemma assign_group_spec : forall members fuel name i first taken acc acc' taken',
  assign_group fuel members name i first taken acc = Ok (acc', taken') ->
  exists fresh,
    acc' = acc ++ (if first then (match members with O => [] | S _ => [name] end) else []) ++ fresh
    /\ NoDup fresh /\ (forall x, In x fresh -> ~ In x taken /\ (first = true -> x <> name))
    /\ (forall x, In x taken -> In x taken')
    /\ (forall x, In x fresh -> In x taken')
    /\ length acc' = (length acc + members)%nat.
Proof.
  induction members as [|m IH]; intros fuel name i first taken acc acc' taken' H; cbn [assign_group] in H.
  - injection H as <- <-. exists [].
    split; [destruct first; cbn; now rewrite ?app_nil_r|].
    split; [constructor|]. split; [intros x []|]. split; [auto|]. split; [intros x []|lia].
  - destruct first.
    + apply IH in H as (fresh & -> & Hnd & Hfr & Hsub & Hin & Hlen).
      exists fresh. cbn [app]. rewrite <- app_assoc. cbn [app].
      split; [reflexivity|]. split; [assumption|]. split; [|split; [|split]].
      * intros x Hx. destruct (Hfr x Hx) as [H1 _]. split.
        -- intros Ht. apply H1. apply add_taken_In. auto.
        -- intros _ ->. apply H1. apply add_taken_In. auto.
      * intros x Hx. apply Hsub. apply add_taken_In. auto.
      * assumption.
      * rewrite !app_length in *. cbn [length] in *. lia.
    + destruct (free_name fuel name (i + 1) 0 taken) as [[nn i']| |] eqn:EF; cbn [bind] in H; try discriminate.
      cbn [fst snd] in H. pose proof (free_name_fresh _ _ _ _ _ _ _ EF) as Hnn.
      apply IH in H as (fresh & -> & Hnd & Hfr & Hsub & Hin & Hlen).
      exists (nn :: fresh). cbn [app]. rewrite <- app_assoc. cbn [app].
      split; [reflexivity|]. split; [|split; [|split; [|split]]].
      * constructor; [|assumption]. intros Hc. destruct (Hfr nn Hc) as [H1 _]. apply H1. apply add_taken_In. auto.
      * intros x [<-|Hx]; [split; [assumption|discriminate]|].
        destruct (Hfr x Hx) as [H1 _]. split; [|discriminate]. intros Ht. apply H1. apply add_taken_In. auto.
      * intros x Hx. apply Hsub. apply add_taken_In. auto.
      * intros x [<-|Hx]; [apply Hsub; apply add_taken_In; auto|auto].
      * rewrite !app_length in *. cbn [length] in *. lia.
Qed.

Definition assigned (tbl : list (list Z * list (list Z))) : list (list Z) := concat (map snd tbl).

(** number of names still available under the first key equal to [c] *)
Fixpoint avail (c : list Z) (tbl : list (list Z * list (list Z))) : nat :=
  match tbl with
  | [] => O
  | (k, vs) :: t => if str_eqb k c then length vs else avail c t
  end.

Lemma NoDup_app_intro {A} (a b : list A) :
  NoDup a -> NoDup b -> (forall x, In x a -> ~ In x b) -> NoDup (a ++ b).
Proof.
  induction a as [|x a IH]; intros Ha Hb Hd; cbn [app]; [assumption|].
  inversion Ha as [|? ? Hx Ha']; subst. constructor.
  - rewrite in_app_iff. intros [H|H]; [contradiction|]. eapply Hd; [left; reflexivity|eassumption].
  - apply IH; auto. intros y Hy. apply Hd. now right.
Qed.
Lemma NoDup_app_l {A} (a b : list A) : NoDup (a ++ b) -> NoDup a.
Proof. induction a as [|x a IH]; cbn [app]; intros H; [constructor|]. inversion H; subst. constructor; [rewrite in_app_iff in *; tauto|auto]. Qed.
Lemma NoDup_app_r {A} (a b : list A) : NoDup (a ++ b) -> NoDup b.
Proof. induction a as [|x a IH]; cbn [app]; intros H; [assumption|]. inversion H; auto. Qed.
Lemma NoDup_app_disj {A} (a b : list A) x : NoDup (a ++ b) -> In x a -> ~ In x b.
Proof.
  induction a as [|y a IH]; cbn [app]; intros H Hin; [contradiction|]. inversion H; subst.
  destruct Hin as [->|Hin]; [rewrite in_app_iff in *; tauto|auto].
Qed.

(** all groups: every candidate name once, plus fresh names outside the candidates *)
Lemma assign_all_spec : forall groups cands taken tbl,
  assign_all groups cands taken = Ok tbl ->
  NoDup groups -> (forall g, In g groups -> In g taken) ->
  (forall g, In g groups -> (1 <= count_occ_name g cands)%nat) ->
  (forall c, avail c tbl = if in_names c groups then count_occ_name c cands else O)
  /\ NoDup (assigned tbl)
  /\ (forall x, In x (assigned tbl) -> In x groups \/ ~ In x taken).
Proof.
  induction groups as [|g rest IH]; intros cands taken tbl H Hnd Hsub Hocc; cbn [assign_all] in H.
  - injection H as <-. cbn. repeat split; try constructor; intros; tauto.
  - inversion Hnd as [|? ? Hg Hnd']; subst.
    destruct (Nat.eqb_spec (count_occ_name g cands) 1) as [Hk|Hk].
    + destruct (assign_all rest cands taken) as [r| |] eqn:ER; cbn [bind] in H; try discriminate.
      injection H as <-.
      destruct (IH cands taken r ER Hnd' ltac:(intros; apply Hsub; now right) ltac:(intros; apply Hocc; now right))
        as (I1 & I3 & I4).
      cbn [assigned map concat snd app]. fold (assigned r). repeat split.
      * intros c. cbn [avail in_names existsb]. rewrite I1.
        destruct (str_eqb g c) eqn:E.
        -- apply str_eqb_eq in E. subst c. rewrite str_eqb_refl. cbn. lia.
        -- assert (E' : str_eqb c g = false).
           { destruct (str_eqb c g) eqn:E2; [|reflexivity]. apply str_eqb_eq in E2. subst. rewrite str_eqb_refl in E. discriminate. }
           unfold in_names in *. rewrite E'. reflexivity.
      * constructor; [|assumption]. intros Hc. destruct (I4 g Hc) as [Hr|Hn]; [contradiction|].
        apply Hn. apply Hsub. now left.
      * intros x [<-|Hx]; [left; now left|]. destruct (I4 x Hx); [left; now right|now right].
    + destruct (assign_group _ (count_occ_name g cands) g 0 true taken []) as [[acc taken']| |] eqn:EG; cbn [bind] in H; try discriminate.
      cbn [fst snd] in H.
      destruct (assign_all rest cands taken') as [r| |] eqn:ER; cbn [bind] in H; try discriminate.
      injection H as <-.
      apply assign_group_spec in EG as (fresh & Hacc & Hfnd & Hffr & Htsub & Hfin & Hlen).
      assert (Hpos : (2 <= count_occ_name g cands)%nat).
      { specialize (Hocc g ltac:(now left)). lia. }
      destruct (count_occ_name g cands) as [|k] eqn:Ek; [lia|]. cbn [app] in Hacc. subst acc.
      destruct (IH cands taken' r ER Hnd' ltac:(intros; apply Htsub; apply Hsub; now right) ltac:(intros; apply Hocc; now right))
        as (I1 & I3 & I4).
      assert (Hgt : In g taken) by (apply Hsub; now left).
      cbn [assigned map concat snd]. fold (assigned r). repeat split.
      * intros c. cbn [avail in_names existsb]. rewrite I1.
        destruct (str_eqb g c) eqn:E.
        -- apply str_eqb_eq in E. subst c. rewrite str_eqb_refl. cbn [orb]. cbn in Hlen. rewrite Ek. cbn [length]. lia.
        -- assert (E' : str_eqb c g = false).
           { destruct (str_eqb c g) eqn:E2; [|reflexivity]. apply str_eqb_eq in E2. subst. rewrite str_eqb_refl in E. discriminate. }
           unfold in_names in *. rewrite E'. reflexivity.
      * apply NoDup_app_intro; [constructor; [|assumption]|assumption|].
        -- intros Hc. destruct (Hffr g Hc) as [_ Hne]. now apply Hne.
        -- intros x [<-|Hx] Hc.
           ++ destruct (I4 g Hc) as [Hr|Hn]; [contradiction|]. apply Hn. now apply Htsub.
           ++ destruct (I4 x Hc) as [Hr|Hn].
              ** destruct (Hffr x Hx) as [Hnt _]. apply Hnt. apply Hsub. now right.
              ** apply Hn. now apply Hfin.
      * intros x Hx. cbn [app] in Hx. destruct Hx as [<-|Hx]; [left; now left|].
        apply in_app_iff in Hx as [Hx|Hx].
        -- right. now destruct (Hffr x Hx).
        -- destruct (I4 x Hx) as [Hr|Hn]; [left; now right|right]. intros Ht. apply Hn. now apply Htsub.
Qed.

(** popping a name for candidate [c] *)
Lemma pop_assigned_spec : forall tbl c v tbl',
  pop_assigned c tbl = Some (v, tbl') ->
  (avail c tbl = S (avail c tbl'))
  /\ (forall d, d <> c -> avail d tbl' = avail d tbl)
  /\ In v (assigned tbl)
  /\ (NoDup (assigned tbl) -> NoDup (assigned tbl') /\ ~ In v (assigned tbl'))
  /\ (forall x, In x (assigned tbl') -> In x (assigned tbl)).
Proof.
  induction tbl as [|[k vs] t IH]; intros c v tbl' H; cbn [pop_assigned] in H; [discriminate|].
  destruct (str_eqb k c) eqn:E.
  - destruct vs as [|v0 vs']; [discriminate|]. injection H as <- <-.
    apply str_eqb_eq in E. subst k.
    cbn [avail assigned map concat snd]. rewrite str_eqb_refl. cbn [length app]. repeat split.
    + intros d Hd. destruct (str_eqb c d) eqn:E2; [apply str_eqb_eq in E2; congruence|reflexivity].
    + now left.
    + now inversion H.
    + inversion H; assumption.
    + intros x Hx. now right.
  - destruct (pop_assigned c t) as [[v1 t1]|] eqn:EP; [|discriminate]. injection H as <- <-.
    destruct (IH _ _ _ EP) as (A1 & A2 & A3 & A4 & A5).
    cbn [avail assigned map concat snd]. fold (assigned t) (assigned t1). rewrite E. repeat split.
    + assumption.
    + intros d Hd. destruct (str_eqb k d); [reflexivity|auto].
    + apply in_app_iff. now right.
    + apply NoDup_app_intro.
      * eapply NoDup_app_l; eassumption.
      * apply A4. eapply NoDup_app_r; eassumption.
      * intros x Hx Hc. eapply NoDup_app_disj; [eassumption|eassumption|auto].
    + intros Hc. apply in_app_iff in Hc as [Hc|Hc].
      * eapply NoDup_app_disj; [eassumption|eassumption|assumption].
      * apply A4 in Hc; [assumption|]. eapply NoDup_app_r; eassumption.
    + intros x Hx. apply in_app_iff in Hx as [Hx|Hx]; apply in_app_iff; [now left|right; auto].
Qed.
Lemma pop_assigned_some : forall tbl c, (1 <= avail c tbl)%nat -> pop_assigned c tbl <> None.
Proof.
  induction tbl as [|[k vs] t IH]; intros c H; cbn [avail pop_assigned] in *; [lia|].
  destruct (str_eqb k c).
  - destruct vs; [cbn in H; lia|discriminate].
  - specialize (IH c H). destruct (pop_assigned c t) as [[? ?]|]; [discriminate|congruence].
Qed.

Lemma count_occ_name_cons n x l :
  count_occ_name n (x :: l) = ((if str_eqb n x then 1 else 0) + count_occ_name n l)%nat.
Proof. unfold count_occ_name. cbn [filter]. destruct (str_eqb n x); reflexivity. Qed.

Lemma distribute_spec : forall cands tbl,
  NoDup (assigned tbl) -> (forall c, (count_occ_name c cands <= avail c tbl)%nat) ->
  NoDup (distribute cands tbl) /\ (forall x, In x (distribute cands tbl) -> In x (assigned tbl))
  /\ length (distribute cands tbl) = length cands.
Proof.
  induction cands as [|c t IH]; intros tbl Hnd Hav; cbn [distribute].
  - repeat split; [constructor|intros x []].
  - pose proof (Hav c) as Hc. rewrite count_occ_name_cons, str_eqb_refl in Hc.
    destruct (pop_assigned c tbl) as [[v tbl']|] eqn:EP.
    2:{ exfalso. eapply pop_assigned_some; [|eassumption]. lia. }
    destruct (pop_assigned_spec _ _ _ _ EP) as (A1 & A2 & A3 & A4 & A5).
    destruct (A4 Hnd) as [Hnd' Hv].
    destruct (IH tbl' Hnd') as (B1 & B2 & B3).
    { intros d. specialize (Hav d). rewrite count_occ_name_cons in Hav.
      destruct (str_eqb d c) eqn:E.
      - apply str_eqb_eq in E. subst d. lia.
      - rewrite A2; [lia|]. intros ->. rewrite str_eqb_refl in E. discriminate. }
    repeat split.
    + constructor; [|assumption]. intros Hin. apply Hv. auto.
    + intros x [<-|Hx]; auto.
    + cbn [length]. now rewrite B3.
Qed.

(** distinct_first: the distinct candidate names in order of first occurrence *)
Lemma distinct_first_spec : forall l seen,
  NoDup (distinct_first l seen)
  /\ (forall x, In x (distinct_first l seen) <-> In x l /\ ~ In x seen).
Proof.
  induction l as [|x t IH]; intros seen; cbn [distinct_first].
  - split; [constructor|]. intros x. cbn. tauto.
  - destruct (in_names x seen) eqn:E.
    + destruct (IH seen) as [H1 H2]. split; [assumption|]. intros y. rewrite H2. apply in_names_In in E.
      cbn. split; [tauto|]. intros [[<-|H] Hn]; [contradiction|tauto].
    + apply in_names_false in E. destruct (IH (seen ++ [x])) as [H1 H2]. split.
      * constructor; [|assumption]. rewrite H2. rewrite in_app_iff. cbn. tauto.
      * intros y. cbn [In]. rewrite H2, in_app_iff. cbn.
        destruct (list_eq_dec Z.eq_dec x y) as [->|Hne]; [tauto|]. split; [intros [?|[? ?]]; [congruence|tauto]|].
        intros [[?|?] ?]; [congruence|]. right. split; [assumption|]. intros [?|[?|[]]]; [contradiction|congruence].
Qed.
Lemma count_occ_name_pos n l : In n l -> (1 <= count_occ_name n l)%nat.
Proof.
  induction l as [|x t IH]; [intros []|]. rewrite count_occ_name_cons. intros [->|H].
  - rewrite str_eqb_refl. lia.
  - specialize (IH H). lia.
Qed.
Lemma count_occ_name_zero n l : ~ In n l -> count_occ_name n l = O.
Proof.
  induction l as [|x t IH]; [reflexivity|]. rewrite count_occ_name_cons. intros H.
  destruct (str_eqb n x) eqn:E; [apply str_eqb_eq in E; subst; exfalso; apply H; now left|].
  rewrite IH; [reflexivity|]. intros Hc. apply H. now right.
Qed.

(** Sibling names handed out by sanitize_names_general are pairwise distinct, one per
    element, for EVERY list of raw names and every sanitising function. *)
Lemma sanitize_names_distinct_lemma :
  forall f elems names, sanitize_names f elems = Ok names ->
    NoDup names /\ length names = length elems.
Proof.
  intros f elems names H. unfold sanitize_names in H.
  set (cands := map (fun e => f (fst e) (snd e)) elems) in *.
  set (groups := distinct_first cands []) in *.
  destruct (assign_all groups cands groups) as [tbl| |] eqn:EA; cbn [bind] in H; try discriminate.
  injection H as <-.
  destruct (distinct_first_spec cands []) as [Gnd Gin]. fold groups in Gnd, Gin.
  destruct (assign_all_spec groups cands groups tbl EA Gnd ltac:(auto)) as (I1 & I3 & I4).
  { intros g Hg. apply count_occ_name_pos. now apply Gin in Hg. }
  destruct (distribute_spec cands tbl I3) as (D1 & D2 & D3).
  { intros c. rewrite I1. destruct (in_names c groups) eqn:E; [lia|].
    apply in_names_false in E. rewrite count_occ_name_zero; [lia|].
    intros Hc. apply E. apply Gin. split; [assumption|intros []]. }
  split; [assumption|]. rewrite D3. unfold cands. now rewrite map_length.
Qed.

(** * The counted names and stereo stems are safe components too *)
Lemma span_spec p : forall l a b, span p l = (a, b) -> l = a ++ b /\ Forall (fun c => p c = true) a.
Proof.
  induction l as [|c t IH]; intros a b H; cbn [span] in H.
  - injection H as <- <-. split; [reflexivity|constructor].
  - destruct (p c) eqn:E.
    + destruct (span p t) as [a' b'] eqn:ES. injection H as <- <-.
      destruct (IH _ _ eq_refl) as [-> Hf]. split; [reflexivity|constructor; assumption].
    + injection H as <- <-. split; [reflexivity|constructor].
Qed.

(** shape of a stereo name: stem ++ sep ++ [side] ++ blanks *)
Lemma stereo_match_shape name m :
  stereo_match name = Some m ->
  exists ws, name = st_stem m ++ st_sep m ++ [st_side m] ++ ws
    /\ Forall (fun c => is_space_c c = true) ws
    /\ st_sep m <> [] /\ Forall (fun c => is_sep c = true) (st_sep m)
    /\ (st_side m = 76 \/ st_side m = 82).
Proof.
  unfold stereo_match. intros H.
  destruct (lstrip_sub (rev name)) as (p & Hp & Hws).
  destruct (lstrip (rev name)) as [|side before] eqn:EL; [discriminate|].
  destruct ((side =? 76) || (side =? 82)) eqn:Eside; [|discriminate].
  destruct (span is_sep before) as [sep_rev stem_rev] eqn:ES.
  destruct (span_spec _ _ _ _ ES) as [Hb Hsep].
  destruct sep_rev as [|s0 sr]; [discriminate|].
  destruct (mem 10 stem_rev); [discriminate|]. injection H as <-. cbn [st_stem st_sep st_side].
  exists (rev p). split; [|split; [|split; [|split]]].
  - rewrite <- (rev_involutive name), Hp, Hb. rewrite !rev_app_distr. cbn [rev]. rewrite !rev_app_distr.
    cbn [rev]. rewrite <- !app_assoc. reflexivity.
  - now apply Forall_rev.
  - intros Hc. apply (f_equal (@length Z)) in Hc. cbn [rev] in Hc. rewrite app_length in Hc. cbn in Hc. lia.
  - change (rev sr ++ [s0]) with (rev (s0 :: sr)). now apply Forall_rev.
  - lia.
Qed.

Lemma dec_digits_ok : forall fuel z acc, 0 <= z ->
  Forall (fun c => is_word c = true) acc -> Forall (fun c => is_word c = true) (dec_digits fuel z acc).
Proof.
  induction fuel as [|f IH]; intros z acc Hz Ha; cbn [dec_digits]; [assumption|].
  assert (Hd : is_word (48 + z mod 10) = true).
  { unfold is_word. pose proof (Z.mod_pos_bound z 10 ltac:(lia)). lia. }
  destruct (z <? 10); [constructor; assumption|].
  apply IH; [apply Z.div_pos; lia|constructor; assumption].
Qed.
Lemma dec_digits_nonempty : forall fuel z acc, acc <> [] \/ fuel <> O -> dec_digits fuel z acc <> [].
Proof.
  induction fuel as [|f IH]; intros z acc H; cbn [dec_digits].
  - destruct H; [assumption|congruence].
  - destruct (z <? 10); [discriminate|]. apply IH. left. discriminate.
Qed.
Lemma count_str_ok i : 0 <= i -> Forall (fun c => ok_comp c = true) (count_str i).
Proof.
  intros Hi. unfold count_str, str_Z. destruct (i <? 0) eqn:E; [lia|].
  apply Forall_app. split; [repeat constructor|]. apply Forall_app. split; [|repeat constructor].
  eapply Forall_impl; [|apply dec_digits_ok; [assumption|constructor]].
  intros c Hc. unfold ok_comp, ok_file. now rewrite Hc.
Qed.

Definition safe_comp (n : list Z) : Prop :=
  n <> [] /\ Forall (fun c => ok_comp c = true) n /\ is_word (hd 0 n) = true
  /\ is_space_c (last_char n) = false /\ last_char n <> 46.

Lemma last_char_app l c : last_char (l ++ [c]) = c.
Proof. unfold last_char. rewrite rev_app_distr. reflexivity. Qed.
Lemma hd_app_nonempty (l m : list Z) : l <> [] -> hd 0 (l ++ m) = hd 0 l.
Proof. destruct l; [congruence|reflexivity]. Qed.

Lemma stereo_stem_props name m :
  stereo_match name = Some m -> is_word (hd 0 name) = true ->
  st_stem m <> [] /\ hd 0 (st_stem m) = hd 0 name /\ is_sep (last_char (st_stem m)) = false.
Proof.
  intros H Hw. pose proof H as H0. destruct (stereo_match_shape _ _ H) as (ws & Hn & _ & Hne & Hsep & _).
  assert (Hstem : st_stem m <> []).
  { intros Hc. rewrite Hc in Hn. cbn [app] in Hn. destruct (st_sep m) as [|s0 sr] eqn:E; [congruence|].
    rewrite Hn in Hw. cbn in Hw. inversion Hsep as [|? ? Hs0 _]; subst.
    unfold is_sep, is_space_c, is_word in *. lia. }
  split; [assumption|]. split; [rewrite Hn at 1; now rewrite hd_app_nonempty|].
  (* the stem does not end in a separator: span took the maximal run *)
  unfold stereo_match in H0.
  destruct (lstrip (rev name)) as [|side before]; [discriminate|].
  destruct ((side =? 76) || (side =? 82)); [|discriminate].
  destruct (span is_sep before) as [sep_rev stem_rev] eqn:ES.
  destruct sep_rev as [|s0 sr]; [discriminate|].
  destruct (mem 10 stem_rev); [discriminate|]. injection H0 as <-. cbn [st_stem] in *.
  unfold last_char. rewrite rev_involutive.
  clear - ES Hstem. revert s0 sr ES. induction before as [|c t IH]; intros s0 sr ES; cbn [span] in ES; [discriminate|].
  destruct (is_sep c) eqn:E; [|discriminate].
  destruct (span is_sep t) as [a b] eqn:ES2. injection ES as <- <- <-.
  destruct a as [|a0 ar].
  - destruct t as [|c2 t2]; cbn [span] in ES2.
    + injection ES2 as <-. cbn in Hstem. congruence.
    + destruct (is_sep c2) eqn:E2; [destruct (span is_sep t2); discriminate|]. injection ES2 as <-. cbn [hd]. assumption.
  - eapply IH. reflexivity.
Qed.

(** a counted name "(stem) (i) L" / "name (i)" of a safe component is a safe component *)
Lemma add_count_safe_lemma name i :
  0 <= i -> safe_comp name -> safe_comp (add_count name i).
Proof.
  intros Hi (Hne & Hok & Hw & Hsp & Hdot). unfold add_count.
  pose proof (count_str_ok i Hi) as Hc.
  destruct (stereo_match name) as [m|] eqn:EM.
  - destruct (stereo_match_shape _ _ EM) as (ws & Hn & _ & _ & _ & Hside).
    destruct (stereo_stem_props _ _ EM Hw) as (Hs1 & Hs2 & _).
    assert (Hstem_ok : Forall (fun c => ok_comp c = true) (st_stem m)).
    { rewrite Hn in Hok. now apply Forall_app in Hok. }
    unfold safe_comp. split; [destruct (st_stem m); [congruence|discriminate]|].
    assert (Hside_ok : ok_comp (st_side m) = true /\ is_space_c (st_side m) = false /\ st_side m <> 46).
    { destruct Hside as [Hs|Hs]; rewrite Hs; repeat split; discriminate. }
    destruct Hside_ok as (Hk1 & Hk2 & Hk3).
    split; [|split; [|split]].
    + apply Forall_app; split; [assumption|]. apply Forall_app; split; [repeat constructor|].
      apply Forall_app; split; [assumption|]. repeat constructor. assumption.
    + rewrite hd_app_nonempty by assumption. congruence.
    + rewrite !app_assoc. rewrite last_char_app. assumption.
    + rewrite !app_assoc. rewrite last_char_app. assumption.
  - unfold safe_comp. split; [destruct name; [congruence|discriminate]|].
    split; [|split; [|split]].
    + apply Forall_app; split; [assumption|]. apply Forall_app; split; [repeat constructor|assumption].
    + now rewrite hd_app_nonempty.
    + unfold count_str. rewrite !app_assoc, last_char_app. reflexivity.
    + unfold count_str. rewrite !app_assoc, last_char_app. discriminate.
Qed.

(** the export name of ANY raw name is a safe component (files and directories) *)
Lemma export_name_safe_comp name is_file :
  safe_comp (make_export_name name is_file ++ (if is_file then [46; 119; 97; 118] else [])).
Proof.
  destruct (export_name_safe_lemma name is_file) as (H1 & H2 & H3 & H4 & H5).
  assert (Hok : Forall (fun c => ok_comp c = true) (make_export_name name is_file)).
  { eapply Forall_impl; [|exact H2]. intros c Hc. unfold ok_comp. now rewrite Hc. }
  destruct is_file.
  - unfold safe_comp. split; [destruct (make_export_name name true); [congruence|discriminate]|].
    split; [apply Forall_app; split; [assumption|repeat constructor]|].
    split; [now rewrite hd_app_nonempty|].
    change [46; 119; 97; 118] with ([46; 119; 97] ++ [118]). rewrite app_assoc, last_char_app. split; [reflexivity|discriminate].
  - rewrite app_nil_r. unfold safe_comp. repeat split; try assumption. now apply H5.
Qed.

(** a safe component is never ".", "..", and contains no path separator: joining safe
    components below a destination stays inside it *)
Lemma safe_comp_confined n :
  safe_comp n -> n <> [46] /\ n <> [46; 46] /\ ~ In 47 n /\ ~ In 92 n /\ ~ In 0 n.
Proof.
  intros (Hne & Hok & Hw & _ & _).
  split; [intros ->; discriminate|]. split; [intros ->; discriminate|].
  rewrite Forall_forall in Hok.
  repeat split; intros Hin; apply Hok in Hin; discriminate.
Qed.

(** * Termination of the naming loop *)
Lemma free_name_fuel : forall fuel name i j taken,
  0 <= j -> (Z.to_nat (zlen taken - j) < fuel)%nat -> free_name fuel name i j taken <> OutOfFuel.
Proof.
  induction fuel as [|f IH]; intros name i j taken Hj Hf; [lia|].
  cbn [free_name]. destruct (in_names (add_count name i) taken); [|discriminate].
  destruct (j + 1 >? zlen taken) eqn:E; [discriminate|]. apply IH; lia.
Qed.
Lemma add_taken_len n taken : (length (add_taken n taken) <= S (length taken))%nat.
Proof. unfold add_taken. destruct (in_names n taken); rewrite ?app_length; cbn; lia. Qed.
Lemma assign_group_fuel : forall members fuel name i first taken acc,
  (length taken + members < fuel)%nat -> assign_group fuel members name i first taken acc <> OutOfFuel.
Proof.
  induction members as [|m IH]; intros fuel name i first taken acc Hf; cbn [assign_group]; [discriminate|].
  destruct first.
  - apply IH. pose proof (add_taken_len name taken). lia.
  - destruct (free_name fuel name (i + 1) 0 taken) as [[nn i']| |] eqn:EF; cbn [bind].
    + cbn [fst snd]. apply IH. pose proof (add_taken_len nn taken). lia.
    + discriminate.
    + exfalso. eapply free_name_fuel; [| |exact EF]; [lia|]. unfold zlen. lia.
Qed.
Lemma count_occ_name_le n l : (count_occ_name n l <= length l)%nat.
Proof. unfold count_occ_name. induction l as [|x t IH]; cbn [filter length]; [lia|]. destruct (str_eqb n x); cbn [length]; lia. Qed.
Lemma assign_all_fuel : forall groups cands taken, assign_all groups cands taken <> OutOfFuel.
Proof.
  induction groups as [|g rest IH]; intros cands taken; cbn [assign_all]; [discriminate|].
  destruct (count_occ_name g cands =? 1)%nat.
  - specialize (IH cands taken). destruct (assign_all rest cands taken); cbn [bind]; congruence.
  - destruct (assign_group _ (count_occ_name g cands) g 0 true taken []) as [[a t']| |] eqn:EG; cbn [bind].
    + cbn [snd]. specialize (IH cands t'). destruct (assign_all rest cands t'); cbn [bind]; congruence.
    + discriminate.
    + exfalso. eapply assign_group_fuel; [|exact EG]. pose proof (count_occ_name_le g cands). lia.
Qed.
Lemma sanitize_names_total_lemma f elems : sanitize_names f elems <> OutOfFuel.
Proof.
  unfold sanitize_names. set (c := map _ elems).
  pose proof (assign_all_fuel (distinct_first c []) c (distinct_first c [])) as H.
  destruct (assign_all _ c _); cbn [bind]; congruence.
Qed.

(** * Shape of the names handed out: a candidate, or a counted candidate *)
Definition safe_body (n : list Z) : Prop :=
  n <> [] /\ Forall (fun c => ok_comp c = true) n /\ is_word (hd 0 n) = true.
Definition WAV := [46; 119; 97; 118].

Lemma safe_body_wav n : safe_body n -> safe_comp (n ++ WAV).
Proof.
  intros (H1 & H2 & H3). unfold safe_comp. split; [destruct n; [congruence|discriminate]|].
  split; [apply Forall_app; split; [assumption|repeat constructor]|].
  split; [now rewrite hd_app_nonempty|].
  unfold WAV. change [46; 119; 97; 118] with ([46; 119; 97] ++ [118]). rewrite app_assoc, last_char_app.
  split; [reflexivity|discriminate].
Qed.
Lemma export_name_body name is_file : safe_body (make_export_name name is_file).
Proof.
  destruct (export_name_safe_lemma name is_file) as (H1 & H2 & H3 & _).
  split; [assumption|]. split; [|assumption].
  eapply Forall_impl; [|exact H2]. intros c Hc. unfold ok_comp. now rewrite Hc.
Qed.
Lemma add_count_from_body name i : 0 <= i -> safe_body name -> safe_comp (add_count name i).
Proof.
  intros Hi (Hne & Hok & Hw). unfold add_count.
  pose proof (count_str_ok i Hi) as Hc.
  destruct (stereo_match name) as [m|] eqn:EM.
  - destruct (stereo_match_shape _ _ EM) as (ws & Hn & _ & _ & _ & Hside).
    destruct (stereo_stem_props _ _ EM Hw) as (Hs1 & Hs2 & _).
    assert (Hstem_ok : Forall (fun c => ok_comp c = true) (st_stem m)).
    { rewrite Hn in Hok. now apply Forall_app in Hok. }
    unfold safe_comp. split; [destruct (st_stem m); [congruence|discriminate]|].
    assert (Hside_ok : ok_comp (st_side m) = true /\ is_space_c (st_side m) = false /\ st_side m <> 46).
    { destruct Hside as [Hs|Hs]; rewrite Hs; repeat split; discriminate. }
    destruct Hside_ok as (Hk1 & Hk2 & Hk3).
    split; [|split; [|split]].
    + apply Forall_app; split; [assumption|]. apply Forall_app; split; [repeat constructor|].
      apply Forall_app; split; [assumption|]. repeat constructor. assumption.
    + rewrite hd_app_nonempty by assumption. congruence.
    + rewrite !app_assoc. rewrite last_char_app. assumption.
    + rewrite !app_assoc. rewrite last_char_app. assumption.
  - unfold safe_comp. split; [destruct name; [congruence|discriminate]|].
    split; [|split; [|split]].
    + apply Forall_app; split; [assumption|]. apply Forall_app; split; [repeat constructor|assumption].
    + now rewrite hd_app_nonempty.
    + unfold count_str. rewrite !app_assoc, last_char_app. reflexivity.
    + unfold count_str. rewrite !app_assoc, last_char_app. discriminate.
Qed.
Lemma safe_comp_body n : safe_comp n -> safe_body n.
Proof. intros (H1 & H2 & H3 & _). repeat split; assumption. Qed.

Lemma free_name_shape : forall fuel name i j taken nn i',
  free_name fuel name i j taken = Ok (nn, i') -> i <= i' /\ nn = add_count name i'.
Proof.
  induction fuel as [|f IH]; intros name i j taken nn i' H; [discriminate|]. cbn [free_name] in H.
  destruct (in_names (add_count name i) taken).
  - destruct (j + 1 >? zlen taken); [discriminate|]. apply IH in H as [H1 H2]. split; [lia|assumption].
  - injection H as <- <-. split; [lia|reflexivity].
Qed.
Lemma assign_group_shape : forall members fuel name i first taken acc acc' taken',
  assign_group fuel members name i first taken acc = Ok (acc', taken') ->
  (first = false -> 1 <= i) ->
  forall x, In x acc' -> In x acc \/ x = name \/ exists k, 2 <= k /\ x = add_count name k.
Proof.
  induction members as [|m IH]; intros fuel name i first taken acc acc' taken' H Hi x Hx; cbn [assign_group] in H.
  - injection H as <- <-. now left.
  - destruct first.
    + eapply IH in H; [|intros _; lia|exact Hx]. destruct H as [H|H]; [|now right].
      apply in_app_iff in H as [H|[<-|[]]]; [now left|right; now left].
    + specialize (Hi eq_refl).
      destruct (free_name fuel name (i + 1) 0 taken) as [[nn i']| |] eqn:EF; cbn [bind] in H; try discriminate.
      cbn [fst snd] in H. apply free_name_shape in EF as [E1 E2].
      eapply IH in H; [|intros _; lia|exact Hx]. destruct H as [H|H]; [|now right].
      apply in_app_iff in H as [H|[<-|[]]]; [now left|]. right. right. exists i'. split; [lia|assumption].
Qed.
Lemma assign_all_shape : forall groups cands taken tbl,
  assign_all groups cands taken = Ok tbl ->
  forall x, In x (assigned tbl) -> exists g, In g groups /\ (x = g \/ exists k, 2 <= k /\ x = add_count g k).
Proof.
  induction groups as [|g rest IH]; intros cands taken tbl H x Hx; cbn [assign_all] in H.
  - injection H as <-. destruct Hx.
  - destruct (count_occ_name g cands =? 1)%nat.
    + destruct (assign_all rest cands taken) as [r| |] eqn:ER; cbn [bind] in H; try discriminate.
      injection H as <-. cbn [assigned map concat snd app] in Hx. destruct Hx as [<-|Hx].
      * exists g. split; [now left|now left].
      * destruct (IH _ _ _ ER x Hx) as (g' & Hg' & Hs). exists g'. split; [now right|assumption].
    + destruct (assign_group _ (count_occ_name g cands) g 0 true taken []) as [[acc taken']| |] eqn:EG; cbn [bind] in H; try discriminate.
      cbn [fst snd] in H.
      destruct (assign_all rest cands taken') as [r| |] eqn:ER; cbn [bind] in H; try discriminate.
      injection H as <-. cbn [assigned map concat snd] in Hx. apply in_app_iff in Hx as [Hx|Hx].
      * eapply assign_group_shape in EG; [|discriminate|exact Hx].
        destruct EG as [[]|EG]. exists g. split; [now left|assumption].
      * destruct (IH _ _ _ ER x Hx) as (g' & Hg' & Hs). exists g'. split; [now right|assumption].
Qed.
Lemma distribute_in : forall cands tbl x, In x (distribute cands tbl) -> In x cands \/ In x (assigned tbl).
Proof.
  induction cands as [|c t IH]; intros tbl x H; cbn [distribute] in H; [destruct H|].
  destruct (pop_assigned c tbl) as [[v tbl']|] eqn:EP.
  - destruct (pop_assigned_spec _ _ _ _ EP) as (_ & _ & A3 & _ & A5).
    destruct H as [<-|H]; [now right|]. destruct (IH _ _ H) as [H1|H1]; [left; now right|right; auto].
  - destruct H as [<-|H]; [left; now left|]. destruct (IH _ _ H) as [H1|H1]; [left; now right|now right].
Qed.

(** every name handed out is the sanitised form of some element, possibly counted *)
Lemma sanitize_names_shape f elems names :
  sanitize_names f elems = Ok names ->
  forall x, In x names ->
    exists e, In e elems /\ (x = f (fst e) (snd e) \/ exists k, 2 <= k /\ x = add_count (f (fst e) (snd e)) k).
Proof.
  intros H x Hx. unfold sanitize_names in H.
  set (cands := map (fun e => f (fst e) (snd e)) elems) in *.
  set (groups := distinct_first cands []) in *.
  destruct (assign_all groups cands groups) as [tbl| |] eqn:EA; cbn [bind] in H; try discriminate.
  injection H as <-.
  destruct (distinct_first_spec cands []) as [_ Gin]. fold groups in Gin.
  assert (Hc : forall c, In c cands -> exists e, In e elems /\ c = f (fst e) (snd e)).
  { intros c Hc. unfold cands in Hc. apply in_map_iff in Hc as (e & <- & He). eauto. }
  apply distribute_in in Hx as [Hx|Hx].
  - destruct (Hc _ Hx) as (e & He & ->). eauto.
  - destruct (assign_all_shape _ _ _ _ EA x Hx) as (g & Hg & Hs).
    apply Gin in Hg as [Hg _]. destruct (Hc _ Hg) as (e & He & ->). eauto.
Qed.

(** all export names of one directory level are safe path components *)
Lemma export_names_safe_lemma elems names :
  make_export_names elems = Ok names ->
  (forall x, In x names -> safe_comp (x ++ WAV))
  /\ ((forall e, In e elems -> snd e = false) -> forall x, In x names -> safe_comp x).
Proof.
  intros H. split.
  - intros x Hx. destruct (sanitize_names_shape _ _ _ H x Hx) as (e & He & [->|(k & Hk & ->)]).
    + apply safe_body_wav, export_name_body.
    + apply safe_body_wav, safe_comp_body, add_count_from_body; [lia|apply export_name_body].
  - intros Hd x Hx. destruct (sanitize_names_shape _ _ _ H x Hx) as (e & He & [->|(k & Hk & ->)]).
    + rewrite (Hd e He). pose proof (export_name_safe_comp (fst e) false) as Hs. now rewrite app_nil_r in Hs.
    + apply add_count_from_body; [lia|apply export_name_body].
Qed.

(** the name of a merged stereo pair (the stem) is a safe file-name body *)
Lemma stereo_stem_body name m : safe_body name -> stereo_match name = Some m -> safe_body (st_stem m).
Proof.
  intros (Hne & Hok & Hw) EM.
  destruct (stereo_match_shape _ _ EM) as (ws & Hn & _).
  destruct (stereo_stem_props _ _ EM Hw) as (Hs1 & Hs2 & _).
  split; [assumption|]. split; [|congruence]. rewrite Hn in Hok. now apply Forall_app in Hok.
Qed.
Lemma combine_loop_names : forall todo names marked x src,
  In (x, src) (combine_loop todo names marked) ->
  (exists i, In (i, x) todo) \/ (exists i n m, In (i, n) todo /\ stereo_match n = Some m /\ x = st_stem m).
Proof.
  induction todo as [|[i name] rest IH]; intros names marked x src H; cbn [combine_loop] in H; [destruct H|].
  assert (Hrest : forall mk, In (x, src) (combine_loop rest names mk) ->
      (exists i0, In (i0, x) ((i, name) :: rest)) \/
      (exists i0 n m, In (i0, n) ((i, name) :: rest) /\ stereo_match n = Some m /\ x = st_stem m)).
  { intros mk Hm. destruct (IH _ _ _ _ Hm) as [(i0 & H0)|(i0 & n & m & H0 & H1)].
    - left. exists i0. now right.
    - right. exists i0, n, m. split; [now right|assumption]. }
  destruct (in_names name marked); [eauto|].
  destruct (stereo_match name) as [m|] eqn:EM.
  - destruct (last_index_of _ names 0 None).
    + destruct H as [H|H]; [|eauto]. injection H as <- _. right. exists i, name, m. split; [now left|auto].
    + destruct H as [H|H]; [|eauto]. injection H as <- _. left. exists i. now left.
  - destruct H as [H|H]; [|eauto]. injection H as <- _. left. exists i. now left.
Qed.
Lemma combine_stereo_names_safe_lemma names :
  Forall safe_body names -> forall x src, In (x, src) (combine_stereo names) -> safe_comp (x ++ WAV).
Proof.
  intros Hs x src H. unfold combine_stereo in H. rewrite Forall_forall in Hs.
  apply combine_loop_names in H as [(i & Hi)|(i & n & m & Hi & Hm & ->)].
  - apply in_combine_r in Hi. apply safe_body_wav. auto.
  - apply in_combine_r in Hi. apply safe_body_wav. eapply stereo_stem_body; eauto.
Qed.

(** D6: merged pairs are named after their stem even if that name is in use *)
Lemma stereo_stem_collision_refuted_lemma :
  exists names, NoDup names /\ ~ NoDup (map fst (combine_stereo names)).
Proof.
  exists [[65; 32; 76]; [65; 32; 82]; [65]]. split.
  - repeat constructor; cbn; intuition discriminate.
  - vm_compute. intros H. inversion H as [|? ? Hn _]. apply Hn. now left.
Qed.
