(** Specification side of the composed CDDA theorem (C03): a LOGICAL audio disc, the
    serialiser that prints its canonical cue sheet, and the files `export` is expected to
    write for it.  Nothing here mentions the parser or the window walk. *)
From SE Require Import Base Codecs Cue CueProofs CueDecorProofs Names Transcode AkaiImage CddaImage.

(** A track: its TITLE line (if any), the mode word of its TRACK line (AUDIO in any letter
    case), its FIRST index line - the track's start - and any further index lines.  An index is
    (number, MM, SS, FF) with arbitrary non-negative fields (SS and FF need not be below 60 / 75:
    the code does not require it). *)
Record ltrack := { lt_title : option (list Z); lt_mode : list Z; lt_index : cindex; lt_more : list cindex }.
Record ldisc := { ld_bin_name : list Z; ld_tracks : list ltrack }.

(** the track's start in sectors of 2352 bytes: (MM*60 + SS)*75 + FF of its first index *)
Definition lt_start (t : ltrack) : Z := (60 * ix_min (lt_index t) + ix_sec (lt_index t)) * 75 + ix_frm (lt_index t).
Definition disc_starts (D : ldisc) : list Z := map lt_start (ld_tracks D).

(** the usual way of writing a position: frame count -> MM:SS:FF with FF < 75, SS < 60 *)
Definition msf_of_frames (n f : Z) : cindex :=
  {| ix_num := n; ix_min := f / 4500; ix_sec := (f / 75) mod 60; ix_frm := f mod 75 |}.

Definition ltrack_ok (t : ltrack) : Prop :=
  match lt_title t with Some s => wf_text s | None => True end
  /\ map lower_c (lt_mode t) = AUDIO_LC
  /\ wf_index (lt_index t) /\ Forall wf_index (lt_more t).
(** a valid disc: printable texts, every track AUDIO / audio / Audio ..., strictly increasing track starts *)
Definition disc_ok (D : ldisc) : Prop :=
  wf_text (ld_bin_name D) /\ Forall ltrack_ok (ld_tracks D) /\ increasing (disc_starts D).
(** the bin reaches at least the last track's start *)
Definition bin_covers (D : ldisc) (bin : list Z) : Prop := 2352 * last (disc_starts D) 0 <= zlen bin.

(** * The serialiser: FILE "<bin>" BINARY, then per track: TRACK nn <mode>, TITLE "<title>",
    INDEX nn MM:SS:FF ... (numbers in decimal, at least two digits) *)
Definition AUDIO_UC : list Z := [65; 85; 68; 73; 79].
Fixpoint disc_ctracks (k : Z) (ts : list ltrack) : list ctrack :=
  match ts with
  | [] => []
  | t :: r => mkt k (lt_mode t) (lt_title t) (lt_index t :: lt_more t) [] :: disc_ctracks (k + 1) r
  end.
Definition disc_cue (D : ldisc) : cue := {| c_bin := ld_bin_name D; c_tracks := disc_ctracks 1 (ld_tracks D) |}.
Definition cue_serialise (D : ldisc) : list (list Z) := print_cue (disc_cue D).

(** * The expected export *)
(** the name of track number [k]: its title, or "Untitled Track k" when it has none (or an empty one) *)
Definition ltrack_name (k : Z) (t : ltrack) : list Z :=
  match lt_title t with
  | Some (c :: s) => c :: s
  | _ => UNTITLED ++ str_Z k
  end.
Fixpoint disc_names (k : Z) (ts : list ltrack) : list (list Z) :=
  match ts with [] => [] | t :: r => ltrack_name k t :: disc_names (k + 1) r end.
Definition disc_elems (D : ldisc) : list (list Z * bool) := map (fun n => (n, true)) (disc_names 1 (ld_tracks D)).

(** the PCM of every track: the bin from the track's start to the next track's start; the
    last track to the end of the bin, in whole 4-byte frames *)
Fixpoint expected_pcms (fs : list Z) (bin : list Z) : list (list Z) :=
  match fs with
  | [] => []
  | a :: t =>
      match t with
      | [] => [slice bin (2352 * a) (zlen bin - (zlen bin - 2352 * a) mod 4)]
      | b :: _ => slice bin (2352 * a) (2352 * b) :: expected_pcms t bin
      end
  end.
Definition expected_file (np : list Z * list Z) : wavfile :=
  {| w_path := [fst np]; w_rate := 44100; w_channels := 2; w_pcm := snd np |}.
(** one stereo 44.1 kHz file per track, named [names] track by track *)
Definition expected_files (names : list (list Z)) (D : ldisc) (bin : list Z) : list wavfile :=
  map expected_file (combine names (expected_pcms (disc_starts D) bin)).
(** the file names: the exporter's own sibling-name routine (sanitising, then telling equal
    names apart by a counter) on the track names; the safe-name routine runs first and can
    fail only the way the export-name routine can (CouldNotDetermineName) *)
Definition expected (D : ldisc) (bin : list Z) : res (list wavfile) :=
  _ <- make_safe_names (disc_elems D) ;;
  names <- make_export_names (disc_elems D) ;;
  Ok (expected_files names D bin).

(** sibling names that need no counter: the sanitised names are pairwise distinct *)
Definition disc_plain (D : ldisc) : Prop :=
  NoDup (map make_safe_name (disc_names 1 (ld_tracks D)))
  /\ NoDup (map (fun n => make_export_name n true) (disc_names 1 (ld_tracks D))).

(** * A worked example: three tracks - "Song", an untitled one, "Song" again - starting at
    00:00:74, 00:01:00 (one frame later: a second carry) and 00:01:02; the second track has a
    pre-gap index; the bin is 3 sectors and 7 bytes long from the first track's start. *)
Definition ex_song : list Z := [83; 111; 110; 103].
Definition ex_disc : ldisc :=
  {| ld_bin_name := [100; 46; 98; 105; 110];
     ld_tracks := [ {| lt_title := Some ex_song; lt_mode := AUDIO_UC; lt_index := ex_ix 1 0 0 74; lt_more := [] |};
                    {| lt_title := None; lt_mode := AUDIO_UC; lt_index := ex_ix 0 0 1 0; lt_more := [ex_ix 1 0 1 1] |};
                    {| lt_title := Some ex_song; lt_mode := AUDIO_UC; lt_index := ex_ix 1 0 1 2; lt_more := [] |} ] |}.
Fixpoint ramp (n : nat) (i : Z) : list Z := match n with O => [] | S k => i mod 251 :: ramp k (i + 1) end.
Definition ex_bin : list Z := ramp (Z.to_nat (77 * 2352 + 7)) 0.
