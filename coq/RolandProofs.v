(** Lemmas about the Roland S-7xx model (Roland.v). *)
From SE Require Import Base Fat FatProofs Stream StreamProofs Roland.
Ltac Zify.zify_post_hook ::= Z.to_euclidean_division_equations.

(** * The window selected by the loop mode *)
Definition roland_end (mode : Z) (p : rpoints) : Z :=
  if (mode =? 1) || (mode =? 3) then p_rel_end p else p_sus_end p.
Definition roland_reversed (mode : Z) : bool := (mode =? 5) || (mode =? 6).

Lemma roland_window_lemma : forall mode p,
  w_off (get_params mode p) = 2 * p_start p /\
  w_size (get_params mode p) = 2 * (roland_end mode p - p_start p + 1) /\
  w_rev (get_params mode p) = roland_reversed mode.
Proof.
  intros mode p. unfold get_params, roland_end, roland_reversed.
  destruct (Z.eqb_spec mode 1) as [E1|N1]; [subst; cbn; repeat split; lia|].
  destruct (Z.eqb_spec mode 2) as [E2|N2]; [subst; cbn; repeat split; lia|].
  destruct (Z.eqb_spec mode 3) as [E3|N3]; [subst; cbn; repeat split; lia|].
  destruct (Z.eqb_spec mode 4) as [E4|N4]; [subst; cbn; repeat split; lia|].
  destruct (Z.eqb_spec mode 5) as [E5|N5]; [subst; cbn; repeat split; lia|].
  destruct (Z.eqb_spec mode 6) as [E6|N6]; [subst; cbn; repeat split; lia|].
  cbn. repeat split; lia.
Qed.

Lemma loop_mode_of_byte_range b : 0 <= loop_mode_of_byte b <= 6.
Proof. unfold loop_mode_of_byte. destruct (Z.leb_spec 0 b), (Z.leb_spec b 6); cbn; lia. Qed.

(** * Logical content of the views *)
Lemma logical_off off size sub content :
  0 <= off -> 0 <= size -> off + size <= zlen (logical sub content) ->
  logical (V (KOff off) size sub) content = slice (logical sub content) off (off + size).
Proof.
  intros Ho Hs Hl. cbn [logical addr].
  rewrite (slice_map_znth 0) by lia.
  assert (E : zrange off (off + size) = map (fun x => x + off) (zrange 0 size)).
  { rewrite <- zrange_shift. f_equal; lia. }
  rewrite E, map_map. apply map_ext. intros a. f_equal. lia.
Qed.

Lemma nth_zrange_nat : forall n a i, (i < n)%nat -> nth i (zrange_nat a n) 0 = a + Z.of_nat i.
Proof.
  induction n as [|n IH]; intros a i H; [lia|].
  destruct i as [|i]; cbn [zrange_nat nth]; [lia|]. rewrite IH by lia. lia.
Qed.
Lemma znth_map_zrange {B} (d : B) (f : Z -> B) n a :
  0 <= a < n -> znth d (map f (zrange 0 n)) a = f a.
Proof.
  intros H. unfold znth, zrange.
  rewrite (nth_indep _ d (f 0)) by (rewrite map_length, zrange_nat_length; lia).
  rewrite map_nth, nth_zrange_nat by lia. f_equal. lia.
Qed.

(** byte [a] of a cluster-chained file is byte [a mod L] of cluster number [a / L] of the chain *)
Lemma roland_file_bytes_lemma : forall L secs parent content a,
  0 < L -> 0 <= a < L * zlen secs ->
  znth 0 (logical (chain_view L secs parent) content) a
  = znth 0 (logical parent content) (znth 0 secs (a / L) * L + a mod L).
Proof.
  intros L secs parent content a HL Ha. unfold chain_view. cbn [logical].
  rewrite znth_map_zrange by lia. reflexivity.
Qed.

(** * Reversal *)
Lemma chunks2_nil f : chunks f 2 [] = [].
Proof. destruct f; reflexivity. Qed.
Lemma chunks2_fuel : forall f1 f2 (l : list Z),
  (length l <= f1)%nat -> (length l <= f2)%nat -> chunks f1 2 l = chunks f2 2 l.
Proof.
  induction f1 as [|f1 IH]; intros f2 l H1 H2.
  - destruct l; [|cbn in H1; lia]. now rewrite !chunks2_nil.
  - destruct l as [|x [|y t]].
    + now rewrite !chunks2_nil.
    + destruct f2; [cbn in H2; lia|]. cbn. now rewrite !chunks2_nil.
    + destruct f2; [cbn in H2; lia|]. cbn [chunks firstn skipn]. f_equal.
      apply IH; cbn in *; lia.
Qed.
Lemma rev_samples_cons2 x y t : rev_samples 2 (x :: y :: t) = rev_samples 2 t ++ [x; y].
Proof.
  unfold rev_samples. change (Z.to_nat 2) with 2%nat.
  change (chunks (length (x :: y :: t)) 2 (x :: y :: t)) with ([x; y] :: chunks (S (length t)) 2 t).
  rewrite (chunks2_fuel (S (length t)) (length t)) by lia.
  cbn [rev]. rewrite concat_app. cbn [concat]. now rewrite app_nil_r.
Qed.

Definition revmap (n : Z) (l : list Z) : list Z :=
  map (fun a => znth 0 l (n - (a / 2 + 1) * 2 + a mod 2)) (zrange 0 n).
Lemma znth_cons2 (x y : Z) t i : 0 <= i -> znth 0 (x :: y :: t) (i + 2) = znth 0 t i.
Proof.
  intros H. unfold znth. replace (Z.to_nat (i + 2)) with (S (S (Z.to_nat i))) by lia. reflexivity.
Qed.
Lemma revmap_rev_samples : forall k l, length l = (2 * k)%nat -> revmap (2 * Z.of_nat k) l = rev_samples 2 l.
Proof.
  induction k as [|k IH]; intros l Hl.
  - destruct l; [reflexivity|cbn in Hl; lia].
  - destruct l as [|x [|y t]]; try (cbn in Hl; lia).
    rewrite rev_samples_cons2, <- IH by (cbn in Hl; lia).
    unfold revmap.
    rewrite (zrange_app 0 (2 * Z.of_nat k) (2 * Z.of_nat (S k))) by lia.
    rewrite map_app. f_equal.
    + apply map_ext_zrange. intros a Ha.
      replace (2 * Z.of_nat (S k) - (a / 2 + 1) * 2 + a mod 2)
        with ((2 * Z.of_nat k - (a / 2 + 1) * 2 + a mod 2) + 2) by lia.
      apply znth_cons2. lia.
    + unfold zrange. replace (Z.to_nat (2 * Z.of_nat (S k) - 2 * Z.of_nat k)) with 2%nat by lia.
      cbn [zrange_nat map]. f_equal; [|f_equal].
      * replace (2 * Z.of_nat (S k) - (2 * Z.of_nat k / 2 + 1) * 2 + (2 * Z.of_nat k) mod 2) with 0 by lia.
        reflexivity.
      * replace (2 * Z.of_nat (S k) - ((2 * Z.of_nat k + 1) / 2 + 1) * 2 + (2 * Z.of_nat k + 1) mod 2) with 1 by lia.
        reflexivity.
Qed.

(** the logical content of StreamReversed(sub, size, 2) over a sub-stream of exactly [size]
    (even) bytes is the sub-stream's content with its 16-bit words in reverse order *)
Lemma logical_rev size sub content :
  0 <= size -> size mod 2 = 0 -> zlen (logical sub content) = size ->
  logical (V (KRev 2) size sub) content = rev_samples 2 (logical sub content).
Proof.
  intros Hs Hm Hl. cbn [logical addr].
  set (L := logical sub content) in *.
  assert (Hk : length L = (2 * Z.to_nat (size / 2))%nat) by (unfold zlen in Hl; lia).
  rewrite <- (revmap_rev_samples _ _ Hk). unfold revmap.
  replace (2 * Z.of_nat (Z.to_nat (size / 2))) with size by lia. reflexivity.
Qed.

(** * The exported bytes of one sample *)
Definition window_bytes (mode : Z) (p : rpoints) (file_content : list Z) : list Z :=
  let w := slice file_content (2 * p_start p) (2 * (roland_end mode p + 1)) in
  if roland_reversed mode then rev_samples 2 w else w.

Lemma roland_sample_bytes_lemma : forall mode p file content,
  0 <= p_start p -> p_start p <= roland_end mode p + 1 ->
  2 * (roland_end mode p + 1) <= zlen (logical file content) ->
  logical (roland_sample_view mode p file) content = window_bytes mode p (logical file content).
Proof.
  intros mode p file content H0 H1 H2. unfold roland_sample_view, window_bytes.
  destruct (roland_window_lemma mode p) as (Eo & Es & Er). rewrite Eo, Es, Er.
  assert (Hoff : logical (V (KOff (2 * p_start p)) (2 * (roland_end mode p - p_start p + 1)) file) content
                 = slice (logical file content) (2 * p_start p) (2 * (roland_end mode p + 1))).
  { rewrite logical_off by lia. f_equal. lia. }
  destruct (roland_reversed mode).
  - rewrite logical_rev; [now rewrite Hoff| lia | lia |].
    rewrite logical_len by lia. reflexivity.
  - exact Hoff.
Qed.

(** forward modes: every history of seek / tell / read on the exported stream behaves as an
    ordinary file over the window (instance of the C08 theorem) *)
Lemma roland_forward_reads_lemma : forall mode p file content ops s,
  roland_reversed mode = false -> wf file content ->
  0 <= p_start p -> p_start p <= roland_end mode p ->
  2 * (roland_end mode p + 1) <= zlen (logical file content) ->
  good (roland_sample_view mode p file) s -> Forall op_ok ops ->
  fst (run (roland_sample_view mode p file) content s ops)
  = ref_run (window_bytes mode p (logical file content)) (v_tell s) ops.
Proof.
  intros mode p file content ops s Hr Hwf H0 H1 H2 Hg Hops.
  rewrite <- roland_sample_bytes_lemma by lia.
  revert Hg. unfold roland_sample_view.
  destruct (roland_window_lemma mode p) as (Eo & Es & Er). rewrite Er, Hr. intros Hg.
  apply view_refines_file_lemma; auto.
  cbn [wf kind_ok]. rewrite Eo, Es. repeat split; try lia. exact Hwf.
Qed.

(** the chained file of a sample is well formed when its clusters lie inside the data window *)
Lemma roland_file_wf_lemma : forall L doff ilen secs content,
  0 < L -> 0 <= doff -> doff < ilen -> ilen <= zlen content -> secs <> [] ->
  Forall (fun c => 0 <= c /\ (c + 1) * L <= ilen - doff) secs ->
  wf (roland_file_view L doff ilen secs) content.
Proof.
  intros L doff ilen secs content HL Hd Hi Hc Hne Hs.
  unfold roland_file_view, chain_view. cbn [wf kind_ok].
  assert (0 < zlen secs) by (destruct secs; [congruence|rewrite zlen_cons; pose proof (zlen_nonneg secs); lia]).
  repeat split; try lia.
  - rewrite logical_len by lia. exact Hs.
  - cbn [logical]. lia.
Qed.

(** * Chain resolution: get_file on a table that holds the chain *)
Lemma roland_get_file_chain_lemma : forall N links c top,
  Chain links (hd 0 c) c -> zlen c <= N -> 0 <= top ->
  roland_get_file N links (hd 0 c) top = Ok (skipn (Z.to_nat top) c).
Proof.
  intros N links c top Hc Hn Ht. unfold roland_get_file.
  rewrite (get_path_follows_lemma links N (hd 0 c) c Hc Hn). cbn [bind].
  destruct (Z.gtb_spec top 0); [reflexivity|].
  replace top with 0 by lia. reflexivity.
Qed.

(** * Which samples a performance exports *)
Lemma In_ins x y l : In x (ins y l) <-> x = y \/ In x l.
Proof.
  induction l as [|h t IH]; cbn [ins]; [cbn; intuition|].
  destruct (Z.ltb_spec y h); [cbn; intuition|].
  destruct (Z.eqb_spec y h); [subst; cbn; intuition|].
  cbn [In]. rewrite IH. intuition.
Qed.
Lemma In_sort_dedupe x l : In x (sort_dedupe l) <-> In x l.
Proof.
  unfold sort_dedupe. induction l as [|h t IH]; cbn [fold_right]; [reflexivity|].
  rewrite In_ins, IH. cbn. intuition.
Qed.
Lemma In_ptr_filter x l : In x (ptr_filter l) <-> In x l /\ 0 <= x.
Proof. unfold ptr_filter. rewrite In_sort_dedupe, filter_In. intuition lia. Qed.
Lemma In_children_of k x l : In x (children_of k l) <-> In x l /\ 0 <= x /\ index_valid k x = true.
Proof. unfold children_of. rewrite filter_In, In_ptr_filter. intuition. Qed.
Lemma memZ_In x l : memZ x l = true <-> In x l.
Proof.
  unfold memZ. rewrite existsb_exists. split.
  - intros (y & Hy & E). apply Z.eqb_eq in E. now subst.
  - intros H. exists x. split; [assumption|apply Z.eqb_refl].
Qed.
Lemma In_dedupe x : forall l seen, In x (dedupe seen l) <-> In x l /\ ~ In x seen.
Proof.
  induction l as [|h t IH]; intros seen; cbn [dedupe]; [cbn; intuition|].
  destruct (memZ h seen) eqn:E.
  - apply memZ_In in E. rewrite IH. cbn [In]. split; [intuition|].
    intros ([->|H] & Hn); [contradiction|auto].
  - assert (Hn : ~ In h seen) by (intros H; apply memZ_In in H; congruence).
    cbn [In]. rewrite IH. cbn [In].
    destruct (Z.eq_dec h x) as [->|Hne]; intuition.
Qed.
Lemma In_partial_samples s raw : In s (partial_samples raw) <-> In s raw /\ 0 <= s /\ index_valid KSample s = true.
Proof.
  unfold partial_samples. rewrite filter_In, andb_true_iff. intuition lia.
Qed.

(** performance -> patch -> partial -> sample slot, through non-negative pointers that pass
    the index validators *)
Inductive Reachable (d : rdisk) (p s : Z) : Prop :=
| reach (a t : Z) :
    In a (lookup (d_perf d) p) -> 0 <= a -> index_valid KPatch a = true ->
    In t (lookup (d_patch d) a) -> 0 <= t -> index_valid KPartial t = true ->
    In s (lookup (d_partial d) t) -> 0 <= s -> index_valid KSample s = true ->
    Reachable d p s.

Lemma In_patch_samples d a s :
  In s (patch_samples d a) <->
  exists t, In t (lookup (d_patch d) a) /\ 0 <= t /\ index_valid KPartial t = true /\
            In s (lookup (d_partial d) t) /\ 0 <= s /\ index_valid KSample s = true.
Proof.
  unfold patch_samples. rewrite In_dedupe, in_flat_map. split.
  - intros ((t & Ht & Hs) & _). apply In_children_of in Ht. apply In_partial_samples in Hs.
    exists t. intuition.
  - intros (t & H1 & H2 & H3 & H4 & H5 & H6). split; [|intros []].
    exists t. split; [apply In_children_of|apply In_partial_samples]; intuition.
Qed.
Lemma roland_reachable_exact_lemma : forall d p s, In s (perf_samples d p) <-> Reachable d p s.
Proof.
  intros d p s. unfold perf_samples. rewrite in_flat_map. split.
  - intros (a & Ha & Hs). apply In_children_of in Ha. apply In_patch_samples in Hs.
    destruct Hs as (t & H1 & H2 & H3 & H4 & H5 & H6). destruct Ha as (A1 & A2 & A3).
    exact (reach d p s a t A1 A2 A3 H1 H2 H3 H4 H5 H6).
  - intros [a t A1 A2 A3 H1 H2 H3 H4 H5 H6]. exists a. split.
    + apply In_children_of. repeat split; assumption.
    + apply In_patch_samples. exists t. repeat split; assumption.
Qed.

(** a sample is listed once per patch *)
Lemma NoDup_dedupe : forall l seen, NoDup (dedupe seen l).
Proof.
  induction l as [|h t IH]; intros seen; cbn [dedupe]; [constructor|].
  destruct (memZ h seen); [apply IH|].
  constructor; [|apply IH]. rewrite In_dedupe. cbn. intuition.
Qed.
Lemma patch_samples_nodup_lemma d a : NoDup (patch_samples d a).
Proof. apply NoDup_dedupe. Qed.

(** the performances of the pseudo volume: directory entries no volume points to *)
Lemma In_listed_perfs d p : In p (listed_perfs d) <-> exists raw, In raw (d_volumes d) /\ In p raw /\ 0 <= p.
Proof.
  unfold listed_perfs. rewrite In_sort_dedupe, in_concat. split.
  - intros (l & Hl & Hp). apply in_map_iff in Hl. destruct Hl as (raw & <- & Hr).
    apply In_ptr_filter in Hp. exists raw. intuition.
  - intros (raw & Hr & Hp & H0). exists (ptr_filter raw). split; [now apply in_map|].
    apply In_ptr_filter. auto.
Qed.
Lemma roland_orphans_lemma : forall d p,
  In p (orphan_perfs d) <->
  In p (d_perf_dir d) /\ ~ exists raw, In raw (d_volumes d) /\ In p raw /\ 0 <= p.
Proof.
  intros d p. unfold orphan_perfs. rewrite filter_In, negb_true_iff, <- In_listed_perfs.
  split; intros (H1 & H2); split; auto.
  - intros H. apply memZ_In in H. congruence.
  - destruct (memZ p (listed_perfs d)) eqn:E; [|reflexivity]. apply memZ_In in E. contradiction.
Qed.
