From SE Require Import Base Transcode FatProofs.

(** * Errors of make_transcoder *)
Lemma transcode_no_stream_lemma target dw dc : transcode target [] dw dc = Err NoDataStream.
Proof. reflexivity. Qed.
Lemma transcode_channel_mismatch_lemma target s ss dw dc :
  fold_right (fun s a => nchan s + a) 0 (s :: ss) <> dc ->
  transcode target (s :: ss) dw dc = Err IncompatibleNumberOfChannels.
Proof.
  intros H. unfold transcode. destruct (Z.eqb_spec (fold_right (fun s0 a => nchan s0 + a) 0 (s :: ss)) dc); [contradiction|reflexivity].
Qed.

(** * Termination: every block that does not end the iteration consumes input *)
Lemma firstn_nonempty_skipn_shorter {A} (l : list A) n :
  firstn n l <> [] -> (length (skipn n l) < length l)%nat.
Proof.
  intros H. destruct n; [cbn in H; congruence|]. destruct l; [cbn in H; congruence|].
  rewrite skipn_length. cbn. lia.
Qed.

Lemma resize_nil fs : resize_buffer [] fs = [].
Proof. unfold resize_buffer. destruct (_ =? 0); [reflexivity|]. now rewrite firstn_nil. Qed.

Lemma decode_block_nil s : decode_block s [] = [].
Proof. unfold decode_block. rewrite resize_nil. reflexivity. Qed.

Lemma pipeline_fuel_ok :
  forall fuel s ss z zs r rs acc,
    (length r < fuel)%nat ->
    pipeline fuel (s :: ss) (z :: zs) (r :: rs) acc <> OutOfFuel.
Proof.
  induction fuel as [|fuel IH]; intros s ss z zs r rs acc Hf; [lia|].
  cbn [pipeline combine map fst snd].
  match goal with |- (if ?c then _ else _) <> _ => destruct c eqn:E end; [discriminate|].
  cbn [existsb] in E. apply orb_false_elim in E as [E0 _].
  apply IH.
  assert (Hne : firstn (Z.to_nat z) r <> []).
  { intros Hn. rewrite Hn, decode_block_nil in E0. discriminate. }
  pose proof (firstn_nonempty_skipn_shorter r (Z.to_nat z) Hne). lia.
Qed.

Lemma passthrough_fuel_ok :
  forall fuel s size rest acc, (length rest < fuel)%nat -> passthrough fuel s size rest acc <> OutOfFuel.
Proof.
  induction fuel as [|fuel IH]; intros s size rest acc Hf; [lia|].
  cbn [passthrough].
  destruct (resize_buffer (firstn (Z.to_nat size) rest) (frame_size s)) eqn:E; [discriminate|].
  apply IH.
  assert (Hne : firstn (Z.to_nat size) rest <> []).
  { intros Hn. rewrite Hn, resize_nil in E. discriminate. }
  pose proof (firstn_nonempty_skipn_shorter rest (Z.to_nat size) Hne). lia.
Qed.

Lemma total_len_ge_first s ss : zlen (sbytes s) <= total_len (s :: ss).
Proof.
  cbn [total_len fold_right]. assert (0 <= total_len ss); [|unfold total_len in *; lia].
  induction ss as [|x t IH]; cbn [total_len fold_right]; [lia|]. pose proof (zlen_nonneg (sbytes x)). unfold total_len in IH. lia.
Qed.

(** Draining the transcoder always terminates (never out of fuel), for any streams, any
    block size and any lengths. *)
Lemma transcode_total_lemma :
  forall target ss dw dc, transcode target ss dw dc <> OutOfFuel.
Proof.
  intros target ss dw dc. unfold transcode. destruct ss as [|s0 rest]; [discriminate|].
  destruct (negb _); [discriminate|].
  pose proof (total_len_ge_first s0 rest) as Hl.
  assert (Hfuel : (length (sbytes s0) < S (S (Z.to_nat (total_len (s0 :: rest)))))%nat)
    by (unfold zlen in Hl; lia).
  assert (Hsz : exists z zs, buffer_sizes target (s0 :: rest) = z :: zs).
  { unfold buffer_sizes. cbn [map]. eauto. }
  destruct Hsz as (z & zs & Ez). rewrite Ez. cbn [hd map].
  destruct rest as [|s1 rest'].
  - destruct (enc_eq_dest s0 dw dc).
    + apply passthrough_fuel_ok. assumption.
    + apply pipeline_fuel_ok. assumption.
  - apply pipeline_fuel_ok. assumption.
Qed.

(** * The property as a boolean predicate, and its bounded (enumerated) proof.
    The unbounded functional theorems (output = the frame-wise interleaving of the sources,
    any number of streams/lengths/block sizes) are in TranscodeUnbounded.v. *)
Definition whole_frames (s : src) : Z := zlen (sbytes s) / frame_size s.
Definition src_sample (s : src) (f c : Z) : list Z :=
  le_sample s (slice (sbytes s) ((f * schans s + c) * swidth s) ((f * schans s + c + 1) * swidth s)).
(** expected bytes of output frame f for f below the shortest source *)
Definition expected_frame (ss : list src) (f : Z) : list Z :=
  concat (map (fun s => concat (map (fun c => src_sample s f c) (map Z.of_nat (seq 0 (Z.to_nat (schans s)))))) ss).
Definition listZ_eqb (a b : list Z) : bool :=
  (length a =? length b)%nat && forallb (fun p => fst p =? snd p) (combine a b).
Fixpoint list_max (d : Z) (l : list Z) : Z :=
  match l with [] => d | x :: t => match t with [] => x | _ => Z.max x (list_max d t) end end.
Definition prop_ok (target : Z) (ss : list src) : bool :=
  match ss with
  | [] => true
  | s0 :: _ =>
    let w := swidth s0 in
    let dch := fold_right (fun s a => nchan s + a) 0 ss in
    let fsz := dch * w in
    match transcode target ss w dch with
    | Ok out =>
        let nout := zlen out / fsz in
        let nmin := list_min 0 (map whole_frames ss) in
        let nmax := list_max 0 (map whole_frames ss) in
        (zlen out mod fsz =? 0) && (nmin <=? nout) && (nout <=? nmax)
        && (if nmin =? nmax then nout =? nmin else true)
        && forallb (fun f => listZ_eqb (slice out (Z.of_nat f * fsz) ((Z.of_nat f + 1) * fsz))
                                       (expected_frame ss (Z.of_nat f)))
                   (seq 0 (Z.to_nat nmin))
    | _ => false
    end
  end.

Definition mk_src (tag w c : Z) (big : bool) (nfr partial : Z) : src :=
  {| sbytes := map (fun k => (tag * 83 + Z.of_nat k * 7) mod 255 + 1)
                   (seq 0 (Z.to_nat (nfr * w * c + partial)));
     swidth := w; schans := c; sbig := big |}.
Definition grid_srcs (tag w : Z) : list src :=
  flat_map (fun c => flat_map (fun big => flat_map (fun nfr =>
     map (fun partial => mk_src tag w c big nfr (Z.min partial (w * c - 1))) [0; 1])
     [0; 1; 2; 3]) [false; true]) [1; 2].
Definition grid_ok : bool :=
  forallb (fun w =>
    forallb (fun target =>
      forallb (fun a => prop_ok target [a]) (grid_srcs 0 w)
      && forallb (fun a => forallb (fun b => prop_ok target [a; b]) (grid_srcs 1 w)) (grid_srcs 0 w))
      [1; 3; 4; 8])
    [1; 2].
Lemma transcode_grid_all : grid_ok = true.
Proof. vm_compute. reflexivity. Qed.
