(** Dispatch table of property C04 (ids 750-799). *)
From SE Require Import Base Codecs Transcode Wav DriverBase.
From Coq Require Import Floats.PrimFloat.

(** integers of any size travel as (sign limb0 limb1 ...) in base 2^30, little endian *)
Definition unbig (v : val) : Z :=
  match unVLZ v with
  | [] => 0
  | s :: limbs => (if s <? 0 then -1 else 1) * fold_right (fun l a => l + 1073741824 * a) 0 limbs
  end.
Definition unopt {A} (f : val -> A) (v : val) : option A :=
  match v with VL [x] => Some (f x) | _ => None end.
Definition unpynum_big (v : val) : pynum :=
  match v with
  | VL [VI 0; z] => PInt (unbig z)
  | VL [VI 1; f] => PFloat (unfloat f)
  | _ => PInt 0
  end.
Definition unloop (v : val) : loop :=
  {| l_start := unbig (nth_arg v 0); l_end := unbig (nth_arg v 1); l_type := unVI (nth_arg v 2);
     l_forever := negb (unVI (nth_arg v 3) =? 0); l_play := unopt unbig (nth_arg v 4);
     l_dur := unopt unpynum_big (nth_arg v 5) |}.
Definition undesc (v : val) : sample_desc :=
  {| d_channels := unbig (nth_arg v 0); d_width := unbig (nth_arg v 1); d_rate := unbig (nth_arg v 2);
     d_note := unopt unnote (nth_arg v 3); d_semi := unopt unbig (nth_arg v 4);
     d_cents := unopt unpynum_big (nth_arg v 5); d_loops := map unloop (unVL (nth_arg v 6)) |}.
Definition vhdr (h : loop_hdr) : val :=
  VL [VI (h_cue h); VI (h_type h); VI (h_start h); VI (h_end h); VI (h_fraction h); VI (h_play h)].
Definition vsmpl (c : smpl_data) : val :=
  VL [VI (s_period c); VI (to_midi_byte (s_note c)); VI (s_fraction c); VL (map vhdr (s_loops c))].

Definition dispatch_c04 (id : Z) (a : val) : option val :=
  match id with
  | 750 (* build_wav *) => Some (vres vlistZ (build_wav (undesc (nth_arg a 0)) (unVLZ (nth_arg a 1))))
  | 751 (* smpl_chunk_data *) => Some (vres vsmpl (smpl_chunk_data (undesc a)))
  | 752 (* normalized_pitch *) =>
      Some (vres (fun p => VL [VI (fst p); VI (snd p)])
                 (normalized_pitch (unbig (nth_arg a 0)) (unpynum_big (nth_arg a 1))))
  | 753 (* wav_check *) => Some (vbool (wav_check (unVLZ a)))
  | 754 (* export_wav *) =>
      Some (vres vlistZ (export_wav (unVI (nth_arg a 0)) (undesc (nth_arg a 1)) (map unsrc (unVL (nth_arg a 2)))))
  | 755 (* int_true_div *) =>
      Some (vres vfloat (int_true_div (unbig (nth_arg a 0)) (unbig (nth_arg a 1))))
  | 756 (* float_of_int *) => Some (vres vfloat (float_of_int (unbig a)))
  | 757 (* requires_smpl *) => Some (vbool (requires_smpl (undesc a)))
  | _ => None
  end.
