(** Proofs about Traversable.parse_path's model (Names.path_tokens / walk / parse_path) and
    the names `ls` prints (make_safe_names). *)
From SE Require Import Base Codecs Cue Names NamesProofs.

Definition nosep (t : list Z) : Prop := ~ In 47 t /\ ~ In 92 t.
Definition is_sepstr (s : list Z) : Prop := s = [47] \/ s = [92] \/ s = [92; 92].
(** the separators and the tokens that follow them; an empty token may only come last
    (two single backslashes in a row read as ONE separator) *)
Fixpoint wf_rest (r : list (list Z * list Z)) : Prop :=
  match r with
  | [] => True
  | (s, t) :: r' => is_sepstr s /\ nosep t /\ (t <> [] \/ r' = []) /\ wf_rest r'
  end.
Definition join_rest (r : list (list Z * list Z)) : list Z := concat (map (fun p => fst p ++ snd p) r).

Lemma split_tok : forall tok l cur, nosep tok -> split_path (tok ++ l) cur = split_path l (cur ++ tok).
Proof.
  induction tok as [|c t IH]; intros l cur [H1 H2]; cbn [app]; [now rewrite app_nil_r|].
  cbn [split_path].
  assert (E1 : c =? 47 = false) by (apply Z.eqb_neq; intros ->; apply H1; now left).
  assert (E2 : c =? 92 = false) by (apply Z.eqb_neq; intros ->; apply H2; now left).
  rewrite E1, E2. rewrite IH; [now rewrite <- app_assoc|].
  split; intros Hc; [apply H1|apply H2]; now right.
Qed.

Lemma split_join : forall r cur, wf_rest r -> split_path (join_rest r) cur = cur :: map snd r.
Proof.
  induction r as [|[s t] r' IH]; intros cur H; [reflexivity|].
  destruct H as (Hs & Ht & Hne & Hr). unfold join_rest in *. cbn [map concat fst snd].
  destruct Hs as [->|[->| ->]]; cbn [app split_path Z.eqb Pos.eqb].
  - rewrite split_tok, IH by assumption. reflexivity.
  - destruct t as [|d t2].
    + destruct Hne as [Hne|Hne]; [congruence|]. subst r'. reflexivity.
    + cbn [app]. assert (E : d =? 92 = false).
      { apply Z.eqb_neq. intros ->. destruct Ht as [_ Ht]. apply Ht. now left. }
      rewrite E. change (d :: t2 ++ concat (map (fun p => fst p ++ snd p) r')) with ((d :: t2) ++ concat (map (fun p => fst p ++ snd p) r')).
      rewrite split_tok, IH by assumption. reflexivity.
  - rewrite split_tok, IH by assumption. reflexivity.
Qed.

(** tokens of a path string: t0 sep t1 sep ... tn [sep] *)
Lemma path_tokens_join p t0 r :
  strip p = t0 ++ join_rest r -> nosep t0 -> wf_rest r ->
  (forall t, In t (t0 :: map snd r) -> t <> []) ->
  path_tokens p = t0 :: map snd r.
Proof.
  intros Hp H0 Hr Hne. unfold path_tokens. rewrite Hp, split_tok, split_join by assumption. cbn [app].
  destruct (rev (t0 :: map snd r)) as [|lt rr] eqn:E.
  - reflexivity.
  - destruct lt as [|c lt']; [|reflexivity]. exfalso.
    assert (Hin : In [] (t0 :: map snd r)).
    { apply in_rev. rewrite E. now left. }
    exact (Hne _ Hin eq_refl).
Qed.
Lemma path_tokens_join_trailing p t0 r s :
  strip p = t0 ++ join_rest r ++ s -> is_sepstr s -> nosep t0 -> wf_rest r ->
  (forall t, In t (t0 :: map snd r) -> t <> []) ->
  path_tokens p = t0 :: map snd r.
Proof.
  intros Hp Hs H0 Hr Hne.
  assert (Hr' : wf_rest (r ++ [(s, [])])).
  { clear - Hr Hs Hne. assert (Hne' : forall t, In t (map snd r) -> t <> []) by (intros t Ht; apply Hne; now right).
    clear Hne. induction r as [|[s1 t1] r IH]; cbn.
    - split; [assumption|]. split; [split; intros []|]. split; [now right|exact I].
    - destruct Hr as (A & B & C & D). split; [assumption|]. split; [assumption|]. split.
      + left. apply Hne'. now left.
      + apply IH; auto. intros t Ht. apply Hne'. now right. }
  assert (Hj : join_rest (r ++ [(s, [])]) = join_rest r ++ s).
  { unfold join_rest. rewrite map_app, concat_app. cbn. now rewrite !app_nil_r. }
  unfold path_tokens. rewrite Hp, <- Hj, split_tok, split_join by assumption. cbn [app].
  rewrite map_app. cbn [map snd].
  change (t0 :: map snd r ++ [[]]) with ((t0 :: map snd r) ++ [[]]).
  rewrite rev_app_distr. cbn [rev app]. set (x := t0 :: map snd r). change (rev (rev x) = x). apply rev_involutive.
Qed.

(** * Lookup *)

Lemma find_child_spec akai key : forall children k i name,
  nth_error children i = Some name -> sanitize_token akai name = key ->
  NoDup (map (sanitize_token akai) children) ->
  find_child akai key children k = Some (k + i)%nat.
Proof.
  induction children as [|c t IH]; intros k i name Hn Hk Hnd; [destruct i; discriminate|].
  cbn [find_child]. destruct i as [|i].
  - cbn in Hn. injection Hn as ->. rewrite Hk, str_eqb_refl. f_equal. lia.
  - cbn [nth_error] in Hn. cbn [map] in Hnd. inversion Hnd as [|? ? Hc Hnd']; subst.
    destruct (str_eqb (sanitize_token akai c) (sanitize_token akai name)) eqn:E.
    + apply str_eqb_eq in E. exfalso. apply Hc. rewrite E. apply in_map. eapply nth_error_In; eassumption.
    + rewrite (IH (S k) i name Hn eq_refl Hnd'). f_equal. lia.
Qed.

(** [node_at akai root idxs names]: following child indices [idxs] from [root] passes through
    children whose safe names are [names]; at each directory on the way the normalised names
    of the siblings are pairwise distinct *)
Inductive node_at (akai : bool) : tree -> list nat -> list (list Z) -> Prop :=
| na_here t : node_at akai t [] []
| na_down ch i idxs name names sub :
    nth_error ch i = Some (name, sub) ->
    NoDup (map (sanitize_token akai) (map fst ch)) ->
    node_at akai sub idxs names ->
    node_at akai (Dir ch) (i :: idxs) (name :: names).

Lemma walk_roundtrip akai : forall root idxs names toks,
  node_at akai root idxs names ->
  Forall2 (fun tok name => sanitize_token akai tok = sanitize_token akai name) toks names ->
  walk akai toks root = Some idxs.
Proof.
  intros root idxs names toks H. revert toks.
  induction H as [t|ch i idxs name names sub Hn Hnd Hsub IH]; intros toks HF.
  - inversion HF; subst. reflexivity.
  - inversion HF as [|tok name' toks' names' Htok HF']; subst. cbn [walk].
    assert (Hn' : nth_error (map fst ch) i = Some name) by (rewrite nth_error_map, Hn; reflexivity).
    rewrite (find_child_spec akai (sanitize_token akai tok) (map fst ch) 0 i name Hn' (eq_sym Htok) Hnd).
    cbn [plus]. rewrite Hn. now rewrite (IH _ HF').
Qed.

(** whatever the path string, the answer is a node of the tree or "not found" *)
Lemma walk_sound akai : forall toks root idxs,
  walk akai toks root = Some idxs ->
  length idxs = length toks /\
  (fix valid (t : tree) (p : list nat) : Prop :=
     match p with
     | [] => True
     | i :: p' => match t with
                  | Leaf => False
                  | Dir ch => match nth_error ch i with Some (_, sub) => valid sub p' | None => False end
                  end
     end) root idxs.
Proof.
  induction toks as [|tok rest IH]; intros root idxs H; cbn [walk] in H.
  - injection H as <-. split; [reflexivity|exact I].
  - destruct root as [|ch]; [discriminate|].
    destruct (find_child akai (sanitize_token akai tok) (map fst ch) 0) as [i|]; [|discriminate].
    destruct (nth_error ch i) as [[nm sub]|] eqn:En; [|discriminate].
    destruct (walk akai rest sub) as [p|] eqn:Ew; [|discriminate]. injection H as <-.
    destruct (IH _ _ Ew) as [H1 H2]. split; [cbn; now rewrite H1|]. now rewrite En.
Qed.

(** * The names ls prints contain no path separator *)
Lemma replace_invalid_chars : forall fuel pw l c,
  In c (replace_invalid fuel pw l) -> ok_safe c = true \/ c = 32.
Proof.
  induction fuel as [|f IH]; intros pw l c H; cbn [replace_invalid] in H; [destruct H|].
  destruct l as [|x t]; [destruct H|].
  destruct (negb (ok_safe x)) eqn:E1.
  - destruct H as [<-|H]; [now right|eauto].
  - apply negb_false_iff in E1. destruct ((x =? 58) && negb pw).
    + destruct H as [<-|H]; [now right|eauto].
    + destruct H as [<-|H]; [now left|eauto].
Qed.
Lemma strip_incl l c : In c (strip l) -> In c l.
Proof.
  unfold strip. intros H. apply in_rev in H.
  destruct (lstrip_sub (rev (lstrip l))) as (p & Hp & _).
  assert (H2 : In c (rev (lstrip l))) by (rewrite Hp; apply in_app_iff; now right).
  apply in_rev in H2. destruct (lstrip_sub l) as (q & Hq & _). rewrite Hq. apply in_app_iff. now right.
Qed.
Lemma make_safe_name_nosep n : nosep (make_safe_name n).
Proof.
  unfold make_safe_name. split; intros H; apply strip_incl in H; apply replace_invalid_chars in H;
    destruct H as [H|H]; discriminate.
Qed.
Lemma dec_digits_nosep : forall fuel z acc, 0 <= z -> nosep acc -> nosep (dec_digits fuel z acc).
Proof.
  induction fuel as [|f IH]; intros z acc Hz Ha; cbn [dec_digits]; [assumption|].
  pose proof (Z.mod_pos_bound z 10 ltac:(lia)) as Hm.
  assert (Hc : nosep ((48 + z mod 10) :: acc)).
  { destruct Ha as [A B]. split; intros [Hc|Hc]; try lia; contradiction. }
  destruct (z <? 10); [assumption|]. apply IH; [apply Z.div_pos; lia|assumption].
Qed.
Lemma nosep_app a b : nosep a -> nosep b -> nosep (a ++ b).
Proof. intros [A1 A2] [B1 B2]. split; intros H; apply in_app_iff in H as [H|H]; contradiction. Qed.
Lemma count_str_nosep i : 0 <= i -> nosep (count_str i).
Proof.
  intros Hi. unfold count_str, str_Z. destruct (i <? 0) eqn:E; [lia|].
  repeat apply nosep_app; try (split; intros [H|[]]; discriminate).
  apply dec_digits_nosep; [assumption|]. split; intros [].
Qed.
Lemma add_count_nosep name i : 0 <= i -> nosep name -> nosep (add_count name i).
Proof.
  intros Hi Hn. unfold add_count. pose proof (count_str_nosep i Hi) as Hc.
  assert (H32 : nosep [32]) by (split; intros [H|[]]; discriminate).
  destruct (stereo_match name) as [m|] eqn:EM.
  - destruct (stereo_match_shape _ _ EM) as (ws & Hs & _ & _ & _ & Hside).
    assert (Hstem : nosep (st_stem m)).
    { destruct Hn as [A B]. rewrite Hs in A, B. split; intros H; [apply A|apply B]; apply in_app_iff; now left. }
    assert (Hsd : nosep [st_side m]) by (destruct Hside as [Hsd|Hsd]; rewrite Hsd; split; intros [H|[]]; discriminate).
    apply nosep_app; [exact Hstem|]. apply nosep_app; [exact H32|]. apply nosep_app; [exact Hc|].
    apply nosep_app; [exact H32|exact Hsd].
  - apply nosep_app; [exact Hn|]. apply nosep_app; [exact H32|exact Hc].
Qed.
Lemma safe_names_nosep_lemma elems names :
  make_safe_names elems = Ok names -> forall n, In n names -> nosep n.
Proof.
  intros H n Hn. destruct (sanitize_names_shape _ _ _ H n Hn) as (e & He & [->|(k & Hk & ->)]).
  - apply make_safe_name_nosep.
  - apply add_count_nosep; [lia|apply make_safe_name_nosep].
Qed.

(** for names without leading/trailing blank the lookup key is the name itself *)
Lemma lstrip_id l : (forall c t, l = c :: t -> is_space_c c = false) -> lstrip l = l.
Proof. destruct l as [|c t]; [reflexivity|]. intros H. cbn [lstrip]. now rewrite (H c t eq_refl). Qed.
Lemma strip_id l :
  (forall c t, l = c :: t -> is_space_c c = false) -> (forall c t, rev l = c :: t -> is_space_c c = false) ->
  strip l = l.
Proof. intros H1 H2. unfold strip. rewrite (lstrip_id l H1), (lstrip_id (rev l) H2). apply rev_involutive. Qed.
Definition stripped (l : list Z) : Prop :=
  (forall c t, l = c :: t -> is_space_c c = false) /\ (forall c t, rev l = c :: t -> is_space_c c = false).
Lemma keys_distinct_lemma names :
  Forall stripped names -> NoDup names -> NoDup (map (sanitize_token false) names).
Proof.
  intros Hs Hnd. assert (E : map (sanitize_token false) names = names).
  { rewrite <- (map_id names) at 2. apply map_ext_in. intros n Hn. rewrite Forall_forall in Hs.
    destruct (Hs n Hn) as [A B]. cbn. now apply strip_id. }
  now rewrite E.
Qed.
