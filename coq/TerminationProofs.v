(** C13 - fuel-sufficiency lemmas that were still missing: the three cue-sheet loops, the
    partition scan, the AKAI listing/export composition, sector reads and read(-1) of ANY
    view (well formed or not), the Roland sample read, the program / keygroup walk and the
    block splitters whose fuel is a length.  Every statement has the form "for EVERY input
    the function, called with the fuel its caller gives it, does not return [OutOfFuel]"
    (or, for the list-valued splitters, "the fuel does not truncate the result"). *)
From Coq Require String.
Import String.StringSyntax.
Delimit Scope string_scope with string.
From SE Require Import Base Codecs Fat Cue Names Transcode Stream Info Roland Container AkaiImage
     CodecsProofs FatProofs StreamProofs StreamRevProofs TranscodeProofs NamesProofs.
Ltac Zify.zify_post_hook ::= Z.to_euclidean_division_equations.

(** * 1. The cue-sheet loops (cuesheet.py) *)
(** get_nonempty_entry hands back a suffix of its input, a STRICT one when there was input *)
Lemma nonempty_entry_len : forall lines,
  (length (snd (nonempty_entry lines)) <= length lines)%nat.
Proof.
  induction lines as [|l rest IH]; cbn [nonempty_entry]; [cbn; lia|].
  destruct (strip l); cbn [snd length] in *; lia.
Qed.
Lemma nonempty_entry_lt : forall l lines,
  (length (snd (nonempty_entry (l :: lines))) <= length lines)%nat.
Proof.
  intros l lines. cbn [nonempty_entry].
  destruct (strip l); cbn [snd]; [apply nonempty_entry_len|lia].
Qed.
(** the property loop of a track gives back at most what it was given (the pushed-back TRACK
    line replaces the line that was read) *)
Lemma track_body_len : forall lines t,
  (length (snd (track_body lines t)) <= length lines)%nat.
Proof.
  induction lines as [|l rest IH]; intros t; cbn [track_body]; [cbn; lia|].
  destruct (strip l) as [|c text]; [specialize (IH t); cbn [length]; lia|].
  destruct (m_track (c :: text)); [cbn [snd length]; lia|].
  destruct (m_index (c :: text)) as [[[[n mi] se] fr]|].
  { match goal with |- context [track_body rest ?t'] => specialize (IH t') end. cbn [length]; lia. }
  destruct (m_title (c :: text)).
  { match goal with |- context [track_body rest ?t'] => specialize (IH t') end. cbn [length]; lia. }
  match goal with |- context [track_body rest ?t'] => specialize (IH t') end. cbn [length]; lia.
Qed.
(** one TRACK entry consumes at least one line, net of the push-back *)
Lemma track_parse_len : forall l lines r,
  track_parse (l :: lines) = Ok r -> (length (snd r) <= length lines)%nat.
Proof.
  intros l lines r H. unfold track_parse in H.
  pose proof (nonempty_entry_lt l lines) as Hn.
  destruct (nonempty_entry (l :: lines)) as [text rest]. cbn [snd] in Hn.
  destruct text as [|c text]; [discriminate|].
  destruct (m_track (c :: text)) as [[n mode]|]; [|discriminate].
  injection H as <-.
  match goal with |- context [track_body rest ?t'] => pose proof (track_body_len rest t') end. lia.
Qed.
Lemma track_parse_fuel : forall lines, track_parse lines <> OutOfFuel.
Proof.
  intros lines. unfold track_parse. destruct (nonempty_entry lines) as [text rest].
  destruct text; [discriminate|]. destruct (m_track _) as [[n mode]|]; discriminate.
Qed.

(** the track loop: |lines| + 1 rounds suffice, and it gives back at most what it was given *)
Lemma file_tracks_fuel : forall fuel lines acc,
  (length lines < fuel)%nat ->
  file_tracks fuel lines acc <> OutOfFuel /\
  (forall r, file_tracks fuel lines acc = Ok r -> (length (snd r) <= length lines)%nat).
Proof.
  induction fuel as [|f IH]; intros lines acc Hf; [lia|].
  cbn [file_tracks]. destruct lines as [|l lines]; [split; [discriminate|]; intros r H; injection H as <-; cbn; lia|].
  pose proof (nonempty_entry_lt l lines) as Hn.
  destruct (nonempty_entry (l :: lines)) as [text rest]. cbn [snd] in Hn.
  destruct text as [|c text].
  { split; [discriminate|]. intros r H. injection H as <-. cbn [snd length]. lia. }
  pose proof (track_parse_fuel ((c :: text) :: rest)) as Ht.
  destruct (track_parse ((c :: text) :: rest)) as [r| |] eqn:E; cbn [bind]; [|split; discriminate|congruence].
  apply track_parse_len in E. cbn [length] in Hf.
  destruct (IH (snd r) (acc ++ [fst r]) ltac:(lia)) as [A B].
  split; [exact A|]. intros r' Hr'. apply B in Hr'. cbn [length]. lia.
Qed.

(** one FILE entry: never out of fuel; consumes at least one line *)
Lemma file_parse_fuel : forall lines, file_parse lines <> OutOfFuel.
Proof.
  intros lines. unfold file_parse. destruct (nonempty_entry lines) as [text rest].
  destruct text as [|c text]; [discriminate|]. destruct (m_file _); [|discriminate].
  destruct (file_tracks_fuel (S (length rest)) rest [] ltac:(lia)) as [A _].
  destruct (file_tracks _ rest []); cbn [bind]; congruence.
Qed.
Lemma file_parse_len : forall l lines r,
  file_parse (l :: lines) = Ok r -> (length (snd r) <= length lines)%nat.
Proof.
  intros l lines r H. unfold file_parse in H.
  pose proof (nonempty_entry_lt l lines) as Hn.
  destruct (nonempty_entry (l :: lines)) as [text rest]. cbn [snd] in Hn.
  destruct text as [|c text]; [discriminate|]. destruct (m_file _); [|discriminate].
  destruct (file_tracks_fuel (S (length rest)) rest [] ltac:(lia)) as [_ B].
  destruct (file_tracks _ rest []) as [r0| |]; cbn [bind] in H; try discriminate.
  injection H as <-. cbn [snd]. specialize (B r0 eq_refl). lia.
Qed.

(** the FILE loop: |lines| + 1 rounds suffice *)
Lemma cue_files_fuel : forall fuel lines acc,
  (length lines < fuel)%nat -> cue_files fuel lines acc <> OutOfFuel.
Proof.
  induction fuel as [|f IH]; intros lines acc Hf; [lia|].
  cbn [cue_files]. destruct lines as [|l lines]; [discriminate|].
  pose proof (nonempty_entry_lt l lines) as Hn.
  destruct (nonempty_entry (l :: lines)) as [text rest]. cbn [snd] in Hn. cbn [length] in Hf.
  destruct (m_file text).
  - pose proof (file_parse_fuel (text :: rest)) as Hp.
    destruct (file_parse (text :: rest)) as [r| |] eqn:E; cbn [bind]; [|discriminate|congruence].
    apply file_parse_len in E. apply IH. lia.
  - apply IH. lia.
Qed.

(** parse_cue_sheet terminates on every text: each of the three loops runs at most
    |lines| + 1 rounds. *)
Lemma cue_parse_total_lemma : forall lines, parse_cue_sheet lines <> OutOfFuel.
Proof.
  intros lines. unfold parse_cue_sheet.
  pose proof (cue_files_fuel (S (length lines)) lines [] ltac:(lia)) as H.
  destruct (cue_files _ lines []) as [fs| |]; cbn [bind]; [|discriminate|congruence].
  destruct fs; discriminate.
Qed.

(** * 2. The partition scan (AkaiImageParser._load_partitions) *)
Lemma Forall_firstn' {A} (P : A -> Prop) : forall n l, Forall P l -> Forall P (firstn n l).
Proof.
  induction n as [|n IH]; intros l H; [constructor|].
  destruct l; [constructor|]. inversion H; subst. cbn [firstn]. constructor; auto.
Qed.
Lemma Forall_skipn' {A} (P : A -> Prop) : forall n l, Forall P l -> Forall P (skipn n l).
Proof.
  induction n as [|n IH]; intros l H; [exact H|].
  destruct l; [constructor|]. inversion H; subst. cbn [skipn]. auto.
Qed.
Lemma Forall_slice {A} (P : A -> Prop) l a b : Forall P l -> Forall P (slice l a b).
Proof. intros H. unfold slice. now apply Forall_firstn', Forall_skipn'. Qed.

Definition is_byte (b : Z) : Prop := 0 <= b < 256.
Lemma words_nonneg : forall l, Forall is_byte l -> Forall (fun w => 0 <= w) (words l).
Proof.
  assert (H : forall l, (Forall is_byte l -> Forall (fun w => 0 <= w) (words l)) /\
                        (forall a, Forall is_byte (a :: l) -> Forall (fun w => 0 <= w) (words (a :: l)))).
  { induction l as [|b l [IH1 IH2]].
    - split; intros; constructor.
    - split; [apply IH2|]. intros a Ha. cbn [words].
      inversion Ha as [|? ? Ha1 Ha2]; subst. inversion Ha2 as [|? ? Hb1 Hb2]; subst.
      constructor; [unfold is_byte in *; lia|auto]. }
  intros l. apply H.
Qed.

(** a header is accepted only with a positive size word: every accepted partition advances
    the scan by at least one sector *)
Lemma parse_partition_ok img o p :
  parse_partition img o = Ok p -> p_off p = o /\ 0 < p_sectors p /\ o + HDR_BYTES <= zlen img.
Proof.
  unfold parse_partition. intros H.
  destruct (Z.gtb_spec (o + HDR_BYTES) (zlen img)); [discriminate|].
  set (h := slice img o (o + HDR_BYTES)) in *.
  destruct (negb _); [discriminate|]. destruct (negb _); [discriminate|]. destruct (negb _); [discriminate|].
  destruct (parse_vol_entries _ _) as [vols| |]; cbn [bind] in H; try discriminate.
  destruct (akai_decode _) as [sat| |]; cbn [bind] in H; try discriminate.
  destruct (Z.leb_spec (u16 h 0) 0); [discriminate|].
  injection H as <-. cbn [p_off p_sectors]. lia.
Qed.
Lemma akai_name_fuel b : akai_name b <> OutOfFuel.
Proof. unfold akai_name. destruct (akai_to_ascii _); discriminate. Qed.
Lemma parse_vol_entries_fuel : forall n b, parse_vol_entries n b <> OutOfFuel.
Proof.
  induction n as [|n IH]; intros b; cbn [parse_vol_entries]; [discriminate|].
  pose proof (akai_name_fuel (firstn 12 b)).
  destruct (akai_name _); cbn [bind]; [|discriminate|congruence].
  destruct (_ =? 2); [discriminate|]. specialize (IH (skipn 16 b)).
  destruct (parse_vol_entries n _); cbn [bind]; congruence.
Qed.
(** parsing one header never runs out of fuel on an image of bytes: the scan never stops
    because an inner loop (the SAT decode) was cut short *)
Lemma parse_partition_total_lemma img o : Forall is_byte img -> parse_partition img o <> OutOfFuel.
Proof.
  intros Hb. unfold parse_partition.
  destruct (_ >? _); [discriminate|].
  set (h := slice img o (o + HDR_BYTES)).
  destruct (negb _); [discriminate|]. destruct (negb _); [discriminate|]. destruct (negb _); [discriminate|].
  pose proof (parse_vol_entries_fuel 100 (slice h 202 1802)) as Hv.
  destruct (parse_vol_entries _ _); cbn [bind]; [|discriminate|congruence].
  assert (Hw : Forall (fun w => 0 <= w) (words (slice h 1802 HDR_BYTES))).
  { apply words_nonneg, Forall_slice. unfold h. now apply Forall_slice. }
  destruct (akai_decode_total_lemma _ Hw) as [Hd _].
  destruct (akai_decode _); cbn [bind]; [|discriminate|congruence].
  destruct (_ <=? 0); discriminate.
Qed.

(** sectors between the cursor and the end of the file, rounded up *)
Definition sectors_left (img : list Z) (o : Z) : nat := Z.to_nat ((zlen img - o + (SECTOR - 1)) / SECTOR).

Lemma scan_partitions_fuel : forall f1 f2 img o,
  (sectors_left img o <= f1)%nat -> (sectors_left img o <= f2)%nat ->
  scan_partitions f1 img o = scan_partitions f2 img o.
Proof.
  induction f1 as [|f1 IH]; intros f2 img o H1 H2.
  - destruct f2 as [|f2]; [reflexivity|]. cbn [scan_partitions].
    destruct (Z.ltb_spec o (zlen img)); [|reflexivity].
    exfalso. unfold sectors_left, SECTOR in *. lia.
  - destruct f2 as [|f2].
    + cbn [scan_partitions]. destruct (Z.ltb_spec o (zlen img)); [|reflexivity].
      exfalso. unfold sectors_left, SECTOR in *. lia.
    + cbn [scan_partitions]. destruct (Z.ltb_spec o (zlen img)); [|reflexivity].
      destruct (parse_partition img o) as [p| |] eqn:E; try reflexivity.
      apply parse_partition_ok in E as (_ & Hp & _). f_equal.
      apply IH; unfold sectors_left, SECTOR in *; lia.
Qed.
Lemma scan_partitions_count : forall f img o, (length (scan_partitions f img o) <= sectors_left img o)%nat.
Proof.
  induction f as [|f IH]; intros img o; cbn [scan_partitions]; [cbn; lia|].
  destruct (Z.ltb_spec o (zlen img)); [|cbn; lia].
  destruct (parse_partition img o) as [p| |] eqn:E; try (cbn; lia).
  apply parse_partition_ok in E as (_ & Hp & _). cbn [length].
  specialize (IH img (o + p_sectors p * SECTOR)). unfold sectors_left, SECTOR in *. lia.
Qed.
Lemma sectors_left_0 img : (sectors_left img 0 <= S (Z.to_nat (zlen img / SECTOR)))%nat.
Proof. pose proof (zlen_nonneg img). unfold sectors_left, SECTOR. lia. Qed.

(** The scan never stops BECAUSE of fuel: any fuel above |img| / 8192 gives the same list of
    partitions as the fuel [partitions] uses; and there are at most |img| / 8192 + 1 of them. *)
Lemma partition_scan_total_lemma : forall img f,
  (Z.to_nat (zlen img / SECTOR) < f)%nat ->
  scan_partitions f img 0 = partitions img /\
  (length (partitions img) <= S (Z.to_nat (zlen img / SECTOR)))%nat.
Proof.
  intros img f Hf. pose proof (sectors_left_0 img) as H0. split.
  - unfold partitions. apply scan_partitions_fuel; lia.
  - unfold partitions. pose proof (scan_partitions_count (S (Z.to_nat (zlen img / SECTOR))) img 0). lia.
Qed.

(** * 3. AKAI listing and export *)
Lemma SAT_ENTRIES_nonneg : 0 <= SAT_ENTRIES.
Proof. unfold SAT_ENTRIES. lia. Qed.
Lemma get_segment_fuel pc sat start : get_segment pc sat start <> OutOfFuel.
Proof.
  unfold get_segment. destruct (get_path_total_lemma SAT_ENTRIES sat start SAT_ENTRIES_nonneg) as [H _].
  destruct (get_path _ sat start); cbn [bind]; congruence.
Qed.
Lemma parse_fentry_fuel pc sat e : parse_fentry pc sat e <> OutOfFuel.
Proof.
  unfold parse_fentry. destruct (akai_name _); try discriminate.
  destruct (negb _); [discriminate|].
  pose proof (get_segment_fuel pc sat (u16 e 20)) as H.
  destruct (get_segment _ _ _) as [c|x|]; [discriminate| |congruence].
  destruct x; discriminate.
Qed.
(** the file-table loop is structural on the number of 24-byte slots: |dir| / 24 rounds *)
Lemma entries_loop_fuel : forall n pc sat table, entries_loop n pc sat table <> OutOfFuel.
Proof.
  induction n as [|n IH]; intros pc sat table; cbn [entries_loop]; [discriminate|].
  destruct (_ =? TABLE_END_FLAG); [discriminate|].
  pose proof (parse_fentry_fuel pc sat (firstn 24 table)) as H.
  destruct (parse_fentry _ _ _) as [r| |]; cbn [bind]; [|discriminate|congruence].
  specialize (IH pc sat (skipn 24 table)).
  destruct (entries_loop n _ _ _) as [rest| |]; cbn [bind]; [|discriminate|congruence].
  destruct r as [e|]; [destruct (_ >? 0)|]; discriminate.
Qed.
Lemma realize_volumes_fuel : forall vs pc sat, realize_volumes pc sat vs <> OutOfFuel.
Proof.
  induction vs as [|v t IH]; intros pc sat; cbn [realize_volumes]; [discriminate|].
  destruct (_ =? 0); [apply IH|].
  pose proof (get_segment_fuel pc sat (ve_start v)) as H.
  destruct (get_segment _ _ _) as [dir| |]; cbn [bind]; [|discriminate|congruence].
  pose proof (entries_loop_fuel (Z.to_nat (zlen dir / 24)) pc sat dir) as H2. unfold file_entries.
  destruct (entries_loop _ _ _ dir); cbn [bind]; [|discriminate|congruence].
  specialize (IH pc sat). destruct (realize_volumes pc sat t); cbn [bind]; congruence.
Qed.
Lemma export_outputs_fuel : forall outs prefix smps, export_outputs prefix smps outs <> OutOfFuel.
Proof.
  induction outs as [|[nm srcs] t IH]; intros prefix smps; cbn [export_outputs]; [discriminate|].
  destruct (filter_map _ srcs) as [|s0 ss] eqn:E; [discriminate|].
  pose proof (transcode_total_lemma 4096 (map src_of (s0 :: ss)) 2 (zlen (s0 :: ss))) as H.
  destruct (transcode _ _ _ _); cbn [bind]; [|discriminate|congruence].
  specialize (IH prefix smps). destruct (export_outputs _ _ t); cbn [bind]; congruence.
Qed.
Lemma export_volumes_fuel : forall vols pname vnames, export_volumes pname vols vnames <> OutOfFuel.
Proof.
  induction vols as [|v vt IH]; intros pname vnames; cbn [export_volumes]; [discriminate|].
  destruct vnames as [|vn nt]; [discriminate|].
  pose proof (sanitize_names_total_lemma make_export_name (map (fun c => (child_name c, true)) (v_children v))) as H.
  fold (make_export_names (map (fun c => (child_name c, true)) (v_children v))) in H.
  destruct (make_export_names _) as [names| |]; cbn [bind]; [|discriminate|congruence].
  match goal with |- context [export_outputs ?a ?b ?c] => pose proof (export_outputs_fuel c a b) as H2;
    destruct (export_outputs a b c) end; cbn [bind]; [|discriminate|congruence].
  specialize (IH pname nt). destruct (export_volumes pname vt nt); cbn [bind]; congruence.
Qed.
Lemma export_partitions_fuel : forall ps img pnames, export_partitions img ps pnames <> OutOfFuel.
Proof.
  induction ps as [|p pt IH]; intros img pnames; cbn [export_partitions]; [discriminate|].
  destruct pnames as [|pn nt]; [discriminate|].
  pose proof (realize_volumes_fuel (p_vols p) (part_content img p) (p_sat p)) as H.
  destruct (realize_volumes _ _ _) as [vols| |]; cbn [bind]; [|discriminate|congruence].
  pose proof (sanitize_names_total_lemma make_export_name (map (fun v => (v_name v, false)) vols)) as H1.
  fold (make_export_names (map (fun v => (v_name v, false)) vols)) in H1.
  destruct (make_export_names _) as [vnames| |]; cbn [bind]; [|discriminate|congruence].
  pose proof (export_volumes_fuel vols pn vnames) as H2.
  destruct (export_volumes pn vols vnames); cbn [bind]; [|discriminate|congruence].
  specialize (IH img nt). destruct (export_partitions img pt nt); cbn [bind]; congruence.
Qed.

(** `export` and `ls` of an AKAI image, composed: partition scan (<= |img|/8192 + 1 rounds),
    SAT decode (<= 2n+2 steps per table), chain resolution (<= 11386 + 1 steps per chain),
    file table (|dir| / 24 rounds), naming (<= taken + 2 * siblings + 1 probes per name),
    transcoding (<= bytes + 2 blocks).  For EVERY image, corrupted in any way. *)
Lemma akai_export_total_lemma : forall img, akai_export img <> OutOfFuel.
Proof.
  intros img. unfold akai_export.
  match goal with |- context [make_export_names ?l] =>
    pose proof (sanitize_names_total_lemma make_export_name l) as H; fold (make_export_names l) in H;
    destruct (make_export_names l) as [pnames| |] end; cbn [bind]; [|discriminate|congruence].
  apply export_partitions_fuel.
Qed.
Lemma akai_listing_total_lemma : forall img, akai_listing img <> OutOfFuel.
Proof.
  intros img. unfold akai_listing. generalize O. induction (partitions img) as [|p t IH]; intros i; [discriminate|].
  pose proof (realize_volumes_fuel (p_vols p) (part_content img p) (p_sat p)) as H.
  destruct (realize_volumes _ _ _) as [vols| |]; cbn [bind]; [|discriminate|congruence].
  specialize (IH (S i)).
  match type of IH with ?g <> _ => destruct g end; cbn [bind]; congruence.
Qed.
Lemma akai_image_total_lemma : forall img, Forall is_byte img ->
  (forall o, parse_partition img o <> OutOfFuel) /\ akai_export img <> OutOfFuel /\ akai_listing img <> OutOfFuel.
Proof.
  intros img Hb. split; [intros o; now apply parse_partition_total_lemma|].
  split; [apply akai_export_total_lemma|apply akai_listing_total_lemma].
Qed.

(** * 4. Sector reads and views: ANY view, well formed or not *)
(** SectorStream._read over an arbitrary parent that itself never runs out of fuel: the
    "while remaining_size > sector_length" loop makes at most size / L rounds, whatever the
    parent returns and whatever the sector map - provided the sector length is positive. *)
Definition total_seek {St} (p_seek : St -> Z -> res Z * St) : Prop := forall s a, fst (p_seek s a) <> OutOfFuel.
Definition total_read {St} (p_read : St -> Z -> res (list Z) * St) : Prop := forall s n, fst (p_read s n) <> OutOfFuel.

Lemma read_sector_fuel {St} (p_seek : St -> Z -> res Z * St) p_read L m s idx off size :
  total_seek p_seek -> total_read p_read ->
  fst (read_sector St p_seek p_read L m s idx off size) <> OutOfFuel.
Proof.
  intros Hs Hr. unfold read_sector. destruct (_ >? L); [discriminate|].
  assert (Ha : sect_addr L m idx off <> OutOfFuel).
  { unfold sect_addr. destruct m; try discriminate. destruct (_ || _); discriminate. }
  destruct (sect_addr L m idx off) as [a|e|]; [|discriminate|congruence].
  specialize (Hs s a). destruct (p_seek s a) as [r s1]. cbn [fst] in Hs.
  destruct r; [apply Hr|discriminate|congruence].
Qed.

Lemma sect_middle_fuel {St} (p_seek : St -> Z -> res Z * St) p_read L m :
  total_seek p_seek -> total_read p_read -> 0 < L ->
  forall fuel s first i remaining acc,
    (Z.to_nat ((remaining - 1) / L) < fuel)%nat ->
    fst (sect_middle St p_seek p_read fuel L m s first i remaining acc) <> OutOfFuel.
Proof.
  intros Hs Hr HL. induction fuel as [|f IH]; intros s first i remaining acc Hf; [lia|].
  cbn [sect_middle]. destruct (Z.gtb_spec remaining L) as [Hgt|Hle]; [|discriminate].
  pose proof (read_sector_fuel p_seek p_read L m s (first + i) 0 L Hs Hr) as H.
  destruct (read_sector _ _ _ _ _ _ _ _ _) as [r s1]. cbn [fst] in H.
  destruct r as [b|e|]; [|discriminate|congruence].
  apply IH.
  replace (remaining - L - 1) with (remaining - 1 + (-1) * L) by lia.
  rewrite Z.div_add by lia.
  assert (1 <= (remaining - 1) / L) by (apply Z.div_le_lower_bound; lia). lia.
Qed.

Lemma sect_read_fuel {St} (p_seek : St -> Z -> res Z * St) p_read L m s pos size :
  total_seek p_seek -> total_read p_read -> 0 < L ->
  fst (sect_read St p_seek p_read L m s pos size) <> OutOfFuel.
Proof.
  intros Hs Hr HL. unfold sect_read. destruct (Z.leb_spec size 0) as [|Hsz]; [discriminate|].
  set (iso := pos mod L). set (isi := pos / L).
  set (irs := if iso + size <=? L then size else L - iso).
  assert (Hiso : 0 <= iso < L) by (apply Z.mod_pos_bound; lia).
  assert (Hirs : 1 <= irs) by (unfold irs; destruct (_ <=? L); lia).
  pose proof (read_sector_fuel p_seek p_read L m s isi iso irs Hs Hr) as H1.
  destruct (read_sector _ _ _ _ _ _ _ _ _) as [r s1]. cbn [fst] in H1.
  destruct r as [b0|e|]; [|discriminate|congruence].
  pose proof (sect_middle_fuel p_seek p_read L m Hs Hr HL (S (Z.to_nat (size / L))) s1 isi 1 (size - irs) b0) as H2.
  assert (Hq : (size - irs - 1) / L <= size / L) by (apply Z.div_le_mono; lia).
  specialize (H2 ltac:(lia)).
  destruct (sect_middle _ _ _ _ _ _ _ _ _ _ _) as [r2 s2]. cbn [fst] in H2.
  destruct r2 as [[[acc i] remaining]|e|]; [|discriminate|congruence].
  destruct (remaining >? 0).
  - pose proof (read_sector_fuel p_seek p_read L m s2 (isi + i) 0 remaining Hs Hr) as H3.
    destruct (read_sector _ _ _ _ _ _ _ _ _) as [rf sf]. cbn [fst] in H3.
    destruct rf as [bf|e|]; [|discriminate|congruence].
    destruct (_ =? size); discriminate.
  - destruct (_ =? size); discriminate.
Qed.

(** seek of any view never runs out of fuel (it is structural) *)
Lemma translate_fuel k size ts a : translate k size ts a <> OutOfFuel.
Proof. unfold translate. destruct k; try discriminate. destruct (negb _); [discriminate|]. destruct (_ <? 0); [discriminate|]. destruct (negb _); discriminate. Qed.
Lemma v_seek_fuel : forall v s off wh, fst (v_seek v s off wh) <> OutOfFuel.
Proof.
  induction v as [|k size sub IH]; intros s off wh; cbn [v_seek].
  - destruct (wh =? 0); [|discriminate]. unfold base_seek. destruct (off <? 0); discriminate.
  - destruct s as [p|pos ts ss]; [discriminate|].
    pose proof (translate_fuel k size 0 (clamp_pos size ((if wh =? 1 then pos else if wh =? 2 then size else 0) + off))) as Ht.
    destruct (translate _ _ _ _) as [ta|e|]; [|discriminate|congruence].
    specialize (IH ss ta 0). destruct (v_seek sub ss ta 0) as [r ss']. cbn [fst] in IH.
    destruct r; [discriminate|discriminate|congruence].
Qed.

(** every sector length in the tower is positive (the code's constants: 8192, 9216, 2048, ...) *)
Fixpoint sect_ok (v : view) : Prop :=
  match v with
  | Base => True
  | V k _ sub => match k with KSect L _ => 0 < L | _ => True end /\ sect_ok sub
  end.

(** read(n) of ANY view with positive sector lengths - whatever its sizes, offsets, sector
    maps, whatever the state: at most size / L + 2 sector reads per sector layer *)
Lemma v_read_fuel : forall v content, sect_ok v -> forall s n, fst (v_read v content s n) <> OutOfFuel.
Proof.
  induction v as [|k size sub IH]; intros content Hok s n; cbn [v_read].
  - discriminate.
  - destruct s as [p|pos ts0 ss]; [discriminate|]. destruct Hok as [Hk Hsub].
    set (ts := if (if size >? 0 then Z.min (size - pos) n else n) <? 0 then 0
               else (if size >? 0 then Z.min (size - pos) n else n)).
    pose proof (translate_fuel k size ts pos) as Ht.
    destruct (translate k size ts pos) as [expected|e|]; [|discriminate|congruence].
    assert (Hsk : fst (if expected =? v_tell ss then (Ok 0, ss) else v_seek sub ss expected 0) <> OutOfFuel).
    { destruct (_ =? _); [discriminate|apply v_seek_fuel]. }
    destruct (if expected =? v_tell ss then (Ok 0, ss) else v_seek sub ss expected 0) as [rs ss1].
    cbn [fst] in Hsk. destruct rs as [z|e|]; [|discriminate|congruence].
    assert (Hrd : forall st m_, fst (v_read sub content st m_) <> OutOfFuel) by (intros; now apply IH).
    destruct k as [|off|L m|w].
    + specialize (Hrd ss1 ts). destruct (v_read sub content ss1 ts) as [rd ss2]. cbn [fst] in Hrd.
      destruct rd; [discriminate|discriminate|congruence].
    + specialize (Hrd ss1 ts). destruct (v_read sub content ss1 ts) as [rd ss2]. cbn [fst] in Hrd.
      destruct rd; [discriminate|discriminate|congruence].
    + pose proof (sect_read_fuel (fun st a => v_seek sub st a 0) (fun st m_ => v_read sub content st m_)
                    L m ss1 pos ts (fun s0 a => v_seek_fuel sub s0 a 0) Hrd Hk) as Hs.
      destruct (sect_read _ _ _ _ _ _ _ _) as [rd ss2]. cbn [fst] in Hs.
      destruct rd; [discriminate|discriminate|congruence].
    + specialize (Hrd ss1 ts). destruct (v_read sub content ss1 ts) as [raw st]. cbn [fst] in Hrd.
      destruct raw as [b|e|]; [|discriminate|congruence].
      destruct (_ =? _); discriminate.
Qed.

(** The bound on the sector length is needed: with L = 0 the loop of the MODEL spins (the
    code would have raised ZeroDivisionError before: it never builds such a stream). *)
Example sector_length_needed :
  fst (v_read (V (KSect 0 MPlain) 5 Base) [1; 2; 3; 4; 5] (init_state (V (KSect 0 MPlain) 5 Base) 0) 5) = OutOfFuel.
Proof. vm_compute. reflexivity. Qed.

(** * 5. read(-1) / readall of ANY bounded view *)
(** true_size of a read(n) at position pos of a view of declared size [size] *)
Definition clip_ts (size pos n : Z) : Z :=
  let ts := if size >? 0 then Z.min (size - pos) n else n in if ts <? 0 then 0 else ts.
Lemma clip_ts_nonneg size pos n : 0 <= clip_ts size pos n.
Proof. unfold clip_ts. destruct (_ >? 0); destruct (_ <? 0) eqn:E; lia. Qed.
Lemma clip_ts_nonpos size pos n : n <= 0 -> clip_ts size pos n = 0.
Proof. intros H. unfold clip_ts. destruct (_ >? 0); destruct (_ <? 0) eqn:E; lia. Qed.

Lemma rev_samples_nil' w : rev_samples w [] = [].
Proof. reflexivity. Qed.

(** a read of no bytes returns no bytes (or an error), for any view in any state *)
Lemma v_read_nonpos : forall v content s n b s1,
  n <= 0 -> v_read v content s n = (Ok b, s1) -> b = [].
Proof.
  induction v as [|k size sub IH]; intros content s n b s1 Hn H; cbn [v_read] in H.
  - unfold base_read in H. injection H as <- _. unfold slice.
    replace (Z.to_nat (v_tell s + n - v_tell s)) with O by lia. reflexivity.
  - destruct s as [p|pos ts0 ss]; [discriminate|].
    fold (clip_ts size pos n) in H. rewrite (clip_ts_nonpos size pos n Hn) in H.
    destruct (translate k size 0 pos) as [expected|e|]; try discriminate.
    destruct (if expected =? v_tell ss then (Ok 0, ss) else v_seek sub ss expected 0) as [rs ss1].
    destruct rs as [z|e|]; try discriminate.
    destruct k as [|off|L m|w].
    + destruct (v_read sub content ss1 0) as [rd ss2] eqn:E. destruct rd as [b'|e|]; try discriminate.
      injection H as <- _. eapply IH; [|exact E]. lia.
    + destruct (v_read sub content ss1 0) as [rd ss2] eqn:E. destruct rd as [b'|e|]; try discriminate.
      injection H as <- _. eapply IH; [|exact E]. lia.
    + unfold sect_read in H. cbn [Z.leb Z.compare] in H. injection H as <- _. reflexivity.
    + destruct (v_read sub content ss1 0) as [raw st] eqn:E. destruct raw as [b'|e|]; try discriminate.
      apply IH in E; [|lia]. subst b'. destruct (_ =? _); [|discriminate].
      injection H as <- _. reflexivity.
Qed.

(** what one read(n) does to the view's own position *)
Lemma v_read_top k size sub content pos ts0 ss n r s1 :
  v_read (V k size sub) content (SV pos ts0 ss) n = (r, s1) ->
  (forall b, r = Ok b -> v_tell s1 = pos + clip_ts size pos n /\ (clip_ts size pos n = 0 -> b = []))
  /\ pos <= v_tell s1 /\ (exists p t u, s1 = SV p t u).
Proof.
  intros H. cbn [v_read] in H. fold (clip_ts size pos n) in H.
  pose proof (clip_ts_nonneg size pos n) as Hts. set (ts := clip_ts size pos n) in *.
  assert (Herr : forall e st, (Err e, SV pos ts st) = (r, s1) ->
            (forall b, r = Ok b -> v_tell s1 = pos + ts /\ (ts = 0 -> b = [])) /\ pos <= v_tell s1
            /\ (exists p t u, s1 = SV p t u)).
  { intros e st E. injection E as <- <-. split; [discriminate|]. cbn [v_tell]. split; [lia|eauto]. }
  assert (Hfuel : forall st, (@OutOfFuel (list Z), SV pos ts st) = (r, s1) ->
            (forall b, r = Ok b -> v_tell s1 = pos + ts /\ (ts = 0 -> b = [])) /\ pos <= v_tell s1
            /\ (exists p t u, s1 = SV p t u)).
  { intros st E. injection E as <- <-. split; [discriminate|]. cbn [v_tell]. split; [lia|eauto]. }
  assert (Hok : forall b st, (ts = 0 -> b = []) -> (Ok b, SV (pos + ts) ts st) = (r, s1) ->
            (forall b, r = Ok b -> v_tell s1 = pos + ts /\ (ts = 0 -> b = [])) /\ pos <= v_tell s1
            /\ (exists p t u, s1 = SV p t u)).
  { intros b st Hb E. injection E as <- <-. cbn [v_tell]. split; [|split; [lia|eauto]].
    intros b' Hb'. injection Hb' as <-. auto. }
  destruct (translate k size ts pos) as [expected|e|]; [|eauto|eauto].
  destruct (if expected =? v_tell ss then (Ok 0, ss) else v_seek sub ss expected 0) as [rs ss1].
  destruct rs as [z|e|]; [|eauto|eauto].
  destruct k as [|off|L m|w].
  - destruct (v_read sub content ss1 ts) as [rd ss2] eqn:E. destruct rd as [b'|e|]; [|eauto|eauto].
    eapply Hok; [|exact H]. intros Hz. rewrite Hz in E. eapply v_read_nonpos; [|exact E]. lia.
  - destruct (v_read sub content ss1 ts) as [rd ss2] eqn:E. destruct rd as [b'|e|]; [|eauto|eauto].
    eapply Hok; [|exact H]. intros Hz. rewrite Hz in E. eapply v_read_nonpos; [|exact E]. lia.
  - destruct (sect_read _ _ _ L m ss1 pos ts) as [rd ss2] eqn:E. destruct rd as [b'|e|]; [|eauto|eauto].
    eapply Hok; [|exact H]. intros Hz. rewrite Hz in E. unfold sect_read in E. cbn [Z.leb Z.compare] in E.
    now injection E as <- _.
  - destruct (v_read sub content ss1 ts) as [raw st] eqn:E. destruct raw as [b'|e|]; [|eauto|eauto].
    destruct (_ =? _); [|eauto].
    eapply Hok; [|exact H]. intros Hz. rewrite Hz in E. apply v_read_nonpos in E; [|lia]. now subst b'.
Qed.

(** The read-all loop over ANY view of positive declared size (well formed or not, any
    offsets, any sector maps, any sub-views): every round that returns bytes advances the
    position by min(4096, size - pos) > 0, so (size - pos) / 4096 + 2 rounds suffice. *)
Lemma v_readall_fuel k size sub content : sect_ok (V k size sub) -> 0 < size ->
  forall fuel s acc,
    (Z.to_nat ((size - v_tell s + 4095) / 4096) < fuel)%nat ->
    fst (v_readall fuel (V k size sub) content s 4096 acc) <> OutOfFuel.
Proof.
  intros Hok Hsz. induction fuel as [|f IH]; intros s acc Hf; [lia|].
  cbn [v_readall].
  pose proof (v_read_fuel (V k size sub) content Hok s 4096) as Hr.
  destruct (v_read (V k size sub) content s 4096) as [r s1] eqn:E. cbn [fst] in Hr.
  destruct r as [b|e|]; [|discriminate|congruence].
  destruct b as [|x b]; [discriminate|].
  apply IH.
  destruct s as [p|pos ts0 ss]; [cbn [v_read] in E; discriminate|].
  apply v_read_top in E as (A & _). destruct (A _ eq_refl) as [T Z0]. rewrite T.
  cbn [v_tell] in Hf.
  assert (Hne : clip_ts size pos 4096 <> 0) by (intros Hz; specialize (Z0 Hz); discriminate).
  unfold clip_ts in *. destruct (Z.gtb_spec size 0); [|lia].
  destruct (Z.ltb_spec (Z.min (size - pos) 4096) 0); [lia|]. lia.
Qed.

(** state positions never decrease below 0 along a history *)
Lemma v_read_pos v content s n r s1 :
  v_read v content s n = (r, s1) -> 0 <= v_tell s -> 0 <= v_tell s1.
Proof.
  destruct v as [|k size sub]; intros H Hp.
  - cbn [v_read] in H. unfold base_read in H. injection H as _ <-. cbn [v_tell].
    pose proof (zlen_nonneg (slice content (v_tell s) (v_tell s + n))). lia.
  - destruct s as [p|pos ts0 ss]; [cbn [v_read] in H; now injection H as _ <-|].
    apply v_read_top in H as (_ & B & _). cbn [v_tell] in Hp. lia.
Qed.
Lemma v_readall_pos v content : forall fuel s acc r s1,
  v_readall fuel v content s 4096 acc = (r, s1) -> 0 <= v_tell s -> 0 <= v_tell s1.
Proof.
  induction fuel as [|f IH]; intros s acc r s1 H Hp; cbn [v_readall] in H; [now injection H as _ <-|].
  destruct (v_read v content s 4096) as [r0 s0] eqn:E. apply v_read_pos in E; [|assumption].
  destruct r0 as [b|e|]; [|now injection H as _ <-|now injection H as _ <-].
  destruct b; [now injection H as _ <-|]. eapply IH; eassumption.
Qed.
Lemma v_seek_pos k size sub s off wh r s1 :
  0 < size -> v_seek (V k size sub) s off wh = (r, s1) -> 0 <= v_tell s -> 0 <= v_tell s1.
Proof.
  intros Hsz H Hp. cbn [v_seek] in H. destruct s as [p|pos ts ss]; [now injection H as _ <-|].
  cbn [v_tell] in Hp.
  set (np := clamp_pos size ((if wh =? 1 then pos else if wh =? 2 then size else 0) + off)) in *.
  assert (Hnp : 0 <= np) by (unfold np, clamp_pos; destruct (_ && _); [lia|]; destruct (_ <? 0) eqn:E0; lia).
  destruct (translate k size 0 np) as [ta|e|]; [|injection H as _ <-; cbn; lia|injection H as _ <-; cbn; lia].
  destruct (v_seek sub ss ta 0) as [r0 ss'].
  destruct r0; injection H as _ <-; cbn [v_tell]; lia.
Qed.

(** one operation of the public API, read(n < 0) included *)
Lemma step_total k size sub content s o :
  sect_ok (V k size sub) -> 0 < size -> 0 <= v_tell s ->
  fst (step (V k size sub) content s o) <> OutFuel /\ 0 <= v_tell (snd (step (V k size sub) content s o)).
Proof.
  intros Hok Hsz Hp. destruct o as [off wh| |n]; cbn [step].
  - pose proof (v_seek_fuel (V k size sub) s off wh) as H.
    destruct (v_seek (V k size sub) s off wh) as [r s1] eqn:E. cbn [fst snd] in *.
    split; [destruct r; [discriminate|discriminate|congruence]|]. eapply v_seek_pos; eassumption.
  - cbn [fst snd]. split; [discriminate|assumption].
  - destruct (Z.ltb_spec n 0) as [Hn|Hn].
    + pose proof (v_readall_fuel k size sub content Hok Hsz
                    (S (Z.to_nat ((vsize (V k size sub) content + zlen content) / 4096 + 1))) s []) as Hra.
      cbn [vsize] in *. pose proof (zlen_nonneg content) as Hc.
      specialize (Hra ltac:(lia)).
      destruct (v_readall _ _ content s 4096 []) as [r s1] eqn:E. cbn [fst snd] in *.
      split; [destruct r; [discriminate|discriminate|congruence]|]. eapply v_readall_pos; eassumption.
    + pose proof (v_read_fuel (V k size sub) content Hok s n) as H.
      destruct (v_read (V k size sub) content s n) as [r s1] eqn:E. cbn [fst snd] in *.
      split; [destruct r; [discriminate|discriminate|congruence]|]. eapply v_read_pos; eassumption.
Qed.

(** No history of seek / tell / read(n) / read(-1) on ANY view of positive declared size and
    positive sector lengths ever produces the out-of-fuel output - no well-formedness needed:
    the window may lie outside its parent, the chain may repeat or leave the parent, the
    reversed view may be misaligned. *)
Lemma view_history_total_lemma k size sub content : sect_ok (V k size sub) -> 0 < size ->
  forall ops s, 0 <= v_tell s -> ~ In OutFuel (fst (run (V k size sub) content s ops)).
Proof.
  intros Hok Hsz. induction ops as [|o ops IH]; intros s Hp; cbn [run]; [cbn; tauto|].
  destruct (step_total k size sub content s o Hok Hsz Hp) as [A B].
  destruct (step (V k size sub) content s o) as [r s1]. cbn [fst snd] in *.
  specialize (IH s1 B). destruct (run (V k size sub) content s1 ops) as [rs s2]. cbn [fst] in *.
  intros [H|H]; [congruence|tauto].
Qed.

(** The declared size must be positive: an UNBOUNDED window (size <= 0 switches clipping off
    in StreamWrapper) is read until the parent is exhausted, and the fuel [step] gives the
    read-all loop is computed from the declared size - so the MODEL runs out of fuel (the code
    does not: its loop ends with the parent's data, after |parent| / 4096 + 1 rounds). *)
Example readall_unbounded_window_fuel :
  let v := V (KOff 0) (-8192) Base in
  fst (step v (repeat 7 5000) (init_state v 0) (ORead (-1))) = OutFuel.
Proof. vm_compute. reflexivity. Qed.

(** ** The view on which read(-1) never ended before fix 4e95fab (finding in /repo, util/stream.py)
    The sample-reversed view of declared size <= 0 over an unbounded offset window - the shape
    roland/s7xx/sample_file.py builds for loop modes 5 and 6 when sustain end < start - 1:
    StreamReversed._translate_addr yielded size - (pos + 4096) < 0, the sub-view's seek clamped
    it to 0, so every read(4096) returned the same first 4096 bytes of the parent and the loop
    "until an empty block" never saw one (real classes: unbounded CPU and memory).  After the
    fix such a read raises BadReadSize: the first round of read(-1) ends with that error, from
    every state, for every content. *)
Definition spin_view : view := V (KRev 2) 0 (V (KOff 0) 0 Base).

Lemma spin_view_rejected content pos ts0 sub_state n :
  0 <= pos -> 0 < n -> n mod 2 = 0 ->
  fst (v_read spin_view content (SV pos ts0 sub_state) n) = Err BadReadSize.
Proof.
  intros Hp Hn Hev. unfold spin_view. cbn [v_read].
  change (0 >? 0) with false. cbn match.
  destruct (Z.ltb_spec n 0) as [|_]; [lia|].
  cbn [translate]. assert (E0 : n mod 2 =? 0 = true) by lia. rewrite E0. cbn [negb].
  assert (E1 : 0 - (pos + n) <? 0 = true) by lia. rewrite E1. reflexivity.
Qed.
Lemma spin_view_readall_ends content pos ts0 sub_state fuel acc :
  0 <= pos ->
  fst (v_readall (S fuel) spin_view content (SV pos ts0 sub_state) 4096 acc) = Err BadReadSize.
Proof.
  intros Hp. cbn [v_readall].
  pose proof (spin_view_rejected content pos ts0 sub_state 4096 Hp ltac:(lia) eq_refl) as H.
  destruct (v_read spin_view content (SV pos ts0 sub_state) 4096) as [r s1]. cbn [fst] in H. subst r. reflexivity.
Qed.

(** * 6. Roland S-7xx: the sample read (FAT decode -> get_file -> chained file -> window) *)
Lemma roland_sample_view_shape mode p file :
  exists k sub, roland_sample_view mode p file = V k (Roland.w_size (get_params mode p)) sub
                /\ (sect_ok file -> sect_ok (V k (Roland.w_size (get_params mode p)) sub)).
Proof.
  unfold roland_sample_view. destruct (w_rev (get_params mode p)).
  - eexists _, _. split; [reflexivity|]. cbn [sect_ok]. tauto.
  - eexists _, _. split; [reflexivity|]. cbn [sect_ok]. tauto.
Qed.
(** FAT decode (<= N walks of <= N + 2 steps), get_file (<= N + 1 steps), then read(-1) of the
    window (<= size / 4096 + 2 rounds, each <= 4096 / L + 2 cluster reads): never out of
    fuel, for any FAT words, any image bytes, any directory values, provided the cluster
    length and the window size computed from the loop points are positive. *)
Lemma roland_sample_pcm_total_lemma L doff fat image entry top mode p :
  0 < L -> 0 < Roland.w_size (get_params mode p) ->
  roland_sample_pcm L doff fat image entry top mode p <> OutOfFuel.
Proof.
  intros HL Hw. unfold roland_sample_pcm, roland_sample_stream.
  pose proof (roland_decode_total_lemma fat) as Hd.
  destruct (roland_decode fat) as [t| |]; cbn [bind]; [|discriminate|congruence].
  pose proof (roland_get_file_total_lemma (zlen fat) (snd t) entry top (zlen_nonneg fat)) as Hg.
  destruct (roland_get_file _ _ _ _) as [secs| |]; cbn [bind]; [|discriminate|congruence].
  destruct (roland_sample_view_shape mode p (roland_file_view L doff (zlen image) secs)) as (k & sub & E & Hok).
  rewrite E. unfold read_all.
  destruct (step_total k (Roland.w_size (get_params mode p)) sub image
              (init_state (V k (Roland.w_size (get_params mode p)) sub) 0) (ORead (-1))) as [A _].
  - apply Hok. unfold roland_file_view, chain_view. cbn [sect_ok]. tauto.
  - assumption.
  - cbn [init_state v_tell]. lia.
  - destruct (fst (step _ image _ (ORead (-1)))); cbn [out_res]; congruence.
Qed.
(** The hypothesis on the window size cannot be dropped in the MODEL: a window of size <= 0 is
    unbounded (StreamWrapper clips only when size > 0) and the fuel [step] gives the read-all
    loop is computed from the DECLARED size.  Witness with field values the real record can
    hold: a chain 6,7,8,9,10,2,3,4,5 whose first five clusters lie beyond the end of a
    truncated image (12288 bytes, cluster 2048), start point 5120 (window offset 10240 = the
    part of the file that IS in the image), sustain end 0: declared size -10238, fuel 2, but
    the window delivers two full 4096-byte blocks before the empty one.  The code has no fuel:
    its loop ends with the parent's data (8192 bytes returned). *)
Definition fuel_witness_fat : list Z :=
  [FAT_AREA_ID; 0; 3; 4; 5; FAT_END; 7; 8; 9; 10; 2; 0; 0; 0; 0; 0; 0; 0; 0; 0; 0; 0; FAT_V1; FAT_V1].
Definition fuel_witness_points : rpoints :=
  {| p_start := 5120; p_sus_start := 0; p_sus_end := 0; p_rel_start := 0; p_rel_end := 0 |}.
Example roland_sample_pcm_window_needed :
  (t <- roland_decode fuel_witness_fat ;; roland_get_file (zlen fuel_witness_fat) (snd t) 6 0)
  = Ok [6; 7; 8; 9; 10; 2; 3; 4; 5]
  /\ Roland.w_size (get_params 0 fuel_witness_points) = -10238
  /\ roland_sample_pcm 2048 0 fuel_witness_fat (repeat 7 (Z.to_nat 12288)) 6 0 0 fuel_witness_points = OutOfFuel.
Proof. vm_compute. repeat split; reflexivity. Qed.

Lemma roland_sample_pcm_total_statement_refuted_lemma :
  ~ (forall L doff fat image entry top mode p,
       0 < L -> roland_sample_pcm L doff fat image entry top mode p <> OutOfFuel).
Proof.
  intros H. destruct roland_sample_pcm_window_needed as (_ & _ & E).
  eapply H; [|exact E]. reflexivity.
Qed.

(** * 7. Splitters whose fuel is the length of their input: the fuel never truncates *)
Lemma blocks_total_lemma : forall fuel n l,
  (0 < n)%nat -> (length l <= fuel)%nat ->
  concat (blocks fuel n l) = l /\ (length (blocks fuel n l) <= length l)%nat.
Proof.
  induction fuel as [|f IH]; intros n l Hn Hl.
  - destruct l; [split; [reflexivity|cbn; lia]|cbn in Hl; lia].
  - destruct l as [|x l]; [split; [reflexivity|cbn; lia]|].
    change (blocks (S f) n (x :: l)) with (firstn n (x :: l) :: blocks f n (skipn n (x :: l))).
    assert (Hs : (length (skipn n (x :: l)) <= f)%nat) by (rewrite skipn_length; cbn [length] in *; lia).
    destruct (IH n _ Hn Hs) as [A B]. cbn [concat length]. rewrite A. split; [apply firstn_skipn|].
    rewrite skipn_length in B. cbn [length] in *. lia.
Qed.
Lemma chunks_total_lemma : forall fuel w l,
  (0 < w)%nat -> (length l <= fuel)%nat ->
  concat (chunks fuel w l) = l /\ (length (chunks fuel w l) <= length l)%nat.
Proof.
  induction fuel as [|f IH]; intros n l Hn Hl.
  - destruct l; [split; [reflexivity|cbn; lia]|cbn in Hl; lia].
  - destruct l as [|x l]; [split; [reflexivity|cbn; lia]|].
    change (chunks (S f) n (x :: l)) with (firstn n (x :: l) :: chunks f n (skipn n (x :: l))).
    assert (Hs : (length (skipn n (x :: l)) <= f)%nat) by (rewrite skipn_length; cbn [length] in *; lia).
    destruct (IH n _ Hn Hs) as [A B]. cbn [concat length]. rewrite A. split; [apply firstn_skipn|].
    rewrite skipn_length in B. cbn [length] in *. lia.
Qed.
(** the frame / sample splitter of the transcoder: any fuel >= |l| gives the same pieces *)
Lemma pieces_total_lemma : forall f1 f2 n l,
  (length l <= f1)%nat -> (length l <= f2)%nat -> pieces f1 n l = pieces f2 n l.
Proof.
  induction f1 as [|f1 IH]; intros f2 n l H1 H2.
  - destruct l; [|cbn in H1; lia]. destruct f2; [reflexivity|]. cbn [pieces].
    destruct n; cbn; reflexivity.
  - destruct f2 as [|f2].
    + destruct l; [|cbn in H2; lia]. cbn [pieces]. destruct n; cbn; reflexivity.
    + cbn [pieces]. destruct (Nat.ltb_spec (length l) n) as [Hlt|Hge]; [reflexivity|].
      destruct (Nat.eqb_spec n 0) as [|Hn0]; [now rewrite orb_true_r|]. cbn [orb]. f_equal.
      apply IH; rewrite skipn_length; lia.
Qed.

(** * 8. `ls` of an AKAI program / sample file: the keygroup chain walk *)
Lemma map_res_fuel {A B} (f : A -> res B) : (forall x, f x <> OutOfFuel) -> forall l, map_res f l <> OutOfFuel.
Proof.
  intros Hf. induction l as [|x t IH]; cbn [map_res]; [discriminate|].
  specialize (Hf x). destruct (f x); cbn [bind]; [|discriminate|congruence].
  destruct (map_res f t); cbn [bind]; congruence.
Qed.
Lemma fast_byte_fuel b : fast_akai_to_ascii_byte b <> OutOfFuel.
Proof.
  unfold fast_akai_to_ascii_byte.
  repeat match goal with |- (if ?c then _ else _) <> _ => destruct c; [discriminate|] end. discriminate.
Qed.
Lemma decode_name_fuel codes : decode_name codes <> OutOfFuel.
Proof.
  unfold decode_name. pose proof (map_res_fuel _ fast_byte_fuel (rstrip_akai codes)) as H.
  fold (akai_to_ascii (rstrip_akai codes)) in H. destruct (akai_to_ascii _); congruence.
Qed.
Lemma decode_keygroup_fuel bs : decode_keygroup bs <> OutOfFuel.
Proof.
  unfold decode_keygroup. destruct (_ <=? _); [discriminate|]. destruct (_ <? _); [discriminate|].
  match goal with |- context [decode_zone_names ?e ?n] => assert (H : decode_zone_names e n <> OutOfFuel) end.
  { unfold decode_zone_names. apply map_res_fuel. intros i.
    match goal with |- context [decode_name ?c] => pose proof (decode_name_fuel c) as Hn; destruct (decode_name c) end;
      cbn [bind]; congruence. }
  destruct (decode_zone_names _ _); cbn [bind]; congruence.
Qed.
(** KeygroupLinkConstruct: structural on the number of keygroups still to read - exactly
    number_of_keygroups (one byte: <= 255) records are decoded, wherever the next-keygroup
    addresses point (back to an earlier record, to itself, past the end) *)
Lemma keygroup_walk_fuel : forall n idx total file pos,
  keygroup_walk n idx total file pos <> OutOfFuel /\
  (forall ks, keygroup_walk n idx total file pos = Ok ks -> length ks = n).
Proof.
  induction n as [|n IH]; intros idx total file pos; cbn [keygroup_walk].
  - split; [discriminate|]. intros ks H. now injection H as <-.
  - pose proof (decode_keygroup_fuel (skipn (Z.to_nat pos) file)) as Hk.
    destruct (decode_keygroup _) as [k| |]; cbn [bind]; [|split; discriminate|congruence].
    match goal with |- context [keygroup_walk n ?a ?b ?c ?d] => destruct (IH a b c d) as [A B];
      destruct (keygroup_walk n a b c d) as [rest| |] end; cbn [bind]; [|split; discriminate|congruence].
    split; [discriminate|]. intros ks H. injection H as <-. cbn [length]. f_equal. now apply B.
Qed.
Lemma decode_program_fuel file :
  decode_program file <> OutOfFuel /\
  (forall p, decode_program file = Ok p ->
     length (p_keygroups p) = Z.to_nat (get (p_env p) (! "number_of_keygroups"))).
Proof.
  unfold decode_program. destruct (_ <? _); [split; discriminate|].
  set (e := parse_env program_layout file).
  match goal with |- context [decode_name ?c] => pose proof (decode_name_fuel c) as Hn; destruct (decode_name c) as [nm| |] end;
    cbn [bind]; [|split; discriminate|congruence].
  destruct (negb _); [split; discriminate|]. destruct (negb _); [split; discriminate|].
  match goal with |- context [keygroup_walk ?n ?a ?b ?c ?d] => destruct (keygroup_walk_fuel n a b c d) as [A B];
    destruct (keygroup_walk n a b c d) as [ks| |] end; cbn [bind]; [|split; discriminate|congruence].
  split; [discriminate|]. intros p H. injection H as <-. cbn [p_keygroups p_env]. now apply B.
Qed.
Lemma decode_sample_fuel bs : decode_sample bs <> OutOfFuel.
Proof.
  unfold decode_sample. destruct (_ <? _); [discriminate|]. unfold sample_of_env.
  destruct (negb _); [discriminate|].
  match goal with |- context [decode_name ?c] => pose proof (decode_name_fuel c) as Hn; destruct (decode_name c) as [nm| |] end;
    cbn [bind]; [|discriminate|congruence].
  destruct (negb _); discriminate.
Qed.
Lemma ls_file_total_lemma : forall pc fn sn tn body,
  ls_program pc fn sn tn body <> OutOfFuel /\ ls_sample pc fn sn body <> OutOfFuel.
Proof.
  intros pc fn sn tn body. unfold ls_program, ls_sample.
  destruct (decode_program_fuel body) as [Hp _]. pose proof (decode_sample_fuel body) as Hs.
  destruct (decode_program body); destruct (decode_sample body); cbn [bind]; split; congruence.
Qed.

(** * 9. The regex-scan loops of the name sanitizers: the fuel |name| + 1 never truncates *)
Lemma drop_while_len p : forall l, (length (drop_while p l) <= length l)%nat.
Proof. induction l as [|c t IH]; cbn [drop_while]; [lia|]. destruct (p c); cbn [length]; lia. Qed.
Lemma replace_runs_total_lemma : forall f1 f2 ok l,
  (length l <= f1)%nat -> (length l <= f2)%nat -> replace_runs f1 ok l = replace_runs f2 ok l.
Proof.
  induction f1 as [|f1 IH]; intros f2 ok l H1 H2.
  - destruct l; [|cbn in H1; lia]. destruct f2; reflexivity.
  - destruct f2 as [|f2]; [destruct l; [reflexivity|cbn in H2; lia]|].
    destruct l as [|c t]; [reflexivity|]. cbn [replace_runs length] in *.
    pose proof (drop_while_len (fun x => negb (ok x)) t).
    destruct (ok c); f_equal; apply IH; lia.
Qed.
Lemma replace_invalid_total_lemma : forall f1 f2 pw l,
  (length l <= f1)%nat -> (length l <= f2)%nat -> replace_invalid f1 pw l = replace_invalid f2 pw l.
Proof.
  induction f1 as [|f1 IH]; intros f2 pw l H1 H2.
  - destruct l; [|cbn in H1; lia]. destruct f2; reflexivity.
  - destruct f2 as [|f2]; [destruct l; [reflexivity|cbn in H2; lia]|].
    destruct l as [|c t]; [reflexivity|]. cbn [replace_invalid length] in *.
    pose proof (drop_while_len (fun x => negb (ok_safe x)) t).
    pose proof (drop_while_len (fun x => x =? 58) t).
    destruct (negb (ok_safe c)); [f_equal; apply IH; lia|].
    destruct ((c =? 58) && negb pw); f_equal; apply IH; lia.
Qed.

(** * 10. The de-emphasis filters: structural, one kernel call per block *)
From SE Require Import Filters.
Lemma fir_convolve_valid_fuel f x : fir_convolve_valid f x <> OutOfFuel.
Proof.
  unfold fir_convolve_valid. destruct (f_chick f); destruct (f_h f); try discriminate.
  - destruct (_ =? 0); discriminate.
  - destruct (_ <? _); [discriminate|]. destruct (_ =? 0); discriminate.
Qed.
Lemma filt_process_fuel f x : filt_process f x <> OutOfFuel.
Proof.
  destruct f as [g|g]; cbn [filt_process].
  - unfold fir_process. pose proof (fir_convolve_valid_fuel g (acat (f_xprev g) x)) as H.
    destruct (fir_convolve_valid _ _); cbn [bind]; congruence.
  - unfold iir_process.
    assert (H : forall post xs, iir_core post (i_B g) (i_A g) (i_xprev g) (i_yprev g) xs <> OutOfFuel).
    { intros post xs. unfold iir_core. destruct (negb _); [discriminate|].
      destruct (iir_loop _ _ _ _ _ _ _) as [[o xw] yw]. discriminate. }
    destruct (i_chick g).
    + destruct x as [xs|xs]; [cbn [bind]; discriminate|].
      specialize (H c_bound (map z2f xs)).
      destruct (iir_core _ _ _ _ _ _) as [[[o xp] yp]| |]; cbn [bind]; congruence.
    + specialize (H (fun y => y) (to_f x)).
      destruct (iir_core _ _ _ _ _ _) as [[[o xp] yp]| |]; cbn [bind]; congruence.
Qed.
Lemma filt_get_remaining_fuel f : filt_get_remaining f <> OutOfFuel.
Proof.
  destruct f as [g|g]; cbn [filt_get_remaining]; [|discriminate].
  unfold fir_get_remaining. destruct (_ <? 0); [discriminate|].
  match goal with |- context [fir_convolve_valid g ?x] => pose proof (fir_convolve_valid_fuel g x) as H;
    destruct (fir_convolve_valid g x) end; cbn [bind]; congruence.
Qed.
Lemma filter_stream_total_lemma : forall blocks f, stream f blocks <> OutOfFuel.
Proof.
  assert (Hfeed : forall blocks f, feed f blocks <> OutOfFuel).
  { induction blocks as [|b t IH]; intros f; cbn [feed]; [discriminate|].
    pose proof (filt_process_fuel f b) as H.
    destruct (filt_process f b) as [r| |]; cbn [bind]; [|discriminate|congruence].
    specialize (IH (snd r)). destruct (feed (snd r) t); cbn [bind]; congruence. }
  intros blocks f. unfold stream. specialize (Hfeed blocks f).
  destruct (feed f blocks) as [r| |]; cbn [bind]; [|discriminate|congruence].
  pose proof (filt_get_remaining_fuel (snd r)) as H.
  destruct (filt_get_remaining (snd r)); cbn [bind]; congruence.
Qed.
