(** Whole-image model of the CDDA (bin + cue) reader and exporter: the cue-sheet parser and
    the routing of smpl_extract/actions.py attempt_parse_cue_sheet (Cue.v), the track windows of
    smpl_extract/cdda/image.py CompactDiskAudioImageAdapter.from_bin_cue (Cue.v), the track
    names (AudioTrack.name = the TITLE or "Untitled Track n"), the two naming routines every
    image applies to its children (Names.v: make_safe_names_routine, then
    make_export_names_routine), CompactDiskAudioImage.combine_stereo_routine (the IDENTITY:
    the CDDA image overrides Image.combine_stereo_routine, so "x L" / "x R" titled tracks are
    never merged) and the transcoder (Transcode.v: one little-endian 16-bit 2-channel stream
    to a 16-bit 2-channel WAV is the pass-through transcoder).

    As in AkaiImage.v a byte-window view (StreamOffset) is represented by its logical content;
    [bin] is the list of the bin file's bytes, a cue sheet is the list of its lines (each a
    list of 7-bit character codes, as returned by readlines()). *)
From SE Require Import Base Codecs Cue Names Transcode AkaiImage.

(** f"Untitled Track {i+1}" *)
Definition UNTITLED : list Z := [85; 110; 116; 105; 116; 108; 101; 100; 32; 84; 114; 97; 99; 107; 32].
(** title = cue_track.title or f"Untitled Track {i+1}": a missing and an EMPTY title are both falsy *)
Definition track_name (w : window) : list Z :=
  match w_title w with
  | Some (c :: s) => c :: s
  | _ => UNTITLED ++ str_Z (w_number w)
  end.

(** StreamOffset(bin, size, offset): logical content.  A size <= 0 switches the clipping off
    (StreamWrapper clips only when end_of_file > 0): the window then runs to the end of the bin. *)
Definition window_content (bin : list Z) (w : window) : list Z :=
  if w_size w >? 0 then slice bin (w_off w) (w_off w + w_size w) else slice bin (w_off w) (zlen bin).

(** AudioTrack.to_generalized: one little-endian stream, 2 bytes per sample, 2 interleaved channels *)
Definition track_src (bin : list Z) (w : window) : src :=
  {| sbytes := window_content bin w; swidth := 2; schans := 2; sbig := false |}.

Definition CDDA_RATE : Z := 44100.
Definition CDDA_CHANNELS : Z := 2.

(** ExportManager.export_samples over the image's children (the path of a track is its
    export name alone: the image is the root).  [names] are the export names, track by track. *)
Fixpoint export_tracks (bin : list Z) (ws : list window) (names : list (list Z)) : res (list wavfile) :=
  match ws, names with
  | w :: wt, n :: nt =>
      pcm <- transcode 4096 [track_src bin w] 2 CDDA_CHANNELS ;;
      rest <- export_tracks bin wt nt ;;
      Ok ({| w_path := [n]; w_rate := CDDA_RATE; w_channels := CDDA_CHANNELS; w_pcm := pcm |} :: rest)
  | _, _ => Ok []
  end.

(** the sibling list handed to the naming routines: every track is a file (SampleEntry) *)
Definition track_elems (ws : list window) : list (list Z * bool) := map (fun w => (track_name w, true)) ws.

(** CompactDiskAudioImage.children (routines in registration order: safe names, export
    names; either may raise CouldNotDetermineName) followed by export_samples *)
Definition cdda_image_export (c : cue) (bin : list Z) : res (list wavfile) :=
  let ws := cdda_windows c (zlen bin) in
  _ <- make_safe_names (track_elems ws) ;;
  names <- make_export_names (track_elems ws) ;;
  export_tracks bin ws names.

(** * Routing: attempt_parse_cue_sheet.  A sheet with any non-audio track hands its bin file
    to the sampler readers (AKAI / Roland): it is NOT a CDDA image. *)
Inductive routed (A : Type) := ToSampler (bin_name : list Z) | ToCdda (a : A).
Arguments ToSampler {A} bin_name.
Arguments ToCdda {A} a.

Definition cue_export (lines : list (list Z)) (bin : list Z) : res (routed (list wavfile)) :=
  c <- parse_cue_sheet lines ;;
  match cue_route c with
  | RSampler => Ok (ToSampler (c_bin c))
  | RCdda => files <- cdda_image_export c bin ;; Ok (ToCdda files)
  end.

(** `export` of a cue sheet read as a CDDA image.  A text that is not a cue sheet is
    Err BadCueSheet (the caller then tries the sampler readers on the file itself); a sheet
    routed to the sampler readers is no CDDA image either and is reported the same way here -
    [cue_export] tells the two apart. *)
Definition cdda_export (lines : list (list Z)) (bin : list Z) : res (list wavfile) :=
  r <- cue_export lines bin ;;
  match r with ToCdda files => Ok files | ToSampler _ => Err BadCueSheet end.

(** * The same export as a PLAN: every file with the byte range of the bin its PCM is, the
    bin itself being represented by its length only.  [cdda_export_plan_exact]
    (CddaCompose.v) proves, for every sheet and every bin, that [cue_export] is this plan
    with the ranges cut out of the bin. *)
Record planfile := { pf_path : list (list Z); pf_rate : Z; pf_channels : Z; pf_off : Z; pf_len : Z }.

(** length of the PCM of a window over a bin of [eof] bytes: the window clipped at the end of
    the bin (unbounded when its size is <= 0), in whole 4-byte frames *)
Definition pcm_len (eof : Z) (w : window) : Z :=
  let avail := Z.max 0 (eof - Z.max 0 (w_off w)) in
  let n := if w_size w >? 0 then Z.min (w_size w) avail else avail in
  (n / 4) * 4.

Fixpoint plan_tracks (eof : Z) (ws : list window) (names : list (list Z)) : list planfile :=
  match ws, names with
  | w :: wt, n :: nt =>
      {| pf_path := [n]; pf_rate := CDDA_RATE; pf_channels := CDDA_CHANNELS; pf_off := w_off w; pf_len := pcm_len eof w |}
      :: plan_tracks eof wt nt
  | _, _ => []
  end.

Definition cue_export_plan (lines : list (list Z)) (eof : Z) : res (routed (list planfile)) :=
  c <- parse_cue_sheet lines ;;
  match cue_route c with
  | RSampler => Ok (ToSampler (c_bin c))
  | RCdda =>
      let ws := cdda_windows c eof in
      _ <- make_safe_names (track_elems ws) ;;
      names <- make_export_names (track_elems ws) ;;
      Ok (ToCdda (plan_tracks eof ws names))
  end.

Definition materialise (bin : list Z) (p : planfile) : wavfile :=
  {| w_path := pf_path p; w_rate := pf_rate p; w_channels := pf_channels p;
     w_pcm := firstn (Z.to_nat (pf_len p)) (skipn (Z.to_nat (pf_off p)) bin) |}.
Definition materialise_routed (bin : list Z) (r : routed (list planfile)) : routed (list wavfile) :=
  match r with ToSampler b => ToSampler b | ToCdda ps => ToCdda (map (materialise bin) ps) end.

(** * `ls` of the image root: the tracks' safe names (Traversable.get_info: child.safe_name,
    every child of type "CDDA Track").  Both naming routines run before anything is listed. *)
Definition cdda_listing (lines : list (list Z)) (eof : Z) : res (routed (list (list Z))) :=
  c <- parse_cue_sheet lines ;;
  match cue_route c with
  | RSampler => Ok (ToSampler (c_bin c))
  | RCdda =>
      let ws := cdda_windows c eof in
      safe <- make_safe_names (track_elems ws) ;;
      _ <- make_export_names (track_elems ws) ;;
      Ok (ToCdda safe)
  end.
