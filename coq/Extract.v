From SE Require Import Base Driver.
From Coq Require Import Extraction ExtrOcamlBasic ExtrOCamlFloats ExtrOCamlInt63.
Extraction Language OCaml.
Extraction "../ocaml/model.ml" dispatch.
