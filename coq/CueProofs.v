From SE Require Import Base Codecs Cue FatProofs StreamProofs.

(** * C03: MSF arithmetic and track windows *)
Lemma msf_frames_lemma m s f :
  frames_of_index {| ix_num := 1; ix_min := m; ix_sec := s; ix_frm := f |} = (60 * m + s) * 75 + f.
Proof. unfold frames_of_index. cbn [ix_min ix_sec ix_frm]. lia. Qed.

Definition first_frame (t : ctrack) : Z :=
  match t_indices t with i :: _ => frames_of_index i | [] => 0 end.
Definition has_index (t : ctrack) : Prop := t_indices t <> [].

(** the windows the property describes, from the first-index frame numbers *)
Fixpoint windows_spec (fs : list Z) (eof : Z) : list (Z * Z) :=
  match fs with
  | [] => []
  | a :: t =>
      match t with
      | [] => [(2352 * a, eof - 2352 * a)]
      | b :: _ => (2352 * a, 2352 * (b - a)) :: windows_spec t eof
      end
  end.

Lemma cdda_walk_spec : forall rest cur i eof,
  has_index cur -> Forall has_index rest ->
  map (fun w => (w_off w, w_size w)) (cdda_walk cur rest i eof)
  = windows_spec (first_frame cur :: map first_frame rest) eof.
Proof.
  induction rest as [|nxt rest IH]; intros cur i eof Hc Hr.
  - cbn [cdda_walk map windows_spec]. unfold has_index, first_frame in *.
    destruct (t_indices cur) as [|ci ?]; [congruence|]. cbn. unfold BYTES_PER_FRAME. reflexivity.
  - inversion Hr as [|? ? Hn Hr']; subst. cbn [cdda_walk].
    unfold has_index in Hc, Hn.
    destruct (t_indices cur) as [|ci ?] eqn:Ec; [congruence|].
    destruct (t_indices nxt) as [|ni ?] eqn:En; [congruence|].
    cbn [map w_off w_size]. rewrite IH by (unfold has_index; congruence || assumption).
    cbn [map windows_spec]. unfold first_frame. rewrite Ec, En. unfold BYTES_PER_FRAME. reflexivity.
Qed.

(** all tracks audio, each with at least one INDEX: the windows are exactly the property's *)
Lemma cdda_windows_lemma :
  forall c eof,
    Forall (fun t => is_audio t = true) (c_tracks c) -> Forall has_index (c_tracks c) ->
    map (fun w => (w_off w, w_size w)) (cdda_windows c eof)
    = windows_spec (map first_frame (c_tracks c)) eof.
Proof.
  intros c eof Ha Hi. unfold cdda_windows.
  assert (Hf : filter is_audio (c_tracks c) = c_tracks c).
  { induction (c_tracks c) as [|t ts IH]; [reflexivity|].
    inversion Ha; subst. cbn [filter]. rewrite H1. f_equal. apply IH; [assumption|]. now inversion Hi. }
  rewrite Hf. destruct (c_tracks c) as [|t ts]; [reflexivity|].
  inversion Hi; subst. now apply cdda_walk_spec.
Qed.

(** * C03: tiling of the bin *)
Lemma skipn_add {A} : forall (a b : nat) (l : list A), skipn (a + b) l = skipn b (skipn a l).
Proof.
  induction a as [|a IH]; intros b l; [reflexivity|].
  destruct l; cbn [Nat.add skipn]; [now rewrite skipn_nil|apply IH].
Qed.
Lemma slice_app {A} (l : list A) a b c :
  0 <= a <= b -> b <= c -> slice l a b ++ slice l b c = slice l a c.
Proof.
  intros Hab Hbc. unfold slice.
  replace (Z.to_nat b) with (Z.to_nat a + Z.to_nat (b - a))%nat by lia.
  rewrite skipn_add.
  replace (Z.to_nat (c - a)) with (Z.to_nat (b - a) + Z.to_nat (c - b))%nat by lia.
  set (m := skipn (Z.to_nat a) l). set (n := Z.to_nat (b - a)). set (k := Z.to_nat (c - b)).
  rewrite <- (firstn_skipn n m) at 3.
  rewrite firstn_app. rewrite firstn_length.
  destruct (Nat.le_gt_cases n (length m)).
  - rewrite Nat.min_l by lia. replace (n + k - n)%nat with k by lia.
    rewrite firstn_firstn. replace (Nat.min (n + k) n) with n by lia. reflexivity.
  - rewrite (skipn_all2 m) by lia. rewrite !firstn_nil, !app_nil_r.
    rewrite firstn_firstn. replace (Nat.min (n + k) n) with n by lia. reflexivity.
Qed.

Definition mkwin (p : Z * Z) : window :=
  {| w_title := None; w_number := 0; w_off := fst p; w_size := snd p; w_samples := 0 |}.
Fixpoint increasing (fs : list Z) : Prop :=
  match fs with
  | a :: t => match t with b :: _ => a < b /\ increasing t | [] => True end
  | [] => True
  end.

Lemma firstn_slice {A} (l : list A) a b k :
  0 <= a -> 0 <= k <= b - a -> firstn (Z.to_nat k) (slice l a b) = slice l a (a + k).
Proof.
  intros Ha Hk. unfold slice. rewrite firstn_firstn.
  replace (Nat.min (Z.to_nat k) (Z.to_nat (b - a))) with (Z.to_nat (a + k - a)) by lia. reflexivity.
Qed.

Lemma track_pcm_inner bin off size :
  0 <= off -> 0 < size -> size mod 4 = 0 -> off + size <= zlen bin ->
  track_pcm bin (mkwin (off, size)) = slice bin off (off + size).
Proof.
  intros Ho Hs Hm Hl. unfold track_pcm, mkwin. cbn [w_size w_off fst snd].
  destruct (Z.gtb_spec size 0); [|lia].
  rewrite slice_zlen by lia.
  replace (Z.max 0 (Z.min (off + size - off) (zlen bin - off))) with size by lia.
  replace (size / 4 * 4) with size.
  2:{ pose proof (Z.div_mod size 4 ltac:(lia)). lia. }
  rewrite firstn_slice by lia. reflexivity.
Qed.

Lemma track_pcm_last bin off :
  0 <= off <= zlen bin ->
  track_pcm bin (mkwin (off, zlen bin - off))
  = slice bin off (zlen bin - (zlen bin - off) mod 4).
Proof.
  intros Ho. unfold track_pcm, mkwin. cbn [w_size w_off fst snd].
  set (n := zlen bin - off).
  assert (Hraw : (if n >? 0 then slice bin off (off + n) else slice bin off (zlen bin)) = slice bin off (zlen bin)).
  { destruct (n >? 0); [|reflexivity]. f_equal. unfold n. lia. }
  rewrite Hraw. rewrite slice_zlen by lia.
  replace (Z.max 0 (Z.min (zlen bin - off) (zlen bin - off))) with n by (unfold n; lia).
  pose proof (Z.div_mod n 4 ltac:(lia)). pose proof (Z.mod_pos_bound n 4 ltac:(lia)).
  rewrite firstn_slice by (unfold n in *; lia).
  f_equal. unfold n in *. lia.
Qed.

Lemma last_cons_cons (a b : Z) t : last (a :: b :: t) 0 = last (b :: t) 0.
Proof. reflexivity. Qed.

Lemma increasing_le_last : forall fs a, increasing (a :: fs) -> a <= last (a :: fs) 0.
Proof.
  induction fs as [|b t IH]; intros a H; [cbn; lia|].
  cbn [increasing] in H. destruct H as [Hab Ht]. rewrite last_cons_cons. specialize (IH b Ht). lia.
Qed.

(** Concatenating the tracks reproduces the bin from the first track's first index to the
    end of the file truncated to whole 4-byte frames: no gap, no overlap. *)
Lemma cdda_tiling_lemma :
  forall fs bin,
    fs <> [] -> 0 <= hd 0 fs -> increasing fs -> 2352 * last fs 0 <= zlen bin ->
    concat (map (fun p => track_pcm bin (mkwin p)) (windows_spec fs (zlen bin)))
    = slice bin (2352 * hd 0 fs) (zlen bin - (zlen bin - 2352 * last fs 0) mod 4).
Proof.
  induction fs as [|a t IH]; intros bin Hne H0 Hinc Hlast; [congruence|].
  destruct t as [|b t'].
  - cbn [windows_spec map concat hd last]. rewrite app_nil_r.
    cbn [hd last] in *. apply track_pcm_last. lia.
  - cbn [increasing] in Hinc. destruct Hinc as [Hab Hinc].
    change (windows_spec (a :: b :: t') (zlen bin))
      with ((2352 * a, 2352 * (b - a)) :: windows_spec (b :: t') (zlen bin)).
    cbn [map concat hd]. rewrite last_cons_cons in *. cbn [hd] in H0.
    pose proof (increasing_le_last t' b Hinc) as Hbl.
    rewrite IH; [|congruence|cbn [hd]; lia|assumption|assumption].
    rewrite track_pcm_inner; try lia.
    2:{ replace (2352 * (b - a)) with ((588 * (b - a)) * 4) by lia. apply Z.mod_mul. lia. }
    cbn [hd].
    pose proof (Z.mod_pos_bound (zlen bin - 2352 * last (b :: t') 0) 4 ltac:(lia)).
    pose proof (Z.mod_le (zlen bin - 2352 * last (b :: t') 0) 4 ltac:(lia) ltac:(lia)).
    replace (2352 * a + 2352 * (b - a)) with (2352 * b) by lia.
    apply slice_app; lia.
Qed.

(** * C17 *)
Lemma nonempty_entry_spec : forall lines t r,
  nonempty_entry lines = (t, r) ->
  (length r <= length lines)%nat /\ (lines <> [] -> (length r < length lines)%nat) /\
  (forall x, In x r -> In x lines) /\
  (t = [] \/ exists l, In l lines /\ t = strip l).
Proof.
  induction lines as [|l rest IH]; intros t r H; cbn [nonempty_entry] in H.
  - injection H as <- <-. repeat split; auto; try tauto.
  - destruct (strip l) as [|c cs] eqn:E.
    + apply IH in H as (H1 & H2 & H3 & H4). cbn [length]. repeat split; try lia.
      * intros x Hx. right. auto.
      * destruct H4 as [->|(l0 & Hin & ->)]; [auto|]. right. exists l0. split; [now right|reflexivity].
    + injection H as <- <-. cbn [length]. repeat split; try lia.
      * intros x Hx. now right.
      * right. exists l. split; [now left|]. now rewrite E.
Qed.

Lemma m_file_nil : m_file [] = None.
Proof. reflexivity. Qed.

(** Text without any FILE line is not a cue sheet. *)
Lemma cue_files_no_file :
  forall fuel lines acc,
    (forall l, In l lines -> m_file (strip l) = None) -> (length lines < fuel)%nat ->
    cue_files fuel lines acc = Ok acc.
Proof.
  induction fuel as [|fuel IH]; intros lines acc Hno Hf; [lia|].
  cbn [cue_files]. destruct lines as [|l0 ls]; [reflexivity|].
  destruct (nonempty_entry (l0 :: ls)) as [text rest] eqn:E.
  apply nonempty_entry_spec in E as (H1 & H2 & H3 & H4).
  assert (Hm : m_file text = None).
  { destruct H4 as [->|(l & Hin & ->)]; [reflexivity|auto]. }
  rewrite Hm. apply IH.
  - intros l Hl. apply Hno. auto.
  - specialize (H2 ltac:(discriminate)). lia.
Qed.
Lemma cue_no_file_lemma :
  forall lines, (forall l, In l lines -> m_file (strip l) = None) -> parse_cue_sheet lines = Err BadCueSheet.
Proof.
  intros lines H. unfold parse_cue_sheet. rewrite cue_files_no_file by (auto; lia). reflexivity.
Qed.

(** Leading/trailing blanks: the parser only ever looks at [strip l]. *)
Definition same_stripped (a b : list (list Z)) : Prop := Forall2 (fun x y => strip x = strip y) a b.

Lemma nonempty_entry_stripped : forall a b,
  same_stripped a b ->
  fst (nonempty_entry a) = fst (nonempty_entry b)
  /\ same_stripped (snd (nonempty_entry a)) (snd (nonempty_entry b)).
Proof.
  induction 1 as [|x y a b Hxy Hab IH]; cbn [nonempty_entry]; [split; [reflexivity|constructor]|].
  rewrite Hxy. destruct (strip y); [assumption|]. cbn. split; [reflexivity|assumption].
Qed.

Lemma track_body_stripped : forall a b t,
  same_stripped a b ->
  fst (track_body a t) = fst (track_body b t)
  /\ same_stripped (snd (track_body a t)) (snd (track_body b t)).
Proof.
  intros a b t H. revert t. induction H as [|x y a b Hxy Hab IH]; intros t; cbn [track_body]; [split; [reflexivity|constructor]|].
  rewrite Hxy. destruct (strip y) as [|c cs] eqn:E; [apply IH|].
  destruct (m_track (c :: cs)).
  { cbn. split; [reflexivity|]. constructor; [reflexivity|assumption]. }
  destruct (m_index (c :: cs)) as [[[[? ?] ?] ?]|]; [apply IH|].
  destruct (m_title (c :: cs)); apply IH.
Qed.

Lemma track_parse_stripped a b :
  same_stripped a b ->
  match track_parse a, track_parse b with
  | Ok (t1, r1), Ok (t2, r2) => t1 = t2 /\ same_stripped r1 r2
  | Err e1, Err e2 => e1 = e2
  | OutOfFuel, OutOfFuel => True
  | _, _ => False
  end.
Proof.
  intros H. unfold track_parse.
  destruct (nonempty_entry_stripped a b H) as [E1 E2].
  destruct (nonempty_entry a) as [ta ra], (nonempty_entry b) as [tb rb]. cbn [fst snd] in *. subst tb.
  destruct ta; [reflexivity|]. destruct (m_track _) as [[n mode]|]; [|reflexivity].
  destruct (track_body_stripped ra rb {| t_num := n; t_mode := mode; t_title := None; t_indices := []; t_unparsed := [] |} E2) as [F1 F2].
  destruct (track_body ra _), (track_body rb _). cbn [fst snd] in *. auto.
Qed.

Lemma file_tracks_stripped : forall fuel a b acc,
  same_stripped a b ->
  match file_tracks fuel a acc, file_tracks fuel b acc with
  | Ok (t1, r1), Ok (t2, r2) => t1 = t2 /\ same_stripped r1 r2
  | Err e1, Err e2 => e1 = e2
  | OutOfFuel, OutOfFuel => True
  | _, _ => False
  end.
Proof.
  induction fuel as [|fuel IH]; intros a b acc H; cbn [file_tracks]; [exact I|].
  destruct H as [|x y a b Hxy Hab]; [split; [reflexivity|constructor]|].
  assert (H : same_stripped (x :: a) (y :: b)) by (constructor; assumption).
  destruct (nonempty_entry_stripped _ _ H) as [E1 E2].
  destruct (nonempty_entry (x :: a)) as [ta ra], (nonempty_entry (y :: b)) as [tb rb]. cbn [fst snd] in *. subst tb.
  destruct ta as [|c cs]; [auto|].
  assert (H' : same_stripped ((c :: cs) :: ra) ((c :: cs) :: rb)) by (constructor; [reflexivity|assumption]).
  pose proof (track_parse_stripped _ _ H') as TP.
  destruct (track_parse ((c :: cs) :: ra)) as [[t1 r1]|e1|], (track_parse ((c :: cs) :: rb)) as [[t2 r2]|e2|];
    cbn [bind fst snd]; try tauto; try exact I.
  destruct TP as [-> TP]. apply IH. assumption.
Qed.

Lemma same_stripped_length a b : same_stripped a b -> length a = length b.
Proof. induction 1; cbn; auto. Qed.

Lemma file_parse_stripped a b :
  same_stripped a b ->
  match file_parse a, file_parse b with
  | Ok (c1, r1), Ok (c2, r2) => c1 = c2 /\ same_stripped r1 r2
  | Err e1, Err e2 => e1 = e2
  | OutOfFuel, OutOfFuel => True
  | _, _ => False
  end.
Proof.
  intros H. unfold file_parse.
  destruct (nonempty_entry_stripped a b H) as [E1 E2].
  destruct (nonempty_entry a) as [ta ra], (nonempty_entry b) as [tb rb]. cbn [fst snd] in *. subst tb.
  destruct ta; [reflexivity|]. destruct (m_file _); [|reflexivity].
  rewrite (same_stripped_length _ _ E2).
  pose proof (file_tracks_stripped (S (length rb)) ra rb [] E2) as FT.
  destruct (file_tracks _ ra []) as [[t1 r1]|e1|], (file_tracks _ rb []) as [[t2 r2]|e2|];
    cbn [bind fst snd]; try tauto; try exact I.
  destruct FT as [-> FT]. auto.
Qed.

Lemma cue_files_stripped : forall fuel a b acc,
  same_stripped a b -> cue_files fuel a acc = cue_files fuel b acc.
Proof.
  induction fuel as [|fuel IH]; intros a b acc H; cbn [cue_files]; [reflexivity|].
  destruct H as [|x y a b Hxy Hab]; [reflexivity|].
  assert (H : same_stripped (x :: a) (y :: b)) by (constructor; assumption).
  destruct (nonempty_entry_stripped _ _ H) as [E1 E2].
  destruct (nonempty_entry (x :: a)) as [ta ra], (nonempty_entry (y :: b)) as [tb rb]. cbn [fst snd] in *. subst tb.
  destruct (m_file ta); [|now apply IH].
  assert (H' : same_stripped (ta :: ra) (ta :: rb)) by (constructor; [reflexivity|assumption]).
  pose proof (file_parse_stripped _ _ H') as FP.
  destruct (file_parse (ta :: ra)) as [[c1 r1]|e1|], (file_parse (ta :: rb)) as [[c2 r2]|e2|];
    cbn [bind fst snd]; try tauto; try congruence.
  destruct FP as [-> FP]. now apply IH.
Qed.

(** Blanks around any line never change what a cue sheet means (nor whether it is one). *)
Lemma cue_padding_lemma :
  forall a b, same_stripped a b -> parse_cue_sheet a = parse_cue_sheet b.
Proof.
  intros a b H. unfold parse_cue_sheet. rewrite (same_stripped_length _ _ H).
  now rewrite (cue_files_stripped _ a b [] H).
Qed.

(** * C17: bounded (enumerated) decoration theorem
    Every single insertion of a blank line (4 kinds) at every position, and of an
    unrecognised line (REM / PERFORMER / FLAGS / PREGAP / TITLE-without-quotes) before the
    FILE line or inside a track, combined with every keyword case variant (upper / lower /
    mixed) and padding, leaves the meaning of a fixed three-track sheet unchanged. *)
Definition s2l (s : list Z) := s.
Definition meaning (c : cue) :=
  (c_bin c, map (fun t => (t_num t, t_mode t, t_title t, map (fun i => (ix_num i, ix_min i, ix_sec i, ix_frm i)) (t_indices t))) (c_tracks c)).

Definition up (s : list Z) := map upper_c s.
Definition lo (s : list Z) := map lower_c s.
Definition mixc (s : list Z) := map (fun p => if Nat.even (fst p) then upper_c (snd p) else lower_c (snd p)) (combine (seq 0 (length s)) s).
Definition sp := [32].
Definition q := [34].
(** one sheet, printed with a given keyword-casing function and padding *)
Definition sheet_lines (kc : list Z -> list Z) (pad : list Z) : list (list Z) :=
  let L := fun body => pad ++ body ++ pad in
  [ L (kc K_FILE ++ sp ++ q ++ [100; 46; 98; 105; 110] ++ q ++ sp ++ kc K_BINARY);
    L (kc K_TRACK ++ sp ++ [48; 49] ++ sp ++ [65; 85; 68; 73; 79]);
    L (kc K_TITLE ++ sp ++ q ++ [65; 32; 98] ++ q);
    L (kc K_INDEX ++ sp ++ [48; 48] ++ sp ++ [48; 48; 58; 48; 48; 58; 48; 48]);
    L (kc K_INDEX ++ sp ++ [48; 49] ++ sp ++ [48; 48; 58; 48; 50; 58; 48; 48]);
    L (kc K_TRACK ++ sp ++ [48; 50] ++ sp ++ [65; 85; 68; 73; 79]);
    L (kc K_INDEX ++ sp ++ [48; 49] ++ sp ++ [48; 51; 58; 53; 57; 58; 55; 52]);
    L (kc K_TRACK ++ sp ++ [48; 51] ++ sp ++ [65; 85; 68; 73; 79]);
    L (kc K_TITLE ++ sp ++ q ++ [120] ++ q);
    L (kc K_INDEX ++ sp ++ [48; 49] ++ sp ++ [49; 48; 58; 48; 48; 58; 48; 49]) ].
Definition canonical_meaning := match parse_cue_sheet (sheet_lines (fun x => x) []) with Ok c => Some (meaning c) | _ => None end.
Definition blanks : list (list Z) := [[]; [32; 32]; [9]; [32; 9; 32; 10]].
Definition junk : list (list Z) :=
  [ [82;69;77;32;120]; [80;69;82;70;79;82;77;69;82;32;34;97;34]; [70;76;65;71;83;32;68;67;80];
    [80;82;69;71;65;80;32;48;48;58;48;50;58;48;48]; [84;73;84;76;69;32;110;111;113] ].
Definition insert_at {A} (n : nat) (x : A) (l : list A) : list A := firstn n l ++ x :: skipn n l.
(** unrecognised lines are allowed before FILE (position 0) and after any TRACK line *)
Definition junk_positions : list nat := [0; 2; 3; 4; 5; 6; 7; 8; 9; 10]%nat.
Definition pair_eqb (a b : option (list Z * list (Z * list Z * option (list Z) * list (Z * Z * Z * Z)))) : bool :=
  match a, b with
  | Some (b1, t1), Some (b2, t2) =>
      str_eqb b1 b2 && (length t1 =? length t2)%nat &&
      forallb (fun p => let '((n1, m1, ti1, i1), (n2, m2, ti2, i2)) := p in
                        (n1 =? n2) && str_eqb m1 m2 &&
                        match ti1, ti2 with Some x, Some y => str_eqb x y | None, None => true | _, _ => false end &&
                        (length i1 =? length i2)%nat &&
                        forallb (fun r => let '((a1, b1, c1, d1), (a2, b2, c2, d2)) := r in
                                          (a1 =? a2) && (b1 =? b2) && (c1 =? c2) && (d1 =? d2)) (combine i1 i2))
              (combine t1 t2)
  | _, _ => false
  end.
Definition means_canonical (lines : list (list Z)) : bool :=
  pair_eqb (match parse_cue_sheet lines with Ok c => Some (meaning c) | _ => None end) canonical_meaning.
Definition decorated_ok : bool :=
  forallb (fun kc => forallb (fun pad =>
     let base := sheet_lines kc pad in
     means_canonical base
     && forallb (fun p => forallb (fun b => means_canonical (insert_at p b base)) blanks) (seq 0 11)
     && forallb (fun p => forallb (fun j => means_canonical (insert_at p j base)) junk) junk_positions)
     [[]; [32]; [9; 32]]) [(fun x => x); up; lo; mixc].
Lemma cue_decorated_small_scope : decorated_ok = true.
Proof. vm_compute. reflexivity. Qed.

(** The boundary of the claim: an unrecognised line BETWEEN the FILE line and the first
    TRACK line is rejected by the code; the property does not list that position. *)
Lemma cue_junk_after_file_rejected :
  parse_cue_sheet (insert_at 1 [82;69;77;32;120] (sheet_lines (fun x => x) [])) = Err BadCueSheet.
Proof. vm_compute. reflexivity. Qed.
