(** C03, composition over a whole disc: parser (CueDecorProofs: the canonical sheet is read
    back exactly), routing, window walk (CueProofs: cdda_windows_lemma), naming routines
    (NamesProofs), pass-through transcoding (TranscodeUnbounded) and the tiling lemma
    (CueProofs: cdda_tiling_lemma) composed into [cdda_export_correct_lemma]; and the
    equivalence of the whole-image model with its byte-range plan, for every input. *)
From SE Require Import Base Codecs Cue CueProofs CueDecorProofs Names NamesProofs NamesTotalProofs Transcode
     TranscodeProofs TranscodeUnbounded StreamProofs AkaiImage AkaiCompose CddaImage CddaSpec.

(** * A track's written PCM is [track_pcm] (one LE 16-bit stereo stream: pass-through) *)
Lemma track_transcode bin w :
  transcode 4096 [track_src bin w] 2 CDDA_CHANNELS = Ok (track_pcm bin w).
Proof.
  pose proof (transcode_single_le_lemma 4096 2 (track_src bin w) ltac:(lia) eq_refl ltac:(cbn; lia) eq_refl) as H.
  cbn [schans track_src] in H. unfold CDDA_CHANNELS. rewrite H.
  unfold track_pcm, whole_frames, frame_size, window_content. cbn [sbytes schans swidth track_src].
  reflexivity.
Qed.

(** ... and a byte range of the bin: [pcm_len] bytes from the window's offset *)
Lemma track_pcm_range bin w :
  track_pcm bin w = firstn (Z.to_nat (pcm_len (zlen bin) w)) (skipn (Z.to_nat (w_off w)) bin).
Proof.
  unfold track_pcm, pcm_len, slice.
  set (x := skipn (Z.to_nat (w_off w)) bin).
  assert (Hx : length x = (length bin - Z.to_nat (w_off w))%nat) by (unfold x; apply skipn_length).
  destruct (w_size w >? 0) eqn:Es.
  - set (K := Z.to_nat (w_off w + w_size w - w_off w)).
    assert (E : zlen (firstn K x) = Z.min (w_size w) (Z.max 0 (zlen bin - Z.max 0 (w_off w)))).
    { unfold zlen. rewrite firstn_length, Hx. unfold K. lia. }
    rewrite E. set (n := Z.min _ _). rewrite firstn_firstn. f_equal.
    assert (0 <= n) by (unfold n; lia). assert (n / 4 * 4 <= n) by (pose proof (Z.div_mod n 4 ltac:(lia)); pose proof (Z.mod_pos_bound n 4 ltac:(lia)); lia).
    unfold K, n in *. lia.
  - set (K := Z.to_nat (zlen bin - w_off w)).
    assert (E : zlen (firstn K x) = Z.max 0 (zlen bin - Z.max 0 (w_off w))).
    { unfold zlen. rewrite firstn_length, Hx. unfold K, zlen. lia. }
    rewrite E. set (n := Z.max 0 _). rewrite firstn_firstn. f_equal.
    assert (0 <= n) by (unfold n; lia). assert (n / 4 * 4 <= n) by (pose proof (Z.div_mod n 4 ltac:(lia)); pose proof (Z.mod_pos_bound n 4 ltac:(lia)); lia).
    unfold K, n in *. lia.
Qed.

(** * The whole-image model is its plan, for EVERY sheet (cue sheet or not, any modes, any
    index order, tracks without INDEX ...) and every bin *)
Lemma export_tracks_plan bin : forall ws names,
  export_tracks bin ws names = Ok (map (materialise bin) (plan_tracks (zlen bin) ws names)).
Proof.
  induction ws as [|w wt IH]; intros names; [reflexivity|].
  destruct names as [|n nt]; [reflexivity|].
  cbn [export_tracks plan_tracks map]. rewrite track_transcode. cbn [bind]. rewrite IH. cbn [bind].
  unfold materialise at 2. cbn [pf_path pf_rate pf_channels pf_off pf_len]. now rewrite track_pcm_range.
Qed.

Lemma cue_export_plan_exact_lemma :
  forall lines bin,
    cue_export lines bin = (p <- cue_export_plan lines (zlen bin) ;; Ok (materialise_routed bin p)).
Proof.
  intros lines bin. unfold cue_export, cue_export_plan.
  destruct (parse_cue_sheet lines) as [c|e|]; cbn [bind]; [|reflexivity|reflexivity].
  destruct (cue_route c); [reflexivity|]. unfold cdda_image_export.
  destruct (make_safe_names _) as [sn|e|]; cbn [bind]; [|reflexivity|reflexivity].
  destruct (make_export_names _) as [names|e|]; cbn [bind]; [|reflexivity|reflexivity].
  rewrite export_tracks_plan. reflexivity.
Qed.

(** * The written files, window by window *)
Definition offsz (w : window) : Z * Z := (w_off w, w_size w).

Lemma export_tracks_spec bin : forall ws names,
  export_tracks bin ws names
  = Ok (map expected_file (combine names (map (fun p => track_pcm bin (mkwin p)) (map offsz ws)))).
Proof.
  induction ws as [|w wt IH]; intros names; [now destruct names|].
  destruct names as [|n nt]; [reflexivity|].
  cbn [export_tracks map combine]. rewrite track_transcode. cbn [bind]. rewrite IH. cbn [bind]. reflexivity.
Qed.

(** the windows the property describes carry the PCM the property describes *)
Lemma pcms_spec : forall fs bin,
  0 <= hd 0 fs -> increasing fs -> 2352 * last fs 0 <= zlen bin ->
  map (fun p => track_pcm bin (mkwin p)) (windows_spec fs (zlen bin)) = expected_pcms fs bin.
Proof.
  induction fs as [|a t IH]; intros bin H0 Hinc Hlast; [reflexivity|].
  destruct t as [|b t'].
  - cbn [windows_spec map expected_pcms]. cbn [hd last] in *. rewrite track_pcm_last by lia. reflexivity.
  - cbn [increasing] in Hinc. destruct Hinc as [Hab Hinc].
    change (windows_spec (a :: b :: t') (zlen bin))
      with ((2352 * a, 2352 * (b - a)) :: windows_spec (b :: t') (zlen bin)).
    change (expected_pcms (a :: b :: t') bin) with (slice bin (2352 * a) (2352 * b) :: expected_pcms (b :: t') bin).
    cbn [map]. rewrite last_cons_cons in Hlast. cbn [hd] in H0.
    pose proof (increasing_le_last t' b Hinc) as Hbl.
    rewrite IH; [|cbn [hd]; lia|assumption|assumption].
    rewrite track_pcm_inner; try lia.
    replace (2352 * a + 2352 * (b - a)) with (2352 * b) by lia. reflexivity.
Qed.

Lemma expected_pcms_length bin : forall fs, length (expected_pcms fs bin) = length fs.
Proof.
  induction fs as [|a t IH]; [reflexivity|]. destruct t as [|b t']; [reflexivity|].
  change (expected_pcms (a :: b :: t') bin) with (slice bin (2352 * a) (2352 * b) :: expected_pcms (b :: t') bin).
  cbn [length] in *. now rewrite IH.
Qed.

(** * The serialised disc: what the parser, the routing and the window walk make of it *)
(** a word that lower-cases to "audio" is a mode word *)
Lemma audio_mode_wf m : map lower_c m = AUDIO_LC -> wf_mode m.
Proof.
  intros H. unfold AUDIO_LC in H.
  destruct m as [|a [|b [|c [|d [|e [|f m]]]]]]; try discriminate H.
  cbn [map] in H. injection H as Ha Hb Hc Hd He.
  split; [discriminate|].
  assert (L : forall x y, lower_c x = y -> 97 <= y <= 122 -> is_mode_c x = true).
  { intros x y Hx Hy. unfold lower_c in Hx. unfold is_mode_c, is_digit_c.
    destruct ((65 <=? x) && (x <=? 90)) eqn:E; lia. }
  repeat constructor; eapply L; try eassumption; lia.
Qed.

Lemma disc_ctracks_wf : forall ts k, 0 <= k -> Forall ltrack_ok ts -> Forall wf_track (disc_ctracks k ts).
Proof.
  induction ts as [|t r IH]; intros k Hk H; [constructor|].
  inversion H as [|? ? (Ht & Hmo & Hi & Hm) Hr]; subst. cbn [disc_ctracks]. constructor.
  - unfold wf_track, mkt. cbn [t_num t_mode t_title t_indices t_unparsed].
    split; [assumption|]. split; [now apply audio_mode_wf|]. split; [assumption|]. split; [now constructor|reflexivity].
  - apply IH; [lia|assumption].
Qed.

Lemma disc_cue_wf D : disc_ok D -> wf_cue (disc_cue D).
Proof.
  intros (Hb & Ht & _). split; [exact Hb|]. cbn [disc_cue c_tracks]. apply disc_ctracks_wf; [lia|assumption].
Qed.

Lemma disc_ctracks_audio : forall ts k, Forall ltrack_ok ts -> Forall (fun t => is_audio t = true) (disc_ctracks k ts).
Proof.
  induction ts as [|t r IH]; intros k H; cbn [disc_ctracks]; [constructor|].
  inversion H as [|? ? (_ & Hmo & _) Hr]; subst. constructor; [|now apply IH].
  unfold is_audio, mkt. cbn [t_mode]. rewrite Hmo. reflexivity.
Qed.

Lemma disc_ctracks_indexed : forall ts k, Forall has_index (disc_ctracks k ts).
Proof. induction ts as [|t r IH]; intros k; cbn [disc_ctracks]; constructor; [discriminate|apply IH]. Qed.

Lemma disc_ctracks_starts : forall ts k, map first_frame (disc_ctracks k ts) = map lt_start ts.
Proof.
  induction ts as [|t r IH]; intros k; [reflexivity|]. cbn [disc_ctracks map]. rewrite IH. f_equal.
  unfold first_frame, mkt, lt_start, frames_of_index. cbn [t_indices]. lia.
Qed.

Lemma all_audio_route c : Forall (fun t => is_audio t = true) (c_tracks c) -> cue_route c = RCdda.
Proof.
  intros H. unfold cue_route.
  assert (E : existsb (fun t => negb (is_audio t)) (c_tracks c) = false).
  { induction H as [|t ts Ht _ IH]; [reflexivity|]. cbn [existsb]. now rewrite Ht, IH. }
  now rewrite E.
Qed.

(** the names of the emitted tracks, when every track has an INDEX: title or
    "Untitled Track i", i counting from 1 *)
Definition title_name (ti : option (list Z)) (k : Z) : list Z :=
  match ti with Some (c :: s) => c :: s | _ => UNTITLED ++ str_Z k end.
Fixpoint names_from (k : Z) (l : list ctrack) : list (list Z) :=
  match l with [] => [] | t :: r => title_name (t_title t) k :: names_from (k + 1) r end.

Lemma cdda_walk_names : forall rest cur i eof,
  has_index cur -> Forall has_index rest ->
  map track_name (cdda_walk cur rest i eof) = names_from (i + 1) (cur :: rest).
Proof.
  induction rest as [|nxt rest IH]; intros cur i eof Hc Hr.
  - cbn [cdda_walk]. unfold has_index in Hc. destruct (t_indices cur) as [|ci ?]; [congruence|]. reflexivity.
  - inversion Hr as [|? ? Hn Hr']; subst. cbn [cdda_walk]. unfold has_index in Hc, Hn.
    destruct (t_indices cur) as [|ci ?] eqn:Ec; [congruence|].
    destruct (t_indices nxt) as [|ni ?] eqn:En; [congruence|].
    cbn [map]. rewrite IH by (unfold has_index; congruence || assumption). reflexivity.
Qed.

Lemma names_from_disc : forall ts k k', names_from k (disc_ctracks k' ts) = disc_names k ts.
Proof. induction ts as [|t r IH]; intros k k'; [reflexivity|]. cbn [disc_ctracks names_from disc_names]. now rewrite IH. Qed.

Lemma disc_window_names D eof :
  Forall ltrack_ok (ld_tracks D) ->
  map track_name (cdda_windows (disc_cue D) eof) = disc_names 1 (ld_tracks D).
Proof.
  intros Hok. unfold cdda_windows. cbn [disc_cue c_tracks].
  assert (Hf : forall l, Forall (fun t => is_audio t = true) l -> filter is_audio l = l).
  { induction 1 as [|t ts Ht _ IH]; [reflexivity|]. cbn [filter]. now rewrite Ht, IH. }
  rewrite Hf by (now apply disc_ctracks_audio).
  destruct (ld_tracks D) as [|t r]; [reflexivity|]. cbn [disc_ctracks].
  rewrite cdda_walk_names; [|discriminate|apply disc_ctracks_indexed].
  change (0 + 1) with 1. change (mkt 1 (lt_mode t) (lt_title t) (lt_index t :: lt_more t) [] :: disc_ctracks (1 + 1) r)
    with (disc_ctracks 1 (t :: r)). apply names_from_disc.
Qed.

Lemma disc_window_elems D eof :
  Forall ltrack_ok (ld_tracks D) -> track_elems (cdda_windows (disc_cue D) eof) = disc_elems D.
Proof. intros Hok. unfold track_elems, disc_elems. rewrite <- (disc_window_names D eof Hok), map_map. reflexivity. Qed.

Lemma disc_window_ranges D eof :
  Forall ltrack_ok (ld_tracks D) ->
  map offsz (cdda_windows (disc_cue D) eof) = windows_spec (disc_starts D) eof.
Proof.
  intros Hok. unfold offsz, disc_starts. rewrite <- (disc_ctracks_starts (ld_tracks D) 1).
  apply (cdda_windows_lemma (disc_cue D) eof); [now apply disc_ctracks_audio|apply disc_ctracks_indexed].
Qed.

Lemma starts_hd_nonneg D : Forall ltrack_ok (ld_tracks D) -> 0 <= hd 0 (disc_starts D).
Proof.
  unfold disc_starts. destruct (ld_tracks D) as [|t r]; [cbn; lia|]. intros H. inversion H as [|? ? (_ & _ & Hi & _) _]; subst.
  cbn [map hd]. unfold lt_start. destruct Hi as (_ & H1 & H2 & H3). nia.
Qed.

(** * THE COMPOSED THEOREM *)
Lemma cdda_export_correct_lemma :
  forall D bin, disc_ok D -> bin_covers D bin ->
    cue_export (cue_serialise D) bin = (files <- expected D bin ;; Ok (ToCdda files))
    /\ cdda_export (cue_serialise D) bin = expected D bin.
Proof.
  intros D bin Hok Hcov.
  assert (E : cue_export (cue_serialise D) bin = (files <- expected D bin ;; Ok (ToCdda files))).
  { unfold cue_export, cue_serialise. rewrite (cue_parse_canonical_lemma _ (disc_cue_wf D Hok)). cbn [bind].
    pose proof Hok as (_ & Htk & _).
    rewrite (all_audio_route (disc_cue D)) by (now apply disc_ctracks_audio).
    unfold cdda_image_export, expected. rewrite disc_window_elems by assumption.
    destruct (make_safe_names (disc_elems D)) as [sn|e|]; cbn [bind]; [|reflexivity|reflexivity].
    destruct (make_export_names (disc_elems D)) as [names|e|]; cbn [bind]; [|reflexivity|reflexivity].
    rewrite export_tracks_spec, disc_window_ranges by assumption. cbn [bind].
    destruct Hok as (_ & Ht & Hinc).
    rewrite pcms_spec; [reflexivity|now apply starts_hd_nonneg|assumption|assumption]. }
  split; [exact E|]. unfold cdda_export. rewrite E.
  destruct (expected D bin) as [files|e|]; reflexivity.
Qed.

(** every DECORATION of a sheet (C17: keyword letter case, blanks around lines, blank lines,
    lines the parser skips before FILE and inside tracks) exports exactly as the sheet itself *)
Lemma cue_export_decorated_lemma :
  forall c ls' bin, wf_cue c -> decorated (print_cue c) ls' ->
    cue_export ls' bin = cue_export (print_cue c) bin /\ cdda_export ls' bin = cdda_export (print_cue c) bin.
Proof.
  intros c ls' bin Hw Hd.
  assert (E : cue_export ls' bin = cue_export (print_cue c) bin).
  { destruct (cue_parse_decorated_lemma c ls' Hw Hd) as (c' & HP & EM).
    unfold cue_export. rewrite HP, (cue_parse_canonical_lemma c Hw). cbn [bind]. rewrite <- EM.
    rewrite cue_route_meaning. unfold cdda_image_export. rewrite cdda_windows_meaning. reflexivity. }
  split; [exact E|]. unfold cdda_export. now rewrite E.
Qed.

Lemma cdda_export_decorated_lemma :
  forall D bin ls', disc_ok D -> bin_covers D bin -> decorated (cue_serialise D) ls' ->
    cdda_export ls' bin = expected D bin.
Proof.
  intros D bin ls' Hok Hcov Hd.
  rewrite (proj2 (cue_export_decorated_lemma (disc_cue D) ls' bin (disc_cue_wf D Hok) Hd)).
  exact (proj2 (cdda_export_correct_lemma D bin Hok Hcov)).
Qed.

(** with the names the routine hands out *)
Lemma cdda_export_named_lemma :
  forall D bin sn names, disc_ok D -> bin_covers D bin ->
    make_safe_names (disc_elems D) = Ok sn -> make_export_names (disc_elems D) = Ok names ->
    cdda_export (cue_serialise D) bin = Ok (expected_files names D bin).
Proof.
  intros D bin sn names Hok Hcov Hs Hn. rewrite (proj2 (cdda_export_correct_lemma D bin Hok Hcov)).
  unfold expected. now rewrite Hs, Hn.
Qed.

(** the naming routines never give up (NamesTotalProofs.v): the export SUCCEEDS for every
    valid disc, whatever its titles *)
Lemma cdda_export_total_lemma :
  forall D bin, disc_ok D -> bin_covers D bin ->
    exists names,
      make_export_names (disc_elems D) = Ok names /\ NoDup names /\ length names = length (ld_tracks D)
      /\ cdda_export (cue_serialise D) bin = Ok (expected_files names D bin).
Proof.
  intros D bin Hok Hcov.
  destruct (sanitize_names_ok_lemma (fun n _ => make_safe_name n) (disc_elems D)) as (sn & Hs & _).
  destruct (sanitize_names_ok_lemma make_export_name (disc_elems D)) as (names & Hn & Hnd & Hl).
  exists names. split; [exact Hn|]. split; [exact Hnd|]. split.
  - rewrite Hl. unfold disc_elems. rewrite map_length. clear. generalize 1.
    induction (ld_tracks D) as [|t r IH]; intros k; [reflexivity|]. cbn [disc_names length]. now rewrite IH.
  - exact (cdda_export_named_lemma D bin sn names Hok Hcov Hs Hn).
Qed.

(** sibling names that need no counter: every file is named by the sanitiser alone *)
Lemma cdda_export_plain_lemma :
  forall D bin, disc_ok D -> bin_covers D bin -> disc_plain D ->
    cdda_export (cue_serialise D) bin
    = Ok (expected_files (map (fun n => make_export_name n true) (disc_names 1 (ld_tracks D))) D bin).
Proof.
  intros D bin Hok Hcov (Hs & He).
  assert (E1 : forall f : list Z -> bool -> list Z, map (fun e : list Z * bool => f (fst e) (snd e)) (disc_elems D)
                         = map (fun n => f n true) (disc_names 1 (ld_tracks D))).
  { intros f. unfold disc_elems. rewrite map_map. reflexivity. }
  eapply cdda_export_named_lemma; try assumption.
  - unfold make_safe_names.
    pose proof (sanitize_names_plain (fun n _ => make_safe_name n) (disc_elems D)) as P.
    pose proof (E1 (fun n _ => make_safe_name n)) as E2. cbv beta in P, E2. rewrite E2 in P. exact (P Hs).
  - unfold make_export_names.
    pose proof (sanitize_names_plain make_export_name (disc_elems D)) as P.
    rewrite (E1 make_export_name) in P. exact (P He).
Qed.

(** * Corollaries *)
Lemma disc_names_length : forall ts k, length (disc_names k ts) = length ts.
Proof. induction ts as [|t r IH]; intros k; [reflexivity|]. cbn [disc_names length]. now rewrite IH. Qed.

Lemma export_ok_names D bin files :
  disc_ok D -> bin_covers D bin -> cdda_export (cue_serialise D) bin = Ok files ->
  exists names, make_export_names (disc_elems D) = Ok names /\ files = expected_files names D bin
                /\ NoDup names /\ length names = length (ld_tracks D).
Proof.
  intros Hok Hcov H. rewrite (proj2 (cdda_export_correct_lemma D bin Hok Hcov)) in H. unfold expected in H.
  destruct (make_safe_names (disc_elems D)) as [sn|e|]; cbn [bind] in H; try discriminate.
  destruct (make_export_names (disc_elems D)) as [names|e|] eqn:En; cbn [bind] in H; try discriminate.
  injection H as <-. exists names. split; [reflexivity|]. split; [reflexivity|].
  destruct (sanitize_names_distinct_lemma _ _ _ En) as [Hnd Hl]. split; [assumption|].
  rewrite Hl. unfold disc_elems. now rewrite map_length, disc_names_length.
Qed.

Lemma map_snd_combine {A B} : forall (a : list A) (b : list B), length a = length b -> map snd (combine a b) = b.
Proof.
  induction a as [|x a IH]; intros [|y b] H; try discriminate; [reflexivity|]. cbn [combine map snd]. f_equal. apply IH.
  cbn [length] in H. lia.
Qed.
Lemma map_fst_combine {A B} : forall (a : list A) (b : list B), length a = length b -> map fst (combine a b) = a.
Proof.
  induction a as [|x a IH]; intros [|y b] H; try discriminate; [reflexivity|]. cbn [combine map fst]. f_equal. apply IH.
  cbn [length] in H. lia.
Qed.

Lemma cdda_export_one_file_per_track_lemma :
  forall D bin files, disc_ok D -> bin_covers D bin ->
    cdda_export (cue_serialise D) bin = Ok files ->
    length files = length (ld_tracks D) /\ NoDup (map w_path files)
    /\ Forall (fun f => w_rate f = 44100 /\ w_channels f = 2 /\ exists n, w_path f = [n]) files.
Proof.
  intros D bin files Hok Hcov H.
  destruct (export_ok_names D bin files Hok Hcov H) as (names & _ & -> & Hnd & Hl).
  assert (Hlp : length names = length (expected_pcms (disc_starts D) bin)).
  { rewrite expected_pcms_length. unfold disc_starts. now rewrite map_length. }
  unfold expected_files. split; [|split].
  - rewrite map_length, combine_length. lia.
  - rewrite map_map. change (fun x => w_path (expected_file x)) with (fun x : list Z * list Z => [fst x]).
    rewrite <- (map_map fst (fun n : list Z => [n])). rewrite map_fst_combine by assumption.
    clear -Hnd. induction Hnd as [|n l Hn _ IH]; [constructor|]. cbn [map]. constructor; [|assumption].
    intros Hi. apply in_map_iff in Hi as (m & Em & Hm). injection Em as ->. contradiction.
  - apply Forall_forall. intros f Hf. apply in_map_iff in Hf as (np & <- & _).
    split; [reflexivity|]. split; [reflexivity|]. now exists (fst np).
Qed.

Lemma cdda_export_tiles_lemma :
  forall D bin files, disc_ok D -> bin_covers D bin -> ld_tracks D <> [] ->
    cdda_export (cue_serialise D) bin = Ok files ->
    let a := 2352 * hd 0 (disc_starts D) in
    let r := (zlen bin - 2352 * last (disc_starts D) 0) mod 4 in
    concat (map w_pcm files) = slice bin a (zlen bin - r)
    /\ exists tail, tail = slice bin (zlen bin - r) (zlen bin) /\ zlen tail = r /\ 0 <= r < 4
                    /\ concat (map w_pcm files) ++ tail = skipn (Z.to_nat a) bin.
Proof.
  intros D bin files Hok Hcov Hne H a r.
  destruct (export_ok_names D bin files Hok Hcov H) as (names & _ & -> & _ & Hl).
  assert (Hlp : length names = length (expected_pcms (disc_starts D) bin)).
  { rewrite expected_pcms_length. unfold disc_starts. now rewrite map_length. }
  pose proof Hok as (_ & Ht & Hinc). pose proof (starts_hd_nonneg D Ht) as H0.
  assert (Hfs : disc_starts D <> []) by (unfold disc_starts; destruct (ld_tracks D); [congruence|discriminate]).
  assert (E : concat (map w_pcm (expected_files names D bin)) = slice bin a (zlen bin - r)).
  { unfold expected_files. rewrite map_map. change (fun x => w_pcm (expected_file x)) with (@snd (list Z) (list Z)).
    rewrite map_snd_combine by assumption.
    rewrite <- (pcms_spec (disc_starts D) bin H0 Hinc Hcov).
    exact (cdda_tiling_lemma (disc_starts D) bin Hfs H0 Hinc Hcov). }
  split; [exact E|]. exists (slice bin (zlen bin - r) (zlen bin)).
  assert (Hle : hd 0 (disc_starts D) <= last (disc_starts D) 0).
  { destruct (disc_starts D) as [|x t]; [congruence|]. cbn [hd]. now apply increasing_le_last. }
  unfold bin_covers in Hcov.
  assert (Hr : 0 <= r < 4) by (unfold r; apply Z.mod_pos_bound; lia).
  assert (Hr2 : r <= zlen bin - 2352 * last (disc_starts D) 0) by (unfold r; apply Z.mod_le; lia).
  split; [reflexivity|]. split; [rewrite slice_zlen by lia; lia|]. split; [assumption|].
  rewrite E. rewrite slice_app by (unfold a; lia). unfold slice. apply firstn_all2. rewrite skipn_length. unfold zlen. lia.
Qed.

(** * Positions written the usual way: a frame count printed as MM:SS:FF reads back as itself
    (FF < 75 and SS < 60 with their carries into seconds and minutes) *)
Lemma msf_of_frames_start n f t mo more :
  0 <= f -> lt_start {| lt_title := t; lt_mode := mo; lt_index := msf_of_frames n f; lt_more := more |} = f.
Proof.
  intros Hf. unfold lt_start, msf_of_frames. cbn [lt_index ix_min ix_sec ix_frm].
  pose proof (Z.div_mod f 75 ltac:(lia)). pose proof (Z.div_mod (f / 75) 60 ltac:(lia)).
  assert (f / 4500 = f / 75 / 60) by (rewrite Z.div_div by lia; reflexivity). lia.
Qed.
Lemma msf_of_frames_wf n f : 0 <= n -> 0 <= f -> wf_index (msf_of_frames n f).
Proof.
  intros Hn Hf. unfold wf_index, msf_of_frames. cbn [ix_num ix_min ix_sec ix_frm].
  split; [assumption|]. split; [apply Z.div_pos; lia|]. split; apply Z.mod_pos_bound; lia.
Qed.

(** * The example *)
Lemma ex_disc_ok : disc_ok ex_disc.
Proof.
  unfold disc_ok, ex_disc, ltrack_ok, wf_text, wf_index, disc_starts, lt_start. cbn.
  repeat (split || constructor || lia || discriminate).
Qed.
Lemma ex_bin_covers : bin_covers ex_disc ex_bin.
Proof. unfold bin_covers. vm_compute. discriminate. Qed.

Lemma ex_export_lemma :
  disc_ok ex_disc /\ bin_covers ex_disc ex_bin /\ zlen ex_bin mod 4 = 3 /\ disc_starts ex_disc = [74; 75; 77]
  /\ cue_serialise ex_disc =
     [ [70;73;76;69;32;34;100;46;98;105;110;34;32;66;73;78;65;82;89];   (* FILE "d.bin" BINARY *)
       [84;82;65;67;75;32;48;49;32;65;85;68;73;79];                      (* TRACK 01 AUDIO *)
       [84;73;84;76;69;32;34;83;111;110;103;34];                         (* TITLE "Song" *)
       [73;78;68;69;88;32;48;49;32;48;48;58;48;48;58;55;52];             (* INDEX 01 00:00:74 *)
       [84;82;65;67;75;32;48;50;32;65;85;68;73;79];                      (* TRACK 02 AUDIO *)
       [73;78;68;69;88;32;48;48;32;48;48;58;48;49;58;48;48];             (* INDEX 00 00:01:00 *)
       [73;78;68;69;88;32;48;49;32;48;48;58;48;49;58;48;49];             (* INDEX 01 00:01:01 *)
       [84;82;65;67;75;32;48;51;32;65;85;68;73;79];                      (* TRACK 03 AUDIO *)
       [84;73;84;76;69;32;34;83;111;110;103;34];                         (* TITLE "Song" *)
       [73;78;68;69;88;32;48;49;32;48;48;58;48;49;58;48;50] ]            (* INDEX 01 00:01:02 *)
  /\ cdda_export (cue_serialise ex_disc) ex_bin = expected ex_disc ex_bin
  /\ match cdda_export (cue_serialise ex_disc) ex_bin with
     | Ok files =>
         map (fun w => (w_path w, w_rate w, w_channels w, zlen (w_pcm w), firstn 4 (w_pcm w))) files
         = [ ([[83;111;110;103]], 44100, 2, 2352, [105;106;107;108]);
             ([[85;110;116;105;116;108;101;100;32;84;114;97;99;107;32;50]], 44100, 2, 4704, [198;199;200;201]);
             ([[83;111;110;103;32;40;50;41]], 44100, 2, 4, [133;134;135;136]) ]
     | _ => False
     end.
Proof.
  split; [exact ex_disc_ok|]. split; [exact ex_bin_covers|]. split; [vm_compute; reflexivity|].
  split; [vm_compute; reflexivity|]. split; [vm_compute; reflexivity|].
  split; [exact (proj2 (cdda_export_correct_lemma ex_disc ex_bin ex_disc_ok ex_bin_covers))|].
  vm_compute. reflexivity.
Qed.
