From SE Require Import Base Stream FatProofs.

(** * Integer ranges and slices *)
Fixpoint zrange_nat (a : Z) (n : nat) : list Z :=
  match n with O => [] | S k => a :: zrange_nat (a + 1) k end.
Definition zrange (a b : Z) : list Z := zrange_nat a (Z.to_nat (b - a)).

Lemma zrange_nat_length a n : length (zrange_nat a n) = n.
Proof. revert a; induction n; intros; cbn; auto. Qed.
Lemma zrange_nat_app a n m : zrange_nat a (n + m) = zrange_nat a n ++ zrange_nat (a + Z.of_nat n) m.
Proof.
  revert a; induction n as [|n IH]; intros a; cbn [zrange_nat Nat.add app].
  - f_equal. lia.
  - rewrite IH. replace (a + Z.of_nat (S n)) with (a + 1 + Z.of_nat n) by lia. reflexivity.
Qed.
Lemma zrange_app a b c : a <= b <= c -> zrange a c = zrange a b ++ zrange b c.
Proof.
  intros H. unfold zrange.
  replace (Z.to_nat (c - a)) with (Z.to_nat (b - a) + Z.to_nat (c - b))%nat by lia.
  rewrite zrange_nat_app. replace (a + Z.of_nat (Z.to_nat (b - a))) with b by lia. reflexivity.
Qed.
Lemma zrange_empty a b : b <= a -> zrange a b = [].
Proof. intros. unfold zrange. replace (Z.to_nat (b - a)) with O by lia. reflexivity. Qed.
Lemma zlen_zrange a b : a <= b -> zlen (zrange a b) = b - a.
Proof. intros. unfold zlen, zrange. rewrite zrange_nat_length. lia. Qed.
Lemma in_zrange_nat x a n : In x (zrange_nat a n) <-> a <= x < a + Z.of_nat n.
Proof.
  revert a; induction n as [|n IH]; intros a; cbn [zrange_nat In]; [lia|].
  rewrite IH. lia.
Qed.
Lemma in_zrange x a b : In x (zrange a b) <-> a <= x < b.
Proof. unfold zrange. rewrite in_zrange_nat. lia. Qed.

Lemma map_ext_zrange {B} (f g : Z -> B) a b :
  (forall x, a <= x < b -> f x = g x) -> map f (zrange a b) = map g (zrange a b).
Proof. intros H. apply map_ext_in. intros x Hx. apply H. now apply in_zrange. Qed.

Lemma zrange_shift a b d : zrange (a + d) (b + d) = map (fun x => x + d) (zrange a b).
Proof.
  unfold zrange. replace (b + d - (a + d)) with (b - a) by lia.
  generalize (Z.to_nat (b - a)) as n. intros n. revert a.
  induction n as [|n IH]; intros a; cbn [zrange_nat map]; [reflexivity|].
  f_equal. replace (a + d + 1) with ((a + 1) + d) by lia. apply IH.
Qed.

Lemma skipn_S_tl {A} : forall (l : list A) a x t, skipn a l = x :: t -> skipn (S a) l = t.
Proof.
  induction l as [|h l IH]; intros [|a] x t H; cbn in *; try discriminate.
  - now injection H.
  - eauto.
Qed.
Lemma skipn_hd_nth {A} (d : A) : forall (l : list A) a x t, skipn a l = x :: t -> nth a l d = x.
Proof.
  induction l as [|h l IH]; intros [|a] x t H; cbn in *; try discriminate.
  - now injection H.
  - eauto.
Qed.
Lemma skipn_nth_map {A} (d : A) : forall (n : nat) (l : list A) (a : nat),
  (a + n <= length l)%nat ->
  firstn n (skipn a l) = map (fun i => nth (Z.to_nat i) l d) (zrange_nat (Z.of_nat a) n).
Proof.
  induction n as [|n IH]; intros l a H; cbn [firstn zrange_nat map].
  - reflexivity.
  - destruct (skipn a l) as [|x t] eqn:E.
    { assert (L0 : length (skipn a l) = 0%nat) by now rewrite E. rewrite skipn_length in L0. lia. }
    cbn [firstn]. f_equal.
    + rewrite Nat2Z.id. symmetry. eapply skipn_hd_nth; eassumption.
    + rewrite <- (skipn_S_tl _ _ _ _ E). rewrite IH by lia.
      replace (Z.of_nat a + 1) with (Z.of_nat (S a)) by lia. reflexivity.
Qed.

(** l[a:a+k] read byte by byte *)
Lemma slice_map_znth {A} (d : A) (l : list A) a k :
  0 <= a -> 0 <= k -> a + k <= zlen l -> slice l a (a + k) = map (znth d l) (zrange a (a + k)).
Proof.
  intros Ha Hk Hl. unfold slice, zrange, znth. replace (a + k - a) with k by lia.
  rewrite (skipn_nth_map d) by (unfold zlen in Hl; lia).
  now rewrite Z2Nat.id by lia.
Qed.

Lemma slice_past_end {A} (l : list A) a b : zlen l <= a -> slice l a b = [].
Proof. intros H. unfold slice. rewrite skipn_all2 by (unfold zlen in H; lia). apply firstn_nil. Qed.
Lemma slice_zlen {A} (l : list A) a b : 0 <= a -> zlen (slice l a b) = Z.max 0 (Z.min (b - a) (zlen l - a)).
Proof. intros. unfold slice, zlen. rewrite firstn_length, skipn_length. lia. Qed.
Lemma slice_clip {A} (l : list A) a b : 0 <= a -> zlen l <= b -> slice l a b = slice l a (zlen l).
Proof.
  intros Ha Hb. unfold slice, zlen in *.
  rewrite !firstn_all2; auto; rewrite skipn_length; lia.
Qed.
Lemma map_zlen {A B} (f : A -> B) l : zlen (map f l) = zlen l.
Proof. unfold zlen. now rewrite map_length. Qed.

(** * Logical content of a view, by address translation *)
Definition sbase (m : smap) (L i : Z) : Z :=
  match m with
  | MPlain => i * L
  | MChain secs => znth 0 secs i * L
  | MMdf => i * 2352 + 16
  end.
(** address, in the parent's logical content, of byte [a] of the view *)
Definition addr (k : kind) (size a : Z) : Z :=
  match k with
  | KWrap => a
  | KOff off => off + a
  | KSect L m => sbase m L (a / L) + a mod L
  | KRev w => size - (a / w + 1) * w + a mod w
  end.
Fixpoint logical (v : view) (content : list Z) : list Z :=
  match v with
  | Base => content
  | V k size sub => map (fun a => znth 0 (logical sub content) (addr k size a)) (zrange 0 size)
  end.
Lemma logical_len k size sub content : 0 <= size -> zlen (logical (V k size sub) content) = size.
Proof. intros. cbn [logical]. rewrite map_zlen, zlen_zrange; lia. Qed.

(** well-formed windows (reversed views are treated separately, at the top) *)
Definition kind_ok (k : kind) (size plen : Z) : Prop :=
  match k with
  | KWrap => size <= plen
  | KOff off => 0 <= off /\ off + size <= plen
  | KSect L MPlain => 0 < L /\ size <= plen
  | KSect L (MChain secs) =>
      0 < L /\ size = L * zlen secs /\ Forall (fun s => 0 <= s /\ (s + 1) * L <= plen) secs
  | KSect L MMdf => L = 2048 /\ size = (plen / 2352) * 2048
  | KRev w => False
  end.
Fixpoint wf (v : view) (content : list Z) : Prop :=
  match v with
  | Base => True
  | V k size sub => 0 < size /\ kind_ok k size (zlen (logical sub content)) /\ wf sub content
  end.
Fixpoint good (v : view) (s : vstate) : Prop :=
  match v, s with
  | Base, SBase p => 0 <= p
  | V k size sub, SV pos ts ss => 0 <= pos <= size /\ good sub ss
  | _, _ => False
  end.

Lemma slice_map_zrange {B} (f : Z -> B) size p t :
  0 <= p -> 0 <= t -> p + t <= size ->
  slice (map f (zrange 0 size)) p (p + t) = map f (zrange p (p + t)).
Proof.
  intros Hp Ht Hs.
  rewrite (zrange_app 0 p size) by lia. rewrite (zrange_app p (p + t) size) by lia.
  rewrite !map_app. unfold slice.
  replace (Z.to_nat p) with (length (map f (zrange 0 p))).
  2:{ rewrite map_length. unfold zrange. rewrite zrange_nat_length. lia. }
  rewrite skipn_app, skipn_all, Nat.sub_diag. cbn [skipn app].
  replace (Z.to_nat (p + t - p)) with (length (map f (zrange p (p + t)))).
  2:{ rewrite map_length. unfold zrange. rewrite zrange_nat_length. lia. }
  rewrite firstn_app, firstn_all, Nat.sub_diag. cbn [firstn]. now rewrite app_nil_r.
Qed.

(** reading [n] bytes at [p] from the logical content, clipped at the end *)
Lemma slice_logical_clip {B} (f : Z -> B) size p n :
  0 <= p <= size -> 0 <= n ->
  slice (map f (zrange 0 size)) p (p + n) = map f (zrange p (p + Z.min (size - p) n)).
Proof.
  intros Hp Hn.
  destruct (Z_le_gt_dec n (size - p)).
  - rewrite Z.min_r by lia. apply slice_map_zrange; lia.
  - rewrite Z.min_l by lia. rewrite slice_clip; [|lia|rewrite map_zlen, zlen_zrange; lia].
    rewrite map_zlen, zlen_zrange by lia. replace (size - 0) with (p + (size - p)) by lia.
    apply slice_map_zrange; lia.
Qed.

(** * The sector read loop against an abstract, file-like parent *)
Section SectProof.
  Variable St : Type.
  Variable p_seek : St -> Z -> res Z * St.
  Variable p_read : St -> Z -> res (list Z) * St.
  Variable PGood : St -> Prop.
  Variable pcur : St -> Z.
  Variable Lp : list Z.
  Hypothesis Hseek : forall s a, PGood s -> 0 <= a <= zlen Lp ->
    exists r s', p_seek s a = (Ok r, s') /\ PGood s' /\ pcur s' = a.
  Hypothesis Hread : forall s n, PGood s -> 0 <= n ->
    exists s', p_read s n = (Ok (slice Lp (pcur s) (pcur s + n)), s') /\ PGood s'.
  Variable L : Z.
  Variable m : smap.
  Variable size : Z.
  Hypothesis HL : 0 < L.
  Hypothesis Hin : forall a, 0 <= a < size ->
    sect_addr L m (a / L) 0 = Ok (sbase m L (a / L)) /\ 0 <= sbase m L (a / L) /\
    sbase m L (a / L) + a mod L < zlen Lp.

  Let f (a : Z) : Z := znth 0 Lp (sbase m L (a / L) + a mod L).

  Lemma sect_addr_off i o x : sect_addr L m i 0 = Ok x -> sect_addr L m i o = Ok (x + o).
  Proof.
    unfold sect_addr. destruct m as [|secs|].
    - intros [= <-]. f_equal. lia.
    - destruct (_ || _); [discriminate|]. intros [= <-]. f_equal. lia.
    - intros [= <-]. f_equal. lia.
  Qed.

  Lemma div_mod_in_sector i o j : 0 <= i -> 0 <= o -> 0 <= j -> o + j < L ->
    (i * L + o + j) / L = i /\ (i * L + o + j) mod L = o + j.
  Proof.
    intros. replace (i * L + o + j) with ((o + j) + i * L) by lia.
    rewrite Z.div_add, Z.mod_add by lia. rewrite Z.div_small, Z.mod_small by lia. lia.
  Qed.

  Lemma read_sector_ok s i o k :
    PGood s -> 0 <= i -> 0 <= o -> 0 < k -> o + k <= L -> i * L + o + k <= size ->
    exists s', read_sector St p_seek p_read L m s i o k
               = (Ok (map f (zrange (i * L + o) (i * L + o + k))), s') /\ PGood s'.
  Proof.
    intros Hg Hi Ho Hk HoL Hsz. unfold read_sector.
    destruct (Z.gtb_spec (o + k) L); [lia|].
    destruct (div_mod_in_sector i o 0 Hi Ho ltac:(lia) ltac:(lia)) as [D0 M0].
    rewrite Z.add_0_r in D0, M0.
    destruct (Hin (i * L + o) ltac:(lia)) as (HA & Hx0 & _). rewrite D0 in HA, Hx0.
    rewrite (sect_addr_off _ o _ HA).
    destruct (div_mod_in_sector i o (k - 1) Hi Ho ltac:(lia) ltac:(lia)) as [D1 M1].
    destruct (Hin (i * L + o + (k - 1)) ltac:(lia)) as (_ & _ & Hlast). rewrite D1, M1 in Hlast.
    set (x := sbase m L i) in *.
    destruct (Hseek s (x + o) Hg ltac:(lia)) as (r & s1 & E1 & G1 & C1). rewrite E1.
    destruct (Hread s1 k G1 ltac:(lia)) as (s2 & E2 & G2). rewrite E2, C1.
    exists s2. split; [|assumption]. f_equal. f_equal.
    rewrite (slice_map_znth 0) by lia.
    replace (x + o + k) with ((i * L + o + k) + (x - i * L)) by lia.
    replace (x + o) with ((i * L + o) + (x - i * L)) at 1 by lia.
    rewrite zrange_shift, map_map. apply map_ext_zrange. intros a Ha. unfold f.
    destruct (div_mod_in_sector i o (a - (i * L + o)) Hi Ho ltac:(lia) ltac:(lia)) as [D M].
    replace (i * L + o + (a - (i * L + o))) with a in D, M by lia.
    rewrite D, M. fold x. f_equal. lia.
  Qed.

  Lemma sect_middle_ok first p e :
    0 <= first -> 0 <= p -> e <= size ->
    forall fuel s i remaining acc,
      PGood s -> 1 <= i -> 0 < remaining -> (first + i) * L + remaining = e ->
      p <= (first + i) * L ->
      acc = map f (zrange p ((first + i) * L)) ->
      remaining / L < Z.of_nat fuel ->
      exists s' i' rem',
        sect_middle St p_seek p_read fuel L m s first i remaining acc
        = (Ok (map f (zrange p ((first + i') * L)), i', rem'), s')
        /\ PGood s' /\ 0 < rem' <= L /\ (first + i') * L + rem' = e /\ p <= (first + i') * L /\ 1 <= i'.
  Proof.
    intros Hf Hp He. induction fuel as [|fuel IH]; intros s i rem acc Hg Hi Hrem Heq Hpi Hacc Hfuel.
    { pose proof (Z.div_pos rem L ltac:(lia) HL). lia. }
    cbn [sect_middle]. destruct (Z.gtb_spec rem L) as [Hgt|Hle].
    - destruct (read_sector_ok s (first + i) 0 L Hg ltac:(lia) ltac:(lia) HL ltac:(lia) ltac:(lia))
        as (s1 & E & G1). rewrite E.
      apply IH; try assumption; try lia.
      + subst acc. rewrite <- map_app. f_equal. rewrite Z.add_0_r.
        replace ((first + (i + 1)) * L) with ((first + i) * L + L) by lia.
        rewrite <- zrange_app by lia. reflexivity.
      + assert (rem / L = (rem - L) / L + 1).
        { replace rem with ((rem - L) + 1 * L) at 1 by lia. rewrite Z.div_add by lia. lia. }
        lia.
    - exists s, i, rem. subst acc. repeat split; try assumption; lia.
  Qed.

  (** reading [n > 0] bytes at [p] inside the view returns exactly the logical bytes *)
  Lemma sect_read_ok s p n :
    PGood s -> 0 <= p -> 0 < n -> p + n <= size ->
    exists s', sect_read St p_seek p_read L m s p n = (Ok (map f (zrange p (p + n))), s') /\ PGood s'.
  Proof.
    intros Hg Hp Hn Hsz. unfold sect_read.
    destruct (Z.leb_spec n 0); [lia|].
    pose proof (Z.div_mod p L ltac:(lia)) as Hdm.
    pose proof (Z.mod_pos_bound p L HL) as Hmb.
    pose proof (Z.div_pos p L Hp HL) as Hdp.
    set (isi := p / L) in *. set (iso := p mod L) in *.
    assert (Hpeq : p = isi * L + iso) by lia.
    destruct (Z.leb_spec (iso + n) L) as [Hfit|Hnofit].
    - (* the whole read lies in the first sector *)
      destruct (read_sector_ok s isi iso n Hg Hdp ltac:(lia) Hn Hfit ltac:(lia)) as (s1 & E & G1).
      rewrite E. rewrite <- Hpeq.
      destruct (Z.to_nat (n / L)) eqn:Efuel; cbn [sect_middle];
        (destruct (Z.gtb_spec (n - n) L); [lia|]);
        (destruct (Z.gtb_spec (n - n) 0); [lia|]);
        rewrite map_zlen, zlen_zrange by lia;
        (destruct (Z.eqb_spec (p + n - p) n); [|lia]); eauto.
    - destruct (read_sector_ok s isi iso (L - iso) Hg Hdp ltac:(lia) ltac:(lia) ltac:(lia) ltac:(lia))
        as (s1 & E & G1).
      rewrite E.
      replace (isi * L + iso + (L - iso)) with ((isi + 1) * L) by lia. rewrite <- Hpeq.
      destruct (sect_middle_ok isi p (p + n) Hdp Hp Hsz (S (Z.to_nat (n / L))) s1 1 (n - (L - iso))
                  (map f (zrange p ((isi + 1) * L))) G1 ltac:(lia) ltac:(lia) ltac:(lia) ltac:(lia)
                  eq_refl)
        as (s2 & i' & rem' & E2 & G2 & Hrem & Heq & Hpi & Hi').
      { assert ((n - (L - iso)) / L <= n / L) by (apply Z.div_le_mono; lia).
        pose proof (Z.div_pos n L ltac:(lia) HL). lia. }
      rewrite E2.
      destruct (Z.gtb_spec rem' 0); [|lia].
      destruct (read_sector_ok s2 (isi + i') 0 rem' G2 ltac:(lia) ltac:(lia) ltac:(lia) ltac:(lia) ltac:(lia))
        as (s3 & E3 & G3).
      rewrite E3. rewrite <- map_app. rewrite Z.add_0_r, Heq. rewrite <- zrange_app by lia.
      rewrite map_zlen, zlen_zrange by lia.
      destruct (Z.eqb_spec (p + n - p) n); [|lia]. eauto.
  Qed.
End SectProof.

(** * Every well-formed (reversal-free) nesting is a read-only file over its logical content *)
Definition FileLike (v : view) (content : list Z) : Prop :=
  let Lv := logical v content in
  (forall s a, good v s -> 0 <= a ->
     exists r s', v_seek v s a 0 = (Ok r, s') /\ good v s' /\
                  (v_tell s' = a \/ (zlen Lv < a /\ v_tell s' = zlen Lv)))
  /\ (forall s n, good v s -> 0 <= n ->
        exists s', v_read v content s n = (Ok (slice Lv (v_tell s) (v_tell s + n)), s')
                   /\ good v s' /\ v_tell s' = v_tell s + zlen (slice Lv (v_tell s) (v_tell s + n))).

Lemma good_tell_nonneg v s : good v s -> 0 <= v_tell s.
Proof. destruct v, s; cbn; try tauto; lia. Qed.

Lemma base_filelike content : FileLike Base content.
Proof.
  split.
  - intros s a Hg Ha. cbn [v_seek]. unfold base_seek. destruct (Z.ltb_spec a 0); [lia|].
    exists a, (SBase a). cbn. auto.
  - intros s n Hg Hn. cbn [v_read]. unfold base_read. eexists. split; [reflexivity|].
    cbn. pose proof (good_tell_nonneg _ _ Hg). pose proof (zlen_nonneg (slice content (v_tell s) (v_tell s + n))).
    split; [lia|reflexivity].
Qed.

(** "seek the parent if its cursor is elsewhere, then read": what StreamWrapper.read does *)
Lemma parent_fetch sub content ss e t :
  FileLike sub content -> good sub ss -> 0 <= e -> 0 <= t -> e + t <= zlen (logical sub content) ->
  exists r ss1, (if e =? v_tell ss then (Ok 0, ss) else v_seek sub ss e 0) = (Ok r, ss1)
                /\ good sub ss1 /\ v_tell ss1 = e.
Proof.
  intros [Hs _] Hg He Ht Hle. destruct (Z.eqb_spec e (v_tell ss)) as [->|Hne].
  - eauto.
  - destruct (Hs ss e Hg He) as (r & s' & E & G & [C|[C1 C2]]); [eauto|lia].
Qed.

Lemma sub_seek_contract sub content :
  FileLike sub content ->
  forall s a, good sub s -> 0 <= a <= zlen (logical sub content) ->
    exists r s', v_seek sub s a 0 = (Ok r, s') /\ good sub s' /\ v_tell s' = a.
Proof.
  intros [Hs _] s a Hg Ha. destruct (Hs s a Hg ltac:(lia)) as (r & s' & E & G & [C|[C1 C2]]); eauto. lia.
Qed.
Lemma sub_read_contract sub content :
  FileLike sub content ->
  forall s n, good sub s -> 0 <= n ->
    exists s', v_read sub content s n
               = (Ok (slice (logical sub content) (v_tell s) (v_tell s + n)), s') /\ good sub s'.
Proof. intros [_ Hr] s n Hg Hn. destruct (Hr s n Hg Hn) as (s' & E & G & _). eauto. Qed.

Lemma sect_in_range L m size plen :
  kind_ok (KSect L m) size plen -> 0 < L /\
  forall a, 0 <= a < size ->
    sect_addr L m (a / L) 0 = Ok (sbase m L (a / L)) /\ 0 <= sbase m L (a / L) /\
    sbase m L (a / L) + a mod L < plen.
Proof.
  destruct m as [|secs|]; cbn [kind_ok].
  - intros [HL Hs]. split; [assumption|]. intros a Ha. unfold sect_addr, sbase.
    pose proof (Z.div_mod a L ltac:(lia)). pose proof (Z.mod_pos_bound a L HL).
    pose proof (Z.div_pos a L ltac:(lia) HL). split; [f_equal; lia|]. split; [nia|nia].
  - intros (HL & Hs & HF). split; [assumption|]. intros a Ha. unfold sect_addr, sbase.
    pose proof (Z.div_mod a L ltac:(lia)). pose proof (Z.mod_pos_bound a L HL).
    pose proof (Z.div_pos a L ltac:(lia) HL).
    assert (Hi : a / L < zlen secs) by (apply Z.div_lt_upper_bound; lia).
    destruct (Z.ltb_spec (a / L) 0); [lia|]. destruct (Z.geb_spec (a / L) (zlen secs)); [lia|].
    cbn [orb].
    assert (Hsec : 0 <= znth 0 secs (a / L) /\ (znth 0 secs (a / L) + 1) * L <= plen).
    { rewrite Forall_forall in HF. apply HF. unfold znth. apply nth_In. unfold zlen in Hi. lia. }
    split; [f_equal; lia|]. split; nia.
  - intros (-> & Hs). split; [lia|]. intros a Ha. unfold sect_addr, sbase.
    pose proof (Z.div_mod a 2048 ltac:(lia)). pose proof (Z.mod_pos_bound a 2048 ltac:(lia)).
    pose proof (Z.div_pos a 2048 ltac:(lia) ltac:(lia)).
    assert (Hi : a / 2048 < plen / 2352) by (apply Z.div_lt_upper_bound; lia).
    pose proof (Z.div_mod plen 2352 ltac:(lia)). pose proof (Z.mod_pos_bound plen 2352 ltac:(lia)).
    split; [f_equal; lia|]. split; lia.
Qed.

(** seek(off, whence) on a wrapper whose parent is file-like (no reversal) *)
Definition seek_target (size pos off wh : Z) : Z :=
  clamp_pos size ((if wh =? 1 then pos else if wh =? 2 then size else 0) + off).
Lemma clamp_pos_pos size np : 0 < size -> clamp_pos size np = if np >? size then size else if np <? 0 then 0 else np.
Proof. intros H. unfold clamp_pos. destruct (Z.ltb_spec 0 size); [reflexivity|lia]. Qed.
Lemma seek_target_range size pos off wh : 0 < size -> 0 <= seek_target size pos off wh <= size.
Proof.
  intros. unfold seek_target. rewrite clamp_pos_pos by assumption.
  destruct (Z.gtb_spec ((if wh =? 1 then pos else if wh =? 2 then size else 0) + off) size); [lia|].
  destruct (Z.ltb_spec ((if wh =? 1 then pos else if wh =? 2 then size else 0) + off) 0); lia.
Qed.
Lemma seek_user k size sub content :
  0 < size -> kind_ok k size (zlen (logical sub content)) -> FileLike sub content ->
  forall s off wh, good (V k size sub) s ->
    exists s', v_seek (V k size sub) s off wh = (Ok (seek_target size (v_tell s) off wh), s')
               /\ good (V k size sub) s' /\ v_tell s' = seek_target size (v_tell s) off wh.
Proof.
  intros Hsize Hk [Hs _] s off wh Hg.
  destruct s as [p|pos ts ss]; cbn [good] in Hg; [tauto|]. destruct Hg as [Hpos Hgs].
  cbn [v_seek v_tell]. fold (seek_target size pos off wh).
  pose proof (seek_target_range size pos off wh Hsize) as Hnp.
  set (np := seek_target size pos off wh) in *.
  assert (Ht : exists ta, translate k size 0 np = Ok ta /\ 0 <= ta).
  { destruct k as [|o|L m|w]; cbn [translate kind_ok] in *; try tauto; eexists; (split; [reflexivity|lia]). }
  destruct Ht as (ta & -> & Hta).
  destruct (Hs ss ta Hgs Hta) as (r & ss' & E & G & _). rewrite E.
  exists (SV np 0 ss'). cbn [good v_tell]. split; [reflexivity|]. split; [split; [lia|assumption]|reflexivity].
Qed.
Lemma seek_step k size sub content :
  0 < size -> kind_ok k size (zlen (logical sub content)) -> FileLike sub content ->
  forall s a, good (V k size sub) s -> 0 <= a ->
    exists r s', v_seek (V k size sub) s a 0 = (Ok r, s') /\ good (V k size sub) s' /\
                 (v_tell s' = a \/ (size < a /\ v_tell s' = size)).
Proof.
  intros Hsize Hk HF s a Hg Ha.
  destruct (seek_user k size sub content Hsize Hk HF s a 0 Hg) as (s' & E & G & T).
  exists (seek_target size (v_tell s) a 0), s'. split; [assumption|]. split; [assumption|].
  rewrite T. unfold seek_target. rewrite clamp_pos_pos by assumption. cbn [Z.eqb Z.add].
  destruct (Z.gtb_spec a size); [lia|]. destruct (Z.ltb_spec a 0); lia.
Qed.

Lemma read_ts size pos n : 0 < size -> 0 <= pos <= size -> 0 <= n ->
  (if (if size >? 0 then Z.min (size - pos) n else n) <? 0 then 0
   else (if size >? 0 then Z.min (size - pos) n else n))
  = Z.min (size - pos) n.
Proof.
  intros. destruct (Z.gtb_spec size 0); [|lia].
  destruct (Z.ltb_spec (Z.min (size - pos) n) 0); lia.
Qed.

(** read(n) on StreamWrapper / StreamOffset *)
Lemma read_step_window k size sub content :
  (k = KWrap \/ exists off, k = KOff off) ->
  0 < size -> kind_ok k size (zlen (logical sub content)) -> FileLike sub content ->
  forall s n, good (V k size sub) s -> 0 <= n ->
    exists s', v_read (V k size sub) content s n
               = (Ok (slice (logical (V k size sub) content) (v_tell s) (v_tell s + n)), s')
               /\ good (V k size sub) s'
               /\ v_tell s' = v_tell s + zlen (slice (logical (V k size sub) content) (v_tell s) (v_tell s + n)).
Proof.
  intros Hkind Hsize Hk HF s n Hg Hn.
  destruct s as [p|pos ts0 ss]; cbn [good] in Hg; [tauto|]. destruct Hg as [Hpos Hgs].
  cbn [v_read v_tell]. rewrite (read_ts size pos n Hsize Hpos Hn).
  set (ts := Z.min (size - pos) n). assert (Hts : 0 <= ts /\ pos + ts <= size) by (unfold ts; lia).
  set (Lp := logical sub content) in *.
  assert (He : exists e, translate k size ts pos = Ok e /\ 0 <= e /\ e + ts <= zlen Lp /\
                         forall a, addr k size a = a + (e - pos)).
  { destruct Hkind as [->|[off ->]]; cbn [translate kind_ok addr] in *.
    - exists pos. repeat split; intros; lia.
    - exists (off + pos). repeat split; intros; lia. }
  destruct He as (e & -> & He0 & Hele & Haddr).
  destruct (parent_fetch sub content ss e ts HF Hgs He0 ltac:(lia) Hele) as (r & ss1 & E1 & G1 & C1).
  fold Lp. rewrite E1.
  destruct HF as [_ Hr]. destruct (Hr ss1 ts G1 ltac:(lia)) as (ss2 & E2 & G2 & _).
  assert (Hout : slice Lp (v_tell ss1) (v_tell ss1 + ts)
                 = slice (logical (V k size sub) content) pos (pos + n)).
  { cbn [logical]. fold Lp. rewrite slice_logical_clip by lia. fold ts. rewrite C1.
    rewrite (slice_map_znth 0) by lia.
    replace (e + ts) with ((pos + ts) + (e - pos)) by lia.
    replace e with (pos + (e - pos)) at 1 by lia.
    rewrite zrange_shift, map_map. apply map_ext_zrange. intros a _. now rewrite Haddr. }
  assert (Hzl : zlen (slice (logical (V k size sub) content) pos (pos + n)) = ts).
  { cbn [logical]. rewrite slice_logical_clip by lia. fold ts. rewrite map_zlen, zlen_zrange; lia. }
  exists (SV (pos + ts) ts ss2).
  fold Lp in E2. rewrite Hout in E2.
  destruct Hkind as [->|[off ->]]; cbv iota; rewrite E2; cbn [good v_tell]; rewrite Hzl;
    (split; [reflexivity|]); (split; [split; [lia|assumption]|reflexivity]).
Qed.

(** read(n) on SectorStream / FileStream / MdfStream *)
Lemma read_step_sect L m size sub content :
  0 < size -> kind_ok (KSect L m) size (zlen (logical sub content)) -> FileLike sub content ->
  forall s n, good (V (KSect L m) size sub) s -> 0 <= n ->
    exists s', v_read (V (KSect L m) size sub) content s n
               = (Ok (slice (logical (V (KSect L m) size sub) content) (v_tell s) (v_tell s + n)), s')
               /\ good (V (KSect L m) size sub) s'
               /\ v_tell s' = v_tell s
                   + zlen (slice (logical (V (KSect L m) size sub) content) (v_tell s) (v_tell s + n)).
Proof.
  intros Hsize Hk HF s n Hg Hn.
  destruct s as [p|pos ts0 ss]; cbn [good] in Hg; [tauto|]. destruct Hg as [Hpos Hgs].
  cbn [v_read v_tell translate]. rewrite (read_ts size pos n Hsize Hpos Hn).
  set (ts := Z.min (size - pos) n). assert (Hts : 0 <= ts /\ pos + ts <= size) by (unfold ts; lia).
  set (Lp := logical sub content) in *.
  assert (Hfetch : exists r ss1, (if pos =? v_tell ss then (Ok 0, ss) else v_seek sub ss pos 0) = (Ok r, ss1)
                                 /\ good sub ss1).
  { destruct (pos =? v_tell ss); [eauto|].
    destruct HF as [Hs _]. destruct (Hs ss pos Hgs ltac:(lia)) as (r & s' & E & G & _). eauto. }
  destruct Hfetch as (r & ss1 & -> & G1).
  assert (Hzl : zlen (slice (logical (V (KSect L m) size sub) content) pos (pos + n)) = ts).
  { cbn [logical]. rewrite slice_logical_clip by lia. fold ts. rewrite map_zlen, zlen_zrange; lia. }
  destruct (sect_in_range L m size (zlen Lp) Hk) as [HL Hin].
  destruct (Z.eq_dec ts 0) as [Hz|Hnz].
  - (* empty read: the D3 early return *)
    unfold sect_read. rewrite Hz. cbn [Z.leb Z.compare].
    exists (SV (pos + 0) 0 ss1). cbn [good v_tell]. rewrite Hzl, Hz.
    split; [|split; [split; [lia|assumption]|reflexivity]].
    f_equal. f_equal. symmetry. apply (proj1 (length_zero_iff_nil _)).
    unfold zlen in Hzl. lia.
  - destruct (sect_read_ok vstate (fun st a => v_seek sub st a 0) (fun st m_ => v_read sub content st m_)
                (good sub) v_tell Lp (sub_seek_contract sub content HF) (sub_read_contract sub content HF)
                L m size HL Hin ss1 pos ts G1 ltac:(lia) ltac:(lia) ltac:(lia)) as (ss2 & E2 & G2).
    rewrite E2. exists (SV (pos + ts) ts ss2). cbn [good v_tell]. rewrite Hzl.
    split; [|split; [split; [lia|assumption]|reflexivity]].
    f_equal. f_equal. cbn [logical]. fold Lp. rewrite slice_logical_clip by lia. fold ts.
    apply map_ext_zrange. intros a _. reflexivity.
Qed.

Theorem view_filelike : forall v content, wf v content -> FileLike v content.
Proof.
  induction v as [|k size sub IH]; intros content Hwf; [apply base_filelike|].
  cbn [wf] in Hwf. destruct Hwf as (Hsize & Hk & Hwfs). specialize (IH content Hwfs).
  assert (Hlen : zlen (logical (V k size sub) content) = size) by (apply logical_len; lia).
  split.
  - intros s a Hg Ha. rewrite Hlen. apply (seek_step k size sub content); assumption.
  - destruct k as [|off|L m|w].
    + apply read_step_window; auto.
    + apply read_step_window; eauto.
    + apply read_step_sect; auto.
    + cbn in Hk. tauto.
Qed.

(** * The ordinary read-only file, and refinement for every operation history *)
Definition ref_step (L : list Z) (pos : Z) (o : op) : out * Z :=
  match o with
  | OTell => (OutPos pos, pos)
  | OSeek off wh =>
      let start := if wh =? 1 then pos else if wh =? 2 then zlen L else 0 in
      let np := Z.max 0 (Z.min (zlen L) (start + off)) in
      (OutPos np, np)
  | ORead n => let b := slice L pos (pos + n) in (OutBytes b, pos + zlen b)
  end.
Fixpoint ref_run (L : list Z) (pos : Z) (ops : list op) : list out :=
  match ops with
  | [] => []
  | o :: rest => let '(r, p') := ref_step L pos o in r :: ref_run L p' rest
  end.
Definition op_ok (o : op) : Prop := match o with ORead n => 0 <= n | _ => True end.

Lemma step_refines k size sub content s o :
  wf (V k size sub) content -> good (V k size sub) s -> op_ok o ->
  let L := logical (V k size sub) content in
  exists s', step (V k size sub) content s o = (fst (ref_step L (v_tell s) o), s')
             /\ good (V k size sub) s' /\ v_tell s' = snd (ref_step L (v_tell s) o).
Proof.
  intros Hwf Hg Hop L.
  pose proof (view_filelike _ _ Hwf) as HFL.
  cbn [wf] in Hwf. destruct Hwf as (Hsize & Hk & Hwfs).
  pose proof (view_filelike _ _ Hwfs) as HFs.
  assert (Hlen : zlen L = size) by (apply logical_len; lia).
  destruct o as [off wh| |n]; cbn [step ref_step fst snd].
  - destruct (seek_user k size sub content Hsize Hk HFs s off wh Hg) as (s' & E & G & T).
    rewrite E. exists s'. rewrite Hlen.
    assert (Heq : seek_target size (v_tell s) off wh
                  = Z.max 0 (Z.min size ((if wh =? 1 then v_tell s else if wh =? 2 then size else 0) + off))).
    { unfold seek_target. rewrite clamp_pos_pos by assumption.
      destruct (Z.gtb_spec ((if wh =? 1 then v_tell s else if wh =? 2 then size else 0) + off) size); [lia|].
      destruct (Z.ltb_spec ((if wh =? 1 then v_tell s else if wh =? 2 then size else 0) + off) 0); lia. }
    rewrite <- Heq. auto.
  - exists s. auto.
  - cbn in Hop. destruct (Z.ltb_spec n 0); [lia|].
    destruct HFL as [_ Hr]. destruct (Hr s n Hg Hop) as (s' & E & G & T).
    rewrite E. exists s'. auto.
Qed.

Theorem view_refines_file_lemma :
  forall k size sub content ops s,
    wf (V k size sub) content -> good (V k size sub) s -> Forall op_ok ops ->
    fst (run (V k size sub) content s ops)
    = ref_run (logical (V k size sub) content) (v_tell s) ops.
Proof.
  intros k size sub content ops. induction ops as [|o ops IH]; intros s Hwf Hg Hops; [reflexivity|].
  inversion Hops as [|? ? Ho Hrest]; subst.
  cbn [run ref_run].
  destruct (step_refines k size sub content s o Hwf Hg Ho) as (s' & E & G & T).
  rewrite E. destruct (ref_step _ (v_tell s) o) as [r p'] eqn:ER. cbn [fst snd] in *.
  specialize (IH s' Hwf G Hrest). destruct (run _ content s' ops) as [rs s2].
  cbn [fst] in *. rewrite IH, T. reflexivity.
Qed.

(** the initial state of a well-formed view is good, whatever the base cursor *)
Lemma init_good : forall v content c, wf v content -> 0 <= c -> good v (init_state v c).
Proof.
  induction v as [|k size sub IH]; intros content c Hwf Hc; cbn in *; [assumption|].
  destruct Hwf as (Hs & _ & Hsub). split; [lia|]. eapply IH; eauto.
Qed.

(** * Views that share ancestors (one file handle): interference from other views *)
(** Between two operations of the observed view, other views over the same parent objects may
    run: they can leave every ancestor (and the base cursor) in ANY good state. *)
Inductive sched_ev := Own (o : op) | Other (ss' : vstate).
Definition interfere (v : view) (s : vstate) (ss' : vstate) : vstate :=
  match v, s with
  | V k size sub, SV pos ts _ => SV pos ts ss'
  | _, _ => s
  end.
Fixpoint run_sched (v : view) (content : list Z) (s : vstate) (evs : list sched_ev) : list out :=
  match evs with
  | [] => []
  | Own o :: rest => let '(r, s1) := step v content s o in r :: run_sched v content s1 rest
  | Other ss' :: rest => run_sched v content (interfere v s ss') rest
  end.
Fixpoint own_ops (evs : list sched_ev) : list op :=
  match evs with
  | [] => []
  | Own o :: rest => o :: own_ops rest
  | Other _ :: rest => own_ops rest
  end.
Definition ev_ok (sub : view) (e : sched_ev) : Prop :=
  match e with Own o => op_ok o | Other ss' => good sub ss' end.

Theorem schedule_noninterference_lemma :
  forall k size sub content evs s,
    wf (V k size sub) content -> good (V k size sub) s -> Forall (ev_ok sub) evs ->
    run_sched (V k size sub) content s evs
    = ref_run (logical (V k size sub) content) (v_tell s) (own_ops evs).
Proof.
  intros k size sub content evs. induction evs as [|e evs IH]; intros s Hwf Hg Hevs; [reflexivity|].
  inversion Hevs as [|? ? He Hrest]; subst.
  destruct e as [o|ss']; cbn [run_sched own_ops ref_run].
  - destruct (step_refines k size sub content s o Hwf Hg He) as (s' & E & G & T).
    rewrite E. destruct (ref_step _ (v_tell s) o) as [r p'] eqn:ER. cbn [fst snd] in *.
    rewrite (IH s' Hwf G Hrest), T. reflexivity.
  - destruct s as [p|pos ts ss]; cbn [good] in Hg; [tauto|].
    cbn [interfere]. rewrite IH; auto. cbn [good] in *. cbn in He. tauto.
Qed.
