(** Whole-image model of the AKAI S1000/S3000 reader and exporter, at the level of LOGICAL
    contents: smpl_extract/akai/{image,partition,volume,file_entry,file,sample}.py composed
    with the allocation-table model (Fat.v), the naming and pairing models (Names.v) and the
    transcoder model (Transcode.v).

    A byte-window view (StreamOffset / Segment / StreamWrapper ...) is represented by its
    logical content - that the real views deliver exactly that content under any seek/read
    history is theorem view_refines_file (C08).  [img] is the list of the image's bytes. *)
From SE Require Import Base Codecs Fat Cue Names Transcode.

Definition SECTOR : Z := 8192.
Definition VOL_ENTRIES : Z := 100.
Definition SAT_ENTRIES : Z := 11386.
Definition HDR_BYTES : Z := 202 + 16 * VOL_ENTRIES + 2 * SAT_ENTRIES.   (* 24574 *)
Definition TABLE_END_FLAG : Z := 55111.   (* 0xD747 *)
Definition SAMPLE_HDR : Z := 140.

Definition u8 (l : list Z) (o : Z) : Z := znth 0 l o.
Definition u16 (l : list Z) (o : Z) : Z := znth 0 l o + 256 * znth 0 l (o + 1).
Definition u24 (l : list Z) (o : Z) : Z := u16 l o + 65536 * znth 0 l (o + 2).
Definition u32 (l : list Z) (o : Z) : Z := u16 l o + 65536 * u16 l (o + 2).
Definition s8 (l : list Z) (o : Z) : Z := let v := znth 0 l o in if v >=? 128 then v - 256 else v.
Fixpoint words (l : list Z) : list Z :=
  match l with a :: b :: t => (a + 256 * b) :: words t | _ => [] end.

(** the 97 magic words: low 16 bits of 3333*i, little endian *)
Definition MAGIC : list Z :=
  concat (map (fun i => let v := (3333 * Z.of_nat i) mod 65536 in [v mod 256; v / 256]) (seq 1 97)).

(** AkaiPaddedString(12): trailing AKAI blanks (0x0A) stripped, then the character map;
    an invalid code is a ConstructError *)
Fixpoint rstrip_pad (l : list Z) : list Z :=
  match l with
  | [] => []
  | c :: t => match rstrip_pad t with
              | [] => if c =? 10 then [] else [c]
              | r => c :: r
              end
  end.
Definition akai_name (b : list Z) : res (list Z) :=
  match akai_to_ascii (rstrip_pad b) with
  | Ok s => Ok s
  | _ => Err ConstructErr
  end.

(** * Partitions *)
Record vol_entry := { ve_name : list Z; ve_type : Z; ve_start : Z }.
Record partition := { p_off : Z; p_sectors : Z; p_vols : list vol_entry; p_sat : list link }.

Fixpoint parse_vol_entries (n : nat) (b : list Z) : res (list vol_entry) :=
  match n with
  | O => Ok []
  | S n' =>
      nm <- akai_name (firstn 12 b) ;;
      let ty := Z.land (u16 b 12) 3 in
      (* EnumWrapper(VolumeType): 2 is not a member *)
      if ty =? 2 then Err ConstructErr else
      rest <- parse_vol_entries n' (skipn 16 b) ;;
      Ok ({| ve_name := nm; ve_type := ty; ve_start := u16 b 14 |} :: rest)
  end.

(** PartitionParser at offset [o]; any failure is a ConstructError (the scan stops there) *)
Definition parse_partition (img : list Z) (o : Z) : res partition :=
  if o + HDR_BYTES >? zlen img then Err ConstructErr else
  let h := slice img o (o + HDR_BYTES) in
  let size := u16 h 0 in
  if negb ((u8 h 2 =? 0) && (u8 h 3 =? 0)) then Err ConstructErr else
  if negb (str_eqb (slice h 4 198) MAGIC) then Err ConstructErr else
  if negb ((u8 h 200 =? 47) && (u8 h 201 =? 0)) then Err ConstructErr else
  vols <- parse_vol_entries 100 (slice h 202 1802) ;;
  sat <- akai_decode (words (slice h 1802 HDR_BYTES)) ;;
  if size <=? 0 then Err ConstructErr else
  Ok {| p_off := o; p_sectors := size; p_vols := vols; p_sat := sat |}.

(** AkaiImageParser._load_partitions: while tell() < file_size, stop at the first failure *)
Fixpoint scan_partitions (fuel : nat) (img : list Z) (o : Z) : list partition :=
  match fuel with
  | O => []
  | S f =>
      if o <? zlen img then
        match parse_partition img o with
        | Ok p => p :: scan_partitions f img (o + p_sectors p * SECTOR)
        | _ => []
        end
      else []
  end.
Definition partitions (img : list Z) : list partition :=
  scan_partitions (S (Z.to_nat (zlen img / SECTOR))) img 0.

(** the partition's byte window (StreamOffset over the file) *)
Definition part_content (img : list Z) (p : partition) : list Z :=
  slice img (p_off p) (p_off p + p_sectors p * SECTOR).

(** Segment = FileStream over the sectors of a chain: logical content *)
Definition segment_content (pc : list Z) (secs : list Z) : list Z :=
  concat (map (fun s => slice pc (s * SECTOR) ((s + 1) * SECTOR)) secs).
Definition get_segment (pc : list Z) (sat : list link) (start : Z) : res (list Z) :=
  secs <- get_path SAT_ENTRIES sat start ;; Ok (segment_content pc secs).

(** * File table *)
Record fentry := { fe_name : list Z; fe_type : Z; fe_size : Z; fe_start : Z; fe_content : list Z }.
Definition is_file_type (t : Z) : bool :=
  (t =? 100) || (t =? 112) || (t =? 113) || (t =? 115) || (t =? 120) || (t =? 240) || (t =? 243).
Definition is_sample_type (t : Z) : bool := (t =? 115) || (t =? 243).
Definition is_program_type (t : Z) : bool := (t =? 112) || (t =? 240).

(** StreamWrapper(segment, size): clips only when size > 0 *)
Definition wrap_size (c : list Z) (size : Z) : list Z := if size >? 0 then slice c 0 size else c.

(** one 24-byte entry; None = the entry failed to parse (ConstructError /
    RequestedInvalidSector) and is skipped; Err = an exception that is NOT caught there *)
Definition parse_fentry (pc : list Z) (sat : list link) (e : list Z) : res (option fentry) :=
  match akai_name (firstn 12 e) with
  | Ok nm =>
      let ty := u8 e 16 in
      if negb (is_file_type ty) then Ok None else
      let size := u24 e 17 in
      let start := u16 e 20 in
      match get_segment pc sat start with
      | Ok c => Ok (Some {| fe_name := nm; fe_type := ty; fe_size := size; fe_start := start;
                            fe_content := wrap_size c size |})
      | Err RequestedInvalidSector => Ok None
      | Err x => Err x
      | OutOfFuel => OutOfFuel
      end
  | _ => Ok None
  end.

Fixpoint entries_loop (n : nat) (pc : list Z) (sat : list link) (table : list Z) : res (list fentry) :=
  match n with
  | O => Ok []
  | S n' =>
      if u16 table 8 =? TABLE_END_FLAG then Ok [] else
      r <- parse_fentry pc sat (firstn 24 table) ;;
      rest <- entries_loop n' pc sat (skipn 24 table) ;;
      match r with
      | Some e => if fe_start e >? 0 then Ok (e :: rest) else Ok rest
      | None => Ok rest
      end
  end.
Definition file_entries (pc : list Z) (sat : list link) (dir : list Z) : res (list fentry) :=
  entries_loop (Z.to_nat (zlen dir / 24)) pc sat dir.

(** * Sample header (140 bytes) *)
Record sample := {
  sm_file_name : list Z; sm_name : list Z; sm_id : Z; sm_note : Z; sm_loop_type : Z;
  sm_cents : Z; sm_semi : Z; sm_count : Z; sm_start : Z; sm_end : Z; sm_rate_raw : Z;
  sm_loops : list (Z * Z * Z * Z);   (* at, fine, coarse, duration *)
  sm_pcm : list Z }.
Definition sm_rate (s : sample) : Z := if sm_rate_raw s =? 0 then 44100 else sm_rate_raw s.

Definition parse_sample (e : fentry) : option sample :=
  let f := fe_content e in
  if zlen f <? SAMPLE_HDR then None else
  let id := u8 f 0 in
  if negb ((id =? 1) || (id =? 3)) then None else
  match akai_name (slice f 3 15) with
  | Ok nm =>
      let lt := u8 f 19 in
      if lt >? 4 then None else
      let st := u32 f 30 in
      let en := u32 f 34 in
      let dsize := 2 * (en - st) in
      let doff := SAMPLE_HDR + 2 * st in
      (* StreamOffset(size = dsize) over the file: clipped at the file's end; a size <= 0
         switches clipping off *)
      let data := if dsize >? 0 then slice f doff (doff + dsize) else skipn (Z.to_nat doff) f in
      Some {| sm_file_name := fe_name e; sm_name := nm; sm_id := id; sm_note := u8 f 2; sm_loop_type := lt;
              sm_cents := s8 f 20; sm_semi := s8 f 21; sm_count := u32 f 26; sm_start := st; sm_end := en;
              sm_rate_raw := u16 f 138;
              sm_loops := map (fun k => let o := 38 + 12 * Z.of_nat k in (u32 f o, u16 f (o + 4), u32 f (o + 6), u16 f (o + 10))) (seq 0 8);
              sm_pcm := data |}
  | _ => None
  end.

(** children of a volume: samples, and program files (assumed to parse: see the claim) *)
Inductive child := CSample (s : sample) | CProgram (name : list Z).
Definition child_name (c : child) : list Z := match c with CSample s => sm_file_name s | CProgram n => n end.
Definition realize_file (e : fentry) : option child :=
  if is_sample_type (fe_type e) then option_map CSample (parse_sample e)
  else if is_program_type (fe_type e) then Some (CProgram (fe_name e))
  else None.
Fixpoint filter_map {A B} (f : A -> option B) (l : list A) : list B :=
  match l with [] => [] | x :: t => match f x with Some y => y :: filter_map f t | None => filter_map f t end end.

Record volume := { v_name : list Z; v_type : Z; v_children : list child }.
Fixpoint realize_volumes (pc : list Z) (sat : list link) (vs : list vol_entry) : res (list volume) :=
  match vs with
  | [] => Ok []
  | v :: t =>
      if ve_type v =? 0 then realize_volumes pc sat t else
      dir <- get_segment pc sat (ve_start v) ;;
      es <- file_entries pc sat dir ;;
      rest <- realize_volumes pc sat t ;;
      Ok ({| v_name := ve_name v; v_type := ve_type v; v_children := filter_map realize_file es |} :: rest)
  end.

(** * Export *)
Record wavfile := { w_path : list (list Z); w_rate : Z; w_channels : Z; w_pcm : list Z }.

Definition samples_of_children (cs : list child) (names : list (list Z)) : list (sample * list Z) :=
  filter_map (fun cn => match fst cn with CSample s => Some (s, snd cn) | CProgram _ => None end) (combine cs names).

Definition src_of (s : sample) : src := {| sbytes := sm_pcm s; swidth := 2; schans := 1; sbig := false |}.

Fixpoint export_outputs (prefix : list (list Z)) (smps : list (sample * list Z))
         (outs : list (list Z * list nat)) : res (list wavfile) :=
  match outs with
  | [] => Ok []
  | (nm, srcs) :: t =>
      let ss := filter_map (fun i => option_map fst (nth_error smps i)) srcs in
      match ss with
      | [] => Err NoDataStream
      | s0 :: _ =>
          let nch := zlen ss in
          pcm <- transcode 4096 (map src_of ss) 2 nch ;;
          rest <- export_outputs prefix smps t ;;
          Ok ({| w_path := prefix ++ [nm]; w_rate := sm_rate s0; w_channels := nch; w_pcm := pcm |} :: rest)
      end
  end.

Fixpoint export_volumes (pname : list Z) (vols : list volume) (vnames : list (list Z)) : res (list wavfile) :=
  match vols, vnames with
  | v :: vt, vn :: nt =>
      names <- make_export_names (map (fun c => (child_name c, true)) (v_children v)) ;;
      let smps := samples_of_children (v_children v) names in
      files <- export_outputs [pname; vn] smps (combine_stereo (map snd smps)) ;;
      rest <- export_volumes pname vt nt ;;
      Ok (files ++ rest)
  | _, _ => Ok []
  end.

Definition partition_name (i : nat) : list Z := [65 + Z.of_nat i; 58].   (* "A:", "B:", ... *)

Fixpoint export_partitions (img : list Z) (ps : list partition) (pnames : list (list Z)) : res (list wavfile) :=
  match ps, pnames with
  | p :: pt, pn :: nt =>
      let pc := part_content img p in
      vols <- realize_volumes pc (p_sat p) (p_vols p) ;;
      vnames <- make_export_names (map (fun v => (v_name v, false)) vols) ;;
      files <- export_volumes pn vols vnames ;;
      rest <- export_partitions img pt nt ;;
      Ok (files ++ rest)
  | _, _ => Ok []
  end.

Definition akai_export (img : list Z) : res (list wavfile) :=
  let ps := partitions img in
  pnames <- make_export_names (map (fun i => (partition_name i, false)) (seq 0 (length ps))) ;;
  export_partitions img ps pnames.

(** the tree `ls` walks: partitions / volumes / files with their raw names *)
Definition akai_listing (img : list Z) : res (list (list Z * list (list Z * list (list Z)))) :=
  let ps := partitions img in
  (fix go (ps : list partition) (i : nat) :=
     match ps with
     | [] => Ok []
     | p :: t =>
         vols <- realize_volumes (part_content img p) (p_sat p) (p_vols p) ;;
         rest <- go t (S i) ;;
         Ok ((partition_name i, map (fun v => (v_name v, map child_name (v_children v))) vols) :: rest)
     end) ps O.
