(** Proofs about combine_stereo_routine's model (Names.combine_stereo): no sample lost or
    duplicated, left before right, pairs exactly the L/R names. *)
From SE Require Import Base Codecs Cue Names NamesProofs.
From Coq Require Import Permutation.

Definition other_side (s : Z) : Z := if s =? 76 then 82 else 76.
Definition alt_of (n : list Z) : option (list Z) :=
  match stereo_match n with
  | Some m => Some (st_stem m ++ st_sep m ++ [other_side (st_side m)])
  | None => None
  end.
Definition no_trail (n : list Z) : Prop := is_space_c (last_char n) = false.

Lemma span_app p : forall a b, Forall (fun c => p c = true) a -> (b = [] \/ p (hd 0 b) = false) ->
  span p (a ++ b) = (a, b).
Proof.
  induction a as [|x a IH]; intros b Ha Hb; cbn [app span].
  - destruct b as [|y b]; [reflexivity|]. cbn [span]. destruct Hb as [Hb|Hb]; [discriminate|].
    cbn [hd] in Hb. now rewrite Hb.
  - inversion Ha as [|? ? Hx Ha']; subst. rewrite Hx, (IH b Ha' Hb). reflexivity.
Qed.
Lemma mem_In c l : mem c l = true <-> In c l.
Proof.
  unfold mem. rewrite existsb_exists. split.
  - intros (x & Hx & He). apply Z.eqb_eq in He. now subst.
  - intros H. exists c. split; [assumption|apply Z.eqb_refl].
Qed.

(** full information carried by a successful stereo match *)
Lemma stereo_match_full name m :
  stereo_match name = Some m ->
  exists ws, name = st_stem m ++ st_sep m ++ [st_side m] ++ ws
    /\ Forall (fun c => is_space_c c = true) ws
    /\ st_sep m <> [] /\ Forall (fun c => is_sep c = true) (st_sep m)
    /\ (st_side m = 76 \/ st_side m = 82)
    /\ (st_stem m = [] \/ is_sep (last_char (st_stem m)) = false)
    /\ mem 10 (st_stem m) = false.
Proof.
  intros H. destruct (stereo_match_shape _ _ H) as (ws & H1 & H2 & H3 & H4 & H5).
  exists ws. repeat (split; [assumption|]).
  unfold stereo_match in H.
  destruct (lstrip (rev name)) as [|side before]; [discriminate|].
  destruct ((side =? 76) || (side =? 82)); [|discriminate].
  destruct (span is_sep before) as [sep_rev stem_rev] eqn:ES.
  destruct sep_rev as [|s0 sr]; [discriminate|].
  destruct (mem 10 stem_rev) eqn:EM; [discriminate|]. injection H as <-. cbn [st_stem].
  split.
  - unfold last_char. rewrite rev_involutive.
    clear - ES. revert s0 sr ES. induction before as [|c t IH]; intros s0 sr ES; cbn [span] in ES; [discriminate|].
    destruct (is_sep c) eqn:E; [|discriminate].
    destruct (span is_sep t) as [a b] eqn:ES2. injection ES as <- <- <-.
    destruct a as [|a0 ar].
    + destruct t as [|c2 t2]; cbn [span] in ES2.
      * injection ES2 as <-. now left.
      * destruct (is_sep c2) eqn:E2; [destruct (span is_sep t2); discriminate|]. injection ES2 as <-. right. assumption.
    + eapply IH. reflexivity.
  - destruct (mem 10 (rev stem_rev)) eqn:E; [|reflexivity].
    apply mem_In in E. apply in_rev in E. apply mem_In in E. congruence.
Qed.

Lemma stereo_match_build stem sep side :
  (side = 76 \/ side = 82) -> sep <> [] -> Forall (fun c => is_sep c = true) sep ->
  (stem = [] \/ is_sep (last_char stem) = false) -> mem 10 stem = false ->
  stereo_match (stem ++ sep ++ [side]) = Some {| st_stem := stem; st_sep := sep; st_side := side |}.
Proof.
  intros Hside Hne Hsep Hstem Hnl. unfold stereo_match.
  rewrite !rev_app_distr. cbn [rev app].
  assert (Hsp : is_space_c side = false) by (destruct Hside as [-> | ->]; reflexivity).
  cbn [lstrip]. rewrite Hsp.
  assert (Hs2 : (side =? 76) || (side =? 82) = true) by (destruct Hside as [-> | ->]; reflexivity).
  rewrite Hs2.
  rewrite (span_app is_sep (rev sep) (rev stem)).
  - destruct (rev sep) as [|s0 sr] eqn:E.
    + apply (f_equal (@length Z)) in E. rewrite rev_length in E. destruct sep; [congruence|discriminate].
    + assert (Hm : mem 10 (rev stem) = false).
      { destruct (mem 10 (rev stem)) eqn:E2; [|reflexivity]. apply mem_In in E2. apply in_rev in E2. apply mem_In in E2. congruence. }
      rewrite Hm. rewrite <- E. now rewrite !rev_involutive.
  - now apply Forall_rev.
  - destruct Hstem as [->|Hl]; [now left|]. right. exact Hl.
Qed.

Lemma other_side_inv s : (s = 76 \/ s = 82) -> other_side (other_side s) = s /\ (other_side s = 76 \/ other_side s = 82) /\ other_side s <> s.
Proof. intros [-> | ->]; cbn; repeat split; auto; discriminate. Qed.

Lemma no_trail_ws_nil (pre ws : list Z) side :
  is_space_c side = false -> Forall (fun c => is_space_c c = true) ws ->
  no_trail (pre ++ [side] ++ ws) -> ws = [].
Proof.
  intros Hs Hws Hn. destruct ws as [|w ws'] using rev_ind; [reflexivity|].
  exfalso. unfold no_trail in Hn. rewrite !app_assoc, last_char_app in Hn.
  apply Forall_app in Hws as [_ Hw]. inversion Hw; subst. congruence.
Qed.

(** on names without trailing blanks the L/R alternation is an involution *)
Lemma alt_of_spec name a :
  no_trail name -> alt_of name = Some a ->
  alt_of a = Some name /\ a <> name /\ no_trail a
  /\ exists m, stereo_match name = Some m /\ name = st_stem m ++ st_sep m ++ [st_side m]
       /\ a = st_stem m ++ st_sep m ++ [other_side (st_side m)].
Proof.
  intros Hn H. unfold alt_of in H. destruct (stereo_match name) as [m|] eqn:EM; [|discriminate].
  injection H as <-.
  destruct (stereo_match_full _ _ EM) as (ws & H1 & H2 & H3 & H4 & H5 & H6 & H7).
  assert (Hsp : is_space_c (st_side m) = false) by (destruct H5 as [-> | ->]; reflexivity).
  assert (ws = []).
  { apply (no_trail_ws_nil (st_stem m ++ st_sep m) ws (st_side m) Hsp H2). rewrite <- app_assoc. now rewrite <- H1. }
  subst ws. rewrite app_nil_r in H1.
  destruct (other_side_inv _ H5) as (O1 & O2 & O3).
  split; [|split; [|split]].
  - unfold alt_of. rewrite (stereo_match_build _ _ _ O2 H3 H4 H6 H7). cbn [st_stem st_sep st_side].
    rewrite O1. now rewrite <- H1.
  - intros Hc. rewrite H1 in Hc. apply app_inv_head in Hc. apply app_inv_head in Hc. injection Hc. assumption.
  - unfold no_trail. rewrite !app_assoc, last_char_app. destruct O2 as [-> | ->]; reflexivity.
  - exists m. repeat split; assumption.
Qed.

(** * The pairing loop *)
Definition nm (names : list (list Z)) (i : nat) : list Z := nth i names [].
Definition srcnames (names : list (list Z)) (outs : list (list Z * list nat)) : list (list Z) :=
  map (nm names) (concat (map snd outs)).
Definition unmarked (marked : list (list Z)) (n : list Z) : bool := negb (in_names n marked).

Lemma last_index_of_spec n : forall names k found r,
  last_index_of n names k found = Some r ->
  found = Some r \/ ((k <= r < k + length names)%nat /\ nth (r - k) names [] = n).
Proof.
  induction names as [|x t IH]; intros k found r H; cbn [last_index_of] in H; [now left|].
  apply IH in H. destruct H as [H|[H1 H2]].
  - destruct (str_eqb x n) eqn:E; [|now left]. injection H as <-. right. split; [cbn [length]; lia|].
    rewrite Nat.sub_diag. cbn. now apply str_eqb_eq in E.
  - right. split; [cbn [length]; lia|]. replace (r - k)%nat with (S (r - S k)) by lia. exact H2.
Qed.
Lemma last_index_of_found n : forall names k found,
  (found <> None \/ In n names) -> last_index_of n names k found <> None.
Proof.
  induction names as [|x t IH]; intros k found H; cbn [last_index_of].
  - destruct H as [H|[]]. assumption.
  - apply IH. destruct (str_eqb x n) eqn:E; [left; discriminate|].
    destruct H as [H|[H|H]]; [now left| |now right].
    subst. rewrite str_eqb_refl in E. discriminate.
Qed.

Lemma unmarked_app marked extra n :
  unmarked (marked ++ extra) n = unmarked marked n && unmarked extra n.
Proof. unfold unmarked, in_names. rewrite existsb_app. now rewrite negb_orb. Qed.
Lemma unmarked_false marked n : unmarked marked n = false <-> In n marked.
Proof. unfold unmarked. rewrite negb_false_iff. apply in_names_In. Qed.
Lemma unmarked_true marked n : unmarked marked n = true <-> ~ In n marked.
Proof. unfold unmarked. rewrite negb_true_iff. apply in_names_false. Qed.

Lemma filter_skip_absent marked extra l :
  (forall x, In x extra -> ~ In x l) ->
  filter (unmarked (marked ++ extra)) l = filter (unmarked marked) l.
Proof.
  intros H. apply filter_ext_in. intros x Hx. rewrite unmarked_app.
  assert (E : unmarked extra x = true).
  { apply unmarked_true. intros Hc. exact (H x Hc Hx). }
  rewrite E. apply andb_true_r.
Qed.
Lemma filter_remove_perm marked a name : forall l,
  NoDup l -> In a l -> ~ In a marked -> ~ In name l ->
  Permutation (a :: filter (unmarked (marked ++ [a; name])) l) (filter (unmarked marked) l).
Proof.
  induction l as [|x t IH]; intros Hnd Hin Ham Hnl; [destruct Hin|].
  inversion Hnd as [|? ? Hx Hnd']; subst. cbn [filter].
  destruct Hin as [->|Hin].
  - assert (E1 : unmarked (marked ++ [a; name]) a = false).
    { apply unmarked_false. apply in_app_iff. right. now left. }
    assert (E2 : unmarked marked a = true) by now apply unmarked_true.
    rewrite E1, E2. constructor.
    rewrite filter_skip_absent; [reflexivity|].
    intros y [<-|[<-|[]]]; [assumption|]. intros Hc. apply Hnl. now right.
  - assert (Hxa : x <> a) by (intros ->; contradiction).
    assert (Hxn : x <> name) by (intros ->; apply Hnl; now left).
    assert (E : unmarked (marked ++ [a; name]) x = unmarked marked x).
    { rewrite unmarked_app.
      assert (E' : unmarked [a; name] x = true).
      { apply unmarked_true. intros [Hc|[Hc|[]]]; congruence. }
      rewrite E'. apply andb_true_r. }
    rewrite E. destruct (unmarked marked x).
    + rewrite perm_swap. constructor. apply IH; auto. intros Hc. apply Hnl. now right.
    + apply IH; auto. intros Hc. apply Hnl. now right.
Qed.

Section Loop.
Context (names : list (list Z)).
Context (Hnd : NoDup names) (Hnt : Forall no_trail names).

Definition todo_ok (todo : list (nat * list Z)) : Prop :=
  forall i n, In (i, n) todo -> (i < length names)%nat /\ nm names i = n.
Definition closed (marked : list (list Z)) : Prop :=
  forall n a, In n marked -> alt_of n = Some a -> In a names -> In a marked.

Lemma in_names_nm n : In n names -> exists i, (i < length names)%nat /\ nm names i = n.
Proof. intros H. destruct (In_nth _ _ [] H) as (i & Hi & He). exists i. split; assumption. Qed.

Lemma combine_loop_perm : forall todo marked,
  todo_ok todo -> NoDup (map snd todo) -> closed marked ->
  (forall n, In n names -> ~ In n (map snd todo) -> In n marked) ->
  Permutation (srcnames names (combine_loop todo names marked)) (filter (unmarked marked) (map snd todo)).
Proof.
  induction todo as [|[i name] rest IH]; intros marked Hok Hnd2 Hcl Hcov; cbn [combine_loop map snd filter].
  - constructor.
  - inversion Hnd2 as [|? ? Hnr Hnd2']; subst.
    assert (Hok' : todo_ok rest) by (intros i0 n0 H0; apply Hok; now right).
    destruct (Hok i name ltac:(now left)) as [Hi Hnm].
    assert (Hname_in : In name names) by (rewrite <- Hnm; apply nth_In; assumption).
    assert (Hname_nt : no_trail name) by (rewrite Forall_forall in Hnt; auto).
    assert (Hcov_marked : forall mk, (forall x, In x marked -> In x mk) -> In name mk ->
              forall n, In n names -> ~ In n (map snd rest) -> In n mk).
    { intros mk Hsub Hin n Hn Hnot. destruct (list_eq_dec Z.eq_dec n name) as [->|Hne]; [assumption|].
      apply Hsub. apply Hcov; [assumption|]. intros [Hc|Hc]; [cbn in Hc; congruence|contradiction]. }
    destruct (in_names name marked) eqn:EM.
    + (* already marked: skipped *)
      assert (E : unmarked marked name = false) by (unfold unmarked; now rewrite EM).
      rewrite E. apply IH; auto. apply Hcov_marked; [auto|now apply in_names_In].
    + assert (E : unmarked marked name = true) by (unfold unmarked; now rewrite EM).
      rewrite E. apply in_names_false in EM.
      assert (Hsingle : forall out_name,
                (forall a, alt_of name = Some a -> ~ In a names) ->
                Permutation (srcnames names ((out_name, [i]) :: combine_loop rest names (marked ++ [name])))
                            (name :: filter (unmarked marked) (map snd rest))).
      { intros out_name Hno. unfold srcnames. cbn [map snd concat app]. rewrite Hnm. constructor.
        fold (srcnames names (combine_loop rest names (marked ++ [name]))).
        rewrite IH; auto.
        - rewrite filter_skip_absent; [reflexivity|]. intros y [<-|[]]. assumption.
        - intros n a Hn Ha Hin. apply in_app_iff in Hn as [Hn|[<-|[]]].
          + apply in_app_iff. left. eapply Hcl; eauto.
          + exfalso. eapply Hno; eauto.
        - apply Hcov_marked; [intros x Hx; apply in_app_iff; now left|apply in_app_iff; right; now left]. }
      destruct (stereo_match name) as [m|] eqn:ESM.
      2:{ apply Hsingle. intros a Ha. unfold alt_of in Ha. rewrite ESM in Ha. discriminate. }
      set (alt := if st_side m =? 76 then 82 else 76).
      set (a := st_stem m ++ st_sep m ++ [alt]).
      assert (Halt : alt_of name = Some a) by (unfold alt_of; rewrite ESM; reflexivity).
      destruct (last_index_of a names 0 None) as [j|] eqn:EL.
      2:{ apply Hsingle. intros a' Ha' Hin. rewrite Halt in Ha'. injection Ha' as <-.
          eapply last_index_of_found; [right; exact Hin|exact EL]. }
      apply last_index_of_spec in EL as [EL|[Hj Hja]]; [discriminate|].
      rewrite Nat.sub_0_r in Hja. cbn [plus] in Hj.
      destruct (alt_of_spec _ _ Hname_nt Halt) as (Hback & Hne & Hant & _).
      assert (Ha_in : In a names) by (rewrite <- Hja; apply nth_In; lia).
      assert (Ha_unm : ~ In a marked).
      { intros Hc. apply EM. eapply Hcl; eauto. }
      assert (Ha_rest : In a (map snd rest)).
      { destruct (in_dec (list_eq_dec Z.eq_dec) a (map snd rest)) as [H|H]; [assumption|].
        exfalso. apply Ha_unm. apply Hcov; [assumption|]. intros [Hc|Hc]; [cbn in Hc; congruence|contradiction]. }
      assert (Hsrc : Permutation (map (nm names) (if alt =? 82 then [i; j] else [j; i])) [name; a]).
      { assert (Hjn : nm names j = a) by exact Hja.
        destruct (alt =? 82); cbn [map]; rewrite Hnm, Hjn; [reflexivity|apply perm_swap]. }
      unfold srcnames. cbn [map snd concat]. rewrite map_app.
      fold (srcnames names (combine_loop rest names (marked ++ [a; name]))).
      rewrite Hsrc. cbn [app]. constructor.
      rewrite IH; auto.
      * apply filter_remove_perm; auto.
      * intros n a' Hn Ha' Hin. apply in_app_iff in Hn as [Hn|[<-|[<-|[]]]].
        -- apply in_app_iff. left. eapply Hcl; eauto.
        -- rewrite Hback in Ha'. injection Ha' as <-. apply in_app_iff. right. right. now left.
        -- rewrite Halt in Ha'. injection Ha' as <-. apply in_app_iff. right. now left.
      * apply Hcov_marked; [intros x Hx; apply in_app_iff; now left|apply in_app_iff; right; right; now left].
Qed.

(** shape of every output: a single sample under its own name, or an L/R pair named after
    the stem with the LEFT sample first *)
Lemma combine_loop_shape : forall todo marked x src,
  todo_ok todo -> In (x, src) (combine_loop todo names marked) ->
  (exists i, src = [i] /\ (i < length names)%nat /\ x = nm names i
             /\ (forall a, alt_of x = Some a -> ~ In a names))
  \/ (exists i j stem sep, src = [i; j] /\ (i < length names)%nat /\ (j < length names)%nat /\ x = stem
        /\ nm names i = stem ++ sep ++ [76] /\ nm names j = stem ++ sep ++ [82]
        /\ sep <> [] /\ Forall (fun c => is_sep c = true) sep
        /\ stereo_match (nm names i) = Some {| st_stem := stem; st_sep := sep; st_side := 76 |}).
Proof.
  induction todo as [|[i name] rest IH]; intros marked x src Hok H; cbn [combine_loop] in H; [destruct H|].
  assert (Hok' : todo_ok rest) by (intros i0 n0 H0; apply Hok; now right).
  destruct (Hok i name ltac:(now left)) as [Hi Hnm].
  assert (Hname_nt : no_trail name).
  { rewrite Forall_forall in Hnt. apply Hnt. rewrite <- Hnm. now apply nth_In. }
  destruct (in_names name marked); [eauto|].
  destruct (stereo_match name) as [m|] eqn:ESM.
  2:{ destruct H as [H|H]; [|eauto]. injection H as <- <-. left. exists i. repeat split; auto.
      intros a Ha. unfold alt_of in Ha. rewrite ESM in Ha. discriminate. }
  set (alt := if st_side m =? 76 then 82 else 76) in *.
  set (a := st_stem m ++ st_sep m ++ [alt]) in *.
  assert (Halt : alt_of name = Some a) by (unfold alt_of; rewrite ESM; reflexivity).
  destruct (last_index_of a names 0 None) as [j|] eqn:EL.
  2:{ destruct H as [H|H]; [|eauto]. injection H as <- <-. left. exists i. repeat split; auto.
      intros a' Ha' Hin. rewrite Halt in Ha'. injection Ha' as <-.
      eapply last_index_of_found; [right; exact Hin|exact EL]. }
  destruct H as [H|H]; [|eauto]. injection H as <- <-.
  apply last_index_of_spec in EL as [EL|[Hj Hja]]; [discriminate|].
  rewrite Nat.sub_0_r in Hja. cbn [plus] in Hj.
  destruct (alt_of_spec _ _ Hname_nt Halt) as (_ & _ & _ & m' & Hm' & Hn1 & Hn2).
  rewrite ESM in Hm'. injection Hm' as <-.
  destruct (stereo_match_full _ _ ESM) as (_ & _ & _ & H3 & H4 & H5 & H6 & H7).
  right. destruct H5 as [H5|H5].
  - (* this one is the LEFT sample: alt = R *)
    assert (Ealt : alt = 82) by (unfold alt; rewrite H5; reflexivity).
    rewrite Ealt. cbn [Z.eqb Pos.eqb]. exists i, j, (st_stem m), (st_sep m).
    repeat split; auto; try lia.
    + rewrite Hnm, Hn1, H5. reflexivity.
    + unfold nm. rewrite Hja. unfold a. now rewrite Ealt.
    + rewrite Hnm, ESM. destruct m as [s1 s2 s3]. cbn in *. now subst.
  - assert (Ealt : alt = 76) by (unfold alt; rewrite H5; reflexivity).
    rewrite Ealt. cbn [Z.eqb Pos.eqb]. exists j, i, (st_stem m), (st_sep m).
    repeat split; auto; try lia.
    + unfold nm. rewrite Hja. unfold a. now rewrite Ealt.
    + rewrite Hnm, Hn1, H5. reflexivity.
    + unfold nm. rewrite Hja. unfold a. rewrite Ealt. apply stereo_match_build; auto.
Qed.

Lemma todo_enum_ok : todo_ok (combine (seq 0 (length names)) names).
Proof.
  intros i n H. assert (Hgen : forall (l : list (list Z)) k i n, In (i, n) (combine (seq k (length l)) l) -> (k <= i < k + length l)%nat /\ nth (i - k) l [] = n).
  { clear. induction l as [|x t IH]; intros k i n H; cbn in H; [destruct H|].
    destruct H as [H|H].
    - injection H as <- <-. split; [cbn; lia|]. now rewrite Nat.sub_diag.
    - apply IH in H as [H1 H2]. split; [cbn; lia|]. replace (i - k)%nat with (S (i - S k)) by lia. exact H2. }
  apply Hgen in H as [H1 H2]. rewrite Nat.sub_0_r in H2. split; [lia|exact H2].
Qed.
Lemma map_snd_combine_seq : forall (l : list (list Z)) k, map snd (combine (seq k (length l)) l) = l.
Proof. induction l as [|x t IH]; intros k; cbn; [reflexivity|]. now rewrite IH. Qed.

(** every sibling is the source of exactly one output *)
Lemma combine_stereo_partition_lemma :
  Permutation (concat (map snd (combine_stereo names))) (seq 0 (length names)).
Proof.
  pose proof (combine_loop_perm (combine (seq 0 (length names)) names) [] todo_enum_ok) as HP.
  rewrite map_snd_combine_seq in HP. specialize (HP Hnd).
  assert (Hc : closed []) by (intros n a []).
  specialize (HP Hc ltac:(intros n Hn Hnot; contradiction)).
  fold (combine_stereo names) in HP.
  rewrite (proj2 (filter_ext_in_iff (unmarked []) (fun _ => true) names) ltac:(reflexivity)) in HP.
  assert (Hall : filter (fun _ : list Z => true) names = names).
  { clear. induction names as [|x t IH]; cbn; [reflexivity|now rewrite IH]. }
  rewrite Hall in HP. unfold srcnames in HP.
  set (srcs := concat (map snd (combine_stereo names))) in *.
  assert (Hnds : NoDup srcs).
  { eapply NoDup_map_inv. eapply Permutation_NoDup; [symmetry; exact HP|exact Hnd]. }
  assert (Hlen : length srcs = length names).
  { apply Permutation_length in HP. now rewrite map_length in HP. }
  assert (Hincl : incl srcs (seq 0 (length names))).
  { intros i Hi. apply in_seq. split; [lia|]. cbn [plus].
    unfold srcs in Hi. apply in_concat in Hi as (src & Hsrc & Hi).
    apply in_map_iff in Hsrc as ([x s] & <- & Hout). cbn [snd] in Hi.
    destruct (combine_loop_shape _ _ _ _ todo_enum_ok Hout) as [(i0 & -> & Hi0 & _)|(i0 & j0 & st & sp & -> & Hi0 & Hj0 & _)].
    - destruct Hi as [<-|[]]. assumption.
    - destruct Hi as [<-|[<-|[]]]; assumption. }
  apply NoDup_Permutation_bis; auto. rewrite seq_length. lia.
Qed.

(** completeness: an L name and its R counterpart present in the directory ARE merged *)
Lemma combine_stereo_complete_lemma i j stem sep :
  (i < length names)%nat -> (j < length names)%nat ->
  nm names i = stem ++ sep ++ [76] -> nm names j = stem ++ sep ++ [82] ->
  sep <> [] -> Forall (fun c => is_sep c = true) sep ->
  (stem = [] \/ is_sep (last_char stem) = false) -> mem 10 stem = false ->
  In (stem, [i; j]) (combine_stereo names).
Proof.
  intros Hi Hj Hni Hnj Hsne Hsep Hstem Hnl.
  pose proof (stereo_match_build stem sep 76 ltac:(now left) Hsne Hsep Hstem Hnl) as SL.
  pose proof (stereo_match_build stem sep 82 ltac:(now right) Hsne Hsep Hstem Hnl) as SR.
  assert (HaltL : alt_of (nm names i) = Some (nm names j)).
  { unfold alt_of. rewrite Hni, SL. cbn. now rewrite Hnj. }
  assert (Hin : In i (concat (map snd (combine_stereo names)))).
  { eapply Permutation_in; [symmetry; apply combine_stereo_partition_lemma|]. apply in_seq. lia. }
  apply in_concat in Hin as (src & Hsrc & Hin).
  apply in_map_iff in Hsrc as ([x s] & <- & Hout). cbn [snd] in Hin.
  destruct (combine_loop_shape _ _ _ _ todo_enum_ok Hout)
    as [(i0 & -> & Hi0 & -> & Hno)|(i0 & j0 & st & sp & -> & Hi0 & Hj0 & -> & Hn0 & Hm0 & _ & _ & SM0)].
  - destruct Hin as [<-|[]]. exfalso. eapply Hno; [exact HaltL|]. apply nth_In. assumption.
  - destruct Hin as [<-|[<-|[]]].
    + rewrite Hni, SL in SM0. injection SM0 as <- <-.
      assert (j0 = j).
      { eapply (proj1 (NoDup_nth names []) Hnd); auto. fold (nm names j0) (nm names j). congruence. }
      subst j0. exact Hout.
    + exfalso. rewrite Hni in Hm0. apply (f_equal last_char) in Hm0.
      rewrite !app_assoc, !last_char_app in Hm0. discriminate.
Qed.
End Loop.

(** the export names handed out by the naming routine carry no trailing blank, so the
    hypotheses above hold of every directory the exporter builds *)
Lemma export_names_no_trail elems names :
  make_export_names elems = Ok names -> Forall no_trail names.
Proof.
  intros H. apply Forall_forall. intros x Hx.
  destruct (sanitize_names_shape _ _ _ H x Hx) as (e & He & [->|(k & Hk & ->)]).
  - destruct (export_name_safe_lemma (fst e) (snd e)) as (_ & _ & _ & H4 & _). exact H4.
  - destruct (add_count_from_body (make_export_name (fst e) (snd e)) k ltac:(lia) (export_name_body _ _))
      as (_ & _ & _ & H4 & _). exact H4.
Qed.
