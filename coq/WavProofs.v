(** Lemmas about coq/Wav.v (property C04). *)
From SE Require Import Base Codecs CodecsProofs Transcode TranscodeProofs Wav.
From Coq Require Import Floats.PrimFloat Floats.SpecFloat Floats.FloatOps.

(** * results *)
Lemma bind_ok {A B} (r : res A) (f : A -> res B) b :
  bind r f = Ok b -> exists a, r = Ok a /\ f a = Ok b.
Proof. destruct r; cbn; intros H; try discriminate. eauto. Qed.

(** * little-endian fields *)
Lemma le_bytes_length n z : length (le_bytes n z) = n.
Proof. revert z. induction n; intros; cbn; [reflexivity|]. now rewrite IHn. Qed.

Lemma le_val_le_bytes n z : 0 <= z < 256 ^ Z.of_nat n -> le_val (le_bytes n z) = z.
Proof.
  revert z. induction n; intros z Hz.
  - cbn in *. lia.
  - cbn [le_bytes le_val fold_right]. fold (le_val (le_bytes n (z / 256))).
    rewrite IHn.
    + pose proof (Z.div_mod z 256). lia.
    + rewrite Nat2Z.inj_succ, Z.pow_succ_r in Hz by lia.
      split; [apply Z.div_pos; lia|]. apply Z.div_lt_upper_bound; lia.
Qed.

Lemma build_uint_ok n z l :
  build_uint n z = Ok l -> length l = n /\ le_val l = z /\ 0 <= z < 256 ^ Z.of_nat n.
Proof.
  unfold build_uint. destruct ((0 <=? z) && (z <? 256 ^ Z.of_nat n)) eqn:E; intros H; [|discriminate].
  injection H as <-. assert (0 <= z < 256 ^ Z.of_nat n) by lia.
  split; [apply le_bytes_length|]. split; [now apply le_val_le_bytes|assumption].
Qed.
Lemma build_uint_fits n z : 0 <= z < 256 ^ Z.of_nat n -> build_uint n z = Ok (le_bytes n z).
Proof. intros H. unfold build_uint. destruct ((0 <=? z) && (z <? 256 ^ Z.of_nat n)) eqn:E; [reflexivity|lia]. Qed.
Lemma build_uint_err n z e : build_uint n z = Err e -> e = ConstructErr /\ ~ (0 <= z < 256 ^ Z.of_nat n).
Proof.
  unfold build_uint. destruct ((0 <=? z) && (z <? 256 ^ Z.of_nat n)) eqn:E; intros H; [discriminate|].
  injection H as <-. split; [reflexivity|lia].
Qed.
Lemma build_uint_nofuel n z : build_uint n z <> OutOfFuel.
Proof. unfold build_uint. destruct ((0 <=? z) && (z <? 256 ^ Z.of_nat n)); discriminate. Qed.

Lemma u32_ok z l : u32 z = Ok l -> length l = 4%nat /\ le_val l = z /\ 0 <= z < 4294967296.
Proof. intros H. apply build_uint_ok in H. exact H. Qed.
Lemma u16_ok z l : u16 z = Ok l -> length l = 2%nat /\ le_val l = z /\ 0 <= z < 65536.
Proof. intros H. apply build_uint_ok in H. exact H. Qed.
Lemma u32_fits z : 0 <= z < 4294967296 -> u32 z = Ok (le_bytes 4 z).
Proof. intros H. apply build_uint_fits. exact H. Qed.
Lemma u16_fits z : 0 <= z < 65536 -> u16 z = Ok (le_bytes 2 z).
Proof. intros H. apply build_uint_fits. exact H. Qed.

(** * reading fields back *)
Lemma zlen_app {A} (a b : list A) : zlen (a ++ b) = zlen a + zlen b.
Proof. unfold zlen. rewrite app_length. lia. Qed.
Lemma zlen_nonneg {A} (a : list A) : 0 <= zlen a.
Proof. unfold zlen. lia. Qed.

Lemma firstn_app_exact {A} (a r : list A) n : length a = n -> firstn n (a ++ r) = a.
Proof. intros <-. rewrite firstn_app, Nat.sub_diag, firstn_all. cbn. apply app_nil_r. Qed.
Lemma skipn_app_exact {A} (a r : list A) n : length a = n -> skipn n (a ++ r) = r.
Proof. intros <-. rewrite skipn_app, Nat.sub_diag, skipn_all. reflexivity. Qed.

Lemma u_at_skip w a r off : (length a <= off)%nat -> u_at w (a ++ r) off = u_at w r (off - length a).
Proof.
  intros H. unfold u_at. rewrite skipn_app. rewrite (skipn_all2 a) by lia. reflexivity.
Qed.
Lemma u_at_here w a r : length a = w -> u_at w (a ++ r) 0 = le_val a.
Proof. intros H. unfold u_at. cbn [skipn]. now rewrite firstn_app_exact. Qed.

Lemma list_eqb_refl a : list_eqb a a = true.
Proof. induction a; cbn; [reflexivity|]. rewrite Z.eqb_refl. exact IHa. Qed.
Lemma list_eqb_eq a b : list_eqb a b = true -> a = b.
Proof.
  revert b. induction a; destruct b; cbn; intros H; try discriminate; [reflexivity|].
  apply andb_prop in H. destruct H as [H1 H2]. apply Z.eqb_eq in H1. subst. f_equal. now apply IHa.
Qed.

(** * chunks: parsing what was built gives back the chunk list (any number of chunks) *)
Fixpoint chunks_size (cs : list (list Z * list Z)) : Z :=
  match cs with [] => 0 | c :: t => 8 + zlen (snd c) + chunks_size t end.

Lemma chunk_ok id body b :
  chunk id body = Ok b ->
  exists sz, b = id ++ sz ++ body /\ length sz = 4%nat /\ le_val sz = zlen body /\ zlen body < 4294967296.
Proof.
  unfold chunk, prefixed. intros H.
  apply bind_ok in H. destruct H as (p & Hp & H). injection H as <-.
  apply bind_ok in Hp. destruct Hp as (sz & Hsz & Hp). injection Hp as <-.
  apply u32_ok in Hsz. exists sz. intuition.
Qed.

Lemma chunks_parse_step f id sz body rest :
  length id = 4%nat -> length sz = 4%nat -> le_val sz = zlen body ->
  chunks_parse (S f) (id ++ sz ++ body ++ rest) =
  match chunks_parse f rest with Some cs => Some ((id, body) :: cs) | None => None end.
Proof.
  intros Hid Hsz Hv. cbn [chunks_parse].
  assert (Hlen : length (id ++ sz ++ body ++ rest) = (8 + length body + length rest)%nat).
  { rewrite !app_length. lia. }
  destruct (length (id ++ sz ++ body ++ rest) =? 0)%nat eqn:E0; [apply Nat.eqb_eq in E0; lia|].
  destruct (length (id ++ sz ++ body ++ rest) <? 8)%nat eqn:E8; [apply Nat.ltb_lt in E8; lia|].
  rewrite (u_at_skip 4 id) by lia. rewrite Hid. cbn [Nat.sub]. rewrite u_at_here by exact Hsz.
  replace (skipn 8 (id ++ sz ++ body ++ rest)) with (body ++ rest).
  2:{ rewrite app_assoc. symmetry. apply skipn_app_exact. rewrite app_length. lia. }
  rewrite Hv. destruct (zlen (body ++ rest) <? zlen body) eqn:El.
  { rewrite zlen_app in El. pose proof (zlen_nonneg rest). lia. }
  rewrite (firstn_app_exact id _ 4%nat Hid).
  unfold zlen. rewrite Nat2Z.id.
  rewrite (skipn_app_exact body rest (length body) eq_refl), (firstn_app_exact body rest (length body) eq_refl).
  reflexivity.
Qed.

Lemma chunks_parse_roundtrip cs : forall bs f,
  Forall (fun c => length (fst c) = 4%nat) cs ->
  build_chunks cs = Ok bs -> (length cs < f)%nat ->
  chunks_parse f bs = Some cs /\ zlen bs = chunks_size cs.
Proof.
  induction cs as [|c t IH]; intros bs f Hall Hb Hf.
  - cbn in Hb. injection Hb as <-. destruct f; [lia|]. cbn. split; reflexivity.
  - cbn [build_chunks] in Hb. apply bind_ok in Hb. destruct Hb as (a & Ha & Hb).
    apply bind_ok in Hb. destruct Hb as (r & Hr & Hb). injection Hb as <-.
    apply chunk_ok in Ha. destruct Ha as (sz & -> & Hsz & Hv & _).
    inversion Hall as [|? ? Hc Ht]; subst.
    destruct f; [cbn in Hf; lia|]. cbn [length] in Hf.
    destruct (IH r f Ht Hr ltac:(lia)) as [IH1 IH2].
    rewrite <- !app_assoc. rewrite chunks_parse_step by assumption. rewrite IH1.
    split; [destruct c; reflexivity|]. cbn [chunks_size]. rewrite !zlen_app, IH2.
    unfold zlen at 1 2. rewrite Hc, Hsz. lia.
Qed.

Lemma chunks_size_ge cs : Z.of_nat (length cs) <= chunks_size cs.
Proof.
  induction cs as [|c t IH]; cbn [chunks_size length]; [lia|].
  pose proof (zlen_nonneg (snd c)). lia.
Qed.

(** RiffStruct.build, read back *)
Lemma build_riff_parse cs b :
  Forall (fun c => length (fst c) = 4%nat) cs ->
  build_riff cs = Ok b ->
  riff_parse b = Some {| r_size := zlen b - 8; r_chunks := cs |}
  /\ zlen b = 12 + chunks_size cs /\ zlen b - 8 < 4294967296.
Proof.
  intros Hall H. unfold build_riff in H.
  apply bind_ok in H. destruct H as (body & Hbody & H).
  apply bind_ok in H. destruct H as (r & Hr & H). injection H as <-.
  unfold prefixed in Hr. apply bind_ok in Hr. destruct Hr as (sz & Hsz & Hr). injection Hr as <-.
  apply u32_ok in Hsz. destruct Hsz as (Hl & Hv & Hrange).
  destruct (chunks_parse_roundtrip cs body (S (length cs)) Hall Hbody ltac:(lia)) as [Hp Hs].
  assert (Hlen : zlen (id_RIFF ++ sz ++ id_WAVE ++ body) = 12 + zlen body).
  { unfold zlen, id_RIFF, id_WAVE. rewrite !app_length. cbn [length]. rewrite Hl. lia. }
  change (id_RIFF ++ sz ++ id_WAVE ++ body) with (id_RIFF ++ sz ++ id_WAVE ++ body) in Hlen.
  match goal with |- context [zlen ?x - 8 < _] => change x with (id_RIFF ++ sz ++ id_WAVE ++ body) end.
  split; [|split].
  - unfold riff_parse.
    replace (firstn 4 (id_RIFF ++ sz ++ id_WAVE ++ body)) with id_RIFF by reflexivity.
    replace (skipn 8 (id_RIFF ++ sz ++ id_WAVE ++ body)) with (id_WAVE ++ body).
    2:{ rewrite app_assoc. symmetry. apply skipn_app_exact. rewrite app_length, Hl. reflexivity. }
    replace (firstn 4 (id_WAVE ++ body)) with id_WAVE by reflexivity.
    rewrite !list_eqb_refl. cbn [andb].
    replace (skipn 12 (id_RIFF ++ sz ++ id_WAVE ++ body)) with body.
    2:{ rewrite 2 app_assoc. symmetry. apply skipn_app_exact. rewrite !app_length, Hl. reflexivity. }
    assert (Hmono : forall f1 f2 x y, chunks_parse f1 x = Some y -> (f1 <= f2)%nat -> chunks_parse f2 x = Some y).
    { induction f1; intros f2 x y Hx Hle; [discriminate|]. destruct f2; [lia|].
      cbn [chunks_parse] in *. destruct (length x =? 0)%nat; [exact Hx|].
      destruct (length x <? 8)%nat; [discriminate|].
      destruct (zlen (skipn 8 x) <? u_at 4 x 4); [discriminate|].
      destruct (chunks_parse f1 (skipn (Z.to_nat (u_at 4 x 4)) (skipn 8 x))) eqn:E; [|discriminate].
      rewrite (IHf1 f2 _ _ E) by lia. exact Hx. }
    rewrite (Hmono _ (S (length (id_RIFF ++ sz ++ id_WAVE ++ body))) _ _ Hp).
    2:{ pose proof (chunks_size_ge cs). unfold zlen in Hlen, Hs. lia. }
    f_equal. f_equal. rewrite (u_at_skip 4 id_RIFF) by (cbn; lia).
    cbn [length id_RIFF Nat.sub]. rewrite u_at_here by exact Hl. rewrite Hv, Hlen, zlen_app. change (zlen id_WAVE) with 4. lia.
  - rewrite Hlen, Hs. reflexivity.
  - rewrite Hlen. rewrite zlen_app in Hrange. change (zlen id_WAVE) with 4 in Hrange. lia.
Qed.

(** * field lists *)
Lemma concat_res_cons r t f :
  concat_res (r :: t) = Ok f -> exists a b, r = Ok a /\ concat_res t = Ok b /\ f = a ++ b.
Proof.
  cbn [concat_res]. intros H. apply bind_ok in H. destruct H as (a & Ha & H).
  apply bind_ok in H. destruct H as (b & Hb & H). injection H as <-. eauto.
Qed.
Lemma concat_res_nil f : concat_res [] = Ok f -> f = [].
Proof. cbn. intros H. now injection H as <-. Qed.

Ltac split_fields H :=
  repeat match type of H with
         | concat_res (_ :: _) = Ok _ =>
             let a := fresh "fld" in let b := fresh "rst" in let Ha := fresh "Hfld" in
             apply concat_res_cons in H; destruct H as (a & b & Ha & H & ->)
         | concat_res [] = Ok _ => apply concat_res_nil in H; subst
         end.
Ltac skipf Hl := rewrite u_at_skip by (rewrite Hl; lia); rewrite Hl; cbn [Nat.sub].
Ltac heref Hl := rewrite u_at_here by exact Hl.

Lemma fits_pow n z : fits n z <-> 0 <= z < 2 ^ n.
Proof. reflexivity. Qed.

Lemma build_fmt_ok d f :
  build_fmt d = Ok f ->
  zlen f = 16 /\ f_format f = 1 /\ f_channels f = d_channels d /\ f_rate f = d_rate d
  /\ f_byte_rate f = d_rate d * d_channels d * (8 * d_width d) / 8
  /\ f_block_align f = d_channels d * (8 * d_width d) / 8
  /\ f_bits f = 8 * d_width d /\ fmt_fits d.
Proof.
  unfold build_fmt. intros H. split_fields H.
  apply u16_ok in Hfld, Hfld0, Hfld3, Hfld4. apply u32_ok in Hfld1, Hfld2.
  destruct Hfld as (L0 & V0 & R0), Hfld0 as (L1 & V1 & R1), Hfld1 as (L2 & V2 & R2),
           Hfld2 as (L3 & V3 & R3), Hfld3 as (L4 & V4 & R4), Hfld4 as (L5 & V5 & R5).
  split. { unfold zlen. rewrite !app_length, L0, L1, L2, L3, L4, L5. reflexivity. }
  unfold f_format, f_channels, f_rate, f_byte_rate, f_block_align, f_bits.
  split. { heref L0. exact V0. }
  split. { skipf L0. heref L1. exact V1. }
  split. { skipf L0. skipf L1. heref L2. exact V2. }
  split. { skipf L0. skipf L1. skipf L2. heref L3. exact V3. }
  split. { skipf L0. skipf L1. skipf L2. skipf L3. heref L4. exact V4. }
  split. { skipf L0. skipf L1. skipf L2. skipf L3. skipf L4. heref L5. exact V5. }
  unfold fmt_fits, fits. change (2 ^ 16) with 65536. change (2 ^ 32) with 4294967296. intuition.
Qed.

Lemma build_fmt_fits d : fmt_fits d -> exists f, build_fmt d = Ok f.
Proof.
  unfold fmt_fits, fits. change (2 ^ 16) with 65536. change (2 ^ 32) with 4294967296.
  intros (H1 & H2 & H3 & H4 & H5). unfold build_fmt. cbn [concat_res].
  rewrite (u16_fits 1) by lia. rewrite (u16_fits _ H1), (u32_fits _ H2), (u32_fits _ H3), (u16_fits _ H4), (u16_fits _ H5).
  cbn [bind]. eauto.
Qed.

Lemma build_loop_ok h b : build_loop h = Ok b -> zlen b = 24 /\ hdr_fits h.
Proof.
  unfold build_loop. intros H. split_fields H.
  apply u32_ok in Hfld, Hfld0, Hfld1, Hfld2, Hfld3, Hfld4.
  destruct Hfld as (L0 & V0 & R0), Hfld0 as (L1 & V1 & R1), Hfld1 as (L2 & V2 & R2),
           Hfld2 as (L3 & V3 & R3), Hfld3 as (L4 & V4 & R4), Hfld4 as (L5 & V5 & R5).
  split. { unfold zlen. rewrite !app_length, L0, L1, L2, L3, L4, L5. reflexivity. }
  unfold hdr_fits, fits. change (2 ^ 32) with 4294967296. intuition.
Qed.
Lemma build_loop_fits h : hdr_fits h -> exists b, build_loop h = Ok b.
Proof.
  unfold hdr_fits, fits. change (2 ^ 32) with 4294967296.
  intros (H1 & H2 & H3 & H4 & H5 & H6). unfold build_loop. cbn [concat_res].
  rewrite (u32_fits _ H1), (u32_fits _ H2), (u32_fits _ H3), (u32_fits _ H4), (u32_fits _ H5), (u32_fits _ H6).
  cbn [bind]. eauto.
Qed.

Lemma build_loops_ok hs : forall b, build_loops hs = Ok b -> zlen b = 24 * zlen hs /\ Forall hdr_fits hs.
Proof.
  induction hs as [|h t IH]; intros b H.
  - cbn in H. injection H as <-. split; [reflexivity|constructor].
  - cbn [build_loops] in H. apply bind_ok in H. destruct H as (a & Ha & H).
    apply bind_ok in H. destruct H as (r & Hr & H). injection H as <-.
    apply build_loop_ok in Ha. destruct Ha as [La Fa]. destruct (IH _ Hr) as [Lr Fr].
    split; [|constructor; assumption]. rewrite zlen_app, La, Lr. unfold zlen. cbn [length]. lia.
Qed.
Lemma build_loops_fits hs : Forall hdr_fits hs -> exists b, build_loops hs = Ok b.
Proof.
  induction 1 as [|h t Hh Ht IH]; [cbn; eauto|].
  destruct (build_loop_fits h Hh) as [a Ha]. destruct IH as [r Hr].
  cbn [build_loops]. rewrite Ha, Hr. cbn [bind]. eauto.
Qed.

Lemma build_smpl_ok c s :
  build_smpl c = Ok s ->
  zlen s = 36 + 24 * zlen (s_loops c) /\ s_loop_cnt s = zlen (s_loops c) /\ s_sampler_data s = 0
  /\ smpl_fits c.
Proof.
  unfold build_smpl. intros H. apply bind_ok in H. destruct H as (hd & Hhd & H).
  apply bind_ok in H. destruct H as (ls & Hls & H). injection H as <-.
  apply build_loops_ok in Hls. destruct Hls as [Lls Fls].
  split_fields Hhd.
  apply u32_ok in Hfld, Hfld0, Hfld1, Hfld2, Hfld3, Hfld4, Hfld5, Hfld6, Hfld7.
  destruct Hfld as (L0 & V0 & R0), Hfld0 as (L1 & V1 & R1), Hfld1 as (L2 & V2 & R2),
           Hfld2 as (L3 & V3 & R3), Hfld3 as (L4 & V4 & R4), Hfld4 as (L5 & V5 & R5),
           Hfld5 as (L6 & V6 & R6), Hfld6 as (L7 & V7 & R7), Hfld7 as (L8 & V8 & R8).
  split. { rewrite zlen_app, Lls. unfold zlen. rewrite !app_length, L0, L1, L2, L3, L4, L5, L6, L7, L8. cbn [length]. lia. }
  unfold s_loop_cnt, s_sampler_data. rewrite <- !app_assoc.
  split. { skipf L0. skipf L1. skipf L2. skipf L3. skipf L4. skipf L5. skipf L6. heref L7. exact V7. }
  split. { skipf L0. skipf L1. skipf L2. skipf L3. skipf L4. skipf L5. skipf L6. skipf L7. heref L8. exact V8. }
  unfold smpl_fits, fits. change (2 ^ 32) with 4294967296. intuition.
Qed.
Lemma build_smpl_fits c : smpl_fits c -> exists s, build_smpl c = Ok s.
Proof.
  unfold smpl_fits, fits. change (2 ^ 32) with 4294967296.
  intros (H1 & H2 & H3 & H4 & H5). unfold build_smpl. cbn [concat_res].
  rewrite (u32_fits 0) by lia. rewrite (u32_fits _ H1), (u32_fits _ H2), (u32_fits _ H3), (u32_fits _ H4).
  cbn [bind]. destruct (build_loops_fits _ H5) as [b Hb]. rewrite Hb. cbn [bind]. eauto.
Qed.

(** * the chunk list of one sample *)
Lemma wav_chunks_ok d pcm cs :
  wav_chunks d pcm = Ok cs ->
  exists fmtb, build_fmt d = Ok fmtb /\
    ((requires_smpl d = false /\ cs = [(id_fmt, fmtb); (id_data, pcm)])
     \/ (requires_smpl d = true /\ exists c smb, smpl_chunk_data d = Ok c /\ build_smpl c = Ok smb
           /\ cs = [(id_fmt, fmtb); (id_smpl, smb); (id_data, pcm)])).
Proof.
  unfold wav_chunks. intros H. apply bind_ok in H. destruct H as (sm & Hsm & H).
  apply bind_ok in H. destruct H as (fmtb & Hf & H).
  apply bind_ok in H. destruct H as (smc & Hsmc & H). injection H as <-.
  exists fmtb. split; [exact Hf|].
  destruct (requires_smpl d) eqn:Er.
  - right. split; [reflexivity|]. apply bind_ok in Hsm. destruct Hsm as (c & Hc & Hsm). injection Hsm as <-.
    apply bind_ok in Hsmc. destruct Hsmc as (smb & Hsmb & Hsmc). injection Hsmc as <-.
    exists c, smb. repeat split; assumption.
  - left. injection Hsm as <-. injection Hsmc as <-. split; reflexivity.
Qed.

Lemma loop_headers_length rate ls : forall i hs, loop_headers rate i ls = Ok hs -> zlen hs <= zlen ls.
Proof.
  induction ls as [|l t IH]; intros i hs H.
  - cbn in H. injection H as <-. unfold zlen; cbn; lia.
  - cbn [loop_headers] in H. apply bind_ok in H. destruct H as (h & Hh & H).
    apply bind_ok in H. destruct H as (r & Hr & H). injection H as <-.
    specialize (IH _ _ Hr). unfold zlen in *. destruct h; cbn [length]; lia.
Qed.

Lemma smpl_chunk_data_ok d c :
  smpl_chunk_data d = Ok c ->
  zlen (s_loops c) <= zlen (d_loops d)
  /\ exists pn, normalized_pitch (match d_semi d with Some s => s | None => 0 end) (cents_or_0 (d_cents d)) = Ok pn
       /\ to_midi_byte (s_note c) = to_midi_byte (match d_note d with Some n => n | None => note_C4 end) + fst pn
       /\ s_fraction c = snd pn.
Proof.
  unfold smpl_chunk_data. intros H. apply bind_ok in H. destruct H as (hs & Hhs & H).
  apply bind_ok in H. destruct H as (pf & Hpf & H). apply bind_ok in H. destruct H as (pn & Hpn & H).
  apply bind_ok in H. destruct H as (per & Hper & H). injection H as <-. cbn [s_loops s_note s_fraction].
  split; [eapply loop_headers_length; exact Hhs|]. exists pn. split; [exact Hpn|]. split; [|reflexivity].
  apply midi_byte_roundtrip_lemma.
Qed.

(** * the main structure theorem *)
Lemma div8 x : x * 16 / 8 = x * 2.
Proof. replace (x * 16) with (x * 2 * 8) by lia. apply Z.div_mul. lia. Qed.

Lemma wav_wellformed_all_lemma :
  forall d pcm b,
    d_width d = 2 -> 1 <= d_channels d -> zlen pcm mod (2 * d_channels d) = 0 ->
    build_wav d pcm = Ok b ->
    wav_wellformed b /\
    exists v, wav_view_of b = Some v
      /\ v_data v = pcm /\ f_channels (v_fmt v) = d_channels d /\ f_rate (v_fmt v) = d_rate d
      /\ (requires_smpl d = false -> v_smpl v = None)
      /\ (requires_smpl d = true -> exists c s,
            smpl_chunk_data d = Ok c /\ v_smpl v = Some s
            /\ s_loop_cnt s = zlen (s_loops c) /\ zlen s = 36 + 24 * zlen (s_loops c)
            /\ zlen (s_loops c) <= zlen (d_loops d)).
Proof.
  intros d pcm b Hw Hch Hal H. unfold build_wav in H. apply bind_ok in H. destruct H as (cs & Hcs & H).
  apply wav_chunks_ok in Hcs. destruct Hcs as (fmtb & Hf & Hcs).
  apply build_fmt_ok in Hf. destruct Hf as (F1 & F2 & F3 & F4 & F5 & F6 & F7 & F8).
  rewrite Hw in F5, F6, F7. change (8 * 2) with 16 in F5, F6, F7. rewrite div8 in F5, F6.
  destruct Hcs as [(Er & ->) | (Er & c & smb & Hc & Hsmb & ->)].
  - apply build_riff_parse in H; [|repeat constructor].
    destruct H as (Hp & Hlen & _). cbn [chunks_size snd] in Hlen.
    set (v := {| v_riff_size := zlen b - 8; v_fmt := fmtb; v_smpl := None; v_data := pcm |}).
    assert (Hv : wav_view_of b = Some v).
    { unfold wav_view_of. rewrite Hp. cbn [r_chunks r_size]. rewrite !list_eqb_refl. reflexivity. }
    split.
    + exists v. split; [exact Hv|]. subst v. cbn [v_riff_size v_fmt v_smpl v_data].
      rewrite F1, F2, F3, F4, F5, F6, F7.
      replace (d_channels d * 2) with (2 * d_channels d) by lia.
      repeat split; try assumption; try lia; try discriminate.
    + exists v. split; [exact Hv|]. subst v. cbn [v_riff_size v_fmt v_smpl v_data].
      split; [reflexivity|]. split; [exact F3|]. split; [exact F4|]. split; [reflexivity|].
      intros Hr. rewrite Hr in Er. discriminate.
  - apply build_riff_parse in H; [|repeat constructor].
    destruct H as (Hp & Hlen & _). cbn [chunks_size snd] in Hlen.
    apply build_smpl_ok in Hsmb. destruct Hsmb as (S1 & S2 & S3 & S4).
    apply smpl_chunk_data_ok in Hc as Hc'. destruct Hc' as (Hk & _).
    set (v := {| v_riff_size := zlen b - 8; v_fmt := fmtb; v_smpl := Some smb; v_data := pcm |}).
    assert (Hv : wav_view_of b = Some v).
    { unfold wav_view_of. rewrite Hp. cbn [r_chunks r_size]. rewrite !list_eqb_refl. reflexivity. }
    split.
    + exists v. split; [exact Hv|]. subst v. cbn [v_riff_size v_fmt v_smpl v_data].
      rewrite F1, F2, F3, F4, F5, F6, F7.
      replace (d_channels d * 2) with (2 * d_channels d) by lia.
      pose proof (zlen_nonneg (s_loops c)).
      repeat split; try assumption; try lia;
        match goal with Hs : Some _ = Some _ |- _ => injection Hs as <- end; rewrite ?S2; lia.
    + exists v. split; [exact Hv|]. subst v. cbn [v_riff_size v_fmt v_smpl v_data].
      split; [reflexivity|]. split; [exact F3|]. split; [exact F4|].
      split; [intros Hr; rewrite Hr in Er; discriminate|].
      intros _. exists c, smb. repeat split; assumption.
Qed.

(** * when the build succeeds *)
Lemma chunks_size_nonneg cs : 0 <= chunks_size cs.
Proof. pose proof (chunks_size_ge cs). lia. Qed.

Lemma build_chunks_fits cs :
  chunks_size cs < 4294967296 -> exists bs, build_chunks cs = Ok bs.
Proof.
  induction cs as [|c t IH]; intros H; [cbn; eauto|].
  cbn [chunks_size] in H. pose proof (chunks_size_nonneg t). pose proof (zlen_nonneg (snd c)).
  destruct IH as [r Hr]; [lia|].
  cbn [build_chunks]. unfold chunk, prefixed. rewrite u32_fits by lia. cbn [bind]. rewrite Hr. cbn [bind]. eauto.
Qed.

Lemma build_riff_fits cs :
  Forall (fun c => length (fst c) = 4%nat) cs ->
  4 + chunks_size cs < 4294967296 -> exists b, build_riff cs = Ok b.
Proof.
  intros Hall H. destruct (build_chunks_fits cs) as [bs Hbs]; [lia|].
  destruct (chunks_parse_roundtrip cs bs (S (length cs)) Hall Hbs ltac:(lia)) as [_ Hs].
  unfold build_riff, prefixed. rewrite Hbs. cbn [bind]. rewrite u32_fits.
  - cbn [bind]. eauto.
  - rewrite zlen_app. change (zlen id_WAVE) with 4. pose proof (chunks_size_nonneg cs). lia.
Qed.

Lemma build_succeeds_iff_lemma :
  forall d pcm,
    (exists b, build_wav d pcm = Ok b) <->
    fmt_fits d /\
    (if requires_smpl d
     then exists c, smpl_chunk_data d = Ok c /\ smpl_fits c
                    /\ riff_body_size (Some (zlen (s_loops c))) (zlen pcm) < 2 ^ 32
     else riff_body_size None (zlen pcm) < 2 ^ 32).
Proof.
  intros d pcm. change (2 ^ 32) with 4294967296. unfold riff_body_size. split.
  - intros [b H]. unfold build_wav in H. apply bind_ok in H. destruct H as (cs & Hcs & H).
    apply wav_chunks_ok in Hcs. destruct Hcs as (fmtb & Hf & Hcs).
    apply build_fmt_ok in Hf. destruct Hf as (F1 & _ & _ & _ & _ & _ & _ & F8).
    split; [exact F8|].
    destruct Hcs as [(Er & ->) | (Er & c & smb & Hc & Hsmb & ->)]; rewrite Er.
    + apply build_riff_parse in H; [|repeat constructor]. destruct H as (_ & Hlen & Hr).
      cbn [chunks_size snd] in Hlen. lia.
    + apply build_riff_parse in H; [|repeat constructor]. destruct H as (_ & Hlen & Hr).
      cbn [chunks_size snd] in Hlen. apply build_smpl_ok in Hsmb. destruct Hsmb as (S1 & _ & _ & S4).
      exists c. split; [exact Hc|]. split; [exact S4|]. lia.
  - intros [Hf Hs]. destruct (build_fmt_fits d Hf) as [fmtb Hfmt].
    pose proof (build_fmt_ok _ _ Hfmt) as (F1 & _).
    unfold build_wav, wav_chunks. destruct (requires_smpl d).
    + destruct Hs as (c & Hc & Hfit & Hsz). destruct (build_smpl_fits c Hfit) as [smb Hsmb].
      pose proof (build_smpl_ok _ _ Hsmb) as (S1 & _).
      rewrite Hc. cbn [bind]. rewrite Hfmt. cbn [bind]. rewrite Hsmb. cbn [bind app].
      apply build_riff_fits; [repeat constructor|]. cbn [chunks_size snd]. lia.
    + cbn [bind]. rewrite Hfmt. cbn [bind app].
      apply build_riff_fits; [repeat constructor|]. cbn [chunks_size snd]. lia.
Qed.

(** * the transcoder hands over whole frames (for any streams, lengths and block size) *)
Definition src_ok (dw : Z) (s : src) : Prop := swidth s = dw /\ 1 <= schans s.
Definition flen (s : src) : nat := (Z.to_nat (nchan s) * Z.to_nat (swidth s))%nat.

Lemma pieces_all_len fuel n : forall l, Forall (fun p => length p = n) (pieces fuel n l).
Proof.
  induction fuel as [|f IH]; intros l; cbn [pieces]; [constructor|].
  destruct ((length l <? n)%nat || (n =? 0)%nat) eqn:E; [constructor|].
  apply orb_false_elim in E. destruct E as [E1 E2]. apply Nat.ltb_ge in E1.
  constructor; [|apply IH]. rewrite firstn_length. lia.
Qed.

Lemma pieces_concat n k : forall fuel l,
  (0 < n)%nat -> length l = (k * n)%nat -> (length l <= fuel)%nat -> concat (pieces fuel n l) = l.
Proof.
  induction k as [|k IH]; intros fuel l Hn Hl Hf.
  - cbn in Hl. destruct l; [|discriminate]. destruct fuel; cbn [pieces]; [reflexivity|].
    cbn [length]. destruct n; [lia|]. reflexivity.
  - destruct fuel as [|f]; [cbn in Hl; lia|]. cbn [pieces].
    destruct ((length l <? n)%nat || (n =? 0)%nat) eqn:E.
    { apply orb_true_iff in E. destruct E as [E|E]; [apply Nat.ltb_lt in E|apply Nat.eqb_eq in E]; cbn in Hl; lia. }
    cbn [concat]. rewrite (IH f (skipn n l)); [apply firstn_skipn|exact Hn| |].
    + rewrite skipn_length, Hl. cbn. lia.
    + rewrite skipn_length. lia.
Qed.

Lemma length_concat_le_sample s ps : length (concat (map (le_sample s) ps)) = length (concat ps).
Proof.
  induction ps as [|p t IH]; [reflexivity|]. cbn [map concat]. rewrite !app_length, IH. f_equal.
  unfold le_sample. destruct (sbig s); [apply rev_length|reflexivity].
Qed.

Lemma nchan_ok dw s : src_ok dw s -> nchan s = schans s.
Proof. intros [_ H]. unfold nchan. lia. Qed.

Lemma decode_block_frames dw s buf :
  1 <= dw -> src_ok dw s ->
  Forall (fun chans => length (concat chans) = flen s) (decode_block s buf).
Proof.
  intros Hdw Hs. pose proof (nchan_ok _ _ Hs) as Hn. destruct Hs as [Hw Hc].
  unfold decode_block. apply Forall_forall. intros chans Hin.
  apply in_map_iff in Hin. destruct Hin as (fr & <- & Hfr).
  unfold frames_of in Hfr.
  pose proof (pieces_all_len (length (resize_buffer buf (frame_size s))) (Z.to_nat (frame_size s))
                             (resize_buffer buf (frame_size s))) as Hall.
  rewrite Forall_forall in Hall. specialize (Hall _ Hfr).
  rewrite length_concat_le_sample. unfold samples_of.
  assert (Hfs : Z.to_nat (frame_size s) = (Z.to_nat (schans s) * Z.to_nat (swidth s))%nat).
  { unfold frame_size. apply Z2Nat.inj_mul; lia. }
  rewrite (pieces_concat (Z.to_nat (swidth s)) (Z.to_nat (schans s))); [|lia|lia|lia].
  unfold flen. rewrite Hn. lia.
Qed.

Lemma length_concat_repeat {A} (x : list A) n : length (concat (repeat x n)) = (n * length x)%nat.
Proof. induction n; cbn [repeat concat]; [reflexivity|]. rewrite app_length, IHn. cbn. reflexivity. Qed.

Lemma length_concat_const {A B} (g : A -> list B) c l :
  (forall a, length (g a) = c) -> length (concat (map g l)) = (length l * c)%nat.
Proof. intros H. induction l; cbn [map concat length]; [reflexivity|]. rewrite app_length, H, IHl. cbn. reflexivity. Qed.

Definition good_pair (sb : src * list (list (list Z))) : Prop :=
  Forall (fun chans => length (concat chans) = flen (fst sb)) (snd sb).

Lemma out_frame_length pairs f :
  Forall good_pair pairs ->
  length (concat (map (fun sb : src * list (list (list Z)) =>
                         match nth_error (snd sb) f with
                         | Some chans => concat chans
                         | None => concat (repeat (zero_sample (swidth (fst sb))) (Z.to_nat (nchan (fst sb))))
                         end) pairs))
  = list_sum (map (fun sb => flen (fst sb)) pairs).
Proof.
  induction 1 as [|sb t Hsb Ht IH]; [reflexivity|].
  cbn [map concat]. rewrite app_length, IH. cbn [list_sum fold_right]. f_equal.
  destruct (nth_error (snd sb) f) as [chans|] eqn:E.
  - apply nth_error_In in E. unfold good_pair in Hsb. rewrite Forall_forall in Hsb. apply Hsb. exact E.
  - rewrite length_concat_repeat. unfold zero_sample. rewrite repeat_length. reflexivity.
Qed.

Lemma good_pairs dw ss : forall bufs,
  1 <= dw -> Forall (src_ok dw) ss ->
  Forall good_pair (combine ss (map (fun sb => decode_block (fst sb) (snd sb)) (combine ss bufs))).
Proof.
  induction ss as [|s t IH]; intros bufs Hdw Hall; [constructor|].
  destruct bufs as [|b bt]; [constructor|]. inversion Hall; subst.
  cbn [combine map fst snd]. constructor; [|apply IH; assumption].
  unfold good_pair. cbn [fst snd]. eapply decode_block_frames; eassumption.
Qed.

Lemma map_fst_combine_eq {A B} (l : list A) : forall (l' : list B),
  length l = length l' -> map fst (combine l l') = l.
Proof.
  induction l as [|a t IH]; intros l' H; [reflexivity|]. destruct l'; [discriminate|].
  cbn [combine map fst]. f_equal. apply IH. cbn in H. lia.
Qed.

Lemma encode_block_length dw ss bufs :
  1 <= dw -> Forall (src_ok dw) ss -> length bufs = length ss ->
  exists n, length (encode_block ss (map (fun sb => decode_block (fst sb) (snd sb)) (combine ss bufs)))
            = (n * list_sum (map flen ss))%nat.
Proof.
  intros Hdw Hall Hlen. unfold encode_block.
  set (blocks := map (fun sb => decode_block (fst sb) (snd sb)) (combine ss bufs)).
  exists (list_max_nat (map (@length _) blocks)).
  rewrite (length_concat_const _ (list_sum (map flen ss))).
  - rewrite seq_length. reflexivity.
  - intros f. unfold out_frame. rewrite out_frame_length by (eapply good_pairs; eassumption).
    rewrite <- (map_map fst flen). rewrite map_fst_combine_eq; [reflexivity|].
    unfold blocks. rewrite map_length, combine_length. lia.
Qed.

Lemma pipeline_whole_frames dw ss sizes : forall fuel rests acc out,
  1 <= dw -> Forall (src_ok dw) ss -> length sizes = length ss -> length rests = length ss ->
  (Z.of_nat (list_sum (map flen ss)) | zlen acc) ->
  pipeline fuel ss sizes rests acc = Ok out ->
  (Z.of_nat (list_sum (map flen ss)) | zlen out).
Proof.
  induction fuel as [|f IH]; intros rests acc out Hdw Hall Hsz Hr Hacc H; [discriminate|].
  cbn [pipeline] in H.
  set (bufs := map (fun rs => firstn (Z.to_nat (snd rs)) (fst rs)) (combine rests sizes)) in H.
  destruct (existsb _ _) in H; [injection H as <-; exact Hacc|].
  eapply IH in H; try eassumption.
  - rewrite map_length, combine_length. lia.
  - destruct (encode_block_length dw ss bufs Hdw Hall) as [n Hn].
    { unfold bufs. rewrite map_length, combine_length. lia. }
    rewrite zlen_app. apply Z.divide_add_r; [exact Hacc|].
    unfold zlen. rewrite Hn. rewrite Nat2Z.inj_mul. apply Z.divide_factor_r.
Qed.

Lemma resize_divides buf fs : 0 < fs -> (fs | zlen (resize_buffer buf fs)).
Proof.
  intros H. unfold resize_buffer. destruct (zlen buf mod fs =? 0) eqn:E.
  - apply Z.mod_divide; lia.
  - unfold zlen at 1. rewrite firstn_length.
    pose proof (Z.mul_div_le (zlen buf) fs H). pose proof (zlen_nonneg buf).
    assert (0 <= zlen buf / fs) by (apply Z.div_pos; lia).
    replace (Z.of_nat (Nat.min (Z.to_nat (zlen buf / fs * fs)) (length buf))) with (zlen buf / fs * fs).
    + apply Z.divide_factor_r.
    + unfold zlen in *. lia.
Qed.

Lemma passthrough_whole_frames s size : forall fuel rest acc out,
  0 < frame_size s -> (frame_size s | zlen acc) ->
  passthrough fuel s size rest acc = Ok out -> (frame_size s | zlen out).
Proof.
  induction fuel as [|f IH]; intros rest acc out Hfs Hacc H; [discriminate|].
  cbn [passthrough] in H.
  pose proof (resize_divides (firstn (Z.to_nat size) rest) (frame_size s) Hfs) as Hd.
  destruct (resize_buffer (firstn (Z.to_nat size) rest) (frame_size s)) as [|x buf] eqn:E.
  - injection H as <-. exact Hacc.
  - eapply IH in H; [exact H|exact Hfs|]. rewrite zlen_app. apply Z.divide_add_r; assumption.
Qed.

Lemma flen_sum dw ss :
  0 <= dw -> Forall (src_ok dw) ss ->
  Z.of_nat (list_sum (map flen ss)) = dw * fold_right (fun s a => nchan s + a) 0 ss.
Proof.
  intros Hdw. induction 1 as [|s t Hs Ht IH]; [cbn; lia|].
  cbn [map]. change (list_sum (flen s :: map flen t)) with (flen s + list_sum (map flen t))%nat.
  cbn [fold_right]. rewrite Nat2Z.inj_add, IH. unfold flen.
  pose proof (nchan_ok _ _ Hs) as Hn. destruct Hs as [Hw Hc]. rewrite Nat2Z.inj_mul, !Z2Nat.id by lia. lia.
Qed.

Lemma transcode_whole_frames_lemma :
  forall target ss dw dc pcm,
    1 <= dw -> Forall (fun s => swidth s = dw /\ 1 <= schans s) ss ->
    transcode target ss dw dc = Ok pcm ->
    1 <= dc /\ zlen pcm mod (dw * dc) = 0.
Proof.
  intros target ss dw dc pcm Hdw Hall H.
  change (Forall (src_ok dw) ss) in Hall.
  unfold transcode in H. destruct ss as [|s0 rest]; [discriminate|].
  destruct (negb (fold_right (fun s a => nchan s + a) 0 (s0 :: rest) =? dc)) eqn:Esum; [discriminate|].
  apply negb_false_iff, Z.eqb_eq in Esum.
  pose proof (flen_sum dw (s0 :: rest) ltac:(lia) Hall) as HF. rewrite Esum in HF.
  assert (Hdc : 1 <= dc).
  { rewrite <- Esum. cbn [fold_right]. inversion Hall as [|? ? Hs0 Hrest]; subst.
    rewrite (nchan_ok _ _ Hs0). destruct Hs0 as [_ Hc].
    assert (0 <= fold_right (fun s a => nchan s + a) 0 rest).
    { clear. induction rest; cbn [fold_right]; [lia|]. unfold nchan at 1. lia. }
    lia. }
  split; [exact Hdc|]. apply Z.mod_divide; [lia|]. rewrite <- HF.
  assert (Hpipe : forall fuel out,
             pipeline fuel (s0 :: rest) (buffer_sizes target (s0 :: rest)) (map sbytes (s0 :: rest)) [] = Ok out ->
             (Z.of_nat (list_sum (map flen (s0 :: rest))) | zlen out)).
  { intros fuel out Hp. eapply (pipeline_whole_frames dw) in Hp; [exact Hp|exact Hdw|exact Hall| | |].
    - unfold buffer_sizes. now rewrite map_length.
    - now rewrite map_length.
    - apply Z.divide_0_r. }
  destruct rest as [|s1 rest'].
  - destruct (enc_eq_dest s0 dw dc); [|eapply Hpipe; exact H].
    inversion Hall as [|? ? Hs0 _]; subst.
    assert (Hfs : frame_size s0 = Z.of_nat (list_sum (map flen [s0]))).
    { cbn [map list_sum]. unfold flen, frame_size. rewrite (nchan_ok _ _ Hs0). destruct Hs0 as [Hw Hc].
      cbn [list_sum fold_right]. rewrite Nat.add_0_r, Nat2Z.inj_mul, !Z2Nat.id by lia. reflexivity. }
    rewrite <- Hfs. eapply passthrough_whole_frames; [| |exact H].
    + rewrite Hfs, HF. lia.
    + apply Z.divide_0_r.
  - eapply Hpipe; exact H.
Qed.

(** * export_wav = transcoder + builder *)
Lemma export_wav_wellformed_lemma :
  forall target d ss b,
    Forall (fun s => swidth s = 2 /\ 1 <= schans s) ss ->
    export_wav target d ss = Ok b ->
    wav_wellformed b /\
    exists v pcm, wav_view_of b = Some v /\ transcode target ss 2 (d_channels d) = Ok pcm
      /\ v_data v = pcm /\ zlen pcm mod (2 * d_channels d) = 0
      /\ f_channels (v_fmt v) = d_channels d /\ f_rate (v_fmt v) = d_rate d.
Proof.
  intros target d ss b Hall H. unfold export_wav in H. destruct ss as [|s0 rest]; [discriminate|].
  inversion Hall as [|? ? [Hw0 Hc0] Hrest]; subst.
  apply bind_ok in H. destruct H as (_ & _ & H).
  apply bind_ok in H. destruct H as (pcm & Hpcm & H). rewrite Hw0 in *.
  destruct (transcode_whole_frames_lemma target (s0 :: rest) 2 (d_channels d) pcm ltac:(lia) Hall Hpcm) as [Hdc Hmod].
  eapply wav_wellformed_all_lemma in H; [|reflexivity|exact Hdc|exact Hmod].
  destruct H as (Hwf & v & Hv & Hd & Hch & Hr & _). split; [exact Hwf|].
  exists v, pcm. cbn [d_channels d_rate] in Hch, Hr. repeat split; assumption.
Qed.

(** * the executable check is the predicate *)
Lemma wav_check_iff b : wav_check b = true <-> wav_wellformed b.
Proof.
  unfold wav_check, wav_wellformed. split.
  - destruct (wav_view_of b) as [v|]; [|discriminate]. intros H. exists v. split; [reflexivity|].
    repeat (apply andb_prop in H; destruct H as [H ?]).
    repeat split; try lia.
    + destruct (v_smpl v); [|discriminate]. injection H9 as <-. lia.
    + destruct (v_smpl v); [|discriminate]. injection H9 as <-. lia.
  - intros (v & -> & H1 & H2 & H3 & H4 & H5 & H6 & H7 & H8 & H9 & H10).
    repeat (apply andb_true_intro; split); try lia.
    destruct (v_smpl v) as [s|]; [|reflexivity]. destruct (H10 s eq_refl). lia.
Qed.

(** * which exceptions, and termination *)
Definition arith_res {A} (r : res A) : Prop :=
  match r with Ok _ => True | Err e => e = ValueErr \/ e = OverflowErr | OutOfFuel => False end.
Definition build_res {A} (r : res A) : Prop :=
  match r with Ok _ => True | Err e => e = ConstructErr | OutOfFuel => False end.
Lemma arith_bind {A B} (r : res A) (f : A -> res B) :
  arith_res r -> (forall a, arith_res (f a)) -> arith_res (bind r f).
Proof. destruct r; cbn; auto. Qed.
Lemma build_bind {A B} (r : res A) (f : A -> res B) :
  build_res r -> (forall a, build_res (f a)) -> build_res (bind r f).
Proof. destruct r; cbn; auto. Qed.

Lemma py_round_arith f : arith_res (py_round_res f).
Proof. unfold py_round_res. destruct (Prim2SF f); cbn; auto. Qed.
Lemma float_of_int_arith z : arith_res (float_of_int z).
Proof. unfold float_of_int. destruct (is_inf (Zfloat z)); cbn; auto. Qed.
Lemma int_true_div_arith a b : arith_res (int_true_div a b).
Proof.
  unfold int_true_div. destruct (b =? 0); [cbn; auto|]. destruct (a =? 0); [cbn; auto|].
  destruct (SFdiv_core_binary prec emax (Z.abs a) 0 (Z.abs b) 0) as [[q e] l].
  destruct (binary_round_aux prec emax (xorb (a <? 0) (b <? 0)) q e l); cbn; auto.
Qed.
Lemma pynum_div_arith p y : arith_res (pynum_div_float p y).
Proof.
  destruct p; cbn [pynum_div_float]; [|exact I].
  apply arith_bind; [apply float_of_int_arith|intros; exact I].
Qed.
Lemma loop_header_arith rate i l : arith_res (loop_header rate i l).
Proof.
  unfold loop_header. destruct (l_play l); [exact I|]. destruct (l_forever l); [exact I|].
  destruct (l_dur l); [|exact I].
  apply arith_bind; [apply int_true_div_arith|]. intros tot.
  destruct (PrimFloat.eqb tot 0); [exact I|].
  apply arith_bind; [apply pynum_div_arith|]. intros q.
  apply arith_bind; [apply py_round_arith|]. intros pc. exact I.
Qed.
Lemma loop_headers_arith rate ls : forall i, arith_res (loop_headers rate i ls).
Proof.
  induction ls as [|l t IH]; intros i; [exact I|]. cbn [loop_headers].
  apply arith_bind; [apply loop_header_arith|]. intros h.
  apply arith_bind; [apply IH|]. intros hs. exact I.
Qed.
Lemma normalized_pitch_arith semi cents : arith_res (normalized_pitch semi cents).
Proof.
  unfold normalized_pitch. destruct cents.
  - apply arith_bind; [apply py_round_arith|intros; exact I].
  - apply arith_bind; [apply float_of_int_arith|]. intros s50.
    destruct (py_float_divmod_pos (s50 + f) (Zfloat 100)) as [fd md].
    apply arith_bind; [apply py_round_arith|]. intros no.
    apply arith_bind; [apply py_round_arith|]. intros n. exact I.
Qed.
Lemma smpl_chunk_data_arith d : arith_res (smpl_chunk_data d).
Proof.
  unfold smpl_chunk_data.
  apply arith_bind; [apply loop_headers_arith|]. intros hs.
  apply arith_bind; [apply int_true_div_arith|]. intros pf.
  apply arith_bind; [apply normalized_pitch_arith|]. intros pn.
  apply arith_bind; [apply py_round_arith|]. intros per. exact I.
Qed.

Lemma build_uint_build n z : build_res (build_uint n z).
Proof. unfold build_uint. destruct ((0 <=? z) && (z <? 256 ^ Z.of_nat n)); cbn; auto. Qed.
Lemma concat_res_build l : Forall build_res l -> build_res (concat_res l).
Proof.
  induction 1 as [|r t Hr Ht IH]; [exact I|]. cbn [concat_res].
  apply build_bind; [exact Hr|]. intros a. apply build_bind; [exact IH|]. intros b. exact I.
Qed.
Lemma build_fmt_build d : build_res (build_fmt d).
Proof. unfold build_fmt. apply concat_res_build. repeat constructor; apply build_uint_build. Qed.
Lemma build_loops_build hs : build_res (build_loops hs).
Proof.
  induction hs as [|h t IH]; [exact I|]. cbn [build_loops].
  apply build_bind; [|intros a; apply build_bind; [exact IH|intros; exact I]].
  unfold build_loop. apply concat_res_build. repeat constructor; apply build_uint_build.
Qed.
Lemma build_smpl_build c : build_res (build_smpl c).
Proof.
  unfold build_smpl. apply build_bind.
  - apply concat_res_build. repeat constructor; apply build_uint_build.
  - intros hd. apply build_bind; [apply build_loops_build|intros; exact I].
Qed.
Lemma chunk_build id body : build_res (chunk id body).
Proof.
  unfold chunk, prefixed. apply build_bind; [|intros; exact I].
  apply build_bind; [apply build_uint_build|intros; exact I].
Qed.
Lemma build_riff_build cs : build_res (build_riff cs).
Proof.
  unfold build_riff. apply build_bind.
  - induction cs as [|c t IH]; [exact I|]. cbn [build_chunks].
    apply build_bind; [apply chunk_build|]. intros a. apply build_bind; [exact IH|intros; exact I].
  - intros body. apply build_bind; [|intros; exact I]. unfold prefixed.
    apply build_bind; [apply build_uint_build|intros; exact I].
Qed.

Lemma build_wav_errors_lemma :
  forall d pcm,
    build_wav d pcm <> OutOfFuel /\
    forall e, build_wav d pcm = Err e ->
      e = ConstructErr
      \/ (requires_smpl d = true /\ smpl_chunk_data d = Err e /\ (e = ValueErr \/ e = OverflowErr)).
Proof.
  intros d pcm. unfold build_wav, wav_chunks.
  pose proof (smpl_chunk_data_arith d) as Hs. pose proof (build_fmt_build d) as Hf.
  destruct (requires_smpl d).
  - destruct (smpl_chunk_data d) as [c| e0 |]; cbn [bind]; [| |contradiction].
    + destruct (build_fmt d) as [f|e1|]; cbn [bind]; [| |contradiction].
      * pose proof (build_smpl_build c) as Hb. destruct (build_smpl c) as [sb|e2|]; cbn [bind]; [| |contradiction].
        -- pose proof (build_riff_build ([(id_fmt, f)] ++ [(id_smpl, sb)] ++ [(id_data, pcm)])) as Hr.
           destruct (build_riff _) as [x|e3|]; [| |contradiction].
           ++ split; [discriminate|intros e H; discriminate].
           ++ split; [discriminate|]. intros e H. injection H as <-. left. exact Hr.
        -- split; [discriminate|]. intros e H. injection H as <-. left. exact Hb.
      * split; [discriminate|]. intros e H. injection H as <-. left. exact Hf.
    + split; [discriminate|]. intros e H. injection H as <-. right. repeat split; auto.
  - cbn [bind]. destruct (build_fmt d) as [f|e1|]; cbn [bind]; [| |contradiction].
    + pose proof (build_riff_build ([(id_fmt, f)] ++ [] ++ [(id_data, pcm)])) as Hr.
      destruct (build_riff _) as [x|e3|]; [| |contradiction].
      * split; [discriminate|intros e H; discriminate].
      * split; [discriminate|]. intros e H. injection H as <-. left. exact Hr.
    + split; [discriminate|]. intros e H. injection H as <-. left. exact Hf.
Qed.

(** * the pitch fields *)
(** integer tuning: the fraction of every remainder 0..99 fits 32 bits (finite domain) *)
Definition int_fraction_ok (r : Z) : bool :=
  match py_round_res (Zfloat r * CENTS_DIV)%float with
  | Ok n => (0 <=? n) && (n <? 4294967296)
  | _ => false
  end.
Lemma int_fraction_all : forallb int_fraction_ok (map Z.of_nat (seq 0 100)) = true.
Proof. vm_compute. reflexivity. Qed.

Lemma normalized_pitch_int_lemma semi c :
  exists n, normalized_pitch semi (PInt c) = Ok ((50 * semi + c) / 100, n) /\ fits 32 n.
Proof.
  pose proof int_fraction_all as H. rewrite forallb_forall in H.
  specialize (H ((50 * semi + c) mod 100)).
  assert (Hin : In ((50 * semi + c) mod 100) (map Z.of_nat (seq 0 100))).
  { pose proof (Z.mod_pos_bound (50 * semi + c) 100 ltac:(lia)).
    apply in_map_iff. exists (Z.to_nat ((50 * semi + c) mod 100)). split; [lia|]. apply in_seq. lia. }
  specialize (H Hin). unfold int_fraction_ok in H. cbn [normalized_pitch].
  destruct (py_round_res _) as [n| |]; try discriminate.
  exists n. split; [reflexivity|]. unfold fits. change (2 ^ 32) with 4294967296. lia.
Qed.

(** AKAI tuning bytes: all 256 x 256 (semitone, cents) pairs (finite domain = whole domain) *)
Definition akai_pitch_ok (semi cb : Z) : bool :=
  match normalized_pitch semi (cents_or_0 (Some (parse_tune_cents cb))) with
  | Ok (no, n) => (0 <=? n) && (n <? 4294967296) && (-65 <=? no) && (no <=? 64)
  | _ => false
  end.
Lemma akai_pitch_all :
  forallb (fun s => forallb (akai_pitch_ok s) CodecsProofs.sbytes) CodecsProofs.sbytes = true.
Proof. vm_compute. reflexivity. Qed.

Lemma in_sbytes x : -128 <= x <= 127 -> In x CodecsProofs.sbytes.
Proof.
  intros H. unfold CodecsProofs.sbytes. apply in_map_iff. exists (Z.to_nat (x + 128)). split; [lia|].
  apply in_seq. lia.
Qed.

Lemma akai_pitch_lemma semi cb :
  -128 <= semi <= 127 -> -128 <= cb <= 127 ->
  exists no n, normalized_pitch semi (cents_or_0 (Some (parse_tune_cents cb))) = Ok (no, n)
               /\ -65 <= no <= 64 /\ fits 32 n.
Proof.
  intros Hs Hc. pose proof akai_pitch_all as H. rewrite forallb_forall in H.
  specialize (H semi (in_sbytes _ Hs)). rewrite forallb_forall in H. specialize (H cb (in_sbytes _ Hc)).
  unfold akai_pitch_ok in H. destruct (normalized_pitch _ _) as [[no n]| |]; try discriminate.
  exists no, n. split; [reflexivity|]. unfold fits. change (2 ^ 32) with 4294967296. lia.
Qed.

Lemma akai_unity_note_lemma :
  forall d nb semi cb c,
    -128 <= semi <= 127 -> -128 <= cb <= 127 ->
    d_note d = Some (from_akai_byte nb) -> d_semi d = Some semi -> d_cents d = Some (parse_tune_cents cb) ->
    smpl_chunk_data d = Ok c ->
    exists no, -65 <= no <= 64 /\ to_midi_byte (s_note c) = nb + no /\ fits 32 (s_fraction c).
Proof.
  intros d nb semi cb c Hs Hc Hn Hsemi Hcents H.
  apply smpl_chunk_data_ok in H. destruct H as (_ & pn & Hpn & Hnote & Hfr).
  rewrite Hsemi, Hcents in Hpn. rewrite Hn in Hnote.
  destruct (akai_pitch_lemma semi cb Hs Hc) as (no & n & Hp & Hno & Hfit).
  rewrite Hp in Hpn. injection Hpn as <-. cbn [fst snd] in *.
  exists no. split; [exact Hno|]. split; [|rewrite Hfr; exact Hfit].
  rewrite Hnote. f_equal. apply akai_byte_roundtrip_lemma.
Qed.

Lemma int_tuning_unity_note_lemma :
  forall d c cc,
    cents_or_0 (d_cents d) = PInt cc -> smpl_chunk_data d = Ok c ->
    to_midi_byte (s_note c)
    = to_midi_byte (match d_note d with Some n => n | None => note_C4 end)
      + (50 * (match d_semi d with Some s => s | None => 0 end) + cc) / 100
    /\ fits 32 (s_fraction c).
Proof.
  intros d c cc Hc H. apply smpl_chunk_data_ok in H. destruct H as (_ & pn & Hpn & Hnote & Hfr).
  rewrite Hc in Hpn.
  destruct (normalized_pitch_int_lemma (match d_semi d with Some s => s | None => 0 end) cc) as (n & Hn & Hfit).
  rewrite Hn in Hpn. injection Hpn as <-. cbn [fst snd] in *.
  split; [exact Hnote|]. rewrite Hfr. exact Hfit.
Qed.
