From SE Require Import Base Fat.

(** * Generic list facts *)
Lemma zlen_app {A} (a b : list A) : zlen (a ++ b) = zlen a + zlen b.
Proof. unfold zlen. rewrite app_length. lia. Qed.
Lemma zlen_nonneg {A} (l : list A) : 0 <= zlen l.
Proof. unfold zlen. lia. Qed.
Lemma zlen_cons {A} (x : A) l : zlen (x :: l) = 1 + zlen l.
Proof. unfold zlen. cbn [length]. lia. Qed.
Lemma upd_nat_length {A} (l : list A) i v : length (upd_nat l i v) = length l.
Proof. revert i; induction l as [|h t IH]; intros [|i]; cbn; auto. Qed.
Lemma upd_length {A} (l : list A) i v : length (upd l i v) = length l.
Proof. apply upd_nat_length. Qed.
Lemma zlen_upd {A} (l : list A) i v : zlen (upd l i v) = zlen l.
Proof. unfold zlen. now rewrite upd_length. Qed.

(** * Chains in a link table *)
Inductive Chain (links : list link) : Z -> list Z -> Prop :=
| chain_end s :
    0 <= s < zlen links -> lend (znth dlink links s) = true -> Chain links s [s]
| chain_step s c :
    0 <= s < zlen links -> lend (znth dlink links s) = false ->
    Chain links (lnext (znth dlink links s)) c -> Chain links s (s :: c).

Lemma chain_nonempty links s c : Chain links s c -> exists t, c = s :: t.
Proof. destruct 1; eauto. Qed.

Lemma get_path_loop_follows links size :
  forall c cur, Chain links cur c ->
  forall fuel path cnt,
    (length c <= fuel)%nat -> 0 <= cnt -> cnt + zlen c <= size ->
    get_path_loop fuel size links path cur cnt = Ok (path ++ c, cnt + zlen c - 1).
Proof.
  induction 1 as [s Hs He | s c Hs He Hc IH]; intros fuel path cnt Hf Hcnt Hsz.
  - destruct fuel as [|fuel]; [cbn in Hf; lia|]. cbn [get_path_loop].
    change (zlen [s]) with 1 in *.
    destruct (Z.ltb_spec cnt size); [|lia].
    destruct (Z.geb_spec s (zlen links)); [lia|].
    rewrite He. f_equal; f_equal; lia.
  - destruct fuel as [|fuel]; [cbn in Hf; lia|]. cbn [get_path_loop].
    rewrite zlen_cons in Hsz. pose proof (zlen_nonneg c).
    destruct (chain_nonempty _ _ _ Hc) as [t ->].
    rewrite zlen_cons in *. pose proof (zlen_nonneg t).
    destruct (Z.ltb_spec cnt size); [|lia].
    destruct (Z.geb_spec s (zlen links)); [lia|].
    rewrite He. rewrite IH.
    + rewrite <- app_assoc. cbn [app]. rewrite ?zlen_cons. f_equal; f_equal; lia.
    + cbn [length] in *. lia.
    + lia.
    + rewrite ?zlen_cons. lia.
Qed.

(** A chain in the table that fits in the table resolves to exactly itself. *)
Lemma get_path_follows_lemma :
  forall links size start c,
    Chain links start c -> zlen c <= size -> get_path size links start = Ok c.
Proof.
  intros links size start c Hc Hsz. unfold get_path, get_path_fuel.
  pose proof (zlen_nonneg c) as Hc0.
  rewrite (get_path_loop_follows links size c start Hc _ [] 0).
  - cbn [bind fst snd app]. destruct (Z.geb_spec (0 + zlen c - 1) size); [lia|reflexivity].
  - unfold zlen in Hsz. lia.
  - lia.
  - lia.
Qed.

(** get_path never runs out of fuel (= the Python loop terminates) for ANY table. *)
Lemma get_path_loop_fuel links size :
  forall fuel path cur cnt,
    (Z.to_nat (size - cnt) < fuel)%nat ->
    get_path_loop fuel size links path cur cnt <> OutOfFuel.
Proof.
  induction fuel as [|fuel IH]; intros path cur cnt Hf; [lia|].
  cbn [get_path_loop].
  destruct (Z.ltb_spec cnt size); [|discriminate].
  destruct (cur >=? zlen links); [discriminate|].
  destruct (lend _); [discriminate|].
  apply IH. lia.
Qed.

Lemma get_path_loop_shape links size :
  forall fuel path cur cnt p k,
    get_path_loop fuel size links path cur cnt = Ok (p, k) ->
    exists q, p = path ++ q /\ zlen q <= k - cnt + 1 /\ cnt <= k
              /\ Forall (fun s => s < zlen links) q
              /\ (cnt < size -> exists t, q = cur :: t).
Proof.
  induction fuel as [|fuel IH]; intros path cur cnt p k H; [discriminate|].
  cbn [get_path_loop] in H.
  destruct (Z.ltb_spec cnt size) as [Hlt|Hge].
  - destruct (Z.geb_spec cur (zlen links)) as [Hr|Hr]; [discriminate|].
    destruct (lend _).
    + injection H as <- <-. exists [cur]. rewrite zlen_cons. change (zlen (@nil Z)) with 0.
      repeat split; try lia. { constructor; [lia|constructor]. } eauto.
    + apply IH in H as (q & -> & Hq & Hk & HF & _).
      exists (cur :: q). rewrite <- app_assoc. cbn [app]. rewrite zlen_cons.
      repeat split; try lia. { constructor; [lia|assumption]. } eauto.
  - injection H as <- <-. exists []. rewrite app_nil_r. change (zlen (@nil Z)) with 0.
    repeat split; try lia. constructor.
Qed.

Lemma get_path_total_lemma :
  forall size links start, 0 <= size ->
    get_path size links start <> OutOfFuel /\
    (forall p, get_path size links start = Ok p ->
       zlen p <= size /\ Forall (fun s => s < zlen links) p /\ exists t, p = start :: t) /\
    (forall e, get_path size links start = Err e ->
       e = RequestedInvalidSector \/ e = InvalidFatDefinition).
Proof.
  intros size links start Hs. unfold get_path, get_path_fuel.
  pose proof (get_path_loop_fuel links size (S (Z.to_nat size)) [] start 0 ltac:(lia)) as Hf.
  destruct (get_path_loop _ _ _ _ _ _) as [[p k]| e |] eqn:E; [| |congruence].
  - cbn [bind fst snd]. apply get_path_loop_shape in E as (q & -> & Hq & Hk & HF & Hhd).
    cbn [app] in *. destruct (Z.geb_spec k size).
    + split; [discriminate|]. split; [discriminate|]. intros e He. injection He as <-. auto.
    + split; [discriminate|]. split; [|discriminate].
      intros p' Hp. injection Hp as <-. split; [lia|]. split; [assumption|].
      apply Hhd. lia.
  - cbn [bind]. split; [discriminate|]. split; [discriminate|].
    intros e' He. injection He as <-.
    clear Hf. revert E. generalize (S (Z.to_nat size)) (@nil Z) start 0.
    induction n as [|n IH]; intros path cur cnt E; [discriminate|].
    cbn [get_path_loop] in E.
    destruct (cnt <? size); [|discriminate].
    destruct (cur >=? zlen links); [injection E as <-; auto|].
    destruct (lend _); [discriminate|]. eapply IH; eassumption.
Qed.

(** On a cyclic table get_path reports an error instead of looping (needs the D1 fix:
    without the increment of [loop_cnt] this is where the Python code hung). *)
Example get_path_cycle_reports_error :
  get_path 2 [{| lnext := 1; lend := false |}; {| lnext := 0; lend := false |}] 0
  = Err InvalidFatDefinition.
Proof. reflexivity. Qed.

(** * add_links never runs out of fuel and preserves the table length *)
Lemma add_links_from_length : forall rest prev tbl t,
  add_links_from prev rest tbl = Ok t -> length t = length tbl.
Proof.
  induction rest as [|l rest IH]; intros prev tbl t H; cbn [add_links_from] in H.
  - destruct (prev <? zlen tbl); [|discriminate]. injection H as <-. apply upd_length.
  - destruct (prev <? zlen tbl); [|discriminate]. apply IH in H. now rewrite upd_length in H.
Qed.
Lemma add_links_length links tbl t : add_links links tbl = Ok t -> length t = length tbl.
Proof. destruct links; cbn; [now intros [= <-]|apply add_links_from_length]. Qed.
Lemma add_links_from_fuel : forall rest prev tbl, add_links_from prev rest tbl <> OutOfFuel.
Proof.
  induction rest as [|l rest IH]; intros prev tbl; cbn [add_links_from];
    destruct (prev <? zlen tbl); try discriminate. apply IH.
Qed.
Lemma add_links_fuel links tbl : add_links links tbl <> OutOfFuel.
Proof. destruct links; cbn; [discriminate|apply add_links_from_fuel]. Qed.

(** * AKAI SAT decoding terminates: the inner walk needs at most 2*size+2 steps *)
Lemma nth_upd_nat_same {A} (d : A) : forall l i v, (i < length l)%nat -> nth i (upd_nat l i v) d = v.
Proof. induction l as [|h t IH]; intros [|i] v Hi; cbn [length] in Hi; try lia; cbn; auto. apply IH; lia. Qed.
Lemma nth_upd_nat_other {A} (d : A) : forall l i j v, i <> j -> nth j (upd_nat l i v) d = nth j l d.
Proof. induction l as [|h t IH]; intros [|i] [|j] v Hij; cbn; auto; try congruence. Qed.
Lemma znth_upd_same {A} (d : A) l i v : 0 <= i < zlen l -> znth d (upd l i v) i = v.
Proof. unfold znth, upd, zlen. intros H. apply nth_upd_nat_same. lia. Qed.
Lemma znth_upd_other {A} (d : A) l i j v : 0 <= i -> 0 <= j -> i <> j -> znth d (upd l i v) j = znth d l j.
Proof. unfold znth, upd. intros Hi Hj Hij. apply nth_upd_nat_other. lia. Qed.

Fixpoint nd (d : list bool) : Z :=
  match d with [] => 0 | b :: t => (if b then 0 else 1) + nd t end.
Lemma nd_nonneg d : 0 <= nd d.
Proof. induction d as [|[] t IH]; cbn [nd]; lia. Qed.
Lemma nd_le_len d : nd d <= zlen d.
Proof. induction d as [|b t IH]; cbn [nd]; rewrite ?zlen_cons; [unfold zlen; cbn; lia|destruct b; lia]. Qed.
Lemma nd_upd_nat_le : forall d i, nd (upd_nat d i true) <= nd d.
Proof.
  induction d as [|b t IH]; intros [|i]; cbn [upd_nat nd]; try lia.
  - destruct b; lia.
  - specialize (IH i). lia.
Qed.
Lemma nd_upd_nat_lt : forall d i, (i < length d)%nat -> nth i d false = false ->
  nd (upd_nat d i true) = nd d - 1.
Proof.
  induction d as [|b t IH]; intros [|i] Hi Hn; cbn [length] in Hi; try lia; cbn [upd_nat nd nth] in *.
  - subst. lia.
  - rewrite IH; [lia|lia|assumption].
Qed.
Lemma nd_upd_le d i : nd (upd d i true) <= nd d.
Proof. apply nd_upd_nat_le. Qed.
Lemma nd_upd_lt d i : 0 <= i < zlen d -> znth false d i = false -> nd (upd d i true) = nd d - 1.
Proof. unfold zlen, znth, upd. intros H Hn. apply nd_upd_nat_lt; [lia|assumption]. Qed.

Definition in_run (st : akai_st) (links : list Z) : bool :=
  a_prev_dir st && negb (match links with [] => true | _ => false end).
Definition psi (size : Z) (st : akai_st) (links : list Z) (sub : Z) : Z :=
  nd (a_dirty st) + (if in_run st links then Z.max 0 (size - sub) else size + 1).

Lemma znth_nonneg block i : Forall (fun w => 0 <= w) block -> 0 <= znth 0 block i.
Proof.
  unfold znth. intros HF. generalize (Z.to_nat i). induction HF as [|w l Hw HF IH]; intros [|n]; cbn; auto; lia.
Qed.

Lemma akai_walk_fuel_ok block size (Hb : Forall (fun w => 0 <= w) block) (Hsize : 0 <= size) :
  forall fuel st links sub,
    zlen (a_dirty st) = size -> 0 <= sub ->
    (in_run st links = false -> sub < size ->
       znth false (a_dirty st) sub = false \/ znth 0 block sub = sub) ->
    psi size st links sub < Z.of_nat fuel ->
    akai_walk fuel block size st links sub <> OutOfFuel.
Proof.
  induction fuel as [|fuel IH]; intros st links sub Hlen Hsub Hinv Hpsi.
  { unfold psi in Hpsi. pose proof (nd_nonneg (a_dirty st)). destruct (in_run st links); lia. }
  cbn [akai_walk].
  destruct (Z.geb_spec sub size) as [Hge|Hlt].
  { destruct (a_prev_dir st && negb match links with [] => true | _ => false end); [|discriminate].
    destruct (add_links links (a_links st)) eqn:EA; cbn [bind]; try discriminate.
    exfalso. eapply add_links_fuel; eassumption. }
  set (v := znth 0 block sub) in *.
  assert (Hv : 0 <= v) by (apply znth_nonneg; assumption).
  destruct (negb (is_dir_word v) && a_prev_dir st && negb match links with [] => true | _ => false end) eqn:B1.
  { destruct (add_links links (a_links st)) eqn:EA; cbn [bind]; try discriminate.
    exfalso. eapply add_links_fuel; eassumption. }
  destruct ((v =? SAT_FREE) || ((v <? size) && znth false (a_dirty st) v)) eqn:B2.
  { destruct (negb (v =? SAT_FREE) && negb (v =? sub) && negb (existsb (Z.eqb v) links)); [|discriminate].
    destruct (add_links (links ++ [sub]) (a_links st)) eqn:EA; cbn [bind]; try discriminate.
    exfalso. eapply add_links_fuel; eassumption. }
  destruct (v =? SAT_EOF) eqn:B3.
  { destruct (add_links (links ++ [sub]) (a_links st)) eqn:EA; cbn [bind]; try discriminate.
    exfalso. eapply add_links_fuel; eassumption. }
  pose proof (nd_nonneg (a_dirty st)) as Hnd0.
  pose proof (nd_upd_le (a_dirty st) sub) as Hndle.
  assert (Hrun' : forall p, in_run {| a_links := a_links st; a_dirty := upd (a_dirty st) sub true;
                                      a_prev_dir := p |} (links ++ [sub]) = p).
  { intros p. unfold in_run. cbn [a_prev_dir]. destruct links; cbn; now rewrite andb_true_r. }
  destruct (is_dir_word v) eqn:Edir.
  - (* run step *)
    apply IH; cbn [a_dirty].
    + now rewrite zlen_upd.
    + lia.
    + rewrite Hrun'. discriminate.
    + unfold psi in *. rewrite Hrun'. cbn [a_dirty]. destruct (in_run st links); lia.
  - (* link step: we are not in a run, the current sector was clean *)
    assert (Hnr : in_run st links = false).
    { unfold in_run. cbn [negb andb] in B1. destruct (a_prev_dir st); cbn in *; auto. }
    apply orb_false_elim in B2 as [B2a B2b].
    assert (Hclean : znth false (a_dirty st) sub = false).
    { destruct (Hinv Hnr Hlt) as [H|H]; [assumption|].
      fold v in H. rewrite H in B2b. destruct (Z.ltb_spec sub size); [|lia].
      cbn in B2b. assumption. }
    apply IH; cbn [a_dirty].
    + now rewrite zlen_upd.
    + assumption.
    + rewrite Hrun'. intros _ Hvs.
      destruct (Z.eq_dec v sub) as [Heq|Hne].
      * right. rewrite Heq. exact Heq.
      * left. rewrite znth_upd_other by lia.
        destruct (Z.ltb_spec v size); [|lia]. cbn in B2b. assumption.
    + unfold psi in *. rewrite Hrun'. cbn [a_dirty]. rewrite Hnr in Hpsi.
      rewrite nd_upd_lt by (try assumption; lia). lia.
Qed.

Lemma akai_walk_len block size :
  forall fuel st links sub st',
    akai_walk fuel block size st links sub = Ok st' ->
    length (a_dirty st') = length (a_dirty st) /\ length (a_links st') = length (a_links st).
Proof.
  induction fuel as [|fuel IH]; intros st links sub st' H; [discriminate|].
  cbn [akai_walk] in H.
  destruct (sub >=? size).
  { destruct (a_prev_dir st && negb match links with [] => true | _ => false end); [|injection H as <-; auto].
    destruct (add_links links (a_links st)) eqn:EA; cbn [bind] in H; try discriminate.
    injection H as <-. cbn. split; [reflexivity|]. eapply add_links_length; eassumption. }
  destruct (negb (is_dir_word (znth 0 block sub)) && a_prev_dir st && negb match links with [] => true | _ => false end).
  { destruct (add_links links (a_links st)) eqn:EA; cbn [bind] in H; try discriminate.
    injection H as <-. cbn. split; [reflexivity|]. eapply add_links_length; eassumption. }
  destruct (_ || _).
  { destruct (negb _ && negb _ && negb _); [|injection H as <-; cbn; rewrite upd_length; auto].
    destruct (add_links (links ++ [sub]) (a_links st)) eqn:EA; cbn [bind] in H; try discriminate.
    injection H as <-. cbn. rewrite !upd_length. split; [reflexivity|]. eapply add_links_length; eassumption. }
  destruct (_ =? SAT_EOF).
  { destruct (add_links (links ++ [sub]) (a_links st)) eqn:EA; cbn [bind] in H; try discriminate.
    injection H as <-. cbn. rewrite upd_length. split; [reflexivity|]. eapply add_links_length; eassumption. }
  apply IH in H. cbn in H. now rewrite upd_length in H.
Qed.

Lemma akai_outer_fuel_ok block size (Hb : Forall (fun w => 0 <= w) block) (Hsize : 0 <= size) :
  forall n i st, zlen (a_dirty st) = size -> 0 <= i ->
    akai_outer n block size i st <> OutOfFuel.
Proof.
  induction n as [|n IH]; intros i st Hlen Hi; cbn [akai_outer]; [discriminate|].
  destruct (znth false (a_dirty st) i) eqn:Ed; [apply IH; [assumption|lia]|].
  pose proof (akai_walk_fuel_ok block size Hb Hsize (akai_walk_fuel size) st [] i Hlen Hi) as Hw.
  destruct (akai_walk (akai_walk_fuel size) block size st [] i) as [st'| |] eqn:EW; cbn [bind].
  - apply IH; [|lia]. apply akai_walk_len in EW as [E1 _]. unfold zlen in *. lia.
  - discriminate.
  - exfalso. apply Hw; [auto| |reflexivity].
    unfold psi, in_run. rewrite andb_false_r. unfold akai_walk_fuel.
    pose proof (nd_le_len (a_dirty st)). lia.
Qed.

Lemma repeat_zlen {A} (x : A) n : zlen (repeat x n) = Z.of_nat n.
Proof. unfold zlen. now rewrite repeat_length. Qed.

(** AKAI SAT decoding of ANY table of non-negative words terminates (never OutOfFuel)
    and yields one link per table entry. *)
Lemma akai_decode_total_lemma :
  forall block, Forall (fun w => 0 <= w) block ->
    akai_decode block <> OutOfFuel /\
    (forall t, akai_decode block = Ok t -> length t = length block).
Proof.
  intros block Hb. unfold akai_decode.
  set (st0 := {| a_links := repeat dlink (length block); a_dirty := repeat false (length block);
                 a_prev_dir := true |}).
  pose proof (akai_outer_fuel_ok block (zlen block) Hb (zlen_nonneg block) (length block) 0 st0) as H.
  assert (Hl : zlen (a_dirty st0) = zlen block) by (cbn; apply repeat_zlen).
  specialize (H Hl ltac:(lia)).
  destruct (akai_outer _ _ _ _ _) as [st| |] eqn:E; cbn [bind]; [|split; discriminate|congruence].
  split; [discriminate|]. intros t [= <-].
  assert (G : forall n i s s', akai_outer n block (zlen block) i s = Ok s' ->
              length (a_links s') = length (a_links s)).
  { induction n as [|n IHn]; intros i s s' Hs; cbn [akai_outer] in Hs; [now injection Hs as <-|].
    destruct (znth false (a_dirty s) i); [eauto|].
    destruct (akai_walk _ _ _ _ _ _) as [s1| |] eqn:EW; cbn [bind] in Hs; try discriminate.
    apply IHn in Hs. apply akai_walk_len in EW as [_ E2]. lia. }
  apply G in E. cbn in E. now rewrite repeat_length in E.
Qed.

(** * Roland FAT decoding terminates: a walk longer than the table is rejected (D2 fix) *)
Lemma roland_walk_fuel_ok fat N :
  forall fuel st sub_links sub,
    N + 1 - zlen sub_links < Z.of_nat fuel -> zlen sub_links <= N + 1 ->
    roland_walk fuel fat N st sub_links sub <> OutOfFuel.
Proof.
  induction fuel as [|fuel IH]; intros st sl sub Hf Hl; [lia|].
  cbn [roland_walk].
  destruct (sub >=? N); [discriminate|].
  destruct (_ =? FAT_ERROR); [discriminate|].
  destruct (_ || _); [destruct sl; discriminate|].
  destruct (Z.gtb_spec (zlen (sl ++ [sub])) N) as [Hgt|Hle]; [discriminate|].
  destruct (_ >=? FAT_END).
  { destruct (add_links (sl ++ [sub]) _) eqn:EA; cbn [bind]; try discriminate.
    exfalso. eapply add_links_fuel; eassumption. }
  apply IH; rewrite zlen_app in *; change (zlen [sub]) with 1 in *; lia.
Qed.

Lemma roland_outer_fuel_ok fat N : 0 <= N ->
  forall n i st, roland_outer n fat N i st <> OutOfFuel.
Proof.
  intros HN. induction n as [|n IH]; intros i st; cbn [roland_outer]; [discriminate|].
  destruct (znth false (r_dirty st) i); [apply IH|].
  pose proof (roland_walk_fuel_ok fat N (roland_walk_fuel N) st [] i) as Hw.
  destruct (roland_walk _ _ _ _ _ _) eqn:EW; cbn [bind]; [apply IH|discriminate|].
  exfalso. apply Hw; [|change (zlen (@nil Z)) with 0; lia|reflexivity].
  unfold roland_walk_fuel. change (zlen (@nil Z)) with 0. lia.
Qed.

Lemma roland_decode_total_lemma : forall fat, roland_decode fat <> OutOfFuel.
Proof.
  intros fat. unfold roland_decode.
  destruct (negb _); [discriminate|].
  destruct (roland_version _ _) eqn:EV; cbn [bind]; try discriminate.
  - pose proof (roland_outer_fuel_ok fat (zlen fat) (zlen_nonneg fat)
                  (Z.to_nat (zlen fat - 9 - 2)) 2
                  {| r_links := repeat dlink (length fat);
                     r_dirty := upd (upd (repeat false (length fat)) 0 true) 1 true |}) as H.
    destruct (roland_outer _ _ _ _ _); cbn [bind]; try discriminate. congruence.
  - unfold roland_version in EV.
    repeat match type of EV with (if ?c then _ else _) = _ => destruct c end; discriminate.
Qed.

Lemma roland_get_file_total_lemma :
  forall N links index off, 0 <= N -> roland_get_file N links index off <> OutOfFuel.
Proof.
  intros N links index off HN. unfold roland_get_file.
  destruct (get_path_total_lemma N links index HN) as [H _].
  destruct (get_path N links index); cbn [bind]; try discriminate. congruence.
Qed.

(** * Chain resolution through the decoded AKAI table: bounded (small-scope) theorem.
    The unbounded theorem (with the table-size bound it needs) is proved in
    AkaiChainProofs.v.  What is proved here, by complete enumeration inside Coq, is the same
    statement for every table of at most 4 words over the alphabet
    {free, EOF, reserved-std, reserved-v2, every in-range link, one out-of-range link}. *)
Fixpoint raw_chain (fuel : nat) (block : list Z) (seen : list Z) (cur : Z) : option (list Z) :=
  match fuel with
  | O => None
  | S f =>
      if (cur <? 0) || (cur >=? zlen block) || existsb (Z.eqb cur) seen then None else
      let v := znth 0 block cur in
      if (v =? SAT_FREE) || is_dir_word v then None
      else if v =? SAT_EOF then Some (seen ++ [cur])
      else raw_chain f block (seen ++ [cur]) v
  end.
Definition count_word (block : list Z) (w : Z) : nat := length (filter (Z.eqb w) block).
(** each sector linked from exactly one place: the head from outside the table *)
Definition linked_once (block : list Z) (c : list Z) : bool :=
  match c with
  | [] => false
  | h :: t => Nat.eqb (count_word block h) 0 && forallb (fun s => Nat.eqb (count_word block s) 1) t
  end.
Definition head_is_min (c : list Z) : bool :=
  match c with [] => false | h :: t => forallb (fun s => h <=? s) t end.
Definition listZ_eqb (a b : list Z) : bool :=
  (length a =? length b)%nat && forallb (fun p => fst p =? snd p) (combine a b).
Definition chain_ok (block : list Z) (s : Z) : bool :=
  match raw_chain (S (length block)) block [] s with
  | Some c =>
      if linked_once block c then
        match akai_get_segment block s with Ok p => listZ_eqb p c | _ => false end
      else true
  | None => true
  end.
Definition akai_words (n : nat) : list Z :=
  [SAT_FREE; SAT_EOF; SAT_RES_STD; SAT_RES_V2] ++ map Z.of_nat (seq 1 (n - 1)) ++ [Z.of_nat n + 2].
Fixpoint all_tables (n : nat) (ws : list Z) : list (list Z) :=
  match n with
  | O => [[]]
  | S k => flat_map (fun w => map (cons w) (all_tables k ws)) ws
  end.
Definition all_ok (n : nat) : bool :=
  forallb (fun b => forallb (fun s => chain_ok b (Z.of_nat s)) (seq 0 n)) (all_tables n (akai_words n)).

Lemma akai_chain_small_scope_all : all_ok 1 && all_ok 2 && all_ok 3 && all_ok 4 = true.
Proof. vm_compute. reflexivity. Qed.

(** The unbounded statement as first written, without a bound on the table size: it is FALSE
    for tables of more than 0xC000 words and proved for all others (AkaiChainProofs.v:
    [akai_decode_chain_lemma], [akai_decode_chain_statement_refuted_lemma]). *)
Definition akai_decode_chain_statement : Prop :=
  forall block s c,
    Forall (fun w => 0 <= w < 65536) block ->
    raw_chain (S (length block)) block [] s = Some c ->
    linked_once block c = true ->
    akai_get_segment block s = Ok c.

(** After the D4 fix the head of a chain need not be its lowest sector: the former
    counterexample (7 -> 3 -> 5) now resolves exactly. *)
Lemma akai_chain_head_not_lowest_fixed_lemma :
  akai_get_segment [0; 0; 0; 5; 0; SAT_EOF; 0; 3] 7 = Ok [7; 3; 5].
Proof. vm_compute. reflexivity. Qed.

(** After the D11 fix a reserved-flag run that reaches the last table entry is installed. *)
Lemma akai_dir_run_at_table_end_fixed_lemma :
  akai_get_segment [0; 0; 0; SAT_RES_STD; SAT_RES_STD] 3 = Ok [3; 4]
  /\ akai_get_segment [0; 0; 0; SAT_RES_STD; SAT_RES_STD; 0] 3 = Ok [3; 4].
Proof. vm_compute. split; reflexivity. Qed.

(** directory runs, bounded like the chains: from the first sector of a maximal run of
    reserved-flag words (preceded by a non-reserved word or the table start) resolution
    yields exactly the run *)
Fixpoint run_from (fuel : nat) (block : list Z) (cur : Z) : list Z :=
  match fuel with
  | O => []
  | S f => if (cur <? zlen block) && is_dir_word (znth 0 block cur) then cur :: run_from f block (cur + 1) else []
  end.
Definition run_ok (block : list Z) (s : Z) : bool :=
  if is_dir_word (znth 0 block s) && ((s =? 0) || negb (is_dir_word (znth 0 block (s - 1)))) then
    match akai_get_segment block s with Ok p => listZ_eqb p (run_from (length block) block s) | _ => false end
  else true.
Definition all_runs_ok (n : nat) : bool :=
  forallb (fun b => forallb (fun s => run_ok b (Z.of_nat s)) (seq 0 n)) (all_tables n (akai_words n)).
Lemma akai_run_small_scope_all : all_runs_ok 1 && all_runs_ok 2 && all_runs_ok 3 && all_runs_ok 4 = true.
Proof. vm_compute. reflexivity. Qed.
