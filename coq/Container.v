(** Model of the container detection of smpl_extract/actions.py (determine_image_type),
    alcohol/mdf.py (is_mdf_image, MdfStream), alcohol/mdx.py (is_mdx_image, MdxStream), and
    the reference encoders the independent writers implement (Spec side). *)
From SE Require Import Base Stream.

Definition MDF_MAGIC : list Z := [0; 255; 255; 255; 255; 255; 255; 255; 255; 255; 255; 0].
(** "MEDIA DESCRIPTOR" *)
Definition MDX_MAGIC : list Z := [77; 69; 68; 73; 65; 32; 68; 69; 83; 67; 82; 73; 80; 84; 79; 82].

Fixpoint prefix_eqb (p l : list Z) : bool :=
  match p, l with
  | [], _ => true
  | a :: p', b :: l' => (a =? b) && prefix_eqb p' l'
  | _ :: _, [] => false
  end.

(** MdfSectorHeaderConstruct: 12 magic bytes, 3-byte id, Const 0x01; 16 bytes must be there *)
Definition is_mdf (f : list Z) : bool :=
  (16 <=? zlen f) && prefix_eqb MDF_MAGIC f && (znth 0 f 15 =? 1).
(** MdxHeaderConstruct: magic(16) version(2) copyright(26, first byte 0xA9) pad(4) eof(8) pad(8) *)
Definition is_mdx (f : list Z) : bool :=
  (64 <=? zlen f) && prefix_eqb MDX_MAGIC f && (znth 0 f 18 =? 169).
Definition le_val (l : list Z) : Z := fold_right (fun b acc => b + 256 * acc) 0 l.
Definition le64 (f : list Z) (o : Z) : Z := le_val (slice f o (o + 8)).

Inductive container := CMdf | CMdx | CRaw.
(** the cascade of determine_image_type on a binary file *)
Definition detect (f : list Z) : container :=
  if is_mdf f then CMdf else if is_mdx f then CMdx else CRaw.
(** the view the parsers then read through *)
Definition container_view (f : list Z) : view :=
  match detect f with
  | CMdf => mdf_view (zlen f) Base
  | CMdx => V (KOff 64) (le64 f 48 - 64) Base
  | CRaw => Base
  end.

(** * Reference encoders (what the independent writers produce) *)
Definition pad_to (n : Z) (b : list Z) : list Z := b ++ zrepeat 0 ((n - zlen b mod n) mod n).
Fixpoint blocks (fuel : nat) (n : nat) (l : list Z) : list (list Z) :=
  match fuel with
  | O => []
  | S f => match l with [] => [] | _ => firstn n l :: blocks f n (skipn n l) end
  end.
Definition be24 (i : Z) : list Z := [(i / 65536) mod 256; (i / 256) mod 256; i mod 256].
Definition raw_sector (i : Z) (body : list Z) : list Z :=
  MDF_MAGIC ++ be24 i ++ [1] ++ body ++ zrepeat 0 288.
Fixpoint wrap_blocks (i : Z) (bs : list (list Z)) : list Z :=
  match bs with [] => [] | b :: t => raw_sector i b ++ wrap_blocks (i + 1) t end.
(** MODE1/2352: every 2048-byte block of the (zero padded) data in a 2352-byte raw sector *)
Definition wrap_2352 (d : list Z) : list Z :=
  let p := pad_to 2048 d in wrap_blocks 0 (blocks (length p) 2048 p).
Fixpoint le_bytes (n : nat) (v : Z) : list Z :=
  match n with O => [] | S k => v mod 256 :: le_bytes k (v / 256) end.
Definition le64_bytes (v : Z) : list Z := le_bytes 8 v.
Definition wrap_mdx (d : list Z) : list Z :=
  MDX_MAGIC ++ [2; 1] ++ (169 :: zrepeat 32 25) ++ zrepeat 255 4 ++ le64_bytes (64 + zlen d) ++ zrepeat 0 8 ++ d.
