(** The sample-reversed view (StreamReversed) at the top of a nesting, and read(-1)/readall()
    of every view.  Lemmas for Props/C08.v. *)
From SE Require Import Base Stream FatProofs StreamProofs.

(** * Slices *)
Lemma firstn_add {A} : forall n m (X : list A),
  firstn (n + m) X = firstn n X ++ firstn m (skipn n X).
Proof.
  induction n as [|n IH]; intros m [|x X]; cbn [Nat.add firstn skipn app];
    rewrite ?firstn_nil; try reflexivity.
  f_equal. apply IH.
Qed.
Lemma skipn_add {A} : forall n m (X : list A), skipn n (skipn m X) = skipn (n + m) X.
Proof.
  intros n m. revert n. induction m as [|m IH]; intros n X.
  - now rewrite Nat.add_0_r.
  - rewrite Nat.add_succ_r. destruct X as [|x X]; cbn [skipn]; [now rewrite skipn_nil|apply IH].
Qed.
Lemma slice_split {A} (l : list A) a b c :
  0 <= a <= b -> b <= c -> slice l a c = slice l a b ++ slice l b c.
Proof.
  intros Hab Hbc. unfold slice.
  replace (Z.to_nat (c - a)) with (Z.to_nat (b - a) + Z.to_nat (c - b))%nat by lia.
  rewrite firstn_add, skipn_add.
  replace (Z.to_nat (b - a) + Z.to_nat a)%nat with (Z.to_nat b) by lia. reflexivity.
Qed.
Lemma slice_mid {A} (X Y T : list A) : slice (X ++ Y ++ T) (zlen X) (zlen X + zlen Y) = Y.
Proof.
  unfold slice, zlen.
  replace (Z.of_nat (length X) + Z.of_nat (length Y) - Z.of_nat (length X))
    with (Z.of_nat (length Y)) by lia.
  rewrite !Nat2Z.id. rewrite skipn_app, skipn_all, Nat.sub_diag. cbn [skipn app].
  rewrite firstn_app, firstn_all, Nat.sub_diag. cbn [firstn]. apply app_nil_r.
Qed.
Lemma slice_full {A} (l : list A) : slice l 0 (zlen l) = l.
Proof. unfold slice, zlen. rewrite Z.sub_0_r, Nat2Z.id. cbn [Z.to_nat skipn]. apply firstn_all. Qed.
Lemma zlen_nil {A} : zlen (@nil A) = 0.
Proof. reflexivity. Qed.

(** * Multiples of the sample width *)
Lemma mod0_sub w a b : 0 < w -> a mod w = 0 -> b mod w = 0 -> (a - b) mod w = 0.
Proof.
  intros Hw Ha Hb. apply Z.mod_divide; [lia|].
  apply Z.divide_sub_r; apply Z.mod_divide; auto; lia.
Qed.
Lemma mod0_add w a b : 0 < w -> a mod w = 0 -> b mod w = 0 -> (a + b) mod w = 0.
Proof.
  intros Hw Ha Hb. apply Z.mod_divide; [lia|].
  apply Z.divide_add_r; apply Z.mod_divide; auto; lia.
Qed.
Lemma aligned_sub w size x : 0 < w -> size mod w = 0 ->
  ((size - x) mod w =? 0) = (x mod w =? 0).
Proof.
  intros Hw Hs. destruct (Z.eqb_spec (x mod w) 0) as [Hx|Hx].
  - apply Z.eqb_eq. now apply mod0_sub.
  - apply Z.eqb_neq. intros Hc. apply Hx.
    replace x with (size - (size - x)) by lia. now apply mod0_sub.
Qed.
Lemma div_mul_exact w t : 0 < w -> t mod w = 0 -> t / w * w = t.
Proof. intros Hw Ht. pose proof (Z.div_mod t w ltac:(lia)). lia. Qed.

(** * Sample reversal: [rev_samples w] on whole samples *)
Lemma chunks_S f w l : l <> [] -> chunks (S f) w l = firstn w l :: chunks f w (skipn w l).
Proof. destruct l; [congruence|reflexivity]. Qed.
Lemma chunks_fuel w : (0 < w)%nat -> forall f f' l,
  (length l <= f)%nat -> (length l <= f')%nat -> chunks f w l = chunks f' w l.
Proof.
  intros Hw. induction f as [|f IH]; intros f' l Hf Hf'.
  - destruct l; [|cbn in Hf; lia]. destruct f'; reflexivity.
  - destruct l as [|x t]; [destruct f'; reflexivity|].
    destruct f' as [|f']; [cbn in Hf'; lia|].
    rewrite !chunks_S by discriminate. f_equal.
    apply IH; rewrite skipn_length; cbn [length] in *; lia.
Qed.
Lemma firstn_exact {A} (a l : list A) : firstn (length a) (a ++ l) = a.
Proof. induction a as [|x a IH]; cbn [length firstn app]; [reflexivity|now f_equal]. Qed.
Lemma skipn_exact {A} (a l : list A) : skipn (length a) (a ++ l) = l.
Proof. induction a as [|x a IH]; cbn [length skipn app]; auto. Qed.

Lemma rev_samples_nil w : rev_samples w [] = [].
Proof. reflexivity. Qed.
(** the first sample of the input is the last sample of the output *)
Lemma rev_samples_chunk w c l : 0 < w -> zlen c = w ->
  rev_samples w (c ++ l) = rev_samples w l ++ c.
Proof.
  intros Hw Hc. unfold rev_samples.
  assert (Hwn : Z.to_nat w = length c) by (unfold zlen in Hc; lia).
  assert (Hne : c ++ l <> []) by (destruct c; [cbn in Hwn; lia|discriminate]).
  assert (Hlen : length (c ++ l) = S (length c - 1 + length l)) by (rewrite app_length; lia).
  rewrite Hlen, chunks_S by assumption. rewrite Hwn, firstn_exact, skipn_exact.
  rewrite (chunks_fuel (length c) ltac:(lia) _ (length l) l) by lia.
  cbn [rev]. rewrite concat_app. cbn [concat]. now rewrite app_nil_r.
Qed.
Lemma rev_samples_one w c : 0 < w -> zlen c = w -> rev_samples w c = c.
Proof.
  intros Hw Hc. rewrite <- (app_nil_r c) at 1. rewrite rev_samples_chunk by assumption.
  reflexivity.
Qed.

(** induction over whole samples *)
Lemma chunk_ind (w : Z) (P : list Z -> Prop) :
  0 < w -> P [] ->
  (forall c l, zlen c = w -> zlen l mod w = 0 -> P l -> P (c ++ l)) ->
  forall l, zlen l mod w = 0 -> P l.
Proof.
  intros Hw H0 Hs l Hl.
  assert (exists k : nat, zlen l = Z.of_nat k * w) as [k Hk].
  { exists (Z.to_nat (zlen l / w)). pose proof (zlen_nonneg l).
    rewrite Z2Nat.id by (apply Z.div_pos; lia).
    pose proof (Z.div_mod (zlen l) w ltac:(lia)). lia. }
  clear Hl. revert l Hk. induction k as [|k IH]; intros l Hk.
  - assert (l = []) by (apply length_zero_iff_nil; unfold zlen in Hk; lia). subst. exact H0.
  - rewrite <- (firstn_skipn (Z.to_nat w) l).
    assert (Hsk : zlen (skipn (Z.to_nat w) l) = Z.of_nat k * w).
    { unfold zlen in *. rewrite skipn_length. nia. }
    apply Hs.
    + unfold zlen in *. rewrite firstn_length. nia.
    + rewrite Hsk. apply Z.mod_mul; lia.
    + apply IH. assumption.
Qed.

Lemma rev_samples_app w a b : 0 < w -> zlen a mod w = 0 ->
  rev_samples w (a ++ b) = rev_samples w b ++ rev_samples w a.
Proof.
  intros Hw Ha. revert a Ha. apply (chunk_ind w); [assumption| |].
  - cbn [app]. rewrite rev_samples_nil. now rewrite app_nil_r.
  - intros c l Hc Hl IH. rewrite <- app_assoc.
    rewrite (rev_samples_chunk w c (l ++ b)) by assumption.
    rewrite (rev_samples_chunk w c l) by assumption.
    rewrite IH. now rewrite app_assoc.
Qed.
Lemma rev_samples_zlen w l : 0 < w -> zlen l mod w = 0 -> zlen (rev_samples w l) = zlen l.
Proof.
  intros Hw. revert l. apply (chunk_ind w); [assumption|reflexivity|].
  intros c l Hc Hl IH. rewrite rev_samples_chunk by assumption. rewrite !zlen_app. lia.
Qed.

(** KEY: the bytes [p, p+t) of the reversed content, for whole-sample p and t, are the
    reversal of the bytes [size-(p+t), size-p) of the original *)
Lemma rev_slice w Ls size p t :
  0 < w -> zlen Ls = size -> size mod w = 0 -> p mod w = 0 -> t mod w = 0 ->
  0 <= p -> 0 <= t -> p + t <= size ->
  slice (rev_samples w Ls) p (p + t) = rev_samples w (slice Ls (size - (p + t)) (size - p)).
Proof.
  intros Hw Hlen Hsz Hp Ht Hp0 Ht0 Hle.
  set (A := slice Ls 0 (size - (p + t))).
  set (M := slice Ls (size - (p + t)) (size - p)).
  set (B := slice Ls (size - p) size).
  assert (HLs : Ls = A ++ M ++ B).
  { rewrite <- (slice_full Ls) at 1. rewrite Hlen.
    rewrite (slice_split Ls 0 (size - (p + t)) size) by lia.
    rewrite (slice_split Ls (size - (p + t)) (size - p) size) by lia. reflexivity. }
  assert (HA : zlen A = size - (p + t)) by (unfold A; rewrite slice_zlen; lia).
  assert (HM : zlen M = t) by (unfold M; rewrite slice_zlen; lia).
  assert (HB : zlen B = p) by (unfold B; rewrite slice_zlen; lia).
  assert (HAm : zlen A mod w = 0).
  { rewrite HA. apply mod0_sub; auto. apply mod0_add; auto. }
  rewrite HLs at 1.
  rewrite (rev_samples_app w A (M ++ B) Hw HAm).
  rewrite (rev_samples_app w M B Hw) by (rewrite HM; assumption).
  rewrite <- app_assoc.
  pose proof (slice_mid (rev_samples w B) (rev_samples w M) (rev_samples w A)) as Hmid.
  rewrite (rev_samples_zlen w B Hw) in Hmid by (rewrite HB; assumption).
  rewrite (rev_samples_zlen w M Hw) in Hmid by (rewrite HM; assumption).
  rewrite HB, HM in Hmid. exact Hmid.
Qed.

(** * The reversed view at the top of a well-formed nesting *)
(** StreamReversed(sub, size, sample_width = w): whole samples, over exactly the sub-view *)
Definition wf_rev (w size : Z) (sub : view) (content : list Z) : Prop :=
  1 <= w /\ 0 < size /\ size mod w = 0 /\ size = zlen (logical sub content) /\ wf sub content.

(** seek: the clamped target must be a whole number of samples; a rejected seek leaves the
    position where it was *)
Lemma rev_seek_step w size sub content :
  wf_rev w size sub content ->
  forall s off wh, good (V (KRev w) size sub) s ->
    let np := seek_target size (v_tell s) off wh in
    exists s', v_seek (V (KRev w) size sub) s off wh
               = ((if np mod w =? 0 then Ok np else Err BadAlign), s')
               /\ good (V (KRev w) size sub) s'
               /\ v_tell s' = (if np mod w =? 0 then np else v_tell s).
Proof.
  intros (Hw & Hsize & Hmod & Hlen & Hwfs) s off wh Hg np.
  pose proof (view_filelike _ _ Hwfs) as [Hs _].
  destruct s as [p|pos ts ss]; cbn [good] in Hg; [tauto|]. destruct Hg as [Hpos Hgs].
  cbn [v_tell] in np. cbn [v_seek v_tell translate].
  fold (seek_target size pos off wh). fold np.
  pose proof (seek_target_range size pos off wh Hsize) as Hnp. fold np in Hnp.
  rewrite Z.mod_0_l by lia. cbn [Z.eqb negb].
  replace (size - (np + 0)) with (size - np) by lia.
  destruct (Z.ltb_spec (size - np) 0) as [Hneg|_]; [lia|].
  rewrite (aligned_sub w size np) by (assumption || lia).
  destruct (Z.eqb_spec (np mod w) 0) as [Ha|Ha]; cbn [negb].
  - destruct (Hs ss (size - np) Hgs ltac:(lia)) as (r & ss' & E & G & _). rewrite E.
    exists (SV np 0 ss'). cbn [good v_tell]. repeat split; auto; lia.
  - exists (SV pos 0 ss). cbn [good v_tell]. repeat split; auto; lia.
Qed.

(** read(n), n >= 0: the effective size (clipped at the end) and the end position must be
    whole numbers of samples; a rejected read leaves the position where it was *)
Lemma rev_read_step w size sub content :
  wf_rev w size sub content ->
  forall s n, good (V (KRev w) size sub) s -> 0 <= n ->
    let pos := v_tell s in
    let ts := Z.min (size - pos) n in
    let R := rev_samples w (logical sub content) in
    exists s', v_read (V (KRev w) size sub) content s n
               = ((if negb (ts mod w =? 0) then Err BadReadSize
                   else if negb ((pos + ts) mod w =? 0) then Err BadAlign
                   else Ok (slice R pos (pos + n))), s')
               /\ good (V (KRev w) size sub) s'
               /\ v_tell s' = (if (ts mod w =? 0) && ((pos + ts) mod w =? 0) then pos + ts else pos).
Proof.
  intros (Hw & Hsize & Hmod & Hlen & Hwfs) s n Hg Hn.
  pose proof (view_filelike _ _ Hwfs) as HF.
  destruct s as [p|pos ts0 ss]; cbn [good] in Hg; [tauto|]. destruct Hg as [Hpos Hgs].
  intros pos' ts R. cbn [v_tell] in pos'. subst pos'.
  cbn [v_read translate]. rewrite (read_ts size pos n Hsize Hpos Hn). fold ts.
  assert (Hts : 0 <= ts /\ pos + ts <= size) by (unfold ts; lia).
  set (Lp := logical sub content) in *.
  destruct (Z.eqb_spec (ts mod w) 0) as [Ht|Ht]; cbn [negb andb].
  2:{ exists (SV pos ts ss). cbn [good v_tell]. repeat split; auto; lia. }
  destruct (Z.ltb_spec (size - (pos + ts)) 0) as [Hneg|_]; [lia|].
  rewrite (aligned_sub w size (pos + ts)) by (assumption || lia).
  destruct (Z.eqb_spec ((pos + ts) mod w) 0) as [Ha|Ha]; cbn [negb].
  2:{ exists (SV pos ts ss). cbn [good v_tell]. repeat split; auto; lia. }
  set (e := size - (pos + ts)).
  destruct (parent_fetch sub content ss e ts HF Hgs ltac:(unfold e; lia) ltac:(lia)
              ltac:(fold Lp; unfold e; lia)) as (r & ss1 & E1 & G1 & C1).
  rewrite E1.
  destruct HF as [_ Hr]. destruct (Hr ss1 ts G1 ltac:(lia)) as (ss2 & E2 & G2 & _).
  fold Lp in E2. rewrite E2, C1.
  assert (Hzl : zlen (slice Lp e (e + ts)) = ts) by (rewrite slice_zlen; unfold e; lia).
  rewrite Hzl, (div_mul_exact w ts) by (assumption || lia). rewrite Z.eqb_refl.
  exists (SV (pos + ts) ts ss2). cbn [good v_tell].
  split; [|split; [split; [lia|assumption]|reflexivity]].
  f_equal. f_equal.
  assert (Hp : pos mod w = 0).
  { replace pos with (pos + ts - ts) by lia. apply mod0_sub; auto; lia. }
  assert (HR : zlen R = size).
  { unfold R. rewrite rev_samples_zlen; fold Lp; try lia. now rewrite <- Hlen. }
  transitivity (slice R pos (pos + ts)).
  - unfold R. rewrite (rev_slice w Lp size pos ts) by (auto; lia).
    unfold e. f_equal. f_equal. lia.
  - unfold ts. destruct (Z_le_gt_dec n (size - pos)).
    + now rewrite Z.min_r by lia.
    + rewrite Z.min_l by lia. rewrite (slice_clip R pos (pos + n)) by lia.
      rewrite HR. f_equal. lia.
Qed.

(** * read(-1) / readall(): the rest of the file *)
(** the ordinary read-only file with read(n < 0) = read to the end *)
Definition ref_stepA (L : list Z) (pos : Z) (o : op) : out * Z :=
  match o with
  | ORead n =>
      if n <? 0 then let b := slice L pos (zlen L) in (OutBytes b, pos + zlen b)
      else ref_step L pos o
  | _ => ref_step L pos o
  end.
Fixpoint ref_runA (L : list Z) (pos : Z) (ops : list op) : list out :=
  match ops with
  | [] => []
  | o :: rest => let '(r, p') := ref_stepA L pos o in r :: ref_runA L p' rest
  end.
Lemma ref_stepA_ok L pos o : op_ok o -> ref_stepA L pos o = ref_step L pos o.
Proof. destruct o as [off wh| |n]; cbn; try reflexivity. intros. destruct (Z.ltb_spec n 0); [lia|reflexivity]. Qed.
Lemma ref_runA_ok L ops : Forall op_ok ops -> forall pos, ref_runA L pos ops = ref_run L pos ops.
Proof.
  induction 1 as [|o ops Ho _ IH]; intros pos; [reflexivity|].
  cbn [ref_runA ref_run]. rewrite (ref_stepA_ok L pos o Ho).
  destruct (ref_step L pos o) as [r p']. now rewrite IH.
Qed.

(** the readall loop over any state invariant [G] under which read(4096) is file-like *)
Lemma readall_loop v content (L : list Z) (G : vstate -> Prop) :
  (forall s, G s -> 0 <= v_tell s <= zlen L /\
     exists s', v_read v content s 4096 = (Ok (slice L (v_tell s) (v_tell s + 4096)), s')
                /\ G s' /\ v_tell s' = v_tell s + zlen (slice L (v_tell s) (v_tell s + 4096))) ->
  forall fuel s acc, G s -> (zlen L - v_tell s + 4095) / 4096 < Z.of_nat fuel ->
    exists s', v_readall fuel v content s 4096 acc = (Ok (acc ++ slice L (v_tell s) (zlen L)), s')
               /\ G s' /\ v_tell s' = zlen L.
Proof.
  intros H. induction fuel as [|fuel IH]; intros s acc Hg Hf.
  - exfalso. destruct (H s Hg) as [Hr _].
    assert (0 <= (zlen L - v_tell s + 4095) / 4096) by (apply Z.div_pos; lia). lia.
  - cbn [v_readall]. destruct (H s Hg) as (Hr & s1 & E & G1 & T). rewrite E.
    set (p := v_tell s) in *.
    destruct (Z.eq_dec p (zlen L)) as [Heq|Hne].
    + rewrite (slice_past_end L p (p + 4096)) in * by lia.
      rewrite (slice_past_end L p (zlen L)) by lia.
      exists s1. rewrite app_nil_r. split; [reflexivity|]. split; [assumption|].
      rewrite T, zlen_nil. lia.
    + assert (Hb : zlen (slice L p (p + 4096)) = Z.min 4096 (zlen L - p)) by (rewrite slice_zlen; lia).
      assert (Hcat : slice L p (zlen L)
                     = slice L p (p + 4096) ++ slice L (p + Z.min 4096 (zlen L - p)) (zlen L)).
      { destruct (Z_le_gt_dec 4096 (zlen L - p)).
        - rewrite Z.min_l by lia. apply slice_split; lia.
        - rewrite Z.min_r by lia. rewrite (slice_clip L p (p + 4096)) by lia.
          rewrite (slice_past_end L (p + (zlen L - p))) by lia. now rewrite app_nil_r. }
      rewrite Hb in T. rewrite Hcat.
      destruct (slice L p (p + 4096)) as [|x b] eqn:Eb.
      { rewrite zlen_nil in Hb. lia. }
      destruct (IH s1 (acc ++ x :: b) G1) as (s2 & E2 & G2 & T2).
      { rewrite T.
        destruct (Z_le_gt_dec 4096 (zlen L - p)).
        - rewrite Z.min_l by lia.
          replace (zlen L - p + 4095) with ((zlen L - (p + 4096) + 4095) + 1 * 4096) in Hf by lia.
          rewrite Z.div_add in Hf by lia. lia.
        - rewrite Z.min_r by lia. replace (zlen L - (p + (zlen L - p)) + 4095) with 4095 by lia.
          assert (1 <= (zlen L - p + 4095) / 4096) by (apply Z.div_le_lower_bound; lia).
          change (4095 / 4096) with 0. lia. }
      exists s2. rewrite E2, T. split; [|auto]. now rewrite <- app_assoc.
Qed.

Lemma readall_fuel size zc p : 0 <= zc -> 0 <= p <= size ->
  (size - p + 4095) / 4096 < Z.of_nat (S (Z.to_nat ((size + zc) / 4096 + 1))).
Proof.
  intros Hz Hp.
  assert ((size - p + 4095) / 4096 <= (size + zc + 1 * 4096) / 4096) by (apply Z.div_le_mono; lia).
  rewrite Z.div_add in H by lia.
  assert (0 <= (size + zc) / 4096) by (apply Z.div_pos; lia). lia.
Qed.

(** every operation, read(n < 0) included, on a reversal-free well-formed view *)
Lemma stepA_refines k size sub content s o :
  wf (V k size sub) content -> good (V k size sub) s ->
  let L := logical (V k size sub) content in
  exists s', step (V k size sub) content s o = (fst (ref_stepA L (v_tell s) o), s')
             /\ good (V k size sub) s' /\ v_tell s' = snd (ref_stepA L (v_tell s) o).
Proof.
  intros Hwf Hg L.
  destruct o as [off wh| |n];
    [exact (step_refines k size sub content s (OSeek off wh) Hwf Hg I)
    |exact (step_refines k size sub content s OTell Hwf Hg I)|].
  destruct (Z.ltb_spec n 0) as [Hneg|Hpos].
  2:{ rewrite ref_stepA_ok by (cbn; lia).
      exact (step_refines k size sub content s (ORead n) Hwf Hg Hpos). }
  pose proof (view_filelike _ _ Hwf) as [_ Hr].
  assert (Hsz : 0 < size) by (cbn [wf] in Hwf; tauto).
  assert (Hlen : zlen L = size) by (apply logical_len; lia).
  cbn [step ref_stepA fst snd]. destruct (Z.ltb_spec n 0); [|lia].
  assert (Hpos : 0 <= v_tell s <= size).
  { destruct s; cbn [good] in Hg; [tauto|]. cbn [v_tell]. tauto. }
  destruct (readall_loop (V k size sub) content L (good (V k size sub))) with
    (fuel := S (Z.to_nat ((vsize (V k size sub) content + zlen content) / 4096 + 1))) (s := s)
    (acc := @nil Z) as (s' & E & G & T).
  - intros s0 Hg0. split.
    + rewrite Hlen. destruct s0; cbn [good] in Hg0; [tauto|]. cbn [v_tell]. tauto.
    + destruct (Hr s0 4096 Hg0 ltac:(lia)) as (s1 & E1 & G1 & T1). eauto.
  - assumption.
  - rewrite Hlen. cbn [vsize]. apply readall_fuel; [apply zlen_nonneg|assumption].
  - rewrite E. cbn [app]. exists s'. split; [reflexivity|]. split; [assumption|].
    cbn [snd]. rewrite T. rewrite slice_zlen by lia. lia.
Qed.

Theorem readall_refines_file_lemma :
  forall k size sub content ops s,
    wf (V k size sub) content -> good (V k size sub) s ->
    fst (run (V k size sub) content s ops)
    = ref_runA (logical (V k size sub) content) (v_tell s) ops.
Proof.
  intros k size sub content ops. induction ops as [|o ops IH]; intros s Hwf Hg; [reflexivity|].
  cbn [run ref_runA].
  destruct (stepA_refines k size sub content s o Hwf Hg) as (s' & E & G & T).
  rewrite E. destruct (ref_stepA _ (v_tell s) o) as [r p'] eqn:ER. cbn [fst snd] in *.
  specialize (IH s' Hwf G). destruct (run _ content s' ops) as [rs s2].
  cbn [fst] in *. rewrite IH, T. reflexivity.
Qed.

(** one read(n < 0): the rest of the logical content, the position ends at the end, the
    loop never runs out of fuel *)
Lemma readall_step_lemma k size sub content s n :
  wf (V k size sub) content -> good (V k size sub) s -> n < 0 ->
  let L := logical (V k size sub) content in
  exists s', step (V k size sub) content s (ORead n) = (OutBytes (slice L (v_tell s) (zlen L)), s')
             /\ good (V k size sub) s' /\ v_tell s' = zlen L.
Proof.
  intros Hwf Hg Hn L.
  destruct (stepA_refines k size sub content s (ORead n) Hwf Hg) as (s' & E & G & T).
  fold L in E, T. cbn [ref_stepA fst snd] in E, T. destruct (Z.ltb_spec n 0); [|lia].
  cbn [fst snd] in E, T. exists s'. split; [assumption|]. split; [assumption|].
  assert (Hsz : 0 < size) by (cbn [wf] in Hwf; tauto).
  assert (Hlen : zlen L = size) by (apply logical_len; lia).
  assert (Hpos : 0 <= v_tell s <= size).
  { destruct s; cbn [good] in Hg; [tauto|]. cbn [v_tell]. tauto. }
  rewrite T, slice_zlen by lia. lia.
Qed.

(** * The reversed view refines "ordinary file over the reversed content + alignment checks" *)
Definition aligned (w x : Z) : bool := x mod w =? 0.
(** Reference machine.  [ref_stepA R pos o] is what the ordinary read-only file over [R] does.
    The reversed view does the same provided that
      - seek: the (clamped) target position is a whole number of samples, else BadAlign;
      - read: the number of bytes of the first block it fetches (the whole read clipped at the
        end of file; for read(n < 0) one buffer of 4096 clipped at the end of file) is a whole
        number of samples, else BadReadSize; and that block ends (equivalently, as the size is
        a whole number of samples, starts) on a sample boundary, else BadAlign;
    and a rejected operation leaves the position unchanged. *)
Definition rev_ref_step (w : Z) (R : list Z) (pos : Z) (o : op) : out * Z :=
  match o with
  | OTell => ref_stepA R pos o
  | OSeek _ _ =>
      if aligned w (snd (ref_stepA R pos o)) then ref_stepA R pos o else (OutErr BadAlign, pos)
  | ORead n =>
      let blk := zlen (slice R pos (pos + (if n <? 0 then 4096 else n))) in
      if negb (aligned w blk) then (OutErr BadReadSize, pos)
      else if negb (aligned w (pos + blk)) then (OutErr BadAlign, pos)
      else ref_stepA R pos o
  end.
Fixpoint rev_ref_run (w : Z) (R : list Z) (pos : Z) (ops : list op) : list out :=
  match ops with
  | [] => []
  | o :: rest => let '(r, p') := rev_ref_step w R pos o in r :: rev_ref_run w R p' rest
  end.

Lemma seek_target_ref size pos off wh : 0 < size ->
  seek_target size pos off wh
  = Z.max 0 (Z.min size ((if wh =? 1 then pos else if wh =? 2 then size else 0) + off)).
Proof.
  intros Hsize. unfold seek_target. rewrite clamp_pos_pos by assumption.
  destruct (Z.gtb_spec ((if wh =? 1 then pos else if wh =? 2 then size else 0) + off) size); [lia|].
  destruct (Z.ltb_spec ((if wh =? 1 then pos else if wh =? 2 then size else 0) + off) 0); lia.
Qed.

Lemma rev_content_len w size sub content :
  wf_rev w size sub content -> zlen (rev_samples w (logical sub content)) = size.
Proof.
  intros (Hw & Hsize & Hmod & Hlen & _). rewrite rev_samples_zlen; try lia. now rewrite <- Hlen.
Qed.

(** the state invariant of the readall loop of a reversed view *)
Definition rev_all_inv (w size : Z) (sub : view) (s : vstate) : Prop :=
  good (V (KRev w) size sub) s /\ v_tell s mod w = 0 /\ (4096 mod w = 0 \/ size - v_tell s <= 4096).

Lemma rev_readall_block w size sub content :
  wf_rev w size sub content ->
  let R := rev_samples w (logical sub content) in
  forall s, rev_all_inv w size sub s -> 0 <= v_tell s <= zlen R /\
    exists s', v_read (V (KRev w) size sub) content s 4096
               = (Ok (slice R (v_tell s) (v_tell s + 4096)), s')
               /\ rev_all_inv w size sub s'
               /\ v_tell s' = v_tell s + zlen (slice R (v_tell s) (v_tell s + 4096)).
Proof.
  intros Hwf R s (Hg & Hal & Hbuf).
  pose proof (rev_content_len _ _ _ _ Hwf) as HR. fold R in HR.
  pose proof Hwf as (Hw & Hsize & Hmod & Hlen & _).
  assert (Hpos : 0 <= v_tell s <= size).
  { destruct s; cbn [good] in Hg; [tauto|]. cbn [v_tell]. tauto. }
  split; [lia|].
  destruct (rev_read_step w size sub content Hwf s 4096 Hg ltac:(lia)) as (s' & E & G & T).
  fold R in E. set (ts := Z.min (size - v_tell s) 4096) in *.
  assert (Hts : ts mod w = 0).
  { unfold ts. destruct Hbuf as [Hb|Hb].
    - destruct (Z_le_gt_dec (size - v_tell s) 4096);
        [rewrite Z.min_l by lia; apply mod0_sub; auto; lia | rewrite Z.min_r by lia; assumption].
    - rewrite Z.min_l by lia. apply mod0_sub; auto; lia. }
  assert (Hend : (v_tell s + ts) mod w = 0) by (apply mod0_add; auto; lia).
  rewrite Hts, Hend in E, T. cbn [Z.eqb negb andb] in E, T.
  exists s'. split; [assumption|].
  assert (Hzl : zlen (slice R (v_tell s) (v_tell s + 4096)) = ts) by (rewrite slice_zlen; unfold ts; lia).
  rewrite Hzl. split; [|assumption].
  split; [assumption|]. rewrite T. split; [assumption|].
  destruct Hbuf; [now left|right; unfold ts; lia].
Qed.

Lemma rev_step_refines w size sub content s o :
  wf_rev w size sub content -> good (V (KRev w) size sub) s ->
  let R := rev_samples w (logical sub content) in
  exists s', step (V (KRev w) size sub) content s o = (fst (rev_ref_step w R (v_tell s) o), s')
             /\ good (V (KRev w) size sub) s'
             /\ v_tell s' = snd (rev_ref_step w R (v_tell s) o).
Proof.
  intros Hwf Hg R.
  pose proof (rev_content_len _ _ _ _ Hwf) as HR. fold R in HR.
  pose proof Hwf as (Hw & Hsize & Hmod & Hlen & _).
  assert (Hpos : 0 <= v_tell s <= size).
  { destruct s; cbn [good] in Hg; [tauto|]. cbn [v_tell]. tauto. }
  destruct o as [off wh| |n].
  - (* seek *)
    destruct (rev_seek_step w size sub content Hwf s off wh Hg) as (s' & E & G & T).
    cbn [step rev_ref_step ref_stepA ref_step fst snd]. unfold aligned. rewrite HR.
    rewrite <- seek_target_ref by lia. rewrite E.
    destruct (seek_target size (v_tell s) off wh mod w =? 0); cbn [fst snd]; eauto.
  - exists s. cbn. auto.
  - cbn [step rev_ref_step]. unfold aligned.
    destruct (Z.ltb_spec n 0) as [Hneg|Hnn].
    + (* readall: the first block decides *)
      assert (Hblk : zlen (slice R (v_tell s) (v_tell s + 4096)) = Z.min (size - v_tell s) 4096)
        by (rewrite slice_zlen; lia).
      rewrite Hblk. set (ts := Z.min (size - v_tell s) 4096) in *.
      destruct (rev_read_step w size sub content Hwf s 4096 Hg ltac:(lia)) as (s1 & E1 & G1 & T1).
      fold R ts in E1, T1.
      cbn [v_readall]. 
      destruct (Z.eqb_spec (ts mod w) 0) as [Ht|Ht]; cbn [negb andb] in *.
      2:{ rewrite E1. exists s1. cbn [fst snd]. auto. }
      destruct (Z.eqb_spec ((v_tell s + ts) mod w) 0) as [Ha|Ha]; cbn [negb] in *.
      2:{ rewrite E1. exists s1. cbn [fst snd]. auto. }
      clear s1 E1 G1 T1.
      assert (Hinv : rev_all_inv w size sub s).
      { split; [assumption|]. split.
        - replace (v_tell s) with (v_tell s + ts - ts) by lia. apply mod0_sub; auto; lia.
        - destruct (Z_le_gt_dec (size - v_tell s) 4096); [now right|left].
          unfold ts in Ht. now rewrite Z.min_r in Ht by lia. }
      destruct (readall_loop (V (KRev w) size sub) content R (rev_all_inv w size sub)
                  (rev_readall_block w size sub content Hwf)
                  (S (Z.to_nat ((vsize (V (KRev w) size sub) content + zlen content) / 4096 + 1)))
                  s [] Hinv) as (s' & E & (G & _) & T).
      { rewrite HR. cbn [vsize]. apply readall_fuel; [apply zlen_nonneg|assumption]. }
      cbn [v_readall] in E. rewrite E. cbn [app ref_stepA fst snd].
      destruct (Z.ltb_spec n 0); [|lia]. cbn [fst snd].
      exists s'. split; [reflexivity|]. split; [assumption|].
      rewrite T, slice_zlen by lia. lia.
    + destruct (rev_read_step w size sub content Hwf s n Hg Hnn) as (s' & E & G & T).
      fold R in E.
      assert (Hblk : zlen (slice R (v_tell s) (v_tell s + n)) = Z.min (size - v_tell s) n)
        by (rewrite slice_zlen; lia).
      rewrite Hblk. rewrite E. set (ts := Z.min (size - v_tell s) n) in *.
      destruct (ts mod w =? 0); cbn [negb andb] in *; [|exists s'; cbn [fst snd]; auto].
      destruct ((v_tell s + ts) mod w =? 0); cbn [negb] in *; [|exists s'; cbn [fst snd]; auto].
      cbn [ref_stepA ref_step]. destruct (Z.ltb_spec n 0); [lia|]. cbn [fst snd].
      exists s'. rewrite Hblk. auto.
Qed.

Theorem reversed_view_refines_file_lemma :
  forall w size sub content ops s,
    wf_rev w size sub content -> good (V (KRev w) size sub) s ->
    fst (run (V (KRev w) size sub) content s ops)
    = rev_ref_run w (rev_samples w (logical sub content)) (v_tell s) ops.
Proof.
  intros w size sub content ops. induction ops as [|o ops IH]; intros s Hwf Hg; [reflexivity|].
  cbn [run rev_ref_run].
  destruct (rev_step_refines w size sub content s o Hwf Hg) as (s' & E & G & T).
  rewrite E. destruct (rev_ref_step w _ (v_tell s) o) as [r p'] eqn:ER. cbn [fst snd] in *.
  specialize (IH s' Hwf G). destruct (run _ content s' ops) as [rs s2].
  cbn [fst] in *. rewrite IH, T. reflexivity.
Qed.

(** a rejected operation: BadAlign / BadReadSize only, position unchanged *)
Lemma rev_ref_step_rejected w R pos o e :
  fst (rev_ref_step w R pos o) = OutErr e ->
  snd (rev_ref_step w R pos o) = pos /\ (e = BadAlign \/ e = BadReadSize).
Proof.
  destruct o as [off wh| |n]; cbn [rev_ref_step ref_stepA ref_step].
  - destruct (aligned w _); cbn [fst snd]; [discriminate|]. intros [= <-]. auto.
  - cbn [fst]. discriminate.
  - destruct (negb (aligned w _)); cbn [fst snd]; [intros [= <-]; auto|].
    destruct (negb (aligned w _)); cbn [fst snd]; [intros [= <-]; auto|].
    destruct (n <? 0); cbn [fst]; discriminate.
Qed.

(** * Sample-aligned histories: exactly the ordinary file over the reversed content *)
(** positions the ordinary file goes through *)
Fixpoint ref_positions (L : list Z) (pos : Z) (ops : list op) : list Z :=
  match ops with
  | [] => []
  | o :: rest => let p' := snd (ref_step L pos o) in p' :: ref_positions L p' rest
  end.

Lemma rev_ref_step_aligned w R pos o : 0 < w -> op_ok o -> pos mod w = 0 ->
  snd (ref_step R pos o) mod w = 0 -> rev_ref_step w R pos o = ref_step R pos o.
Proof.
  intros Hw Ho Hp Hnp. destruct o as [off wh| |n]; cbn [rev_ref_step].
  - rewrite ref_stepA_ok by exact I. unfold aligned. rewrite Hnp. reflexivity.
  - reflexivity.
  - cbn in Ho. destruct (Z.ltb_spec n 0); [lia|]. rewrite ref_stepA_ok by (cbn; lia).
    cbn [ref_step snd] in *. unfold aligned.
    set (blk := zlen (slice R pos (pos + n))) in *.
    assert (Hb : blk mod w = 0) by (replace blk with (pos + blk - pos) by lia; apply mod0_sub; auto).
    rewrite Hb, Hnp. reflexivity.
Qed.

Lemma rev_ref_run_aligned w R : 0 < w -> forall ops pos,
  Forall op_ok ops -> pos mod w = 0 ->
  Forall (fun p => p mod w = 0) (ref_positions R pos ops) ->
  rev_ref_run w R pos ops = ref_run R pos ops.
Proof.
  intros Hw. induction ops as [|o ops IH]; intros pos Hok Hp Hps; [reflexivity|].
  inversion Hok as [|? ? Ho Hrest]; subst. cbn [ref_positions] in Hps.
  inversion Hps as [|? ? Hp1 Hps1]; subst.
  cbn [rev_ref_run ref_run]. rewrite rev_ref_step_aligned by assumption.
  destruct (ref_step R pos o) as [r p'] eqn:E. cbn [snd] in *. f_equal. now apply IH.
Qed.

(** operations whose arguments are whole numbers of samples *)
Definition op_aligned (w : Z) (o : op) : Prop :=
  match o with
  | OSeek off _ => off mod w = 0
  | ORead n => 0 <= n /\ n mod w = 0
  | OTell => True
  end.
Lemma op_aligned_ok w o : op_aligned w o -> op_ok o.
Proof. destruct o; cbn; tauto. Qed.

Lemma ref_step_keeps_aligned w R pos o :
  0 < w -> zlen R mod w = 0 -> 0 <= pos <= zlen R -> pos mod w = 0 -> op_aligned w o ->
  0 <= snd (ref_step R pos o) <= zlen R /\ snd (ref_step R pos o) mod w = 0.
Proof.
  intros Hw HR Hpos Hp Ho. assert (H0 : 0 mod w = 0) by (apply Z.mod_0_l; lia).
  destruct o as [off wh| |n]; cbn [ref_step snd op_aligned] in *.
  - set (start := if wh =? 1 then pos else if wh =? 2 then zlen R else 0).
    assert (Hst : start mod w = 0) by (unfold start; destruct (wh =? 1); [|destruct (wh =? 2)]; assumption).
    assert (Hso : (start + off) mod w = 0) by (apply mod0_add; assumption).
    split; [lia|].
    destruct (Z.max_spec 0 (Z.min (zlen R) (start + off))) as [[_ ->]|[_ ->]]; [|assumption].
    destruct (Z.min_spec (zlen R) (start + off)) as [[_ ->]|[_ ->]]; assumption.
  - auto.
  - destruct Ho as [Hn Hnw]. rewrite slice_zlen by lia.
    replace (pos + n - pos) with n by lia.
    split; [lia|]. apply mod0_add; try assumption.
    destruct (Z.max_spec 0 (Z.min n (zlen R - pos))) as [[_ ->]|[_ ->]]; [|assumption].
    destruct (Z.min_spec n (zlen R - pos)) as [[_ ->]|[_ ->]]; [assumption|].
    apply mod0_sub; assumption.
Qed.

Lemma aligned_ops_positions w R : 0 < w -> zlen R mod w = 0 -> forall ops pos,
  0 <= pos <= zlen R -> pos mod w = 0 -> Forall (op_aligned w) ops ->
  Forall (fun p => p mod w = 0) (ref_positions R pos ops).
Proof.
  intros Hw HR. induction ops as [|o ops IH]; intros pos Hpos Hp Hops; [constructor|].
  inversion Hops as [|? ? Ho Hrest]; subst. cbn [ref_positions].
  destruct (ref_step_keeps_aligned w R pos o Hw HR Hpos Hp Ho) as [Hr Ha].
  constructor; [assumption|]. now apply IH.
Qed.

Theorem reversed_view_aligned_positions_lemma :
  forall w size sub content ops s,
    wf_rev w size sub content -> good (V (KRev w) size sub) s -> Forall op_ok ops ->
    v_tell s mod w = 0 ->
    Forall (fun p => p mod w = 0)
           (ref_positions (rev_samples w (logical sub content)) (v_tell s) ops) ->
    fst (run (V (KRev w) size sub) content s ops)
    = ref_run (rev_samples w (logical sub content)) (v_tell s) ops.
Proof.
  intros w size sub content ops s Hwf Hg Hok Hp Hps.
  rewrite reversed_view_refines_file_lemma by assumption.
  apply rev_ref_run_aligned; try assumption. destruct Hwf; lia.
Qed.

Theorem reversed_view_aligned_ops_lemma :
  forall w size sub content ops s,
    wf_rev w size sub content -> good (V (KRev w) size sub) s ->
    v_tell s mod w = 0 -> Forall (op_aligned w) ops ->
    fst (run (V (KRev w) size sub) content s ops)
    = ref_run (rev_samples w (logical sub content)) (v_tell s) ops.
Proof.
  intros w size sub content ops s Hwf Hg Hp Hops.
  pose proof (rev_content_len _ _ _ _ Hwf) as HR.
  pose proof Hwf as (Hw & Hsize & Hmod & Hlen & _).
  assert (Hpos : 0 <= v_tell s <= size).
  { destruct s; cbn [good] in Hg; [tauto|]. cbn [v_tell]. tauto. }
  apply reversed_view_aligned_positions_lemma; try assumption.
  - eapply Forall_impl; [apply op_aligned_ok|eassumption].
  - apply aligned_ops_positions; try assumption; try lia; rewrite HR; assumption || lia.
Qed.

(** sample width 1: every operation is aligned; the reversed view is an ordinary file for
    every history, read(n < 0) included *)
Theorem reversed_view_width1_lemma :
  forall size sub content ops s,
    wf_rev 1 size sub content -> good (V (KRev 1) size sub) s ->
    fst (run (V (KRev 1) size sub) content s ops)
    = ref_runA (rev_samples 1 (logical sub content)) (v_tell s) ops.
Proof.
  intros size sub content ops s Hwf Hg.
  rewrite reversed_view_refines_file_lemma by assumption.
  generalize (v_tell s) as pos. generalize (rev_samples 1 (logical sub content)) as R. intros R.
  induction ops as [|o ops IH]; intros pos; [reflexivity|].
  cbn [rev_ref_run ref_runA].
  assert (E : rev_ref_step 1 R pos o = ref_stepA R pos o).
  { destruct o; cbn [rev_ref_step]; unfold aligned; rewrite ?Z.mod_1_r; reflexivity. }
  rewrite E. destruct (ref_stepA R pos o) as [r p']. now rewrite IH.
Qed.

(** * The reversed content byte by byte: [logical] of a reversed view IS [rev_samples] *)
Lemma znth_app_l {A} (d : A) (c l : list A) i : 0 <= i < zlen c -> znth d (c ++ l) i = znth d c i.
Proof. intros H. unfold znth, zlen in *. apply app_nth1. lia. Qed.
Lemma znth_app_r {A} (d : A) (c l : list A) i : 0 <= i -> znth d (c ++ l) (zlen c + i) = znth d l i.
Proof.
  intros H. unfold znth, zlen.
  replace (Z.to_nat (Z.of_nat (length c) + i)) with (length c + Z.to_nat i)%nat by lia.
  apply app_nth2_plus.
Qed.
Lemma map_znth_all {A} (d : A) (c : list A) : map (znth d c) (zrange 0 (zlen c)) = c.
Proof.
  pose proof (zlen_nonneg c).
  rewrite <- (slice_full c) at 3. replace (zlen c) with (0 + zlen c) by lia.
  symmetry. apply slice_map_znth; lia.
Qed.

Lemma rev_samples_pointwise w Ls : 0 < w -> zlen Ls mod w = 0 ->
  rev_samples w Ls
  = map (fun a => znth 0 Ls (zlen Ls - (a / w + 1) * w + a mod w)) (zrange 0 (zlen Ls)).
Proof.
  intros Hw. revert Ls. apply (chunk_ind w); [assumption|reflexivity|].
  intros c l Hc Hl IH. rewrite rev_samples_chunk by assumption.
  pose proof (zlen_nonneg l) as Hl0.
  rewrite zlen_app, Hc.
  rewrite (zrange_app 0 (zlen l) (w + zlen l)) by lia. rewrite map_app. f_equal.
  - rewrite IH. apply map_ext_zrange. intros a Ha.
    pose proof (Z.div_mod (zlen l) w ltac:(lia)) as Hq. rewrite Hl in Hq.
    assert (Hd : a / w < zlen l / w) by (apply Z.div_lt_upper_bound; lia).
    pose proof (Z.mod_pos_bound a w Hw).
    assert (0 <= zlen l - (a / w + 1) * w) by nia.
    replace (w + zlen l - (a / w + 1) * w + a mod w)
      with (zlen c + (zlen l - (a / w + 1) * w + a mod w)) by lia.
    symmetry. apply znth_app_r. lia.
  - replace (zlen l) with (0 + zlen l) at 1 by lia.
    rewrite zrange_shift, map_map.
    rewrite <- (map_znth_all 0 c) at 1. rewrite Hc. apply map_ext_zrange. intros a Ha.
    pose proof (Z.div_mod (zlen l) w ltac:(lia)) as Hq. rewrite Hl in Hq.
    replace (a + zlen l) with (a + (zlen l / w) * w) by lia.
    rewrite Z.div_add, Z.mod_add by lia. rewrite Z.div_small, Z.mod_small by lia.
    rewrite <- (znth_app_l 0 c l a) by lia. f_equal. lia.
Qed.

Lemma logical_rev w size sub content :
  wf_rev w size sub content ->
  logical (V (KRev w) size sub) content = rev_samples w (logical sub content).
Proof.
  intros (Hw & Hsize & Hmod & Hlen & _).
  rewrite rev_samples_pointwise by (try lia; now rewrite <- Hlen).
  cbn [logical addr]. now rewrite <- Hlen.
Qed.

(** a fresh reversed view: good, at the aligned position 0 *)
Lemma init_good_rev w size sub content c :
  wf_rev w size sub content -> 0 <= c ->
  good (V (KRev w) size sub) (init_state (V (KRev w) size sub) c)
  /\ v_tell (init_state (V (KRev w) size sub) c) mod w = 0.
Proof.
  intros (Hw & Hsize & Hmod & Hlen & Hwfs) Hc. cbn [init_state good v_tell].
  split; [split; [lia|eapply init_good; eauto]|]. apply Z.mod_0_l. lia.
Qed.

(** read(n < 0) of a reversed view from a sample-aligned position, when the sample width
    divides the 4096-byte buffer (or no more than one buffer is left): the rest of the
    reversed content, position at the end *)
Lemma rev_readall_step_lemma w size sub content s n :
  wf_rev w size sub content -> good (V (KRev w) size sub) s -> n < 0 ->
  v_tell s mod w = 0 -> (4096 mod w = 0 \/ size - v_tell s <= 4096) ->
  let R := rev_samples w (logical sub content) in
  exists s', step (V (KRev w) size sub) content s (ORead n)
             = (OutBytes (slice R (v_tell s) (zlen R)), s')
             /\ good (V (KRev w) size sub) s' /\ v_tell s' = zlen R.
Proof.
  intros Hwf Hg Hn Hp Hbuf R.
  destruct (rev_step_refines w size sub content s (ORead n) Hwf Hg) as (s' & E & G & T).
  fold R in E, T.
  pose proof (rev_content_len _ _ _ _ Hwf) as HR. fold R in HR.
  pose proof Hwf as (Hw & Hsize & Hmod & Hlen & _).
  assert (Hpos : 0 <= v_tell s <= size).
  { destruct s; cbn [good] in Hg; [tauto|]. cbn [v_tell]. tauto. }
  cbn [rev_ref_step] in E, T. unfold aligned in E, T.
  destruct (Z.ltb_spec n 0); [|lia].
  assert (Hblk : zlen (slice R (v_tell s) (v_tell s + 4096)) = Z.min (size - v_tell s) 4096)
    by (rewrite slice_zlen; lia).
  rewrite Hblk in E, T. set (ts := Z.min (size - v_tell s) 4096) in *.
  assert (Hts : ts mod w = 0).
  { unfold ts. destruct Hbuf as [Hb|Hb].
    - destruct (Z_le_gt_dec (size - v_tell s) 4096);
        [rewrite Z.min_l by lia; apply mod0_sub; auto; lia | rewrite Z.min_r by lia; assumption].
    - rewrite Z.min_l by lia. apply mod0_sub; auto; lia. }
  assert (Hend : (v_tell s + ts) mod w = 0) by (apply mod0_add; auto; lia).
  rewrite Hts, Hend in E, T. cbn [Z.eqb negb ref_stepA fst snd] in E, T.
  destruct (Z.ltb_spec n 0); [|lia]. cbn [fst snd] in E, T.
  exists s'. split; [assumption|]. split; [assumption|].
  rewrite T, slice_zlen by lia. lia.
Qed.
