(** Unbounded theorems about the transcoder model (Transcode.v): the output of
    [transcode] for ANY number of streams, any common sample width, any channel counts,
    any byte orders, any lengths and any block size, as a closed formula; with the
    corollaries asked for by property C12 (frame map, length bounds, equal-length case,
    block-size independence, stereo pair, passthrough). *)
From SE Require Import Base Transcode FatProofs TranscodeProofs.
From Coq Require Import Arith.

Local Open Scope nat_scope.

(** * Generic list facts *)
Lemma nth_error_firstn_lt {A} (l : list A) : forall n i, i < n -> nth_error (firstn n l) i = nth_error l i.
Proof.
  induction l as [|x l IH]; intros n i Hi.
  - rewrite firstn_nil. reflexivity.
  - destruct n; [lia|]. destruct i; [reflexivity|]. cbn [firstn nth_error]. apply IH. lia.
Qed.
Lemma nth_error_skipn_add {A} (l : list A) : forall n i, nth_error (skipn n l) i = nth_error l (n + i).
Proof.
  induction l as [|x l IH]; intros n i.
  - rewrite skipn_nil. destruct i, n; reflexivity.
  - destruct n; [reflexivity|]. cbn [skipn Nat.add nth_error]. apply IH.
Qed.
Lemma map_seq_shift {A} (f : nat -> A) : forall n a, map f (seq a n) = map (fun i => f (a + i)) (seq 0 n).
Proof.
  intros n a. rewrite <- (Nat.add_0_r a) at 1. generalize 0 as b.
  induction n as [|n IH]; intros b; [reflexivity|].
  cbn [seq map]. f_equal. rewrite <- IH. f_equal. f_equal. lia.
Qed.
Lemma seq_split_add a b : seq 0 (a + b) = seq 0 a ++ seq a b.
Proof. rewrite seq_app. reflexivity. Qed.
Lemma firstn_add {A} (l : list A) : forall a b, firstn (a + b) l = firstn a l ++ firstn b (skipn a l).
Proof.
  induction l as [|x l IH]; intros a b.
  - rewrite skipn_nil, !firstn_nil. reflexivity.
  - destruct a; [reflexivity|]. cbn [Nat.add firstn skipn app]. f_equal. apply IH.
Qed.
Lemma skipn_add {A} (l : list A) : forall a b, skipn (a + b) l = skipn b (skipn a l).
Proof.
  induction l as [|x l IH]; intros a b.
  - rewrite !skipn_nil. reflexivity.
  - destruct a; [reflexivity|]. cbn [Nat.add skipn]. apply IH.
Qed.

(** * [pieces] with enough fuel *)
Definition pcs (n : nat) (l : list Z) : list (list Z) := pieces (length l) n l.

Lemma pieces_fuel n : 0 < n -> forall f1 f2 l, length l <= f1 -> length l <= f2 -> pieces f1 n l = pieces f2 n l.
Proof.
  intros Hn. induction f1 as [|f1 IH]; intros f2 l H1 H2.
  - destruct l; [|cbn in H1; lia]. destruct f2; [reflexivity|]. cbn [pieces length].
    destruct (Nat.ltb_spec 0 n); [reflexivity|lia].
  - destruct f2.
    + destruct l; [|cbn in H2; lia]. cbn [pieces length]. destruct (Nat.ltb_spec 0 n); [reflexivity|lia].
    + cbn [pieces]. destruct (Nat.ltb_spec (length l) n) as [Hl|Hl]; [reflexivity|].
      destruct (Nat.eqb_spec n 0); [lia|]. cbn [orb]. f_equal.
      apply IH; rewrite skipn_length; lia.
Qed.
Lemma pcs_short n l : length l < n -> pcs n l = [].
Proof.
  intros H. unfold pcs. destruct (length l) eqn:E; [reflexivity|]. cbn [pieces]. rewrite E.
  destruct (Nat.ltb_spec (S n0) n); [reflexivity|lia].
Qed.
Lemma pcs_step n l : 0 < n -> n <= length l -> pcs n l = firstn n l :: pcs n (skipn n l).
Proof.
  intros Hn H. unfold pcs. destruct (length l) eqn:E; [lia|]. cbn [pieces]. rewrite E.
  destruct (Nat.ltb_spec (S n0) n); [lia|]. destruct (Nat.eqb_spec n 0); [lia|]. cbn [orb].
  f_equal. apply pieces_fuel; [assumption| |lia]. rewrite skipn_length. lia.
Qed.
Lemma pcs_nil n : pcs n [] = [].
Proof. reflexivity. Qed.

Lemma pcs_skipn n : 0 < n -> forall k l, pcs n (skipn (k * n) l) = skipn k (pcs n l).
Proof.
  intros Hn. induction k as [|k IH]; intros l; [reflexivity|].
  cbn [Nat.mul]. rewrite skipn_add.
  destruct (Nat.ltb_spec (length l) n) as [Hl|Hl].
  - rewrite (pcs_short n l Hl), skipn_nil. rewrite (skipn_all2 l) by lia. rewrite skipn_nil. reflexivity.
  - rewrite (pcs_step n l Hn Hl). cbn [skipn]. apply IH.
Qed.
Lemma pcs_firstn n : 0 < n -> forall k l, pcs n (firstn (k * n) l) = firstn k (pcs n l).
Proof.
  intros Hn. induction k as [|k IH]; intros l; [reflexivity|].
  destruct (Nat.ltb_spec (length l) n) as [Hl|Hl].
  - rewrite (pcs_short n l Hl), firstn_nil. apply pcs_short. rewrite firstn_length. lia.
  - rewrite (pcs_step n l Hn Hl). cbn [firstn Nat.mul].
    rewrite pcs_step; [|assumption|rewrite firstn_length; lia].
    rewrite firstn_firstn, Nat.min_l by lia. f_equal.
    rewrite skipn_firstn_comm. replace (n + k * n - n) with (k * n) by lia. apply IH.
Qed.
Lemma pcs_length n : 0 < n -> forall l, length (pcs n l) = length l / n.
Proof.
  intros Hn l. remember (length l) as m eqn:E. revert l E.
  induction m as [m IH] using lt_wf_ind. intros l E.
  destruct (Nat.ltb_spec (length l) n) as [Hl|Hl].
  - rewrite (pcs_short n l Hl). rewrite Nat.div_small by lia. reflexivity.
  - rewrite (pcs_step n l Hn Hl). cbn [length].
    rewrite (IH (m - n)); [| lia | rewrite skipn_length; lia].
    replace m with ((m - n) + 1 * n) at 2 by lia. rewrite Nat.div_add by lia. lia.
Qed.
Lemma pcs_elem_length n : 0 < n -> forall l x, In x (pcs n l) -> length x = n.
Proof.
  intros Hn l. remember (length l) as m eqn:E. revert l E.
  induction m as [m IH] using lt_wf_ind. intros l E x Hx.
  destruct (Nat.ltb_spec (length l) n) as [Hl|Hl].
  - rewrite (pcs_short n l Hl) in Hx. destruct Hx.
  - rewrite (pcs_step n l Hn Hl) in Hx. destruct Hx as [<-|Hx].
    + rewrite firstn_length. lia.
    + eapply (IH (m - n)); [| |exact Hx]; [lia|rewrite skipn_length; lia].
Qed.
Lemma pcs_concat n : 0 < n -> forall l, concat (pcs n l) = firstn (length l / n * n) l.
Proof.
  intros Hn l. remember (length l) as m eqn:E. revert l E.
  induction m as [m IH] using lt_wf_ind. intros l E.
  destruct (Nat.ltb_spec (length l) n) as [Hl|Hl].
  - rewrite (pcs_short n l Hl). rewrite Nat.div_small by lia. reflexivity.
  - rewrite (pcs_step n l Hn Hl). cbn [concat].
    rewrite (IH (m - n) ltac:(lia) (skipn n l)) by (rewrite skipn_length; lia).
    replace m with ((m - n) + 1 * n) at 2 by lia. rewrite Nat.div_add by lia.
    replace (((m - n) / n + 1) * n) with (n + (m - n) / n * n) by lia.
    rewrite firstn_add. reflexivity.
Qed.
Lemma pcs_nth n : 0 < n -> forall l j, j < length l / n ->
  nth_error (pcs n l) j = Some (firstn n (skipn (j * n) l)).
Proof.
  intros Hn l j Hj.
  assert (H : nth_error (skipn j (pcs n l)) 0 = nth_error (pcs n l) j)
    by (rewrite nth_error_skipn_add; f_equal; lia).
  rewrite <- H, <- pcs_skipn by assumption.
  assert (Hlen : n <= length (skipn (j * n) l)).
  { rewrite skipn_length. assert (S j * n <= length l); [|lia].
    pose proof (Nat.mul_div_le (length l) n ltac:(lia)).
    assert (S j * n <= length l / n * n) by (apply Nat.mul_le_mono_r; lia). lia. }
  rewrite pcs_step by assumption. reflexivity.
Qed.

(** * resize_buffer and decode_block *)
Ltac Zify.zify_post_hook ::= Z.to_euclidean_division_equations.

Lemma to_nat_div_mul (len : nat) (fs : Z) : (0 < fs)%Z ->
  Z.to_nat (Z.of_nat len / fs * fs) = len / Z.to_nat fs * Z.to_nat fs.
Proof.
  intros H. rewrite <- (Z2Nat.id fs) at 1 2 by lia.
  rewrite <- Nat2Z.inj_div, <- Nat2Z.inj_mul. apply Nat2Z.id.
Qed.
Lemma resize_buffer_eq buf fs : (0 < fs)%Z ->
  resize_buffer buf fs = firstn (length buf / Z.to_nat fs * Z.to_nat fs) buf.
Proof.
  intros H. unfold resize_buffer, zlen. rewrite <- to_nat_div_mul by assumption.
  destruct (Z.eqb_spec (Z.of_nat (length buf) mod fs) 0) as [E|E]; [|reflexivity].
  rewrite firstn_all2; [reflexivity|]. lia.
Qed.
Lemma pcs_resize buf fs : (0 < fs)%Z -> pcs (Z.to_nat fs) (resize_buffer buf fs) = pcs (Z.to_nat fs) buf.
Proof.
  intros H. rewrite resize_buffer_eq by assumption. rewrite pcs_firstn by lia.
  apply firstn_all2. rewrite pcs_length by lia. lia.
Qed.

Definition dec_frame (s : src) (fr : list Z) : list (list Z) :=
  map (le_sample s) (pcs (Z.to_nat (swidth s)) fr).
Lemma decode_block_eq s buf : (0 < frame_size s)%Z ->
  decode_block s buf = map (dec_frame s) (pcs (Z.to_nat (frame_size s)) buf).
Proof.
  intros H. unfold decode_block, frames_of. fold (pcs (Z.to_nat (frame_size s)) (resize_buffer buf (frame_size s))).
  rewrite pcs_resize by assumption. reflexivity.
Qed.
Lemma decode_block_firstn s buf k : (0 < frame_size s)%Z ->
  decode_block s (firstn (k * Z.to_nat (frame_size s)) buf) = firstn k (decode_block s buf).
Proof. intros H. rewrite !decode_block_eq by assumption. rewrite pcs_firstn by lia. symmetry. apply firstn_map. Qed.
Lemma decode_block_skipn s buf k : (0 < frame_size s)%Z ->
  decode_block s (skipn (k * Z.to_nat (frame_size s)) buf) = skipn k (decode_block s buf).
Proof. intros H. rewrite !decode_block_eq by assumption. rewrite pcs_skipn by lia. symmetry. apply skipn_map. Qed.
Lemma decode_block_length s buf : (0 < frame_size s)%Z ->
  length (decode_block s buf) = length buf / Z.to_nat (frame_size s).
Proof. intros H. rewrite decode_block_eq by assumption. rewrite map_length. apply pcs_length. lia. Qed.

(** * The pipeline on decoded streams
    [apipe] is [pipeline] seen through [decode_block]: the state is, per stream, the list
    of its not yet consumed decoded frames; a block is the first [nf] of them. *)
Fixpoint apipe (fuel : nat) (ss : list src) (nf : nat) (D : list (list (list (list Z)))) (acc : list Z)
  : res (list Z) :=
  match fuel with
  | O => OutOfFuel
  | S f =>
      let blocks := map (firstn nf) D in
      if existsb (fun b => match b with [] => true | _ => false end) blocks then Ok acc
      else apipe f ss nf (map (skipn nf) D) (acc ++ encode_block ss blocks)
  end.
Definition decs (ss : list src) (rests : list (list Z)) : list (list (list (list Z))) :=
  map (fun sr => decode_block (fst sr) (snd sr)) (combine ss rests).
Definition fs_pos (s : src) : Prop := (0 < frame_size s)%Z.

Lemma step_blocks nfz ss : (0 <= nfz)%Z -> Forall fs_pos ss -> forall rests,
  map (fun sb => decode_block (fst sb) (snd sb))
      (combine ss (map (fun rs => firstn (Z.to_nat (snd rs)) (fst rs))
                       (combine rests (map (fun s => (nfz * frame_size s)%Z) ss))))
  = map (firstn (Z.to_nat nfz)) (decs ss rests).
Proof.
  intros Hn Hss. induction Hss as [|s ss Hs Hss IH]; intros rests; [reflexivity|].
  destruct rests as [|r rests]; [reflexivity|]. unfold decs. cbn [map combine fst snd]. f_equal.
  - unfold fs_pos in Hs. rewrite Z2Nat.inj_mul by lia. apply decode_block_firstn. assumption.
  - apply IH.
Qed.
Lemma step_rests nfz ss : (0 <= nfz)%Z -> Forall fs_pos ss -> forall rests,
  decs ss (map (fun rs => skipn (Z.to_nat (snd rs)) (fst rs))
               (combine rests (map (fun s => (nfz * frame_size s)%Z) ss)))
  = map (skipn (Z.to_nat nfz)) (decs ss rests).
Proof.
  intros Hn Hss. induction Hss as [|s ss Hs Hss IH]; intros rests; [reflexivity|].
  destruct rests as [|r rests]; [reflexivity|]. unfold decs. cbn [map combine fst snd]. f_equal.
  - unfold fs_pos in Hs. rewrite Z2Nat.inj_mul by lia. apply decode_block_skipn. assumption.
  - apply IH.
Qed.
Lemma pipeline_apipe nfz ss : (0 <= nfz)%Z -> Forall fs_pos ss -> forall fuel rests acc,
  pipeline fuel ss (map (fun s => (nfz * frame_size s)%Z) ss) rests acc
  = apipe fuel ss (Z.to_nat nfz) (decs ss rests) acc.
Proof.
  intros Hn Hss. induction fuel as [|fuel IH]; intros rests acc; [reflexivity|].
  cbn [pipeline apipe]. rewrite step_blocks by assumption.
  destruct (existsb _ _); [reflexivity|]. rewrite IH. rewrite step_rests by assumption. reflexivity.
Qed.

(** minimum / maximum of a list, relationally *)
Definition is_min (m : nat) (L : list nat) : Prop := In m L /\ Forall (fun x => m <= x) L.
Definition is_max (m : nat) (L : list nat) : Prop := In m L /\ Forall (fun x => x <= m) L.
Lemma is_min_map g m L : (forall a b, a <= b -> g a <= g b) -> is_min m L -> is_min (g m) (map g L).
Proof.
  intros Hg [Hi Ha]. split; [now apply in_map|]. apply Forall_map. revert Ha. apply Forall_impl. intros a. apply Hg.
Qed.
Lemma is_max_map g m L : (forall a b, a <= b -> g a <= g b) -> is_max m L -> is_max (g m) (map g L).
Proof.
  intros Hg [Hi Ha]. split; [now apply in_map|]. apply Forall_map. revert Ha. apply Forall_impl. intros a. apply Hg.
Qed.
Lemma list_max_nat_ub L : Forall (fun x => x <= list_max_nat L) L.
Proof.
  induction L as [|x L IH]; constructor; cbn [list_max_nat]; [lia|].
  revert IH. apply Forall_impl. intros a. lia.
Qed.
Lemma list_max_nat_in L : L <> [] -> In (list_max_nat L) L.
Proof.
  induction L as [|x L IH]; [congruence|]. intros _. cbn [list_max_nat].
  destruct L as [|y L]; [left; cbn; lia|].
  destruct (Nat.max_spec x (list_max_nat (y :: L))) as [[_ ->]|[_ ->]]; [right; apply IH; discriminate|now left].
Qed.
Lemma is_max_list_max_nat M L : is_max M L -> list_max_nat L = M.
Proof.
  intros [Hi Ha]. assert (HL : L <> []) by (intros ->; destruct Hi).
  pose proof (list_max_nat_in L HL) as H1. pose proof (list_max_nat_ub L) as H2.
  rewrite Forall_forall in Ha, H2. specialize (Ha _ H1). specialize (H2 _ Hi). lia.
Qed.

Lemma exists_nil_block nf (D : list (list (list (list Z)))) m : 0 < nf -> is_min m (map (@length _) D) ->
  existsb (fun b => match b with [] => true | _ => false end) (map (firstn nf) D) = (m =? 0).
Proof.
  intros Hnf [Hi Ha]. destruct (Nat.eqb_spec m 0) as [E|E].
  - apply existsb_exists. apply in_map_iff in Hi as (d & Hd & Hin). exists (firstn nf d). split; [now apply in_map|].
    destruct d; [now rewrite firstn_nil|cbn in Hd; lia].
  - destruct (existsb _ _) eqn:Ex; [|reflexivity]. exfalso.
    apply existsb_exists in Ex as (b & Hb & Hnil). apply in_map_iff in Hb as (d & <- & Hin).
    rewrite Forall_forall in Ha. specialize (Ha (length d) (in_map _ _ _ Hin)).
    destruct d; [cbn in Ha; lia|]. destruct nf; [lia|]. discriminate.
Qed.

Lemma out_frame_firstn nf f : f < nf -> forall ss D, out_frame ss (map (firstn nf) D) f = out_frame ss D f.
Proof.
  intros Hf. unfold out_frame. induction ss as [|s ss IH]; intros D; [reflexivity|].
  destruct D as [|d D]; [reflexivity|]. cbn [map combine concat fst snd].
  rewrite nth_error_firstn_lt by assumption. f_equal. apply IH.
Qed.
Lemma out_frame_skipn nf f : forall ss D, out_frame ss (map (skipn nf) D) f = out_frame ss D (nf + f).
Proof.
  unfold out_frame. induction ss as [|s ss IH]; intros D; [reflexivity|].
  destruct D as [|d D]; [reflexivity|]. cbn [map combine concat fst snd].
  rewrite nth_error_skipn_add. f_equal. apply IH.
Qed.
Lemma encode_block_firstn ss nf D M : is_max M (map (@length _) D) ->
  encode_block ss (map (firstn nf) D) = concat (map (out_frame ss D) (seq 0 (Nat.min nf M))).
Proof.
  intros HM. unfold encode_block.
  assert (E : map (@length _) (map (firstn nf) D) = map (fun x => Nat.min nf x) (map (@length _) D)).
  { rewrite !map_map. apply map_ext. intros d. apply firstn_length. }
  rewrite E. rewrite (is_max_list_max_nat (Nat.min nf M)) by (apply is_max_map; [intros; lia|assumption]).
  f_equal. apply map_ext_in. intros f Hf. apply in_seq in Hf. apply out_frame_firstn. lia.
Qed.

(** The result of the abstract pipeline: [B] blocks are produced, [B] the number of blocks
    of [nf] frames needed to cover the SHORTEST stream; every block but the last is full,
    the last one is as long as the LONGEST stream allows. *)
Lemma apipe_result ss nf : 0 < nf -> forall fuel D acc B m M,
  is_min m (map (@length _) D) -> is_max M (map (@length _) D) ->
  m <= B * nf -> B * nf < m + nf ->
  apipe fuel ss nf D acc = OutOfFuel \/
  apipe fuel ss nf D acc = Ok (acc ++ concat (map (out_frame ss D) (seq 0 (Nat.min (B * nf) M)))).
Proof.
  intros Hnf. induction fuel as [|fuel IH]; intros D acc B m M Hm HM HB1 HB2; [now left|].
  cbn [apipe]. rewrite (exists_nil_block nf D m Hnf Hm).
  destruct (Nat.eqb_spec m 0) as [E|E].
  - right. destruct B as [|B]; [|cbn [Nat.mul] in HB2; lia]. cbn. now rewrite app_nil_r.
  - destruct B as [|B]; [lia|]. cbn [Nat.mul] in *.
    assert (EL : map (@length _) (map (skipn nf) D) = map (fun x => x - nf) (map (@length _) D)).
    { rewrite !map_map. apply map_ext. intros d. apply skipn_length. }
    specialize (IH (map (skipn nf) D) (acc ++ encode_block ss (map (firstn nf) D)) B (m - nf) (M - nf)).
    rewrite EL in IH.
    assert (Hmono : forall a b, a <= b -> a - nf <= b - nf) by (intros; lia).
    specialize (IH (is_min_map _ _ _ Hmono Hm) (is_max_map _ _ _ Hmono HM)).
    assert (H1 : m - nf <= B * nf) by lia. assert (H2 : B * nf < m - nf + nf) by lia.
    specialize (IH H1 H2).
    assert (Hout : (acc ++ encode_block ss (map (firstn nf) D)) ++
                   concat (map (out_frame ss (map (skipn nf) D)) (seq 0 (Nat.min (B * nf) (M - nf))))
                   = acc ++ concat (map (out_frame ss D) (seq 0 (Nat.min (nf + B * nf) M)))).
    { rewrite <- app_assoc. f_equal. rewrite (encode_block_firstn ss nf D M HM).
      rewrite (map_ext (out_frame ss (map (skipn nf) D)) (fun i => out_frame ss D (nf + i)))
        by (intros; apply out_frame_skipn).
      rewrite <- (map_seq_shift (out_frame ss D)).
      rewrite <- concat_app, <- map_app.
      destruct (Nat.le_gt_cases M nf) as [HMn|HMn].
      - replace (Nat.min (B * nf) (M - nf)) with 0 by lia. cbn [seq]. rewrite app_nil_r.
        do 3 f_equal. lia.
      - replace (Nat.min nf M) with nf by lia. rewrite <- seq_app. do 3 f_equal. lia. }
    rewrite <- Hout. destruct IH as [->| ->]; [now left|now right].
Qed.

(** * Passthrough *)
Lemma resize_buffer_pcs buf fs : (0 < fs)%Z -> resize_buffer buf fs = concat (pcs (Z.to_nat fs) buf).
Proof. intros H. rewrite resize_buffer_eq by assumption. symmetry. apply pcs_concat. lia. Qed.

Lemma passthrough_result s nfz : (0 < frame_size s)%Z -> (0 < nfz)%Z -> forall fuel rest acc,
  passthrough fuel s (nfz * frame_size s) rest acc = OutOfFuel \/
  passthrough fuel s (nfz * frame_size s) rest acc = Ok (acc ++ concat (pcs (Z.to_nat (frame_size s)) rest)).
Proof.
  intros Hfs Hnf. induction fuel as [|fuel IH]; intros rest acc; [now left|].
  cbn [passthrough]. set (n := Z.to_nat (frame_size s)). set (nf := Z.to_nat nfz).
  assert (Hn : 0 < n) by (unfold n; lia). assert (Hnf' : 0 < nf) by (unfold nf; lia).
  replace (Z.to_nat (nfz * frame_size s)) with (nf * n) by (unfold nf, n; rewrite Z2Nat.inj_mul; lia).
  rewrite resize_buffer_pcs by assumption. fold n. rewrite pcs_firstn by assumption.
  specialize (IH (skipn (nf * n) rest)). rewrite pcs_skipn in IH by assumption.
  destruct (pcs n rest) as [|c P] eqn:EP.
  - rewrite firstn_nil. cbn [concat]. right. now rewrite app_nil_r.
  - assert (Hc : length c = n) by (apply (pcs_elem_length n Hn rest); rewrite EP; now left).
    destruct nf as [|nf']; [lia|]. cbn [firstn concat]. destruct c as [|z c]; [cbn in Hc; lia|].
    cbn [app]. specialize (IH (acc ++ z :: c ++ concat (firstn nf' P))).
    cbn [skipn] in IH.
    assert (E : (acc ++ z :: c ++ concat (firstn nf' P)) ++ concat (skipn nf' P) = acc ++ (z :: c) ++ concat P).
    { rewrite <- (firstn_skipn nf' P) at 3. rewrite concat_app. cbn [app]. rewrite <- !app_assoc. cbn [app].
      rewrite <- !app_assoc. reflexivity. }
    rewrite E in IH. exact IH.
Qed.

(** * min / max over Z lists *)
Local Open Scope Z_scope.
Lemma list_min_in d L : L <> [] -> In (list_min d L) L.
Proof.
  induction L as [|x L IH]; [congruence|]. intros _. cbn [list_min].
  destruct L as [|y L]; [now left|].
  destruct (Z.min_spec x (list_min d (y :: L))) as [[_ ->]|[_ ->]]; [now left|right; apply IH; discriminate].
Qed.
Lemma list_min_lb d L : Forall (fun x => list_min d L <= x) L.
Proof.
  induction L as [|x L IH]; constructor.
  - cbn [list_min]. destruct L; lia.
  - destruct L as [|y L]; [constructor|]. revert IH. apply Forall_impl. intros a. cbn [list_min]. lia.
Qed.
Lemma list_max_in d L : L <> [] -> In (list_max d L) L.
Proof.
  induction L as [|x L IH]; [congruence|]. intros _. cbn [list_max].
  destruct L as [|y L]; [now left|].
  destruct (Z.max_spec x (list_max d (y :: L))) as [[_ ->]|[_ ->]]; [right; apply IH; discriminate|now left].
Qed.
Lemma list_max_ub d L : Forall (fun x => x <= list_max d L) L.
Proof.
  induction L as [|x L IH]; constructor.
  - cbn [list_max]. destruct L; lia.
  - destruct L as [|y L]; [constructor|]. revert IH. apply Forall_impl. intros a. cbn [list_max]. lia.
Qed.
Lemma list_min_le_max d L : L <> [] -> list_min d L <= list_max d L.
Proof.
  intros H. pose proof (list_min_in d L H) as Hi. pose proof (list_max_ub d L) as Hu.
  rewrite Forall_forall in Hu. now apply Hu.
Qed.
Lemma is_min_to_nat d L : L <> [] -> is_min (Z.to_nat (list_min d L)) (map Z.to_nat L).
Proof.
  intros H. split; [apply in_map, list_min_in, H|]. apply Forall_map.
  generalize (list_min_lb d L). apply Forall_impl. intros a. lia.
Qed.
Lemma is_max_to_nat d L : L <> [] -> is_max (Z.to_nat (list_max d L)) (map Z.to_nat L).
Proof.
  intros H. split; [apply in_map, list_max_in, H|]. apply Forall_map.
  generalize (list_max_ub d L). apply Forall_impl. intros a. lia.
Qed.
Lemma list_min_const d L F : L <> [] -> Forall (fun x => x = F) L -> list_min d L = F.
Proof. intros H Ha. rewrite Forall_forall in Ha. apply Ha, list_min_in, H. Qed.
Lemma list_max_const d L F : L <> [] -> Forall (fun x => x = F) L -> list_max d L = F.
Proof. intros H Ha. rewrite Forall_forall in Ha. apply Ha, list_max_in, H. Qed.

(** * Preconditions of the property: one sample width, at least one channel per stream *)
Definition uniform (w : Z) (ss : list src) : Prop := Forall (fun s => swidth s = w /\ 1 <= schans s) ss.
Definition sum_chans (ss : list src) : Z := fold_right (fun s a => nchan s + a) 0 ss.
(** frames per block (get_buffer_sizes) *)
Definition block_frames (target : Z) (ss : list src) : Z := list_min 1 (map (nframes_possible target) ss).
Definition all_frames (s : src) : list (list (list Z)) := decode_block s (sbytes s).

Lemma uniform_fs_pos w ss : 1 <= w -> uniform w ss -> Forall fs_pos ss.
Proof. intros Hw. apply Forall_impl. intros s [E H]. unfold fs_pos, frame_size. rewrite E. nia. Qed.
Lemma block_frames_pos target ss : 1 <= block_frames target ss.
Proof.
  unfold block_frames. destruct ss as [|s ss]; [cbn; lia|].
  pose proof (list_min_in 1 (map (nframes_possible target) (s :: ss)) ltac:(discriminate)) as H.
  apply in_map_iff in H as (x & <- & _). unfold nframes_possible. lia.
Qed.
Lemma decs_all ss : decs ss (map sbytes ss) = map all_frames ss.
Proof. unfold decs. induction ss as [|s ss IH]; [reflexivity|]. cbn [map combine fst snd]. now rewrite IH. Qed.
Lemma all_frames_length s : fs_pos s -> length (all_frames s) = Z.to_nat (whole_frames s).
Proof.
  intros H. unfold all_frames, whole_frames, zlen, fs_pos in *. rewrite decode_block_length by assumption.
  rewrite <- (Z2Nat.id (frame_size s)) at 2 by lia. rewrite <- Nat2Z.inj_div. now rewrite Nat2Z.id.
Qed.
Lemma all_frames_lengths ss : Forall fs_pos ss ->
  map (@length _) (map all_frames ss) = map Z.to_nat (map whole_frames ss).
Proof.
  intros H. rewrite !map_map. apply map_ext_in. intros s Hs. rewrite Forall_forall in H. apply all_frames_length, H, Hs.
Qed.

(** number of output frames: whole blocks covering the shortest source, capped by the longest *)
Definition min_frames (ss : list src) : Z := list_min 0 (map whole_frames ss).
Definition max_frames (ss : list src) : Z := list_max 0 (map whole_frames ss).
Definition out_count (target : Z) (ss : list src) : Z :=
  let nf := block_frames target ss in
  Z.min ((min_frames ss + nf - 1) / nf * nf) (max_frames ss).

Lemma whole_frames_nonneg s : fs_pos s -> 0 <= whole_frames s.
Proof. unfold fs_pos, whole_frames. intros H. pose proof (zlen_nonneg (sbytes s)). apply Z.div_pos; lia. Qed.
Lemma min_frames_nonneg ss : Forall fs_pos ss -> 0 <= min_frames ss.
Proof.
  intros H. unfold min_frames. destruct ss as [|s ss]; [cbn; lia|].
  pose proof (list_min_in 0 (map whole_frames (s :: ss)) ltac:(discriminate)) as Hi.
  apply in_map_iff in Hi as (x & <- & Hx). rewrite Forall_forall in H. apply whole_frames_nonneg, H, Hx.
Qed.

(** * The pipeline case, on decoded frames *)
Lemma pipeline_exact target ss w : ss <> [] -> 1 <= w -> uniform w ss ->
  forall fuel,
  pipeline fuel ss (buffer_sizes target ss) (map sbytes ss) [] = OutOfFuel \/
  pipeline fuel ss (buffer_sizes target ss) (map sbytes ss) []
  = Ok (concat (map (out_frame ss (map all_frames ss)) (seq 0 (Z.to_nat (out_count target ss))))).
Proof.
  intros Hne Hw Hu fuel. pose proof (uniform_fs_pos w ss Hw Hu) as Hfs.
  pose proof (block_frames_pos target ss) as Hnf.
  unfold buffer_sizes. fold (block_frames target ss).
  rewrite pipeline_apipe by (assumption || lia). rewrite decs_all.
  set (nfz := block_frames target ss) in *.
  pose proof (min_frames_nonneg ss Hfs) as Hm0.
  set (q := (min_frames ss + nfz - 1) / nfz).
  assert (Hq : min_frames ss <= q * nfz < min_frames ss + nfz /\ 0 <= q) by (unfold q; nia).
  destruct Hq as [Hq Hq0].
  assert (Hmm : map whole_frames ss <> []) by (destruct ss; [congruence|discriminate]).
  pose proof (apipe_result ss (Z.to_nat nfz) ltac:(lia) fuel (map all_frames ss) [] (Z.to_nat q)
                (Z.to_nat (min_frames ss)) (Z.to_nat (max_frames ss))) as R.
  rewrite all_frames_lengths in R by assumption.
  specialize (R (is_min_to_nat 0 _ Hmm) (is_max_to_nat 0 _ Hmm)).
  rewrite <- Z2Nat.inj_mul in R by lia.
  specialize (R ltac:(lia) ltac:(lia)). cbn [app] in R.
  replace (Z.to_nat (out_count target ss)) with (Nat.min (Z.to_nat (q * nfz)) (Z.to_nat (max_frames ss))); [exact R|].
  unfold out_count. fold nfz. fold q. lia.
Qed.

(** * Decoded frames in terms of the source bytes *)
Local Open Scope nat_scope.
Lemma pcs_as_map n : 0 < n -> forall k l, length l = k * n ->
  pcs n l = map (fun j => firstn n (skipn (j * n) l)) (seq 0 k).
Proof.
  intros Hn. induction k as [|k IH]; intros l Hl.
  - destruct l; [reflexivity|discriminate].
  - cbn [Nat.mul] in Hl. rewrite pcs_step by lia. cbn [seq map]. f_equal.
    rewrite (IH (skipn n l)) by (rewrite skipn_length; lia).
    rewrite (map_seq_shift _ k 1). apply map_ext. intros j. cbn [Nat.add Nat.mul].
    rewrite skipn_add. reflexivity.
Qed.
Lemma length_concat_const {A} k (L : list (list A)) :
  Forall (fun x => length x = k) L -> length (concat L) = length L * k.
Proof.
  induction 1 as [|x L Hx _ IH]; [reflexivity|]. cbn [concat length Nat.mul]. rewrite app_length. lia.
Qed.
Lemma le_sample_length s b : length (le_sample s b) = length b.
Proof. unfold le_sample. destruct (sbig s); [apply rev_length|reflexivity]. Qed.
Lemma map_nth_error_seq {A B} (g : option A -> B) (l : list A) :
  map (fun f => g (nth_error l f)) (seq 0 (length l)) = map (fun x => g (Some x)) l.
Proof.
  induction l as [|x l IH]; [reflexivity|]. cbn [length seq map nth_error]. f_equal.
  rewrite (map_seq_shift _ (length l) 1). exact IH.
Qed.

Definition pad_frame (s : src) : list Z := concat (repeat (zero_sample (swidth s)) (Z.to_nat (nchan s))).
Definition src_frame (s : src) (f : Z) : list Z :=
  concat (map (fun c => src_sample s f c) (map Z.of_nat (seq 0 (Z.to_nat (schans s))))).
(** the part of output frame [f] that stream [s] contributes *)
Definition chunk (s : src) (f : nat) : list Z :=
  match nth_error (all_frames s) f with Some chans => concat chans | None => pad_frame s end.

Lemma out_frame_chunks f : forall ss, out_frame ss (map all_frames ss) f = concat (map (fun s => chunk s f) ss).
Proof.
  unfold out_frame. induction ss as [|s ss IH]; [reflexivity|]. cbn [map combine fst snd concat]. now rewrite IH.
Qed.

Definition good (w : Z) (s : src) : Prop := swidth s = w /\ (1 <= schans s)%Z.
Lemma good_fs_nat w s : (1 <= w)%Z -> good w s ->
  Z.to_nat (frame_size s) = Z.to_nat (schans s) * Z.to_nat w /\ 0 < Z.to_nat w /\ 0 < Z.to_nat (schans s) /\ fs_pos s.
Proof.
  intros Hw [E H]. unfold fs_pos, frame_size. rewrite E. rewrite Z2Nat.inj_mul by lia. repeat split; nia.
Qed.

Lemma nth_all_frames w s f : (1 <= w)%Z -> good w s -> f < length (all_frames s) ->
  nth_error (all_frames s) f
  = Some (map (fun c => src_sample s (Z.of_nat f) c) (map Z.of_nat (seq 0 (Z.to_nat (schans s))))).
Proof.
  intros Hw Hg Hf. destruct (good_fs_nat w s Hw Hg) as (En & Hw' & Hc' & Hfs).
  pose proof Hg as [Ew Hc].
  unfold all_frames in *. rewrite decode_block_length in Hf by assumption.
  rewrite decode_block_eq by assumption. rewrite nth_error_map.
  set (n := Z.to_nat (frame_size s)) in *. set (l := sbytes s) in *.
  assert (Hn : 0 < n) by nia.
  rewrite pcs_nth by assumption. cbn [option_map]. f_equal.
  assert (Hlen : S f * n <= length l).
  { pose proof (Nat.mul_div_le (length l) n ltac:(lia)).
    assert (S f * n <= length l / n * n) by (apply Nat.mul_le_mono_r; lia). lia. }
  cbn [Nat.mul] in Hlen.
  set (fr := firstn n (skipn (f * n) l)).
  assert (Hfr : length fr = Z.to_nat (schans s) * Z.to_nat w).
  { unfold fr. rewrite firstn_length, skipn_length. lia. }
  unfold dec_frame. rewrite Ew. rewrite (pcs_as_map _ Hw' _ _ Hfr). rewrite !map_map.
  apply map_ext_in. intros c Hc_in. apply in_seq in Hc_in.
  unfold src_sample. f_equal. unfold slice, fr. fold l.
  rewrite skipn_firstn_comm, firstn_firstn, <- skipn_add.
  assert (Hcw : S c * Z.to_nat w <= n) by (rewrite En; apply Nat.mul_le_mono_r; lia).
  cbn [Nat.mul] in Hcw. rewrite Nat.min_l by lia.
  rewrite Ew. f_equal; [lia|]. f_equal.
  rewrite En. rewrite Z2Nat.inj_mul, Z2Nat.inj_add, Z2Nat.inj_mul, !Nat2Z.id by lia. lia.
Qed.

Lemma chunk_eq w s f : (1 <= w)%Z -> good w s ->
  chunk s f = if (Z.of_nat f <? whole_frames s)%Z then src_frame s (Z.of_nat f) else pad_frame s.
Proof.
  intros Hw Hg. destruct (good_fs_nat w s Hw Hg) as (_ & _ & _ & Hfs).
  pose proof (all_frames_length s Hfs) as HL. pose proof (whole_frames_nonneg s Hfs) as H0.
  unfold chunk. destruct (Z.ltb_spec (Z.of_nat f) (whole_frames s)) as [Hlt|Hge].
  - rewrite (nth_all_frames w) by (assumption || lia). reflexivity.
  - assert (E : nth_error (all_frames s) f = None) by (apply nth_error_None; lia). now rewrite E.
Qed.

Lemma pad_frame_length w s : (1 <= w)%Z -> good w s -> length (pad_frame s) = Z.to_nat (schans s) * Z.to_nat w.
Proof.
  intros Hw [E H]. unfold pad_frame, nchan. rewrite E.
  rewrite (length_concat_const (Z.to_nat w)).
  - rewrite repeat_length. f_equal. lia.
  - apply Forall_forall. intros x Hx. apply repeat_spec in Hx. subst x. apply repeat_length.
Qed.
Lemma chunk_length w s f : (1 <= w)%Z -> good w s -> length (chunk s f) = Z.to_nat (schans s) * Z.to_nat w.
Proof.
  intros Hw Hg. destruct (good_fs_nat w s Hw Hg) as (En & Hw' & Hc' & Hfs). pose proof Hg as [Ew Hc].
  unfold chunk. destruct (nth_error (all_frames s) f) as [chans|] eqn:E; [|now apply pad_frame_length].
  apply nth_error_In in E. unfold all_frames in E. rewrite decode_block_eq in E by assumption.
  apply in_map_iff in E as (fr & <- & Hfr). apply pcs_elem_length in Hfr; [|lia].
  unfold dec_frame. rewrite Ew. rewrite (length_concat_const (Z.to_nat w)).
  - rewrite map_length, pcs_length by assumption. rewrite Hfr, En, Nat.div_mul by lia. reflexivity.
  - apply Forall_forall. intros x Hx. apply in_map_iff in Hx as (b & <- & Hb).
    rewrite le_sample_length. now apply (pcs_elem_length _ Hw' fr).
Qed.

(** a little-endian stream decodes to its own whole frames *)
Lemma chunks_concat s : concat (map (chunk s) (seq 0 (length (all_frames s)))) = concat (map (@concat _) (all_frames s)).
Proof. unfold chunk. rewrite (map_nth_error_seq (fun o => match o with Some ch => concat ch | None => pad_frame s end)). reflexivity. Qed.
Lemma le_frames_concat w s : (1 <= w)%Z -> good w s -> sbig s = false ->
  concat (map (@concat _) (all_frames s)) = concat (pcs (Z.to_nat (frame_size s)) (sbytes s)).
Proof.
  intros Hw Hg Hb. destruct (good_fs_nat w s Hw Hg) as (En & Hw' & Hc' & Hfs). pose proof Hg as [Ew Hc].
  unfold all_frames. rewrite decode_block_eq by assumption. rewrite map_map. f_equal.
  rewrite <- (map_id (pcs _ _)) at 2. apply map_ext_in. intros fr Hfr.
  apply pcs_elem_length in Hfr; [|lia].
  unfold dec_frame, le_sample. rewrite Hb, map_id, Ew. rewrite pcs_concat by assumption.
  rewrite Hfr, En, Nat.div_mul by lia. apply firstn_all2. lia.
Qed.

(** * The exact output of [transcode] *)
Local Open Scope Z_scope.
(** output frame [f]: every stream's frame [f], channel by channel; a stream that has no
    frame [f] contributes padding (zero samples in the model) *)
Definition full_frame (ss : list src) (f : Z) : list Z :=
  concat (map (fun s => if f <? whole_frames s then src_frame s f else pad_frame s) ss).
Definition expected_output (target : Z) (ss : list src) : list Z :=
  concat (map (full_frame ss) (map Z.of_nat (seq 0 (Z.to_nat (out_count target ss))))).

Lemma chunks_full w ss f : 1 <= w -> uniform w ss ->
  concat (map (fun s => chunk s f) ss) = full_frame ss (Z.of_nat f).
Proof.
  intros Hw Hu. unfold full_frame. f_equal. apply map_ext_in. intros s Hs.
  unfold uniform in Hu. rewrite Forall_forall in Hu. apply (chunk_eq w); [assumption|apply Hu, Hs].
Qed.
Lemma out_frames_full w ss n : 1 <= w -> uniform w ss ->
  map (out_frame ss (map all_frames ss)) (seq 0 n) = map (full_frame ss) (map Z.of_nat (seq 0 n)).
Proof.
  intros Hw Hu. rewrite map_map. apply map_ext. intros f. rewrite out_frame_chunks. now apply (chunks_full w).
Qed.
Lemma out_count_single target s : fs_pos s -> out_count target [s] = whole_frames s.
Proof.
  intros H. unfold out_count, min_frames, max_frames. cbn [map list_min list_max].
  pose proof (block_frames_pos target [s]). pose proof (whole_frames_nonneg s H).
  set (nf := block_frames target [s]) in *. set (W := whole_frames s) in *.
  assert (W <= (W + nf - 1) / nf * nf) by nia. lia.
Qed.

Lemma transcode_exact_lemma target ss w : ss <> [] -> 1 <= w -> uniform w ss ->
  transcode target ss w (sum_chans ss) = Ok (expected_output target ss).
Proof.
  intros Hne Hw Hu.
  assert (R : transcode target ss w (sum_chans ss) = OutOfFuel \/
              transcode target ss w (sum_chans ss) = Ok (expected_output target ss)).
  { pose proof (fun fuel => pipeline_exact target ss w Hne Hw Hu fuel) as P.
    rewrite (out_frames_full w) in P by assumption. fold (expected_output target ss) in P.
    destruct ss as [|s0 rest]; [congruence|]. unfold transcode, sum_chans. rewrite Z.eqb_refl. cbn [negb].
    destruct rest as [|s1 rest]; [|apply P].
    destruct (enc_eq_dest s0 w _) eqn:Eq; [|apply P].
    clear P. unfold enc_eq_dest in Eq.
    destruct (sbig s0) eqn:Eb; [discriminate|].
    inversion Hu as [|? ? Hg _]; subst. destruct (good_fs_nat w s0 Hw Hg) as (_ & _ & _ & Hfs).
    unfold buffer_sizes. fold (block_frames target [s0]). cbn [map hd].
    pose proof (block_frames_pos target [s0]) as Hnf.
    pose proof (passthrough_result s0 (block_frames target [s0]) Hfs ltac:(lia)
                  (S (S (Z.to_nat (total_len [s0])))) (sbytes s0) []) as R.
    cbn [app] in R.
    replace (expected_output target [s0]) with (concat (pcs (Z.to_nat (frame_size s0)) (sbytes s0))); [exact R|].
    unfold expected_output. rewrite (out_count_single target s0 Hfs), <- (all_frames_length s0 Hfs).
    rewrite <- (le_frames_concat w) by assumption. rewrite <- chunks_concat.
    f_equal. rewrite map_map. apply map_ext. intros f.
    rewrite <- (chunks_full w) by assumption. cbn [map concat]. now rewrite app_nil_r. }
  destruct R as [R|R]; [|exact R]. exfalso. revert R. apply transcode_total_lemma.
Qed.

(** * Corollaries *)
Lemma sum_chans_cons s ss : sum_chans (s :: ss) = nchan s + sum_chans ss.
Proof. reflexivity. Qed.
Lemma chunks_length w f ss : 1 <= w -> uniform w ss ->
  length (concat (map (fun s => chunk s f) ss)) = Z.to_nat (sum_chans ss * w).
Proof.
  intros Hw. induction 1 as [|s ss Hs Hss IH]; [reflexivity|].
  cbn [map concat]. rewrite app_length, IH, (chunk_length w) by assumption.
  rewrite sum_chans_cons. destruct Hs as [_ Hc]. unfold nchan.
  assert (0 <= sum_chans ss).
  { clear. induction ss as [|x t IHt]; [cbn; lia|]. rewrite sum_chans_cons. unfold nchan. lia. }
  rewrite <- Z2Nat.inj_mul by lia.
  assert (0 <= schans s * w) by (apply Z.mul_nonneg_nonneg; lia).
  assert (0 <= sum_chans ss * w) by (apply Z.mul_nonneg_nonneg; lia).
  rewrite <- Z2Nat.inj_add by assumption. f_equal. rewrite Z.max_r by lia. ring.
Qed.
Lemma full_frame_length w ss f : 1 <= w -> uniform w ss ->
  length (full_frame ss (Z.of_nat f)) = Z.to_nat (sum_chans ss * w).
Proof. intros Hw Hu. rewrite <- (chunks_full w) by assumption. now apply chunks_length. Qed.
Lemma sum_chans_nonneg ss : 0 <= sum_chans ss.
Proof. induction ss as [|x t IHt]; [cbn; lia|]. rewrite sum_chans_cons. unfold nchan. lia. Qed.

Lemma out_count_nonneg target ss : ss <> [] -> Forall fs_pos ss -> 0 <= out_count target ss.
Proof.
  intros Hne Hfs. unfold out_count. pose proof (block_frames_pos target ss). pose proof (min_frames_nonneg ss Hfs).
  assert (Hmm : map whole_frames ss <> []) by (destruct ss; [congruence|discriminate]).
  pose proof (list_min_le_max 0 _ Hmm). fold (min_frames ss) (max_frames ss) in *.
  set (nf := block_frames target ss) in *. set (m := min_frames ss) in *.
  assert (m <= (m + nf - 1) / nf * nf) by nia. lia.
Qed.
Lemma out_count_bounds_lemma target ss : ss <> [] -> Forall fs_pos ss ->
  min_frames ss <= out_count target ss <= max_frames ss.
Proof.
  intros Hne Hfs. unfold out_count. pose proof (block_frames_pos target ss). pose proof (min_frames_nonneg ss Hfs).
  assert (Hmm : map whole_frames ss <> []) by (destruct ss; [congruence|discriminate]).
  pose proof (list_min_le_max 0 _ Hmm). fold (min_frames ss) (max_frames ss) in *.
  set (nf := block_frames target ss) in *. set (m := min_frames ss) in *.
  assert (m <= (m + nf - 1) / nf * nf) by nia. lia.
Qed.
Lemma out_count_equal target ss F : ss <> [] -> Forall fs_pos ss ->
  (forall s, In s ss -> whole_frames s = F) -> out_count target ss = F.
Proof.
  intros Hne Hfs HF. pose proof (out_count_bounds_lemma target ss Hne Hfs) as B.
  assert (Hmm : map whole_frames ss <> []) by (destruct ss; [congruence|discriminate]).
  assert (Hall : Forall (fun x => x = F) (map whole_frames ss)).
  { apply Forall_map. apply Forall_forall. exact HF. }
  unfold min_frames, max_frames in B.
  rewrite (list_min_const 0 _ F Hmm Hall), (list_max_const 0 _ F Hmm Hall) in B. lia.
Qed.

Lemma expected_output_length w target ss : ss <> [] -> 1 <= w -> uniform w ss ->
  zlen (expected_output target ss) = out_count target ss * (sum_chans ss * w).
Proof.
  intros Hne Hw Hu. pose proof (uniform_fs_pos w ss Hw Hu) as Hfs.
  pose proof (out_count_nonneg target ss Hne Hfs). pose proof (sum_chans_nonneg ss).
  unfold expected_output, zlen. rewrite (length_concat_const (Z.to_nat (sum_chans ss * w))).
  - rewrite !map_length, seq_length. rewrite Nat2Z.inj_mul, !Z2Nat.id by nia. reflexivity.
  - apply Forall_forall. intros x Hx. apply in_map_iff in Hx as (fz & <- & Hfz).
    apply in_map_iff in Hfz as (f & <- & _). now apply (full_frame_length w).
Qed.

Lemma concat_map_seq_slice {A} k : forall N (g : nat -> list A) i,
  (forall j, length (g j) = k) -> (i < N)%nat ->
  firstn k (skipn (i * k) (concat (map g (seq 0 N)))) = g i.
Proof.
  induction N as [|N IH]; intros g i Hg Hi; [lia|].
  cbn [seq map concat]. rewrite (map_seq_shift g N 1).
  destruct i as [|i].
  - cbn [Nat.mul skipn]. rewrite firstn_app, Hg, Nat.sub_diag. cbn [firstn]. rewrite app_nil_r.
    apply firstn_all2. rewrite Hg. lia.
  - cbn [Nat.mul]. rewrite skipn_add, skipn_app, Hg, Nat.sub_diag. cbn [skipn].
    rewrite (skipn_all2 (g 0%nat)) by (rewrite Hg; lia). cbn [app].
    apply (IH (fun j => g (1 + j)%nat) i); [intros; apply Hg|lia].
Qed.

Lemma full_frame_expected ss f : (forall s, In s ss -> f < whole_frames s) -> full_frame ss f = expected_frame ss f.
Proof.
  intros H. unfold full_frame, expected_frame. f_equal. apply map_ext_in. intros s Hs.
  specialize (H s Hs). destruct (Z.ltb_spec f (whole_frames s)); [reflexivity|lia].
Qed.
Lemma below_min_frames ss f s : f < min_frames ss -> In s ss -> f < whole_frames s.
Proof.
  intros Hf Hs. pose proof (list_min_lb 0 (map whole_frames ss)) as H. rewrite Forall_forall in H.
  specialize (H _ (in_map whole_frames _ _ Hs)). unfold min_frames in Hf. lia.
Qed.

(** every output frame, as a slice of the output *)
Lemma output_frame_slice w target ss f : ss <> [] -> 1 <= w -> uniform w ss ->
  0 <= f < out_count target ss ->
  slice (expected_output target ss) (f * (sum_chans ss * w)) ((f + 1) * (sum_chans ss * w)) = full_frame ss f.
Proof.
  intros Hne Hw Hu Hf. pose proof (sum_chans_nonneg ss) as Hs0.
  unfold slice, expected_output. rewrite map_map.
  replace (Z.to_nat ((f + 1) * (sum_chans ss * w) - f * (sum_chans ss * w))) with (Z.to_nat (sum_chans ss * w)) by (f_equal; lia).
  assert (0 <= sum_chans ss * w) by (apply Z.mul_nonneg_nonneg; lia).
  rewrite (Z2Nat.inj_mul f (sum_chans ss * w)) by lia.
  rewrite (concat_map_seq_slice (Z.to_nat (sum_chans ss * w)) _ (fun j => full_frame ss (Z.of_nat j))).
  - now rewrite Z2Nat.id by lia.
  - intros j. now apply (full_frame_length w).
  - lia.
Qed.

(** ** (3) frame map and frame-count bounds, any lengths *)
Lemma transcode_frame_map_lemma target ss w : ss <> [] -> 1 <= w -> uniform w ss ->
  exists out,
    transcode target ss w (sum_chans ss) = Ok out
    /\ zlen out = out_count target ss * (sum_chans ss * w)
    /\ min_frames ss <= out_count target ss <= max_frames ss
    /\ (forall f, 0 <= f < out_count target ss ->
          slice out (f * (sum_chans ss * w)) ((f + 1) * (sum_chans ss * w)) = full_frame ss f)
    /\ (forall f, 0 <= f < min_frames ss ->
          slice out (f * (sum_chans ss * w)) ((f + 1) * (sum_chans ss * w)) = expected_frame ss f).
Proof.
  intros Hne Hw Hu. pose proof (uniform_fs_pos w ss Hw Hu) as Hfs.
  pose proof (out_count_bounds_lemma target ss Hne Hfs) as HB.
  exists (expected_output target ss). split; [now apply transcode_exact_lemma|].
  split; [now apply expected_output_length|]. split; [exact HB|]. split.
  - intros f Hf. now apply output_frame_slice.
  - intros f Hf. rewrite (output_frame_slice w) by (assumption || lia).
    apply full_frame_expected. intros s Hs. apply (below_min_frames ss); [lia|assumption].
Qed.

(** ** (1) all sources have the same number [F] of whole frames *)
Definition interleaved (ss : list src) (F : Z) : list Z :=
  concat (map (expected_frame ss) (map Z.of_nat (seq 0 (Z.to_nat F)))).
Lemma transcode_equal_frames_lemma target ss w F : ss <> [] -> 1 <= w -> uniform w ss ->
  (forall s, In s ss -> whole_frames s = F) ->
  transcode target ss w (sum_chans ss) = Ok (interleaved ss F).
Proof.
  intros Hne Hw Hu HF. pose proof (uniform_fs_pos w ss Hw Hu) as Hfs.
  rewrite (transcode_exact_lemma target ss w Hne Hw Hu). f_equal.
  unfold expected_output, interleaved. rewrite (out_count_equal target ss F Hne Hfs HF).
  f_equal. apply map_ext_in. intros fz Hfz. apply in_map_iff in Hfz as (f & <- & Hf). apply in_seq in Hf.
  apply full_frame_expected. intros s Hs. rewrite (HF s Hs). lia.
Qed.
Lemma whole_frames_exact s F : fs_pos s -> zlen (sbytes s) = F * frame_size s -> whole_frames s = F.
Proof. unfold fs_pos, whole_frames. intros H ->. apply Z.div_mul. lia. Qed.
Lemma transcode_equal_lengths_lemma target ss w F : ss <> [] -> 1 <= w -> uniform w ss ->
  (forall s, In s ss -> zlen (sbytes s) = F * frame_size s) ->
  transcode target ss w (sum_chans ss) = Ok (interleaved ss F).
Proof.
  intros Hne Hw Hu HF. apply transcode_equal_frames_lemma; try assumption.
  pose proof (uniform_fs_pos w ss Hw Hu) as Hfs. rewrite Forall_forall in Hfs.
  intros s Hs. apply whole_frames_exact; [apply Hfs, Hs|apply HF, Hs].
Qed.
Lemma interleaved_length w ss F : 1 <= w -> uniform w ss -> 0 <= F ->
  (forall s, In s ss -> whole_frames s = F) ->
  zlen (interleaved ss F) = F * (sum_chans ss * w).
Proof.
  intros Hw Hu HF0 HF. pose proof (sum_chans_nonneg ss).
  unfold interleaved, zlen. rewrite (length_concat_const (Z.to_nat (sum_chans ss * w))).
  - rewrite !map_length, seq_length. rewrite Nat2Z.inj_mul, !Z2Nat.id by nia. reflexivity.
  - apply Forall_forall. intros x Hx. apply in_map_iff in Hx as (fz & <- & Hfz).
    apply in_map_iff in Hfz as (f & <- & Hf). apply in_seq in Hf.
    rewrite <- full_frame_expected by (intros s Hs; rewrite (HF s Hs); lia).
    now apply (full_frame_length w).
Qed.
Lemma transcode_block_size_independent_lemma t1 t2 ss w F : ss <> [] -> 1 <= w -> uniform w ss ->
  (forall s, In s ss -> whole_frames s = F) ->
  transcode t1 ss w (sum_chans ss) = transcode t2 ss w (sum_chans ss).
Proof.
  intros Hne Hw Hu HF.
  now rewrite (transcode_equal_frames_lemma t1 ss w F), (transcode_equal_frames_lemma t2 ss w F).
Qed.

(** ** (4) a single little-endian stream: the source truncated to whole frames *)
Lemma expected_output_single_le target w s : 1 <= w -> good w s -> sbig s = false ->
  expected_output target [s] = firstn (Z.to_nat (whole_frames s * frame_size s)) (sbytes s).
Proof.
  intros Hw Hg Hb. destruct (good_fs_nat w s Hw Hg) as (_ & _ & _ & Hfs).
  assert (Hu : uniform w [s]) by (constructor; [exact Hg|constructor]).
  transitivity (concat (pcs (Z.to_nat (frame_size s)) (sbytes s))).
  - unfold expected_output. rewrite (out_count_single target s Hfs), <- (all_frames_length s Hfs).
    rewrite <- (le_frames_concat w) by assumption. rewrite <- chunks_concat.
    f_equal. rewrite map_map. apply map_ext. intros f.
    rewrite <- (chunks_full w) by assumption. cbn [map concat]. now rewrite app_nil_r.
  - unfold fs_pos in Hfs. rewrite pcs_concat by lia. unfold whole_frames, zlen.
    now rewrite to_nat_div_mul by assumption.
Qed.
Lemma transcode_single_le_lemma target w s : 1 <= w -> swidth s = w -> 1 <= schans s -> sbig s = false ->
  transcode target [s] w (schans s) = Ok (firstn (Z.to_nat (whole_frames s * frame_size s)) (sbytes s)).
Proof.
  intros Hw Ew Hc Hb. assert (Hg : good w s) by (split; assumption).
  assert (Hu : uniform w [s]) by (constructor; [exact Hg|constructor]).
  rewrite <- (expected_output_single_le target w s Hw Hg Hb).
  rewrite <- (transcode_exact_lemma target [s] w ltac:(discriminate) Hw Hu).
  f_equal. unfold sum_chans, nchan. cbn [fold_right]. lia.
Qed.
(** it is indeed the passthrough transcoder that runs in that case *)
Lemma single_le_is_passthrough w s : swidth s = w -> 1 <= schans s -> sbig s = false ->
  enc_eq_dest s w (schans s) = true.
Proof.
  intros Ew Hc Hb. unfold enc_eq_dest. rewrite Hb, Ew, Z.eqb_refl, eqb_reflx. cbn [negb andb].
  destruct (schans s >? 1); [apply Z.eqb_refl|reflexivity].
Qed.

(** ** (2) two mono 16-bit little-endian streams of equal length: the stereo pair of C05 *)
Definition mono16 (b : list Z) : src := {| sbytes := b; swidth := 2; schans := 1; sbig := false |}.
Fixpoint interleave2 (l r : list Z) : list Z :=
  match l, r with
  | a :: b :: l', c :: d :: r' => a :: b :: c :: d :: interleave2 l' r'
  | _, _ => []
  end.
Lemma pair_interleave : forall F L R, length L = (2 * F)%nat -> length R = (2 * F)%nat ->
  concat (map (fun f => firstn 2 (skipn (2 * f) L) ++ firstn 2 (skipn (2 * f) R)) (seq 0 F)) = interleave2 L R.
Proof.
  induction F as [|F IH]; intros L R HL HR.
  - destruct L; [|discriminate]. reflexivity.
  - destruct L as [|a [|b L]]; try (cbn in HL; lia). destruct R as [|c [|d R]]; try (cbn in HR; lia).
    cbn [seq map concat]. rewrite (map_seq_shift _ F 1).
    cbn [Nat.mul Nat.add skipn firstn app interleave2]. do 4 f_equal.
    rewrite <- (IH L R) by (cbn in HL, HR; lia). f_equal. apply map_ext. intros f.
    replace (f + S (f + 0))%nat with (S (2 * f)) by lia. cbn [skipn]. reflexivity.
Qed.
Lemma transcode_stereo_pair_lemma target L R F : zlen L = 2 * F -> zlen R = 2 * F ->
  transcode target [mono16 L; mono16 R] 2 2 = Ok (interleave2 L R).
Proof.
  intros HL HR.
  assert (Hu : uniform 2 [mono16 L; mono16 R]) by (repeat constructor; cbn; lia).
  assert (HF : forall s, In s [mono16 L; mono16 R] -> zlen (sbytes s) = F * frame_size s).
  { intros s [<-|[<-|[]]]; cbn; lia. }
  change 2 with (sum_chans [mono16 L; mono16 R]) at 2.
  assert (Hne : [mono16 L; mono16 R] <> []) by discriminate. assert (Hw : 1 <= 2) by lia.
  rewrite (transcode_equal_lengths_lemma target _ 2 F Hne Hw Hu HF). f_equal.
  unfold zlen in HL, HR.
  rewrite <- (pair_interleave (Z.to_nat F) L R) by lia.
  unfold interleaved. rewrite map_map. f_equal. apply map_ext. intros f.
  unfold expected_frame, src_sample, le_sample, slice. cbn [map concat mono16 sbytes swidth schans sbig].
  change (Z.to_nat 1) with 1%nat. cbn [seq map concat]. rewrite !app_nil_r.
  replace (Z.to_nat ((Z.of_nat f * 1 + Z.of_nat 0 + 1) * 2 - (Z.of_nat f * 1 + Z.of_nat 0) * 2)) with 2%nat by lia.
  replace (Z.to_nat ((Z.of_nat f * 1 + Z.of_nat 0) * 2)) with (2 * f)%nat by lia. reflexivity.
Qed.

(** ** the boolean predicate of the bounded theorem ([prop_ok]) holds for ALL inputs *)
Lemma listZ_eqb_refl a : listZ_eqb a a = true.
Proof.
  unfold listZ_eqb. rewrite Nat.eqb_refl. cbn [andb]. induction a as [|x a IH]; [reflexivity|].
  cbn [combine forallb fst snd]. now rewrite Z.eqb_refl, IH.
Qed.
Lemma prop_ok_all_lemma target ss : match ss with [] => True | s0 :: _ => 1 <= swidth s0 /\ uniform (swidth s0) ss end ->
  prop_ok target ss = true.
Proof.
  destruct ss as [|s0 rest]; [reflexivity|]. intros [Hw Hu].
  unfold prop_ok. fold (sum_chans (s0 :: rest)). remember (s0 :: rest) as ss eqn:Ess.
  assert (Hne : ss <> []) by (subst ss; discriminate).
  destruct (transcode_frame_map_lemma target ss (swidth s0) Hne Hw Hu) as (out & Ht & Hlen & HB & _ & Hfr).
  rewrite Ht.
  fold (min_frames ss) (max_frames ss).
  set (fsz := sum_chans ss * swidth s0) in *.
  assert (Hfsz : 0 < fsz).
  { unfold fsz. rewrite Ess, sum_chans_cons. pose proof (sum_chans_nonneg rest). unfold nchan. nia. }
  rewrite Hlen, Z.mod_mul, Z.div_mul by lia.
  assert (Hm0 : 0 <= min_frames ss) by (apply min_frames_nonneg, (uniform_fs_pos (swidth s0)); assumption).
  repeat (apply andb_true_intro; split); try lia.
  - destruct (Z.eqb_spec (min_frames ss) (max_frames ss)); lia.
  - apply forallb_forall. intros f Hf. apply in_seq in Hf. rewrite Hfr by lia. apply listZ_eqb_refl.
Qed.
