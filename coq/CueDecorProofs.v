(** C17, unbounded part: a canonical printer for cue-sheet meanings, the notion of a
    DECORATION of a printed sheet (keyword letter case, blanks around lines, blank lines,
    unrecognised lines before the FILE line and after a TRACK line), and the proofs that
    the parser of Cue.v reads every decorated sheet back to the meaning that was printed
    (any number of tracks, indices and inserted lines). *)
From SE Require Import Base Codecs Cue CueProofs.

(** * Blanks and [strip] *)
Definition white (p : list Z) : Prop := Forall (fun c => is_space_c c = true) p.
Definition starts_nonws (l : list Z) : Prop := exists a t, l = a :: t /\ is_space_c a = false.
Definition ends_nonws (l : list Z) : Prop := exists l0 z, l = l0 ++ [z] /\ is_space_c z = false.

Lemma lstrip_white_app p x : white p -> lstrip (p ++ x) = lstrip x.
Proof. induction 1 as [|c p Hc Hp IH]; [reflexivity|]. cbn [app lstrip]. now rewrite Hc. Qed.

Lemma lstrip_start l : starts_nonws l -> lstrip l = l.
Proof. intros (a & t & -> & Ha). cbn [lstrip]. now rewrite Ha. Qed.

Lemma skip_ws_start l : starts_nonws l -> skip_ws l = l.
Proof. intros (a & t & -> & Ha). cbn [skip_ws]. unfold is_ws. now rewrite Ha. Qed.

Lemma starts_nonws_app l x : starts_nonws l -> starts_nonws (l ++ x).
Proof. intros (a & t & -> & Ha). exists a, (t ++ x). split; [reflexivity|assumption]. Qed.

Lemma ends_nonws_app a b : ends_nonws b -> ends_nonws (a ++ b).
Proof. intros (l0 & z & -> & Hz). exists (a ++ l0), z. split; [now rewrite app_assoc|assumption]. Qed.

Lemma ends_nonws_cons c b : ends_nonws b -> ends_nonws (c :: b).
Proof. apply (ends_nonws_app [c]). Qed.

Lemma ends_nonws_Forall l :
  l <> [] -> Forall (fun c => is_space_c c = false) l -> ends_nonws l.
Proof.
  intros Hne H. destruct (exists_last Hne) as (l0 & z & ->).
  apply Forall_app in H as [_ H]. inversion H; subst. exists l0, z. auto.
Qed.

Lemma starts_nonws_ne l : starts_nonws l -> l <> [].
Proof. intros (a & t & -> & _). discriminate. Qed.

(** blanks around a text that begins and ends with a non-blank are exactly what strip removes *)
Lemma strip_pad p m s :
  white p -> white s -> starts_nonws m -> ends_nonws m -> strip (p ++ m ++ s) = m.
Proof.
  intros Hp Hs Hm (l0 & z & -> & Hz). unfold strip.
  rewrite lstrip_white_app by assumption.
  rewrite (lstrip_start ((l0 ++ [z]) ++ s)) by (now apply starts_nonws_app).
  rewrite rev_app_distr. rewrite lstrip_white_app by (now apply Forall_rev).
  rewrite rev_unit. cbn [lstrip]. rewrite Hz. rewrite <- rev_unit. apply rev_involutive.
Qed.

Lemma strip_id m : starts_nonws m -> ends_nonws m -> strip m = m.
Proof.
  intros H1 H2. pose proof (strip_pad [] m [] (Forall_nil _) (Forall_nil _) H1 H2) as H.
  now rewrite app_nil_r in H.
Qed.

Lemma lstrip_head l c t : lstrip l = c :: t -> is_space_c c = false.
Proof.
  induction l as [|x l IH]; cbn [lstrip]; [discriminate|].
  destruct (is_space_c x) eqn:E; [assumption|]. intros H. injection H as <- _. assumption.
Qed.

Lemma lstrip_suffix l : exists p, l = p ++ lstrip l.
Proof.
  induction l as [|x l (p & IH)]; [now exists []|]. cbn [lstrip].
  destruct (is_space_c x); [|now exists []]. exists (x :: p). cbn [app]. now rewrite <- IH.
Qed.

(** the first character of a stripped text is not a blank *)
Lemma strip_head l c t : strip l = c :: t -> is_space_c c = false.
Proof.
  unfold strip. intros H.
  destruct (lstrip l) as [|a m] eqn:EA; [discriminate|].
  pose proof (lstrip_head _ _ _ EA) as Ha.
  destruct (lstrip_suffix (rev (a :: m))) as (p & Hp).
  apply (f_equal (@rev Z)) in Hp. rewrite rev_involutive, rev_app_distr, H in Hp.
  cbn [app] in Hp. injection Hp as -> _. assumption.
Qed.

(** * Keywords in any letter case *)
Definition ci_word (K K' : list Z) : Prop := Forall2 (fun a b => ci_eq a b = true) K K'.

(** on an upper-case letter, [ci_eq] allows exactly the two cases of that letter *)
Lemma ci_eq_letter a b : 65 <= a <= 90 -> (ci_eq a b = true <-> b = a \/ b = a + 32).
Proof.
  intros Ha. unfold ci_eq, lower_c.
  destruct ((65 <=? a) && (a <=? 90)) eqn:Ea, ((65 <=? b) && (b <=? 90)) eqn:Eb; lia.
Qed.

Lemma ci_eq_refl a : ci_eq a a = true.
Proof. unfold ci_eq. apply Z.eqb_refl. Qed.

Lemma ci_word_refl K : ci_word K K.
Proof. induction K; constructor; [apply ci_eq_refl|assumption]. Qed.

Lemma ci_eq_ws a b : ci_eq a b = true -> is_space_c b = is_space_c a.
Proof.
  unfold ci_eq, lower_c, is_space_c. intros H.
  destruct ((65 <=? a) && (a <=? 90)) eqn:Ea, ((65 <=? b) && (b <=? 90)) eqn:Eb; lia.
Qed.

Lemma ci_word_starts K K' : ci_word K K' -> starts_nonws K -> starts_nonws K'.
Proof.
  intros H (a & t & -> & Ha). inversion H as [|? b ? t' Hab Ht]; subst.
  exists b, t'. split; [reflexivity|]. now rewrite (ci_eq_ws _ _ Hab).
Qed.

Lemma ci_word_ends K K' : ci_word K K' -> ends_nonws K -> ends_nonws K'.
Proof.
  intros H (l0 & z & -> & Hz). apply Forall2_app_inv_l in H as (l0' & l1' & H0 & H1 & ->).
  inversion H1 as [|? b ? t' Hab Ht]; subst. inversion Ht; subst.
  exists l0', b. split; [reflexivity|]. now rewrite (ci_eq_ws _ _ Hab).
Qed.

Lemma kw_ci : forall K K' k x,
  ci_word K K' -> length k = length K -> kw k (K' ++ x) = kw k (K ++ x).
Proof.
  intros K K' k x H. revert k. induction H as [|a b K K' Hab H IH]; intros k Hl.
  - destruct k; [reflexivity|discriminate].
  - destruct k as [|c k]; [discriminate|]. cbn [app kw].
    assert (E : ci_eq c b = ci_eq c a).
    { unfold ci_eq in *. apply Z.eqb_eq in Hab. now rewrite Hab. }
    rewrite E. destruct (ci_eq c a); [|reflexivity]. apply IH. cbn [length] in Hl. lia.
Qed.

Lemma kw_self : forall K x, kw K (K ++ x) = Some x.
Proof. induction K as [|a K IH]; intros x; [reflexivity|]. cbn [app kw]. now rewrite ci_eq_refl. Qed.

Lemma kw_ci_self K K' x : ci_word K K' -> kw K (K' ++ x) = Some x.
Proof. intros H. rewrite (kw_ci K K' K x H eq_refl). apply kw_self. Qed.

(** * Spans and numbers *)
Lemma span_all (p : Z -> bool) : forall ds x,
  Forall (fun c => p c = true) ds ->
  match x with c :: _ => p c = false | [] => True end ->
  span p (ds ++ x) = (ds, x).
Proof.
  induction ds as [|d ds IH]; intros x Hd Hx.
  - cbn [app]. destruct x as [|c x]; [reflexivity|]. cbn [span]. now rewrite Hx.
  - inversion Hd as [|? ? Hd1 Hd2]; subst. cbn [app span]. rewrite Hd1. now rewrite IH.
Qed.

Lemma span1_all (p : Z -> bool) ds x :
  ds <> [] -> Forall (fun c => p c = true) ds ->
  match x with c :: _ => p c = false | [] => True end ->
  span1 p (ds ++ x) = Some (ds, x).
Proof.
  intros Hne Hd Hx. unfold span1. rewrite span_all by assumption.
  destruct ds; [congruence|reflexivity].
Qed.

Definition F10 (a c : Z) : Z := 10 * a + (c - 48).

Lemma dec_digits_value : forall fuel z acc,
  0 <= z < 10 ^ Z.of_nat fuel ->
  fold_left F10 (dec_digits fuel z acc) 0 = fold_left F10 acc z.
Proof.
  induction fuel as [|f IH]; intros z acc Hz.
  - cbn [dec_digits]. f_equal. cbn in Hz. lia.
  - cbn [dec_digits]. rewrite Nat2Z.inj_succ, Z.pow_succ_r in Hz by lia.
    destruct (z <? 10) eqn:E.
    + cbn [fold_left]. f_equal. unfold F10. rewrite Z.mod_small by lia. lia.
    + rewrite IH.
      * cbn [fold_left]. f_equal. unfold F10. pose proof (Z.div_mod z 10 ltac:(lia)). lia.
      * split; [apply Z.div_pos; lia|]. apply Z.div_lt_upper_bound; lia.
Qed.

Lemma dec_digits_digit : forall fuel z acc,
  0 <= z -> Forall (fun c => is_digit_c c = true) acc ->
  Forall (fun c => is_digit_c c = true) (dec_digits fuel z acc).
Proof.
  induction fuel as [|f IH]; intros z acc Hz Ha; cbn [dec_digits]; [assumption|].
  assert (Hd : is_digit_c (48 + z mod 10) = true).
  { unfold is_digit_c. pose proof (Z.mod_pos_bound z 10 ltac:(lia)). lia. }
  destruct (z <? 10); [now constructor|].
  apply IH; [apply Z.div_pos; lia|now constructor].
Qed.

Lemma dec_digits_ne : forall fuel z acc, acc <> [] \/ fuel <> O -> dec_digits fuel z acc <> [].
Proof.
  induction fuel as [|f IH]; intros z acc H; cbn [dec_digits].
  - destruct H; congruence.
  - destruct (z <? 10); [discriminate|]. apply IH. left. discriminate.
Qed.

Lemma str_Z_value n : 0 <= n -> int_of_digits (str_Z n) = n.
Proof.
  intros Hn. unfold int_of_digits, str_Z. destruct (n <? 0) eqn:E; [lia|].
  change (fun a c : Z => 10 * a + (c - 48)) with F10.
  rewrite dec_digits_value; [reflexivity|].
  split; [assumption|].
  rewrite Nat2Z.inj_succ, Z2Nat.id by apply Z.log2_nonneg.
  destruct (Z.eq_dec n 0) as [->|Hn0]; [cbn; lia|].
  pose proof (Z.log2_spec n ltac:(lia)) as [_ H].
  pose proof (Z.pow_le_mono_l 2 10 (Z.succ (Z.log2 n)) ltac:(lia)). lia.
Qed.

Lemma str_Z_digits n : 0 <= n -> Forall (fun c => is_digit_c c = true) (str_Z n).
Proof.
  intros Hn. unfold str_Z. destruct (n <? 0) eqn:E; [lia|]. apply dec_digits_digit; [assumption|constructor].
Qed.

Lemma str_Z_ne n : 0 <= n -> str_Z n <> [].
Proof.
  intros Hn. unfold str_Z. destruct (n <? 0) eqn:E; [lia|]. apply dec_digits_ne. right. discriminate.
Qed.

(** * The meaning of a cue sheet and its canonical printer
    The meaning is the [cue] record of Cue.v without the [t_unparsed] lists (which only
    collect the unrecognised lines of a track and are used by nothing downstream). *)
Definition mkt (n : Z) (m : list Z) (ti : option (list Z)) (ix : list cindex) (u : list (list Z)) : ctrack :=
  {| t_num := n; t_mode := m; t_title := ti; t_indices := ix; t_unparsed := u |}.
Definition clear_unparsed (t : ctrack) : ctrack := mkt (t_num t) (t_mode t) (t_title t) (t_indices t) [].
Definition cue_meaning (c : cue) : cue := {| c_bin := c_bin c; c_tracks := map clear_unparsed (c_tracks c) |}.

(** numbers are printed as cue sheets do: decimal, at least two digits *)
Definition dec2 (n : Z) : list Z := if n <? 10 then 48 :: str_Z n else str_Z n.

Definition file_line (name : list Z) : list Z := K_FILE ++ [32; 34] ++ name ++ [34; 32] ++ K_BINARY.
Definition track_rest (n : Z) (mode : list Z) : list Z := dec2 n ++ 32 :: mode.
Definition title_rest (s : list Z) : list Z := 34 :: s ++ [34].
Definition index_rest (i : cindex) : list Z :=
  dec2 (ix_num i) ++ 32 :: dec2 (ix_min i) ++ 58 :: dec2 (ix_sec i) ++ 58 :: dec2 (ix_frm i).
Definition track_line (n : Z) (mode : list Z) : list Z := K_TRACK ++ 32 :: track_rest n mode.
Definition title_line (s : list Z) : list Z := K_TITLE ++ 32 :: title_rest s.
Definition index_line (i : cindex) : list Z := K_INDEX ++ 32 :: index_rest i.

Definition body_lines (t : ctrack) : list (list Z) :=
  match t_title t with Some s => [title_line s] | None => [] end ++ map index_line (t_indices t).
Definition print_track (t : ctrack) : list (list Z) := track_line (t_num t) (t_mode t) :: body_lines t.
Definition print_cue (c : cue) : list (list Z) := file_line (c_bin c) :: concat (map print_track (c_tracks c)).

(** well-formed meanings: what a cue sheet can say.  Quoted texts hold no double quote and
    no newline; numbers are non-negative; a mode is a non-empty word over [A-z0-9/]. *)
Definition wf_text (s : list Z) : Prop := Forall (fun c => c <> 34 /\ c <> 10) s.
Definition wf_mode (m : list Z) : Prop := m <> [] /\ Forall (fun c => is_mode_c c = true) m.
Definition wf_index (i : cindex) : Prop := 0 <= ix_num i /\ 0 <= ix_min i /\ 0 <= ix_sec i /\ 0 <= ix_frm i.
Definition wf_track (t : ctrack) : Prop :=
  0 <= t_num t /\ wf_mode (t_mode t) /\ match t_title t with Some s => wf_text s | None => True end
  /\ Forall wf_index (t_indices t) /\ t_unparsed t = [].
Definition wf_cue (c : cue) : Prop := wf_text (c_bin c) /\ Forall wf_track (c_tracks c).

Lemma dec2_value n : 0 <= n -> int_of_digits (dec2 n) = n.
Proof.
  intros Hn. unfold dec2. destruct (n <? 10); [|now apply str_Z_value].
  rewrite <- (str_Z_value n Hn) at 2. reflexivity.
Qed.
Lemma dec2_digits n : 0 <= n -> Forall (fun c => is_digit_c c = true) (dec2 n).
Proof.
  intros Hn. unfold dec2. destruct (n <? 10); [constructor; [reflexivity|]|]; now apply str_Z_digits.
Qed.
Lemma dec2_ne n : 0 <= n -> dec2 n <> [].
Proof. intros Hn. unfold dec2. destruct (n <? 10); [discriminate|now apply str_Z_ne]. Qed.

Lemma digit_nonws c : is_digit_c c = true -> is_space_c c = false.
Proof. unfold is_digit_c, is_space_c. lia. Qed.
Lemma mode_nonws c : is_mode_c c = true -> is_space_c c = false.
Proof. unfold is_mode_c, is_digit_c, is_space_c. lia. Qed.

Lemma Forall_starts (P : Z -> Prop) l :
  l <> [] -> Forall P l -> (forall c, P c -> is_space_c c = false) -> starts_nonws l.
Proof. intros Hne H HP. destruct l as [|a t]; [congruence|]. inversion H; subst. exists a, t. auto. Qed.
Lemma Forall_ends (P : Z -> Prop) l :
  l <> [] -> Forall P l -> (forall c, P c -> is_space_c c = false) -> ends_nonws l.
Proof. intros Hne H HP. apply ends_nonws_Forall; [assumption|]. eapply Forall_impl; [|exact H]. exact HP. Qed.

Lemma dec2_starts n : 0 <= n -> starts_nonws (dec2 n).
Proof. intros Hn. eapply Forall_starts; [now apply dec2_ne|now apply dec2_digits|exact digit_nonws]. Qed.
Lemma dec2_ends n : 0 <= n -> ends_nonws (dec2 n).
Proof. intros Hn. eapply Forall_ends; [now apply dec2_ne|now apply dec2_digits|exact digit_nonws]. Qed.

Lemma ws1_sp x : starts_nonws x -> ws1 (32 :: x) = Some x.
Proof. intros H. cbn [ws1]. change (is_ws 32) with true. cbv iota. now rewrite skip_ws_start. Qed.

Lemma span1_whole (p : Z -> bool) ds :
  ds <> [] -> Forall (fun c => p c = true) ds -> span1 p ds = Some (ds, []).
Proof. intros Hne Hd. pose proof (span1_all p ds [] Hne Hd I) as H. now rewrite app_nil_r in H. Qed.

Lemma kwT_starts : starts_nonws K_TRACK. Proof. exists 84, [82; 65; 67; 75]. split; reflexivity. Qed.
Lemma kwTi_starts : starts_nonws K_TITLE. Proof. exists 84, [73; 84; 76; 69]. split; reflexivity. Qed.
Lemma kwI_starts : starts_nonws K_INDEX. Proof. exists 73, [78; 68; 69; 88]. split; reflexivity. Qed.
Lemma kwF_starts : starts_nonws K_FILE. Proof. exists 70, [73; 76; 69]. split; reflexivity. Qed.
Lemma kwB_starts : starts_nonws K_BINARY. Proof. exists 66, [73; 78; 65; 82; 89]. split; reflexivity. Qed.
Lemma kwB_ends : ends_nonws K_BINARY. Proof. exists [66; 73; 78; 65; 82], 89. split; reflexivity. Qed.

(** ** What the four matchers say on canonical lines *)
Lemma m_track_track n mode : 0 <= n -> wf_mode mode -> m_track (track_line n mode) = Some (n, mode).
Proof.
  intros Hn [Hne Hm]. unfold m_track, track_line, track_rest.
  rewrite skip_ws_start by (apply starts_nonws_app, kwT_starts).
  rewrite kw_self. cbn [obind].
  rewrite ws1_sp by (apply starts_nonws_app, dec2_starts, Hn). cbn [obind].
  rewrite (span1_all is_digit_c (dec2 n) (32 :: mode)); [|now apply dec2_ne|now apply dec2_digits|reflexivity].
  cbn [obind fst snd].
  rewrite ws1_sp by (eapply Forall_starts; [exact Hne|exact Hm|exact mode_nonws]). cbn [obind].
  rewrite span1_whole by assumption. cbn [obind fst]. now rewrite dec2_value.
Qed.

Lemma m_track_index_rest x : m_track (K_INDEX ++ 32 :: x) = None.
Proof. unfold m_track. rewrite skip_ws_start by (apply starts_nonws_app, kwI_starts). reflexivity. Qed.
Lemma m_track_title_rest x : m_track (K_TITLE ++ 32 :: x) = None.
Proof. unfold m_track. rewrite skip_ws_start by (apply starts_nonws_app, kwTi_starts). reflexivity. Qed.
Lemma m_index_title_rest x : m_index (K_TITLE ++ 32 :: x) = None.
Proof. unfold m_index. rewrite skip_ws_start by (apply starts_nonws_app, kwTi_starts). reflexivity. Qed.

Lemma m_index_index i : wf_index i ->
  m_index (index_line i) = Some (ix_num i, ix_min i, ix_sec i, ix_frm i).
Proof.
  intros (H1 & H2 & H3 & H4). unfold m_index, index_line, index_rest.
  rewrite skip_ws_start by (apply starts_nonws_app, kwI_starts).
  rewrite kw_self. cbn [obind].
  rewrite ws1_sp by (apply starts_nonws_app, dec2_starts, H1). cbn [obind].
  rewrite (span1_all is_digit_c (dec2 (ix_num i))); [|now apply dec2_ne|now apply dec2_digits|reflexivity].
  cbn [obind fst snd].
  rewrite ws1_sp by (apply starts_nonws_app, dec2_starts, H2). cbn [obind].
  rewrite (span1_all is_digit_c (dec2 (ix_min i))); [|now apply dec2_ne|now apply dec2_digits|reflexivity].
  cbn [obind fst snd colon].
  rewrite (span1_all is_digit_c (dec2 (ix_sec i))); [|now apply dec2_ne|now apply dec2_digits|reflexivity].
  cbn [obind fst snd colon].
  rewrite span1_whole; [|now apply dec2_ne|now apply dec2_digits].
  cbn [obind fst snd]. now rewrite !dec2_value.
Qed.

Lemma until_quote_text : forall s x, wf_text s -> until_quote (s ++ 34 :: x) = Some (s, x).
Proof.
  induction s as [|c s IH]; intros x H; [reflexivity|].
  inversion H as [|? ? [Hq Hn] Hs]; subst. cbn [app until_quote].
  destruct (c =? 34) eqn:E1; [lia|]. destruct (c =? 10) eqn:E2; [lia|]. now rewrite IH.
Qed.

Lemma m_title_title s : wf_text s -> m_title (title_line s) = Some s.
Proof.
  intros H. unfold m_title, title_line, title_rest.
  rewrite skip_ws_start by (apply starts_nonws_app, kwTi_starts).
  rewrite kw_self. cbn [obind].
  rewrite ws1_sp by (exists 34, (s ++ [34]); split; reflexivity). cbn [obind quote].
  now rewrite until_quote_text.
Qed.

(** the FILE matcher, with the two keywords in any letter case *)
Lemma file_name_text B : ci_word K_BINARY B ->
  forall s, wf_text s -> file_name (s ++ [34; 32] ++ B) = Some s.
Proof.
  intros HB. induction s as [|c s IH]; intros H.
  - cbn [app file_name]. unfold after_name.
    rewrite ws1_sp by (eapply ci_word_starts; [exact HB|exact kwB_starts]). cbn [obind].
    rewrite <- (app_nil_r B). rewrite kw_ci_self by assumption. reflexivity.
  - inversion H as [|? ? [Hq Hn] Hs]; subst. cbn [app file_name].
    destruct (c =? 34) eqn:E1; [lia|]. cbn [andb]. destruct (c =? 10) eqn:E2; [lia|].
    cbn [app] in IH. now rewrite IH.
Qed.

Lemma m_file_file F B name :
  ci_word K_FILE F -> ci_word K_BINARY B -> wf_text name ->
  m_file (F ++ [32; 34] ++ name ++ [34; 32] ++ B) = Some name.
Proof.
  intros HF HB Hn. unfold m_file.
  rewrite skip_ws_start by (apply starts_nonws_app; eapply ci_word_starts; [exact HF|exact kwF_starts]).
  rewrite kw_ci_self by assumption. cbn [obind app].
  rewrite ws1_sp by (exists 34, (name ++ 34 :: 32 :: B); split; reflexivity). cbn [obind quote].
  apply (file_name_text B HB name Hn).
Qed.

(** a keyword in another letter case is seen by the three track-level matchers exactly as
    the keyword itself *)
Lemma matchers_ci K K' x :
  ci_word K K' -> length K = 5%nat -> starts_nonws K ->
  m_track (K' ++ x) = m_track (K ++ x) /\ m_index (K' ++ x) = m_index (K ++ x)
  /\ m_title (K' ++ x) = m_title (K ++ x).
Proof.
  intros H HL HS. pose proof (ci_word_starts _ _ H HS) as HS'.
  unfold m_track, m_index, m_title.
  rewrite !(skip_ws_start (K' ++ x)) by (now apply starts_nonws_app).
  rewrite !(skip_ws_start (K ++ x)) by (now apply starts_nonws_app).
  rewrite (kw_ci K K' K_TRACK x H), (kw_ci K K' K_INDEX x H), (kw_ci K K' K_TITLE x H) by (now rewrite HL).
  repeat split; reflexivity.
Qed.

(** * Decorations
    (a) letter case of the keywords, (b) blanks before/after a line: [line_variant];
    (c) blank lines, (d) lines the parser skips: classified exactly as each parse loop
    sees them, on the stripped text. *)
Inductive recased : list Z -> list Z -> Prop :=
| rc_file name F B :
    ci_word K_FILE F -> ci_word K_BINARY B ->
    recased (file_line name) (F ++ [32; 34] ++ name ++ [34; 32] ++ B)
| rc_kw K K' rest :
    In K [K_TRACK; K_TITLE; K_INDEX] -> ci_word K K' ->
    recased (K ++ 32 :: rest) (K' ++ 32 :: rest).

Definition line_variant (l l' : list Z) : Prop :=
  exists m p s, recased l m /\ white p /\ white s /\ l' = p ++ m ++ s.

(** a blank line: nothing is left after strip (get_nonempty_entry drops it) *)
Definition blank_line (l : list Z) : Prop := strip l = [].
(** skipped by the outer loop of parse_cue_sheet: not a FILE line *)
Definition skipped_before_file (l : list Z) : Prop := m_file (strip l) = None.
(** skipped by the property loop of a track: neither TRACK, INDEX nor TITLE *)
Definition skipped_in_track (l : list Z) : Prop :=
  m_track (strip l) = None /\ m_index (strip l) = None /\ m_title (strip l) = None.
(** unrecognised: matches none of the four patterns *)
Definition unrecognised (l : list Z) : Prop :=
  m_file (strip l) = None /\ m_track (strip l) = None /\ m_index (strip l) = None /\ m_title (strip l) = None.

Lemma blank_skipped_before_file l : blank_line l -> skipped_before_file l.
Proof. unfold blank_line, skipped_before_file. now intros ->. Qed.
Lemma blank_skipped_in_track l : blank_line l -> skipped_in_track l.
Proof. unfold blank_line, skipped_in_track. intros ->. repeat split; reflexivity. Qed.
Lemma unrecognised_skipped l : unrecognised l -> skipped_before_file l /\ skipped_in_track l.
Proof. intros (H1 & H2 & H3 & H4). repeat split; assumption. Qed.

(** every line whose first non-blank character is none of T, I, F (either case) is
    unrecognised: REM, PERFORMER, PREGAP, POSTGAP, CATALOG, SONGWRITER, CDTEXTFILE ... *)
Lemma unrecognised_by_first_char l c t :
  strip l = c :: t -> lower_c c <> 116 -> lower_c c <> 105 -> lower_c c <> 102 -> unrecognised l.
Proof.
  intros E Ht Hi Hf. unfold unrecognised. rewrite E.
  pose proof (strip_head _ _ _ E) as Hc.
  assert (HS : skip_ws (c :: t) = c :: t) by (apply skip_ws_start; exists c, t; auto).
  unfold m_file, m_track, m_index, m_title. rewrite HS.
  assert (H84 : ci_eq 84 c = false) by (unfold ci_eq; change (lower_c 84) with 116; lia).
  assert (H73 : ci_eq 73 c = false) by (unfold ci_eq; change (lower_c 73) with 105; lia).
  assert (H70 : ci_eq 70 c = false) by (unfold ci_eq; change (lower_c 70) with 102; lia).
  unfold K_FILE, K_TRACK, K_INDEX, K_TITLE. cbn [kw]. rewrite H84, H73, H70. repeat split; reflexivity.
Qed.

Inductive interleave (ok : list Z -> Prop) (var : list Z -> list Z -> Prop)
  : list (list Z) -> list (list Z) -> Prop :=
| il_nil : interleave ok var [] []
| il_keep l l' ls ls' : var l l' -> interleave ok var ls ls' -> interleave ok var (l :: ls) (l' :: ls')
| il_ins x ls ls' : ok x -> interleave ok var ls ls' -> interleave ok var ls (x :: ls').

(** [decorated ls ls']: [ls'] is the sheet [ls] (FILE line, then the TRACK line of the first
    track, then the rest) with
    - any lines that are not FILE lines (blank or not) before the FILE line,
    - every original line in a keyword-case / padding variant,
    - blank lines between the FILE line and the first TRACK line (anything else there makes
      the parser raise BadCueSheet: see cue_unrecognised_between_file_and_track_rejected),
    - after the first TRACK line: any lines, blank or not, that are neither TRACK, INDEX nor
      TITLE lines, at any position (also at the very end). *)
Inductive decorated : list (list Z) -> list (list Z) -> Prop :=
| dec_no_track fl pre fl' gap :
    Forall skipped_before_file pre -> line_variant fl fl' -> Forall blank_line gap ->
    decorated [fl] (pre ++ fl' :: gap)
| dec_tracks fl tl rest pre fl' gap tl' rest' :
    Forall skipped_before_file pre -> line_variant fl fl' -> Forall blank_line gap ->
    line_variant tl tl' -> interleave skipped_in_track line_variant rest rest' ->
    decorated (fl :: tl :: rest) (pre ++ fl' :: gap ++ tl' :: rest').

(** ** inversion of [interleave] *)
Section Interleave.
Context {ok : list Z -> Prop} {var : list Z -> list Z -> Prop}.
Local Notation il := (interleave ok var).

Lemma il_nil_inv r : il [] r -> Forall ok r.
Proof.
  intros H. remember [] as e eqn:E. induction H as [|l l' ls ls' Hv H IH|x ls ls' Hx H IH];
    [constructor|discriminate|]. constructor; auto.
Qed.

Lemma il_cons_inv l ls r : il (l :: ls) r ->
  exists js l' r2, r = js ++ l' :: r2 /\ Forall ok js /\ var l l' /\ il ls r2.
Proof.
  intros H. remember (l :: ls) as c eqn:E. revert l ls E.
  induction H as [|l0 l' ls0 ls' Hv H IH|x ls0 ls' Hx H IH]; intros l ls E; [discriminate| |].
  - injection E as -> ->. exists [], l', ls'. repeat split; [constructor|assumption|assumption].
  - destruct (IH l ls E) as (js & l' & r2 & -> & Hj & Hv & Hr).
    exists (x :: js), l', r2. repeat split; [constructor; assumption|assumption|assumption].
Qed.

Lemma il_prepend js a r : Forall ok js -> il a r -> il a (js ++ r).
Proof. induction 1 as [|j js Hj Hjs IH]; intros H; [assumption|]. cbn [app]. apply il_ins; auto. Qed.

Lemma il_app_inv : forall a b r, il (a ++ b) r -> exists ra rb, r = ra ++ rb /\ il a ra /\ il b rb.
Proof.
  induction a as [|x a IH]; intros b r H.
  - exists [], r. repeat split; [constructor|assumption].
  - cbn [app] in H. apply il_cons_inv in H as (js & l' & r2 & -> & Hj & Hv & Hr).
    apply IH in Hr as (ra & rb & -> & Ha & Hb).
    exists (js ++ l' :: ra), rb. repeat split; [now rewrite <- app_assoc|apply il_prepend; [assumption|]|assumption].
    apply il_keep; assumption.
Qed.

Lemma il_refl ls : (forall l, In l ls -> var l l) -> il ls ls.
Proof.
  induction ls as [|l ls IH]; intros H; [constructor|].
  apply il_keep; [apply H; now left|apply IH; intros; apply H; now right].
Qed.
End Interleave.

(** ** inversion of [recased] *)
Lemma recased_kw_inv K rest m :
  In K [K_TRACK; K_TITLE; K_INDEX] -> recased (K ++ 32 :: rest) m ->
  exists K', ci_word K K' /\ m = K' ++ 32 :: rest.
Proof.
  intros HK H. remember (K ++ 32 :: rest) as l eqn:E.
  destruct H as [name F B HF HB|K0 K0' rest0 HK0 HC].
  - exfalso. unfold file_line, K_FILE in E. cbn [In] in HK.
    destruct HK as [<-|[<-|[<-|[]]]]; discriminate E.
  - cbn [In] in HK, HK0.
    destruct HK as [<-|[<-|[<-|[]]]]; destruct HK0 as [<-|[<-|[<-|[]]]];
      try discriminate E; injection E as ->; eexists; split; try eassumption; reflexivity.
Qed.

Lemma recased_file_inv name m :
  recased (file_line name) m ->
  exists F B, ci_word K_FILE F /\ ci_word K_BINARY B /\ m = F ++ [32; 34] ++ name ++ [34; 32] ++ B.
Proof.
  intros H. remember (file_line name) as l eqn:E.
  destruct H as [name0 F B HF HB|K0 K0' rest0 HK0 HC].
  - unfold file_line in E. apply app_inv_head in E. apply app_inv_head in E. apply app_inv_tail in E.
    subst name0. exists F, B. auto.
  - exfalso. unfold file_line, K_FILE in E. cbn [In] in HK0.
    destruct HK0 as [<-|[<-|[<-|[]]]]; discriminate E.
Qed.

(** ** what the parser sees of a variant of a canonical line *)
Lemma kw_line_variant K rest l' :
  In K [K_TRACK; K_TITLE; K_INDEX] -> ends_nonws rest -> line_variant (K ++ 32 :: rest) l' ->
  exists m, strip l' = m /\ strip m = m /\ m <> []
    /\ m_track m = m_track (K ++ 32 :: rest) /\ m_index m = m_index (K ++ 32 :: rest)
    /\ m_title m = m_title (K ++ 32 :: rest).
Proof.
  intros HK Hr (m & p & s & Hm & Hp & Hs & ->).
  destruct (recased_kw_inv K rest m HK Hm) as (K' & HC & ->).
  assert (HL : length K = 5%nat /\ starts_nonws K).
  { cbn [In] in HK. destruct HK as [<-|[<-|[<-|[]]]]; (split; [reflexivity|]);
      [exact kwT_starts|exact kwTi_starts|exact kwI_starts]. }
  destruct HL as [HL HS].
  assert (S' : starts_nonws (K' ++ 32 :: rest)) by (apply starts_nonws_app; eapply ci_word_starts; eauto).
  assert (E' : ends_nonws (K' ++ 32 :: rest)) by (apply ends_nonws_app, ends_nonws_cons, Hr).
  exists (K' ++ 32 :: rest). split; [now apply strip_pad|]. split; [now apply strip_id|].
  split; [now apply starts_nonws_ne|]. now apply matchers_ci.
Qed.

Lemma track_rest_ends n mode : wf_mode mode -> ends_nonws (track_rest n mode).
Proof.
  intros [Hne Hm]. unfold track_rest. apply ends_nonws_app, ends_nonws_cons.
  eapply Forall_ends; [exact Hne|exact Hm|exact mode_nonws].
Qed.
Lemma title_rest_ends s : ends_nonws (title_rest s).
Proof. exists (34 :: s), 34. split; reflexivity. Qed.
Lemma index_rest_ends i : wf_index i -> ends_nonws (index_rest i).
Proof.
  intros (_ & _ & _ & H). unfold index_rest.
  apply ends_nonws_app, ends_nonws_cons, ends_nonws_app, ends_nonws_cons, ends_nonws_app, ends_nonws_cons.
  now apply dec2_ends.
Qed.

(** a stripped, non-empty TRACK header for [n], [mode] *)
Definition hdr (n : Z) (mode m : list Z) : Prop := strip m = m /\ m <> [] /\ m_track m = Some (n, mode).

Lemma track_variant n mode l' :
  0 <= n -> wf_mode mode -> line_variant (track_line n mode) l' -> hdr n mode (strip l').
Proof.
  intros Hn Hm H.
  destruct (kw_line_variant K_TRACK (track_rest n mode) l' ltac:(cbn; auto) (track_rest_ends n mode Hm) H)
    as (m & -> & H1 & H2 & H3 & _).
  repeat split; [assumption|assumption|]. rewrite H3. now apply m_track_track.
Qed.

Lemma index_variant i l' :
  wf_index i -> line_variant (index_line i) l' ->
  strip l' <> [] /\ m_track (strip l') = None
  /\ m_index (strip l') = Some (ix_num i, ix_min i, ix_sec i, ix_frm i).
Proof.
  intros Hi H.
  destruct (kw_line_variant K_INDEX (index_rest i) l' ltac:(cbn; auto) (index_rest_ends i Hi) H)
    as (m & -> & H1 & H2 & H3 & H4 & _).
  repeat split; [assumption| |].
  - rewrite H3. apply m_track_index_rest.
  - rewrite H4. now apply m_index_index.
Qed.

Lemma title_variant s l' :
  wf_text s -> line_variant (title_line s) l' ->
  strip l' <> [] /\ m_track (strip l') = None /\ m_index (strip l') = None
  /\ m_title (strip l') = Some s.
Proof.
  intros Hs H.
  destruct (kw_line_variant K_TITLE (title_rest s) l' ltac:(cbn; auto) (title_rest_ends s) H)
    as (m & -> & H1 & H2 & H3 & H4 & H5).
  repeat split; [assumption| | |].
  - rewrite H3. apply m_track_title_rest.
  - rewrite H4. apply m_index_title_rest.
  - rewrite H5. now apply m_title_title.
Qed.

Lemma file_variant name l' :
  wf_text name -> line_variant (file_line name) l' ->
  strip (strip l') = strip l' /\ strip l' <> [] /\ m_file (strip l') = Some name.
Proof.
  intros Hn (m & p & s & Hm & Hp & Hs & ->).
  destruct (recased_file_inv name m Hm) as (F & B & HF & HB & ->).
  assert (S' : starts_nonws (F ++ [32; 34] ++ name ++ [34; 32] ++ B))
    by (apply starts_nonws_app; eapply ci_word_starts; [exact HF|exact kwF_starts]).
  assert (E' : ends_nonws (F ++ [32; 34] ++ name ++ [34; 32] ++ B)).
  { apply ends_nonws_app, ends_nonws_app, ends_nonws_app, ends_nonws_app.
    eapply ci_word_ends; [exact HB|exact kwB_ends]. }
  rewrite strip_pad by assumption. split; [now apply strip_id|]. split; [now apply starts_nonws_ne|].
  now apply m_file_file.
Qed.

Lemma recased_refl_kw K rest : In K [K_TRACK; K_TITLE; K_INDEX] -> line_variant (K ++ 32 :: rest) (K ++ 32 :: rest).
Proof.
  intros HK. exists (K ++ 32 :: rest), [], []. split; [apply rc_kw; [assumption|apply ci_word_refl]|].
  split; [constructor|]. split; [constructor|]. now rewrite app_nil_r.
Qed.
Lemma file_line_variant_refl name : line_variant (file_line name) (file_line name).
Proof.
  exists (file_line name), [], []. split; [apply rc_file; apply ci_word_refl|].
  split; [constructor|]. split; [constructor|]. now rewrite app_nil_r.
Qed.

(** * The parse loops on decorated sheets *)

(** ** the property loop of a track *)
Lemma tb_skip j rest n m ti ix u :
  skipped_in_track j ->
  exists u', track_body (j :: rest) (mkt n m ti ix u) = track_body rest (mkt n m ti ix u').
Proof.
  intros (H1 & H2 & H3). cbn [track_body]. destruct (strip j) as [|c cs] eqn:E.
  - exists u. reflexivity.
  - rewrite H1, H2, H3. eexists. reflexivity.
Qed.

Lemma tb_skips : forall js rest n m ti ix u,
  Forall skipped_in_track js ->
  exists u', track_body (js ++ rest) (mkt n m ti ix u) = track_body rest (mkt n m ti ix u').
Proof.
  induction js as [|j js IH]; intros rest n m ti ix u H.
  - exists u. reflexivity.
  - inversion H as [|? ? Hj Hjs]; subst. cbn [app].
    destruct (tb_skip j (js ++ rest) n m ti ix u Hj) as (u1 & ->).
    apply IH. assumption.
Qed.

Lemma tb_index l' rest n m ti ix u a b c d :
  strip l' <> [] -> m_track (strip l') = None -> m_index (strip l') = Some (a, b, c, d) ->
  track_body (l' :: rest) (mkt n m ti ix u)
  = track_body rest (mkt n m ti (ix ++ [{| ix_num := a; ix_min := b; ix_sec := c; ix_frm := d |}]) u).
Proof.
  intros H0 H1 H2. cbn [track_body]. destruct (strip l') as [|x xs]; [congruence|].
  rewrite H1, H2. reflexivity.
Qed.

Lemma tb_title l' rest n m ti ix u s :
  strip l' <> [] -> m_track (strip l') = None -> m_index (strip l') = None ->
  m_title (strip l') = Some s ->
  track_body (l' :: rest) (mkt n m ti ix u) = track_body rest (mkt n m (Some s) ix u).
Proof.
  intros H0 H1 H2 H3. cbn [track_body]. destruct (strip l') as [|x xs]; [congruence|].
  rewrite H1, H2, H3. reflexivity.
Qed.

Lemma tb_track l' rest t n mode :
  hdr n mode (strip l') -> track_body (l' :: rest) t = (t, strip l' :: rest).
Proof.
  intros (_ & H0 & H1). cbn [track_body]. destruct (strip l') as [|x xs]; [congruence|].
  rewrite H1. reflexivity.
Qed.

(** the INDEX lines of a track, decorated *)
Lemma body_run : forall ixs B' R n m ti ix u,
  Forall wf_index ixs ->
  interleave skipped_in_track line_variant (map index_line ixs) B' ->
  exists u', track_body (B' ++ R) (mkt n m ti ix u) = track_body R (mkt n m ti (ix ++ ixs) u').
Proof.
  induction ixs as [|i ixs IH]; intros B' R n m ti ix u Hw H.
  - cbn [map] in H. apply il_nil_inv in H. rewrite app_nil_r. now apply tb_skips.
  - cbn [map] in H. apply il_cons_inv in H as (js & l' & r2 & -> & Hj & Hv & Hr).
    inversion Hw as [|? ? Hi Hw']; subst.
    rewrite <- app_assoc. cbn [app].
    destruct (tb_skips js (l' :: r2 ++ R) n m ti ix u Hj) as (u1 & ->).
    destruct (index_variant i l' Hi Hv) as (V0 & V1 & V2).
    rewrite (tb_index l' (r2 ++ R) n m ti ix u1 _ _ _ _ V0 V1 V2).
    destruct (IH r2 R n m ti (ix ++ [{| ix_num := ix_num i; ix_min := ix_min i; ix_sec := ix_sec i; ix_frm := ix_frm i |}]) u1 Hw' Hr)
      as (u2 & ->).
    exists u2. rewrite <- app_assoc. cbn [app]. destruct i. reflexivity.
Qed.

(** the whole body of a track (optional TITLE line, then the INDEX lines), decorated *)
Lemma body_full t B' R :
  wf_track t -> interleave skipped_in_track line_variant (body_lines t) B' ->
  exists u', track_body (B' ++ R) (mkt (t_num t) (t_mode t) None [] [])
             = track_body R (mkt (t_num t) (t_mode t) (t_title t) (t_indices t) u').
Proof.
  intros (Hn & Hm & Ht & Hi & Hu) H. unfold body_lines in H.
  destruct (t_title t) as [s|].
  - cbn [app] in H. apply il_cons_inv in H as (js & l' & r2 & -> & Hj & Hv & Hr).
    rewrite <- app_assoc. cbn [app].
    destruct (tb_skips js (l' :: r2 ++ R) (t_num t) (t_mode t) None [] [] Hj) as (u1 & ->).
    destruct (title_variant s l' Ht Hv) as (V0 & V1 & V2 & V3).
    rewrite (tb_title l' (r2 ++ R) _ _ _ _ _ s V0 V1 V2 V3).
    destruct (body_run (t_indices t) r2 R (t_num t) (t_mode t) (Some s) [] u1 Hi Hr) as (u2 & ->).
    exists u2. reflexivity.
  - cbn [app] in H.
    destruct (body_run (t_indices t) B' R (t_num t) (t_mode t) None [] [] Hi H) as (u2 & ->).
    exists u2. reflexivity.
Qed.

(** ** get_nonempty_entry and the track loop *)
Lemma ne_gap : forall gap l' R,
  Forall blank_line gap -> strip l' <> [] -> nonempty_entry (gap ++ l' :: R) = (strip l', R).
Proof.
  induction gap as [|g gap IH]; intros l' R Hg Hl.
  - cbn [app nonempty_entry]. destruct (strip l'); [congruence|reflexivity].
  - inversion Hg as [|? ? Hb Hg']; subst. cbn [app nonempty_entry]. rewrite Hb. now apply IH.
Qed.

Lemma ne_blank : forall gap, Forall blank_line gap -> nonempty_entry gap = ([], []).
Proof.
  induction gap as [|g gap IH]; intros Hg; [reflexivity|].
  inversion Hg as [|? ? Hb Hg']; subst. cbn [nonempty_entry]. rewrite Hb. now apply IH.
Qed.

Lemma track_parse_hdr m R n mode :
  hdr n mode m -> track_parse (m :: R) = Ok (track_body R (mkt n mode None [] [])).
Proof.
  intros (H0 & H1 & H2). unfold track_parse. cbn [nonempty_entry]. rewrite H0.
  destruct m as [|x xs]; [congruence|]. rewrite H2. reflexivity.
Qed.

(** one iteration of the track loop: blank lines, a TRACK header, the decorated body *)
Lemma ft_step gap l' B' R f acc t :
  wf_track t -> Forall blank_line gap -> hdr (t_num t) (t_mode t) (strip l') ->
  interleave skipped_in_track line_variant (body_lines t) B' ->
  exists u',
    file_tracks (S f) (gap ++ l' :: B' ++ R) acc
    = (let r := track_body R (mkt (t_num t) (t_mode t) (t_title t) (t_indices t) u') in
       file_tracks f (snd r) (acc ++ [fst r])).
Proof.
  intros Hw Hg Hh HB. destruct (body_full t B' R Hw HB) as (u' & E). exists u'.
  cbn [file_tracks].
  destruct (gap ++ l' :: B' ++ R) as [|x xs] eqn:EL; [now destruct gap|]. rewrite <- EL.
  pose proof Hh as (H0 & H1 & H2).
  rewrite (ne_gap gap l' (B' ++ R) Hg H1).
  destruct (strip l') as [|y ys] eqn:ES; [congruence|]. rewrite <- ES in *.
  rewrite (track_parse_hdr (strip l') (B' ++ R) _ _ Hh). cbn [bind]. rewrite E. reflexivity.
Qed.

Lemma clear_unparsed_wf t u :
  wf_track t -> clear_unparsed (mkt (t_num t) (t_mode t) (t_title t) (t_indices t) u) = t.
Proof. intros (_ & _ & _ & _ & Hu). destruct t. cbn in *. subst. reflexivity. Qed.

Lemma track_body_nil t : track_body [] t = (t, []).
Proof. reflexivity. Qed.

(** the remaining tracks: [cur] is the track whose body is being read *)
Lemma tracks_run : forall ts, Forall wf_track ts ->
  forall R' n m ti ix u fuel acc,
    interleave skipped_in_track line_variant (concat (map print_track ts)) R' ->
    (length R' < fuel)%nat ->
    exists u' ts',
      (let r := track_body R' (mkt n m ti ix u) in file_tracks fuel (snd r) (acc ++ [fst r]))
      = Ok (acc ++ mkt n m ti ix u' :: ts', []) /\ map clear_unparsed ts' = ts.
Proof.
  induction ts as [|t ts IH]; intros Hw R' n m ti ix u fuel acc H Hf.
  - cbn [map concat] in H. apply il_nil_inv in H.
    destruct (tb_skips R' [] n m ti ix u H) as (u' & E). rewrite app_nil_r in E.
    exists u', []. split; [|reflexivity]. cbv zeta. rewrite E, track_body_nil. cbn [fst snd].
    destruct fuel as [|f]; [lia|]. reflexivity.
  - inversion Hw as [|? ? Ht Hw']; subst.
    cbn [map concat] in H. unfold print_track at 1 in H. cbn [app] in H.
    apply il_cons_inv in H as (js & l' & r2 & -> & Hj & Hv & Hr).
    apply il_app_inv in Hr as (B' & R3 & -> & HB & HR).
    destruct (tb_skips js (l' :: B' ++ R3) n m ti ix u Hj) as (u' & E).
    pose proof Ht as (Hn & Hm & _).
    pose proof (track_variant _ _ l' Hn Hm Hv) as Hh.
    cbv zeta. rewrite E, (tb_track l' (B' ++ R3) _ _ _ Hh). cbn [fst snd].
    destruct fuel as [|f]; [lia|].
    assert (Hh' : hdr (t_num t) (t_mode t) (strip (strip l'))).
    { destruct Hh as (H0 & H1 & H2). rewrite H0. repeat split; assumption. }
    destruct (ft_step [] (strip l') B' R3 f (acc ++ [mkt n m ti ix u']) t Ht (Forall_nil _) Hh' HB) as (u1 & E1).
    cbn [app] in E1. rewrite E1. clear E1.
    rewrite app_length in Hf. cbn [length] in Hf. rewrite app_length in Hf.
    destruct (IH Hw' R3 (t_num t) (t_mode t) (t_title t) (t_indices t) u1 f (acc ++ [mkt n m ti ix u']) HR ltac:(lia))
      as (u2 & ts' & E2 & E3).
    cbv zeta in E2. rewrite E2.
    exists u', (mkt (t_num t) (t_mode t) (t_title t) (t_indices t) u2 :: ts'). split.
    + rewrite <- app_assoc. reflexivity.
    + cbn [map]. rewrite clear_unparsed_wf by assumption. now rewrite E3.
Qed.

(** the track loop from the line after FILE: blank lines, then the first TRACK line *)
Lemma file_tracks_decorated t ts gap tl' rest' fuel :
  Forall wf_track (t :: ts) -> Forall blank_line gap ->
  line_variant (track_line (t_num t) (t_mode t)) tl' ->
  interleave skipped_in_track line_variant (body_lines t ++ concat (map print_track ts)) rest' ->
  (length (gap ++ tl' :: rest') < fuel)%nat ->
  exists ts', file_tracks fuel (gap ++ tl' :: rest') [] = Ok (ts', []) /\ map clear_unparsed ts' = t :: ts.
Proof.
  intros Hw Hg Hv Hr Hf. inversion Hw as [|? ? Ht Hw']; subst.
  apply il_app_inv in Hr as (B' & R3 & -> & HB & HR).
  pose proof Ht as (Hn & Hm & _).
  pose proof (track_variant _ _ tl' Hn Hm Hv) as Hh.
  destruct fuel as [|f]; [lia|].
  destruct (ft_step gap tl' B' R3 f [] t Ht Hg Hh HB) as (u1 & E1). rewrite E1. clear E1.
  rewrite app_length in Hf. cbn [length] in Hf. rewrite app_length in Hf.
  destruct (tracks_run ts Hw' R3 (t_num t) (t_mode t) (t_title t) (t_indices t) u1 f [] HR ltac:(lia))
    as (u2 & ts' & E2 & E3).
  cbv zeta in E2. cbv zeta. rewrite E2. cbn [app].
  exists (mkt (t_num t) (t_mode t) (t_title t) (t_indices t) u2 :: ts'). split; [reflexivity|].
  cbn [map]. rewrite clear_unparsed_wf by assumption. now rewrite E3.
Qed.

Lemma file_tracks_blank gap fuel :
  Forall blank_line gap -> (0 < fuel)%nat -> file_tracks fuel gap [] = Ok ([], []).
Proof.
  intros Hg Hf. destruct fuel as [|f]; [lia|]. cbn [file_tracks].
  destruct gap as [|g gap]; [reflexivity|]. now rewrite (ne_blank _ Hg).
Qed.

(** ** the outer loop: lines before FILE, the FILE line *)
Lemma cue_files_blank_head f l X acc :
  strip l = [] -> X <> [] -> cue_files (S f) (l :: X) acc = cue_files (S f) X acc.
Proof.
  intros Hl HX. cbn [cue_files nonempty_entry]. rewrite Hl. destruct X; [congruence|reflexivity].
Qed.

Lemma cue_files_pre : forall pre L acc fuel,
  Forall skipped_before_file pre -> L <> [] -> (length (pre ++ L) < fuel)%nat ->
  exists fuel', (length L < fuel')%nat /\ cue_files fuel (pre ++ L) acc = cue_files fuel' L acc.
Proof.
  induction pre as [|l pre IH]; intros L acc fuel Hp HL Hf.
  - exists fuel. split; [assumption|reflexivity].
  - inversion Hp as [|? ? Hl Hp']; subst. cbn [app length] in Hf.
    destruct fuel as [|f]; [lia|].
    assert (HX : pre ++ L <> []) by (destruct pre; [assumption|discriminate]).
    destruct (strip l) as [|c cs] eqn:E.
    + cbn [app]. rewrite cue_files_blank_head by assumption. apply IH; [assumption|assumption|lia].
    + cbn [app cue_files nonempty_entry]. rewrite E. unfold skipped_before_file in Hl. rewrite E in Hl.
      rewrite Hl. apply IH; [assumption|assumption|lia].
Qed.

(** everything after the lines before FILE: the FILE line and the track loop's result *)
Lemma cue_files_file fl' REST fuel name ts' :
  strip (strip fl') = strip fl' -> strip fl' <> [] -> m_file (strip fl') = Some name ->
  file_tracks (S (length REST)) REST [] = Ok (ts', []) ->
  (length (fl' :: REST) < fuel)%nat ->
  cue_files fuel (fl' :: REST) [] = Ok [{| c_bin := name; c_tracks := ts' |}].
Proof.
  intros H0 H1 H2 HT Hf. destruct fuel as [|f]; [lia|].
  cbn [cue_files nonempty_entry].
  destruct (strip fl') as [|x xs] eqn:E; [congruence|]. rewrite <- E in *.
  rewrite H2. unfold file_parse. cbn [nonempty_entry]. rewrite H0.
  rewrite E. rewrite <- E. rewrite H2, HT. cbn [bind fst snd app].
  cbn [length] in Hf. destruct f as [|f]; [lia|]. reflexivity.
Qed.

(** * The decoration theorem *)
Lemma print_track_ne t : print_track t <> [].
Proof. discriminate. Qed.

Lemma cue_meaning_mk name ts' ts :
  map clear_unparsed ts' = ts -> forall c, c_bin c = name -> c_tracks c = ts ->
  cue_meaning {| c_bin := name; c_tracks := ts' |} = c.
Proof. intros E c Hb Ht. destruct c. cbn in *. subst. reflexivity. Qed.

Lemma cue_parse_decorated_lemma :
  forall c ls', wf_cue c -> decorated (print_cue c) ls' ->
    exists c', parse_cue_sheet ls' = Ok c' /\ cue_meaning c' = c.
Proof.
  intros c ls' (Hb & Ht) H. remember (print_cue c) as L eqn:EL.
  destruct H as [fl pre fl' gap Hp Hv Hg|fl tl rest pre fl' gap tl' rest' Hp Hv Hg Hv2 Hr];
    unfold print_cue in EL; injection EL as -> EL.
  - destruct (c_tracks c) as [|t ts] eqn:ET; [|discriminate EL].
    destruct (file_variant _ fl' Hb Hv) as (F0 & F1 & F2).
    unfold parse_cue_sheet.
    destruct (cue_files_pre pre (fl' :: gap) [] (S (length (pre ++ fl' :: gap))) Hp ltac:(discriminate) ltac:(lia))
      as (fuel' & Hf & ->).
    rewrite (cue_files_file fl' gap fuel' (c_bin c) [] F0 F1 F2); [|apply file_tracks_blank; [assumption|lia]|assumption].
    cbn [bind]. eexists. split; [reflexivity|].
    apply (cue_meaning_mk (c_bin c) [] []); [reflexivity|reflexivity|assumption].
  - destruct (c_tracks c) as [|t ts] eqn:ET; [discriminate EL|].
    cbn [map concat] in EL. unfold print_track at 1 in EL. cbn [app] in EL. injection EL as -> ->.
    destruct (file_variant _ fl' Hb Hv) as (F0 & F1 & F2).
    destruct (file_tracks_decorated t ts gap tl' rest' (S (length (gap ++ tl' :: rest'))) Ht Hg Hv2 Hr ltac:(lia))
      as (ts' & HT & EM).
    unfold parse_cue_sheet.
    destruct (cue_files_pre pre (fl' :: gap ++ tl' :: rest') [] (S (length (pre ++ fl' :: gap ++ tl' :: rest'))) Hp
                ltac:(discriminate) ltac:(lia)) as (fuel' & Hf & ->).
    rewrite (cue_files_file fl' (gap ++ tl' :: rest') fuel' (c_bin c) ts' F0 F1 F2 HT Hf).
    cbn [bind]. eexists. split; [reflexivity|].
    apply (cue_meaning_mk (c_bin c) ts' (t :: ts)); [assumption|reflexivity|assumption].
Qed.

(** * The canonical sheet itself is read back exactly (no unparsed lines appear) *)
Lemma track_line_self n mode : line_variant (track_line n mode) (track_line n mode).
Proof. apply recased_refl_kw. cbn; auto. Qed.
Lemma title_line_self s : line_variant (title_line s) (title_line s).
Proof. apply recased_refl_kw. cbn; auto. Qed.
Lemma index_line_self i : line_variant (index_line i) (index_line i).
Proof. apply recased_refl_kw. cbn; auto. Qed.

Lemma body_run_c : forall ixs R n m ti ix u,
  Forall wf_index ixs ->
  track_body (map index_line ixs ++ R) (mkt n m ti ix u) = track_body R (mkt n m ti (ix ++ ixs) u).
Proof.
  induction ixs as [|i ixs IH]; intros R n m ti ix u Hw.
  - cbn [map app]. now rewrite app_nil_r.
  - inversion Hw as [|? ? Hi Hw']; subst. cbn [map app].
    destruct (index_variant i _ Hi (index_line_self i)) as (V0 & V1 & V2).
    rewrite (tb_index _ _ n m ti ix u _ _ _ _ V0 V1 V2). rewrite IH by assumption.
    rewrite <- app_assoc. cbn [app]. destruct i. reflexivity.
Qed.

Lemma body_full_c t R :
  wf_track t -> track_body (body_lines t ++ R) (mkt (t_num t) (t_mode t) None [] []) = track_body R t.
Proof.
  intros (Hn & Hm & Ht & Hi & Hu). unfold body_lines.
  assert (E : t = mkt (t_num t) (t_mode t) (t_title t) (t_indices t) []).
  { destruct t. cbn in *. subst. reflexivity. }
  destruct (t_title t) as [s|] eqn:ETi.
  - cbn [app]. destruct (title_variant s _ Ht (title_line_self s)) as (V0 & V1 & V2 & V3).
    rewrite (tb_title _ _ _ _ _ _ _ s V0 V1 V2 V3). rewrite body_run_c by assumption.
    cbn [app]. now rewrite <- E.
  - cbn [app]. rewrite body_run_c by assumption. cbn [app]. now rewrite <- E.
Qed.

Lemma track_line_strip n mode :
  0 <= n -> wf_mode mode -> strip (track_line n mode) = track_line n mode.
Proof.
  intros Hn Hm. apply strip_id.
  - apply starts_nonws_app, kwT_starts.
  - apply ends_nonws_app, ends_nonws_cons, track_rest_ends, Hm.
Qed.

Lemma ft_step_c t R f acc :
  wf_track t ->
  file_tracks (S f) (print_track t ++ R) acc
  = (let r := track_body R t in file_tracks f (snd r) (acc ++ [fst r])).
Proof.
  intros Hw. pose proof Hw as (Hn & Hm & _).
  pose proof (track_variant _ _ _ Hn Hm (track_line_self (t_num t) (t_mode t))) as Hh.
  rewrite track_line_strip in Hh by assumption.
  unfold print_track. cbn [app file_tracks nonempty_entry]. rewrite track_line_strip by assumption.
  destruct (track_line (t_num t) (t_mode t)) as [|y ys] eqn:ES; [destruct Hh as (_ & H1 & _); congruence|].
  rewrite (track_parse_hdr _ (body_lines t ++ R) _ _ Hh). cbn [bind].
  rewrite body_full_c by assumption. reflexivity.
Qed.

Lemma tracks_run_c : forall ts, Forall wf_track ts ->
  forall cur fuel acc,
    (length (concat (map print_track ts)) < fuel)%nat ->
    (let r := track_body (concat (map print_track ts)) cur in file_tracks fuel (snd r) (acc ++ [fst r]))
    = Ok (acc ++ cur :: ts, []).
Proof.
  induction ts as [|t ts IH]; intros Hw cur fuel acc Hf.
  - cbn [map concat]. cbv zeta. rewrite track_body_nil. cbn [fst snd].
    destruct fuel as [|f]; [lia|]. reflexivity.
  - inversion Hw as [|? ? Ht Hw']; subst.
    pose proof Ht as (Hn & Hm & _).
    pose proof (track_variant _ _ _ Hn Hm (track_line_self (t_num t) (t_mode t))) as Hh.
    cbn [map concat] in *. rewrite app_length in Hf. unfold print_track at 1 in Hf. cbn [length] in Hf.
    cbv zeta.
    change (print_track t ++ concat (map print_track ts))
      with (track_line (t_num t) (t_mode t) :: body_lines t ++ concat (map print_track ts)).
    rewrite (tb_track _ _ cur _ _ Hh). cbn [fst snd]. rewrite track_line_strip by assumption.
    destruct fuel as [|f]; [lia|].
    change (track_line (t_num t) (t_mode t) :: body_lines t ++ concat (map print_track ts))
      with (print_track t ++ concat (map print_track ts)).
    rewrite ft_step_c by assumption.
    pose proof (IH Hw' t f (acc ++ [cur]) ltac:(lia)) as E. cbv zeta in E |- *. rewrite E.
    now rewrite <- app_assoc.
Qed.

Lemma cue_parse_canonical_lemma :
  forall c, wf_cue c -> parse_cue_sheet (print_cue c) = Ok c.
Proof.
  intros c (Hb & Ht).
  destruct (file_variant _ _ Hb (file_line_variant_refl (c_bin c))) as (F0 & F1 & F2).
  set (REST := concat (map print_track (c_tracks c))).
  assert (HT : file_tracks (S (length REST)) REST [] = Ok (c_tracks c, [])).
  { unfold REST. destruct (c_tracks c) as [|t ts]; [reflexivity|].
    inversion Ht as [|? ? Ht1 Ht2]; subst. cbn [map concat].
    rewrite ft_step_c by assumption.
    pose proof (tracks_run_c ts Ht2 t (length (print_track t ++ concat (map print_track ts))) [] ) as E.
    cbv zeta in E |- *. rewrite E; [reflexivity|]. rewrite app_length.
    assert (0 < length (print_track t))%nat by (unfold print_track; cbn [length]; lia). lia. }
  unfold parse_cue_sheet, print_cue. fold REST.
  rewrite (cue_files_file _ REST _ (c_bin c) (c_tracks c) F0 F1 F2 HT) by (cbn [length]; lia).
  cbn [bind]. destruct c. reflexivity.
Qed.

(** * Equal meanings give the same image: same routing, same CDDA track windows
    (neither looks at [t_unparsed]) *)
Lemma is_audio_clear t : is_audio (clear_unparsed t) = is_audio t.
Proof. reflexivity. Qed.

Lemma cue_route_meaning c : cue_route (cue_meaning c) = cue_route c.
Proof.
  unfold cue_route, cue_meaning. cbn [c_tracks].
  assert (E : existsb (fun t => negb (is_audio t)) (map clear_unparsed (c_tracks c))
              = existsb (fun t => negb (is_audio t)) (c_tracks c)).
  { induction (c_tracks c) as [|t ts IH]; [reflexivity|]. cbn [map existsb]. now rewrite IH. }
  now rewrite E.
Qed.

Lemma cdda_walk_clear : forall rest cur i eof,
  cdda_walk (clear_unparsed cur) (map clear_unparsed rest) i eof = cdda_walk cur rest i eof.
Proof.
  induction rest as [|nxt rest IH]; intros cur i eof; [reflexivity|].
  cbn [map cdda_walk]. change (t_indices (clear_unparsed cur)) with (t_indices cur).
  change (t_indices (clear_unparsed nxt)) with (t_indices nxt).
  change (t_title (clear_unparsed cur)) with (t_title cur).
  destruct (t_indices cur); [apply IH|]. destruct (t_indices nxt); [apply IH|]. now rewrite IH.
Qed.

Lemma cdda_windows_meaning c eof : cdda_windows (cue_meaning c) eof = cdda_windows c eof.
Proof.
  unfold cdda_windows, cue_meaning. cbn [c_tracks].
  assert (E : filter is_audio (map clear_unparsed (c_tracks c)) = map clear_unparsed (filter is_audio (c_tracks c))).
  { induction (c_tracks c) as [|t ts IH]; [reflexivity|]. cbn [map filter]. rewrite is_audio_clear.
    destruct (is_audio t); [cbn [map]; now rewrite IH|assumption]. }
  rewrite E. destruct (filter is_audio (c_tracks c)) as [|t ts]; [reflexivity|]. cbn [map]. apply cdda_walk_clear.
Qed.

Lemma meaning_of_cue_meaning c : meaning (cue_meaning c) = meaning c.
Proof.
  unfold meaning, cue_meaning. cbn [c_bin c_tracks]. f_equal. rewrite map_map. reflexivity.
Qed.

(** decorated sheets produce the same image as the canonical sheet *)
Lemma cue_decorated_same_image_lemma :
  forall c ls', wf_cue c -> decorated (print_cue c) ls' ->
    exists c', parse_cue_sheet ls' = Ok c' /\ meaning c' = meaning c
               /\ cue_route c' = cue_route c /\ forall eof, cdda_windows c' eof = cdda_windows c eof.
Proof.
  intros c ls' Hw H. destruct (cue_parse_decorated_lemma c ls' Hw H) as (c' & HP & <-).
  exists c'. split; [assumption|]. split; [now rewrite meaning_of_cue_meaning|].
  split; [now rewrite cue_route_meaning|]. intros eof. now rewrite cdda_windows_meaning.
Qed.

(** * Introduction lemmas and a worked example *)
Lemma kw_variant_intro K K' rest p s :
  In K [K_TRACK; K_TITLE; K_INDEX] -> ci_word K K' -> white p -> white s ->
  line_variant (K ++ 32 :: rest) (p ++ (K' ++ 32 :: rest) ++ s).
Proof. intros HK HC Hp Hs. exists (K' ++ 32 :: rest), p, s. repeat split; try assumption. now apply rc_kw. Qed.

Lemma file_variant_intro name F B p s :
  ci_word K_FILE F -> ci_word K_BINARY B -> white p -> white s ->
  line_variant (file_line name) (p ++ (F ++ [32; 34] ++ name ++ [34; 32] ++ B) ++ s).
Proof. intros HF HB Hp Hs. eexists _, p, s. repeat split; try assumption. now apply rc_file. Qed.

Lemma decorated_refl c : decorated (print_cue c) (print_cue c).
Proof.
  unfold print_cue. destruct (c_tracks c) as [|t ts].
  - apply (dec_no_track (file_line (c_bin c)) [] (file_line (c_bin c)) []);
      [constructor|apply file_line_variant_refl|constructor].
  - cbn [map concat]. unfold print_track at 1. cbn [app].
    apply (dec_tracks (file_line (c_bin c)) _ _ [] (file_line (c_bin c)) [] _ _);
      [constructor|apply file_line_variant_refl|constructor|apply track_line_self|].
    apply il_refl. intros l Hl. apply in_app_or in Hl as [Hl|Hl].
    + unfold body_lines in Hl. apply in_app_or in Hl as [Hl|Hl].
      * destruct (t_title t); [|contradiction]. destruct Hl as [<-|[]]. apply title_line_self.
      * apply in_map_iff in Hl as (i & <- & _). apply index_line_self.
    + apply in_concat in Hl as (x & Hx & Hl). apply in_map_iff in Hx as (t' & <- & _).
      destruct Hl as [<-|Hl]; [apply track_line_self|].
      unfold body_lines in Hl. apply in_app_or in Hl as [Hl|Hl].
      * destruct (t_title t'); [|contradiction]. destruct Hl as [<-|[]]. apply title_line_self.
      * apply in_map_iff in Hl as (i & <- & _). apply index_line_self.
Qed.

Definition ex_AUDIO := [65; 85; 68; 73; 79].
Definition ex_MODE1 := [77; 79; 68; 69; 49; 47; 50; 51; 53; 50].       (* MODE1/2352 *)
Definition ex_ix (n m s f : Z) := {| ix_num := n; ix_min := m; ix_sec := s; ix_frm := f |}.
Definition ex_cue : cue :=
  {| c_bin := [100; 46; 98; 105; 110];                                 (* d.bin *)
     c_tracks := [ mkt 1 ex_AUDIO (Some [65; 32; 98]) [ex_ix 0 0 0 0; ex_ix 1 0 2 0] [];
                   mkt 2 ex_MODE1 None [ex_ix 1 3 59 74] [];
                   mkt 12 ex_AUDIO (Some []) [] [] ] |}.

Lemma ex_cue_wf : wf_cue ex_cue.
Proof.
  unfold wf_cue, wf_track, wf_mode, wf_text, wf_index, ex_cue. cbn.
  repeat (split || constructor || lia || discriminate || reflexivity).
Qed.

(** FILE "d.bin" BINARY / TRACK 01 AUDIO / TITLE "A b" / INDEX 00 00:00:00 / INDEX 01 00:02:00 /
    TRACK 02 MODE1/2352 / INDEX 01 03:59:74 / TRACK 12 AUDIO / TITLE "" *)
Lemma ex_cue_printed :
  print_cue ex_cue =
  [ [70;73;76;69;32;34;100;46;98;105;110;34;32;66;73;78;65;82;89];
    [84;82;65;67;75;32;48;49;32;65;85;68;73;79];
    [84;73;84;76;69;32;34;65;32;98;34];
    [73;78;68;69;88;32;48;48;32;48;48;58;48;48;58;48;48];
    [73;78;68;69;88;32;48;49;32;48;48;58;48;50;58;48;48];
    [84;82;65;67;75;32;48;50;32;77;79;68;69;49;47;50;51;53;50];
    [73;78;68;69;88;32;48;49;32;48;51;58;53;57;58;55;52];
    [84;82;65;67;75;32;49;50;32;65;85;68;73;79];
    [84;73;84;76;69;32;34;34] ].
Proof. vm_compute. reflexivity. Qed.

Definition ex_pre : list (list Z) :=
  [ [82;69;77;32;71;69;78;82;69;32;120];                                           (* REM GENRE x *)
    [32;32;80;69;82;70;79;82;77;69;82;32;34;84;82;65;67;75;32;48;49;32;65;85;68;73;79;34]; (*   PERFORMER "TRACK 01 AUDIO" *)
    [];
    [84;82;65;67;75;32;48;57;32;65;85;68;73;79] ].                                 (* TRACK 09 AUDIO: not a FILE line *)
Definition ex_gap : list (list Z) := [ []; [32; 9] ].
Definition ex_file' : list Z :=
  [9] ++ ([102;105;108;101] ++ [32; 34] ++ c_bin ex_cue ++ [34; 32] ++ [98;73;110;65;114;89]) ++ [32; 32].  (* file ... bInArY *)
Definition ex_track1' : list Z := [32; 32] ++ ([84;114;65;99;75] ++ 32 :: track_rest 1 ex_AUDIO) ++ [].  (* TrAcK *)
Definition ex_rest' : list (list Z) :=
  [ [32;32;32;32;80;69;82;70;79;82;77;69;82;32;34;120;34];                         (*     PERFORMER "x" *)
    [32;32;32;32] ++ ([116;105;116;108;101] ++ 32 :: title_rest [65; 32; 98]) ++ [];          (* title *)
    [32;32;32;32;70;76;65;71;83;32;68;67;80];                                      (*     FLAGS DCP *)
    [] ++ ([105;110;100;101;120] ++ 32 :: index_rest (ex_ix 0 0 0 0)) ++ [9];                 (* index *)
    [];
    [32;32] ++ (K_INDEX ++ 32 :: index_rest (ex_ix 1 0 2 0)) ++ [13];
    [32;32;32;32;80;82;69;71;65;80;32;48;48;58;48;50;58;48;48];                    (*     PREGAP 00:02:00 *)
    [70;73;76;69;32;34;111;116;104;101;114;46;98;105;110;34;32;66;73;78;65;82;89]; (* FILE "other.bin" BINARY *)
    [] ++ ([116;114;97;99;107] ++ 32 :: track_rest 2 ex_MODE1) ++ [];                          (* track *)
    [32;32;32;32;73;83;82;67;32;65;66;67];                                         (*     ISRC ABC *)
    [32] ++ ([73;110;100;101;120] ++ 32 :: index_rest (ex_ix 1 3 59 74)) ++ [];               (* Index *)
    [] ++ (K_TRACK ++ 32 :: track_rest 12 ex_AUDIO) ++ [32];
    [9] ++ (K_TITLE ++ 32 :: title_rest []) ++ [];
    [82;69;77;32;101;110;100];                                                     (* REM end *)
    [] ].
Definition ex_decorated : list (list Z) := ex_pre ++ ex_file' :: ex_gap ++ ex_track1' :: ex_rest'.

Lemma ex_decorated_is_decorated : decorated (print_cue ex_cue) ex_decorated.
Proof.
  unfold ex_decorated.
  apply (dec_tracks (file_line (c_bin ex_cue)) (track_line 1 ex_AUDIO)
           [ title_line [65; 32; 98]; index_line (ex_ix 0 0 0 0); index_line (ex_ix 1 0 2 0);
             track_line 2 ex_MODE1; index_line (ex_ix 1 3 59 74);
             track_line 12 ex_AUDIO; title_line [] ]
           ex_pre ex_file' ex_gap ex_track1' ex_rest').
  - repeat constructor.
  - apply file_variant_intro; repeat constructor.
  - repeat constructor.
  - apply kw_variant_intro; [cbn; auto|repeat constructor..].
  - unfold ex_rest'.
    repeat first
      [ apply il_nil
      | apply il_keep; [solve [apply kw_variant_intro; [cbn; auto|repeat constructor..]]|]
      | apply il_ins; [solve [repeat split; vm_compute; reflexivity]|] ].
Qed.

(** the theorem applies, and agrees with running the model on this text *)
Lemma ex_decorated_parsed :
  exists c', parse_cue_sheet ex_decorated = Ok c' /\ cue_meaning c' = ex_cue.
Proof. exact (cue_parse_decorated_lemma ex_cue ex_decorated ex_cue_wf ex_decorated_is_decorated). Qed.

Lemma ex_decorated_run :
  match parse_cue_sheet ex_decorated with
  | Ok c' => meaning c' = meaning ex_cue /\ map (fun t => length (t_unparsed t)) (c_tracks c') = [4; 1; 1]%nat
  | _ => False
  end.
Proof. vm_compute. split; reflexivity. Qed.

(** Why (d) is stated with the parser's own tests: an inserted line that IS recognised changes
    the meaning.  A TITLE line after the INDEX lines of the last track replaces the title; a
    FILE line before the FILE line makes the sheet's own FILE line an unrecognised line
    between FILE and TRACK, which is rejected. *)
Lemma ex_recognised_insertions_change_meaning :
  (exists c', parse_cue_sheet (print_cue ex_cue ++ [title_line [120]]) = Ok c' /\ meaning c' <> meaning ex_cue)
  /\ parse_cue_sheet (file_line [120] :: print_cue ex_cue) = Err BadCueSheet.
Proof.
  split.
  - eexists. split; [vm_compute; reflexivity|]. vm_compute. discriminate.
  - vm_compute. reflexivity.
Qed.
