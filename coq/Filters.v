(** Model of smpl_extract/filters/fir.pyx (FirFilter, ChickSysCustomFirFilter,
    _c_chicken_sys_convolve_valid, _c_bound_and_fix), smpl_extract/filters/iir.pyx
    (s_double_cbuffer and its five routines, _c_process, _c_chickensys_process, _c_bound,
    _c_fix_int, IirFilter, ChickSysCustomIirFilter) and the presets of
    smpl_extract/filters/common.py.  Written by hand from the .pyx text.

    Arrays: a numpy array is [AF l] (dtype float64) or [AI l] (dtype int16, entries in
    [-32768, 32767]); np.concatenate promotes int16+float64 to float64 (even when the
    float64 part is empty).  Floats are IEEE binary64 (PrimFloat), evaluated in exactly
    the order of the source: np.convolve(x, h, "valid") for kernels of at most 11 taps is
    numpy's small_correlate: acc = 0; acc += x[k+i]*h[N-1-i] for i = 0..N-1 (for longer
    kernels numpy calls BLAS ddot whose order is unspecified: the model keeps the same
    order and the correspondence uses integer-valued data there).
    Casts: double -> short (numpy astype(int16) and the C casts <short>) is modelled as on
    x86-64 (cvttsd2si to 32 bits, low 16 bits kept; 0 when the value does not fit 32 bits or
    is NaN/inf); in-range values - the only ones the saturating filters produce - are exact.

    NOT modelled (memory-unsafe in the source, never executed by the harness): an IIR
    filter with len(A) = 1 (y_window.N = 0: push writes arr[SIZE_MAX] of a malloc(0)
    block); [iir_pre] requires len(A) >= 2.  FirFilter with integer-dtype taps on int16
    blocks (numpy would convolve in int16 and wrap) is outside the model: generic taps are
    float64 as in common.py. *)
From SE Require Import Base Codecs.
From Coq Require Import Floats.PrimFloat Floats.SpecFloat Floats.FloatOps.

Definition z2f : Z -> float := float_of_Z.
Definition fzero : float := 0%float.

(** * Scalar conversions *)
Definition sgn (s : bool) (z : Z) : Z := if s then - z else z.
(** integer part (toward zero) of m*2^e *)
Definition trunc_mag (m : positive) (e : Z) : Z :=
  if 0 <=? e then Z.pos m * 2 ^ e else Z.pos m / 2 ^ (- e).
(** C round(): nearest integer, halves away from zero, of m*2^e *)
Definition round_away_mag (m : positive) (e : Z) : Z :=
  if 0 <=? e then Z.pos m * 2 ^ e else (2 * Z.pos m + 2 ^ (- e)) / (2 * 2 ^ (- e)).
(** (short) of an integer-valued double with value z *)
Definition cast_short_Z (z : Z) : Z :=
  if (-2147483648 <=? z) && (z <=? 2147483647) then (z + 32768) mod 65536 - 32768 else 0.
(** astype(np.int16) of a float64 / <short> trunc(x) *)
Definition cast_i16 (f : float) : Z :=
  match Prim2SF f with
  | S754_finite s m e => cast_short_Z (sgn s (trunc_mag m e))
  | _ => 0
  end.
(** <short> cround(x) *)
Definition c_round_short (f : float) : Z :=
  match Prim2SF f with
  | S754_finite s m e => cast_short_Z (sgn s (round_away_mag m e))
  | _ => 0
  end.
(** cround(x) as a double *)
Definition c_round (f : float) : float :=
  match Prim2SF f with
  | S754_finite s m e =>
      if 0 <=? e then f
      else let z := round_away_mag m e in
           if z =? 0 then (if s then (- 0)%float else 0%float) else z2f (sgn s z)
  | _ => f
  end.

(** fir.pyx _c_bound_and_fix *)
Definition c_bound_and_fix (x : float) : Z :=
  if (32767 <? x)%float then 32767
  else if (x <? -32768)%float then -32768
  else c_round_short x.
(** iir.pyx _c_bound / _c_fix_int *)
Definition c_bound (x : float) : float :=
  if (32767 <? x)%float then 32767%float
  else if (x <? -32767)%float then (-32767)%float
  else x.
Definition c_fix_int (x : float) : Z := cast_i16 x.

(** * Arrays *)
Inductive arr := AF (l : list float) | AI (l : list Z).
Definition alen (a : arr) : Z := match a with AF l => zlen l | AI l => zlen l end.
Definition to_f (a : arr) : list float := match a with AF l => l | AI l => map z2f l end.
Definition to_i16 (a : arr) : list Z := match a with AF l => map cast_i16 l | AI l => l end.
Definition acat (a b : arr) : arr :=
  match a, b with
  | AI x, AI y => AI (x ++ y)
  | _, _ => AF (to_f a ++ to_f b)
  end.
Fixpoint aconcat (l : list arr) : arr :=
  match l with
  | [] => AF []
  | [a] => a
  | a :: t => acat a (aconcat t)
  end.
(** y.astype(x.dtype) *)
Definition astype_like (x y : arr) : arr :=
  match x with AF _ => AF (to_f y) | AI _ => AI (to_i16 y) end.
(** Python l[-k:]  (k = 0 gives the whole list: -0 == 0) *)
Definition py_tail {A} (l : list A) (k : Z) : list A :=
  if k =? 0 then l
  else if k <? 0 then skipn (Z.to_nat (- k)) l
  else skipn (length l - Z.to_nat k) l.
Definition atail (a : arr) (k : Z) : arr :=
  match a with AF l => AF (py_tail l k) | AI l => AI (py_tail l k) end.

(** * "valid" convolution as explicit dot products over sliding windows *)
Fixpoint windows {A} (w : list A) (cnt : nat) : list (list A) :=
  match cnt with
  | O => []
  | S c => w :: windows (tl w) c
  end.
Definition conv_valid {A B} (dotf : list A -> B) (N : nat) (w : list A) : list B :=
  if (length w <? N)%nat then [] else map dotf (windows w (length w + 1 - N)).

(** numpy small_correlate: hr is the reversed kernel *)
Definition dot_f (hr : list float) (w : list float) : float :=
  fold_left (fun acc p => (acc + fst p * snd p)%float) (combine w hr) 0%float.

(** _c_chicken_sys_convolve_valid: per-term cround(<double>(x*h) / k), summed, then
    _c_bound_and_fix *)
Definition chick_term (k x h : Z) : float := c_round (z2f (x * h) / z2f k)%float.
Definition chick_dot (k : Z) (hr : list Z) (w : list Z) : Z :=
  c_bound_and_fix
    (fold_left (fun acc p => (acc + chick_term k (fst p) (snd p))%float) (combine w hr) 0%float).

(** * FirFilter / ChickSysCustomFirFilter *)
Record fir := { f_chick : bool; f_k : Z; f_h : arr; f_m0 : Z; f_xprev : arr }.
Definition fir_N (f : fir) : Z := alen (f_h f).
Definition fir_m1 (f : fir) : Z := fir_N f - f_m0 f - 1.
Definition fzeros (n : Z) : arr := AF (zrepeat 0%float n).

(** __init__: np.zeros(m1) raises ValueError for m1 < 0 *)
Definition fir_mk (chick : bool) (k : Z) (h : arr) (m0 : Z) : res fir :=
  let m1 := alen h - m0 - 1 in
  if m1 <? 0 then Err ValueErr
  else Ok {| f_chick := chick; f_k := k; f_h := h; f_m0 := m0; f_xprev := fzeros m1 |}.
Definition fir_with_xprev (f : fir) (xp : arr) : fir :=
  {| f_chick := f_chick f; f_k := f_k f; f_h := f_h f; f_m0 := f_m0 f; f_xprev := xp |}.
Definition fir_reset (f : fir) : fir := fir_with_xprev f (fzeros (fir_m1 f)).

Definition aempty_like (x : arr) : arr := match x with AF _ => AF [] | AI _ => AI [] end.

Definition fir_convolve_valid (f : fir) (x : arr) : res arr :=
  if f_chick f then
    match f_h f with
    | AI h =>
        if f_k f =? 0 then Err AssertionErr
        else Ok (AI (conv_valid (chick_dot (f_k f) (rev h)) (length h) (to_i16 x)))
    | AF _ => Err ValueErr                       (* buffer dtype mismatch *)
    end
  else
    match f_h f with
    | AF h =>
        if alen x <? zlen h then Ok (aempty_like x)
        else if zlen h =? 0 then Err ValueErr     (* np.convolve: v cannot be empty *)
        else Ok (AF (conv_valid (dot_f (rev h)) (length h) (to_f x)))
    | AI _ => Err ValueErr                        (* integer taps: outside the model *)
    end.

Definition fir_process (f : fir) (x : arr) : res (arr * fir) :=
  let x_full := acat (f_xprev f) x in
  let f' := fir_with_xprev f (atail x (fir_N f - 1)) in
  y <- fir_convolve_valid f x_full ;;
  Ok (astype_like x y, f').

Definition fir_get_remaining (f : fir) : res (arr * fir) :=
  if f_m0 f <? 0 then Err ValueErr
  else
    let x_full := acat (f_xprev f) (fzeros (f_m0 f)) in
    y <- fir_convolve_valid f x_full ;;
    Ok (astype_like (f_xprev f) y, fir_reset f).

(** * Circular buffer (s_double_cbuffer) *)
Record cbuf := { cb_arr : list float; cb_N : nat; cb_pos : nat }.
Definition cb_init (x : list float) (N : nat) : cbuf :=
  let N' := if (N <? length x)%nat then length x else N in
  {| cb_arr := x ++ repeat 0%float (N' - length x); cb_N := N'; cb_pos := O |}.
Definition cb_push (cb : cbuf) (a : float) : cbuf :=
  let p := if (cb_pos cb =? 0)%nat then (cb_N cb - 1)%nat else (cb_pos cb - 1)%nat in
  {| cb_arr := upd_nat (cb_arr cb) p a; cb_N := cb_N cb; cb_pos := p |}.
Definition cb_next (cb : cbuf) (i : nat) : nat := if (cb_N cb <=? S i)%nat then O else S i.
Fixpoint cb_inner_go (cb : cbuf) (A : list float) (idx : nat) (y : float) : float :=
  match A with
  | [] => y
  | a :: t => cb_inner_go cb t (cb_next cb idx) (y + a * nth idx (cb_arr cb) 0)%float
  end.
Definition cb_inner (cb : cbuf) (A : list float) : float := cb_inner_go cb A (cb_pos cb) 0%float.
Fixpoint cb_fill_go (cb : cbuf) (n : nat) (idx : nat) : list float :=
  match n with
  | O => []
  | S n' => nth idx (cb_arr cb) 0%float :: cb_fill_go cb n' (cb_next cb idx)
  end.
Definition cb_fill (cb : cbuf) (n : nat) : list float := cb_fill_go cb n (cb_pos cb).

(** * _c_process / _c_chickensys_process *)
Fixpoint iir_loop (post : float -> float) (B At : list float) (k : float)
         (xw yw : cbuf) (x : list float) : list float * cbuf * cbuf :=
  match x with
  | [] => ([], xw, yw)
  | v :: t =>
      let xw' := cb_push xw v in
      let y := post ((cb_inner xw' B - cb_inner yw At) / k)%float in
      let yw' := cb_push yw y in
      let '(o, xw2, yw2) := iir_loop post B At k xw' yw' t in
      (y :: o, xw2, yw2)
  end.

(** the assertions of the kernel (plus the model-domain restriction len A >= 2) *)
Definition iir_pre (B A xp yp : list float) : bool :=
  (1 <=? length B)%nat && (2 <=? length A)%nat && negb (hd 0%float A =? 0)%float
  && (length xp + 1 =? length B)%nat && (length yp =? length A - 1)%nat.

(** returns the values pushed to the y window (after [post]) and the saved state *)
Definition iir_core (post : float -> float) (B A xp yp x : list float)
  : res (list float * list float * list float) :=
  if negb (iir_pre B A xp yp) then Err AssertionErr
  else
    let xw := cb_init xp (length xp + 1) in
    let yw := cb_init yp (length yp) in
    let '(o, xw', yw') := iir_loop post B (tl A) (hd 0%float A) xw yw x in
    Ok (o, cb_fill xw' (length xp), cb_fill yw' (length yp)).

(** * IirFilter / ChickSysCustomIirFilter *)
Record iir := { i_chick : bool; i_B : list float; i_A : list float;
                i_xprev : list float; i_yprev : list float }.
Definition iir_with (f : iir) (xp yp : list float) : iir :=
  {| i_chick := i_chick f; i_B := i_B f; i_A := i_A f; i_xprev := xp; i_yprev := yp |}.
Definition iir_reset (f : iir) : iir :=
  iir_with f (repeat 0%float (length (i_B f) - 1)) (repeat 0%float (length (i_A f) - 1)).
Definition iir_mk (chick : bool) (B A : list float) : iir :=
  iir_reset {| i_chick := chick; i_B := B; i_A := A; i_xprev := []; i_yprev := [] |}.

Definition iir_process (f : iir) (x : arr) : res (arr * iir) :=
  if i_chick f then
    match x with
    | AI xs =>
        r <- iir_core c_bound (i_B f) (i_A f) (i_xprev f) (i_yprev f) (map z2f xs) ;;
        let '(o, xp, yp) := r in Ok (AI (map c_fix_int o), iir_with f xp yp)
    | AF _ => Err ValueErr                        (* buffer dtype mismatch *)
    end
  else
    r <- iir_core (fun y => y) (i_B f) (i_A f) (i_xprev f) (i_yprev f) (to_f x) ;;
    let '(o, xp, yp) := r in Ok (AF o, iir_with f xp yp).
Definition iir_get_remaining (f : iir) : res (arr * iir) := Ok (AF [], iir_reset f).

(** * Either kind of filter, and operation sequences *)
Inductive filt := FF (f : fir) | FI (f : iir).
Definition filt_process (f : filt) (x : arr) : res (arr * filt) :=
  match f with
  | FF g => r <- fir_process g x ;; Ok (fst r, FF (snd r))
  | FI g => r <- iir_process g x ;; Ok (fst r, FI (snd r))
  end.
Definition filt_get_remaining (f : filt) : res (arr * filt) :=
  match f with
  | FF g => r <- fir_get_remaining g ;; Ok (fst r, FF (snd r))
  | FI g => r <- iir_get_remaining g ;; Ok (fst r, FI (snd r))
  end.
Definition filt_reset (f : filt) : filt :=
  match f with FF g => FF (fir_reset g) | FI g => FI (iir_reset g) end.

Inductive fop := OProc (x : arr) | ORem | OReset.
Fixpoint run_ops (f : filt) (ops : list fop) : res (list arr * filt) :=
  match ops with
  | [] => Ok ([], f)
  | OProc x :: t => r <- filt_process f x ;; r2 <- run_ops (snd r) t ;; Ok (fst r :: fst r2, snd r2)
  | ORem :: t => r <- filt_get_remaining f ;; r2 <- run_ops (snd r) t ;; Ok (fst r :: fst r2, snd r2)
  | OReset :: t => run_ops (filt_reset f) t
  end.

(** feed the blocks one by one, then flush: (concatenated block outputs, flushed tail, filter) *)
Fixpoint feed (f : filt) (blocks : list arr) : res (list arr * filt) :=
  match blocks with
  | [] => Ok ([], f)
  | b :: t => r <- filt_process f b ;; r2 <- feed (snd r) t ;; Ok (fst r :: fst r2, snd r2)
  end.
Definition stream (f : filt) (blocks : list arr) : res (arr * arr * filt) :=
  r <- feed f blocks ;;
  q <- filt_get_remaining (snd r) ;;
  Ok (aconcat (fst r), fst q, snd q).

(** * Presets (common.py) *)
Definition cdxtract_h : list float :=
  [ 0x1.4c029805300a6p-8; 0x1.432a86550caa2p-2; 0x1.350e6a1cd439bp-1; 0x1.36226c44d889bp-4;
    0; 0; 0; 0 ]%float.
Definition chick_roland_h : list Z :=
  [1; -2; 5; -11; 25; -65; 176; -460; 9981; 32767; 9981; -460; 176; -65; 25; -11; 5; -2; 1].
Definition chick_iir (c0 c1 c2 : float) : iir := iir_mk true [c0; c1] [1%float; (- c2)%float].

Definition preset (n : Z) : res filt :=
  match n with
  | 0 (* CdXtractRolandDeemphFilter *) => f <- fir_mk false 1 (AF cdxtract_h) 0 ;; Ok (FF f)
  | 1 (* ChickSysStandardDeemphFilter: 0.5923 0.1516 0.2560 *) =>
      Ok (FI (chick_iir 0x1.2f41f212d7732p-1 0x1.367a0f9096bbap-3 0x1.0624dd2f1a9fcp-2))
  | 2 (* ChickSysDarkerDeemphFilter: 0.7071 0.1213 0.1716 *) =>
      Ok (FI (chick_iir 0x1.6a0902de00d1bp-1 0x1.f0d844d013a93p-4 0x1.5f6fd21ff2e49p-3))
  | 3 (* ChickSysSpecialDeemphFilter: 1.0*22082/32767 ... *) =>
      Ok (FI (chick_iir (1 * z2f 22082 / z2f 32767) (1 * z2f 4967 / z2f 32767)
                        (1 * z2f 8411 / z2f 32767))%float)
  | 4 (* ChickSysRolandDeemphFilter *) => f <- fir_mk true 52067 (AI chick_roland_h) 7 ;; Ok (FF f)
  | _ => Err KeyErr
  end.
