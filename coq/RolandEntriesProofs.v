(** Lemmas about the Roland S-7xx sample-record model (RolandEntries.v): the records of
    different samples occupy disjoint bytes; a reference's outcome depends only on its own
    two records; the tolerant loop is entrywise; exported bytes of a sample whose chain lies in
    the data area do not depend on any record of another sample. *)
From SE Require Import Base Codecs Fat FatProofs AkaiChainProofs Stream StreamProofs Roland RolandProofs
                       RolandChainProofs Names NamesProofs NamesMoreProofs NamesRemovalProofs RolandEntries.

(** * Slices of two lists that agree on the sliced range *)
Lemma slice_agree (l l' : list Z) lo hi :
  zlen l' = zlen l -> 0 <= lo ->
  (forall a, lo <= a < hi -> znth 0 l' a = znth 0 l a) ->
  slice l' lo hi = slice l lo hi.
Proof.
  intros Hlen Hlo Hag.
  destruct (Z.le_gt_cases hi lo) as [Hle|Hlt].
  - unfold slice. replace (Z.to_nat (hi - lo)) with O by lia. reflexivity.
  - destruct (Z.le_gt_cases (zlen l) lo) as [Hpast|Hin].
    + rewrite !slice_past_end by lia. reflexivity.
    + assert (Hclip : forall m : list Z, zlen m = zlen l ->
                slice m lo hi = slice m lo (lo + (Z.min hi (zlen l) - lo))).
      { intros m Hm. destruct (Z.le_gt_cases (zlen l) hi) as [Hc|Hc].
        - rewrite (slice_clip m lo hi) by lia. f_equal. lia.
        - f_equal. lia. }
      rewrite (Hclip l' Hlen), (Hclip l eq_refl).
      rewrite !(slice_map_znth 0) by lia.
      apply map_ext_zrange. intros a Ha. apply Hag. lia.
Qed.

(** * T1: the byte ranges of the records *)
Lemma roland_records_disjoint_lemma : forall ly i j a,
  layout_ok ly -> 0 <= i < ly_max ly -> 0 <= j < ly_max ly ->
  (i <> j -> in_dir_rec ly i a -> ~ in_dir_rec ly j a) /\
  (i <> j -> in_par_rec ly i a -> ~ in_par_rec ly j a) /\
  (in_dir_rec ly i a -> ~ in_par_rec ly j a) /\
  (in_dir_rec ly i a \/ in_par_rec ly i a ->
     ly_fat ly + 2 * ly_nfat ly <= a < ly_doff ly + 2 * ly_L ly).
Proof.
  intros ly i j a (H0 & H1 & H2 & H3 & H4 & H5 & H6) Hi Hj.
  unfold in_dir_rec, in_par_rec, dir_rec_offset, par_rec_offset, DIR_REC, PAR_REC in *.
  repeat split; try lia.
Qed.

Lemma real_layout_ok_lemma : layout_ok real_layout.
Proof. unfold layout_ok. vm_compute. intuition congruence. Qed.

(** the sample records lie outside the tables of the other four kinds (volume, performance,
    patch, partial: the records through which a performance reaches its samples) *)
Lemma roland_sample_records_apart_lemma : forall k m i a,
  k <> KSample -> 0 <= m < max_num k -> 0 <= i < max_num KSample ->
  in_dir_rec real_layout i a \/ in_par_rec real_layout i a ->
  ~ (dir_offset k m <= a < dir_offset k m + DIR_ENTRY_SIZE) /\
  ~ (par_offset k m <= a < par_offset k m + par_size k).
Proof.
  intros k m i a Hk Hm Hi Ha.
  unfold in_dir_rec, in_par_rec, dir_rec_offset, par_rec_offset, DIR_REC, PAR_REC in Ha.
  unfold dir_offset, par_offset, DIR_ENTRY_SIZE.
  destruct k; try congruence;
    cbn [dir_area par_area par_size max_num real_layout ly_dbase ly_pbase] in *; lia.
Qed.

(** the model's addresses are those of Roland.v *)
Lemma real_offsets_lemma i :
  dir_rec_offset real_layout i = dir_offset KSample i /\ par_rec_offset real_layout i = par_offset KSample i.
Proof. split; reflexivity. Qed.

(** * T2: a reference's outcome depends on its own two records only *)
Section Isolation.
Context (ly : rlayout) (img img' : list Z) (k : Z).
Hypothesis Hly : layout_ok ly.
Hypothesis Hk : 0 <= k < ly_max ly.
Hypothesis Hd : damaged_sample ly img img' k.

Lemma sample_dir_bytes_same j : 0 <= j < ly_max ly -> j <> k ->
  sample_dir_bytes ly img' j = sample_dir_bytes ly img j.
Proof.
  intros Hj Hjk. destruct Hd as [Hlen Hag]. destruct Hly as (H0 & H1 & H2 & H3 & H4 & H5 & H6).
  unfold sample_dir_bytes. apply slice_agree; [assumption|unfold dir_rec_offset, DIR_REC; lia|].
  intros a Ha. apply Hag.
  - unfold dir_rec_offset, DIR_REC in Ha. lia.
  - unfold in_dir_rec, dir_rec_offset, DIR_REC in *. lia.
  - unfold in_par_rec, par_rec_offset, dir_rec_offset, DIR_REC, PAR_REC in *. lia.
Qed.
Lemma sample_par_bytes_same j : 0 <= j < ly_max ly -> j <> k ->
  sample_par_bytes ly img' j = sample_par_bytes ly img j.
Proof.
  intros Hj Hjk. destruct Hd as [Hlen Hag]. destruct Hly as (H0 & H1 & H2 & H3 & H4 & H5 & H6).
  unfold sample_par_bytes. apply slice_agree; [assumption|unfold par_rec_offset, DIR_REC, PAR_REC in *; lia|].
  intros a Ha. apply Hag.
  - unfold par_rec_offset, PAR_REC, DIR_REC in *. lia.
  - unfold in_dir_rec, dir_rec_offset, par_rec_offset, DIR_REC, PAR_REC in *. lia.
  - unfold in_par_rec, par_rec_offset, PAR_REC in *. lia.
Qed.

Lemma parse_sample_entry_same j : j <> k ->
  parse_sample_entry ly img' j = parse_sample_entry ly img j.
Proof.
  intros Hjk. unfold parse_sample_entry.
  destruct (Z.ltb_spec j 0) as [|Hj0]; [reflexivity|].
  destruct (Z.ltb_spec j (ly_max ly)) as [Hjm|]; [|reflexivity]. cbn [negb].
  rewrite sample_dir_bytes_same, sample_par_bytes_same by lia. reflexivity.
Qed.
Lemma sample_ref_same N links j : j <> k ->
  sample_ref ly N links img' j = sample_ref ly N links img j.
Proof. intros Hjk. unfold sample_ref. now rewrite parse_sample_entry_same. Qed.
Lemma kept_ref_same N links j : j <> k ->
  kept_ref ly N links img' j = kept_ref ly N links img j.
Proof. intros Hjk. unfold kept_ref. now rewrite sample_ref_same. Qed.

(** * T3: the listing of the other samples *)
Lemma entries_of_same N links : forall idx, ~ In k idx ->
  entries_of ly N links img' idx = entries_of ly N links img idx.
Proof.
  induction idx as [|i t IH]; intros Hn; [reflexivity|].
  cbn [entries_of]. rewrite kept_ref_same, IH; [reflexivity| |]; cbn in Hn; intuition.
Qed.
End Isolation.

Lemma roland_entry_isolation_lemma : forall ly img img' k j,
  layout_ok ly -> 0 <= k < ly_max ly -> damaged_sample ly img img' k -> j <> k ->
  parse_sample_entry ly img' j = parse_sample_entry ly img j /\
  forall N links, sample_ref ly N links img' j = sample_ref ly N links img j /\
                  kept_ref ly N links img' j = kept_ref ly N links img j.
Proof.
  intros ly img img' k j Hly Hk Hd Hjk. split; [now apply (parse_sample_entry_same ly img img' k)|].
  intros N links. split; [now apply (sample_ref_same ly img img' k)|now apply (kept_ref_same ly img img' k)].
Qed.
(** the two record slices themselves, for an index inside the table *)
Lemma roland_record_bytes_same_lemma : forall ly img img' k j,
  layout_ok ly -> 0 <= k < ly_max ly -> damaged_sample ly img img' k -> 0 <= j < ly_max ly -> j <> k ->
  sample_dir_bytes ly img' j = sample_dir_bytes ly img j /\ sample_par_bytes ly img' j = sample_par_bytes ly img j.
Proof.
  intros ly img img' k j Hly Hk Hd Hj Hjk.
  split; [now apply (sample_dir_bytes_same ly img img' k)|now apply (sample_par_bytes_same ly img img' k)].
Qed.

(** the loop is entrywise *)
Lemma entries_of_app ly N links img : forall a b,
  entries_of ly N links img (a ++ b)
  = (x <- entries_of ly N links img a ;; y <- entries_of ly N links img b ;; Ok (x ++ y)).
Proof.
  induction a as [|i t IH]; intros b; cbn [app entries_of bind].
  - destruct (entries_of ly N links img b); reflexivity.
  - destruct (kept_ref ly N links img i) as [x| |]; cbn [bind]; try reflexivity.
    rewrite IH. destruct (entries_of ly N links img t) as [r| |]; cbn [bind]; try reflexivity.
    destruct (entries_of ly N links img b) as [s| |]; cbn [bind]; try reflexivity.
    now rewrite app_assoc.
Qed.
Lemma entries_of_split ly N links img pre k post :
  entries_of ly N links img (pre ++ k :: post)
  = (a <- entries_of ly N links img pre ;; x <- kept_ref ly N links img k ;;
     b <- entries_of ly N links img post ;; Ok (a ++ x ++ b)).
Proof.
  rewrite entries_of_app. cbn [entries_of].
  destruct (entries_of ly N links img pre) as [a| |]; cbn [bind]; try reflexivity.
  destruct (kept_ref ly N links img k) as [x| |]; cbn [bind]; try reflexivity.
  destruct (entries_of ly N links img post) as [b| |]; cbn [bind]; reflexivity.
Qed.
Lemma kept_ref_length ly N links img i x : kept_ref ly N links img i = Ok x -> (length x <= 1)%nat.
Proof.
  unfold kept_ref. destruct (sample_ref ly N links img i) as [y|e|]; try discriminate.
  - intros [= <-]. cbn. lia.
  - destruct (swallowed e); [|discriminate]. intros [= <-]. cbn. lia.
Qed.
(** every listed entry carries the index it was referenced by *)
Lemma parse_sample_entry_index ly img i e : parse_sample_entry ly img i = Ok e -> se_index e = i.
Proof.
  unfold parse_sample_entry. destruct (i <? 0); [discriminate|]. destruct (negb (i <? ly_max ly)); [discriminate|].
  destruct (parse_dir_record _) as [d| |]; cbn [bind]; try discriminate.
  destruct (parse_par_record _) as [p| |]; cbn [bind]; try discriminate.
  now intros [= <-].
Qed.
Lemma kept_ref_index ly N links img i x : kept_ref ly N links img i = Ok x ->
  Forall (fun y => se_index (fst y) = i) x.
Proof.
  unfold kept_ref, sample_ref.
  destruct (parse_sample_entry ly img i) as [e|e|] eqn:E; cbn [bind].
  - destruct (roland_get_file _ _ _ _) as [secs|e'|]; cbn [bind].
    + intros [= <-]. constructor; [|constructor]. cbn [fst]. eapply parse_sample_entry_index; eassumption.
    + destruct (swallowed e'); [|discriminate]. intros [= <-]. constructor.
    + discriminate.
  - destruct (swallowed e); [|discriminate]. intros [= <-]. constructor.
  - discriminate.
Qed.
Lemma entries_of_index ly N links img : forall idx L, entries_of ly N links img idx = Ok L ->
  Forall (fun y => In (se_index (fst y)) idx) L.
Proof.
  induction idx as [|i t IH]; intros L; cbn [entries_of].
  - intros [= <-]. constructor.
  - destruct (kept_ref ly N links img i) as [x| |] eqn:E; cbn [bind]; try discriminate.
    destruct (entries_of ly N links img t) as [r| |]; cbn [bind]; try discriminate.
    intros [= <-]. apply Forall_app. split.
    + eapply Forall_impl; [|eapply kept_ref_index; eassumption]. cbn. intros y ->. now left.
    + eapply Forall_impl; [|apply IH; reflexivity]. cbn. intros y Hy. now right.
Qed.

(** the entries of the samples other than [k], in order *)
Definition other_entries (k : Z) (L : list (sentry * list Z)) : list (sentry * list Z) :=
  filter (fun y => negb (se_index (fst y) =? k)) L.
Definition escapes {A} (r : res A) : bool :=
  match r with Ok _ => false | Err e => negb (swallowed e) | OutOfFuel => true end.

Lemma other_entries_all k L : Forall (fun y => se_index (fst y) <> k) L -> other_entries k L = L.
Proof.
  induction 1 as [|y L Hy _ IH]; [reflexivity|]. cbn [other_entries filter].
  destruct (Z.eqb_spec (se_index (fst y)) k); [contradiction|]. cbn [negb]. f_equal. exact IH.
Qed.
Lemma other_entries_none k L : Forall (fun y => se_index (fst y) = k) L -> other_entries k L = [].
Proof.
  induction 1 as [|y L Hy _ IH]; [reflexivity|]. cbn [other_entries filter].
  rewrite Hy, Z.eqb_refl. cbn [negb]. exact IH.
Qed.
Lemma other_entries_app k a b : other_entries k (a ++ b) = other_entries k a ++ other_entries k b.
Proof. apply filter_app. Qed.

(** for ANY index list (the damaged sample may be referenced several times: several patches
    of the performance may use it): the listing of the damaged image either fails with the
    escaping failure of the damaged sample's own reference, or succeeds and lists the other
    samples exactly as before *)
Lemma roland_listing_isolation_lemma : forall ly N links img img' k idx L,
  layout_ok ly -> 0 <= k < ly_max ly -> damaged_sample ly img img' k ->
  entries_of ly N links img idx = Ok L ->
  (exists L', entries_of ly N links img' idx = Ok L' /\ other_entries k L' = other_entries k L)
  \/ (In k idx /\ escapes (sample_ref ly N links img' k) = true /\
      is_ok (entries_of ly N links img' idx) = false).
Proof.
  intros ly N links img img' k idx L Hly Hk Hd. revert L.
  induction idx as [|i t IH]; intros L; cbn [entries_of].
  - intros [= <-]. left. exists []. split; reflexivity.
  - destruct (kept_ref ly N links img i) as [x| |] eqn:Ex; cbn [bind]; try discriminate.
    destruct (entries_of ly N links img t) as [r| |] eqn:Er; cbn [bind]; try discriminate.
    intros [= <-].
    destruct (Z.eq_dec i k) as [->|Hik].
    + (* the damaged sample's own reference *)
      destruct (kept_ref ly N links img' k) as [x'|e'|] eqn:Ex'; cbn [bind].
      * destruct (IH r eq_refl) as [(L' & EL' & HO)|(Hin & Hesc & Hf)].
        -- left. rewrite EL'. cbn [bind]. exists (x' ++ L'). split; [reflexivity|].
           rewrite !other_entries_app, HO.
           rewrite (other_entries_none k x) by (eapply kept_ref_index; eassumption).
           rewrite (other_entries_none k x') by (eapply kept_ref_index; eassumption). reflexivity.
        -- right. split; [now left|]. split; [assumption|].
           destruct (entries_of ly N links img' t); cbn [bind is_ok] in *; congruence.
      * right. split; [now left|]. split; [|reflexivity].
        unfold kept_ref in Ex'. destruct (sample_ref ly N links img' k) as [y|e|]; try discriminate.
        cbn [escapes]. destruct (swallowed e); [discriminate|reflexivity].
      * right. split; [now left|]. split; [|reflexivity].
        unfold kept_ref in Ex'. destruct (sample_ref ly N links img' k) as [y|e|]; try discriminate; [|reflexivity].
        destruct (swallowed e); discriminate.
    + rewrite (kept_ref_same ly img img' k Hly Hk Hd N links i Hik), Ex. cbn [bind].
      destruct (IH r eq_refl) as [(L' & EL' & HO)|(Hin & Hesc & Hf)].
      * left. rewrite EL'. cbn [bind]. exists (x ++ L'). split; [reflexivity|].
        now rewrite !other_entries_app, HO.
      * right. split; [now right|]. split; [assumption|].
        destruct (entries_of ly N links img' t); cbn [bind is_ok] in *; congruence.
Qed.

(** the same with the damaged sample referenced once: both listings decompose around it *)
Lemma roland_listing_decompose_lemma : forall ly N links img img' k pre post A B x x',
  layout_ok ly -> 0 <= k < ly_max ly -> damaged_sample ly img img' k ->
  ~ In k pre -> ~ In k post ->
  entries_of ly N links img pre = Ok A -> entries_of ly N links img post = Ok B ->
  kept_ref ly N links img k = Ok x -> kept_ref ly N links img' k = Ok x' ->
  entries_of ly N links img (pre ++ k :: post) = Ok (A ++ x ++ B)
  /\ entries_of ly N links img' (pre ++ k :: post) = Ok (A ++ x' ++ B)
  /\ (length x <= 1)%nat /\ (length x' <= 1)%nat.
Proof.
  intros ly N links img img' k pre post A B x x' Hly Hk Hd Hpre Hpost EA EB Ex Ex'.
  rewrite !entries_of_split.
  rewrite (entries_of_same ly img img' k Hly Hk Hd N links pre Hpre).
  rewrite (entries_of_same ly img img' k Hly Hk Hd N links post Hpost).
  rewrite EA, EB, Ex, Ex'. cbn [bind]. repeat split; try reflexivity; eapply kept_ref_length; eassumption.
Qed.

(** * T3, names: composition with the naming theorem *)
Lemma perf_elems_split progs A x B :
  perf_elems progs (A ++ x :: B)
  = (map (fun n => (n, true)) progs ++ map (fun y => (entry_name y, true)) A)
    ++ (entry_name x, true) :: map (fun y => (entry_name y, true)) B.
Proof. unfold perf_elems. rewrite map_app. cbn [map]. now rewrite app_assoc. Qed.

(** the damaged sample still parses (its name may have changed): every program and every
    other sample of the performance is listed under the name it had, under the two
    conditions of [sibling_names_stable_lemma] *)
Lemma roland_listed_names_lemma : forall f progs A B x x' names names',
  let cand := fun n : list Z => f n true in
  let others_c := map cand (progs ++ map entry_name (A ++ B)) in
  ~ In (cand (entry_name x)) others_c -> ~ In (cand (entry_name x')) others_c ->
  (forall g i, (2 <= count_occ_name g others_c)%nat -> 2 <= i ->
     add_count g i <> cand (entry_name x) /\ add_count g i <> cand (entry_name x')) ->
  perf_listed_names f progs (A ++ x :: B) = Ok names ->
  perf_listed_names f progs (A ++ x' :: B) = Ok names' ->
  forall j, j <> (length progs + length A)%nat -> nth_error names j = nth_error names' j.
Proof.
  intros f progs A B x x' names names' cand others_c H1 H2 H3 R R' j Hj.
  unfold perf_listed_names in R, R'. rewrite perf_elems_split in R, R'.
  set (pre := map (fun n => (n, true)) progs ++ map (fun y => (entry_name y, true)) A) in *.
  set (post := map (fun y : sentry * list Z => (entry_name y, true)) B) in *.
  assert (Hoth : map (fun e : list Z * bool => f (fst e) (snd e)) (pre ++ post) = others_c).
  { unfold pre, post, others_c, cand. rewrite !map_app, !map_map. cbn [fst snd].
    rewrite <- app_assoc. reflexivity. }
  apply (sibling_names_stable_lemma f pre (entry_name x, true) (entry_name x', true) post names names');
    cbn [fst snd]; try (rewrite Hoth); try assumption.
  unfold pre. rewrite app_length, !map_length. exact Hj.
Qed.

(** the damaged sample no longer parses and is dropped (or: was dropped and parses now): every
    program and every other sample keeps its name, under the removal form of the conditions *)
Lemma perf_elems_app progs A B :
  perf_elems progs (A ++ B)
  = (map (fun n => (n, true)) progs ++ map (fun y => (entry_name y, true)) A)
    ++ map (fun y => (entry_name y, true)) B.
Proof. unfold perf_elems. rewrite map_app. now rewrite app_assoc. Qed.
Lemma roland_listed_names_dropped_lemma : forall f progs A B x names names0,
  let cand := fun n : list Z => f n true in
  let others_c := map cand (progs ++ map entry_name (A ++ B)) in
  ~ In (cand (entry_name x)) others_c ->
  (forall g i, (2 <= count_occ_name g others_c)%nat -> 2 <= i -> add_count g i <> cand (entry_name x)) ->
  perf_listed_names f progs (A ++ x :: B) = Ok names ->
  perf_listed_names f progs (A ++ B) = Ok names0 ->
  exists np v nq, names = np ++ v :: nq /\ names0 = np ++ nq /\ length np = (length progs + length A)%nat.
Proof.
  intros f progs A B x names names0 cand others_c H1 H3 R R0.
  unfold perf_listed_names in R, R0. rewrite perf_elems_split in R. rewrite perf_elems_app in R0.
  set (pre := map (fun n => (n, true)) progs ++ map (fun y => (entry_name y, true)) A) in *.
  set (post := map (fun y : sentry * list Z => (entry_name y, true)) B) in *.
  assert (Hoth : map (fun e : list Z * bool => f (fst e) (snd e)) (pre ++ post) = others_c).
  { unfold pre, post, others_c, cand. rewrite !map_app, !map_map. cbn [fst snd].
    rewrite <- app_assoc. reflexivity. }
  destruct (sibling_names_removal_lemma f pre (entry_name x, true) post names names0) as (np & v & nq & E1 & E0 & HL);
    cbn [fst snd]; try (rewrite Hoth); try assumption.
  exists np, v, nq. split; [assumption|]. split; [assumption|].
  rewrite HL. unfold pre. now rewrite app_length, !map_length.
Qed.

(** * T4: the exported bytes *)
Lemma words_from_agree img img' : forall n a,
  (forall b, a <= b < a + 2 * Z.of_nat n -> znth 0 img' b = znth 0 img b) ->
  words_from n img' a = words_from n img a.
Proof.
  induction n as [|n IH]; intros a H; [reflexivity|]. cbn [words_from]. f_equal.
  - unfold le16_at, byte_at. rewrite !H by lia. reflexivity.
  - apply IH. intros b Hb. apply H. lia.
Qed.
Lemma fat_words_same ly img img' k :
  layout_ok ly -> 0 <= k < ly_max ly -> damaged_sample ly img img' k ->
  fat_words ly img' = fat_words ly img.
Proof.
  intros (H0 & H1 & H2 & H3 & H4 & H5 & H6) Hk [Hlen Hag]. unfold fat_words.
  apply words_from_agree. intros b Hb. apply Hag; [lia| |];
    unfold in_dir_rec, in_par_rec, dir_rec_offset, par_rec_offset, DIR_REC, PAR_REC in *; lia.
Qed.

Lemma znth_map_zrange_any (f : Z -> Z) n a :
  znth 0 (map f (zrange 0 n)) a = if (0 <=? a) && (a <? n) then f a else znth 0 (map f (zrange 0 n)) a.
Proof.
  destruct ((0 <=? a) && (a <? n)) eqn:E; [|reflexivity]. apply znth_map_zrange. lia.
Qed.
(** bytes of the data window at and after cluster 2 *)
Lemma data_window_same ly img img' k b :
  layout_ok ly -> 0 <= k < ly_max ly -> damaged_sample ly img img' k ->
  0 <= ly_doff ly -> 2 * ly_L ly <= b ->
  znth 0 (logical (V (KOff (ly_doff ly)) (zlen img' - ly_doff ly) Base) img') b
  = znth 0 (logical (V (KOff (ly_doff ly)) (zlen img - ly_doff ly) Base) img) b.
Proof.
  intros (H0 & H1 & H2 & H3 & H4 & H5 & H6) Hk [Hlen Hag] Hdoff Hb.
  rewrite Hlen. cbn [logical addr].
  destruct (Z.ltb_spec b (zlen img - ly_doff ly)) as [Hin|Hout].
  - rewrite !znth_map_zrange by lia. apply Hag; [lia| |];
      unfold in_dir_rec, in_par_rec, dir_rec_offset, par_rec_offset, DIR_REC, PAR_REC in *; lia.
  - unfold znth. rewrite !nth_overflow; [reflexivity| |];
      rewrite map_length; unfold zrange; rewrite zrange_nat_length; lia.
Qed.
Lemma file_logical_same ly img img' k secs :
  layout_ok ly -> 0 <= k < ly_max ly -> damaged_sample ly img img' k ->
  0 <= ly_doff ly -> Forall (fun c => 2 <= c) secs ->
  logical (roland_file_view (ly_L ly) (ly_doff ly) (zlen img') secs) img'
  = logical (roland_file_view (ly_L ly) (ly_doff ly) (zlen img) secs) img.
Proof.
  intros Hly Hk Hd Hdoff Hsecs. pose proof Hly as (H0 & H1 & H2 & H3 & H4 & H5 & H6).
  unfold roland_file_view, chain_view.
  change (logical (V (KSect (ly_L ly) (MChain secs)) (ly_L ly * zlen secs) ?sub) ?c)
    with (map (fun a => znth 0 (logical sub c) (addr (KSect (ly_L ly) (MChain secs)) (ly_L ly * zlen secs) a))
              (zrange 0 (ly_L ly * zlen secs))).
  apply map_ext_zrange. intros a Ha.
  apply (data_window_same ly img img' k); try assumption.
  cbn [addr sbase].
  assert (Hq : 0 <= a / ly_L ly < zlen secs).
  { split; [apply Z.div_pos; lia|apply Z.div_lt_upper_bound; lia]. }
  pose proof (znth_in_range_In secs (a / ly_L ly) Hq) as Hin.
  rewrite Forall_forall in Hsecs. specialize (Hsecs _ Hin).
  pose proof (Z.mod_pos_bound a (ly_L ly) H6). nia.
Qed.

(** The exported bytes of sample [j] (parsed entry [e], raw chain [c] in an accepted FAT,
    [cluster_top] inside the chain, window inside the remaining clusters: the hypotheses of
    [roland_sample_pcm_lemma]) are the same in the damaged image: the entry is the same (T2),
    the FAT words are the same (the FAT area precedes the tables), and the clusters of a raw
    chain are numbered >= 2, i.e. lie behind the parameter table. *)
Lemma roland_sample_bytes_local_lemma : forall ly img img' k j e ver links c,
  layout_ok ly -> 0 <= k < ly_max ly -> damaged_sample ly img img' k -> j <> k ->
  parse_sample_entry ly img j = Ok e ->
  let top := sp_cluster_top (se_par e) in
  let mode := sp_mode (se_par e) in
  let p := sp_points (se_par e) in
  roland_decode (fat_words ly img) = Ok (ver, links) -> raw_roland_chain (fat_words ly img) c ->
  hd 0 c = de_fat_entry (se_dir e) ->
  0 <= ly_doff ly < zlen img -> 0 <= top < zlen c ->
  Forall (fun x => (x + 1) * ly_L ly <= zlen img - ly_doff ly) c ->
  0 <= p_start p -> p_start p <= roland_end mode p ->
  2 * (roland_end mode p + 1) <= ly_L ly * (zlen c - top) ->
  sample_pcm ly img' j = sample_pcm ly img j
  /\ sample_pcm ly img j
     = Ok (window_bytes mode p
             (logical (roland_file_view (ly_L ly) (ly_doff ly) (zlen img) (skipn (Z.to_nat top) c)) img)).
Proof.
  intros ly img img' k j e ver links c Hly Hk Hd Hjk He top mode p Hdec Hc Hhd Hdoff Htop Hwin H0 H1 H2.
  subst top mode p.
  set (top := sp_cluster_top (se_par e)) in *. set (mode := sp_mode (se_par e)) in *.
  set (p := sp_points (se_par e)) in *.
  pose proof Hly as (L0 & L1 & L2 & L3 & L4 & L5 & L6).
  assert (E : sample_pcm ly img j
              = Ok (window_bytes mode p
                      (logical (roland_file_view (ly_L ly) (ly_doff ly) (zlen img) (skipn (Z.to_nat top) c)) img))).
  { unfold sample_pcm. rewrite He. cbn [bind]. unfold entry_pcm. rewrite <- Hhd.
    apply (roland_sample_pcm_lemma (ly_L ly) (ly_doff ly) (fat_words ly img) img ver links c top mode p);
      assumption. }
  split; [|exact E]. rewrite E.
  unfold sample_pcm. rewrite (parse_sample_entry_same ly img img' k Hly Hk Hd j Hjk), He. cbn [bind].
  unfold entry_pcm. rewrite (fat_words_same ly img img' k Hly Hk Hd), <- Hhd.
  destruct Hd as [Hlen Hag] eqn:Hdd. clear Hdd. fold top mode p.
  rewrite (roland_sample_pcm_lemma (ly_L ly) (ly_doff ly) (fat_words ly img) img' ver links c top mode p);
    try assumption; try (rewrite Hlen; assumption).
  f_equal. f_equal.
  apply (file_logical_same ly img img' k); try assumption; try lia.
  apply Forall_forall. intros x Hx.
  assert (Hxc : In x c).
  { rewrite <- (firstn_skipn (Z.to_nat top) c). apply in_or_app. now right. }
  destruct Hc as (_ & HF & _). rewrite Forall_forall in HF. specialize (HF x Hxc). lia.
Qed.

(** * The constructive form of the damage *)
Lemma nth_firstn_lt {A} (d : A) : forall n l i, (i < n)%nat -> nth i (firstn n l) d = nth i l d.
Proof.
  induction n as [|n IH]; intros l i H; [lia|]. destruct l as [|x l]; [now rewrite firstn_nil|].
  destruct i as [|i]; cbn [firstn nth]; [reflexivity|apply IH; lia].
Qed.
Lemma nth_skipn_add {A} (d : A) : forall n l i, nth i (skipn n l) d = nth (n + i) l d.
Proof.
  induction n as [|n IH]; intros l i; [reflexivity|]. destruct l as [|x l]; cbn [skipn].
  - destruct i; reflexivity.
  - cbn [Nat.add nth]. apply IH.
Qed.
Lemma znth_app_left {A} (d : A) l1 l2 i : 0 <= i < zlen l1 -> znth d (l1 ++ l2) i = znth d l1 i.
Proof. intros H. unfold znth, zlen in *. apply app_nth1. lia. Qed.
Lemma znth_app_right {A} (d : A) l1 l2 i : zlen l1 <= i -> znth d (l1 ++ l2) i = znth d l2 (i - zlen l1).
Proof. intros H. unfold znth, zlen in *. rewrite app_nth2 by lia. f_equal. lia. Qed.
Lemma splice_outside img a rep :
  0 <= a -> a + zlen rep <= zlen img ->
  zlen (splice img a rep) = zlen img /\
  forall b, 0 <= b -> ~ (a <= b < a + zlen rep) -> znth 0 (splice img a rep) b = znth 0 img b.
Proof.
  intros Ha Hfit.
  assert (Hl1 : zlen (firstn (Z.to_nat a) img) = a).
  { unfold zlen in *. rewrite firstn_length. lia. }
  assert (Hl3 : zlen (skipn (Z.to_nat a + length rep) img) = zlen img - a - zlen rep).
  { unfold zlen in *. rewrite skipn_length. lia. }
  split.
  - unfold splice. rewrite !zlen_app, Hl1, Hl3. lia.
  - intros b Hb0 Hout. unfold splice.
    destruct (Z.lt_ge_cases b a) as [Hlo|Hhi].
    + rewrite znth_app_left by lia. unfold znth. apply nth_firstn_lt. lia.
    + rewrite znth_app_right by lia. rewrite Hl1. rewrite znth_app_right by lia.
      unfold znth. rewrite nth_skipn_add. f_equal. unfold zlen in *. lia.
Qed.
Lemma splice_damaged_dir ly img k rep :
  0 <= k -> 0 <= ly_dbase ly -> zlen rep = DIR_REC -> dir_rec_offset ly k + DIR_REC <= zlen img ->
  damaged_sample ly img (splice img (dir_rec_offset ly k) rep) k.
Proof.
  intros Hk Hb Hrep Hfit.
  destruct (splice_outside img (dir_rec_offset ly k) rep) as [Hlen Hag];
    [unfold dir_rec_offset, DIR_REC; lia|lia|].
  split; [exact Hlen|]. intros b Hb0 Hnd _. apply Hag; [assumption|]. unfold in_dir_rec in Hnd. lia.
Qed.
Lemma splice_damaged_par ly img k rep :
  0 <= k -> 0 <= ly_pbase ly -> zlen rep = PAR_REC -> par_rec_offset ly k + PAR_REC <= zlen img ->
  damaged_sample ly img (splice img (par_rec_offset ly k) rep) k.
Proof.
  intros Hk Hb Hrep Hfit.
  destruct (splice_outside img (par_rec_offset ly k) rep) as [Hlen Hag];
    [unfold par_rec_offset, PAR_REC; lia|lia|].
  split; [exact Hlen|]. intros b Hb0 _ Hnp. apply Hag; [assumption|]. unfold in_par_rec in Hnp. lia.
Qed.
