(** Model of smpl_extract/util/fat.py (SectorLink, add_to_sector_links,
    FileAllocationTable.get_path), smpl_extract/akai/sat.py
    (SegmentAllocationTableAdapter._decode) and smpl_extract/roland/s7xx/fat.py
    (FatAreaAdapter._decode, RolandFileAllocationTable.get_file).
    Every Python loop is a recursion on explicit fuel; [OutOfFuel] is a value, and the
    fuel-sufficiency theorems (FatProofs.v) show it is never produced. *)
From SE Require Import Base.

Record link := { lnext : Z; lend : bool }.
Definition dlink : link := {| lnext := 0; lend := true |}.   (* SectorLink() *)

(** * add_to_sector_links *)
Fixpoint add_links_from (prev : Z) (rest : list Z) (tbl : list link) : res (list link) :=
  match rest with
  | [] => if prev <? zlen tbl then Ok (upd tbl prev dlink) else Err InvalidFatDefinition
  | l :: rest' =>
      if prev <? zlen tbl
      then add_links_from l rest' (upd tbl prev {| lnext := l; lend := false |})
      else Err InvalidFatDefinition
  end.
Definition add_links (links : list Z) (tbl : list link) : res (list link) :=
  match links with
  | [] => Ok tbl            (* unreachable: callers pass a non-empty list *)
  | p :: rest => add_links_from p rest tbl
  end.

(** * FileAllocationTable.get_path (sectors are non-negative) *)
Fixpoint get_path_loop (fuel : nat) (size : Z) (links : list link)
         (path : list Z) (cur cnt : Z) : res (list Z * Z) :=
  match fuel with
  | O => OutOfFuel
  | S fuel =>
      if cnt <? size then
        if cur >=? zlen links then Err RequestedInvalidSector else
        let path := path ++ [cur] in
        let l := znth dlink links cur in
        if lend l then Ok (path, cnt)
        else get_path_loop fuel size links path (lnext l) (cnt + 1)
      else Ok (path, cnt)
  end.
Definition get_path_fuel (size : Z) : nat := S (Z.to_nat size).
Definition get_path (size : Z) (links : list link) (start : Z) : res (list Z) :=
  r <- get_path_loop (get_path_fuel size) size links [] start 0 ;;
  if snd r >=? size then Err InvalidFatDefinition else Ok (fst r).

(** * AKAI segment allocation table decoding *)
Definition SAT_FREE : Z := 0.
Definition SAT_EOF : Z := 49152.       (* 0xC000 *)
Definition SAT_RES_STD : Z := 16384.   (* 0x4000 *)
Definition SAT_RES_V2 : Z := 32768.    (* 0x8000 *)
Definition is_dir_word (v : Z) : bool := (v =? SAT_RES_STD) || (v =? SAT_RES_V2).

Record akai_st := { a_links : list link; a_dirty : list bool; a_prev_dir : bool }.

(** the inner [while continue_flag] walk started at sector [i] *)
Fixpoint akai_walk (fuel : nat) (block : list Z) (size : Z)
         (st : akai_st) (links : list Z) (sub : Z) : res akai_st :=
  match fuel with
  | O => OutOfFuel
  | S fuel =>
      if sub >=? size then
        (* a directory run that ends with the table is installed (D11 fix) *)
        (if a_prev_dir st && negb (match links with [] => true | _ => false end) then
           t <- add_links links (a_links st) ;;
           Ok {| a_links := t; a_dirty := a_dirty st; a_prev_dir := a_prev_dir st |}
         else Ok st)
      else
      let v := znth 0 block sub in
      let cur_dir := is_dir_word v in
      if negb cur_dir && a_prev_dir st && negb (match links with [] => true | _ => false end) then
        t <- add_links links (a_links st) ;;
        Ok {| a_links := t; a_dirty := a_dirty st; a_prev_dir := false |}
      else if (v =? SAT_FREE) || ((v <? size) && znth false (a_dirty st) v) then
        (* the chain runs into a chain decoded earlier: keep the walked links and join it
           (D4 fix); a free entry, a self link or a cycle inside this walk are not linked *)
        if negb (v =? SAT_FREE) && negb (v =? sub) && negb (existsb (Z.eqb v) links) then
          t <- add_links (links ++ [sub]) (a_links st) ;;
          Ok {| a_links := upd t sub {| lnext := v; lend := false |};
                a_dirty := upd (a_dirty st) sub true; a_prev_dir := false |}
        else
        Ok {| a_links := a_links st; a_dirty := upd (a_dirty st) sub true; a_prev_dir := false |}
      else if v =? SAT_EOF then
        t <- add_links (links ++ [sub]) (a_links st) ;;
        Ok {| a_links := t; a_dirty := upd (a_dirty st) sub true; a_prev_dir := cur_dir |}
      else
        let st' := {| a_links := a_links st; a_dirty := upd (a_dirty st) sub true;
                      a_prev_dir := cur_dir |} in
        akai_walk fuel block size st' (links ++ [sub]) (if cur_dir then sub + 1 else v)
  end.

Definition akai_walk_fuel (size : Z) : nat := Z.to_nat (2 * size + 3).

(** the outer [for i in range(size)] *)
Fixpoint akai_outer (n : nat) (block : list Z) (size : Z) (i : Z) (st : akai_st) : res akai_st :=
  match n with
  | O => Ok st
  | S n =>
      if znth false (a_dirty st) i then akai_outer n block size (i + 1) st
      else
        st' <- akai_walk (akai_walk_fuel size) block size st [] i ;;
        akai_outer n block size (i + 1) st'
  end.

Definition akai_decode (block : list Z) : res (list link) :=
  let size := zlen block in
  st <- akai_outer (length block) block size 0
         {| a_links := repeat dlink (length block); a_dirty := repeat false (length block);
            a_prev_dir := true |} ;;
  Ok (a_links st).

(** get_segment: resolve through the decoded table *)
Definition akai_get_segment (block : list Z) (start : Z) : res (list Z) :=
  t <- akai_decode block ;; get_path (zlen block) t start.

(** * Roland S-7xx FAT decoding (table size [N] = FAT_NUM_ENTRIES is a parameter) *)
Definition FAT_FREE : Z := 0.
Definition FAT_RESERVED : Z := 1.
Definition FAT_ERROR : Z := 65527.     (* 0xfff7 *)
Definition FAT_END : Z := 65528.       (* 0xfff8 *)
Definition FAT_V1 : Z := 65535.
Definition FAT_V2 : Z := 65534.
Definition FAT_AREA_ID : Z := 65530.   (* 0xfffa *)

Record rol_st := { r_links : list link; r_dirty : list bool }.

Fixpoint roland_walk (fuel : nat) (fat : list Z) (N : Z) (st : rol_st)
         (sub_links : list Z) (sub : Z) : res rol_st :=
  match fuel with
  | O => OutOfFuel
  | S fuel =>
      if sub >=? N then Ok st else
      let v := znth 0 fat sub in
      let st1 := {| r_links := r_links st; r_dirty := upd (r_dirty st) sub true |} in
      if v =? FAT_ERROR then Err ConstructErr
      else if (v =? FAT_RESERVED) || (v =? FAT_FREE) then
        match sub_links with [] => Ok st1 | _ => Err ConstructErr end
      else
        let sub_links := sub_links ++ [sub] in
        if zlen sub_links >? N then Err ConstructErr
        else if v >=? FAT_END then
          t <- add_links sub_links (r_links st1) ;;
          Ok {| r_links := t; r_dirty := r_dirty st1 |}
        else roland_walk fuel fat N st1 sub_links v
  end.
Definition roland_walk_fuel (N : Z) : nat := Z.to_nat (N + 2).

Fixpoint roland_outer (n : nat) (fat : list Z) (N : Z) (i : Z) (st : rol_st) : res rol_st :=
  match n with
  | O => Ok st
  | S n =>
      if znth false (r_dirty st) i then roland_outer n fat N (i + 1) st
      else
        st' <- roland_walk (roland_walk_fuel N) fat N st [] i ;;
        roland_outer n fat N (i + 1) st'
  end.

(** version selection from the two flags stored in the last two entries *)
Definition roland_version (f1 f2 : Z) : res Z :=
  if negb (f1 =? FAT_V1) then
    (if f1 =? FAT_V2 then Ok 2 else Err ConstructErr)
  else if negb (f2 =? FAT_V1) then
    (if f2 =? FAT_V2 then Ok 2 else Err ConstructErr)
  else Ok 1.

(** [fat] has N entries; entry 0 doubles as the area id, the last two as version flags *)
Definition roland_decode (fat : list Z) : res (Z * list link) :=
  let N := zlen fat in
  if negb (znth 0 fat 0 =? FAT_AREA_ID) then Err ConstructErr else
  ver <- roland_version (znth 0 fat (N - 2)) (znth 0 fat (N - 1)) ;;
  let dirty0 := upd (upd (repeat false (length fat)) 0 true) 1 true in
  st <- roland_outer (Z.to_nat (N - 9 - 2)) fat N 2
         {| r_links := repeat dlink (length fat); r_dirty := dirty0 |} ;;
  Ok (ver, r_links st).

(** RolandFileAllocationTable.get_file: the chain minus [cluster_offset] leading clusters *)
Definition roland_get_file (N : Z) (links : list link) (index cluster_offset : Z) : res (list Z) :=
  p <- get_path N links index ;;
  Ok (if cluster_offset >? 0 then skipn (Z.to_nat cluster_offset) p else p).
