(** Model of the lazy, memoised realisation protocol of the element tree
    (smpl_extract/structural.py Traversable.children, akai/partition.py Partition.sat,
    akai/volume.py Volume.files, akai/file_entry.py FileEntry.file, roland/s7xx/*_entry.py
    cached entry lists): every node keeps a memo field that is either unset or holds the
    value its realisation function produced.  An operation (`ls <path>`, `export`) is a
    program that asks for the values of nodes, adaptively, and computes its output from them.

    [realise] stands for "parse the node's part of the image and apply the naming routines":
    a function of the image and the node alone.  That the real realisation closures are such
    functions (construct contexts, shared file cursor: C11) is what the C16 correspondence run
    tests; the protocol below is what is proved. *)
From SE Require Import Base.

Section Memo.
  Variable node : Type.
  Variable node_eqb : node -> node -> bool.
  Variable value : Type.
  Variable output : Type.
  (** what realising node [n] yields for the image at hand *)
  Variable realise : node -> value.

  (** memo state: association list node -> value (first match wins) *)
  Definition memo := list (node * value).
  Fixpoint lookup (s : memo) (n : node) : option value :=
    match s with
    | [] => None
    | (m, v) :: t => if node_eqb m n then Some v else lookup t n
    end.
  (** the [if self._x is None: self._x = f()] idiom *)
  Definition get (s : memo) (n : node) : value * memo :=
    match lookup s n with
    | Some v => (v, s)
    | None => let v := realise n in (v, (n, v) :: s)
    end.

  (** an operation: asks for node values one after the other, each request may depend on the
      answers so far, and finally returns its output *)
  Inductive prog :=
  | Ret (o : output)
  | Ask (n : node) (k : value -> prog).
  Fixpoint exec (p : prog) (s : memo) : output * memo :=
    match p with
    | Ret o => (o, s)
    | Ask n k => let '(v, s') := get s n in exec (k v) s'
    end.
  (** a history of operations on one opened image *)
  Fixpoint exec_all (ps : list prog) (s : memo) : list output * memo :=
    match ps with
    | [] => ([], s)
    | p :: t => let '(o, s1) := exec p s in let '(os, s2) := exec_all t s1 in (o :: os, s2)
    end.

  (** every memo field is unset or holds the realised value *)
  Definition consistent (s : memo) : Prop := forall n v, lookup s n = Some v -> v = realise n.
End Memo.
