(** sanitize_names when ONE sibling disappears (a directory entry that no longer parses is
    dropped from the listing): if its candidate name [c] is different from every other
    sibling's candidate and is not a counted form "g (i)" / "stem (i) L" (i >= 2) of a
    candidate that occurs more than once among the others, every other sibling is handed the
    name it had.  Companion of the one-change theorem of NamesMoreProofs.v (a changed entry);
    proved by running the two executions side by side: the groups, the taken-set and the
    table of the run without the element are those of the run with it, minus [c]. *)
From SE Require Import Base Codecs Cue Names NamesProofs NamesMoreProofs.

Section Removal.
Context (c : list Z).

Definition rmn (l : list (list Z)) : list (list Z) := filter (fun x => negb (str_eqb x c)) l.
Definition rmt (tbl : list (list Z * list (list Z))) : list (list Z * list (list Z)) :=
  filter (fun e => negb (str_eqb (fst e) c)) tbl.

Lemma str_eqb_false_ne a b : a <> b -> str_eqb a b = false.
Proof. intros H. now apply str_eqb_neq. Qed.
Lemma rmn_app a b : rmn (a ++ b) = rmn a ++ rmn b.
Proof. apply filter_app. Qed.
Lemma rmn_id l : ~ In c l -> rmn l = l.
Proof.
  induction l as [|x l IH]; intros H; [reflexivity|]. cbn [rmn filter].
  rewrite str_eqb_false_ne by (intros ->; apply H; now left). cbn [negb]. f_equal.
  apply IH. intros Hc. apply H. now right.
Qed.
Lemma rmn_mid cp cq : ~ In c (cp ++ cq) -> rmn (cp ++ c :: cq) = cp ++ cq.
Proof.
  intros H. rewrite rmn_app. cbn [rmn filter]. rewrite str_eqb_refl. cbn [negb].
  fold (rmn cq). rewrite !rmn_id; [reflexivity| |]; intros Hc; apply H; apply in_app_iff; auto.
Qed.
Lemma in_names_rmn x l : x <> c -> in_names x (rmn l) = in_names x l.
Proof.
  intros Hx. induction l as [|y l IH]; [reflexivity|]. cbn [rmn filter].
  destruct (str_eqb y c) eqn:E; cbn [negb].
  - apply str_eqb_eq in E. subst y. fold (rmn l). rewrite IH. unfold in_names. cbn [existsb].
    now rewrite (str_eqb_false_ne x c Hx).
  - fold (rmn l). unfold in_names in *. cbn [existsb]. now rewrite IH.
Qed.

Lemma distinct_first_rmn : forall l seen,
  distinct_first (rmn l) (rmn seen) = rmn (distinct_first l seen).
Proof.
  induction l as [|x t IH]; intros seen; [reflexivity|]. cbn [rmn filter distinct_first].
  destruct (str_eqb x c) eqn:E; cbn [negb].
  - apply str_eqb_eq in E. subst x. fold (rmn t).
    destruct (in_names c seen); [apply IH|].
    cbn [rmn filter]. rewrite str_eqb_refl. cbn [negb]. fold (rmn (distinct_first t (seen ++ [c]))).
    rewrite <- IH, rmn_app. cbn [rmn filter]. rewrite str_eqb_refl. cbn [negb]. now rewrite app_nil_r.
  - fold (rmn t). assert (Hx : x <> c) by (now apply str_eqb_neq).
    cbn [distinct_first]. rewrite (in_names_rmn x seen Hx).
    destruct (in_names x seen); [apply IH|].
    cbn [rmn filter]. rewrite E. cbn [negb]. fold (rmn (distinct_first t (seen ++ [x]))).
    rewrite <- IH, rmn_app. cbn [rmn filter]. rewrite E. reflexivity.
Qed.

(** taken-sets that agree on every name but [c] *)
Definition trelc (t t0 : list (list Z)) : Prop := forall x, x <> c -> in_names x t = in_names x t0.

Lemma in_names_add_taken x n t : in_names x (add_taken n t) = str_eqb x n || in_names x t.
Proof.
  unfold add_taken. destruct (in_names n t) eqn:E.
  - destruct (str_eqb x n) eqn:Ex; [|reflexivity]. apply str_eqb_eq in Ex. subst. now rewrite E.
  - unfold in_names. rewrite existsb_app. cbn [existsb]. rewrite orb_false_r. apply orb_comm.
Qed.
Lemma trelc_add n t t0 : trelc t t0 -> trelc (add_taken n t) (add_taken n t0).
Proof. intros H x Hx. rewrite !in_names_add_taken, (H x Hx). reflexivity. Qed.

Lemma free_name_rm : forall f1 f0 g i j1 j0 t1 t0 r1 r0,
  (forall i', i <= i' -> in_names (add_count g i') t1 = in_names (add_count g i') t0) ->
  free_name f1 g i j1 t1 = Ok r1 -> free_name f0 g i j0 t0 = Ok r0 -> r1 = r0.
Proof.
  induction f1 as [|f1 IH]; intros f0 g i j1 j0 t1 t0 r1 r0 Hin H1 H0; [discriminate|].
  destruct f0 as [|f0]; [discriminate|]. cbn [free_name] in H1, H0.
  rewrite <- (Hin i ltac:(lia)) in H0.
  destruct (in_names (add_count g i) t1).
  - destruct (j1 + 1 >? zlen t1); [discriminate|]. destruct (j0 + 1 >? zlen t0); [discriminate|].
    eapply IH; [|eassumption|eassumption]. intros i' Hi'. apply Hin. lia.
  - congruence.
Qed.
Lemma free_name_ge : forall f g i j t nn i', free_name f g i j t = Ok (nn, i') -> i <= i'.
Proof.
  induction f as [|f IH]; intros g i j t nn i' H; [discriminate|]. cbn [free_name] in H.
  destruct (in_names (add_count g i) t).
  - destruct (j + 1 >? zlen t); [discriminate|]. apply IH in H. lia.
  - injection H as _ <-. lia.
Qed.

Lemma assign_group_rm : forall members f1 f0 g i first t1 t0 acc a1 a0,
  trelc t1 t0 -> (forall i', 2 <= i' -> add_count g i' <> c) -> (first = false -> 1 <= i) ->
  assign_group f1 members g i first t1 acc = Ok a1 ->
  assign_group f0 members g i first t0 acc = Ok a0 ->
  fst a1 = fst a0 /\ trelc (snd a1) (snd a0).
Proof.
  induction members as [|m IH]; intros f1 f0 g i first t1 t0 acc a1 a0 Ht Hg Hi H1 H0; cbn [assign_group] in H1, H0.
  - injection H1 as <-. injection H0 as <-. split; [reflexivity|exact Ht].
  - destruct first.
    + eapply IH; [apply trelc_add; exact Ht|exact Hg| |eassumption|eassumption]. intros _. lia.
    + specialize (Hi eq_refl).
      destruct (free_name f1 g (i + 1) 0 t1) as [r1| |] eqn:E1; cbn [bind] in H1; try discriminate.
      destruct (free_name f0 g (i + 1) 0 t0) as [r0| |] eqn:E0; cbn [bind] in H0; try discriminate.
      assert (r1 = r0).
      { eapply free_name_rm; [|eassumption|eassumption]. intros i' Hi'. apply Ht. apply Hg. lia. }
      subst r0. destruct r1 as [nn i1]. cbn [fst snd] in *.
      pose proof (free_name_ge _ _ _ _ _ _ _ E1).
      eapply IH; [apply trelc_add; exact Ht|exact Hg| |eassumption|eassumption]. intros _. lia.
Qed.

Lemma assign_all_rm : forall groups cands cands0 t1 t0 tbl tbl0,
  trelc t1 t0 ->
  (forall g, In g groups -> g <> c ->
     (1 <= count_occ_name g cands)%nat /\ count_occ_name g cands = count_occ_name g cands0 /\
     ((2 <= count_occ_name g cands)%nat -> forall i', 2 <= i' -> add_count g i' <> c)) ->
  count_occ_name c cands = 1%nat ->
  assign_all groups cands t1 = Ok tbl ->
  assign_all (rmn groups) cands0 t0 = Ok tbl0 ->
  tbl0 = rmt tbl.
Proof.
  induction groups as [|g rest IH]; intros cands cands0 t1 t0 tbl tbl0 Ht Hg Hc H1 H0.
  - cbn in H1, H0. injection H1 as <-. injection H0 as <-. reflexivity.
  - cbn [assign_all] in H1. cbn [rmn filter] in H0.
    assert (Hrest : forall g', In g' rest -> g' <> c ->
       (1 <= count_occ_name g' cands)%nat /\ count_occ_name g' cands = count_occ_name g' cands0 /\
       ((2 <= count_occ_name g' cands)%nat -> forall i', 2 <= i' -> add_count g' i' <> c))
      by (intros g' Hin; apply Hg; now right).
    destruct (str_eqb g c) eqn:E; cbn [negb] in H0.
    + apply str_eqb_eq in E. subst g. rewrite Hc in H1. cbn [Nat.eqb] in H1. fold (rmn rest) in H0.
      destruct (assign_all rest cands t1) as [r| |] eqn:Er; cbn [bind] in H1; try discriminate.
      injection H1 as <-. cbn [rmt filter fst]. rewrite str_eqb_refl. cbn [negb].
      eapply IH; eassumption.
    + assert (Hgc : g <> c) by (now apply str_eqb_neq).
      fold (rmn rest) in H0. cbn [assign_all] in H0.
      destruct (Hg g ltac:(now left) Hgc) as (Hpos & Hcnt & Hform). rewrite <- Hcnt in H0.
      destruct ((count_occ_name g cands =? 1)%nat) eqn:Ek.
      * destruct (assign_all rest cands t1) as [r| |] eqn:Er; cbn [bind] in H1; try discriminate.
        destruct (assign_all (rmn rest) cands0 t0) as [r0| |] eqn:Er0; cbn [bind] in H0; try discriminate.
        injection H1 as <-. injection H0 as <-. cbn [rmt filter fst]. rewrite E. cbn [negb]. f_equal.
        eapply IH; eassumption.
      * apply Nat.eqb_neq in Ek.
        destruct (assign_group _ (count_occ_name g cands) g 0 true t1 []) as [a1| |] eqn:Ea1;
          cbn [bind] in H1; try discriminate.
        destruct (assign_group _ (count_occ_name g cands) g 0 true t0 []) as [a0| |] eqn:Ea0;
          cbn [bind] in H0; try discriminate.
        destruct (assign_group_rm _ _ _ g 0 true t1 t0 [] a1 a0 Ht (Hform ltac:(lia)) ltac:(discriminate) Ea1 Ea0)
          as [Hf Hs].
        destruct (assign_all rest cands (snd a1)) as [r| |] eqn:Er; cbn [bind] in H1; try discriminate.
        destruct (assign_all (rmn rest) cands0 (snd a0)) as [r0| |] eqn:Er0; cbn [bind] in H0; try discriminate.
        injection H1 as <-. injection H0 as <-. cbn [rmt filter fst]. rewrite E. cbn [negb]. rewrite Hf. f_equal.
        eapply IH; eassumption.
Qed.

(** handing the names back *)
Lemma pop_rmt : forall tbl g, g <> c ->
  pop_assigned g (rmt tbl)
  = match pop_assigned g tbl with Some (v, t') => Some (v, rmt t') | None => None end.
Proof.
  induction tbl as [|[k vs] t IH]; intros g Hg; [reflexivity|].
  cbn [rmt filter fst pop_assigned].
  destruct (str_eqb k c) eqn:Ekc; cbn [negb].
  - apply str_eqb_eq in Ekc. subst k. fold (rmt t).
    rewrite (str_eqb_false_ne c g) by congruence. rewrite IH by assumption.
    destruct (pop_assigned g t) as [[v t']|]; [|reflexivity].
    cbn [rmt filter fst]. rewrite str_eqb_refl. reflexivity.
  - fold (rmt t). cbn [pop_assigned]. destruct (str_eqb k g) eqn:Ekg.
    + destruct vs as [|v vs']; [reflexivity|]. cbn [rmt filter fst]. rewrite Ekc. reflexivity.
    + rewrite IH by assumption. destruct (pop_assigned g t) as [[v t']|]; [|reflexivity].
      cbn [rmt filter fst]. rewrite Ekc. reflexivity.
Qed.
Lemma pop_c_rmt : forall tbl v t', pop_assigned c tbl = Some (v, t') -> rmt t' = rmt tbl.
Proof.
  induction tbl as [|[k vs] t IH]; intros v t' H; [discriminate|]. cbn [pop_assigned] in H.
  destruct (str_eqb k c) eqn:Ekc.
  - destruct vs as [|v0 vs']; [discriminate|]. injection H as <- <-.
    cbn [rmt filter fst]. rewrite Ekc. reflexivity.
  - destruct (pop_assigned c t) as [[v1 t1]|] eqn:Ep; [|discriminate]. injection H as <- <-.
    cbn [rmt filter fst]. rewrite Ekc. cbn [negb]. f_equal. eapply IH. reflexivity.
Qed.
Lemma distribute_rmt : forall l tbl, ~ In c l -> distribute l (rmt tbl) = distribute l tbl.
Proof.
  induction l as [|g t IH]; intros tbl Hn; [reflexivity|]. cbn [distribute].
  assert (Hg : g <> c) by (intros ->; apply Hn; now left).
  assert (Ht : ~ In c t) by (intros H; apply Hn; now right).
  rewrite (pop_rmt tbl g Hg). destruct (pop_assigned g tbl) as [[v t']|]; f_equal; now apply IH.
Qed.
Lemma distribute_mid : forall cp cq tbl, ~ In c cp -> ~ In c cq ->
  exists np v nq, distribute (cp ++ c :: cq) tbl = np ++ v :: nq
                  /\ distribute (cp ++ cq) (rmt tbl) = np ++ nq /\ length np = length cp.
Proof.
  induction cp as [|g cp IH]; intros cq tbl Hp Hq; cbn [app distribute].
  - destruct (pop_assigned c tbl) as [[v t']|] eqn:Ep.
    + exists [], v, (distribute cq t'). cbn [app length]. repeat split.
      rewrite <- (pop_c_rmt tbl v t' Ep). now apply distribute_rmt.
    + exists [], c, (distribute cq tbl). cbn [app length]. repeat split. now apply distribute_rmt.
  - assert (Hg : g <> c) by (intros ->; apply Hp; now left).
    assert (Hp' : ~ In c cp) by (intros H; apply Hp; now right).
    rewrite (pop_rmt tbl g Hg). destruct (pop_assigned g tbl) as [[v t']|].
    + destruct (IH cq t' Hp' Hq) as (np & w & nq & E1 & E0 & HL).
      exists (v :: np), w, nq. cbn [app length]. rewrite E1, E0, HL. repeat split.
    + destruct (IH cq tbl Hp' Hq) as (np & w & nq & E1 & E0 & HL).
      exists (g :: np), w, nq. cbn [app length]. rewrite E1, E0, HL. repeat split.
Qed.
End Removal.

(** One candidate removed: when both runs succeed, the names of all the others are the same. *)
Lemma sanitize_cands_removal cp cq c names names0 :
  ~ In c (cp ++ cq) ->
  (forall g i, (2 <= count_occ_name g (cp ++ cq))%nat -> 2 <= i -> add_count g i <> c) ->
  sanitize_cands (cp ++ c :: cq) = Ok names -> sanitize_cands (cp ++ cq) = Ok names0 ->
  exists np v nq, names = np ++ v :: nq /\ names0 = np ++ nq /\ length np = length cp.
Proof.
  intros Hc Hform R R0. unfold sanitize_cands in R, R0.
  set (cands := cp ++ c :: cq) in *. set (cands0 := cp ++ cq) in *.
  assert (Hcp : ~ In c cp) by (intros H; apply Hc; apply in_app_iff; now left).
  assert (Hcq : ~ In c cq) by (intros H; apply Hc; apply in_app_iff; now right).
  assert (Hrm : rmn c cands = cands0) by (apply rmn_mid; exact Hc).
  assert (Hgroups : distinct_first cands0 [] = rmn c (distinct_first cands [])).
  { rewrite <- Hrm. exact (distinct_first_rmn c cands []). }
  assert (Hc1 : count_occ_name c cands = 1%nat).
  { unfold cands. rewrite count_occ_name_app, count_occ_name_cons, str_eqb_refl.
    rewrite (count_occ_name_zero c cp Hcp), (count_occ_name_zero c cq Hcq). reflexivity. }
  assert (Hcnt : forall g, g <> c -> count_occ_name g cands = count_occ_name g cands0).
  { intros g Hg. unfold cands, cands0. rewrite !count_occ_name_app, count_occ_name_cons.
    rewrite (str_eqb_false_ne g c Hg). reflexivity. }
  destruct (assign_all (distinct_first cands []) cands (distinct_first cands [])) as [tbl| |] eqn:Et;
    cbn [bind] in R; try discriminate.
  destruct (assign_all (distinct_first cands0 []) cands0 (distinct_first cands0 [])) as [tbl0| |] eqn:Et0;
    cbn [bind] in R0; try discriminate.
  injection R as <-. injection R0 as <-.
  rewrite Hgroups in Et0.
  assert (Htbl : tbl0 = rmt c tbl).
  { eapply (assign_all_rm c (distinct_first cands []) cands cands0); [| |exact Hc1|exact Et|exact Et0].
    - intros x Hx. symmetry. now apply in_names_rmn.
    - intros g Hgin Hgc. destruct (distinct_first_spec cands []) as [_ Gin]. apply Gin in Hgin as [Hgin _].
      split; [now apply count_occ_name_pos|]. split; [now apply Hcnt|].
      intros H2 i' Hi'. apply Hform; [|exact Hi']. rewrite <- (Hcnt g Hgc). exact H2. }
  subst tbl0. unfold cands, cands0. apply distribute_mid; assumption.
Qed.

(** C14: one element of a directory disappears.  If its candidate is different from every
    other sibling's candidate and is not a counted form (i >= 2) of a candidate that occurs
    more than once among the others, then - both runs succeeding - every other element keeps
    its name: element [j] of the longer list is element [j] (before the removed position) or
    [j - 1] (after it) of the shorter one. *)
Lemma sibling_names_removal_lemma :
  forall f pre e post names names0,
    let cand := fun x : list Z * bool => f (fst x) (snd x) in
    let others := map cand (pre ++ post) in
    ~ In (cand e) others ->
    (forall g i, (2 <= count_occ_name g others)%nat -> 2 <= i -> add_count g i <> cand e) ->
    sanitize_names f (pre ++ e :: post) = Ok names ->
    sanitize_names f (pre ++ post) = Ok names0 ->
    exists np v nq, names = np ++ v :: nq /\ names0 = np ++ nq /\ length np = length pre.
Proof.
  intros f pre e post names names0 cand others H1 H3 R R0.
  rewrite sanitize_names_cands in R, R0. fold cand in R, R0.
  rewrite map_app in R, R0. cbn [map] in R. unfold others in *. rewrite map_app in *.
  destruct (sanitize_cands_removal (map cand pre) (map cand post) (cand e) names names0 H1 H3 R R0)
    as (np & v & nq & E1 & E0 & HL).
  exists np, v, nq. rewrite map_length in HL. auto.
Qed.
