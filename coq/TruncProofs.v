(** Truncated base file (property C15): what the byte-window views of Stream.v return when
    the file under them is cut off after [c] bytes, and what the transcoder's block loops
    (Trunc.v) make of it.

    Covered: every nesting, to any depth, of StreamWrapper / StreamOffset / SectorStream /
    FileStream (sector chain, any order) / MdfStream views whose windows are well formed
    with respect to the COMPLETE file ([wf v content]); every cut position [c] (any integer);
    every good state (any position of the view and of all its ancestors, any base cursor).
    Not covered: the sample-reversed view (StreamReversed, [KRev]; [wf] excludes it); window
    sizes that are themselves recomputed from the truncated file (a directory read from a
    truncated image may differ): parsing of headers, tables and directories under truncation
    is not modelled here, it is carried by the check's oracle run on real truncated images.
    The one window whose size the code computes from the file length, MdfStream, is treated
    in [mdf_cut_lemma] below and in TruncPlugProofs.v. *)
From SE Require Import Base Stream Transcode FatProofs StreamProofs Trunc.

(** * Lists: prefixes and slices of a cut list *)
Definition prefix (a b : list Z) : Prop := exists t, b = a ++ t.

Lemma prefix_refl a : prefix a a.
Proof. exists []. now rewrite app_nil_r. Qed.
Lemma prefix_nil a : prefix [] a.
Proof. now exists a. Qed.
Lemma prefix_trans a b d : prefix a b -> prefix b d -> prefix a d.
Proof. intros [t ->] [u ->]. exists (t ++ u). now rewrite app_assoc. Qed.
Lemma prefix_zlen a b : prefix a b -> zlen a <= zlen b.
Proof. intros [t ->]. rewrite zlen_app. pose proof (zlen_nonneg t). lia. Qed.
Lemma prefix_same_len a b : prefix a b -> zlen a = zlen b -> a = b.
Proof.
  intros [t ->] H. rewrite zlen_app in H. destruct t as [|x t]; [now rewrite app_nil_r|].
  rewrite zlen_cons in H. pose proof (zlen_nonneg t). lia.
Qed.
Lemma prefix_app_l a b d : prefix b d -> prefix (a ++ b) (a ++ d).
Proof. intros [t ->]. exists t. now rewrite app_assoc. Qed.
Lemma firstn_le_prefix (l : list Z) n m : (n <= m)%nat -> prefix (firstn n l) (firstn m l).
Proof.
  intros H. exists (skipn n (firstn m l)).
  rewrite <- (firstn_skipn n (firstn m l)) at 1. f_equal.
  rewrite firstn_firstn. now rewrite Nat.min_l.
Qed.
Lemma firstn_prefix (l : list Z) n : prefix (firstn n l) l.
Proof. exists (skipn n l). symmetry. apply firstn_skipn. Qed.
Lemma prefix_firstn a b : prefix a b -> a = firstn (length a) b.
Proof.
  intros [t ->]. rewrite firstn_app, Nat.sub_diag, firstn_all. cbn. now rewrite app_nil_r.
Qed.

Lemma zlen_cut c (l : list Z) : zlen (cut_at c l) = Z.max 0 (Z.min c (zlen l)).
Proof. unfold cut_at, zlen. rewrite firstn_length. lia. Qed.
Lemma slice_cut_general c (l : list Z) a b :
  slice (cut_at c l) a b
  = firstn (Nat.min (Z.to_nat (b - a)) (Z.to_nat c - Z.to_nat a)) (skipn (Z.to_nat a) l).
Proof. unfold slice, cut_at. rewrite skipn_firstn_comm, firstn_firstn. reflexivity. Qed.
Lemma slice_cut_prefix c (l : list Z) a b : prefix (slice (cut_at c l) a b) (slice l a b).
Proof. rewrite slice_cut_general. unfold slice. apply firstn_le_prefix. lia. Qed.
Lemma slice_cut_zlen c (l : list Z) a b : 0 <= a ->
  zlen (slice (cut_at c l) a b) = Z.max 0 (Z.min (b - a) (Z.min c (zlen l) - a)).
Proof. intros. rewrite slice_zlen, zlen_cut by assumption. lia. Qed.
Lemma slice_cut_full c (l : list Z) a b : 0 <= a -> b <= c -> slice (cut_at c l) a b = slice l a b.
Proof.
  intros Ha Hb. apply prefix_same_len; [apply slice_cut_prefix|].
  rewrite slice_cut_zlen, slice_zlen by assumption. lia.
Qed.
Lemma slice_cut_empty c (l : list Z) a b : 0 <= a -> c <= a -> slice (cut_at c l) a b = [].
Proof. intros Ha Hc. apply slice_past_end. rewrite zlen_cut. lia. Qed.
Lemma slice_nil_iff_len (l : list Z) : zlen l = 0 -> l = [].
Proof. destruct l; [reflexivity|]. rewrite zlen_cons. pose proof (zlen_nonneg l). lia. Qed.

(** reading [n] bytes at [a] of the shorter file: the same as reading up to where the
    longer file's read ends *)
Lemma slice_clip_to (l l' : list Z) a b : 0 <= a -> zlen l <= zlen l' ->
  slice l a b = slice l a (a + zlen (slice l' a b)).
Proof.
  intros Ha Hl. rewrite (slice_zlen l') by assumption.
  apply prefix_same_len.
  - unfold slice. destruct (Z_le_gt_dec (b - a) (Z.max 0 (Z.min (b - a) (zlen l' - a)))).
    + replace (a + Z.max 0 (Z.min (b - a) (zlen l' - a)) - a) with (Z.max 0 (Z.min (b - a) (zlen l' - a))) by lia.
      apply firstn_le_prefix. lia.
    + rewrite !firstn_all2; [apply prefix_refl| |]; rewrite skipn_length; unfold zlen in *; lia.
  - rewrite !slice_zlen by assumption. lia.
Qed.

(** * Base addresses, coverage by the cut *)
Fixpoint has_sect (v : view) : bool :=
  match v with Base => false | V (KSect _ _) _ _ => true | V _ _ sub => has_sect sub end.
(** the constant shift of a tower of plain wrappers and fixed-offset windows *)
Fixpoint woff (v : view) : Z :=
  match v with Base => 0 | V (KOff off) _ sub => off + woff sub | V _ _ sub => woff sub end.
(** address, in the base file, of byte [a] of the view *)
Fixpoint baddr (v : view) (a : Z) : Z :=
  match v with Base => a | V k size sub => baddr sub (addr k size a) end.

Definition covf (g : Z -> bool) (p q : Z) : bool := forallb g (zrange p q).
(** every byte of [p, q) of the view lies below the cut *)
Definition cov (v : view) (c p q : Z) : bool := covf (fun a => baddr v a <? c) p q.

Lemma covf_true_iff g p q : covf g p q = true <-> forall a, p <= a < q -> g a = true.
Proof.
  unfold covf. rewrite forallb_forall. split; intros H a Ha; apply H; now apply in_zrange.
Qed.
Lemma covf_empty g p q : q <= p -> covf g p q = true.
Proof. intros. apply covf_true_iff. intros; lia. Qed.
Lemma covf_app g p m q : p <= m <= q -> covf g p q = covf g p m && covf g m q.
Proof. intros H. unfold covf. rewrite (zrange_app p m q H). apply forallb_app. Qed.
Lemma covf_ext g h p q : (forall a, p <= a < q -> g a = h a) -> covf g p q = covf h p q.
Proof.
  intros H. destruct (covf h p q) eqn:E.
  - apply covf_true_iff. intros a Ha. rewrite H by assumption. revert a Ha. now apply covf_true_iff.
  - destruct (covf g p q) eqn:E2; [|reflexivity]. rewrite <- E. symmetry. apply covf_true_iff.
    intros a Ha. rewrite <- H by assumption. revert a Ha. now apply covf_true_iff.
Qed.
Lemma covf_shift g d p q : covf (fun a => g (a + d)) p q = covf g (p + d) (q + d).
Proof.
  destruct (covf g (p + d) (q + d)) eqn:E.
  - apply covf_true_iff. intros a Ha. rewrite covf_true_iff in E. apply E. lia.
  - destruct (covf (fun a => g (a + d)) p q) eqn:E2; [|reflexivity]. rewrite <- E. symmetry.
    apply covf_true_iff. intros a Ha. rewrite covf_true_iff in E2.
    replace a with ((a - d) + d) by lia. apply E2. lia.
Qed.
Lemma covf_false_sub g p q p' q' : p' <= p -> q <= q' -> covf g p q = false -> covf g p' q' = false.
Proof.
  intros H1 H2 E. destruct (covf g p' q') eqn:E2; [|reflexivity]. rewrite <- E. symmetry.
  apply covf_true_iff. intros a Ha. rewrite covf_true_iff in E2. apply E2. lia.
Qed.
Lemma covf_false_witness g p q : covf g p q = false -> exists a, p <= a < q /\ g a = false.
Proof.
  unfold covf. intros E.
  assert (H : exists a, In a (zrange p q) /\ g a = false).
  { induction (zrange p q) as [|x l IH]; cbn in E; [discriminate|].
    destruct (g x) eqn:G; cbn in E.
    - destruct (IH E) as (a & Ha & Hg). exists a. split; [now right|assumption].
    - exists x. split; [now left|assumption]. }
  destruct H as (a & Ha & Hg). exists a. split; [now apply in_zrange|assumption].
Qed.

Lemma cov_true_iff v c p q : cov v c p q = true <-> forall a, p <= a < q -> baddr v a < c.
Proof.
  unfold cov. rewrite covf_true_iff. split; intros H a Ha; specialize (H a Ha); cbv beta in *; lia.
Qed.

Lemma nth_zrange_nat d : forall k a n, (n < k)%nat -> nth n (zrange_nat a k) d = a + Z.of_nat n.
Proof.
  induction k as [|k IH]; intros a n H; [lia|]. destruct n as [|n]; cbn [zrange_nat nth]; [lia|].
  rewrite IH by lia. lia.
Qed.
Lemma znth_map_zrange (f : Z -> Z) size a : 0 <= a < size -> znth 0 (map f (zrange 0 size)) a = f a.
Proof.
  intros H. unfold znth. rewrite (nth_indep _ 0 (f 0)).
  2:{ rewrite map_length. unfold zrange. rewrite zrange_nat_length. lia. }
  rewrite map_nth. f_equal. unfold zrange. rewrite nth_zrange_nat by lia. lia.
Qed.

Lemma vsize_logical v content : wf v content -> zlen (logical v content) = vsize v content.
Proof. destruct v as [|k size sub]; [reflexivity|]. intros (H & _). cbn [vsize]. apply logical_len. lia. Qed.

Lemma addr_in_range k size plen a :
  kind_ok k size plen -> 0 <= a < size -> 0 <= addr k size a < plen.
Proof.
  intros Hk Ha. destruct k as [|off|L m|w]; cbn [addr].
  - cbn in Hk. lia.
  - cbn in Hk. lia.
  - destruct (sect_in_range L m size plen Hk) as [HL Hin]. destruct (Hin a Ha) as (_ & H1 & H2).
    pose proof (Z.mod_pos_bound a L HL). lia.
  - cbn in Hk. tauto.
Qed.

(** byte [a] of the logical content is the base file's byte at [baddr v a] *)
Lemma logical_znth : forall v content, wf v content -> forall a, 0 <= a < vsize v content ->
  znth 0 (logical v content) a = znth 0 content (baddr v a) /\ 0 <= baddr v a < zlen content.
Proof.
  induction v as [|k size sub IH]; intros content Hwf a Ha; [cbn in *; auto|].
  cbn [wf] in Hwf. destruct Hwf as (Hsize & Hk & Hwfs). cbn [vsize] in Ha.
  cbn [logical baddr]. rewrite znth_map_zrange by assumption.
  apply IH; [assumption|]. rewrite <- vsize_logical by assumption. eapply addr_in_range; eassumption.
Qed.

(** towers without a sector kind: a constant shift *)
Lemma baddr_window : forall v content, wf v content -> has_sect v = false ->
  forall a, baddr v a = a + woff v.
Proof.
  induction v as [|k size sub IH]; intros content Hwf Hs a; [cbn; lia|].
  cbn [wf] in Hwf. destruct Hwf as (Hsize & Hk & Hwfs).
  destruct k as [|off|L m|w]; cbn [has_sect baddr woff addr] in *; try discriminate.
  - now apply (IH content).
  - rewrite (IH content) by assumption. lia.
  - cbn in Hk. tauto.
Qed.

(** an uncovered read through a sector-free tower comes back short *)
Lemma window_short v content c p q :
  wf v content -> has_sect v = false -> 0 <= p + woff v -> cov v c p q = false ->
  zlen (slice (cut_at c content) (p + woff v) (q + woff v)) < q - p.
Proof.
  intros Hwf Hs Hp E. apply covf_false_witness in E. destruct E as (a & Ha & Hg).
  rewrite (baddr_window v content Hwf Hs) in Hg.
  rewrite slice_cut_zlen by assumption. lia.
Qed.

(** * The sector read loop against a parent whose reads may come back short or fail *)
Section SectTrunc.
  Variable St : Type.
  Variable p_seek : St -> Z -> res Z * St.
  Variable p_read : St -> Z -> res (list Z) * St.
  Variable PGood : St -> Prop.
  Variable pcur : St -> Z.
  Variable Lp : list Z.
  Variable pc : Z -> bool.            (* parent byte below the cut *)
  Hypothesis Hseek : forall s a, PGood s -> 0 <= a <= zlen Lp ->
    exists r s', p_seek s a = (Ok r, s') /\ PGood s' /\ pcur s' = a.
  Hypothesis Hread : forall s n, PGood s -> 0 <= n -> pcur s + n <= zlen Lp ->
    exists r s', p_read s n = (r, s') /\ PGood s' /\
      (covf pc (pcur s) (pcur s + n) = true -> r = Ok (slice Lp (pcur s) (pcur s + n))) /\
      (covf pc (pcur s) (pcur s + n) = false ->
         r = Err SectorReadError \/ exists b', r = Ok b' /\ zlen b' < n).
  Variable L : Z.
  Variable m : smap.
  Variable size : Z.
  Hypothesis HL : 0 < L.
  Hypothesis Hin : forall a, 0 <= a < size ->
    sect_addr L m (a / L) 0 = Ok (sbase m L (a / L)) /\ 0 <= sbase m L (a / L) /\
    sbase m L (a / L) + a mod L < zlen Lp.

  Let f (a : Z) : Z := znth 0 Lp (sbase m L (a / L) + a mod L).
  Let vc (a : Z) : bool := pc (sbase m L (a / L) + a mod L).

  Lemma read_sector_tr s i o k :
    PGood s -> 0 <= i -> 0 <= o -> 0 < k -> o + k <= L -> i * L + o + k <= size ->
    exists r s', read_sector St p_seek p_read L m s i o k = (r, s') /\ PGood s' /\
      (covf vc (i * L + o) (i * L + o + k) = true ->
         r = Ok (map f (zrange (i * L + o) (i * L + o + k)))) /\
      (covf vc (i * L + o) (i * L + o + k) = false ->
         r = Err SectorReadError \/ exists b', r = Ok b' /\ zlen b' < k).
  Proof.
    intros Hg Hi Ho Hk HoL Hsz. unfold read_sector.
    destruct (Z.gtb_spec (o + k) L); [lia|].
    destruct (div_mod_in_sector L HL i o 0 Hi Ho ltac:(lia) ltac:(lia)) as [D0 M0].
    rewrite Z.add_0_r in D0, M0.
    destruct (Hin (i * L + o) ltac:(lia)) as (HA & Hx0 & _). rewrite D0 in HA, Hx0.
    rewrite (sect_addr_off Lp L m size Hin _ o _ HA).
    destruct (div_mod_in_sector L HL i o (k - 1) Hi Ho ltac:(lia) ltac:(lia)) as [D1 M1].
    destruct (Hin (i * L + o + (k - 1)) ltac:(lia)) as (_ & _ & Hlast). rewrite D1, M1 in Hlast.
    set (x := sbase m L i) in *.
    destruct (Hseek s (x + o) Hg ltac:(lia)) as (r & s1 & E1 & G1 & C1). rewrite E1.
    destruct (Hread s1 k G1 ltac:(lia) ltac:(lia)) as (r2 & s2 & E2 & G2 & Hc & Hnc). rewrite E2, C1 in *.
    exists r2, s2. split; [reflexivity|]. split; [assumption|].
    assert (Hcov : covf vc (i * L + o) (i * L + o + k) = covf pc (x + o) (x + o + k)).
    { replace (x + o + k) with ((i * L + o + k) + (x - i * L)) by lia.
      replace (x + o) with ((i * L + o) + (x - i * L)) at 1 by lia.
      rewrite <- covf_shift. apply covf_ext. intros a Ha. unfold vc.
      destruct (div_mod_in_sector L HL i o (a - (i * L + o)) Hi Ho ltac:(lia) ltac:(lia)) as [D M].
      replace (i * L + o + (a - (i * L + o))) with a in D, M by lia.
      rewrite D, M. fold x. f_equal. lia. }
    rewrite Hcov. split; [|assumption].
    intros Ht. rewrite (Hc Ht). f_equal.
    rewrite (slice_map_znth 0) by lia.
    replace (x + o + k) with ((i * L + o + k) + (x - i * L)) by lia.
    replace (x + o) with ((i * L + o) + (x - i * L)) at 1 by lia.
    rewrite zrange_shift, map_map. apply map_ext_zrange. intros a Ha. unfold f.
    destruct (div_mod_in_sector L HL i o (a - (i * L + o)) Hi Ho ltac:(lia) ltac:(lia)) as [D M].
    replace (i * L + o + (a - (i * L + o))) with a in D, M by lia.
    rewrite D, M. fold x. f_equal. lia.
  Qed.

  (** what has been gathered of [p, cur): everything (all covered so far), or too little *)
  Definition accst (p cur : Z) (acc : list Z) : Prop :=
    (covf vc p cur = true /\ acc = map f (zrange p cur))
    \/ (covf vc p cur = false /\ zlen acc < cur - p).

  Lemma accst_step p cur k acc r :
    p <= cur -> 0 < k -> accst p cur acc ->
    (covf vc cur (cur + k) = true -> r = Ok (map f (zrange cur (cur + k)))) ->
    (covf vc cur (cur + k) = false -> r = Err SectorReadError \/ exists b', r = Ok b' /\ zlen b' < k) ->
    (r = Err SectorReadError /\ covf vc cur (cur + k) = false)
    \/ exists b, r = Ok b /\ accst p (cur + k) (acc ++ b).
  Proof.
    intros Hp Hk Ha Hc Hnc.
    rewrite (or_comm (_ /\ _)).
    destruct (covf vc cur (cur + k)) eqn:E.
    - left. exists (map f (zrange cur (cur + k))). split; [now apply Hc|].
      unfold accst. rewrite (covf_app vc p cur (cur + k)) by lia. rewrite E, andb_true_r.
      destruct Ha as [[C ->]|[C Hl]]; [left|right]; (split; [assumption|]).
      + rewrite <- map_app, <- zrange_app by lia. reflexivity.
      + rewrite zlen_app, map_zlen, zlen_zrange by lia. lia.
    - destruct (Hnc eq_refl) as [->|(b' & -> & Hb)]; [right; now split|].
      left. exists b'. split; [reflexivity|]. right.
      rewrite (covf_app vc p cur (cur + k)) by lia. rewrite E, andb_false_r. split; [reflexivity|].
      rewrite zlen_app. destruct Ha as [[C ->]|[C Hl]].
      + rewrite map_zlen, zlen_zrange by lia. lia.
      + lia.
  Qed.

  Lemma sect_middle_tr first p e :
    0 <= first -> 0 <= p -> e <= size ->
    forall fuel s i remaining acc,
      PGood s -> 1 <= i -> 0 < remaining -> (first + i) * L + remaining = e ->
      p <= (first + i) * L ->
      accst p ((first + i) * L) acc ->
      remaining / L < Z.of_nat fuel ->
      exists r s', sect_middle St p_seek p_read fuel L m s first i remaining acc = (r, s') /\ PGood s' /\
        ((r = Err SectorReadError /\ covf vc p e = false)
         \/ exists acc' i' rem', r = Ok (acc', i', rem') /\ accst p ((first + i') * L) acc'
              /\ 0 < rem' <= L /\ (first + i') * L + rem' = e /\ p <= (first + i') * L /\ 1 <= i').
  Proof.
    intros Hf Hp He. induction fuel as [|fuel IH]; intros s i rem acc Hg Hi Hrem Heq Hpi Hacc Hfuel.
    { pose proof (Z.div_pos rem L ltac:(lia) HL). lia. }
    cbn [sect_middle]. destruct (Z.gtb_spec rem L) as [Hgt|Hle].
    - destruct (read_sector_tr s (first + i) 0 L Hg ltac:(lia) ltac:(lia) HL ltac:(lia) ltac:(lia))
        as (r & s1 & E & G1 & Hc & Hnc). rewrite E.
      rewrite Z.add_0_r in Hc, Hnc.
      destruct (accst_step p ((first + i) * L) L acc r Hpi HL Hacc Hc Hnc) as [[-> Hcf]|(b & -> & Hacc')].
      + exists (Err SectorReadError), s1. split; [reflexivity|]. split; [assumption|]. left.
        split; [reflexivity|]. eapply covf_false_sub; [| |exact Hcf]; lia.
      + replace ((first + i) * L + L) with ((first + (i + 1)) * L) in Hacc' by lia.
        apply IH; try assumption; try lia.
        assert (rem / L = (rem - L) / L + 1).
        { replace rem with ((rem - L) + 1 * L) at 1 by lia. rewrite Z.div_add by lia. lia. }
        lia.
    - exists (Ok (acc, i, rem)), s. split; [reflexivity|]. split; [assumption|]. right.
      exists acc, i, rem. repeat split; try assumption; lia.
  Qed.

  (** reading [n > 0] bytes at [p] inside the view: the logical bytes when all of them are
      covered, SectorReadError otherwise *)
  Lemma sect_read_tr s p n :
    PGood s -> 0 <= p -> 0 < n -> p + n <= size ->
    exists r s', sect_read St p_seek p_read L m s p n = (r, s') /\ PGood s' /\
      (covf vc p (p + n) = true -> r = Ok (map f (zrange p (p + n)))) /\
      (covf vc p (p + n) = false -> r = Err SectorReadError).
  Proof.
    intros Hg Hp Hn Hsz. unfold sect_read.
    destruct (Z.leb_spec n 0); [lia|].
    pose proof (Z.div_mod p L ltac:(lia)) as Hdm.
    pose proof (Z.mod_pos_bound p L HL) as Hmb.
    pose proof (Z.div_pos p L Hp HL) as Hdp.
    set (isi := p / L) in *. set (iso := p mod L) in *.
    assert (Hpeq : p = isi * L + iso) by lia.
    assert (Hempty : accst p p []).
    { left. split; [apply covf_empty; lia|]. rewrite zrange_empty by lia. reflexivity. }
    destruct (Z.leb_spec (iso + n) L) as [Hfit|Hnofit].
    - (* the whole read lies in the first sector *)
      destruct (read_sector_tr s isi iso n Hg Hdp ltac:(lia) Hn Hfit ltac:(lia)) as (r & s1 & E & G1 & Hc & Hnc).
      rewrite E. rewrite <- Hpeq in Hc, Hnc.
      destruct (accst_step p p n [] r ltac:(lia) Hn Hempty Hc Hnc) as [[-> Hcf]|(b & -> & Hacc')].
      { exists (Err SectorReadError), s1. split; [reflexivity|]. split; [assumption|].
        split; [congruence|reflexivity]. }
      cbn [app] in Hacc'.
      assert (Hmid : sect_middle St p_seek p_read (S (Z.to_nat (n / L))) L m s1 isi 1 (n - n) b
                     = (Ok (b, 1, n - n), s1)).
      { cbn [sect_middle]. destruct (Z.gtb_spec (n - n) L); [lia|]. reflexivity. }
      rewrite Hmid. destruct (Z.gtb_spec (n - n) 0); [lia|].
      destruct Hacc' as [[C ->]|[C Hl]].
      + rewrite map_zlen, zlen_zrange by lia.
        destruct (Z.eqb_spec (p + n - p) n); [|lia].
        exists (Ok (map f (zrange p (p + n)))), s1. repeat split; try assumption; congruence.
      + destruct (Z.eqb_spec (zlen b) n); [lia|].
        exists (Err SectorReadError), s1. repeat split; try assumption; congruence.
    - destruct (read_sector_tr s isi iso (L - iso) Hg Hdp ltac:(lia) ltac:(lia) ltac:(lia) ltac:(lia))
        as (r & s1 & E & G1 & Hc & Hnc).
      rewrite E. rewrite <- Hpeq in Hc, Hnc.
      destruct (accst_step p p (L - iso) [] r ltac:(lia) ltac:(lia) Hempty Hc Hnc) as [[-> Hcf]|(b & -> & Hacc')].
      { exists (Err SectorReadError), s1. split; [reflexivity|]. split; [assumption|].
        split; [|reflexivity]. intros Ht.
        rewrite (covf_false_sub vc p (p + (L - iso)) p (p + n)) in Ht; [discriminate|lia|lia|assumption]. }
      cbn [app] in Hacc'.
      replace (p + (L - iso)) with ((isi + 1) * L) in Hacc' by lia.
      destruct (sect_middle_tr isi p (p + n) Hdp Hp Hsz (S (Z.to_nat (n / L))) s1 1 (n - (L - iso))
                  b G1 ltac:(lia) ltac:(lia) ltac:(lia) ltac:(lia) Hacc')
        as (r2 & s2 & E2 & G2 & Hres).
      { assert ((n - (L - iso)) / L <= n / L) by (apply Z.div_le_mono; lia).
        pose proof (Z.div_pos n L ltac:(lia) HL). lia. }
      rewrite E2.
      destruct Hres as [[-> Hcf]|(acc' & i' & rem' & -> & Hacc2 & Hrem & Heq & Hpi & Hi')].
      { exists (Err SectorReadError), s2. split; [reflexivity|]. split; [assumption|].
        split; [congruence|reflexivity]. }
      destruct (Z.gtb_spec rem' 0); [|lia].
      destruct (read_sector_tr s2 (isi + i') 0 rem' G2 ltac:(lia) ltac:(lia) ltac:(lia) ltac:(lia) ltac:(lia))
        as (r3 & s3 & E3 & G3 & Hc3 & Hnc3).
      rewrite E3. rewrite Z.add_0_r in Hc3, Hnc3.
      destruct (accst_step p ((isi + i') * L) rem' acc' r3 Hpi ltac:(lia) Hacc2 Hc3 Hnc3)
        as [[-> Hcf]|(b3 & -> & Hacc3)].
      { exists (Err SectorReadError), s3. split; [reflexivity|]. split; [assumption|].
        split; [|reflexivity]. intros Ht.
        rewrite (covf_false_sub vc ((isi + i') * L) ((isi + i') * L + rem') p (p + n)) in Ht; [discriminate|lia|lia|assumption]. }
      rewrite Heq in Hacc3.
      destruct Hacc3 as [[C ->]|[C Hl]].
      + rewrite map_zlen, zlen_zrange by lia.
        destruct (Z.eqb_spec (p + n - p) n); [|lia].
        exists (Ok (map f (zrange p (p + n)))), s3. repeat split; try assumption; congruence.
      + destruct (Z.eqb_spec (zlen (acc' ++ b3)) n); [lia|].
        exists (Err SectorReadError), s3. repeat split; try assumption; congruence.
  Qed.
End SectTrunc.

(** * One read(n) of a view over the cut file *)
(** The outcome of read(n) in a state at position [p], as a function of the COMPLETE file:
    with [b] the bytes the complete file yields and [q] the position they end at,
    - all of [p, q) below the cut: exactly [b];
    - otherwise, SectorReadError if a sector kind occurs anywhere in the tower (position
      unchanged), else the bytes that are there: a proper prefix of [b]. *)
Definition trunc_outcome (v : view) (content : list Z) (c p n : Z) (r : res (list Z)) (p' : Z) : Prop :=
  let b := slice (logical v content) p (p + n) in
  let q := p + zlen b in
  (cov v c p q = true -> r = Ok b /\ p' = q) /\
  (cov v c p q = false ->
     if has_sect v then r = Err SectorReadError /\ p' = p
     else r = Ok (slice (cut_at c content) (p + woff v) (q + woff v))).

(** the layer contract: what a parent may rely on *)
Definition TruncLike (v : view) (content : list Z) (c : Z) : Prop :=
  forall s n, good v s -> 0 <= n ->
    exists r s', v_read v (cut_at c content) s n = (r, s') /\ good v s' /\
                 trunc_outcome v content c (v_tell s) n r (v_tell s').

Lemma base_trunclike content c : TruncLike Base content c.
Proof.
  intros s n Hg Hn. cbn [v_read]. unfold base_read.
  pose proof (good_tell_nonneg _ _ Hg) as Hp. set (p := v_tell s) in *.
  eexists _, _. split; [reflexivity|]. split.
  { cbn [good]. pose proof (zlen_nonneg (slice (cut_at c content) p (p + n))). lia. }
  unfold trunc_outcome. cbn [logical has_sect woff v_tell].
  assert (Hclip : slice (cut_at c content) p (p + n)
                  = slice (cut_at c content) p (p + zlen (slice content p (p + n)))).
  { apply slice_clip_to; [assumption|]. rewrite zlen_cut. pose proof (zlen_nonneg content). lia. }
  set (q := p + zlen (slice content p (p + n))) in *.
  assert (Hq : q = p + Z.max 0 (Z.min n (zlen content - p))).
  { unfold q. rewrite slice_zlen by assumption. f_equal. f_equal. f_equal. lia. }
  split.
  - intros Hc. rewrite cov_true_iff in Hc. cbn [baddr] in Hc.
    assert (Hqc : q = p \/ q <= c).
    { destruct (Z.eq_dec q p); [now left|right]. specialize (Hc (q - 1)). lia. }
    assert (E : slice (cut_at c content) p (p + n) = slice content p (p + n)).
    { apply prefix_same_len; [apply slice_cut_prefix|].
      rewrite slice_cut_zlen, slice_zlen by assumption. lia. }
    rewrite E. split; [reflexivity|]. reflexivity.
  - intros _. rewrite !Z.add_0_r. now rewrite <- Hclip.
Qed.

(** StreamWrapper / StreamOffset *)
Lemma trunc_step_window k size sub content c :
  (k = KWrap \/ exists off, k = KOff off) ->
  0 < size -> kind_ok k size (zlen (logical sub content)) -> wf sub content ->
  TruncLike sub content c ->
  forall s n, good (V k size sub) s -> 0 <= n ->
    exists r s', v_read (V k size sub) (cut_at c content) s n = (r, s') /\ good (V k size sub) s' /\
      trunc_outcome (V k size sub) content c (v_tell s) n r (v_tell s') /\
      (forall b', r = Ok b' -> v_tell s' = v_tell s + zlen (slice (logical (V k size sub) content) (v_tell s) (v_tell s + n))).
Proof.
  intros Hkind Hsize Hk Hwfs HT s n Hg Hn.
  pose proof (view_filelike _ _ Hwfs) as HF.
  destruct s as [p|pos ts0 ss]; cbn [good] in Hg; [tauto|]. destruct Hg as [Hpos Hgs].
  cbn [v_read v_tell]. rewrite (read_ts size pos n Hsize Hpos Hn).
  set (ts := Z.min (size - pos) n). assert (Hts : 0 <= ts /\ pos + ts <= size) by (unfold ts; lia).
  set (Lp := logical sub content) in *.
  assert (He : exists e, translate k size ts pos = Ok e /\ 0 <= e /\ e + ts <= zlen Lp /\
                         (forall a, addr k size a = a + (e - pos)) /\
                         woff (V k size sub) = (e - pos) + woff sub /\
                         has_sect (V k size sub) = has_sect sub).
  { destruct Hkind as [->|[off ->]]; cbn [translate kind_ok addr woff has_sect] in *.
    - exists pos. repeat split; intros; lia.
    - exists (off + pos). repeat split; intros; lia. }
  destruct He as (e & -> & He0 & Hele & Haddr & Hwoff & Hhs).
  destruct (parent_fetch sub content ss e ts HF Hgs He0 ltac:(lia) Hele) as (r0 & ss1 & E1 & G1 & C1).
  rewrite E1.
  destruct (HT ss1 ts G1 ltac:(lia)) as (r & ss2 & E2 & G2 & Hout).
  assert (Hzl : zlen (slice (logical (V k size sub) content) pos (pos + n)) = ts).
  { cbn [logical]. rewrite slice_logical_clip by lia. fold ts. rewrite map_zlen, zlen_zrange; lia. }
  assert (Hsl : slice Lp e (e + ts) = slice (logical (V k size sub) content) pos (pos + n)).
  { cbn [logical]. fold Lp. rewrite slice_logical_clip by lia. fold ts.
    rewrite (slice_map_znth 0) by lia.
    replace (e + ts) with ((pos + ts) + (e - pos)) by lia.
    replace e with (pos + (e - pos)) at 1 by lia.
    rewrite zrange_shift, map_map. apply map_ext_zrange. intros a _. now rewrite Haddr. }
  assert (Hcov : cov sub c e (e + ts) = cov (V k size sub) c pos (pos + ts)).
  { unfold cov. cbn [baddr].
    replace (e + ts) with ((pos + ts) + (e - pos)) by lia.
    replace e with (pos + (e - pos)) at 1 by lia.
    rewrite <- (covf_shift (fun a => baddr sub a <? c)). apply covf_ext. intros a _. now rewrite Haddr. }
  unfold trunc_outcome in Hout. fold Lp in Hout. rewrite C1 in Hout.
  assert (Hzs : zlen (slice Lp e (e + ts)) = ts) by (rewrite slice_zlen by lia; lia).
  rewrite Hzs, Hcov, Hsl in Hout. destruct Hout as [Hc Hnc].
  assert (Hrd : (match k with
                 | KSect L m => sect_read vstate (fun st a => v_seek sub st a 0)
                                  (fun st m_ => v_read sub (cut_at c content) st m_) L m ss1 pos ts
                 | KRev w => let '(raw, st) := v_read sub (cut_at c content) ss1 ts in
                             match raw with
                             | Ok b => if zlen b =? (ts / w) * w then (Ok (rev_samples w b), st)
                                       else (Err ValueErr, st)
                             | other => (other, st)
                             end
                 | _ => v_read sub (cut_at c content) ss1 ts
                 end) = (r, ss2)).
  { destruct Hkind as [->|[off ->]]; exact E2. }
  rewrite Hrd. unfold trunc_outcome. rewrite Hzl.
  destruct (cov (V k size sub) c pos (pos + ts)) eqn:EC.
  - destruct (Hc eq_refl) as [-> _].
    exists (Ok (slice (logical (V k size sub) content) pos (pos + n))), (SV (pos + ts) ts ss2).
    cbn [good v_tell]. split; [reflexivity|]. split; [split; [lia|assumption]|].
    split; [split; [auto|discriminate]|auto].
  - specialize (Hnc eq_refl). rewrite Hhs. destruct (has_sect sub) eqn:EH.
    + destruct Hnc as [-> _].
      exists (Err SectorReadError), (SV pos ts ss2).
      cbn [good v_tell]. split; [reflexivity|]. split; [split; [lia|assumption]|].
      split; [split; [discriminate|auto]|discriminate].
    + rewrite Hnc.
      eexists (Ok _), (SV (pos + ts) ts ss2).
      cbn [good v_tell]. split; [reflexivity|]. split; [split; [lia|assumption]|].
      split; [split; [discriminate|]|auto].
      intros _. rewrite Hwoff. f_equal. f_equal; lia.
Qed.

(** SectorStream / FileStream / MdfStream *)
Lemma trunc_step_sect L m size sub content c :
  0 < size -> kind_ok (KSect L m) size (zlen (logical sub content)) -> wf sub content ->
  TruncLike sub content c ->
  forall s n, good (V (KSect L m) size sub) s -> 0 <= n ->
    exists r s', v_read (V (KSect L m) size sub) (cut_at c content) s n = (r, s')
      /\ good (V (KSect L m) size sub) s' /\
      trunc_outcome (V (KSect L m) size sub) content c (v_tell s) n r (v_tell s') /\
      (forall b', r = Ok b' -> v_tell s' = v_tell s + zlen (slice (logical (V (KSect L m) size sub) content) (v_tell s) (v_tell s + n))).
Proof.
  intros Hsize Hk Hwfs HT s n Hg Hn.
  pose proof (view_filelike _ _ Hwfs) as HF.
  destruct s as [p|pos ts0 ss]; cbn [good] in Hg; [tauto|]. destruct Hg as [Hpos Hgs].
  cbn [v_read v_tell translate]. rewrite (read_ts size pos n Hsize Hpos Hn).
  set (ts := Z.min (size - pos) n). assert (Hts : 0 <= ts /\ pos + ts <= size) by (unfold ts; lia).
  set (Lp := logical sub content) in *.
  assert (Hfetch : exists r ss1, (if pos =? v_tell ss then (Ok 0, ss) else v_seek sub ss pos 0) = (Ok r, ss1)
                                 /\ good sub ss1).
  { destruct (pos =? v_tell ss); [eauto|].
    destruct HF as [Hs _]. destruct (Hs ss pos Hgs ltac:(lia)) as (r & s' & E & G & _). eauto. }
  destruct Hfetch as (r0 & ss1 & -> & G1).
  assert (Hzl : zlen (slice (logical (V (KSect L m) size sub) content) pos (pos + n)) = ts).
  { cbn [logical]. rewrite slice_logical_clip by lia. fold ts. rewrite map_zlen, zlen_zrange; lia. }
  destruct (sect_in_range L m size (zlen Lp) Hk) as [HL Hin].
  unfold trunc_outcome. rewrite Hzl. cbn [has_sect].
  destruct (Z.eq_dec ts 0) as [Hz|Hnz].
  - (* empty read: the early return *)
    unfold sect_read. rewrite Hz. cbn [Z.leb Z.compare].
    exists (Ok []), (SV (pos + 0) 0 ss1). cbn [good v_tell].
    split; [reflexivity|]. split; [split; [lia|assumption]|].
    assert (Hnil : slice (logical (V (KSect L m) size sub) content) pos (pos + n) = []).
    { apply slice_nil_iff_len. lia. }
    rewrite Hnil. split; [split; [auto|]|auto].
    unfold cov. rewrite (covf_empty _ pos (pos + 0)) by lia. discriminate.
  - assert (HreadP : forall st k, good sub st -> 0 <= k -> v_tell st + k <= zlen Lp ->
              exists r st', v_read sub (cut_at c content) st k = (r, st') /\ good sub st' /\
                (covf (fun a => baddr sub a <? c) (v_tell st) (v_tell st + k) = true ->
                   r = Ok (slice Lp (v_tell st) (v_tell st + k))) /\
                (covf (fun a => baddr sub a <? c) (v_tell st) (v_tell st + k) = false ->
                   r = Err SectorReadError \/ exists b', r = Ok b' /\ zlen b' < k)).
    { intros st k Gst Hk0 Hkr.
      destruct (HT st k Gst Hk0) as (r & st' & E & G & Hout).
      exists r, st'. split; [assumption|]. split; [assumption|].
      unfold trunc_outcome in Hout. fold Lp in Hout.
      pose proof (good_tell_nonneg _ _ Gst) as Hp0.
      assert (Hzs : zlen (slice Lp (v_tell st) (v_tell st + k)) = k) by (rewrite slice_zlen by lia; lia).
      rewrite Hzs in Hout. fold (cov sub c (v_tell st) (v_tell st + k)).
      destruct Hout as [Hc Hnc]. split; [intros Ht; now destruct (Hc Ht)|].
      intros Hf. specialize (Hnc Hf). destruct (has_sect sub) eqn:EH.
      - left. tauto.
      - right. eexists. split; [exact Hnc|].
        assert (Hw : 0 <= v_tell st + woff sub).
        { destruct (Z.eq_dec k 0) as [->|Hk1].
          - unfold cov in Hf. rewrite (covf_empty _ (v_tell st) (v_tell st + 0)) in Hf by lia. discriminate.
          - rewrite <- (baddr_window sub content Hwfs EH).
            apply (logical_znth sub content Hwfs). rewrite <- vsize_logical by assumption. fold Lp. lia. }
        pose proof (window_short sub content c (v_tell st) (v_tell st + k) Hwfs EH Hw Hf). lia. }
    destruct (sect_read_tr vstate (fun st a => v_seek sub st a 0)
                (fun st m_ => v_read sub (cut_at c content) st m_)
                (good sub) v_tell Lp (fun a => baddr sub a <? c)
                (sub_seek_contract sub content HF) HreadP
                L m size HL Hin ss1 pos ts G1 ltac:(lia) ltac:(lia) ltac:(lia)) as (r & ss2 & E2 & G2 & Hc & Hnc).
    rewrite E2.
    assert (Hcov : covf (fun a => baddr sub (sbase m L (a / L) + a mod L) <? c) pos (pos + ts)
                   = cov (V (KSect L m) size sub) c pos (pos + ts)) by reflexivity.
    rewrite Hcov in Hc, Hnc.
    destruct (cov (V (KSect L m) size sub) c pos (pos + ts)) eqn:EC.
    + rewrite (Hc eq_refl).
      eexists (Ok _), (SV (pos + ts) ts ss2). cbn [good v_tell].
      split; [reflexivity|]. split; [split; [lia|assumption]|].
      split; [split; [|discriminate]|auto].
      intros _. split; [|reflexivity]. f_equal.
      cbn [logical]. fold Lp. rewrite slice_logical_clip by lia. fold ts.
      apply map_ext_zrange. intros a _. reflexivity.
    + rewrite (Hnc eq_refl).
      exists (Err SectorReadError), (SV pos ts ss2). cbn [good v_tell].
      split; [reflexivity|]. split; [split; [lia|assumption]|].
      split; [split; [discriminate|auto]|discriminate].
Qed.

Theorem view_trunclike : forall v content c, wf v content -> TruncLike v content c.
Proof.
  induction v as [|k size sub IH]; intros content c Hwf; [apply base_trunclike|].
  cbn [wf] in Hwf. destruct Hwf as (Hsize & Hk & Hwfs). specialize (IH content c Hwfs).
  intros s n Hg Hn.
  destruct k as [|off|L m|w].
  - destruct (trunc_step_window KWrap size sub content c ltac:(auto) Hsize Hk Hwfs IH s n Hg Hn)
      as (r & s' & E & G & H & _). eauto.
  - destruct (trunc_step_window (KOff off) size sub content c ltac:(eauto) Hsize Hk Hwfs IH s n Hg Hn)
      as (r & s' & E & G & H & _). eauto.
  - destruct (trunc_step_sect L m size sub content c Hsize Hk Hwfs IH s n Hg Hn)
      as (r & s' & E & G & H & _). eauto.
  - cbn in Hk. tauto.
Qed.

(** * Statements for a view [V k size sub] *)
Lemma trunc_step k size sub content c :
  wf (V k size sub) content ->
  forall s n, good (V k size sub) s -> 0 <= n ->
    exists r s', v_read (V k size sub) (cut_at c content) s n = (r, s') /\ good (V k size sub) s' /\
      trunc_outcome (V k size sub) content c (v_tell s) n r (v_tell s') /\
      (forall b', r = Ok b' ->
         v_tell s' = v_tell s + zlen (slice (logical (V k size sub) content) (v_tell s) (v_tell s + n))).
Proof.
  intros Hwf s n Hg Hn. cbn [wf] in Hwf. destruct Hwf as (Hsize & Hk & Hwfs).
  pose proof (view_trunclike sub content c Hwfs) as HT.
  destruct k as [|off|L m|w].
  - apply trunc_step_window; auto.
  - apply trunc_step_window; eauto.
  - apply trunc_step_sect; auto.
  - cbn in Hk. tauto.
Qed.

(** in a sector-free tower the logical content is a contiguous piece of the base file *)
Lemma window_logical_slice v content p q :
  wf v content -> has_sect v = false -> 0 <= p <= q -> q <= vsize v content ->
  slice (logical v content) p q = slice content (p + woff v) (q + woff v)
  /\ (p < q -> 0 <= p + woff v /\ q + woff v <= zlen content).
Proof.
  intros Hwf Hs Hpq Hq.
  destruct (Z.eq_dec p q) as [->|Hne].
  { split; [|lia]. unfold slice. rewrite !Z.sub_diag. reflexivity. }
  destruct (logical_znth v content Hwf p ltac:(lia)) as [_ Hbp].
  destruct (logical_znth v content Hwf (q - 1) ltac:(lia)) as [_ Hbq].
  rewrite (baddr_window v content Hwf Hs) in Hbp, Hbq.
  split; [|lia].
  replace q with (p + (q - p)) at 1 by lia.
  rewrite (slice_map_znth 0) by (rewrite ?vsize_logical by assumption; lia).
  replace (q + woff v) with ((p + woff v) + (q - p)) by lia.
  rewrite (slice_map_znth 0) by lia.
  replace (p + woff v + (q - p)) with ((p + (q - p)) + woff v) by lia.
  rewrite zrange_shift, map_map. apply map_ext_zrange. intros a Ha.
  destruct (logical_znth v content Hwf a ltac:(lia)) as [-> _].
  now rewrite (baddr_window v content Hwf Hs).
Qed.

Lemma slice_self_clip (l : list Z) p n : 0 <= p -> slice l p (p + n) = slice l p (p + zlen (slice l p (p + n))).
Proof. intros. apply slice_clip_to; [assumption|lia]. Qed.

(** in a sector-free tower a read over the cut file returns the bytes that are there *)
Lemma window_outcome v content c p n r p' :
  wf v content -> has_sect v = false -> 0 <= p <= vsize v content -> 0 <= n ->
  trunc_outcome v content c p n r p' ->
  let q := p + zlen (slice (logical v content) p (p + n)) in
  r = Ok (slice (cut_at c content) (p + woff v) (q + woff v))
  /\ prefix (slice (cut_at c content) (p + woff v) (q + woff v)) (slice (logical v content) p (p + n))
  /\ (p < q -> 0 <= p + woff v).
Proof.
  intros Hwf Hs Hp Hn [Hc Hnc] q. rewrite Hs in Hnc.
  assert (Hq : p <= q <= vsize v content).
  { unfold q. rewrite slice_zlen, vsize_logical by (assumption || lia). lia. }
  destruct (window_logical_slice v content p q Hwf Hs ltac:(lia) ltac:(lia)) as [Hsl Hrng].
  assert (Hb : slice (logical v content) p (p + n) = slice content (p + woff v) (q + woff v)).
  { rewrite <- Hsl. apply slice_self_clip. lia. }
  split; [|split; [rewrite Hb; apply slice_cut_prefix|intros H; now apply Hrng]].
  destruct (cov v c p q) eqn:EC; [|now apply Hnc].
  destruct (Hc EC) as [-> _]. f_equal. rewrite Hb.
  destruct (Z.eq_dec p q) as [Heq|Hne].
  { rewrite <- Heq. unfold slice. rewrite !Z.sub_diag. reflexivity. }
  symmetry. apply slice_cut_full; [lia|].
  rewrite cov_true_iff in EC. specialize (EC (q - 1) ltac:(lia)).
  rewrite (baddr_window v content Hwf Hs) in EC. lia.
Qed.

(** The cases of one read, spelled out. *)
Lemma truncated_read_lemma k size sub content c s n :
  let v := V k size sub in
  wf v content -> good v s -> 0 <= n ->
  let p := v_tell s in
  let b := slice (logical v content) p (p + n) in
  exists r s' s0,
    v_read v content s n = (Ok b, s0) /\ v_read v (cut_at c content) s n = (r, s') /\ good v s' /\
    ((r = Ok b /\ v_tell s' = p + zlen b)
     \/ (cov v c p (p + zlen b) = false /\ has_sect v = true /\ r = Err SectorReadError /\ v_tell s' = p)
     \/ (cov v c p (p + zlen b) = false /\ has_sect v = false /\ v_tell s' = p + zlen b /\
         exists b' t, r = Ok b' /\ b = b' ++ t /\ t <> []
                      /\ b' = slice (cut_at c content) (p + woff v) (p + woff v + zlen b)))
    /\ (cov v c p (p + zlen b) = true -> r = Ok b).
Proof.
  intros v Hwf Hg Hn p b.
  destruct (view_filelike v content Hwf) as [_ Hr]. destruct (Hr s n Hg Hn) as (s0 & E0 & _).
  destruct (trunc_step k size sub content c Hwf s n Hg Hn) as (r & s' & E & G & Hout & Htell).
  exists r, s', s0. split; [exact E0|]. split; [exact E|]. split; [exact G|].
  fold v p b in Hout, Htell. pose proof Hout as [Hc Hnc]. fold v p b in Hc, Hnc. cbv zeta in Hc, Hnc.
  fold b in Hc, Hnc.
  split; [|intros Ht; now destruct (Hc Ht)].
  destruct (cov v c p (p + zlen b)) eqn:EC.
  - left. now apply Hc.
  - right. specialize (Hnc eq_refl). destruct (has_sect v) eqn:EH.
    + left. tauto.
    + right. split; [reflexivity|]. split; [reflexivity|].
      assert (Hp : 0 <= p <= vsize v content).
      { destruct s as [|pos ts ss]; cbn in Hg; [tauto|]. cbn. lia. }
      destruct (window_outcome v content c p n r (v_tell s') Hwf EH Hp Hn Hout) as (Er & [t Ht] & Hw).
      fold b in Er, Ht, Hw.
      split; [apply (Htell _ Er)|].
      assert (Hlt : p < p + zlen b).
      { destruct (Z_lt_ge_dec p (p + zlen b)); [assumption|].
        unfold cov in EC. rewrite covf_empty in EC by lia. discriminate. }
      pose proof (window_short v content c p (p + zlen b) Hwf EH (Hw Hlt) EC) as Hshort.
      eexists _, t. split; [exact Er|]. split; [exact Ht|]. split.
      * intros ->. rewrite app_nil_r in Ht. rewrite <- Ht in Hshort. lia.
      * f_equal. lia.
Qed.

(** * Histories of seek / tell / read(n >= 0) *)
(** [short_of o' o]: [o'] is what a read that did not get everything reports *)
Definition short_of (o' o : out) : Prop :=
  match o', o with
  | OutBytes b', OutBytes b => prefix b' b /\ b' <> b
  | OutErr SectorReadError, OutBytes _ => True
  | _, _ => False
  end.
(** the two output lists are equal up to the first short read; nothing is claimed after it *)
Fixpoint agree_until_short (os' os : list out) : Prop :=
  match os', os with
  | [], [] => True
  | o' :: r', o :: r => (o' = o /\ agree_until_short r' r) \/ short_of o' o
  | _, _ => False
  end.

Lemma covf_true_sub g p q p' q' : p' <= p -> q <= q' -> covf g p' q' = true -> covf g p q = true.
Proof.
  intros H1 H2 E. destruct (covf g p q) eqn:E2; [reflexivity|].
  rewrite (covf_false_sub g p q p' q' H1 H2 E2) in E. discriminate.
Qed.

(** seek and tell do not look at the file *)
Lemma step_no_read v content content' s o :
  (match o with ORead _ => False | _ => True end) -> step v content s o = step v content' s o.
Proof. destruct o; cbn; tauto. Qed.

Lemma truncated_run_lemma :
  forall k size sub content c ops s,
    wf (V k size sub) content -> good (V k size sub) s -> Forall op_ok ops ->
    agree_until_short (fst (run (V k size sub) (cut_at c content) s ops))
                      (fst (run (V k size sub) content s ops)).
Proof.
  intros k size sub content c ops. induction ops as [|o ops IH]; intros s Hwf Hg Hops; [exact I|].
  inversion Hops as [|? ? Ho Hrest]; subst.
  cbn [run].
  destruct (step_refines k size sub content s o Hwf Hg Ho) as (s1 & E & G1 & T1).
  cbv zeta in E. rewrite E.
  destruct o as [off wh| |n].
  - rewrite (step_no_read _ (cut_at c content) content) by exact I. rewrite E.
    specialize (IH s1 Hwf G1 Hrest).
    destruct (run _ (cut_at c content) s1 ops) as [rs' s2']. destruct (run _ content s1 ops) as [rs s2].
    cbn [fst] in *. left. split; [reflexivity|assumption].
  - rewrite (step_no_read _ (cut_at c content) content) by exact I. rewrite E.
    specialize (IH s1 Hwf G1 Hrest).
    destruct (run _ (cut_at c content) s1 ops) as [rs' s2']. destruct (run _ content s1 ops) as [rs s2].
    cbn [fst] in *. left. split; [reflexivity|assumption].
  - cbn in Ho. cbn [ref_step fst snd] in *.
    cbn [step]. destruct (Z.ltb_spec n 0); [lia|].
    destruct (truncated_read_lemma k size sub content c s n Hwf Hg Ho)
      as (r & s' & s0 & _ & Ec & G' & Hcases & _).
    rewrite Ec.
    destruct Hcases as [[-> T']|[(_ & _ & -> & _)|(_ & _ & _ & b' & t & -> & Hb & Ht & _)]].
    + specialize (IH s' Hwf G' Hrest).
      pose proof (view_refines_file_lemma k size sub content ops s' Hwf G' Hrest) as R'.
      pose proof (view_refines_file_lemma k size sub content ops s1 Hwf G1 Hrest) as R1.
      rewrite T' in R'. rewrite T1 in R1. rewrite <- R1 in R'.
      destruct (run _ (cut_at c content) s' ops) as [rs' s2']. destruct (run _ content s1 ops) as [rs s2].
      destruct (run _ content s' ops) as [rs0 s3]. cbn [fst] in *. subst rs0.
      left. split; [reflexivity|assumption].
    + destruct (run _ (cut_at c content) s' ops) as [rs' s2']. destruct (run _ content s1 ops) as [rs s2].
      cbn [fst]. right. exact I.
    + destruct (run _ (cut_at c content) s' ops) as [rs' s2']. destruct (run _ content s1 ops) as [rs s2].
      cbn [fst]. right. cbn [short_of]. split; [now exists t|].
      intros Heq. apply Ht. apply (app_inv_head b'). rewrite app_nil_r, <- Hb. now symmetry.
Qed.

(** when the whole window lies below the cut nothing changes *)
Lemma truncated_run_complete_lemma :
  forall k size sub content c ops s,
    wf (V k size sub) content -> good (V k size sub) s -> Forall op_ok ops ->
    cov (V k size sub) c 0 size = true ->
    fst (run (V k size sub) (cut_at c content) s ops) = fst (run (V k size sub) content s ops).
Proof.
  intros k size sub content c ops. induction ops as [|o ops IH]; intros s Hwf Hg Hops Hcov; [reflexivity|].
  inversion Hops as [|? ? Ho Hrest]; subst.
  cbn [run].
  destruct (step_refines k size sub content s o Hwf Hg Ho) as (s1 & E & G1 & T1).
  cbv zeta in E. rewrite E.
  assert (Hsame : exists s', step (V k size sub) (cut_at c content) s o
                             = (fst (ref_step (logical (V k size sub) content) (v_tell s) o), s')
                             /\ good (V k size sub) s' /\ v_tell s' = v_tell s1).
  { destruct o as [off wh| |n].
    - rewrite (step_no_read _ (cut_at c content) content) by exact I. eauto.
    - rewrite (step_no_read _ (cut_at c content) content) by exact I. eauto.
    - cbn in Ho. cbn [ref_step fst snd] in *. cbn [step]. destruct (Z.ltb_spec n 0); [lia|].
      destruct (truncated_read_lemma k size sub content c s n Hwf Hg Ho)
        as (r & s' & s0 & _ & Ec & G' & Hcases & Hfull).
      rewrite Ec.
      assert (Hr : r = Ok (slice (logical (V k size sub) content) (v_tell s) (v_tell s + n))).
      { apply Hfull. unfold cov in *. eapply covf_true_sub; [| |exact Hcov].
        - destruct s; cbn in Hg |- *; [tauto|lia].
        - rewrite slice_zlen, logical_len by (destruct s; cbn in Hg |- *; (tauto || lia)).
          destruct s; cbn in Hg |- *; [tauto|lia]. }
      subst r. exists s'. split; [reflexivity|]. split; [assumption|].
      destruct Hcases as [[_ T']|[(_ & _ & Hx & _)|(_ & _ & T' & _)]]; try discriminate; congruence. }
  destruct Hsame as (s' & E' & G' & T'). rewrite E'.
  specialize (IH s' Hwf G' Hrest Hcov).
  pose proof (view_refines_file_lemma k size sub content ops s' Hwf G' Hrest) as R'.
  pose proof (view_refines_file_lemma k size sub content ops s1 Hwf G1 Hrest) as R1.
  rewrite T' in R'. rewrite <- R1 in R'.
  destruct (run _ (cut_at c content) s' ops) as [rs' s2']. destruct (run _ content s1 ops) as [rs s2].
  destruct (run _ content s' ops) as [rs0 s3]. cbn [fst] in *. congruence.
Qed.

(** * The block loop of the transcoder over a stream *)
Lemma resize_eq (b : list Z) fs : 0 < fs ->
  resize_buffer b fs = firstn (Z.to_nat ((zlen b / fs) * fs)) b.
Proof.
  intros H. unfold resize_buffer. destruct (Z.eqb_spec (zlen b mod fs) 0) as [E|E]; [|reflexivity].
  rewrite firstn_all2; [reflexivity|]. pose proof (Z.div_mod (zlen b) fs ltac:(lia)). unfold zlen in *. lia.
Qed.
Lemma resize_prefix (b : list Z) fs : 0 < fs -> prefix (resize_buffer b fs) b.
Proof. intros H. rewrite resize_eq by assumption. apply firstn_prefix. Qed.
Lemma resize_zlen (b : list Z) fs : 0 < fs -> zlen (resize_buffer b fs) = (zlen b / fs) * fs.
Proof.
  intros H. rewrite resize_eq by assumption. unfold zlen at 1. rewrite firstn_length.
  pose proof (Z.div_mod (zlen b) fs ltac:(lia)). pose proof (Z.mod_pos_bound (zlen b) fs H).
  pose proof (Z.div_pos (zlen b) fs (zlen_nonneg b) H). unfold zlen in *. nia.
Qed.
Lemma resize_mono (b' b : list Z) fs : 0 < fs -> prefix b' b ->
  prefix (resize_buffer b' fs) (resize_buffer b fs).
Proof.
  intros H Hp. pose proof (prefix_zlen _ _ Hp) as Hl.
  rewrite !resize_eq by assumption.
  assert (Hk : (zlen b' / fs) * fs <= zlen b').
  { pose proof (Z.div_mod (zlen b') fs ltac:(lia)). pose proof (Z.mod_pos_bound (zlen b') fs H). lia. }
  assert (Hk2 : (zlen b' / fs) * fs <= (zlen b / fs) * fs).
  { apply Z.mul_le_mono_nonneg_r; [lia|]. apply Z.div_le_mono; lia. }
  rewrite (prefix_firstn _ _ Hp) at 2. rewrite firstn_firstn.
  replace (Nat.min (Z.to_nat (zlen b' / fs * fs)) (length b')) with (Z.to_nat (zlen b' / fs * fs))
    by (unfold zlen in *; lia).
  apply firstn_le_prefix. lia.
Qed.
Lemma resize_nil fs : resize_buffer [] fs = [].
Proof. unfold resize_buffer. destruct (_ =? _); [reflexivity|]. now rewrite firstn_nil. Qed.

(** a block encoder that works frame by frame: more input frames, more output *)
Definition enc_mono (fs : Z) (enc : list Z -> list Z) : Prop :=
  forall x y, prefix x y -> zlen x mod fs = 0 -> zlen y mod fs = 0 -> prefix (enc x) (enc y).
Lemma resize_whole (b : list Z) fs : 0 < fs -> zlen (resize_buffer b fs) mod fs = 0.
Proof. intros H. rewrite resize_zlen by assumption. apply Z.mod_mul. lia. Qed.

Section Drain.
  Variable k : kind.
  Variable size : Z.
  Variable sub : view.
  Variable content : list Z.
  Variable c : Z.
  Variable enc : list Z -> list Z.
  Variable bs fs : Z.
  Let v := V k size sub.
  Hypothesis Hwf : wf v content.
  Hypothesis Hbs : 0 < bs.
  Hypothesis Hfs : 0 < fs.

  (** rounds still needed from position [p] *)
  Let need (p : Z) : Z := (size - p + bs - 1) / bs + 1.

  Lemma need_step p t : 0 <= p -> 0 < t -> t = Z.min (size - p) bs -> need (p + t) + 1 <= need p.
  Proof.
    intros Hp Ht Heq. unfold need.
    destruct (Z_le_gt_dec bs (size - p)).
    - replace (size - p + bs - 1) with ((size - (p + t) + bs - 1) + 1 * bs) by lia.
      rewrite Z.div_add by lia. lia.
    - replace (size - (p + t) + bs - 1) with (bs - 1) by lia. rewrite Z.div_small by lia.
      assert (1 <= (size - p + bs - 1) / bs) by (apply Z.div_le_lower_bound; lia). lia.
  Qed.
  Lemma need_pos p : p <= size -> 1 <= need p.
  Proof. intros. unfold need. assert (0 <= (size - p + bs - 1) / bs) by (apply Z.div_pos; lia). lia. Qed.

  Lemma content_read s :
    good v s -> exists b s1, v_read v content s bs = (Ok b, s1) /\ good v s1
      /\ b = slice (logical v content) (v_tell s) (v_tell s + bs)
      /\ v_tell s1 = v_tell s + zlen b /\ zlen b = Z.min (size - v_tell s) bs /\ 0 <= v_tell s <= size.
  Proof.
    intros Hg. destruct (view_filelike v content Hwf) as [_ Hr].
    destruct (Hr s bs Hg ltac:(lia)) as (s1 & E & G & T).
    eexists _, s1. split; [exact E|]. split; [assumption|]. split; [reflexivity|]. split; [assumption|].
    assert (Hp : 0 <= v_tell s <= size) by (destruct s; cbn in Hg |- *; [tauto|lia]).
    split; [|assumption].
    rewrite slice_zlen by lia. unfold v. rewrite logical_len by lia. lia.
  Qed.

  (** over the complete file the loop terminates normally and only ever appends *)
  Lemma drain_full : forall fuel s acc,
    good v s -> need (v_tell s) <= Z.of_nat fuel ->
    exists D s', drain fuel enc v content s bs fs acc = (Ok (acc ++ D), s').
  Proof.
    induction fuel as [|fuel IH]; intros s acc Hg Hfuel.
    { destruct (content_read s Hg) as (_ & _ & _ & _ & _ & _ & _ & Hp). pose proof (need_pos (v_tell s)). lia. }
    destruct (content_read s Hg) as (b & s1 & E & G1 & _ & T1 & Hzb & Hp).
    cbn [drain]. rewrite E.
    destruct (resize_buffer b fs) as [|z buf] eqn:ER.
    - exists [], s1. now rewrite app_nil_r.
    - assert (Hb : 0 < zlen b).
      { destruct b; [rewrite resize_nil in ER; discriminate|]. rewrite zlen_cons. pose proof (zlen_nonneg b). lia. }
      destruct (IH s1 (acc ++ enc (z :: buf)) G1) as (D & s' & ED).
      { rewrite T1. pose proof (need_step (v_tell s) (zlen b) ltac:(lia) Hb Hzb). lia. }
      rewrite ED. exists (enc (z :: buf) ++ D), s'. now rewrite app_assoc.
  Qed.

  (** in a sector-free tower, once the position is past the cut every block is empty *)
  Lemma drain_dead fuel s acc :
    has_sect v = false -> good v s -> c <= v_tell s + woff v ->
    exists s', drain (S fuel) enc v (cut_at c content) s bs fs acc = (Ok acc, s').
  Proof.
    intros Hs Hg Hc.
    destruct (trunc_step k size sub content c Hwf s bs Hg ltac:(lia)) as (r & s' & E & G & Hout & _).
    fold v in E, Hout.
    assert (Hp : 0 <= v_tell s <= vsize v content) by (destruct s; cbn in Hg |- *; [tauto|lia]).
    destruct (window_outcome v content c (v_tell s) bs r (v_tell s') Hwf Hs Hp ltac:(lia) Hout) as (Er & _ & Hw).
    cbn [drain]. rewrite E, Er.
    set (q := v_tell s + zlen (slice (logical v content) (v_tell s) (v_tell s + bs))) in *.
    destruct (Z_lt_ge_dec (v_tell s) q) as [Hlt|Hge].
    - rewrite slice_cut_empty by (specialize (Hw Hlt); lia). rewrite resize_nil. eauto.
    - assert (Hnil : slice (cut_at c content) (v_tell s + woff v) (q + woff v) = []).
      { unfold slice. replace (Z.to_nat (q + woff v - (v_tell s + woff v))) with O by lia. reflexivity. }
      rewrite Hnil, resize_nil. eauto.
  Qed.

  (** the two loops side by side *)
  Lemma drain_sync : (has_sect v = true \/ enc_mono fs enc) -> forall fuel s s' acc,
    good v s -> good v s' -> v_tell s' = v_tell s -> need (v_tell s) <= Z.of_nat fuel ->
    exists D D' T s1 s2,
      drain fuel enc v content s bs fs acc = (Ok (acc ++ D), s1)
      /\ drain fuel enc v (cut_at c content) s' bs fs acc = (Ok (acc ++ D'), s2)
      /\ D = D' ++ T
      /\ (cov v c (v_tell s) size = true -> T = []).
  Proof.
    intros Hmono. induction fuel as [|fuel IH]; intros s s' acc Hg Hg' Hsame Hfuel.
    { destruct (content_read s Hg) as (_ & _ & _ & _ & _ & _ & _ & Hp). pose proof (need_pos (v_tell s)). lia. }
    destruct (drain_full (S fuel) s acc Hg Hfuel) as (Dfull & sfull & Efull).
    destruct (content_read s Hg) as (b & s1 & E & G1 & Hbdef & T1 & Hzb & Hp).
    destruct (trunc_step k size sub content c Hwf s' bs Hg' ltac:(lia)) as (r & s1' & E' & G1' & Hout & Htell).
    fold v in E', Hout, Htell. rewrite Hsame in Hout, Htell. rewrite <- Hbdef in Htell.
    pose proof Hout as [Hc Hnc]. cbv zeta in Hc, Hnc. rewrite <- Hbdef in Hc, Hnc.
    set (p := v_tell s) in *. set (q := p + zlen b) in *.
    assert (Hstop : exists T, drain (S fuel) enc v content s bs fs acc = (Ok (acc ++ [] ++ T), sfull)
                       /\ (cov v c p size = true -> cov v c p q = false -> T = [])).
    { exists Dfull. split; [exact Efull|]. intros Ht Hf.
      unfold cov in *. rewrite (covf_false_sub _ p q p size) in Ht; [discriminate|lia|lia|assumption]. }
    destruct (cov v c p q) eqn:EC.
    - (* the block is complete *)
      destruct (Hc eq_refl) as [-> T1'].
      cbn [drain]. rewrite E, E'.
      destruct (resize_buffer b fs) as [|z buf] eqn:ER.
      + exists [], [], [], s1, s1'. rewrite app_nil_r. auto.
      + assert (Hb : 0 < zlen b).
        { destruct b; [rewrite resize_nil in ER; discriminate|]. rewrite zlen_cons. pose proof (zlen_nonneg b). lia. }
        destruct (IH s1 s1' (acc ++ enc (z :: buf)) G1 G1' ltac:(lia)) as (D & D' & T & s2 & s2' & E1 & E2 & HD & HT).
        { rewrite T1. unfold q. pose proof (need_step p (zlen b) ltac:(lia) Hb Hzb). lia. }
        rewrite E1, E2. exists (enc (z :: buf) ++ D), (enc (z :: buf) ++ D'), T, s2, s2'.
        rewrite !app_assoc. split; [reflexivity|]. split; [reflexivity|].
        split; [rewrite HD; now rewrite app_assoc|].
        intros Ht. apply HT. rewrite T1. fold q. unfold cov in *.
        eapply covf_true_sub; [| |exact Ht]; lia.
    - specialize (Hnc eq_refl). destruct (has_sect v) eqn:EH.
      + (* SectorReadError: stop *)
        destruct Hnc as [-> _].
        destruct Hstop as (T & ET & HT). rewrite ET.
        exists ([] ++ T), [], T, sfull, s1'. split; [reflexivity|]. split.
        { cbn [drain]. rewrite E'. now rewrite app_nil_r. }
        split; [reflexivity|]. intros Ht. now apply HT.
      + (* a short block, then nothing *)
        destruct Hmono as [Hmono|Hmono]; [congruence|].
        assert (Hpv : 0 <= p <= vsize v content) by (cbn; lia).
        destruct (window_outcome v content c p bs r (v_tell s1') Hwf EH Hpv ltac:(lia) Hout) as (Er & Hpre & Hw).
        rewrite <- Hbdef in Er, Hpre, Hw. fold q in Er, Hpre, Hw.
        set (b' := slice (cut_at c content) (p + woff v) (q + woff v)) in *.
        pose proof (resize_mono b' b fs Hfs Hpre) as Hrm.
        destruct (resize_buffer b' fs) as [|z' buf'] eqn:ER'.
        * destruct Hstop as (T & ET & HT). rewrite ET.
          exists ([] ++ T), [], T, sfull, s1'. split; [reflexivity|]. split.
          { cbn [drain]. rewrite E', Er, ER'. now rewrite app_nil_r. }
          split; [reflexivity|]. intros Ht. now apply HT.
        * assert (Hlt : p < q).
          { destruct (Z_lt_ge_dec p q); [assumption|].
            unfold cov in EC. rewrite covf_empty in EC by lia. discriminate. }
          pose proof (window_short v content c p q Hwf EH (Hw Hlt) EC) as Hshort. fold b' in Hshort.
          assert (Hcq : c <= q + woff v).
          { unfold b' in Hshort. rewrite slice_cut_zlen in Hshort by (specialize (Hw Hlt); lia).
            destruct (window_logical_slice v content p q Hwf EH ltac:(lia) ltac:(cbn; lia)) as [_ Hr].
            specialize (Hr Hlt). lia. }
          destruct fuel as [|fuel'].
          { pose proof (need_step p (zlen b) ltac:(lia) ltac:(lia) Hzb). pose proof (need_pos (p + zlen b) ltac:(lia)). lia. }
          destruct (drain_dead fuel' s1' (acc ++ enc (z' :: buf')) EH G1') as (sd & Ed).
          { rewrite (Htell _ Er). fold q. exact Hcq. }
          destruct (resize_buffer b fs) as [|z buf] eqn:ER.
          { destruct Hrm as [t Ht]. discriminate. }
          destruct (drain_full (S fuel') s1 (acc ++ enc (z :: buf)) G1) as (D2 & s2 & E2).
          { rewrite T1. unfold q. pose proof (need_step p (zlen b) ltac:(lia) ltac:(lia) Hzb). lia. }
          destruct (Hmono _ _ Hrm) as [t Ht]; [rewrite <- ER'; now apply resize_whole|rewrite <- ER; now apply resize_whole|].
          exists (enc (z :: buf) ++ D2), (enc (z' :: buf')), (t ++ D2), s2, sd.
          split. { cbn [drain]. rewrite E, ER. cbn [drain] in E2. rewrite E2. now rewrite app_assoc. }
          split. { cbn [drain]. rewrite E', Er, ER'. exact Ed. }
          split; [rewrite Ht; now rewrite app_assoc|].
          intros Ht'. unfold cov in *. rewrite (covf_false_sub _ p q p size) in Ht'; [discriminate|lia|lia|assumption].
  Qed.
End Drain.

Lemma enc_mono_id fs : enc_mono fs (fun x => x).
Proof. intros x y H _ _. exact H. Qed.

Lemma drain_fuel_enough size p bs : 0 < bs -> p <= size ->
  (size - p + bs - 1) / bs + 1 <= Z.of_nat (S (S (Z.to_nat ((size - p) / bs)))).
Proof.
  intros Hbs Hp.
  assert ((size - p + bs - 1) / bs <= (size - p) / bs + 1).
  { replace (size - p + bs - 1) with ((size - p - 1) + 1 * bs) by lia. rewrite Z.div_add by lia.
    assert ((size - p - 1) / bs <= (size - p) / bs) by (apply Z.div_le_mono; lia). lia. }
  assert (0 <= (size - p) / bs) by (apply Z.div_pos; lia). lia.
Qed.

(** [drain] over the cut file returns a prefix of what it returns over the complete file;
    both terminate normally on [drain_fuel] (or more) rounds *)
Lemma truncated_blocks_prefix_lemma k size sub content c enc bs fs s fuel :
  let v := V k size sub in
  wf v content -> good v s -> 1 <= fs -> 1 <= bs ->
  (has_sect v = true \/ enc_mono fs enc) ->
  (drain_fuel v content s bs <= fuel)%nat ->
  exists D D' T s1 s2,
    drain fuel enc v content s bs fs [] = (Ok D, s1)
    /\ drain fuel enc v (cut_at c content) s bs fs [] = (Ok D', s2)
    /\ D = D' ++ T
    /\ (cov v c (v_tell s) size = true -> D' = D).
Proof.
  intros v Hwf Hg Hfs Hbs Hm Hfuel.
  assert (Hp : v_tell s <= size) by (destruct s; cbn in Hg |- *; [tauto|lia]).
  destruct (drain_sync k size sub content c enc bs fs Hwf ltac:(lia) ltac:(lia) Hm fuel s s [] Hg Hg eq_refl)
    as (D & D' & T & s1 & s2 & E1 & E2 & HD & HT).
  { pose proof (drain_fuel_enough size (v_tell s) bs ltac:(lia) Hp). unfold drain_fuel in Hfuel.
    unfold v in Hfuel. cbn [vsize] in Hfuel. lia. }
  exists D, D', T, s1, s2. cbn [app] in E1, E2. repeat split; try assumption.
  intros Ht. rewrite HD, (HT Ht). now rewrite app_nil_r.
Qed.

(** * Several streams drained together (a stereo pair, ...) *)
Definition stream_ok (content : list Z) (x : strm) : Prop :=
  (exists k size sub, sv x = V k size sub) /\ wf (sv x) content /\ good (sv x) (sst x) /\ 1 <= sbs x.
(** same stream, same position; the ancestors may be in different states *)
Definition in_sync (x x' : strm) : Prop :=
  sv x' = sv x /\ sbs x' = sbs x /\ sfs x' = sfs x /\ v_tell (sst x') = v_tell (sst x).
(** the window of the stream from its position on lies below the cut *)
Definition strm_cov (c : Z) (content : list Z) (x : strm) : bool :=
  cov (sv x) c (v_tell (sst x)) (vsize (sv x) content).

Definition pre_ok (pre : view -> vstate -> vstate) : Prop :=
  forall v s, good v s -> good v (pre v s) /\ v_tell (pre v s) = v_tell s.
Lemma pre_ok_id : pre_ok (fun _ s => s).
Proof. intros v s H. auto. Qed.
(** the other views left the ancestors in the good state [ss'] (StreamProofs.interfere) *)
Lemma pre_ok_interfere (f : view -> vstate) :
  (forall k size sub, good sub (f (V k size sub))) -> pre_ok (fun v s => interfere v s (f v)).
Proof.
  intros Hf v s Hg. destruct v as [|k size sub], s as [p|pos ts ss]; cbn in *; try tauto.
  split; [split; [tauto|apply Hf]|reflexivity].
Qed.

Lemma read_round_sync content c pre pre' : pre_ok pre -> pre_ok pre' -> forall xs xs',
  Forall (stream_ok content) xs -> Forall (stream_ok content) xs' -> Forall2 in_sync xs xs' ->
  Forall (fun x => has_sect (sv x) = true) xs ->
  exists bl xs1 r' xs1',
    read_round pre content xs = (Ok bl, xs1)
    /\ read_round pre' (cut_at c content) xs' = (r', xs1')
    /\ Forall (stream_ok content) xs1 /\ Forall (stream_ok content) xs1'
    /\ Forall (fun x => has_sect (sv x) = true) xs1
    /\ Forall2 (fun x x1 => sv x1 = sv x /\ sbs x1 = sbs x /\ sfs x1 = sfs x
                            /\ v_tell (sst x) <= v_tell (sst x1)) xs xs1
    /\ ((r' = Ok bl /\ Forall2 in_sync xs1 xs1') \/ r' = Err SectorReadError)
    /\ (forallb (strm_cov c content) xs = true -> r' = Ok bl)
    /\ (forall x x1 b, hd_error xs = Some x -> hd_error xs1 = Some x1 -> hd_error bl = Some b -> b <> [] ->
          v_tell (sst x1) = v_tell (sst x) + Z.min (vsize (sv x) content - v_tell (sst x)) (sbs x)
          /\ v_tell (sst x) < vsize (sv x) content)
    /\ length bl = length xs.
Proof.
  intros Hpre Hpre'.
  induction xs as [|x xs IH]; intros xs' Hok Hok' Hsync Hsect; inversion Hsync as [|? x' ? xs0' Hx Hrest]; subst.
  { exists [], [], (Ok []), []. cbn. repeat split; auto; try discriminate. }
  inversion Hok as [|? ? Hokx Hokr]; subst. inversion Hok' as [|? ? Hokx' Hokr']; subst.
  inversion Hsect as [|? ? Hsx Hsr]; subst.
  destruct Hokx as ((k & size & sub & Ev) & Hwf & Hg & Hbs).
  destruct Hokx' as (_ & Hwf' & Hg' & Hbs').
  destruct Hx as (Ev' & Ebs' & Efs' & Etell).
  destruct (IH xs0' Hokr Hokr' Hrest Hsr) as (bl & xs1 & r' & xs1' & E1 & E2 & O1 & O1' & S1 & M1 & Hres & Hcovr & _ & Hlen).
  cbn [read_round]. rewrite Ev', Ebs'. rewrite Ev' in Hwf', Hg'. rewrite Ev in *.
  destruct (Hpre _ _ Hg) as [Hgp Htp]. destruct (Hpre' _ _ Hg') as [Hgp' Htp'].
  destruct (view_filelike _ content Hwf) as [_ Hr].
  destruct (Hr (pre (V k size sub) (sst x)) (sbs x) Hgp ltac:(lia)) as (s1 & Ec & G1 & T1).
  rewrite Htp in Ec, T1. rewrite Ec, E1.
  destruct (trunc_step k size sub content c Hwf (pre' (V k size sub) (sst x')) (sbs x) Hgp' ltac:(lia))
    as (r & s1' & Et & G1' & Hout & Htell).
  rewrite Et. rewrite Htp', Etell in Hout, Htell.
  set (p := v_tell (sst x)) in *.
  set (b := slice (logical (V k size sub) content) p (p + sbs x)) in *.
  assert (Hp : 0 <= p <= size) by (unfold p; destruct (sst x); cbn in Hg |- *; [tauto|lia]).
  assert (Hzb : zlen b = Z.min (size - p) (sbs x)).
  { unfold b. rewrite slice_zlen, logical_len by lia. lia. }
  assert (Hokx1 : stream_ok content (with_state x s1)).
  { unfold stream_ok, with_state; cbn. rewrite Ev. eauto 10. }
  assert (Hokx1' : stream_ok content (with_state x' s1')).
  { unfold stream_ok, with_state; cbn. rewrite Ev'. eauto 10. }
  assert (Hmx : sv (with_state x s1) = sv x /\ sbs (with_state x s1) = sbs x /\ sfs (with_state x s1) = sfs x
                /\ v_tell (sst x) <= v_tell (sst (with_state x s1))).
  { cbn. repeat split; try reflexivity. fold p. pose proof (zlen_nonneg b). lia. }
  assert (Hhd : forall x0 x1 b0, Some x = Some x0 -> Some (with_state x s1) = Some x1 ->
                 Some (resize_buffer b (sfs x)) = Some b0 -> b0 <> [] ->
                 v_tell (sst x1) = v_tell (sst x0) + Z.min (vsize (sv x0) content - v_tell (sst x0)) (sbs x0)
                 /\ v_tell (sst x0) < vsize (sv x0) content).
  { intros x0 x1 b0 [= <-] [= <-] [= <-] Hne. cbn [sst with_state]. rewrite Ev. cbn [vsize]. fold p.
    rewrite T1, <- Hzb. split; [reflexivity|].
    destruct b as [|z b1]; [rewrite resize_nil in Hne; congruence|]. rewrite zlen_cons in Hzb.
    pose proof (zlen_nonneg b1). lia. }
  destruct Hout as [Hc Hnc]. cbv zeta in Hc, Hnc. fold b in Hc, Hnc.
  rewrite Hsx in Hnc.
  destruct (cov (V k size sub) c p (p + zlen b)) eqn:EC.
  - destruct (Hc eq_refl) as [-> T1'].
    destruct Hres as [[-> Hs1] | ->].
    + exists (resize_buffer b (sfs x) :: bl), (with_state x s1 :: xs1), (Ok (resize_buffer b (sfs x') :: bl)),
        (with_state x' s1' :: xs1').
      rewrite E2, Efs'. split; [reflexivity|]. split; [reflexivity|].
      split; [now constructor|]. split; [now constructor|].
      split; [constructor; [cbn; now rewrite Ev|assumption]|].
      split; [now constructor|].
      split. { left. split; [reflexivity|]. constructor; [|assumption].
               unfold in_sync. cbn [sv sst sbs sfs with_state]. rewrite Ev.
               split; [exact Ev'|]. split; [exact Ebs'|]. split; [exact Efs'|]. congruence. }
      split; [reflexivity|]. split; [cbn [hd_error]; exact Hhd|cbn [length]; congruence].
    + exists (resize_buffer b (sfs x) :: bl), (with_state x s1 :: xs1), (Err SectorReadError),
        (with_state x' s1' :: xs1').
      rewrite E2. split; [reflexivity|]. split; [reflexivity|].
      split; [now constructor|]. split; [now constructor|].
      split; [constructor; [cbn; now rewrite Ev|assumption]|].
      split; [now constructor|].
      split; [now right|].
      split. { cbn [forallb]. intros Hf. apply andb_prop in Hf. destruct Hf as [_ Hf].
               specialize (Hcovr Hf). discriminate. }
      split; [cbn [hd_error]; exact Hhd|cbn [length]; congruence].
  - destruct (Hnc eq_refl) as [-> _].
    exists (resize_buffer b (sfs x) :: bl), (with_state x s1 :: xs1), (Err SectorReadError),
      (with_state x' s1' :: xs0').
    split; [reflexivity|]. split; [reflexivity|].
    split; [now constructor|]. split; [now constructor|].
    split; [constructor; [cbn; now rewrite Ev|assumption]|].
    split; [now constructor|].
    split; [now right|].
    split. { cbn [forallb]. intros Hf. apply andb_prop in Hf. destruct Hf as [Hf _].
             unfold strm_cov in Hf. rewrite Ev in Hf. cbn [vsize] in Hf. fold p in Hf.
             unfold cov in *. rewrite (covf_false_sub _ p (p + zlen b) p size) in Hf; [discriminate|lia|lia|assumption]. }
    split; [cbn [hd_error]; exact Hhd|cbn [length]; congruence].
Qed.

Definition need_of (content : list Z) (x : strm) : Z :=
  (vsize (sv x) content - v_tell (sst x) + sbs x - 1) / sbs x + 1.

Lemma stream_ok_pos content x : stream_ok content x -> v_tell (sst x) <= vsize (sv x) content /\ 0 <= v_tell (sst x).
Proof.
  intros ((k & size & sub & Ev) & _ & Hg & _). rewrite Ev in *. destruct (sst x); cbn in *; [tauto|lia].
Qed.

Lemma existsb_is_nil_hd (b : list Z) bl : existsb is_nil (b :: bl) = false -> b <> [].
Proof. cbn. destruct b; cbn; congruence. Qed.

(** one more round: the first stream's need goes down *)
Lemma need_of_step content x x1 :
  stream_ok content x -> sv x1 = sv x -> sbs x1 = sbs x ->
  v_tell (sst x1) = v_tell (sst x) + Z.min (vsize (sv x) content - v_tell (sst x)) (sbs x) ->
  v_tell (sst x) < vsize (sv x) content ->
  need_of content x1 + 1 <= need_of content x.
Proof.
  intros Hok Ev Eb Et Hlt. destruct (stream_ok_pos content x Hok) as [_ Hp0].
  destruct Hok as (_ & _ & _ & Hbs). unfold need_of. rewrite Ev, Eb, Et.
  apply (need_step (vsize (sv x) content) (sbs x) ltac:(lia) (v_tell (sst x))); lia.
Qed.

Section DrainMany.
  Variable content : list Z.
  Variable c : Z.
  Variable enc : list (list Z) -> list Z.
  Variables pre pre' : nat -> view -> vstate -> vstate.
  Hypothesis Hpre : forall n, pre_ok (pre n).
  Hypothesis Hpre' : forall n, pre_ok (pre' n).

  Lemma drain_many_full : forall fuel x0 rest acc,
    Forall (stream_ok content) (x0 :: rest) -> Forall (fun x => has_sect (sv x) = true) (x0 :: rest) ->
    need_of content x0 <= Z.of_nat fuel ->
    exists D xs1, drain_many fuel pre enc content (x0 :: rest) acc = (Ok (acc ++ D), xs1).
  Proof.
    induction fuel as [|fuel IH]; intros x0 rest acc Hok Hsect Hfuel.
    { inversion Hok as [|? ? Hok0 _]; subst. destruct (stream_ok_pos content x0 Hok0) as [Hp _].
      destruct Hok0 as (_ & _ & _ & Hbs).
      pose proof (need_pos (vsize (sv x0) content) (sbs x0) ltac:(lia) (v_tell (sst x0)) Hp). unfold need_of in Hfuel. lia. }
    assert (Hsy : Forall2 in_sync (x0 :: rest) (x0 :: rest)).
    { clear. induction (x0 :: rest); constructor; [unfold in_sync; auto|assumption]. }
    destruct (read_round_sync content c (pre fuel) (pre fuel) (Hpre fuel) (Hpre fuel) _ _ Hok Hok Hsy Hsect)
      as (bl & xs1 & r' & xs1' & E1 & _ & O1 & _ & S1 & M1 & _ & _ & Hhd & Hlen).
    cbn [drain_many]. rewrite E1.
    destruct (existsb is_nil bl) eqn:EN.
    { exists [], xs1. now rewrite app_nil_r. }
    inversion M1 as [|? x1 ? rest1 (Ev1 & Eb1 & _ & _) _]; subst.
    destruct bl as [|b bl]; [discriminate|].
    inversion Hok as [|? ? Hok0 _]; subst.
    destruct (Hhd x0 x1 b eq_refl eq_refl eq_refl (existsb_is_nil_hd _ _ EN)) as [Et Hlt].
    pose proof (need_of_step content x0 x1 Hok0 Ev1 Eb1 Et Hlt) as Hstep.
    destruct (IH x1 rest1 (acc ++ enc (b :: bl)) O1 S1 ltac:(lia)) as (D & xs2 & ED).
    rewrite ED. exists (enc (b :: bl) ++ D), xs2. now rewrite app_assoc.
  Qed.

  Lemma cov_many_step : forall xs xs1,
    Forall (stream_ok content) xs ->
    Forall2 (fun x x1 => sv x1 = sv x /\ sbs x1 = sbs x /\ sfs x1 = sfs x
                         /\ v_tell (sst x) <= v_tell (sst x1)) xs xs1 ->
    forallb (strm_cov c content) xs = true -> forallb (strm_cov c content) xs1 = true.
  Proof.
    induction xs as [|x xs IH]; intros xs1 Hok HM Hc; inversion HM as [|? x1 ? xs1' (Ev & _ & _ & Ht) Hr]; subst;
      [reflexivity|].
    inversion Hok; subst. cbn [forallb] in *. apply andb_prop in Hc. destruct Hc as [Hc1 Hc2].
    rewrite (IH xs1') by assumption. rewrite andb_true_r.
    unfold strm_cov, cov in *. rewrite Ev. eapply covf_true_sub; [| |exact Hc1]; lia.
  Qed.

  Lemma drain_many_sync : forall fuel x0 rest xs' acc,
    Forall (stream_ok content) (x0 :: rest) -> Forall (stream_ok content) xs' ->
    Forall2 in_sync (x0 :: rest) xs' ->
    Forall (fun x => has_sect (sv x) = true) (x0 :: rest) ->
    need_of content x0 <= Z.of_nat fuel ->
    exists D D' T xs1 xs2,
      drain_many fuel pre enc content (x0 :: rest) acc = (Ok (acc ++ D), xs1)
      /\ drain_many fuel pre' enc (cut_at c content) xs' acc = (Ok (acc ++ D'), xs2)
      /\ D = D' ++ T
      /\ (forallb (strm_cov c content) (x0 :: rest) = true -> T = []).
  Proof.
    induction fuel as [|fuel IH]; intros x0 rest xs' acc Hok Hok' Hsy Hsect Hfuel.
    { inversion Hok as [|? ? Hok0 _]; subst. destruct (stream_ok_pos content x0 Hok0) as [Hp _].
      destruct Hok0 as (_ & _ & _ & Hbs).
      pose proof (need_pos (vsize (sv x0) content) (sbs x0) ltac:(lia) (v_tell (sst x0)) Hp). unfold need_of in Hfuel. lia. }
    destruct (drain_many_full (S fuel) x0 rest acc Hok Hsect Hfuel) as (Dfull & xsfull & Efull).
    destruct (read_round_sync content c (pre fuel) (pre' fuel) (Hpre fuel) (Hpre' fuel) _ _ Hok Hok' Hsy Hsect)
      as (bl & xs1 & r' & xs1' & E1 & E2 & O1 & O1' & S1 & M1 & Hres & Hcovr & Hhd & Hlen).
    destruct Hres as [[-> Hsy1] | ->].
    - cbn [drain_many]. rewrite E1, E2.
      destruct (existsb is_nil bl) eqn:EN.
      { exists [], [], [], xs1, xs1'. rewrite app_nil_r. auto. }
      inversion M1 as [|? x1 ? rest1 (Ev1 & Eb1 & _ & _) _]; subst.
      destruct bl as [|b bl]; [discriminate|].
      inversion Hok as [|? ? Hok0 _]; subst.
      destruct (Hhd x0 x1 b eq_refl eq_refl eq_refl (existsb_is_nil_hd _ _ EN)) as [Et Hlt].
      pose proof (need_of_step content x0 x1 Hok0 Ev1 Eb1 Et Hlt) as Hstep.
      destruct (IH x1 rest1 xs1' (acc ++ enc (b :: bl)) O1 O1' Hsy1 S1 ltac:(lia))
        as (D & D' & T & xs2 & xs2' & ED & ED' & HD & HT).
      rewrite ED, ED'. exists (enc (b :: bl) ++ D), (enc (b :: bl) ++ D'), T, xs2, xs2'.
      rewrite !app_assoc. split; [reflexivity|]. split; [reflexivity|].
      split; [rewrite HD; now rewrite app_assoc|].
      intros Ht. apply HT. exact (cov_many_step (x0 :: rest) (x1 :: rest1) Hok M1 Ht).
    - rewrite Efull. exists Dfull, [], Dfull, xsfull, xs1'.
      split; [reflexivity|]. split. { cbn [drain_many]. rewrite E2. now rewrite app_nil_r. }
      split; [reflexivity|]. intros Ht. specialize (Hcovr Ht). discriminate.
  Qed.
End DrainMany.

(** [drain_many] over the cut file returns a prefix of what it returns over the complete file *)
Lemma truncated_streams_prefix_lemma content c enc pre pre' xs fuel :
  xs <> [] -> Forall (stream_ok content) xs -> Forall (fun x => has_sect (sv x) = true) xs ->
  (forall n, pre_ok (pre n)) -> (forall n, pre_ok (pre' n)) ->
  (many_fuel content xs <= fuel)%nat ->
  exists D D' T xs1 xs2,
    drain_many fuel pre enc content xs [] = (Ok D, xs1)
    /\ drain_many fuel pre' enc (cut_at c content) xs [] = (Ok D', xs2)
    /\ D = D' ++ T
    /\ (forallb (strm_cov c content) xs = true -> D' = D).
Proof.
  intros Hne Hok Hsect Hpre Hpre' Hfuel. destruct xs as [|x0 rest]; [congruence|].
  assert (Hsy : Forall2 in_sync (x0 :: rest) (x0 :: rest)).
  { clear. induction (x0 :: rest); constructor; [unfold in_sync; auto|assumption]. }
  destruct (drain_many_sync content c enc pre pre' Hpre Hpre' fuel x0 rest (x0 :: rest) [] Hok Hok Hsy Hsect)
    as (D & D' & T & xs1 & xs2 & E1 & E2 & HD & HT).
  { inversion Hok as [|? ? Hok0 _]; subst. destruct (stream_ok_pos content x0 Hok0) as [Hp _].
    destruct Hok0 as (_ & _ & _ & Hbs). unfold need_of. cbn [many_fuel] in Hfuel. unfold drain_fuel in Hfuel.
    pose proof (drain_fuel_enough (vsize (sv x0) content) (v_tell (sst x0)) (sbs x0) ltac:(lia) Hp). lia. }
  exists D, D', T, xs1, xs2. cbn [app] in E1, E2. repeat split; try assumption.
  intros Ht. rewrite HD, (HT Ht). now rewrite app_nil_r.
Qed.

(** * The stream loop is the list loop of Transcode.v *)
Lemma slice_to_end (l : list Z) p : 0 <= p -> slice l p (zlen l) = skipn (Z.to_nat p) l.
Proof. intros. unfold slice. apply firstn_all2. rewrite skipn_length. unfold zlen. lia. Qed.

Lemma skipn_skipn_nat (l : list Z) : forall b a, skipn a (skipn b l) = skipn (b + a) l.
Proof.
  intros b. revert l. induction b as [|b IH]; intros l a; [reflexivity|].
  destruct l as [|x l]; [now rewrite !skipn_nil|]. cbn [skipn Nat.add]. apply IH.
Qed.

(** over the complete file, [drain] with the identity encoder is [passthrough] applied to the
    rest of the logical content *)
Lemma drain_passthrough_lemma k size sub content bs fs src :
  let v := V k size sub in
  wf v content -> 0 < bs -> frame_size src = fs ->
  forall fuel s acc, good v s ->
    fst (drain fuel (fun x => x) v content s bs fs acc)
    = passthrough fuel src bs (slice (logical v content) (v_tell s) size) acc.
Proof.
  intros v Hwf Hbs Hsrc. assert (Hlen : zlen (logical v content) = size).
  { apply logical_len. destruct Hwf. lia. }
  assert (Hsl : forall p, 0 <= p -> slice (logical v content) p size = skipn (Z.to_nat p) (logical v content)).
  { intros p Hp0. pose proof (slice_to_end (logical v content) p Hp0) as H. now rewrite Hlen in H. }
  induction fuel as [|fuel IH]; intros s acc Hg; [reflexivity|].
  destruct (content_read k size sub content (fun x => x) bs Hwf Hbs s Hg) as (b & s1 & E & G1 & Hb & T1 & Hzb & Hp).
  fold v in E, G1, Hb. cbn [drain passthrough]. fold v. rewrite E, Hsrc.
  rewrite Hsl by lia.
  assert (Hfb : firstn (Z.to_nat bs) (skipn (Z.to_nat (v_tell s)) (logical v content)) = b).
  { rewrite Hb. unfold slice. f_equal. lia. }
  rewrite Hfb.
  assert (Hrest : skipn (Z.to_nat bs) (skipn (Z.to_nat (v_tell s)) (logical v content))
                  = slice (logical v content) (v_tell s1) size).
  { rewrite Hsl by lia. rewrite skipn_skipn_nat, T1, Hzb.
    destruct (Z_le_gt_dec bs (size - v_tell s)).
    - f_equal. lia.
    - rewrite !skipn_all2; [reflexivity| |]; unfold zlen in Hlen; lia. }
  rewrite Hrest.
  destruct (resize_buffer b fs) as [|z buf] eqn:ER; [reflexivity|].
  apply IH. exact G1.
Qed.

(** * MdfStream over a cut file: its size is recomputed from the file's length *)
Lemma znth_cut c (l : list Z) i : 0 <= i < c -> znth 0 (cut_at c l) i = znth 0 l i.
Proof.
  intros H. unfold znth, cut_at. rewrite <- (firstn_skipn (Z.to_nat c) l) at 2.
  destruct (Nat.lt_ge_cases (Z.to_nat i) (length (firstn (Z.to_nat c) l))) as [Hlt|Hge].
  - now rewrite app_nth1.
  - rewrite nth_overflow by assumption. rewrite app_nth2 by assumption.
    rewrite firstn_length in Hge. rewrite nth_overflow; [reflexivity|].
    rewrite skipn_length, firstn_length. lia.
Qed.

(** The MdfStream that is built over the cut file (size: the whole 2352-byte sectors that are
    left) is a well-formed view of the cut file, and its content is the complete MdfStream's
    content cut at a 2048-byte boundary. *)
Lemma mdf_cut_lemma content c :
  let cut := cut_at c content in
  let M := mdf_view (zlen content) Base in
  let M' := mdf_view (zlen cut) Base in
  2352 <= zlen cut ->
  wf M content /\ wf M' cut
  /\ logical M' cut = cut_at ((zlen cut / 2352) * 2048) (logical M content).
Proof.
  intros cut M M' Hlen.
  assert (Hcl : zlen cut <= zlen content).
  { unfold cut. rewrite zlen_cut. pose proof (zlen_nonneg content). lia. }
  assert (Hn' : 1 <= zlen cut / 2352) by (apply Z.div_le_lower_bound; lia).
  assert (Hnn : zlen cut / 2352 <= zlen content / 2352) by (apply Z.div_le_mono; lia).
  split; [|split].
  - cbn. repeat split; lia.
  - cbn. repeat split; lia.
  - unfold M, M', mdf_view. cbn [logical].
    set (s' := zlen cut / 2352 * 2048). set (s := zlen content / 2352 * 2048).
    assert (Hss : 0 <= s' <= s) by (unfold s, s'; lia).
    unfold cut_at at 1. rewrite firstn_map.
    rewrite (zrange_app 0 s' s) by lia.
    replace (Z.to_nat s') with (length (zrange 0 s')) at 1
      by (unfold zrange; rewrite zrange_nat_length; lia).
    rewrite firstn_app, firstn_all, Nat.sub_diag. cbn [firstn]. rewrite app_nil_r.
    apply map_ext_zrange. intros a Ha. cbn [addr sbase].
    pose proof (Z.div_mod a 2048 ltac:(lia)). pose proof (Z.mod_pos_bound a 2048 ltac:(lia)).
    assert (a / 2048 < zlen cut / 2352) by (apply Z.div_lt_upper_bound; unfold s' in Ha; lia).
    assert (0 <= a / 2048) by (apply Z.div_pos; lia).
    pose proof (Z.div_mod (zlen cut) 2352 ltac:(lia)). pose proof (Z.mod_pos_bound (zlen cut) 2352 ltac:(lia)).
    unfold cut. apply znth_cut. fold cut.
    assert (zlen cut <= c) by (clear - Hlen; unfold cut in *; rewrite zlen_cut in *; lia). lia.
Qed.
