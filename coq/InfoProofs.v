(** Lemmas about the C20 model (Info.v). *)
From Coq Require Import String.
From SE Require Import Base Codecs Cue Info.
From Coq Require Import List Arith.
Open Scope list_scope.
Open Scope Z_scope.
Ltac Zify.zify_post_hook ::= Z.to_euclidean_division_equations.

(** * Induction principle for the nested tree *)
Section KitemInd.
  Variable P : kitem -> Prop.
  Hypothesis HS : forall s, P (KStr s).
  Hypothesis HN : forall l, Forall (fun kv => P (snd kv)) l -> P (KNode l).
  Fixpoint kitem_ind' (it : kitem) : P it :=
    match it with
    | KStr s => HS s
    | KNode l =>
        HN l ((fix go (l : list (list Z * kitem)) : Forall (fun kv => P (snd kv)) l :=
                 match l with
                 | [] => Forall_nil _
                 | kv :: t => Forall_cons kv (kitem_ind' (snd kv)) (go t)
                 end) l)
    end.
End KitemInd.

(** standalone versions of the inner loops *)
Fixpoint rows_list (d : nat) (l : list (list Z * kitem)) : list row :=
  match l with
  | [] => []
  | (k, v) :: t => {| r_depth := d; r_key := k; r_val := val_of v |} :: rows (S d) v ++ rows_list d t
  end.
Lemma rows_node : forall d l, rows d (KNode l) = rows_list d l.
Proof. intros d l. induction l as [|[k v] t IH]; [reflexivity|]. cbn [rows rows_list] in *. now rewrite IH. Qed.
Fixpoint flatten_list (p : list (list Z)) (l : list (list Z * kitem)) : list kv :=
  match l with
  | [] => []
  | (k, v) :: t => (p ++ [k], val_of v) :: flatten (p ++ [k]) v ++ flatten_list p t
  end.
Lemma flatten_node : forall p l, flatten p (KNode l) = flatten_list p l.
Proof. intros p l. induction l as [|[k v] t IH]; [reflexivity|]. cbn [flatten flatten_list] in *. now rewrite IH. Qed.

(** * Reading one printed row back *)
Definition key_ok (k : list Z) : Prop := ~ In 58 k /\ hd 0 k <> 32.

Lemma count_sp_spaces : forall n l, hd 0 l <> 32 -> count_sp (repeat 32 n ++ l) = (n, l).
Proof.
  induction n as [|n IH]; intros l Hl.
  - cbn [repeat app]. destruct l as [|c t]; [reflexivity|]. cbn [count_sp]. cbn [hd] in Hl.
    destruct (c =? 32) eqn:E; [lia|reflexivity].
  - cbn [repeat app count_sp]. rewrite IH by assumption. reflexivity.
Qed.
Lemma split_colon_key : forall k rest, ~ In 58 k -> split_colon (k ++ 58 :: rest) = Some (k, rest).
Proof.
  induction k as [|c k IH]; intros rest Hk.
  - reflexivity.
  - cbn [app split_colon]. destruct (c =? 58) eqn:E.
    + exfalso. apply Hk. left. lia.
    + rewrite IH; [reflexivity|]. intro H. apply Hk. now right.
Qed.
Lemma div2_double : forall n, Nat.div2 (2 * n) = n.
Proof. intro n. rewrite Nat.div2_double. reflexivity. Qed.

Lemma parse_line_of : forall r, key_ok (r_key r) -> parse_line (line_of r) = Some r.
Proof.
  intros [d k v] [Hc Hs]. unfold parse_line, line_of. cbn [r_depth r_key r_val] in *.
  rewrite count_sp_spaces.
  2:{ destruct k as [|c t]; cbn [app hd] in *; [lia|assumption]. }
  cbn [fst snd]. cbn [app]. rewrite split_colon_key by assumption.
  rewrite div2_double. destruct v; reflexivity.
Qed.

Lemma rows_of_lines_map : forall rs,
  Forall (fun r => key_ok (r_key r)) rs -> rows_of_lines (map line_of rs) = rs.
Proof.
  induction 1 as [|r rs Hr _ IH]; [reflexivity|].
  unfold rows_of_lines in *. cbn [map flat_map]. rewrite parse_line_of by assumption. cbn [app]. now rewrite IH.
Qed.

(** * Paths: the stack discipline rebuilds the key paths *)
Lemma firstn_app_exact : forall {A} (p q : list A), firstn (length p) (p ++ q) = p.
Proof. intros A p q. rewrite firstn_app, Nat.sub_diag, firstn_all. cbn. apply app_nil_r. Qed.
Lemma firstn_firstn_le : forall {A} (l : list A) a b, (a <= b)%nat -> firstn a (firstn b l) = firstn a l.
Proof. intros A l a b H. rewrite firstn_firstn. now rewrite Nat.min_l. Qed.

Lemma paths_rows : forall it d p stack more,
  length p = d -> firstn d stack = p ->
  exists stack', paths stack (rows d it ++ more) = flatten p it ++ paths stack' more
                 /\ firstn d stack' = p.
Proof.
  induction it as [s|l IH] using kitem_ind'; intros d p stack more Hlen Hst.
  - exists stack. cbn [rows flatten app]. auto.
  - rewrite rows_node, flatten_node. revert stack Hst more.
    induction IH as [|[k v] t Hv _ IHt]; intros stack Hst more.
    + exists stack. cbn. auto.
    + cbn [rows_list flatten_list]. cbn [app paths r_depth r_key r_val]. rewrite Hst.
      cbn [snd] in Hv.
      rewrite <- app_assoc.
      destruct (Hv (S d) (p ++ [k]) (p ++ [k]) (rows_list d t ++ more)) as [st1 [E1 F1]].
      { rewrite app_length. cbn. lia. }
      { rewrite <- Hlen. replace (S (length p)) with (length (p ++ [k])) by (rewrite app_length; cbn; lia).
        apply firstn_all. }
      rewrite E1.
      assert (F1' : firstn d st1 = p).
      { rewrite <- (firstn_firstn_le st1 d (S d)) by lia. rewrite F1. rewrite <- Hlen. apply firstn_app_exact. }
      destruct (IHt st1 F1' more) as [st2 [E2 F2]].
      rewrite E2. exists st2. split; [|assumption].
      rewrite <- app_assoc. reflexivity.
Qed.

Definition keys_ok (t : kitem) : Prop := Forall (fun r => key_ok (r_key r)) (rows 0 t).

Lemma trunc_line_id : forall l, zlen l <= 80 -> trunc_line l = l.
Proof. intros l H. unfold trunc_line, TOTAL_WIDTH. destruct (80 <? zlen l) eqn:E; [lia|reflexivity]. Qed.

Lemma map_trunc_id : forall rs, Forall (fun r => zlen (line_of r) <= 80) rs ->
  map (fun r => trunc_line (line_of r)) rs = map line_of rs.
Proof. induction 1 as [|r rs H _ IH]; [reflexivity|]. cbn [map]. now rewrite trunc_line_id, IH. Qed.

Lemma render_complete_lemma : forall hdr t,
  keys_ok t ->
  zlen (rows 0 t) <= 299 ->
  Forall (fun r => zlen (line_of r) <= 80) (rows 0 t) ->
  unrender (print_lines hdr t) = flatten [] t.
Proof.
  intros hdr t Hk Hn Hw. unfold print_lines, unrender.
  set (all := trunc_line hdr :: repeat 45 80 :: map (fun r => trunc_line (line_of r)) (rows 0 t)).
  assert (Hall : zlen all = 2 + zlen (rows 0 t)).
  { unfold all, zlen. cbn [length]. rewrite map_length. lia. }
  unfold MAX_ROWS. destruct (300 + 1 <? zlen all) eqn:E; [lia|].
  unfold all. cbn [skipn]. rewrite map_trunc_id by assumption.
  rewrite rows_of_lines_map by assumption.
  destruct (paths_rows t 0%nat [] [] [] eq_refl eq_refl) as [st [E1 _]].
  rewrite app_nil_r in E1. rewrite E1. cbn [paths]. apply app_nil_r.
Qed.

(** * Record layouts: parse after build *)
Lemma wpow_pos : forall w, 0 < wpow w.
Proof. intro w. unfold wpow. apply Z.pow_pos_nonneg; lia. Qed.
Lemma wpow_S : forall w, wpow (S w) = 256 * wpow w.
Proof. intro w. unfold wpow. rewrite Nat2Z.inj_succ, Z.pow_succ_r by lia. reflexivity. Qed.

Lemma le_bytes_length : forall n v, length (le_bytes n v) = n.
Proof. induction n as [|n IH]; intro v; cbn [le_bytes length]; [reflexivity|now rewrite IH]. Qed.
Lemma le_val_le_bytes : forall n v, 0 <= v < wpow n -> le_val (le_bytes n v) = v.
Proof.
  induction n as [|n IH]; intros v Hv.
  - unfold wpow in Hv. cbn in Hv. cbn. lia.
  - cbn [le_bytes le_val]. rewrite wpow_S in Hv. rewrite IH; [lia|]. pose proof (wpow_pos n). lia.
Qed.
Lemma le_bytes_range : forall n v, Forall (fun b => 0 <= b < 256) (le_bytes n v).
Proof. induction n as [|n IH]; intro v; cbn [le_bytes]; constructor; [lia|apply IH]. Qed.

Lemma field_encode_length : forall w b v, length (field_encode w b v) = w.
Proof. intros w b v. unfold field_encode. destruct b; [rewrite rev_length|]; apply le_bytes_length. Qed.

Lemma field_roundtrip : forall w s b v,
  field_in_range w s v -> field_decode w s b (field_encode w b v) = v.
Proof.
  intros w s b v Hr. unfold field_decode, field_encode.
  pose proof (wpow_pos w) as Hp.
  assert (Hu : le_val (if b then rev (if b then rev (le_bytes w (v mod wpow w)) else le_bytes w (v mod wpow w))
                       else (if b then rev (le_bytes w (v mod wpow w)) else le_bytes w (v mod wpow w)))
               = v mod wpow w).
  { destruct b; [rewrite rev_involutive|]; apply le_val_le_bytes; apply Z.mod_pos_bound; lia. }
  rewrite Hu. unfold field_in_range in Hr. destruct s; cbn [andb].
  - destruct (wpow w <=? 2 * (v mod wpow w)) eqn:E.
    + assert (v < 0) by (destruct (Z.ltb_spec v 0); [assumption|rewrite Z.mod_small in E by lia; lia]).
      replace v with ((v + wpow w) + (-1) * wpow w) at 1 by ring.
      rewrite Z.mod_add by lia. rewrite Z.mod_small by lia. ring.
    + assert (0 <= v).
      { destruct (Z.leb_spec 0 v); [assumption|].
        replace v with ((v + wpow w) + (-1) * wpow w) in E at 1 by ring.
        rewrite Z.mod_add in E by lia. rewrite Z.mod_small in E by lia. lia. }
      apply Z.mod_small. lia.
  - apply Z.mod_small. lia.
Qed.

Lemma build_length_lemma : forall L vs, length (build L vs) = lsize L.
Proof.
  induction L as [|[n w s b|w p] L IH]; intro vs; cbn [build lsize ewidth]; [reflexivity| |];
    rewrite app_length, IH; [rewrite field_encode_length|rewrite repeat_length]; reflexivity.
Qed.

Lemma firstn_app_len : forall {A} (a b : list A) n, length a = n -> firstn n (a ++ b) = a.
Proof. intros A a b n H. subst n. apply firstn_app_exact. Qed.
Lemma skipn_app_len : forall {A} (a b : list A) n, length a = n -> skipn n (a ++ b) = b.
Proof. intros A a b n H. subst n. rewrite skipn_app, skipn_all, Nat.sub_diag. reflexivity. Qed.

Lemma parse_build_lemma : forall L vs tail,
  values_in_range L vs -> parse L (build L vs ++ tail) = vs.
Proof.
  induction L as [|[n w s b|w p] L IH]; intros vs tail H; unfold values_in_range in *; cbn [fields] in H.
  - inversion H. reflexivity.
  - inversion H as [|f v fs vs' Hv Hrest]; subst. cbn [build parse hd tl]. cbn [fst snd] in Hv.
    rewrite <- app_assoc.
    rewrite firstn_app_len by apply field_encode_length.
    rewrite skipn_app_len by apply field_encode_length.
    rewrite field_roundtrip by assumption. f_equal. apply IH. assumption.
  - cbn [build parse]. rewrite <- app_assoc. rewrite skipn_app_len by apply repeat_length. apply IH. assumption.
Qed.

(** every field is read at the sum of the widths before it *)
Definition read_at (bs : list Z) (o : nat * nat * bool * bool) : Z :=
  let '(off, w, s, b) := o in field_decode w s b (firstn w (skipn off bs)).
Lemma skipn_skipn : forall {A} (l : list A) a b, skipn a (skipn b l) = skipn (b + a) l.
Proof.
  intros A l a b. revert l. induction b as [|b IH]; intro l; [reflexivity|].
  destruct l as [|x t]; [now rewrite !skipn_nil|]. cbn [skipn plus]. apply IH.
Qed.
Lemma parse_offsets_gen : forall L bs off,
  parse L (skipn off bs) = map (read_at bs) (offsets L off).
Proof.
  induction L as [|[n w s b|w p] L IH]; intros bs off; cbn [parse offsets map]; [reflexivity| |].
  - cbn [read_at]. f_equal. rewrite skipn_skipn. apply IH.
  - rewrite skipn_skipn. apply IH.
Qed.
Lemma parse_offsets_lemma : forall L bs, parse L bs = map (read_at bs) (offsets L 0).
Proof. intros L bs. apply (parse_offsets_gen L bs 0%nat). Qed.

Lemma offsets_app : forall L1 L2 off,
  offsets (L1 ++ L2) off = offsets L1 off ++ offsets L2 (off + lsize L1).
Proof.
  induction L1 as [|[n w s b|w p] L1 IH]; intros L2 off; cbn [app offsets lsize ewidth].
  - now rewrite Nat.add_0_r.
  - rewrite IH. cbn [app]. now rewrite Nat.add_assoc.
  - rewrite IH. now rewrite Nat.add_assoc.
Qed.
Lemma field_offset_lemma : forall L1 n w s b L2,
  offsets (L1 ++ Fld n w s b :: L2) 0 =
  offsets L1 0 ++ (lsize L1, w, s, b) :: offsets L2 (lsize L1 + w).
Proof. intros. rewrite offsets_app. cbn [offsets]. reflexivity. Qed.

Lemma names_fields_length : forall L, length (names L) = length (fields L).
Proof. intro L. unfold names. apply map_length. Qed.

Lemma parse_env_build : forall L vs tail,
  values_in_range L vs -> parse_env L (build L vs ++ tail) = combine (names L) vs.
Proof. intros. unfold parse_env. now rewrite parse_build_lemma. Qed.

Lemma zlen_app : forall {A} (a b : list A), zlen (a ++ b) = zlen a + zlen b.
Proof. intros. unfold zlen. rewrite app_length. lia. Qed.

(** ** the three AKAI records *)
Lemma decode_sample_build : forall vs pcm,
  values_in_range sample_layout vs ->
  decode_sample (build sample_layout vs ++ pcm) = sample_of_env (combine (names sample_layout) vs).
Proof.
  intros vs pcm H. unfold decode_sample. rewrite zlen_app. unfold zlen at 1. rewrite build_length_lemma.
  destruct (Z.of_nat (lsize sample_layout) + zlen pcm <? Z.of_nat (lsize sample_layout)) eqn:E.
  - unfold zlen in E. lia.
  - now rewrite parse_env_build.
Qed.

(** the stored zone count is byte 31 of a keygroup record *)
Lemma le_val_one_byte : forall k (bs : list Z), le_val (firstn 1 (skipn k bs)) = nth k bs 0.
Proof.
  induction k as [|k IH]; intro bs; destruct bs as [|b t]; cbn [skipn firstn le_val nth]; try lia.
  apply IH.
Qed.

Lemma keygroup_zone_count_byte : forall n vs tail,
  values_in_range (keygroup_layout n) vs ->
  nth NUM_ZONES_OFFSET (build (keygroup_layout n) vs ++ tail) 0 = nth 30 vs 0.
Proof.
  intros n vs tail H.
  pose proof (parse_build_lemma _ _ tail H) as PB.
  rewrite parse_offsets_lemma in PB.
  set (bs := build (keygroup_layout n) vs ++ tail) in *.
  assert (E : nth 30 (map (read_at bs) (offsets (keygroup_layout n) 0)) 0 = nth 30 vs 0) by now rewrite PB.
  unfold keygroup_layout in E. rewrite offsets_app in E.
  rewrite map_app in E. rewrite app_nth1 in E by (rewrite map_length; cbv; lia).
  change (offsets keygroup_head 0) with
    (firstn 30 (offsets keygroup_head 0) ++ [(31%nat, 1%nat, false, false)]) in E.
  rewrite map_app in E. rewrite app_nth2 in E by (rewrite map_length; cbv; lia).
  rewrite map_length in E. change (30 - length (firstn 30 (offsets keygroup_head 0)))%nat with 0%nat in E.
  cbn [map nth read_at] in E. unfold field_decode in E. cbn [andb] in E.
  rewrite <- E. unfold NUM_ZONES_OFFSET.
  symmetry. apply le_val_one_byte.
Qed.

Lemma app_length_lsize : forall L1 L2, lsize (L1 ++ L2) = (lsize L1 + lsize L2)%nat.
Proof. induction L1 as [|e L1 IH]; intro L2; cbn [app lsize]; [reflexivity|rewrite IH; lia]. Qed.

Lemma decode_keygroup_build : forall n vs tail,
  values_in_range (keygroup_layout n) vs ->
  nth 30 vs 0 = Z.of_nat n ->
  decode_keygroup (build (keygroup_layout n) vs ++ tail) =
    (let e := combine (names (keygroup_layout n)) vs in
     zs_ <- decode_zone_names e n ;;
     Ok {| k_env := e; k_nzones := n; k_next := get e (! "next_keygroup_address");
           k_zones := active_zones zs_ |}).
Proof.
  intros n vs tail H Hn. unfold decode_keygroup.
  assert (Hlen : zlen (build (keygroup_layout n) vs ++ tail) = Z.of_nat (lsize (keygroup_layout n)) + zlen tail).
  { rewrite zlen_app. unfold zlen at 1. now rewrite build_length_lemma. }
  assert (Hsz : (34 <= lsize (keygroup_layout n))%nat).
  { unfold keygroup_layout. rewrite app_length_lsize. change (lsize keygroup_head) with 34%nat. lia. }
  rewrite Hlen.
  destruct (Z.of_nat (lsize (keygroup_layout n)) + zlen tail <=? Z.of_nat NUM_ZONES_OFFSET) eqn:E1.
  { unfold NUM_ZONES_OFFSET, zlen in E1. lia. }
  rewrite keygroup_zone_count_byte by assumption. rewrite Hn, Nat2Z.id.
  destruct (Z.of_nat (lsize (keygroup_layout n)) + zlen tail <? Z.of_nat (lsize (keygroup_layout n))) eqn:E2.
  { unfold zlen in E2. lia. }
  rewrite parse_env_build by assumption. reflexivity.
Qed.

(** * The keygroup chain *)
(** keygroup [j] of the program is stored at address [a_j]; every address is positive; the
    next-keygroup word of keygroup [j] holds [a_(j+1)] (the last one may hold anything) *)
Inductive stored_chain (file : list Z) : list Z -> list keygroup -> Prop :=
| sc_nil : stored_chain file [] []
| sc_last a k :
    0 < a -> decode_keygroup (skipn (Z.to_nat a) file) = Ok k -> stored_chain file [a] [k]
| sc_cons a a' k addrs ks :
    0 < a -> decode_keygroup (skipn (Z.to_nat a) file) = Ok k -> k_next k = a' ->
    stored_chain file (a' :: addrs) ks -> stored_chain file (a :: a' :: addrs) (k :: ks).

Lemma stored_chain_pos : forall file addrs ks, stored_chain file addrs ks -> Forall (fun a => 0 < a) addrs.
Proof. induction 1; constructor; auto. Qed.
Lemma stored_chain_length : forall file addrs ks, stored_chain file addrs ks -> length addrs = length ks.
Proof. induction 1; cbn [length] in *; auto. Qed.

Lemma keygroup_walk_chain : forall file addrs ks,
  stored_chain file addrs ks ->
  forall idx total, idx + zlen ks = total ->
  keygroup_walk (length ks) idx total file (hd 0 addrs) = Ok ks.
Proof.
  induction 1 as [|a k Ha Hd|a a' k addrs ks Ha Hd Hn Hc IH]; intros idx total Ht.
  - reflexivity.
  - cbn [length keygroup_walk hd]. rewrite Hd. cbn [bind]. reflexivity.
  - cbn [length keygroup_walk hd]. rewrite Hd. cbn [bind].
    pose proof (stored_chain_pos _ _ _ Hc) as Hp. inversion Hp as [|x y Hx _]; subst x y.
    pose proof (stored_chain_length _ _ _ Hc) as Hl.
    assert (Hidx : idx <? total - 1 = true).
    { unfold zlen in Ht. cbn [length] in Ht. destruct ks; [cbn in Hl; discriminate|]. cbn [length] in Ht. lia. }
    rewrite Hn, Hidx. replace (0 <? a') with true by lia. cbn [andb].
    specialize (IH (idx + 1) total). cbn [hd] in IH. rewrite IH.
    + reflexivity.
    + unfold zlen in *. cbn [length] in Ht. lia.
Qed.

Lemma decode_program_chain : forall file addrs ks nm,
  let e := parse_env program_layout file in
  Z.of_nat (lsize program_layout) <= zlen file ->
  decode_name (get_arr e (! "program_name") 12) = Ok nm ->
  0 <= get e (! "priority") <= 3 ->
  0 <= get e (! "voice_reassign") <= 1 ->
  get e (! "number_of_keygroups") = zlen ks ->
  ks <> [] ->
  get e (! "first_keygroup_address") = hd 0 addrs ->
  stored_chain file addrs ks ->
  decode_program file = Ok {| p_env := e; p_name := nm; p_keygroups := ks |}.
Proof.
  intros file addrs ks nm e Hlen Hnm Hpr Hvr Hnk Hne Hfirst Hc.
  unfold decode_program. fold e.
  destruct (zlen file <? Z.of_nat (lsize program_layout)) eqn:E; [lia|].
  rewrite Hnm. cbn [bind].
  replace ((0 <=? get e (! "priority")) && (get e (! "priority") <=? 3)) with true by lia.
  replace ((0 <=? get e (! "voice_reassign")) && (get e (! "voice_reassign") <=? 1)) with true by lia.
  cbn [negb]. rewrite Hnk, Hfirst.
  pose proof (stored_chain_pos _ _ _ Hc) as Hp.
  pose proof (stored_chain_length _ _ _ Hc) as Hl.
  destruct addrs as [|a addrs]; [destruct ks; [congruence|discriminate]|].
  inversion Hp as [|x y Hx _]; subst x y. cbn [hd].
  assert (0 < zlen ks) by (unfold zlen; destruct ks; [congruence|cbn [length]; lia]).
  replace ((0 <? a) && (0 <? zlen ks)) with true by lia.
  unfold zlen at 1. rewrite Nat2Z.id.
  pose proof (keygroup_walk_chain _ _ _ Hc 0 (zlen ks) eq_refl) as W. cbn [hd] in W.
  rewrite W. reflexivity.
Qed.

(** the listed zones are the slots with a non-empty name, in stored order *)
Lemma decode_zone_names_slots : forall e n l,
  decode_zone_names e n = Ok l -> map z_slot l = seq 0 n.
Proof.
  intros e n. unfold decode_zone_names. generalize (seq 0 n) as sl.
  induction sl as [|i sl IH]; intros l H; cbn [map_res] in H.
  - inversion H. reflexivity.
  - destruct (decode_name (get_arr e (sub_name (! "zone_name") i) 12)) as [nm| |]; cbn [bind] in H; try discriminate.
    destruct (map_res _ sl) as [l'| |] eqn:E; cbn [bind] in H; try discriminate.
    inversion H; subst. cbn [map z_slot]. f_equal. now apply IH.
Qed.
Lemma active_zones_spec : forall l z,
  In z (active_zones l) <-> In z l /\ z_name z <> [].
Proof.
  intros l z. unfold active_zones. rewrite filter_In. split; intros [H1 H2]; split; auto.
  - destruct (z_name z); [discriminate|congruence].
  - destruct (z_name z); [congruence|reflexivity].
Qed.
Lemma active_zones_order : forall l,
  exists f, active_zones l = filter f l /\ forall z, f z = true <-> z_name z <> [].
Proof.
  intro l. exists (fun z => match z_name z with [] => false | _ => true end). split; [reflexivity|].
  intro z. destruct (z_name z); split; congruence.
Qed.

(** * Derived values *)
Lemma sample_rate_default_lemma : forall r,
  sample_rate_of r = if r =? 0 then 44100 else r.
Proof. reflexivity. Qed.
Lemma decode_loop_lemma : forall loop_at coarse dur,
  let l := decode_loop loop_at coarse dur in
  le_end l = loop_at /\ le_start l = Z.max 0 (loop_at - 1 - coarse) /\ le_duration l = dur /\
  (le_forever l = true <-> 9999 <= dur).
Proof.
  intros. unfold l, decode_loop. cbn [le_end le_start le_duration le_forever].
  repeat split; try lia. destruct (loop_at - 1 - coarse <? 0) eqn:E; lia.
Qed.
Lemma active_loops_lemma : forall lt table l,
  In l (active_loops lt table) <-> lt <> LOOP_INACTIVE /\ In l table /\ 0 < le_duration l.
Proof.
  intros lt table l. unfold active_loops, LOOP_INACTIVE. destruct (lt =? 2) eqn:E.
  - cbn. split; [tauto|]. intros [H _]. lia.
  - rewrite filter_In. split; intros; repeat split; try tauto; lia.
Qed.
Lemma active_loops_order : forall lt table,
  lt <> LOOP_INACTIVE -> active_loops lt table = filter (fun l => 0 <? le_duration l) table.
Proof. intros lt table H. unfold active_loops, LOOP_INACTIVE in *. destruct (lt =? 2) eqn:E; [lia|reflexivity]. Qed.

Lemma roland_point_lemma : forall raw,
  point_fine raw = raw mod 256 /\ point_address raw = raw / 256.
Proof.
  intro raw. unfold point_fine, point_address. split.
  - change 255 with (Z.ones 8). rewrite Z.land_ones by lia. reflexivity.
  - rewrite Z.shiftr_div_pow2 by lia. reflexivity.
Qed.
Lemma roland_nibbles_lemma : forall b,
  high_nibble b = b / 16 /\ low_nibble b = b mod 16.
Proof.
  intro b. unfold high_nibble, low_nibble. split.
  - rewrite Z.shiftr_div_pow2 by lia. reflexivity.
  - change 15 with (Z.ones 4). rewrite Z.land_ones by lia. reflexivity.
Qed.
Lemma roland_point_recompose : forall raw, raw = 256 * point_address raw + point_fine raw.
Proof. intro raw. destruct (roland_point_lemma raw) as [-> ->]. lia. Qed.

(** * Known finding D12 on the model: the per-zone arrays are cut by COUNT *)
(** what the property would want: a listed zone shows entry [z_slot z] of the per-zone arrays *)
Definition zone_own_slot_statement : Prop :=
  forall (pc : Z -> list Z) bs k j z,
    decode_keygroup bs = Ok k -> nth_error (k_zones k) j = Some z ->
    In (! "aux_out_offset", IStr (str_Z (get (k_env k) (sub_name (! "aux_out_offset") (z_slot z)))))
       (match zone_item pc (k_env k) j z with IMap l => l | _ => [] end).

Definition blank_zone : list Z := repeat 10 12 ++ [0; 127; 0; 0; 0; 0; 0; 0].
Definition named_zone (c : Z) : list Z := (c :: repeat 10 11) ++ [0; 127; 0; 0; 0; 0; 0; 0].
(** slots named A, blank, B, blank; aux_out_offset 10, 20, 30, 40 *)
Definition d12_record : list Z :=
  build (keygroup_layout 4)
    ([2; 0] ++ repeat 24 2 ++ repeat 0 25 ++ [1; 4] ++
     named_zone 11 ++ blank_zone ++ named_zone 12 ++ blank_zone ++
     [0; 0] ++ [1; 1; 1; 1] ++ [10; 20; 30; 40] ++ [0; 0; 0; 0] ++ [0]).

Lemma zone_own_slot_refuted_lemma : ~ zone_own_slot_statement.
Proof.
  intro H.
  destruct (decode_keygroup d12_record) as [k| |] eqn:E; [|vm_compute in E; discriminate..].
  specialize (H (fun _ => []) d12_record k 1%nat {| z_slot := 2; z_name := [66] |} E).
  vm_compute in E. inversion E; subst k. clear E.
  specialize (H eq_refl). vm_compute in H.
  repeat (destruct H as [H|H]; [discriminate H|]). exact H.
Qed.

(** * The opaque float printer: what its injectivity buys *)
Lemma sample_item_cents_lemma : forall (pc : Z -> list Z) fn s1 s2,
  (forall a b, -128 <= a <= 127 -> -128 <= b <= 127 -> pc a = pc b -> a = b) ->
  -128 <= s_cents s1 <= 127 -> -128 <= s_cents s2 <= 127 ->
  sample_item pc fn s1 = sample_item pc fn s2 -> s_cents s1 = s_cents s2.
Proof.
  intros pc fn s1 s2 Hinj H1 H2 E. unfold sample_item in E.
  injection E as E. repeat match goal with H : _ :: _ = _ :: _ |- _ => injection H as ? H end.
  repeat match goal with H : (_, _) = (_, _) |- _ => injection H as H end.
  match goal with H : pc _ = pc _ |- _ => apply Hinj in H; auto end.
Qed.

(** * Non-vacuity material *)
Definition example_keygroup (next : Z) (c1 c2 : Z) : list Z :=
  build (keygroup_layout 4)
    ([2; next] ++ [24; 127] ++ [-128; -3; 99; 12] ++ repeat 0 21 ++ [1; 4] ++
     named_zone c1 ++ blank_zone ++ named_zone c2 ++ blank_zone ++
     [-7; 0] ++ [1; 0; 1; 1] ++ [10; 20; 30; 40] ++ [-32768; 2; 3; 32767] ++ [5]).
Definition example_header : list Z :=
  build program_layout
    ([1; 225] ++ [26; 28; 25; 17; 10; 10; 10; 10; 10; 10; 10; 10] ++
     [0; 255; 15; 1; 24; 127; -2; 255; 99; -50; 80; 20] ++ repeat 0 15 ++ [2] ++
     [0; 1; 2; 3; 4; 5; 6; 7; 8; 9; 10; 11] ++ [0; 0; 0; 1; 0; 1; 10; 10; 10; 77; -1; 0; 0; 0; 1; 0]).
(** header, 3 filler bytes, the SECOND keygroup at 75, the FIRST at 225 *)
Definition example_program_file : list Z :=
  example_header ++ [51; 51; 51] ++ example_keygroup 0 13 14 ++ example_keygroup 75 11 12.

(** * Keys of the trees the model builds are readable *)
Section ItemInd.
  Variable P : item -> Prop.
  Hypothesis HS : forall s, P (IStr s).
  Hypothesis HM : forall l, Forall (fun kv => P (snd kv)) l -> P (IMap l).
  Hypothesis HQ : forall l, Forall P l -> P (ISeq l).
  Fixpoint item_ind' (it : item) : P it :=
    match it with
    | IStr s => HS s
    | IMap l =>
        HM l ((fix go (l : list (list Z * item)) : Forall (fun kv => P (snd kv)) l :=
                 match l with [] => Forall_nil _ | kv :: t => Forall_cons kv (item_ind' (snd kv)) (go t) end) l)
    | ISeq l =>
        HQ l ((fix go (l : list item) : Forall P l :=
                 match l with [] => Forall_nil _ | v :: t => Forall_cons v (item_ind' v) (go t) end) l)
    end.
End ItemInd.

Fixpoint keyed_map (l : list (list Z * item)) : list (list Z * kitem) :=
  match l with [] => [] | (k, v) :: t => (k, keyed k v) :: keyed_map t end.
Fixpoint keyed_seq (prev : list Z) (i : Z) (l : list item) : list (list Z * kitem) :=
  match l with
  | [] => []
  | v :: t => (seq_key prev i, keyed (seq_key prev i) v) :: keyed_seq prev (i + 1) t
  end.
Lemma keyed_imap : forall prev l, keyed prev (IMap l) = KNode (keyed_map l).
Proof. reflexivity. Qed.
Lemma keyed_iseq : forall prev l, keyed prev (ISeq l) = KNode (keyed_seq prev 0 l).
Proof.
  intros prev l. cbn [keyed]. f_equal. generalize 0 as i.
  induction l as [|v t IH]; intro i; [reflexivity|]. cbn [keyed_seq]. now rewrite IH.
Qed.

(** map keys are readable, everywhere in the item *)
Inductive item_ok : item -> Prop :=
| ok_str s : item_ok (IStr s)
| ok_map l : Forall (fun kv => key_ok (fst kv) /\ item_ok (snd kv)) l -> item_ok (IMap l)
| ok_seq l : Forall item_ok l -> item_ok (ISeq l).

Definition plain_char (c : Z) : Prop := c = 45 \/ 48 <= c <= 57.
Lemma dec_digits_chars : forall fuel z acc,
  0 <= z -> Forall plain_char acc -> Forall plain_char (dec_digits fuel z acc).
Proof.
  induction fuel as [|f IH]; intros z acc Hz Ha; cbn [dec_digits]; [assumption|].
  assert (Forall plain_char ((48 + z mod 10) :: acc)) by (constructor; [right; lia|assumption]).
  destruct (z <? 10); [assumption|]. apply IH; [lia|assumption].
Qed.
Lemma str_Z_chars : forall z, Forall plain_char (str_Z z).
Proof.
  intro z. unfold str_Z. destruct (z <? 0) eqn:E.
  - constructor; [now left|]. apply dec_digits_chars; [lia|constructor].
  - apply dec_digits_chars; [lia|constructor].
Qed.

Lemma seq_key_ok : forall prev i, key_ok prev -> key_ok (seq_key prev i).
Proof.
  intros prev i [Hc Hs]. unfold seq_key, key_ok. split.
  - rewrite !in_app_iff. intros [H|[H|[H|H]]]; [tauto| | |].
    + destruct H as [H|[]]. discriminate.
    + pose proof (str_Z_chars i) as F. rewrite Forall_forall in F. specialize (F _ H). unfold plain_char in F. lia.
    + destruct H as [H|[]]. discriminate.
  - destruct prev as [|c t]; cbn [app hd] in *; [discriminate|assumption].
Qed.

Lemma keyed_rows_ok : forall it, item_ok it -> forall prev d, key_ok prev ->
  Forall (fun r => key_ok (r_key r)) (rows d (keyed prev it)).
Proof.
  induction it as [s|l IH|l IH] using item_ind'; intros Hok prev d Hp.
  - constructor.
  - rewrite keyed_imap, rows_node. inversion Hok as [|l' Hl|]; subst. clear Hok.
    induction l as [|[k v] t IHt]; [constructor|].
    inversion Hl as [|x y [Hk Hv] Hl']; subst. inversion IH as [|x y Pv Pt]; subst. cbn [fst snd] in *.
    cbn [keyed_map rows_list]. constructor; [exact Hk|]. apply Forall_app. split.
    + apply Pv; assumption.
    + apply IHt; assumption.
  - rewrite keyed_iseq, rows_node. inversion Hok as [| |l' Hl]; subst. clear Hok.
    generalize 0 as i. induction l as [|v t IHt]; intro i; [constructor|].
    inversion Hl as [|x y Hv Hl']; subst. inversion IH as [|x y Pv Pt]; subst.
    cbn [keyed_seq rows_list]. constructor; [apply seq_key_ok; assumption|]. apply Forall_app. split.
    + apply Pv; [assumption|apply seq_key_ok; assumption].
    + apply IHt; assumption.
Qed.
Lemma key_ok_nil : key_ok [].
Proof. split; [intros []|cbn; discriminate]. Qed.
Lemma keyed_keys_ok : forall it, item_ok it -> keys_ok (keyed [] it).
Proof. intros it H. apply keyed_rows_ok; [assumption|apply key_ok_nil]. Qed.

(** the listing of ANY item with readable map keys that fits the page reads back in full *)
Lemma item_render_complete_lemma : forall hdr it,
  item_ok it ->
  zlen (rows 0 (keyed [] it)) <= 299 ->
  Forall (fun r => zlen (line_of r) <= 80) (rows 0 (keyed [] it)) ->
  unrender (print_lines hdr (keyed [] it)) = flatten [] (keyed [] it).
Proof. intros. apply render_complete_lemma; [apply keyed_keys_ok|..]; assumption. Qed.

(** the sample, program and CDDA items have readable keys for every stored value *)
Ltac key_lit := split; [let HIn := fresh "HIn" in intro HIn; cbn in HIn; repeat (destruct HIn as [HIn|HIn]; [discriminate HIn|]); exact HIn | cbn; discriminate].
Lemma sample_item_ok : forall pc fn s, item_ok (sample_item pc fn s).
Proof.
  intros pc fn s. unfold sample_item. apply ok_map.
  repeat (apply Forall_cons; [split; [key_lit|]|]); try apply ok_str; try apply Forall_nil.
  cbn [snd]. apply ok_seq. induction (s_loops s) as [|l t IH]; [constructor|].
  cbn [map]. constructor; [|exact IH]. unfold loop_item. apply ok_map.
  repeat (apply Forall_cons; [split; [key_lit|apply ok_str]|]). apply Forall_nil.
Qed.
Lemma cdda_item_ok : forall title n, item_ok (cdda_item title n).
Proof.
  intros. unfold cdda_item. apply ok_map.
  repeat (apply Forall_cons; [split; [key_lit|apply ok_str]|]). apply Forall_nil.
Qed.

Definition entry_ok (kv : list Z * item) : Prop := key_ok (fst kv) /\ item_ok (snd kv).
Lemma view_fields_ok : forall pc e (view : list (name * pkind)),
  Forall (fun nk => key_ok (fst nk)) view ->
  Forall entry_ok (map (fun nk => str_field pc e (fst nk) (snd nk)) view).
Proof.
  intros pc e view H. induction H as [|nk t Hk _ IH]; [constructor|].
  cbn [map]. constructor; [|exact IH]. split; [exact Hk|apply ok_str].
Qed.
Ltac view_ok := repeat (apply Forall_cons; [key_lit|]); apply Forall_nil.
Lemma program_view_a_ok : Forall (fun nk : name * pkind => key_ok (fst nk)) program_view_a.
Proof. unfold program_view_a. view_ok. Qed.
Lemma program_view_b_ok : Forall (fun nk : name * pkind => key_ok (fst nk)) program_view_b.
Proof. unfold program_view_b. view_ok. Qed.
Lemma program_view_c_ok : Forall (fun nk : name * pkind => key_ok (fst nk)) program_view_c.
Proof. unfold program_view_c. view_ok. Qed.
Lemma keygroup_view_a_ok : Forall (fun nk : name * pkind => key_ok (fst nk)) keygroup_view_a.
Proof. unfold keygroup_view_a. view_ok. Qed.
Lemma zone_view_ok : Forall (fun nk : name * pkind => key_ok (fst nk)) zone_view.
Proof. unfold zone_view. view_ok. Qed.

Lemma zone_item_ok : forall pc e j z, item_ok (zone_item pc e j z).
Proof.
  intros. unfold zone_item. apply ok_map. fold entry_ok.
  apply Forall_cons; [split; [key_lit|apply ok_str]|]. apply Forall_app. split.
  - pose proof zone_view_ok as V. induction V as [|nk t Hk _ IH]; [constructor|].
    cbn [map]. constructor; [|exact IH]. split; [exact Hk|apply ok_str].
  - repeat (apply Forall_cons; [split; [key_lit|apply ok_str]|]). apply Forall_nil.
Qed.
Lemma zone_items_ok : forall pc e l j, Forall item_ok (zone_items pc e j l).
Proof. intros pc e l. induction l as [|z t IH]; intro j; cbn [zone_items]; constructor; [apply zone_item_ok|apply IH]. Qed.
Lemma keygroup_item_ok : forall pc k, item_ok (keygroup_item pc k).
Proof.
  intros. unfold keygroup_item. apply ok_map. fold entry_ok. apply Forall_app. split.
  - apply view_fields_ok, keygroup_view_a_ok.
  - apply Forall_cons; [|apply Forall_nil]. split; [key_lit|]. cbn [snd]. apply ok_seq, zone_items_ok.
Qed.
Lemma program_item_ok : forall pc fn p, item_ok (program_item pc fn p).
Proof.
  intros. unfold program_item. apply ok_map. fold entry_ok.
  repeat (apply Forall_app; split); try (apply view_fields_ok; first [apply program_view_a_ok|apply program_view_b_ok|apply program_view_c_ok]).
  - apply Forall_cons; [split; [key_lit|apply ok_str]|apply Forall_nil].
  - apply Forall_cons; [|apply Forall_nil]. split; [key_lit|]. cbn [snd]. apply ok_seq.
    induction (get_arr (p_env p) (! "key_temperaments") 12) as [|v t IH]; cbn [map]; constructor; [apply ok_str|exact IH].
  - apply Forall_cons; [|apply Forall_cons; [split; [key_lit|apply ok_str]|apply Forall_nil]].
    split; [key_lit|]. cbn [snd]. apply ok_seq.
    induction (p_keygroups p) as [|k t IH]; cbn [map]; constructor; [apply keygroup_item_ok|exact IH].
Qed.

(** * The text on stdout: lines joined by newlines, read back by splitting *)
Definition no_nl (l : list Z) : Prop := ~ In 10 l.
Lemma split_lines_aux_line : forall l cur rest,
  no_nl l -> split_lines_aux cur (l ++ 10 :: rest) = (rev cur ++ l) :: split_lines_aux [] rest.
Proof.
  induction l as [|c t IH]; intros cur rest Hn.
  - cbn [app split_lines_aux]. cbn. now rewrite app_nil_r.
  - cbn [app split_lines_aux]. destruct (c =? 10) eqn:E.
    + exfalso. apply Hn. left. lia.
    + rewrite IH by (intro H; apply Hn; now right). cbn [rev]. now rewrite <- app_assoc.
Qed.
Lemma split_lines_join : forall ls,
  Forall no_nl ls -> split_lines (flat_map (fun l => l ++ [10]) ls) = ls.
Proof.
  unfold split_lines. induction 1 as [|l ls Hl _ IH]; [reflexivity|].
  cbn [flat_map]. rewrite <- app_assoc. cbn [app]. rewrite split_lines_aux_line by assumption.
  cbn [rev app]. now rewrite IH.
Qed.
Lemma split_lines_text : forall ls,
  Forall no_nl ls -> split_lines (flat_map (fun l => l ++ [10]) ls ++ [10]) = ls ++ [[]].
Proof.
  intros ls H. replace (flat_map (fun l => l ++ [10]) ls ++ [10]) with (flat_map (fun l => l ++ [10]) (ls ++ [[]])).
  - apply split_lines_join. apply Forall_app. split; [assumption|]. constructor; [intros []|constructor].
  - rewrite flat_map_app. reflexivity.
Qed.
Lemma rows_of_lines_app : forall a b, rows_of_lines (a ++ b) = rows_of_lines a ++ rows_of_lines b.
Proof. intros. unfold rows_of_lines. apply flat_map_app. Qed.

Lemma In_firstn_In : forall {A} n (l : list A) x, In x (firstn n l) -> In x l.
Proof. intros A n l x H. rewrite <- (firstn_skipn n l). apply in_or_app. now left. Qed.

Lemma render_text_complete_lemma : forall hdr t,
  keys_ok t ->
  zlen (rows 0 t) <= 299 ->
  Forall (fun r => zlen (line_of r) <= 80) (rows 0 t) ->
  no_nl hdr -> Forall (fun r => no_nl (line_of r)) (rows 0 t) ->
  unrender_text (print_text hdr t) = flatten [] t.
Proof.
  intros hdr t Hk Hn Hw Hh Hr. unfold unrender_text, print_text.
  assert (PL : print_lines hdr t = trunc_line hdr :: repeat 45 80 :: map line_of (rows 0 t)).
  { unfold print_lines.
    set (all := trunc_line hdr :: repeat 45 80 :: map (fun r => trunc_line (line_of r)) (rows 0 t)).
    assert (Hall : zlen all = 2 + zlen (rows 0 t)) by (unfold all, zlen; cbn [length]; rewrite map_length; lia).
    unfold MAX_ROWS. destruct (300 + 1 <? zlen all) eqn:E; [lia|]. unfold all. now rewrite map_trunc_id. }
  rewrite split_lines_text.
  - rewrite <- (render_complete_lemma hdr t Hk Hn Hw). unfold unrender. rewrite PL. cbn [skipn app].
    rewrite rows_of_lines_app. cbn. now rewrite app_nil_r.
  - rewrite PL. constructor; [|constructor].
    + unfold trunc_line. destruct (TOTAL_WIDTH <? zlen hdr); [|assumption].
      unfold no_nl. rewrite in_app_iff. intros [H|H].
      * apply Hh. eapply (In_firstn_In _ _ _ H).
      * cbn in H. repeat (destruct H as [H|H]; [discriminate H|]). exact H.
    + intro H. apply repeat_spec in H. discriminate.
    + rewrite Forall_map. exact Hr.
Qed.

(** * `ls` of an AKAI sample / program: the printed lines read back as the item's pairs *)
Definition fits_page (t : kitem) : Prop :=
  zlen (rows 0 t) <= 299 /\ Forall (fun r => zlen (line_of r) <= 80) (rows 0 t).
Lemma Ok_inj : forall {A} (a b : A), Ok a = Ok b -> a = b.
Proof. intros A a b H. congruence. Qed.
Lemma ls_sample_complete_lemma : forall pc fn sn body lines,
  ls_sample pc fn sn body = Ok lines ->
  exists s, decode_sample body = Ok s /\
            (fits_page (keyed [] (sample_item pc fn s)) ->
             unrender lines = flatten [] (keyed [] (sample_item pc fn s))).
Proof.
  intros pc fn sn body lines H. unfold ls_sample, bind in H.
  destruct (decode_sample body) as [s| |]; try discriminate.
  apply Ok_inj in H. rewrite <- H. exists s. split; [reflexivity|]. intros [F1 F2].
  apply item_render_complete_lemma; [apply sample_item_ok|assumption..].
Qed.
Lemma ls_program_complete_lemma : forall pc fn sn tn body lines,
  ls_program pc fn sn tn body = Ok lines ->
  exists p, decode_program body = Ok p /\
            (fits_page (keyed [] (program_item pc fn p)) ->
             unrender lines = flatten [] (keyed [] (program_item pc fn p))).
Proof.
  intros pc fn sn tn body lines H. unfold ls_program, bind in H.
  destruct (decode_program body) as [p| |]; try discriminate.
  apply Ok_inj in H. rewrite <- H. exists p. split; [reflexivity|]. intros [F1 F2].
  apply item_render_complete_lemma; [apply program_item_ok|assumption..].
Qed.
Lemma ls_cdda_complete_lemma : forall sn w,
  unrender (ls_cdda_track sn w) =
    [([ ! "title" ], Some (window_title w)); ([ ! "num_channels" ], Some (str_Z 2));
     ([ ! "sample_rate" ], Some (str_Z 44100)); ([ ! "bytes_per_sample" ], Some (str_Z 2));
     ([ ! "num_audio_samples" ], Some (str_Z (w_samples w)))]
  \/ ~ fits_page (keyed [] (cdda_item (window_title w) (w_samples w))).
Proof.
  intros sn w.
  destruct (Z_le_dec (zlen (rows 0 (keyed [] (cdda_item (window_title w) (w_samples w))))) 299) as [F1|F1];
    [|right; intros [A _]; contradiction].
  destruct (Forall_dec (fun r => zlen (line_of r) <= 80) (fun r => Z_le_dec (zlen (line_of r)) 80)
                       (rows 0 (keyed [] (cdda_item (window_title w) (w_samples w))))) as [F2|F2];
    [|right; intros [_ B]; contradiction].
  left. unfold ls_cdda_track. rewrite item_render_complete_lemma; [reflexivity|apply cdda_item_ok|assumption..].
Qed.
