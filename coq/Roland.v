(** Model of the Roland S-7xx specific code:
    smpl_extract/roland/s7xx/sample_file.py (the seven _get_*_params window functions and the
    view SampleFile.to_generalized builds), the record addressing of
    {volume,performance,patch,partial,sample}_entry.py (area_offset + index * entry_size, index
    validation), the pointer-list adapters (>= 0, np.unique = sort + de-duplicate), the
    traversal volume -> performance -> patch -> partial -> sample with the per-patch
    de-duplication of SampleFileListAdapter and the orphan-performance pseudo volume of
    VolumeEntriesList, and the composition FAT words -> links -> get_file -> chained file ->
    window (on top of Fat.v and Stream.v).  No proofs here. *)
From SE Require Import Base Fat Stream.

(** * Loop points and the seven window functions *)
Record rpoints := { p_start : Z; p_sus_start : Z; p_sus_end : Z; p_rel_start : Z; p_rel_end : Z }.
(** LoopRegion(start_sample, end_sample, repeat_forever, loop_type = ALTERNATING?) *)
Record rloop := { l_start : Z; l_end : Z; l_forever : bool; l_alt : bool }.
(** StreamOffset(stream, w_size, w_off), wrapped in StreamReversed(.., w_size, 2) when w_rev *)
Record rparams := { w_off : Z; w_size : Z; w_rev : bool; w_loops : list rloop }.

Definition SAMPLE_WIDTH : Z := 2.
Definition mkloop (s e : Z) (forever alt : bool) : rloop :=
  {| l_start := Z.max 0 s; l_end := Z.max 0 e; l_forever := forever; l_alt := alt |}.

Definition get_forward_end_params (p : rpoints) : rparams :=
  let offset_sample := p_start p in
  let num_samples := p_sus_end p - offset_sample + 1 in
  {| w_off := SAMPLE_WIDTH * offset_sample; w_size := SAMPLE_WIDTH * num_samples; w_rev := false;
     w_loops := [mkloop (p_sus_start p - offset_sample) (p_sus_end p - offset_sample) true false] |}.

Definition get_forward_release_params (p : rpoints) : rparams :=
  let offset_sample := p_start p in
  let num_samples := p_rel_end p - offset_sample + 1 in
  {| w_off := SAMPLE_WIDTH * offset_sample; w_size := SAMPLE_WIDTH * num_samples; w_rev := false;
     w_loops := [mkloop (p_sus_start p - offset_sample) (p_sus_end p - offset_sample) false false;
                 mkloop (p_rel_start p - offset_sample) (p_rel_end p - offset_sample) true false] |}.

Definition get_oneshot_params (p : rpoints) : rparams :=
  let offset_sample := p_start p in
  let num_samples := p_sus_end p - offset_sample + 1 in
  {| w_off := SAMPLE_WIDTH * offset_sample; w_size := SAMPLE_WIDTH * num_samples; w_rev := false;
     w_loops := [] |}.

Definition get_forward_oneshot_params (p : rpoints) : rparams :=
  let offset_sample := p_start p in
  let num_samples := p_rel_end p - offset_sample + 1 in
  {| w_off := SAMPLE_WIDTH * offset_sample; w_size := SAMPLE_WIDTH * num_samples; w_rev := false;
     w_loops := [mkloop (p_sus_start p - offset_sample) (p_sus_end p - offset_sample) false false] |}.

Definition get_alternate_params (p : rpoints) : rparams :=
  let offset_sample := p_start p in
  let num_samples := p_sus_end p - offset_sample + 1 in
  {| w_off := SAMPLE_WIDTH * offset_sample; w_size := SAMPLE_WIDTH * num_samples; w_rev := false;
     w_loops := [mkloop (p_sus_start p - offset_sample) (p_sus_end p - offset_sample) false true] |}.

Definition get_reverse_oneshot_params (p : rpoints) : rparams :=
  let offset_sample := p_start p in
  let num_samples := p_sus_end p - offset_sample + 1 in
  let stream_size := SAMPLE_WIDTH * num_samples in
  {| w_off := SAMPLE_WIDTH * offset_sample; w_size := stream_size; w_rev := true; w_loops := [] |}.

Definition get_reverse_loop_params (p : rpoints) : rparams :=
  let offset_sample := p_start p in
  let num_samples := p_sus_end p - offset_sample + 1 in
  let stream_size := SAMPLE_WIDTH * num_samples in
  {| w_off := SAMPLE_WIDTH * offset_sample; w_size := stream_size; w_rev := true;
     w_loops := [mkloop (p_sus_end p - p_start p) (p_sus_end p - p_sus_start p) true false] |}.

(** the stored loop-mode byte: MappingDefault(Int8ul, {0..6}, default FORWARD_END) *)
Definition loop_mode_of_byte (b : Z) : Z := if (0 <=? b) && (b <=? 6) then b else 0.

(** get_params_map.get(self.loop_mode, _get_forward_end_params) *)
Definition get_params (mode : Z) (p : rpoints) : rparams :=
  if mode =? 1 then get_forward_release_params p
  else if mode =? 2 then get_oneshot_params p
  else if mode =? 3 then get_forward_oneshot_params p
  else if mode =? 4 then get_alternate_params p
  else if mode =? 5 then get_reverse_oneshot_params p
  else if mode =? 6 then get_reverse_loop_params p
  else get_forward_end_params p.

(** the data stream of the exported sample, over the sample's file view *)
Definition roland_sample_view (mode : Z) (p : rpoints) (file : view) : view :=
  let w := get_params mode p in
  let off := V (KOff (w_off w)) (w_size w) file in
  if w_rev w then V (KRev SAMPLE_WIDTH) (w_size w) off else off.

(** the sampling-frequency nibble *)
Definition frequency_of_code (c : Z) : res Z :=
  if c =? 0 then Ok 48000 else if c =? 1 then Ok 44100 else if c =? 2 then Ok 24000
  else if c =? 3 then Ok 22050 else if c =? 4 then Ok 30000 else if c =? 5 then Ok 15000
  else Err ConstructErr.

(** SampleParamLoopPointStruct: raw u32 -> (fine, address) *)
Definition point_fine (raw : Z) : Z := raw mod 256.
Definition point_address (raw : Z) : Z := raw / 256.

(** * Record addressing *)
Inductive rkind := KVolume | KPerformance | KPatch | KPartial | KSample.
Definition CLUSTER_SIZE : Z := 9216.
Definition DATA_FAT_OFFSET : Z := 2822144.          (* 0x2b1000 *)
Definition DIR_ENTRY_SIZE : Z := 32.
Definition max_num (k : rkind) : Z :=
  match k with KVolume => 128 | KPerformance => 512 | KPatch => 1024 | KPartial => 4096 | KSample => 8192 end.
Definition dir_area (k : rkind) : Z :=
  match k with KVolume => 657408 | KPerformance => 661504 | KPatch => 677888
             | KPartial => 710656 | KSample => 841728 end.
Definition par_area (k : rkind) : Z :=
  match k with KVolume => 1103872 | KPerformance => 1136640 | KPatch => 1398784
             | KPartial => 1923072 | KSample => 2447360 end.
Definition par_size (k : rkind) : Z :=
  match k with KVolume => 256 | KPerformance => 512 | KPatch => 512 | KPartial => 128 | KSample => 48 end.
Definition dir_offset (k : rkind) (i : Z) : Z := DIR_ENTRY_SIZE * i + dir_area k.
Definition par_offset (k : rkind) (i : Z) : Z := par_size k * i + par_area k.
(** the ExprValidator of each entry construct (the sample one has no lower bound) *)
Definition index_valid (k : rkind) (i : Z) : bool :=
  match k with KSample => i <? max_num k | _ => (0 <=? i) && (i <? max_num k) end.
(** byte address of cluster [c] in the image *)
Definition cluster_offset (c : Z) : Z := DATA_FAT_OFFSET + c * CLUSTER_SIZE.

(** * Pointer lists: [x for x in ptrs if x >= 0], then np.unique *)
Fixpoint ins (x : Z) (l : list Z) : list Z :=
  match l with
  | [] => [x]
  | h :: t => if x <? h then x :: l else if x =? h then l else h :: ins x t
  end.
Definition sort_dedupe (l : list Z) : list Z := fold_right ins [] l.
Definition ptr_filter (l : list Z) : list Z := sort_dedupe (filter (fun x => 0 <=? x) l).
(** entries of the child list that pass the index validator (SafeListConstruct skips the others) *)
Definition children_of (k : rkind) (raw : list Z) : list Z := filter (index_valid k) (ptr_filter raw).

(** * The tree *)
(** [d_perf], [d_patch], [d_partial]: record number -> raw pointer list; a record that is not
    listed reads as zero bytes, i.e. every pointer is 0. *)
Record rdisk := {
  d_num_perf : Z;                  (* id area: num_performances *)
  d_volumes : list (list Z);       (* raw 64 performance pointers of volume 0, 1, ... *)
  d_perf_dir : list Z;             (* ascending numbers of the performance directory entries of type 0x41 *)
  d_perf : list (Z * list Z);      (* raw 32 patch pointers *)
  d_patch : list (Z * list Z);     (* raw 88 partial pointers *)
  d_partial : list (Z * list Z)    (* raw 4 sample selections *)
}.
Fixpoint lookup (tbl : list (Z * list Z)) (i : Z) : list Z :=
  match tbl with
  | [] => [0]
  | (k, v) :: t => if k =? i then v else lookup t i
  end.
Definition memZ (x : Z) (l : list Z) : bool := existsb (Z.eqb x) l.
(** dict keyed by sample index, insertion order *)
Fixpoint dedupe (seen : list Z) (l : list Z) : list Z :=
  match l with
  | [] => []
  | x :: t => if memZ x seen then dedupe seen t else x :: dedupe (x :: seen) t
  end.
(** sample references of one partial: the four slots in order, negative selections dropped *)
Definition partial_samples (raw : list Z) : list Z :=
  filter (fun s => (0 <=? s) && index_valid KSample s) raw.
(** SampleFileListAdapter: the samples of a patch, first occurrence of each index *)
Definition patch_samples (d : rdisk) (a : Z) : list Z :=
  dedupe [] (flat_map (fun t => partial_samples (lookup (d_partial d) t))
                      (children_of KPartial (lookup (d_patch d) a))).
(** PerformanceEntry.files: concatenation over the patches (no de-duplication across patches) *)
Definition perf_samples (d : rdisk) (p : Z) : list Z :=
  flat_map (patch_samples d) (children_of KPatch (lookup (d_perf d) p)).

(** np.unique(np.concatenate(performance_ptrs of every volume)) *)
Definition listed_perfs (d : rdisk) : list Z := sort_dedupe (concat (map ptr_filter (d_volumes d))).
Definition orphan_perfs (d : rdisk) : list Z :=
  filter (fun p => negb (memZ p (listed_perfs d))) (d_perf_dir d).
Definition ORPHAN_VOLUME : Z := 128.     (* MAX_NUM_VOLUME: index of the pseudo volume *)
Fixpoint number_from {A} (i : Z) (l : list A) : list (Z * A) :=
  match l with [] => [] | x :: t => (i, x) :: number_from (i + 1) t end.
(** VolumeEntriesList._parse: (volume number, performances) *)
Definition roland_volumes (d : rdisk) : list (Z * list Z) :=
  let vols := map (fun iv => (fst iv, children_of KPerformance (snd iv))) (number_from 0 (d_volumes d)) in
  if zlen (listed_perfs d) <? d_num_perf d then vols ++ [(ORPHAN_VOLUME, orphan_perfs d)] else vols.
(** what export writes: per volume, per performance, the sample files *)
Definition roland_listing (d : rdisk) : list (Z * list (Z * list Z)) :=
  map (fun vp => (fst vp, map (fun p => (p, perf_samples d p)) (snd vp))) (roland_volumes d).

(** * From FAT words to exported bytes *)
Definition out_res (o : out) : res (list Z) :=
  match o with OutBytes b => Ok b | OutErr e => Err e | OutPos _ => Err ValueErr | OutFuel => OutOfFuel end.
(** readall() of a fresh view *)
Definition read_all (v : view) (content : list Z) : res (list Z) :=
  out_res (fst (step v content (init_state v 0) (ORead (-1)))).
(** fat_data_stream = StreamOffset(image, len - doff, doff); RolandFile = FileStream over it *)
Definition roland_file_view (L doff ilen : Z) (secs : list Z) : view :=
  chain_view L secs (V (KOff doff) (ilen - doff) Base).
(** SampleEntryAdapter + SampleFile.to_generalized over the decoded table ([L] = cluster size,
    [doff] = DATA_FAT_OFFSET; both parameters so that the correspondence can scale them down) *)
Definition roland_sample_stream (L doff : Z) (fat : list Z) (ilen : Z) (entry top mode : Z) (p : rpoints)
  : res view :=
  t <- roland_decode fat ;;
  secs <- roland_get_file (zlen fat) (snd t) entry top ;;
  Ok (roland_sample_view mode p (roland_file_view L doff ilen secs)).
Definition roland_sample_pcm (L doff : Z) (fat : list Z) (image : list Z) (entry top mode : Z) (p : rpoints)
  : res (list Z) :=
  v <- roland_sample_stream L doff fat (zlen image) entry top mode p ;;
  read_all v image.
