(** Dispatch table of property C15 (truncated images): ids 900-949. *)
From SE Require Import Base Stream Transcode Trunc DriverBase.

(** a stream of [drain_many]: (view, base cursor, width, channels, big endian);
    the block size is the one make_transcoder computes (Transcode.buffer_sizes) *)
Definition unstrm_src (a : val) : src :=
  {| sbytes := []; swidth := unVI (nth_arg a 2); schans := unVI (nth_arg a 3);
     sbig := negb (unVI (nth_arg a 4) =? 0) |}.
Definition unstrm (bs : Z) (a : val) : strm :=
  let v := unview 16 (nth_arg a 0) in
  {| sv := v; sst := init_state v (unVI (nth_arg a 1)); sbs := bs; sfs := frame_size (unstrm_src a) |}.
(** one round of the pipeline: decode every stream's block, encode the frames (Transcode.v) *)
Definition round_enc (ss : list src) (bl : list (list Z)) : list Z :=
  encode_block ss (map (fun sb => decode_block (fst sb) (snd sb)) (combine ss bl)).

Definition dispatch_c15 (id : Z) (a : val) : option val :=
  match id with
  | 900 (* drain_view *) =>
      (* view, content, base cursor, block size, frame size: PassthroughTranscoder drained *)
      let v := unview 16 (nth_arg a 0) in
      let content := unVLZ (nth_arg a 1) in
      let s := init_state v (unVI (nth_arg a 2)) in
      let bs := unVI (nth_arg a 3) in
      Some (vres vlistZ (fst (drain (drain_fuel v content s bs) (fun x => x) v content s bs (unVI (nth_arg a 4)) [])))
  | 901 (* drain_streams *) =>
      (* target block size, streams, content: PipelineTranscoder drained *)
      let target := unVI (nth_arg a 0) in
      let sl := unVL (nth_arg a 1) in
      let content := unVLZ (nth_arg a 2) in
      let srcs := map unstrm_src sl in
      let xs := map (fun sb => unstrm (snd sb) (fst sb)) (combine sl (buffer_sizes target srcs)) in
      Some (vres vlistZ (fst (drain_many (many_fuel content xs) (fun _ _ s => s) (round_enc srcs) content xs [])))
  | _ => None
  end.
