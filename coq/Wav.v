(** Model of smpl_extract/formats/wav.py (the construct declarations RiffStruct,
    WavRiffBodyStruct, WavRiffChunkStruct with Prefixed(Int32ul, ...), WavFormatChunkStruct with
    its two Rebuild fields, WavSampleChunkStruct with Rebuild(sample_loop_cnt) and
    Rebuild(sampler_data_size), WavLoopStruct, the data chunk built from a generator) and of
    smpl_extract/generalized/wav.py (WavSampleAdapter._encode, get_fmt_chunk_data,
    requires_smpl_chunk, get_smpl_chunk_data, get_smpl_normalized_pitch, export_wav).

    [build_wav d pcm] is, byte for byte, what WavSampleBuilder.build(sample) returns / what
    export_wav writes when the transcoder hands over [pcm]; Python exceptions are [Err]:
    construct's FormatFieldError (a field that does not fit its width; class ConstructError)
    is [ConstructErr], round(nan) is [ValueErr], round(inf) / int too large for a float is
    [OverflowErr].  Floats are IEEE binary64 ([PrimFloat]); the two CPython algorithms that
    are not single IEEE operations (float // and %, int / int) are written out on
    [spec_float].

    The second half of the file is the SPECIFICATION side: an independent RIFF walker
    [riff_parse] / [wav_view_of] (it knows nothing of how the file was built: it follows the
    declared sizes) and the predicate [wav_wellformed] written from the property text. *)
From SE Require Import Base Codecs Transcode.
From Coq Require Import Floats.PrimFloat Floats.SpecFloat Floats.FloatOps.

(** * construct's unsigned little-endian integer fields (Int16ul, Int32ul) *)
Fixpoint le_bytes (n : nat) (z : Z) : list Z :=
  match n with O => [] | S k => (z mod 256) :: le_bytes k (z / 256) end.
(** FormatField._build: struct.pack raises struct.error outside the range -> FormatFieldError *)
Definition build_uint (n : nat) (z : Z) : res (list Z) :=
  if (0 <=? z) && (z <? 256 ^ Z.of_nat n) then Ok (le_bytes n z) else Err ConstructErr.
Definition u16 : Z -> res (list Z) := build_uint 2.
Definition u32 : Z -> res (list Z) := build_uint 4.
(** Prefixed(Int32ul, sub): the sub-construct is built into a buffer, then length and buffer *)
Definition prefixed (body : list Z) : res (list Z) := p <- u32 (zlen body) ;; Ok (p ++ body).

Fixpoint concat_res (l : list (res (list Z))) : res (list Z) :=
  match l with
  | [] => Ok []
  | r :: t => a <- r ;; b <- concat_res t ;; Ok (a ++ b)
  end.

(** * Python float helpers (IEEE binary64) *)
(** PyLong_AsDouble: correctly rounded (half even); OverflowError when it does not fit *)
Definition Zfloat (z : Z) : float := SF2Prim (binary_normalize prec emax z 0 false).
Definition is_inf (f : float) : bool :=
  match Prim2SF f with S754_infinity _ => true | _ => false end.
Definition float_of_int (z : Z) : res float :=
  let f := Zfloat z in if is_inf f then Err OverflowErr else Ok f.

(** int / int (long_true_divide): the exact quotient correctly rounded; -0.0 for 0 / negative.
    [b = 0] (ZeroDivisionError) is not reachable from this module: the divisor is always the
    effective sample rate, which is never 0. *)
Definition int_true_div (a b : Z) : res float :=
  if b =? 0 then Err ValueErr
  else
    let neg := xorb (a <? 0) (b <? 0) in
    if a =? 0 then Ok (SF2Prim (S754_zero neg))
    else
      let '(q, e, l) := SFdiv_core_binary prec emax (Z.abs a) 0 (Z.abs b) 0 in
      match binary_round_aux prec emax neg q e l with
      | S754_infinity _ => Err OverflowErr
      | r => Ok (SF2Prim r)
      end.

(** round(float) -> int: ValueError on nan, OverflowError on an infinity *)
Definition py_round_res (f : float) : res Z :=
  match Prim2SF f with
  | S754_nan => Err ValueErr
  | S754_infinity _ => Err OverflowErr
  | _ => Ok (py_round f)
  end.

Definition sf_sign (x : spec_float) : bool :=
  match x with
  | S754_zero s | S754_infinity s | S754_finite s _ _ => s
  | S754_nan => false
  end.
Definition fzero (s : bool) : float := SF2Prim (S754_zero s).
Definition fnan : float := SF2Prim S754_nan.

(** C floor() *)
Definition float_floor (f : float) : float :=
  match Prim2SF f with
  | S754_finite s m e =>
      if 0 <=? e then f
      else
        let d := 2 ^ (- e) in
        let q := Z.pos m / d in
        let v := if s then - (if Z.pos m mod d =? 0 then q else q + 1) else q in
        if v =? 0 then fzero s else Zfloat v
  | _ => f
  end.

(** C fmod(): exact; sign of the first argument *)
Definition float_fmod (x y : float) : float :=
  match Prim2SF x, Prim2SF y with
  | S754_nan, _ | _, S754_nan => fnan
  | S754_infinity _, _ => fnan
  | _, S754_zero _ => fnan
  | S754_zero _, _ => x
  | S754_finite _ _ _, S754_infinity _ => x
  | S754_finite sx mx ex, S754_finite _ my ey =>
      let e := Z.min ex ey in
      let X := Z.pos mx * 2 ^ (ex - e) in
      let Y := Z.pos my * 2 ^ (ey - e) in
      let R := X mod Y in
      if R =? 0 then fzero sx
      else SF2Prim (binary_normalize prec emax (if sx then - R else R) e false)
  end.

Local Open Scope float_scope.
(** Python truth value of a float: [x != 0.0] (nan is true) *)
Definition f_true (f : float) : bool := negb (f =? 0).

(** CPython's _float_div_mod(vx, wx) for a POSITIVE divisor [wx] (here always 100.0):
    returns (vx // wx, vx % wx).  float_rem computes the same remainder. *)
Definition py_float_divmod_pos (vx wx : float) : float * float :=
  let mod0 := float_fmod vx wx in
  let div0 := (vx - mod0) / wx in
  let '(md, dv) :=
    if f_true mod0 then
      (if mod0 <? 0 then (mod0 + wx, div0 - 1) else (mod0, div0))
    else (fzero false, div0) in
  let fd :=
    if f_true dv then
      let fl := float_floor dv in
      if (float_of_Z 1 / float_of_Z 2) <? (dv - fl) then fl + 1 else fl
    else fzero (sf_sign (Prim2SF (vx / wx))) in
  (fd, md).
Local Close Scope float_scope.

(** * smpl_extract/generalized/sample.py: the values export looks at *)
(** LoopRegion: start_sample, end_sample, loop_type (LoopType value: 1 forward, 2 alternating,
    3 reverse), repeat_forever, play_cnt, duration (int or float) *)
Record loop := { l_start : Z; l_end : Z; l_type : Z; l_forever : bool;
                 l_play : option Z; l_dur : option pynum }.
(** Sample: num_channels, the sample width of data_streams[0], sample_rate, midi_note,
    pitch_offset_semi, pitch_offset_cents (AKAI hands over a float here), loop_regions *)
Record sample_desc := { d_channels : Z; d_width : Z; d_rate : Z; d_note : option note;
                        d_semi : option Z; d_cents : option pynum; d_loops : list loop }.

(** * get_smpl_normalized_pitch *)
Definition CENTS_DIV : float := (Zfloat 2147483648 / Zfloat 50)%float.
Definition normalized_pitch (semi : Z) (cents : pynum) : res (Z * Z) :=
  match cents with
  | PInt c =>
      let comb := 50 * semi + c in
      n <- py_round_res (Zfloat (comb mod 100) * CENTS_DIV)%float ;;
      Ok (comb / 100, n)
  | PFloat f =>
      s50 <- float_of_int (50 * semi) ;;
      let '(fd, md) := py_float_divmod_pos (s50 + f)%float (Zfloat 100) in
      no <- py_round_res fd ;;
      n <- py_round_res (md * CENTS_DIV)%float ;;
      Ok (no, n)
  end.

(** * get_smpl_chunk_data *)
Record loop_hdr := { h_cue : Z; h_type : Z; h_start : Z; h_end : Z; h_fraction : Z; h_play : Z }.
Record smpl_data := { s_period : Z; s_note : note; s_fraction : Z; s_loops : list loop_hdr }.

Definition DEFAULT_RATE : Z := 44100.
Definition rate_eff (d : sample_desc) : Z := if d_rate d =? 0 then DEFAULT_RATE else d_rate d.
Definition wav_loop_type (t : Z) : Z := if t =? 2 then 1 else if t =? 3 then 2 else 0.

(** duration / loop_total_duration (the divisor is a non-zero float) *)
Definition pynum_div_float (p : pynum) (y : float) : res float :=
  match p with
  | PInt z => x <- float_of_int z ;; Ok (x / y)%float
  | PFloat x => Ok (x / y)%float
  end.

(** one iteration of the loop over enumerate(sample.loop_regions): None = `continue` *)
Definition loop_header (rate : Z) (i : Z) (l : loop) : res (option loop_hdr) :=
  let mk pc := Ok (Some {| h_cue := i; h_type := wav_loop_type (l_type l); h_start := l_start l;
                           h_end := l_end l; h_fraction := 0; h_play := pc |}) in
  match l_play l with
  | Some p => mk p
  | None =>
      if l_forever l then mk 0
      else match l_dur l with
           | None => mk 0
           | Some dur =>
               tot <- int_true_div (l_end l - l_start l) rate ;;
               if (tot =? 0)%float then Ok None
               else q <- pynum_div_float dur tot ;; pc <- py_round_res q ;; mk pc
           end
  end.
Fixpoint loop_headers (rate : Z) (i : Z) (ls : list loop) : res (list loop_hdr) :=
  match ls with
  | [] => Ok []
  | l :: t =>
      h <- loop_header rate i l ;;
      hs <- loop_headers rate (i + 1) t ;;
      Ok (match h with Some x => x :: hs | None => hs end)
  end.

Definition note_C4 : note := {| degree := 2; sharp := false; octave := 4 |}.
Definition cents_or_0 (c : option pynum) : pynum :=
  match c with
  | None => PInt 0
  | Some p => if pynum_is_zero p then PInt 0 else p
  end.
Definition smpl_chunk_data (d : sample_desc) : res smpl_data :=
  let rate := rate_eff d in
  hs <- loop_headers rate 0 (d_loops d) ;;
  period_f <- int_true_div 1000000000 rate ;;
  let semi := match d_semi d with Some s => s | None => 0 end in
  pn <- normalized_pitch semi (cents_or_0 (d_cents d)) ;;
  let nt := match d_note d with Some n => n | None => note_C4 end in
  period <- py_round_res period_f ;;
  Ok {| s_period := period; s_note := from_midi_byte (to_midi_byte nt + fst pn);
        s_fraction := snd pn; s_loops := hs |}.

Definition requires_smpl (d : sample_desc) : bool :=
  match d_note d, d_cents d, d_semi d with
  | None, None, None => negb (zlen (d_loops d) =? 0)
  | _, _, _ => true
  end.

(** * formats/wav.py: building the structs *)
Definition id_RIFF : list Z := [82; 73; 70; 70].
Definition id_WAVE : list Z := [87; 65; 86; 69].
Definition id_fmt : list Z := [102; 109; 116; 32].
Definition id_smpl : list Z := [115; 109; 112; 108].
Definition id_data : list Z := [100; 97; 116; 97].

(** WavFormatChunkStruct: byte_rate and block_align are Rebuild fields *)
Definition build_fmt (d : sample_desc) : res (list Z) :=
  let ch := d_channels d in
  let bits := 8 * d_width d in
  concat_res [u16 1; u16 ch; u32 (d_rate d); u32 (d_rate d * ch * bits / 8);
              u16 (ch * bits / 8); u16 bits].

(** WavLoopStruct *)
Definition build_loop (h : loop_hdr) : res (list Z) :=
  concat_res [u32 (h_cue h); u32 (h_type h); u32 (h_start h); u32 (h_end h);
              u32 (h_fraction h); u32 (h_play h)].
Fixpoint build_loops (hs : list loop_hdr) : res (list Z) :=
  match hs with
  | [] => Ok []
  | h :: t => a <- build_loop h ;; b <- build_loops t ;; Ok (a ++ b)
  end.
(** WavSampleChunkStruct: sample_loop_cnt = len_(sample_loops), sampler_data_size = len_(b"") *)
Definition build_smpl (c : smpl_data) : res (list Z) :=
  hd <- concat_res [u32 0; u32 0; u32 (s_period c); u32 (to_midi_byte (s_note c));
                    u32 (s_fraction c); u32 0; u32 0; u32 (zlen (s_loops c)); u32 0] ;;
  ls <- build_loops (s_loops c) ;;
  Ok (hd ++ ls).

(** WavRiffChunkStruct: riff_id, Prefixed(Int32ul, Switch ...) *)
Definition chunk (id body : list Z) : res (list Z) := p <- prefixed body ;; Ok (id ++ p).

(** WavSampleAdapter._encode: the list of chunk containers (riff_id, data).  _encode computes
    the smpl container (where the float exceptions come from) before anything is built. *)
Definition wav_chunks (d : sample_desc) (pcm : list Z) : res (list (list Z * list Z)) :=
  sm <- (if requires_smpl d then c <- smpl_chunk_data d ;; Ok (Some c) else Ok None) ;;
  fmtb <- build_fmt d ;;
  smc <- match sm with
         | None => Ok []
         | Some c => b <- build_smpl c ;; Ok [(id_smpl, b)]
         end ;;
  Ok ([(id_fmt, fmtb)] ++ smc ++ [(id_data, pcm)]).
(** GreedyRange(WavRiffChunkStruct) building a list *)
Fixpoint build_chunks (cs : list (list Z * list Z)) : res (list Z) :=
  match cs with
  | [] => Ok []
  | c :: t => a <- chunk (fst c) (snd c) ;; r <- build_chunks t ;; Ok (a ++ r)
  end.
(** RiffStruct.build: Const(b"RIFF"), Prefixed(Int32ul, Const(b"WAVE") + chunks) *)
Definition build_riff (cs : list (list Z * list Z)) : res (list Z) :=
  body <- build_chunks cs ;;
  r <- prefixed (id_WAVE ++ body) ;;
  Ok (id_RIFF ++ r).
Definition build_wav (d : sample_desc) (pcm : list Z) : res (list Z) :=
  cs <- wav_chunks d pcm ;; build_riff cs.

(** export_wav on a Sample with data streams [ss]: NoDataStream check, smpl container,
    make_transcoder (its two argument errors), build; the data chunk is the drained
    transcoder.  [target] is the transcoder's default block size. *)
Definition export_wav (target : Z) (d : sample_desc) (ss : list src) : res (list Z) :=
  match ss with
  | [] => Err NoDataStream
  | s0 :: _ =>
      let d' := {| d_channels := d_channels d; d_width := swidth s0; d_rate := d_rate d;
                   d_note := d_note d; d_semi := d_semi d; d_cents := d_cents d;
                   d_loops := d_loops d |} in
      _ <- (if requires_smpl d' then c <- smpl_chunk_data d' ;; Ok tt else Ok tt) ;;
      pcm <- transcode target ss (swidth s0) (d_channels d) ;;
      build_wav d' pcm
  end.

(** * Specification side: an independent RIFF walker *)
Definition le_val (l : list Z) : Z := fold_right (fun b a => b + 256 * a) 0 l.
Definition u_at (w : nat) (l : list Z) (off : nat) : Z := le_val (firstn w (skipn off l)).
Fixpoint list_eqb (a b : list Z) : bool :=
  match a, b with
  | [], [] => true
  | x :: a', y :: b' => (x =? y) && list_eqb a' b'
  | _, _ => false
  end.

(** follow the declared chunk sizes to the end of the buffer; None when a chunk header is
    cut or a declared size overruns the buffer *)
Fixpoint chunks_parse (fuel : nat) (b : list Z) : option (list (list Z * list Z)) :=
  match fuel with
  | O => None
  | S f =>
      if (length b =? 0)%nat then Some []
      else if (length b <? 8)%nat then None
      else
        let sz := u_at 4 b 4 in
        let rest := skipn 8 b in
        if zlen rest <? sz then None
        else match chunks_parse f (skipn (Z.to_nat sz) rest) with
             | Some cs => Some ((firstn 4 b, firstn (Z.to_nat sz) rest) :: cs)
             | None => None
             end
  end.

Record riff := { r_size : Z; r_chunks : list (list Z * list Z) }.
Definition riff_parse (b : list Z) : option riff :=
  if list_eqb (firstn 4 b) id_RIFF && list_eqb (firstn 4 (skipn 8 b)) id_WAVE then
    match chunks_parse (S (length b)) (skipn 12 b) with
    | Some cs => Some {| r_size := u_at 4 b 4; r_chunks := cs |}
    | None => None
    end
  else None.

(** the three-or-two chunk view the property talks about *)
Record wav_view := { v_riff_size : Z; v_fmt : list Z; v_smpl : option (list Z); v_data : list Z }.
Definition wav_view_of (b : list Z) : option wav_view :=
  match riff_parse b with
  | Some r =>
      match r_chunks r with
      | [(i1, f); (i2, dt)] =>
          if list_eqb i1 id_fmt && list_eqb i2 id_data
          then Some {| v_riff_size := r_size r; v_fmt := f; v_smpl := None; v_data := dt |}
          else None
      | [(i1, f); (i2, sm); (i3, dt)] =>
          if list_eqb i1 id_fmt && list_eqb i2 id_smpl && list_eqb i3 id_data
          then Some {| v_riff_size := r_size r; v_fmt := f; v_smpl := Some sm; v_data := dt |}
          else None
      | _ => None
      end
  | None => None
  end.

(** fmt fields by offset *)
Definition f_format (f : list Z) := u_at 2 f 0.
Definition f_channels (f : list Z) := u_at 2 f 2.
Definition f_rate (f : list Z) := u_at 4 f 4.
Definition f_byte_rate (f : list Z) := u_at 4 f 8.
Definition f_block_align (f : list Z) := u_at 2 f 12.
Definition f_bits (f : list Z) := u_at 2 f 14.
(** smpl fields by offset *)
Definition s_loop_cnt (s : list Z) := u_at 4 s 28.
Definition s_sampler_data (s : list Z) := u_at 4 s 32.

(** The property text, on the bytes of one file. *)
Definition wav_wellformed (b : list Z) : Prop :=
  exists v, wav_view_of b = Some v
    /\ v_riff_size v = zlen b - 8
    /\ zlen (v_fmt v) = 16
    /\ zlen b = 12 + (8 + 16) + match v_smpl v with Some s => 8 + zlen s | None => 0 end
                + (8 + zlen (v_data v))
    /\ f_format (v_fmt v) = 1
    /\ f_block_align (v_fmt v) = f_channels (v_fmt v) * 2
    /\ f_byte_rate (v_fmt v) = f_rate (v_fmt v) * f_block_align (v_fmt v)
    /\ f_bits (v_fmt v) = 16
    /\ 0 < f_block_align (v_fmt v)
    /\ zlen (v_data v) mod f_block_align (v_fmt v) = 0
    /\ (forall s, v_smpl v = Some s -> 36 <= zlen s /\ zlen s = 36 + 24 * s_loop_cnt s).

(** the same as an executable check (run on the files the real export writes) *)
Definition wav_check (b : list Z) : bool :=
  match wav_view_of b with
  | Some v =>
      let f := v_fmt v in
      (v_riff_size v =? zlen b - 8) && (zlen f =? 16)
      && (zlen b =? 12 + (8 + 16) + match v_smpl v with Some s => 8 + zlen s | None => 0 end
                    + (8 + zlen (v_data v)))
      && (f_format f =? 1) && (f_block_align f =? f_channels f * 2)
      && (f_byte_rate f =? f_rate f * f_block_align f) && (f_bits f =? 16)
      && (0 <? f_block_align f) && (zlen (v_data v) mod f_block_align f =? 0)
      && match v_smpl v with
         | Some s => (36 <=? zlen s) && (zlen s =? 36 + 24 * s_loop_cnt s)
         | None => true
         end
  | None => false
  end.

(** * When the build succeeds: every field fits its width (statement side of build_fails_iff) *)
Definition fits (n : Z) (z : Z) : Prop := 0 <= z < 2 ^ n.
Definition fmt_fits (d : sample_desc) : Prop :=
  fits 16 (d_channels d) /\ fits 32 (d_rate d)
  /\ fits 32 (d_rate d * d_channels d * (8 * d_width d) / 8)
  /\ fits 16 (d_channels d * (8 * d_width d) / 8) /\ fits 16 (8 * d_width d).
Definition hdr_fits (h : loop_hdr) : Prop :=
  fits 32 (h_cue h) /\ fits 32 (h_type h) /\ fits 32 (h_start h) /\ fits 32 (h_end h)
  /\ fits 32 (h_fraction h) /\ fits 32 (h_play h).
Definition smpl_fits (c : smpl_data) : Prop :=
  fits 32 (s_period c) /\ fits 32 (to_midi_byte (s_note c)) /\ fits 32 (s_fraction c)
  /\ fits 32 (zlen (s_loops c)) /\ Forall hdr_fits (s_loops c).
(** size of the RIFF body: "WAVE", fmt chunk, optional smpl chunk with k loops, data chunk *)
Definition riff_body_size (smpl_loops : option Z) (pcm_len : Z) : Z :=
  4 + (8 + 16) + match smpl_loops with Some k => 8 + 36 + 24 * k | None => 0 end + (8 + pcm_len).
