(** The sibling-name routine (sanitize_names_general) never gives up: the
    CouldNotDetermineName branch ("This should never(?) happen") is unreachable, for every
    sanitiser and every list of raw names.  Each collision of the counting loop consumes a
    DIFFERENT member of the taken set (the counted forms "g (i)" / "stem (i) L" differ for
    different i), so there are at most len(taken_names) collisions in a row and the guard
    j > len(taken_names) never fires.  With the fuel lemma of NamesProofs.v: the routine
    always returns names. *)
From SE Require Import Base Codecs Cue CueDecorProofs Names NamesProofs NamesMoreProofs NamesRemovalProofs.

Lemma str_Z_inj a b : 0 <= a -> 0 <= b -> str_Z a = str_Z b -> a = b.
Proof. intros Ha Hb H. rewrite <- (str_Z_value a Ha), <- (str_Z_value b Hb). now rewrite H. Qed.

Lemma count_str_inj a b : 0 <= a -> 0 <= b -> count_str a = count_str b -> a = b.
Proof.
  intros Ha Hb H. unfold count_str in H. cbn [app] in H. injection H as H.
  apply app_inv_tail in H. now apply str_Z_inj.
Qed.

(** for a fixed name, different counters give different names *)
Lemma add_count_inj name a b : 0 <= a -> 0 <= b -> add_count name a = add_count name b -> a = b.
Proof.
  intros Ha Hb H. unfold add_count in H. destruct (stereo_match name) as [m|].
  - apply app_inv_head in H. unfold count_str in H. cbn [app] in H. injection H as H.
    apply app_inv_tail in H. apply app_inv_tail in H. now apply str_Z_inj.
  - apply app_inv_head in H. cbn [app] in H. apply count_str_inj; [assumption|assumption|]. congruence.
Qed.

(** the counting loop: [seen] are the taken names it has already collided with *)
Lemma free_name_no_err : forall fuel name i j taken seen e,
  0 <= i -> NoDup seen -> incl seen taken -> zlen seen = j ->
  (forall x, In x seen -> exists k, 0 <= k < i /\ x = add_count name k) ->
  free_name fuel name i j taken <> Err e.
Proof.
  induction fuel as [|fuel IH]; intros name i j taken seen e Hi Hnd Hinc Hj Hseen; cbn [free_name]; [discriminate|].
  destruct (in_names (add_count name i) taken) eqn:E; [|discriminate].
  apply in_names_In in E.
  assert (Hn : ~ In (add_count name i) seen).
  { intros Hin. destruct (Hseen _ Hin) as (k & Hk & Ek). apply add_count_inj in Ek; lia. }
  assert (Hnd' : NoDup (add_count name i :: seen)) by now constructor.
  assert (Hinc' : incl (add_count name i :: seen) taken) by (intros x [<-|Hx]; auto).
  pose proof (NoDup_incl_length Hnd' Hinc') as HL. cbn [length] in HL.
  destruct (j + 1 >? zlen taken) eqn:EJ; [unfold zlen in *; lia|].
  apply (IH name (i + 1) (j + 1) taken (add_count name i :: seen)); try assumption; [lia|unfold zlen in *; cbn [length]; lia|].
  intros x [<-|Hx]; [exists i; split; [lia|reflexivity]|].
  destruct (Hseen x Hx) as (k & Hk & ->). exists k. split; [lia|reflexivity].
Qed.

Lemma assign_group_no_err : forall members fuel name i first taken acc e,
  0 <= i -> assign_group fuel members name i first taken acc <> Err e.
Proof.
  induction members as [|m IH]; intros fuel name i first taken acc e Hi; cbn [assign_group]; [discriminate|].
  destruct first; [apply IH; lia|].
  destruct (free_name fuel name (i + 1) 0 taken) as [[nn i']|e'|] eqn:EF; cbn [bind]; [| |discriminate].
  - cbn [fst snd]. apply IH. pose proof (free_name_ge _ _ _ _ _ _ _ EF). lia.
  - exfalso. eapply (free_name_no_err fuel name (i + 1) 0 taken []); [lia|constructor|intros x []|reflexivity|intros x []|exact EF].
Qed.

Lemma assign_all_no_err : forall groups cands taken e, assign_all groups cands taken <> Err e.
Proof.
  induction groups as [|g rest IH]; intros cands taken e; cbn [assign_all]; [discriminate|].
  destruct (count_occ_name g cands =? 1)%nat.
  - specialize (IH cands taken e). destruct (assign_all rest cands taken); cbn [bind]; congruence.
  - destruct (assign_group _ (count_occ_name g cands) g 0 true taken []) as [[a t']|e'|] eqn:EG; cbn [bind]; [| |discriminate].
    + cbn [snd]. specialize (IH cands t' e). destruct (assign_all rest cands t'); cbn [bind]; congruence.
    + exfalso. eapply assign_group_no_err; [|exact EG]. lia.
Qed.

(** the routine always hands out names: one per element, pairwise distinct *)
Lemma sanitize_names_ok_lemma f elems :
  exists names, sanitize_names f elems = Ok names /\ NoDup names /\ length names = length elems.
Proof.
  destruct (sanitize_names f elems) as [names|e|] eqn:E.
  - exists names. split; [reflexivity|]. exact (sanitize_names_distinct_lemma _ _ _ E).
  - exfalso. unfold sanitize_names in E.
    destruct (assign_all _ _ _) as [tbl|e'|] eqn:EA; cbn [bind] in E; try discriminate.
    injection E as <-. eapply assign_all_no_err; exact EA.
  - exfalso. eapply sanitize_names_total_lemma; exact E.
Qed.
