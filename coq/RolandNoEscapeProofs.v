(** get_file cannot raise on the link table of an accepted Roland FAT.

    For every table of non-negative words that [roland_decode] accepts, every link the
    decoder installed is the raw link of its cluster AND that cluster heads a raw path (each
    word names the next cluster, all inside the table) of at most N clusters that ends on an
    end mark.  Hence get_path from ANY start cluster inside the table succeeds
    (no RequestedInvalidSector: every next cluster is inside the table; no
    InvalidFatDefinition: the path is shorter than the table), and so does get_file.
    Consequence for C14 (Roland): a damaged start cluster / cluster_top can never make
    fat.get_file raise, so the listing of a performance never fails because of a sample
    record ([entries_of_never_fails_lemma], [roland_listing_isolation_total_lemma]). *)
From SE Require Import Base Codecs Fat FatProofs AkaiChainProofs Stream StreamProofs Roland RolandProofs
                       RolandChainProofs Names RolandEntries RolandEntriesProofs.

Section NoEscape.
Context (fat : list Z).
Hypothesis Hnn : Forall (fun w => 0 <= w) fat.
Notation N := (zlen fat).
Notation word x := (znth 0 fat x).

Lemma word_nonneg x : 0 <= word x.
Proof.
  unfold znth. destruct (Nat.lt_ge_cases (Z.to_nat x) (length fat)) as [H|H].
  - rewrite Forall_forall in Hnn. apply Hnn. now apply nth_In.
  - rewrite nth_overflow by lia. lia.
Qed.

(** a raw path to an end mark, inside the table, of at most N clusters *)
Definition GoodRaw (p : list Z) : Prop :=
  rpl fat (Tend fat) p /\ Forall (fun x => 2 <= x < N) p /\ zlen p <= N.
Definition LInv (t : list link) : Prop :=
  zlen t = N /\
  forall x, 0 <= x < N ->
    znth dlink t x = dlink \/ (znth dlink t x = rawlink fat x /\ exists p, GoodRaw (x :: p)).

Lemma rpl_suffix T : forall a y b, rpl fat T (a ++ y :: b) -> rpl fat T (y :: b).
Proof.
  induction a as [|x a IH]; intros y b H; [exact H|].
  cbn [app] in H. destruct a as [|x' a'].
  - cbn [app] in *. cbn [rpl] in H. tauto.
  - cbn [app] in *. cbn [rpl] in H. destruct H as (_ & _ & H). apply (IH y b). exact H.
Qed.

Lemma add_links_from_zero : forall rest prev tbl t,
  add_links_from prev rest tbl = Ok t -> Forall (fun x => 0 < x) (prev :: rest) ->
  znth dlink t 0 = znth dlink tbl 0.
Proof.
  induction rest as [|l rest IH]; intros prev tbl t H HF; cbn [add_links_from] in H.
  - destruct (prev <? zlen tbl); [|discriminate]. injection H as <-.
    inversion HF; subst. apply znth_upd_other; lia.
  - destruct (prev <? zlen tbl); [|discriminate]. inversion HF; subst.
    rewrite (IH _ _ _ H) by assumption. apply znth_upd_other; lia.
Qed.

Lemma add_links_good path tbl t :
  add_links path tbl = Ok t -> rpl fat (Tend fat) path -> Forall (fun x => 2 <= x < N) path ->
  zlen tbl = N ->
  zlen t = N /\
  forall y, 0 <= y ->
    (In y path -> znth dlink t y = rawlink fat y) /\ (~ In y path -> znth dlink t y = znth dlink tbl y).
Proof.
  intros H Hp HF Hl. split.
  - pose proof (add_links_length _ _ _ H). unfold zlen in *. lia.
  - intros y Hy. destruct (Z.eq_dec y 0) as [->|Hy0].
    + assert (Hn0 : ~ In 0 path).
      { intros Hin. rewrite Forall_forall in HF. specialize (HF 0 Hin). lia. }
      split; [intros Hin; contradiction|]. intros _.
      destruct path as [|p rest]; cbn [add_links] in H; [now injection H as <-|].
      eapply add_links_from_zero; [eassumption|].
      eapply Forall_impl; [|exact HF]. cbn. intros; lia.
    + apply (add_links_raw fat path tbl t H Hp y). lia.
Qed.

Lemma walk_linv : forall fuel st sl sub st',
  roland_walk fuel fat N st sl sub = Ok st' ->
  LInv (r_links st) -> rpl fat (Topen) (sl ++ [sub]) -> Forall (fun x => 2 <= x < N) sl -> 2 <= sub ->
  LInv (r_links st').
Proof.
  induction fuel as [|fuel IH]; intros st sl sub st' H HI Hp HF Hsub; [discriminate|].
  cbn [roland_walk] in H.
  destruct (Z.geb_spec sub N) as [Hge|Hlt]; [injection H as <-; exact HI|].
  destruct (Z.eqb_spec (word sub) FAT_ERROR) as [|Hne]; [discriminate|].
  destruct (Z.eqb_spec (word sub) FAT_RESERVED) as [Hres|Hnres];
    [|destruct (Z.eqb_spec (word sub) FAT_FREE) as [Hfree|Hnfree]]; cbn [orb] in H.
  1,2: destruct sl as [|a sl]; [|discriminate]; injection H as <-; exact HI.
  destruct (Z.gtb_spec (zlen (sl ++ [sub])) N) as [|Hlen]; [discriminate|].
  assert (HF' : Forall (fun x => 2 <= x < N) (sl ++ [sub])).
  { apply Forall_app. split; [assumption|]. constructor; [lia|constructor]. }
  destruct (Z.geb_spec (word sub) FAT_END) as [Hend|Hnend].
  - destruct (add_links (sl ++ [sub]) _) as [t| |] eqn:EA; cbn [bind] in H; try discriminate.
    injection H as <-. cbn [r_links] in *.
    pose proof (rpl_close fat _ _ Hp Hend) as Hclosed.
    destruct HI as [Hl HIx].
    destruct (add_links_good _ _ _ EA Hclosed HF' Hl) as [Hlt' Hraw].
    split; [assumption|]. intros x Hx. destruct (Hraw x ltac:(lia)) as [R1 R2].
    destruct (in_dec Z.eq_dec x (sl ++ [sub])) as [Hin|Hnin].
    + right. split; [now apply R1|].
      destruct (in_split _ _ Hin) as (a & b & E). exists b. rewrite E in Hclosed, HF', Hlen.
      split; [eapply rpl_suffix; exact Hclosed|]. split.
      * apply Forall_app in HF'. tauto.
      * rewrite zlen_app in Hlen. pose proof (zlen_nonneg a). lia.
    + rewrite (R2 Hnin). now apply HIx.
  - eapply IH; [exact H|exact HI| |exact HF'|].
    + apply rpl_snoc; [assumption|reflexivity|lia].
    + pose proof (word_nonneg sub). unfold FAT_RESERVED, FAT_FREE in *. lia.
Qed.

Lemma outer_linv : forall n i st st',
  roland_outer n fat N i st = Ok st' -> LInv (r_links st) -> 2 <= i -> LInv (r_links st').
Proof.
  induction n as [|n IH]; intros i st st' H HI Hi; cbn [roland_outer] in H.
  - now injection H as <-.
  - destruct (znth false (r_dirty st) i).
    + eapply IH; [exact H|exact HI|lia].
    + destruct (roland_walk _ fat N st [] i) as [st1| |] eqn:EW; cbn [bind] in H; try discriminate.
      eapply IH; [exact H| |lia].
      eapply walk_linv; [exact EW|exact HI|exact I|constructor|exact Hi].
Qed.

Lemma decode_linv ver links : roland_decode fat = Ok (ver, links) -> LInv links.
Proof.
  intros H. unfold roland_decode in H.
  destruct (negb _); [discriminate|].
  destruct (roland_version _ _) as [v| |]; cbn [bind] in H; try discriminate.
  destruct (roland_outer _ _ _ _ _) as [st| |] eqn:EO; cbn [bind] in H; try discriminate.
  injection H as <- <-.
  eapply outer_linv; [exact EO| |lia]. cbn [r_links]. split; [apply repeat_zlen|].
  intros x Hx. left. apply znth_repeat_same.
Qed.

(** following the installed links along a raw path *)
Lemma get_path_loop_good links : LInv links -> forall p x fuel acc cnt,
  rpl fat (Tend fat) (x :: p) -> Forall (fun y => 2 <= y < N) (x :: p) ->
  0 <= cnt -> cnt + zlen (x :: p) <= N -> (length (x :: p) <= fuel)%nat ->
  exists r, get_path_loop fuel N links acc x cnt = Ok r /\ snd r < N.
Proof.
  intros [Hl HI]. induction p as [|b p IH]; intros x fuel acc cnt Hp HF Hc Hn Hf.
  - destruct fuel as [|fuel]; [cbn in Hf; lia|]. cbn [get_path_loop].
    rewrite zlen_cons in Hn. change (zlen (@nil Z)) with 0 in Hn.
    destruct (Z.ltb_spec cnt N) as [_|]; [|lia].
    inversion HF; subst. destruct (Z.geb_spec x (zlen links)) as [|_]; [lia|].
    cbn [rpl] in Hp. unfold Tend in Hp.
    destruct (HI x ltac:(lia)) as [E|[E _]]; rewrite E.
    + cbn [dlink lend]. eexists. split; [reflexivity|cbn [snd]; lia].
    + unfold rawlink. destruct (Z.geb_spec (word x) FAT_END); [|lia].
      cbn [dlink lend]. eexists. split; [reflexivity|cbn [snd]; lia].
  - destruct fuel as [|fuel]; [cbn in Hf; lia|]. cbn [get_path_loop].
    rewrite zlen_cons in Hn. pose proof (zlen_nonneg (b :: p)) as Hbp. rewrite zlen_cons in Hbp.
    pose proof (zlen_nonneg p).
    destruct (Z.ltb_spec cnt N) as [_|]; [|rewrite zlen_cons in Hn; lia].
    inversion HF as [|? ? Hx HF']; subst. destruct (Z.geb_spec x (zlen links)) as [|_]; [lia|].
    cbn [rpl] in Hp. destruct Hp as (Hw & Hb & Hp).
    destruct (HI x ltac:(lia)) as [E|[E _]]; rewrite E.
    + cbn [dlink lend]. eexists. split; [reflexivity|cbn [snd]; rewrite zlen_cons in Hn; lia].
    + unfold rawlink. destruct (Z.geb_spec (word x) FAT_END); [lia|]. cbn [lend lnext]. rewrite Hw.
      apply IH; try assumption; try lia. cbn [length] in *. lia.
Qed.

Lemma get_path_never_fails links start :
  LInv links -> 0 <= start < N -> exists p, get_path N links start = Ok p.
Proof.
  intros HI Hs. pose proof HI as [Hl HIx]. unfold get_path.
  destruct (HIx start Hs) as [E|[E (p & Hp & HF & Hlen)]].
  - unfold get_path_fuel. cbn [get_path_loop].
    destruct (Z.ltb_spec 0 N) as [_|]; [|lia].
    destruct (Z.geb_spec start (zlen links)) as [|_]; [lia|]. rewrite E. cbn [dlink lend bind snd fst].
    destruct (Z.geb_spec 0 N); [lia|]. eexists. reflexivity.
  - destruct (get_path_loop_good links HI p start (get_path_fuel N) [] 0 Hp HF ltac:(lia) ltac:(lia))
      as (r & Er & Hr).
    { unfold get_path_fuel, zlen in *. lia. }
    rewrite Er. cbn [bind]. destruct (Z.geb_spec (snd r) N); [lia|]. eexists. reflexivity.
Qed.

Lemma roland_get_file_never_fails ver links entry top :
  roland_decode fat = Ok (ver, links) -> 0 <= entry < N ->
  exists secs, roland_get_file N links entry top = Ok secs.
Proof.
  intros Hd He. unfold roland_get_file.
  destruct (get_path_never_fails links entry (decode_linv ver links Hd) He) as (p & ->).
  cbn [bind]. eexists. reflexivity.
Qed.
End NoEscape.

(** * Bytes *)
Definition byte_image (img : list Z) : Prop := Forall (fun b => 0 <= b < 256) img.
Lemma znth_byte l o : byte_image l -> 0 <= znth 0 l o < 256.
Proof.
  intros H. unfold znth. destruct (Nat.lt_ge_cases (Z.to_nat o) (length l)) as [Hl|Hl].
  - unfold byte_image in H. rewrite Forall_forall in H. apply H. now apply nth_In.
  - rewrite nth_overflow by lia. lia.
Qed.
Lemma le16_range l o : byte_image l -> 0 <= le16_at l o < 65536.
Proof.
  intros H. unfold le16_at, byte_at. pose proof (znth_byte l o H). pose proof (znth_byte l (o + 1) H). lia.
Qed.
Lemma byte_image_slice l a b : byte_image l -> byte_image (slice l a b).
Proof.
  intros H. unfold byte_image, slice in *. rewrite Forall_forall in *. intros x Hx.
  apply H. set (m := skipn (Z.to_nat a) l) in *.
  assert (Hm : In x m) by (rewrite <- (firstn_skipn (Z.to_nat (b - a)) m); apply in_or_app; now left).
  unfold m in Hm. rewrite <- (firstn_skipn (Z.to_nat a) l). apply in_or_app. now right.
Qed.
Lemma words_from_nonneg img : byte_image img -> forall n a, Forall (fun w => 0 <= w) (words_from n img a).
Proof.
  intros H. induction n as [|n IH]; intros a; cbn [words_from]; constructor; [|apply IH].
  pose proof (le16_range img a H). lia.
Qed.
Lemma words_from_length img : forall n a, length (words_from n img a) = n.
Proof. induction n as [|n IH]; intros a; cbn [words_from length]; [reflexivity|now rewrite IH]. Qed.
Lemma fat_words_zlen ly img : 0 <= ly_nfat ly -> zlen (fat_words ly img) = ly_nfat ly.
Proof. intros H. unfold fat_words, zlen. rewrite words_from_length. lia. Qed.

Lemma parse_dir_record_start rec d : byte_image rec -> parse_dir_record rec = Ok d -> 0 <= de_fat_entry d < 65536.
Proof.
  intros Hb. unfold parse_dir_record. destruct (zlen rec <? 16); [discriminate|].
  destruct (padded_ascii _) as [n| |]; cbn [bind]; try discriminate.
  destruct (zlen rec <? DIR_REC); [discriminate|]. intros [= <-]. cbn [de_fat_entry]. now apply le16_range.
Qed.

(** With the link table of an accepted FAT of at least 65536 words, no reference escapes:
    every record error is swallowed and get_file succeeds for every 16-bit start cluster. *)
Lemma sample_ref_never_escapes ly img i ver links :
  byte_image img -> 0 <= ly_nfat ly -> 65536 <= ly_nfat ly ->
  roland_decode (fat_words ly img) = Ok (ver, links) ->
  forall img2, byte_image img2 ->
  escapes (sample_ref ly (ly_nfat ly) links img2 i) = false.
Proof.
  intros Hb Hn0 Hn Hd img2 Hb2. unfold sample_ref.
  destruct (parse_sample_entry ly img2 i) as [e|e|] eqn:Ee; cbn [bind].
  - assert (Hfe : 0 <= de_fat_entry (se_dir e) < 65536).
    { unfold parse_sample_entry in Ee. destruct (i <? 0); [discriminate|].
      destruct (negb (i <? ly_max ly)); [discriminate|].
      destruct (parse_dir_record (sample_dir_bytes ly img2 i)) as [d| |] eqn:Ed; cbn [bind] in Ee; try discriminate.
      destruct (parse_par_record _) as [p| |]; cbn [bind] in Ee; try discriminate.
      injection Ee as <-. cbn [se_dir].
      eapply parse_dir_record_start; [|exact Ed]. apply byte_image_slice. exact Hb2. }
    pose proof (fat_words_zlen ly img Hn0) as Hz.
    destruct (roland_get_file_never_fails (fat_words ly img) (words_from_nonneg img Hb _ _) ver links
                (de_fat_entry (se_dir e)) (sp_cluster_top (se_par e)) Hd ltac:(rewrite Hz; lia)) as (secs & Es).
    rewrite Hz in Es. rewrite Es. reflexivity.
  - (* a record's own error is a ConstructError *)
    unfold parse_sample_entry in Ee.
    destruct (i <? 0); [injection Ee as <-; reflexivity|].
    destruct (negb (i <? ly_max ly)); [injection Ee as <-; reflexivity|].
    assert (Hdir : forall rec e0, parse_dir_record rec = Err e0 -> e0 = ConstructErr).
    { intros rec e0. unfold parse_dir_record, padded_ascii. destruct (zlen rec <? 16); [congruence|].
      destruct (forallb _ _); cbn [bind]; [|congruence]. destruct (zlen rec <? DIR_REC); congruence. }
    assert (Hpar : forall rec e0, parse_par_record rec = Err e0 -> e0 = ConstructErr).
    { intros rec e0. unfold parse_par_record, padded_ascii. destruct (zlen rec <? 16); [congruence|].
      destruct (forallb _ _); cbn [bind]; [|congruence]. destruct (zlen rec <? PAR_REC); [congruence|].
      unfold frequency_of_code.
      repeat match goal with |- context [if ?c then _ else _] => destruct c; cbn [bind]; try congruence end. }
    destruct (parse_dir_record _) as [d|e0|] eqn:Ed; cbn [bind] in Ee.
    + destruct (parse_par_record _) as [p|e1|] eqn:Ep; cbn [bind] in Ee; try discriminate.
      injection Ee as <-. now rewrite (Hpar _ _ Ep).
    + injection Ee as <-. now rewrite (Hdir _ _ Ed).
    + discriminate.
  - (* no fuel in the record parser *)
    exfalso. unfold parse_sample_entry in Ee.
    destruct (i <? 0); [discriminate|]. destruct (negb (i <? ly_max ly)); [discriminate|].
    assert (Hdir : forall rec, parse_dir_record rec <> OutOfFuel).
    { intros rec. unfold parse_dir_record, padded_ascii. destruct (zlen rec <? 16); [congruence|].
      destruct (forallb _ _); cbn [bind]; [|congruence]. destruct (zlen rec <? DIR_REC); congruence. }
    assert (Hpar : forall rec, parse_par_record rec <> OutOfFuel).
    { intros rec. unfold parse_par_record, padded_ascii. destruct (zlen rec <? 16); [congruence|].
      destruct (forallb _ _); cbn [bind]; [|congruence]. destruct (zlen rec <? PAR_REC); [congruence|].
      unfold frequency_of_code.
      repeat match goal with |- context [if ?c then _ else _] => destruct c; cbn [bind]; try congruence end. }
    destruct (parse_dir_record _) as [d|e0|] eqn:Ed; cbn [bind] in Ee; try discriminate.
    + destruct (parse_par_record _) as [p|e1|] eqn:Ep; cbn [bind] in Ee; try discriminate.
      eapply Hpar; eassumption.
    + eapply Hdir; eassumption.
Qed.

Lemma entries_of_never_fails_lemma : forall ly img ver links img2 idx,
  byte_image img -> 65536 <= ly_nfat ly ->
  roland_decode (fat_words ly img) = Ok (ver, links) -> byte_image img2 ->
  exists L, entries_of ly (ly_nfat ly) links img2 idx = Ok L.
Proof.
  intros ly img ver links img2 idx Hb Hn Hd Hb2.
  induction idx as [|i t (r & IH)]; cbn [entries_of]; [eexists; reflexivity|].
  pose proof (sample_ref_never_escapes ly img i ver links Hb ltac:(lia) Hn Hd img2 Hb2) as He.
  unfold kept_ref. destruct (sample_ref ly (ly_nfat ly) links img2 i) as [x|e|]; cbn [escapes] in He.
  - cbn [bind]. rewrite IH. cbn [bind]. eexists. reflexivity.
  - destruct (swallowed e); [|discriminate]. cbn [bind]. rewrite IH. cbn [bind]. eexists. reflexivity.
  - discriminate.
Qed.

(** T3 without the escape case: the format's table size, the decoded link table, byte images *)
Lemma roland_listing_isolation_total_lemma : forall ly img img' k idx ver links,
  layout_ok ly -> 0 <= k < ly_max ly -> damaged_sample ly img img' k ->
  byte_image img -> byte_image img' -> 65536 <= ly_nfat ly ->
  roland_decode (fat_words ly img) = Ok (ver, links) ->
  roland_decode (fat_words ly img') = Ok (ver, links) /\
  exists L L', entries_of ly (ly_nfat ly) links img idx = Ok L /\
               entries_of ly (ly_nfat ly) links img' idx = Ok L' /\
               other_entries k L' = other_entries k L.
Proof.
  intros ly img img' k idx ver links Hly Hk Hdm Hb Hb' Hn Hd.
  split; [now rewrite (fat_words_same ly img img' k Hly Hk Hdm)|].
  destruct (entries_of_never_fails_lemma ly img ver links img idx Hb Hn Hd Hb) as (L & EL).
  destruct (entries_of_never_fails_lemma ly img ver links img' idx Hb Hn Hd Hb') as (L' & EL').
  exists L, L'. split; [exact EL|]. split; [exact EL'|].
  destruct (roland_listing_isolation_lemma ly (ly_nfat ly) links img img' k idx L Hly Hk Hdm EL)
    as [(L2 & E2 & HO)|(_ & _ & Hf)].
  - rewrite EL' in E2. injection E2 as <-. exact HO.
  - rewrite EL' in Hf. discriminate.
Qed.
