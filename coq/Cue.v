(** Model of smpl_extract/cuesheet.py (the three parse loops, get_nonempty_entry, the four
    line patterns), the cue-sheet routing of smpl_extract/actions.py and the track windows
    of smpl_extract/cdda/image.py (CompactDiskAudioImageAdapter.from_bin_cue).
    Text is 7-bit: a line is a list of character codes (cue files are opened with
    encoding="ascii"). *)
From SE Require Import Base Codecs.

(** * Character classes of Python's [re] on ASCII text *)
Definition is_ws (c : Z) : bool := is_space_c c.              (* \s == str.isspace on 0..127 *)
Definition lower_c (c : Z) : Z := if (65 <=? c) && (c <=? 90) then c + 32 else c.
Definition ci_eq (a b : Z) : bool := lower_c a =? lower_c b.   (* re.I on ASCII letters *)
(** [A-z\d\/] *)
Definition is_mode_c (c : Z) : bool := ((65 <=? c) && (c <=? 122)) || is_digit_c c || (c =? 47).

Fixpoint skip_ws (l : list Z) : list Z :=
  match l with c :: t => if is_ws c then skip_ws t else l | [] => [] end.
(** \s+ : at least one blank, then all of them *)
Definition ws1 (l : list Z) : option (list Z) :=
  match l with c :: t => if is_ws c then Some (skip_ws t) else None | [] => None end.
Fixpoint kw (k l : list Z) : option (list Z) :=
  match k, l with
  | [], _ => Some l
  | a :: k', b :: l' => if ci_eq a b then kw k' l' else None
  | _ :: _, [] => None
  end.
Fixpoint span (p : Z -> bool) (l : list Z) : list Z * list Z :=
  match l with
  | c :: t => if p c then let '(a, b) := span p t in (c :: a, b) else ([], l)
  | [] => ([], [])
  end.
Definition span1 (p : Z -> bool) (l : list Z) : option (list Z * list Z) :=
  match span p l with ([], _) => None | r => Some r end.
(** int() of a digit string *)
Definition int_of_digits (d : list Z) : Z := fold_left (fun a c => 10 * a + (c - 48)) d 0.

Definition K_TRACK := [84; 82; 65; 67; 75].
Definition K_TITLE := [84; 73; 84; 76; 69].
Definition K_INDEX := [73; 78; 68; 69; 88].
Definition K_FILE := [70; 73; 76; 69].
Definition K_BINARY := [66; 73; 78; 65; 82; 89].

Definition obind {A B} (o : option A) (f : A -> option B) : option B :=
  match o with Some a => f a | None => None end.

(** \s*TRACK\s+(\d+)\s+([A-z\d\/]+) *)
Definition m_track (l : list Z) : option (Z * list Z) :=
  obind (kw K_TRACK (skip_ws l)) (fun l1 =>
  obind (ws1 l1) (fun l2 =>
  obind (span1 is_digit_c l2) (fun dn =>
  obind (ws1 (snd dn)) (fun l3 =>
  obind (span1 is_mode_c l3) (fun mm => Some (int_of_digits (fst dn), fst mm)))))).

(** \s*INDEX\s+(\d+)\s+(\d+):(\d+):(\d+) *)
Definition colon (l : list Z) : option (list Z) :=
  match l with 58 :: t => Some t | _ => None end.
Definition m_index (l : list Z) : option (Z * Z * Z * Z) :=
  obind (kw K_INDEX (skip_ws l)) (fun l1 =>
  obind (ws1 l1) (fun l2 =>
  obind (span1 is_digit_c l2) (fun n =>
  obind (ws1 (snd n)) (fun l3 =>
  obind (span1 is_digit_c l3) (fun mi =>
  obind (colon (snd mi)) (fun l4 =>
  obind (span1 is_digit_c l4) (fun se =>
  obind (colon (snd se)) (fun l5 =>
  obind (span1 is_digit_c l5) (fun fr =>
    Some (int_of_digits (fst n), int_of_digits (fst mi), int_of_digits (fst se), int_of_digits (fst fr))))))))))).

(** \s*TITLE\s+\"(.*?)\" : up to the first following quote; [.] does not match newline *)
Fixpoint until_quote (l : list Z) : option (list Z * list Z) :=
  match l with
  | [] => None
  | c :: t => if c =? 34 then Some ([], t)
              else if c =? 10 then None
              else match until_quote t with Some (a, b) => Some (c :: a, b) | None => None end
  end.
Definition quote (l : list Z) : option (list Z) := match l with 34 :: t => Some t | _ => None end.
Definition m_title (l : list Z) : option (list Z) :=
  obind (kw K_TITLE (skip_ws l)) (fun l1 =>
  obind (ws1 l1) (fun l2 =>
  obind (quote l2) (fun l3 =>
  obind (until_quote l3) (fun r => Some (fst r))))).

(** \s*FILE\s+\"(.*?)\"\s+BINARY : the lazy group grows until a quote that IS followed by
    \s+BINARY *)
Definition after_name (t : list Z) : bool :=
  match obind (ws1 t) (kw K_BINARY) with Some _ => true | None => false end.
Fixpoint file_name (l : list Z) : option (list Z) :=
  match l with
  | [] => None
  | c :: t => if (c =? 34) && after_name t then Some []
              else if c =? 10 then None
              else match file_name t with Some a => Some (c :: a) | None => None end
  end.
Definition m_file (l : list Z) : option (list Z) :=
  obind (kw K_FILE (skip_ws l)) (fun l1 =>
  obind (ws1 l1) (fun l2 =>
  obind (quote l2) (fun l3 => file_name l3))).

(** * Parsed cue sheet *)
Record cindex := { ix_num : Z; ix_min : Z; ix_sec : Z; ix_frm : Z }.
Record ctrack := { t_num : Z; t_mode : list Z; t_title : option (list Z); t_indices : list cindex;
                   t_unparsed : list (list Z) }.
Record cue := { c_bin : list Z; c_tracks : list ctrack }.

(** the property loop of CueSheetTrackAdapter.parse: consumes lines until the next TRACK
    line (pushed back, stripped) or the end; blank lines are skipped (get_nonempty_entry) *)
Fixpoint track_body (lines : list (list Z)) (t : ctrack) : ctrack * list (list Z) :=
  match lines with
  | [] => (t, [])
  | l :: rest =>
      let text := strip l in
      match text with
      | [] => track_body rest t
      | _ =>
        match m_track text with
        | Some _ => (t, text :: rest)
        | None =>
          match m_index text with
          | Some (n, mi, se, fr) =>
              track_body rest {| t_num := t_num t; t_mode := t_mode t; t_title := t_title t;
                                 t_indices := t_indices t ++ [{| ix_num := n; ix_min := mi; ix_sec := se; ix_frm := fr |}];
                                 t_unparsed := t_unparsed t |}
          | None =>
            match m_title text with
            | Some ti =>
                track_body rest {| t_num := t_num t; t_mode := t_mode t; t_title := Some ti;
                                   t_indices := t_indices t; t_unparsed := t_unparsed t |}
            | None =>
                track_body rest {| t_num := t_num t; t_mode := t_mode t; t_title := t_title t;
                                   t_indices := t_indices t; t_unparsed := t_unparsed t ++ [text] |}
            end
          end
        end
      end
  end.

(** get_nonempty_entry: first non-blank line, stripped (or "" when none is left) *)
Fixpoint nonempty_entry (lines : list (list Z)) : list Z * list (list Z) :=
  match lines with
  | [] => ([], [])
  | l :: rest => match strip l with [] => nonempty_entry rest | t => (t, rest) end
  end.

Definition track_parse (lines : list (list Z)) : res (ctrack * list (list Z)) :=
  let '(text, rest) := nonempty_entry lines in
  match text with
  | [] => Err BadCueSheet
  | _ => match m_track text with
         | None => Err BadCueSheet
         | Some (n, mode) =>
             Ok (track_body rest {| t_num := n; t_mode := mode; t_title := None; t_indices := [];
                                    t_unparsed := [] |})
         end
  end.

(** the track loop of CueSheetFileAdapter.parse *)
Fixpoint file_tracks (fuel : nat) (lines : list (list Z)) (acc : list ctrack)
  : res (list ctrack * list (list Z)) :=
  match fuel with
  | O => OutOfFuel
  | S f =>
      match lines with
      | [] => Ok (acc, [])
      | _ =>
        let '(text, rest) := nonempty_entry lines in
        match text with
        | [] => Ok (acc, rest)
        | _ => r <- track_parse (text :: rest) ;; file_tracks f (snd r) (acc ++ [fst r])
        end
      end
  end.

Definition file_parse (lines : list (list Z)) : res (cue * list (list Z)) :=
  let '(text, rest) := nonempty_entry lines in
  match text with
  | [] => Err BadCueSheet
  | _ => match m_file text with
         | None => Err BadCueSheet
         | Some name =>
             r <- file_tracks (S (length rest)) rest [] ;;
             Ok ({| c_bin := name; c_tracks := fst r |}, snd r)
         end
  end.

(** parse_cue_sheet: every FILE entry is parsed, the first one is returned *)
Fixpoint cue_files (fuel : nat) (lines : list (list Z)) (acc : list cue) : res (list cue) :=
  match fuel with
  | O => OutOfFuel
  | S f =>
      match lines with
      | [] => Ok acc
      | _ =>
        let '(text, rest) := nonempty_entry lines in
        match m_file text with
        | Some _ => r <- file_parse (text :: rest) ;; cue_files f (snd r) (acc ++ [fst r])
        | None => cue_files f rest acc
        end
      end
  end.
Definition parse_cue_sheet (lines : list (list Z)) : res cue :=
  fs <- cue_files (S (length lines)) lines [] ;;
  match fs with [] => Err BadCueSheet | c :: _ => Ok c end.

(** parse_text_file's ASCII gate: any byte >= 128 means "not a text file" *)
Definition is_ascii_text (bytes : list Z) : bool := forallb (fun b => b <? 128) bytes.

(** * Routing (attempt_parse_cue_sheet) *)
Definition AUDIO_LC := [97; 117; 100; 105; 111].
Fixpoint str_eqb (a b : list Z) : bool :=
  match a, b with
  | [], [] => true
  | x :: a', y :: b' => (x =? y) && str_eqb a' b'
  | _, _ => false
  end.
Definition is_audio (t : ctrack) : bool := str_eqb (map lower_c (t_mode t)) AUDIO_LC.
Inductive route := RSampler | RCdda.
Definition cue_route (c : cue) : route :=
  if existsb (fun t => negb (is_audio t)) (c_tracks c) then RSampler else RCdda.

(** * CDDA track windows *)
Definition frames_of_index (i : cindex) : Z := 75 * (60 * ix_min i + ix_sec i) + ix_frm i.
Definition BYTES_PER_FRAME : Z := 2352.
Record window := { w_title : option (list Z); w_number : Z; w_off : Z; w_size : Z; w_samples : Z }.

(** the pairwise walk of from_bin_cue; [i] counts emitted tracks *)
Fixpoint cdda_walk (cur : ctrack) (rest : list ctrack) (i : Z) (eof : Z) : list window :=
  match rest with
  | nxt :: rest' =>
      match t_indices cur, t_indices nxt with
      | ci :: _, ni :: _ =>
          let cf := frames_of_index ci in
          let nf := frames_of_index ni in
          {| w_title := t_title cur; w_number := i + 1; w_off := BYTES_PER_FRAME * cf;
             w_size := BYTES_PER_FRAME * (nf - cf); w_samples := 588 * (nf - cf) |}
          :: cdda_walk nxt rest' (i + 1) eof
      | _, _ => cdda_walk cur rest' i eof
      end
  | [] =>
      match t_indices cur with
      | ci :: _ =>
          let off := BYTES_PER_FRAME * frames_of_index ci in
          let size := eof - off in
          [{| w_title := t_title cur; w_number := i + 1; w_off := off; w_size := size;
              w_samples := 588 * (size / BYTES_PER_FRAME) |}]
      | [] => []
      end
  end.
Definition cdda_windows (c : cue) (eof : Z) : list window :=
  match filter is_audio (c_tracks c) with
  | [] => []
  | t :: rest => cdda_walk t rest 0 eof
  end.

(** a track's PCM: the window of the bin, clipped at the end of the file, truncated to whole
    4-byte frames (pass-through transcoder over a StreamOffset; a window of size 0 is
    unbounded in the implementation: StreamWrapper clips only when end_of_file > 0) *)
Definition track_pcm (bin : list Z) (w : window) : list Z :=
  let raw := if w_size w >? 0 then slice bin (w_off w) (w_off w + w_size w)
             else slice bin (w_off w) (zlen bin) in
  firstn (Z.to_nat ((zlen raw / 4) * 4)) raw.
