(** Model of "parse the sample entries a performance references, from the image bytes":
    smpl_extract/roland/s7xx/directory_area.py (DirectoryEntryStruct, 32 bytes),
    sample_entry.py (SampleParamEntryStruct, 48 bytes; SampleEntryConstruct: index validator,
    the two Pointer addresses; SampleEntryAdapter._decode_element: fat.get_file),
    partial_entry.py (SampleEntryReferenceAdapter: negative selection; the tolerant loop of
    PartialEntryAdapter._parse which swallows ConstructError / UnicodeDecodeError and drops
    just that reference), sample_file.py (SampleFileListAdapter) and
    performance_entry.py (PerformanceEntry.files = programs + samples, named by the two
    naming routines over ALL of them together).

    The table geometry is a parameter ([rlayout]) so that the correspondence run can use a
    scaled-down image (and every theorem holds for every geometry that satisfies
    [layout_ok]); [real_layout] is the S-7xx format's.

    Errors.  Every failure inside one record's parse is a construct.ConstructError
    (StreamError: image too short for the record; StringError: a name byte >= 0x80 -
    construct 2.10.70 wraps the UnicodeDecodeError; MappingError: frequency nibble 6..15;
    ValidationError: index >= 0x2000; the bare ConstructError for a negative selection):
    [Err ConstructErr], swallowed by the loop = the entry is dropped.  What
    fat.get_file raises (RequestedInvalidSector, InvalidFatDefinition) is none of the classes
    the loop - or the SafeListConstruct around the partial - catches: it escapes and the whole
    listing fails ([entries_of] returns it).  With the format's table (65536 links, 16-bit
    start cluster, links installed by an accepted decode) get_file cannot raise; the model
    keeps the case because table size and links are parameters.  No proofs here. *)
From SE Require Import Base Codecs Fat Stream Roland Names.

(** * Bytes *)
Definition byte_at (l : list Z) (o : Z) : Z := znth 0 l o.
Definition le16_at (l : list Z) (o : Z) : Z := byte_at l o + 256 * byte_at l (o + 1).
Definition le32_at (l : list Z) (o : Z) : Z := le16_at l o + 65536 * le16_at l (o + 2).

(** PaddedString(16, "ascii"): trailing NUL bytes stripped, then bytes.decode("ascii") *)
Fixpoint drop_nul (l : list Z) : list Z :=
  match l with
  | c :: t => if c =? 0 then drop_nul t else l
  | [] => []
  end.
Definition rstrip_nul (l : list Z) : list Z := rev (drop_nul (rev l)).
Definition padded_ascii (raw : list Z) : res (list Z) :=
  let s := rstrip_nul raw in
  if forallb (fun c => c <? 128) s then Ok s else Err ConstructErr.

(** * The directory record (DirectoryEntryStruct; the two link words, the link id and the
    reserved word, which nothing reads for a sample, are left out) *)
Record rdirent := {
  de_name : list Z; de_type : Z; de_attr : Z; de_fat_entry : Z; de_nclusters : Z }.
(** MappingDefault(Int8ul, {0x40..0x44}, default NONE = 0) *)
Definition file_type_of_byte (b : Z) : Z := if (64 <=? b) && (b <=? 68) then b else 0.
Definition DIR_REC : Z := 32.
Definition PAR_REC : Z := 48.
Definition parse_dir_record (rec : list Z) : res rdirent :=
  if zlen rec <? 16 then Err ConstructErr else
  name <- padded_ascii (firstn 16 rec) ;;
  if zlen rec <? DIR_REC then Err ConstructErr else
  Ok {| de_name := name; de_type := file_type_of_byte (byte_at rec 16); de_attr := byte_at rec 17;
        de_fat_entry := le16_at rec 28; de_nclusters := le16_at rec 30 |}.

(** * The parameter record (SampleParamEntryStruct) *)
Record rsampar := {
  sp_name : list Z;
  sp_points : rpoints;        (* the five addresses (raw >> 8) *)
  sp_fines : list Z;          (* the five fine parts (raw & 255) *)
  sp_mode : Z;                (* RolandLoopMode 0..6, default FORWARD_END *)
  sp_sus_enable : Z; sp_sus_tune : Z; sp_rel_tune : Z;
  sp_cluster_top : Z; sp_nclusters : Z;
  sp_sample_mode : Z;         (* high nibble: MONO 0 / STEREO 1, default MONO *)
  sp_freq : Z;                (* low nibble through the frequency table *)
  sp_key : note               (* RolandMidiNote(Int8ul) *)
}.
Definition sample_mode_of_nibble (n : Z) : Z := if n =? 1 then 1 else 0.
Definition parse_par_record (rec : list Z) : res rsampar :=
  if zlen rec <? 16 then Err ConstructErr else
  name <- padded_ascii (firstn 16 rec) ;;
  if zlen rec <? PAR_REC then Err ConstructErr else
  let raw := map (fun o => le32_at rec o) [16; 20; 24; 28; 32] in
  let opt := byte_at rec 44 in
  freq <- frequency_of_code (opt mod 16) ;;
  Ok {| sp_name := name;
        sp_points := {| p_start := point_address (le32_at rec 16);
                        p_sus_start := point_address (le32_at rec 20);
                        p_sus_end := point_address (le32_at rec 24);
                        p_rel_start := point_address (le32_at rec 28);
                        p_rel_end := point_address (le32_at rec 32) |};
        sp_fines := map point_fine raw;
        sp_mode := loop_mode_of_byte (byte_at rec 36);
        sp_sus_enable := byte_at rec 37; sp_sus_tune := byte_at rec 38; sp_rel_tune := byte_at rec 39;
        sp_cluster_top := le16_at rec 40; sp_nclusters := le16_at rec 42;
        sp_sample_mode := sample_mode_of_nibble (opt / 16);
        sp_freq := freq;
        sp_key := from_midi_byte (byte_at rec 45) |}.

(** * Table geometry *)
Record rlayout := {
  ly_max : Z;      (* MAX_NUM_SAMPLE *)
  ly_dbase : Z;    (* SAMPLE_DIRECTORY_AREA_OFFSET *)
  ly_pbase : Z;    (* SAMPLE_PARAMETER_AREA_OFFSET *)
  ly_fat : Z;      (* FAT_AREA_OFFSET *)
  ly_nfat : Z;     (* FAT_NUM_ENTRIES *)
  ly_L : Z;        (* ROLAND_CLUSTER_SIZE *)
  ly_doff : Z      (* DATA_FAT_OFFSET *)
}.
Definition FAT_AREA_OFFSET : Z := 526336.       (* 0x80800 *)
Definition FAT_NUM_ENTRIES : Z := 65536.
Definition real_layout : rlayout :=
  {| ly_max := max_num KSample; ly_dbase := dir_area KSample; ly_pbase := par_area KSample;
     ly_fat := FAT_AREA_OFFSET; ly_nfat := FAT_NUM_ENTRIES; ly_L := CLUSTER_SIZE; ly_doff := DATA_FAT_OFFSET |}.
(** the areas follow one another: FAT, sample directory table, sample parameter table, and
    cluster 2 (the first the format allocates) begins where the parameter table ends *)
Definition layout_ok (ly : rlayout) : Prop :=
  0 <= ly_max ly /\ 0 <= ly_fat ly /\ 0 <= ly_nfat ly /\
  ly_fat ly + 2 * ly_nfat ly <= ly_dbase ly /\
  ly_dbase ly + DIR_REC * ly_max ly <= ly_pbase ly /\
  ly_pbase ly + PAR_REC * ly_max ly <= ly_doff ly + 2 * ly_L ly /\
  0 < ly_L ly.

Definition dir_rec_offset (ly : rlayout) (i : Z) : Z := DIR_REC * i + ly_dbase ly.
Definition par_rec_offset (ly : rlayout) (i : Z) : Z := PAR_REC * i + ly_pbase ly.
(** what Pointer(offset, subcon) hands the record parser: the bytes from the record's address
    (short when the image ends inside the record) *)
Definition sample_dir_bytes (ly : rlayout) (img : list Z) (i : Z) : list Z :=
  slice img (dir_rec_offset ly i) (dir_rec_offset ly i + DIR_REC).
Definition sample_par_bytes (ly : rlayout) (img : list Z) (i : Z) : list Z :=
  slice img (par_rec_offset ly i) (par_rec_offset ly i + PAR_REC).

(** * One sample reference *)
Record sentry := { se_index : Z; se_dir : rdirent; se_par : rsampar }.
(** SampleEntryReferenceAdapter (selection < 0) + SampleEntryConstruct (validator, directory
    first, then parameter) *)
Definition parse_sample_entry (ly : rlayout) (img : list Z) (i : Z) : res sentry :=
  if i <? 0 then Err ConstructErr
  else if negb (i <? ly_max ly) then Err ConstructErr
  else
    d <- parse_dir_record (sample_dir_bytes ly img i) ;;
    p <- parse_par_record (sample_par_bytes ly img i) ;;
    Ok {| se_index := i; se_dir := d; se_par := p |}.
(** ... + SampleEntryAdapter: the cluster list of the entry's data stream *)
Definition sample_ref (ly : rlayout) (N : Z) (links : list link) (img : list Z) (i : Z)
  : res (sentry * list Z) :=
  e <- parse_sample_entry ly img i ;;
  secs <- roland_get_file N links (de_fat_entry (se_dir e)) (sp_cluster_top (se_par e)) ;;
  Ok (e, secs).

(** * The tolerant loop *)
(** except (ConstructError, UnicodeDecodeError): continue *)
Definition swallowed (e : exn) : bool := match e with ConstructErr => true | _ => false end.
(** what one reference contributes: nothing (dropped), one entry, or an escaping failure *)
Definition kept_ref (ly : rlayout) (N : Z) (links : list link) (img : list Z) (i : Z)
  : res (list (sentry * list Z)) :=
  match sample_ref ly N links img i with
  | Ok x => Ok [x]
  | Err e => if swallowed e then Ok [] else Err e
  | OutOfFuel => OutOfFuel
  end.
Fixpoint entries_of (ly : rlayout) (N : Z) (links : list link) (img : list Z) (idx : list Z)
  : res (list (sentry * list Z)) :=
  match idx with
  | [] => Ok []
  | i :: t =>
      x <- kept_ref ly N links img i ;;
      r <- entries_of ly N links img t ;;
      Ok (x ++ r)
  end.
(** the sample files of performance [p]: [perf_samples] (Roland.v: per patch, the four slots
    of its partials in order, first occurrence of each index), entries that fail to parse
    dropped (dropping commutes with the per-patch de-duplication: a reference's outcome
    depends on its index only) *)
Definition roland_perf_entries (ly : rlayout) (N : Z) (links : list link) (img : list Z)
           (d : rdisk) (p : Z) : res (list (sentry * list Z)) :=
  entries_of ly N links img (perf_samples d p).

(** * Names *)
Definition entry_name (x : sentry * list Z) : list Z := de_name (se_dir (fst x)).
(** PerformanceEntry.files = programs (one per patch) + samples; all are files *)
Definition perf_elems (progs : list (list Z)) (L : list (sentry * list Z)) : list (list Z * bool) :=
  map (fun n => (n, true)) progs ++ map (fun x => (entry_name x, true)) L.
Definition perf_listed_names (f : list Z -> bool -> list Z) (progs : list (list Z))
           (L : list (sentry * list Z)) : res (list (list Z)) :=
  sanitize_names f (perf_elems progs L).

(** * Exported bytes *)
Fixpoint words_from (n : nat) (img : list Z) (a : Z) : list Z :=
  match n with O => [] | S n => le16_at img a :: words_from n img (a + 2) end.
(** Int16ul[FAT_NUM_ENTRIES] at FAT_AREA_OFFSET (an image that ends inside the FAT area is
    rejected when it is opened; here missing bytes read as 0) *)
Definition fat_words (ly : rlayout) (img : list Z) : list Z :=
  words_from (Z.to_nat (ly_nfat ly)) img (ly_fat ly).
(** readall() of the stream SampleFile.to_generalized builds for a parsed entry *)
Definition entry_pcm (ly : rlayout) (img : list Z) (e : sentry) : res (list Z) :=
  roland_sample_pcm (ly_L ly) (ly_doff ly) (fat_words ly img) img
    (de_fat_entry (se_dir e)) (sp_cluster_top (se_par e)) (sp_mode (se_par e)) (sp_points (se_par e)).
Definition sample_pcm (ly : rlayout) (img : list Z) (i : Z) : res (list Z) :=
  e <- parse_sample_entry ly img i ;; entry_pcm ly img e.

(** * Damage confined to one sample's records *)
Definition in_dir_rec (ly : rlayout) (k a : Z) : Prop := dir_rec_offset ly k <= a < dir_rec_offset ly k + DIR_REC.
Definition in_par_rec (ly : rlayout) (k a : Z) : Prop := par_rec_offset ly k <= a < par_rec_offset ly k + PAR_REC.
(** [img'] has the length of [img] and the same byte at every address outside the directory
    record and the parameter record of sample [k] (inside them: anything) *)
Definition damaged_sample (ly : rlayout) (img img' : list Z) (k : Z) : Prop :=
  zlen img' = zlen img /\
  forall a, 0 <= a -> ~ in_dir_rec ly k a -> ~ in_par_rec ly k a -> znth 0 img' a = znth 0 img a.
(** the constructive form: [rep] written over the bytes from address [a] *)
Definition splice (img : list Z) (a : Z) (rep : list Z) : list Z :=
  firstn (Z.to_nat a) img ++ rep ++ skipn (Z.to_nat a + length rep) img.
