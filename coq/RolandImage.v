(** Whole-image model of the Roland S-7xx reader and exporter: what `export` (and `ls`) do on
    the bytes of one image, composing

      smpl_extract/roland/s7xx/image.py          id area counters, FAT area, volume list
      smpl_extract/roland/s7xx/fat.py            FatAreaAdapter._decode (acceptance), get_file
      smpl_extract/roland/s7xx/directory_area.py 32-byte directory entries
      smpl_extract/roland/s7xx/{volume,performance,patch,partial,sample}_entry.py
                                                 record addressing, pointer lists, SafeListConstruct
                                                 skipping of entries that do not parse, the orphan
                                                 pseudo volume
      smpl_extract/roland/s7xx/sample_file.py    window of the loop mode, reversal, per-patch
                                                 de-duplication of sample files
      smpl_extract/roland/s7xx/performance_entry.py  files = programs (one per patch) + samples
      smpl_extract/structural.py                 naming routines (Names.v), combine_stereo,
                                                 ExportManager (one failing sample does not stop
                                                 the others)
      smpl_extract/util/{fat,sector,stream}.py   through their LOGICAL content (see below)

    with the layer models of Roland.v (addresses, pointer filters, window functions), Fat.v,
    Names.v and Transcode.v.

    Two things differ from the layer models, for speed (the model runs on every generated
    3 MB image):

    - the image is read through [rd off n] (the bytes [off, off+n) clipped at the end of the
      image), a parameter: the theorems instantiate it with [slice img], the extracted driver
      with a reader over the sparse encoding of the image ([sparse_rd]);
    - the FAT is NOT decoded into the 65536-entry link table: [raw_fat_check] tests on the raw
      words what FatAreaAdapter._decode accepts, and [raw_get_path] follows a chain in the raw
      words.  RolandImageProofs.v shows that this is the same as decoding the whole table
      ([Fat.roland_decode]) and walking it ([Fat.get_path]).

    The byte streams (StreamOffset / StreamReversed over the chained RolandFile over the data
    window) are represented by their content, in closed form, also for damaged records (window
    outside the file, empty or negative window, no cluster left after cluster_top, cluster
    outside the image): see [stream_content].  That the real views deliver this content is
    theorem roland_readall (C02/C08) for windows inside the file; for the damaged cases it is
    validated by the correspondence run only.

    Not modelled: the regular-expression test of the three id strings
    (is_roland_s7xx_image) - the model is about images that test accepted.
    Bytes are integers 0..255.  No proofs here. *)
From SE Require Import Base Fat Stream Transcode Names Roland.
From SE Require AkaiImage.

Definition FAT_AREA_OFFSET : Z := 526336.     (* 0x80800 *)
Definition FAT_ENTRIES : Z := 65536.          (* FAT_NUM_ENTRIES *)

(** * 1. The raw FAT *)
(** outcome of the decoder's inner walk from one cluster, as a function of the raw words:
    [WFree]: the start is free / reserved (nothing happens); [WChain c]: the walk reaches an end
    mark, [c] = the clusters walked (they get installed); [WOut]: the walk leaves the table
    (nothing is installed; impossible with 16-bit words in a 65536-entry table); [WBad]: the
    decoder raises ConstructError (error flag, free / reserved word in the middle of a chain,
    more than N clusters = loop). *)
Inductive wres := WFree | WChain (c : list Z) | WOut | WBad.

Fixpoint raw_walk (fuel : nat) (fat : list Z) (N sub : Z) (first : bool) : wres :=
  match fuel with
  | O => if sub >=? N then WOut else WBad        (* the (N+1)-th cluster of a path: "loop" *)
  | S f =>
      if sub >=? N then WOut else
      let v := znth 0 fat sub in
      if v =? FAT_ERROR then WBad
      else if (v =? FAT_RESERVED) || (v =? FAT_FREE) then (if first then WFree else WBad)
      else if v >=? FAT_END then WChain [sub]
      else match raw_walk f fat N v false with
           | WChain c => WChain (sub :: c)
           | WFree => WBad
           | r => r
           end
  end.
(** fuel: a path of more than N clusters is rejected *)
Definition raw_walk_fuel (N : Z) : nat := Z.to_nat N.

Definition start_ok (fat : list Z) (N i : Z) : bool :=
  match raw_walk (raw_walk_fuel N) fat N i true with WBad => false | _ => true end.
(** for i in range(i0, i0 + n); [rest] = the words from i0 on (so that a free word costs O(1)) *)
Fixpoint starts_ok (n : nat) (rest : list Z) (fat : list Z) (N i : Z) : bool :=
  match n with
  | O => true
  | S n' =>
      match rest with
      | [] => true
      | v :: t =>
          (if (v =? FAT_RESERVED) || (v =? FAT_FREE) then true else start_ok fat N i)
          && starts_ok n' t fat N (i + 1)
      end
  end.
(** FatAreaAdapter._decode without building the table: id word, version flags, and every start
    the decoder could walk from is walked.  (The decoder skips a start that an earlier walk
    visited; such a start lies on a path that was accepted, so is its rest.) *)
Definition raw_fat_check (fat : list Z) : res Z :=
  let N := zlen fat in
  if negb (znth 0 fat 0 =? FAT_AREA_ID) then Err ConstructErr else
  ver <- roland_version (znth 0 fat (N - 2)) (znth 0 fat (N - 1)) ;;
  if starts_ok (Z.to_nat (N - 9 - 2)) (skipn 2 fat) fat N 2 then Ok ver else Err ConstructErr.

(** get_path on the table the decoder would have built: a cluster the decoder never linked
    (free, reserved, outside the scanned range) is a one-cluster path (SectorLink() ends) *)
Definition raw_get_path (fat : list Z) (entry : Z) : res (list Z) :=
  let N := zlen fat in
  if entry >=? N then Err RequestedInvalidSector else
  if (2 <=? entry) && (entry <? N - 9) then
    match raw_walk (raw_walk_fuel N) fat N entry true with
    | WChain c => Ok c
    | WBad => Err InvalidFatDefinition          (* not reached when [raw_fat_check] passed *)
    | _ => Ok [entry]
    end
  else Ok [entry].
Definition raw_get_file (fat : list Z) (entry top : Z) : res (list Z) :=
  p <- raw_get_path fat entry ;;
  Ok (if top >? 0 then skipn (Z.to_nat top) p else p).

(** * 2. Fields *)
Definition u8 := AkaiImage.u8.
Definition u16 := AkaiImage.u16.
Definition u32 := AkaiImage.u32.
Definition s16 (l : list Z) (o : Z) : Z := let v := u16 l o in if v >=? 32768 then v - 65536 else v.
Definition s16_table (b : list Z) (o : Z) (count : nat) : list Z :=
  map (fun k => s16 b (o + 2 * Z.of_nat k)) (seq 0 count).

(** PaddedString(16, "ascii"): trailing NULs stripped; a byte >= 0x80 does not decode *)
Fixpoint rstrip0 (l : list Z) : list Z :=
  match l with
  | [] => []
  | c :: t => match rstrip0 t with
              | [] => if c =? 0 then [] else [c]
              | r => c :: r
              end
  end.
Definition pstring (b : list Z) : option (list Z) :=
  let s := rstrip0 b in if forallb (fun c => c <? 128) s then Some s else None.

(** [Stream.rev_samples] with a linear list reversal ([List.rev] is quadratic) *)
Definition rev_samples_fast (w : Z) (l : list Z) : list Z :=
  concat (rev_append (chunks (length l) (Z.to_nat w) l) []).

(** one output of the export *)
Definition wavfile := AkaiImage.wavfile.
Definition filter_map {A B} := @AkaiImage.filter_map A B.

(** res-valued map *)
Fixpoint map_res {A B} (f : A -> res B) (l : list A) : res (list B) :=
  match l with
  | [] => Ok []
  | x :: t => y <- f x ;; r <- map_res f t ;; Ok (y :: r)
  end.
Fixpoint cat_options {A} (l : list (option A)) : list A :=
  match l with [] => [] | Some x :: t => x :: cat_options t | None :: t => cat_options t end.

Record dirent := { de_name : list Z; de_type : Z; de_fat : Z }.
(** a sample file of a performance: number, directory name, rate, content of its data stream
    ([Err]: reading it raises) *)
Record rsample := { rs_index : Z; rs_name : list Z; rs_rate : Z; rs_data : res (list Z) }.
Record rperf := { pf_index : Z; pf_name : list Z; pf_programs : list (list Z); pf_samples : list rsample }.
Record rvol := { vl_index : Z; vl_name : list Z; vl_perfs : list rperf }.

Definition ALL_PERFORMANCES : list Z :=      (* "All Performances" *)
  [65; 108; 108; 32; 80; 101; 114; 102; 111; 114; 109; 97; 110; 99; 101; 115].
Definition ORPHAN_NAME : list Z :=           (* "_Orphan_perf" *)
  [95; 79; 114; 112; 104; 97; 110; 95; 112; 101; 114; 102].
Definition TYPE_PERFORMANCE : Z := 65.       (* 0x41 *)

Section Image.
(** length of the image, and its reader *)
Variable ilen : Z.
Variable rd : Z -> Z -> list Z.

(** a read that construct completes (StreamError otherwise) *)
Definition rd_opt (off n : Z) : option (list Z) :=
  if (0 <=? off) && (off + n <=? ilen) then Some (rd off n) else None.

(** ** Records *)
(** DirectoryEntryParser at the entry of record [i] of kind [k] *)
Definition parse_dirent (k : rkind) (i : Z) : option dirent :=
  match rd_opt (dir_offset k i) DIR_ENTRY_SIZE with
  | Some b =>
      match pstring (firstn 16 b) with
      | Some nm => Some {| de_name := nm; de_type := u8 b 16; de_fat := u16 b 28 |}
      | None => None
      end
  | None => None
  end.
(** where the pointer list of a volume / performance / patch parameter record lies *)
Definition ptr_table (k : rkind) : Z * nat :=
  match k with
  | KVolume => (32, 64%nat)
  | KPerformance => (256, 32%nat)
  | KPatch => (256, 88%nat)
  | _ => (0, 0%nat)
  end.
(** {Volume,Performance,Patch}EntryConstruct(i): Some (directory name, filtered pointer list);
    None = an exception SafeListConstruct swallows (index validator, short read, name that is
    not ascii) *)
Definition parse_node (k : rkind) (i : Z) : option (list Z * list Z) :=
  if index_valid k i then
    match parse_dirent k i, rd_opt (par_offset k i) (par_size k) with
    | Some d, Some b =>
        match pstring (firstn 16 b) with
        | Some _ => Some (de_name d, ptr_filter (s16_table b (fst (ptr_table k)) (snd (ptr_table k))))
        | None => None
        end
    | _, _ => None
    end
  else None.
(** PartialEntryConstruct(t): the four raw sample selections *)
Definition parse_partial (t : Z) : option (list Z) :=
  if index_valid KPartial t then
    match parse_dirent KPartial t, rd_opt (par_offset KPartial t) (par_size KPartial) with
    | Some _, Some b =>
        match pstring (firstn 16 b) with
        | Some _ => Some [s16 b 16; s16 b 32; s16 b 48; s16 b 64]
        | None => None
        end
    | _, _ => None
    end
  else None.

(** ** The data stream of a sample, by content *)
Definition BLOCK : Z := 4096.       (* bytes per read of the transcoder: 2048 frames of one 16-bit channel *)
(** how many of the 9216 bytes of cluster [c] lie inside the image *)
Definition cluster_have (c : Z) : Z := Z.max 0 (Z.min CLUSTER_SIZE (ilen - cluster_offset c)).
Definition cluster_bytes (c : Z) : list Z := rd (cluster_offset c) CLUSTER_SIZE.
(** [l] = the clusters of the file from the one that starts at file offset [pos] on.
    [first_gap]: the first offset in [lo, hi) whose byte lies outside the image, [hi] if there
    is none; [last_gap]: the last such offset, [acc] if there is none. *)
Fixpoint first_gap (l : list Z) (pos lo hi : Z) : Z :=
  match l with
  | [] => hi
  | c :: t =>
      if hi <=? pos then hi else
      let g := pos + cluster_have c in
      if (g <? pos + CLUSTER_SIZE) && (g <? hi) then Z.max lo g
      else first_gap t (pos + CLUSTER_SIZE) lo hi
  end.
Fixpoint last_gap (l : list Z) (pos lo hi acc : Z) : Z :=
  match l with
  | [] => acc
  | c :: t =>
      if hi <=? pos then acc else
      let g := pos + cluster_have c in
      let acc' := if (g <? pos + CLUSTER_SIZE) && (Z.max lo g <? hi)
                  then Z.min hi (pos + CLUSTER_SIZE) - 1 else acc in
      last_gap t (pos + CLUSTER_SIZE) lo hi acc'
  end.
(** bytes [a, b) of the chained file, all inside the image ([0 <= a < b <= 9216 * |secs|]) *)
Definition file_bytes (secs : list Z) (a b : Z) : list Z :=
  let k0 := a / CLUSTER_SIZE in
  let k1 := (b - 1) / CLUSTER_SIZE in
  slice (concat (map cluster_bytes (slice secs k0 (k1 + 1)))) (a - k0 * CLUSTER_SIZE) (b - k0 * CLUSTER_SIZE).
(** what the transcoder gets from the stream SampleFile.to_generalized builds, reading blocks
    of 4096 bytes until an empty block:
    - no cluster left after cluster_top: the first read indexes an empty list (IndexError);
    - forward modes: the window clipped at the end of the file; a window of size <= 0 is not
      clipped by StreamOffset and runs to the end of the file;
    - reverse modes: the window must be non-empty (BadReadSize) and lie inside the file (a read
      that comes back short makes numpy's reshape raise), the blocks are read from its end;
    - a block that needs a byte outside the image raises SectorReadError, which the transcoder
      takes as the end of the data: the blocks before it are kept. *)
Definition stream_content (secs : list Z) (w : rparams) : res (list Z) :=
  match secs with
  | [] => Err IndexErr
  | _ =>
      let flen := CLUSTER_SIZE * zlen secs in
      let lo := w_off w in
      if w_rev w then
        if w_size w >? 0 then
          let hi := lo + w_size w in
          if hi <=? flen then
            let k0 := lo / CLUSTER_SIZE in
            let q := last_gap (skipn (Z.to_nat k0) secs) (k0 * CLUSTER_SIZE) lo hi (-1) in
            let n := if q <? lo then hi - lo else ((hi - 1 - q) / BLOCK) * BLOCK in
            Ok (if n <=? 0 then [] else rev_samples_fast SAMPLE_WIDTH (file_bytes secs (hi - n) hi))
          else
            (* the first block (the window's tail) is clipped at the end of the file: a missing
               byte in what is left of it ends the data at once, otherwise the short block
               makes numpy's reshape raise *)
            let a := hi - Z.min (w_size w) BLOCK in
            if a <? flen then
              let k0 := a / CLUSTER_SIZE in
              if first_gap (skipn (Z.to_nat k0) secs) (k0 * CLUSTER_SIZE) a flen >=? flen
              then Err ValueErr else Ok []
            else Err ValueErr
        else Err BadReadSize
      else
        let hi := if w_size w >? 0 then Z.min (lo + w_size w) flen else flen in
        if hi <=? lo then Ok [] else
        let k0 := lo / CLUSTER_SIZE in
        let p := first_gap (skipn (Z.to_nat k0) secs) (k0 * CLUSTER_SIZE) lo hi in
        let n := if p >=? hi then hi - lo else ((p - lo) / BLOCK) * BLOCK in
        Ok (if n <=? 0 then [] else file_bytes secs lo (lo + n))
  end.

(** SampleEntryConstruct(s) + SampleEntryAdapter + SampleFile.to_generalized.  Ok None: an
    exception PartialEntryAdapter swallows.  Err: one it does not (get_file; not reached for a
    table that passed the check). *)
Definition parse_sample (fat : list Z) (s : Z) : res (option rsample) :=
  if (0 <=? s) && index_valid KSample s then
    match parse_dirent KSample s, rd_opt (par_offset KSample s) (par_size KSample) with
    | Some d, Some b =>
        match pstring (firstn 16 b), frequency_of_code (u8 b 44 mod 16) with
        | Some _, Ok rate =>
            secs <- raw_get_file fat (de_fat d) (u16 b 40) ;;
            let pts := {| p_start := point_address (u32 b 16); p_sus_start := point_address (u32 b 20);
                          p_sus_end := point_address (u32 b 24); p_rel_start := point_address (u32 b 28);
                          p_rel_end := point_address (u32 b 32) |} in
            Ok (Some {| rs_index := s; rs_name := de_name d; rs_rate := rate;
                        rs_data := stream_content secs (get_params (loop_mode_of_byte (u8 b 36)) pts) |})
        | _, _ => Ok None
        end
    | _, _ => Ok None
    end
  else Ok None.

(** ** The tree *)
(** sample numbers of a patch in the order SampleFileListAdapter meets them, each once *)
Definition patch_sample_numbers (partial_ptrs : list Z) : list Z :=
  dedupe [] (flat_map (fun t => match parse_partial t with
                                | Some sel => filter (fun s => 0 <=? s) sel
                                | None => []
                                end) partial_ptrs).
Definition patch_samples_img (fat : list Z) (partial_ptrs : list Z) : res (list rsample) :=
  r <- map_res (parse_sample fat) (patch_sample_numbers partial_ptrs) ;; Ok (cat_options r).
(** PerformanceEntry.files: the programs of all patches, then the samples patch by patch *)
Definition parse_perf (fat : list Z) (p : Z) : res (option rperf) :=
  match parse_node KPerformance p with
  | Some (nm, patch_ptrs) =>
      let patches := cat_options (map (parse_node KPatch) patch_ptrs) in
      ss <- map_res (fun pa => patch_samples_img fat (snd pa)) patches ;;
      Ok (Some {| pf_index := p; pf_name := nm; pf_programs := map fst patches; pf_samples := concat ss |})
  | None => Ok None
  end.
Definition parse_perfs (fat : list Z) (ptrs : list Z) : res (list rperf) :=
  r <- map_res (parse_perf fat) ptrs ;; Ok (cat_options r).

Definition zseq (n : Z) : list Z := map Z.of_nat (seq 0 (Z.to_nat n)).
Definition id_area : list Z := rd 0 512.
Definition num_volumes : Z := u16 id_area 276.
Definition num_performances : Z := u16 id_area 278.

(** VolumeEntriesList._parse: the volumes that parse (number, name, pointers), then the pseudo
    volume of the performance directory entries no volume lists *)
Definition volume_nodes : list (Z * (list Z * list Z)) :=
  cat_options (map (fun i => match parse_node KVolume i with Some x => Some (i, x) | None => None end)
                   (zseq num_volumes)).
Definition listed_performances (vols : list (Z * (list Z * list Z))) : list Z :=
  sort_dedupe (concat (map (fun v => snd (snd v)) vols)).
Definition performance_directory : list Z :=
  filter (fun i => match parse_dirent KPerformance i with
                   | Some d => de_type d =? TYPE_PERFORMANCE
                   | None => false
                   end) (zseq (max_num KPerformance)).
Definition all_volume_nodes : list (Z * (list Z * list Z)) :=
  let vols := volume_nodes in
  let listed := listed_performances vols in
  if zlen listed <? num_performances then
    vols ++ [(ORPHAN_VOLUME,
              (match vols with [] => ALL_PERFORMANCES | _ => ORPHAN_NAME end,
               filter (fun p => negb (memZ p listed)) performance_directory))]
  else vols.

(** the FAT area: 65536 little-endian words *)
Definition fat_words : option (list Z) :=
  match rd_opt FAT_AREA_OFFSET (2 * FAT_ENTRIES) with
  | Some b => Some (AkaiImage.words b)
  | None => None
  end.

(** RolandSxxImageParser + realisation of every level *)
Definition roland_tree : res (list rvol) :=
  match fat_words with
  | None => Err ConstructErr
  | Some fat =>
      _ <- raw_fat_check fat ;;
      map_res (fun v => ps <- parse_perfs fat (snd (snd v)) ;;
                        Ok {| vl_index := fst v; vl_name := fst (snd v); vl_perfs := ps |})
              all_volume_nodes
  end.

(** ** Export *)
Definition src_of_bytes (b : list Z) : src := {| sbytes := b; swidth := 2; schans := 1; sbig := false |}.
Fixpoint all_data (l : list rsample) : option (list (list Z)) :=
  match l with
  | [] => Some []
  | s :: t => match rs_data s, all_data t with
              | Ok b, Some r => Some (b :: r)
              | _, _ => None
              end
  end.
(** ExportManager.export_samples: a sample whose export raises is skipped *)
Fixpoint export_outputs (prefix : list (list Z)) (smps : list rsample) (outs : list (list Z * list nat))
  : res (list wavfile) :=
  match outs with
  | [] => Ok []
  | (nm, srcs) :: t =>
      rest <- export_outputs prefix smps t ;;
      let ss := cat_options (map (nth_error smps) srcs) in
      match ss with
      | [] => Ok rest
      | s0 :: _ =>
          match all_data ss with
          | None => Ok rest
          | Some bs =>
              match transcode 4096 (map src_of_bytes bs) 2 (zlen ss) with
              | Ok pcm => Ok ({| AkaiImage.w_path := prefix ++ [nm]; AkaiImage.w_rate := rs_rate s0;
                                 AkaiImage.w_channels := zlen ss; AkaiImage.w_pcm := pcm |} :: rest)
              | Err _ => Ok rest
              | OutOfFuel => OutOfFuel
              end
          end
      end
  end.
(** the two naming routines run on every children list *)
Definition routines (elems : list (list Z * bool)) : res (list (list Z)) :=
  _ <- make_safe_names elems ;; make_export_names elems.

Definition export_perf (vn pn : list Z) (p : rperf) : res (list wavfile) :=
  names <- routines (map (fun n => (n, true)) (pf_programs p ++ map rs_name (pf_samples p))) ;;
  let snames := skipn (length (pf_programs p)) names in
  export_outputs [vn; pn] (pf_samples p) (combine_stereo snames).
Fixpoint export_perfs (vn : list Z) (ps : list rperf) (pnames : list (list Z)) : res (list wavfile) :=
  match ps, pnames with
  | p :: pt, pn :: nt =>
      files <- export_perf vn pn p ;;
      rest <- export_perfs vn pt nt ;;
      Ok (files ++ rest)
  | _, _ => Ok []
  end.
Fixpoint export_vols (vs : list rvol) (vnames : list (list Z)) : res (list wavfile) :=
  match vs, vnames with
  | v :: vt, vn :: nt =>
      pnames <- routines (map (fun p => (pf_name p, false)) (vl_perfs v)) ;;
      files <- export_perfs vn (vl_perfs v) pnames ;;
      rest <- export_vols vt nt ;;
      Ok (files ++ rest)
  | _, _ => Ok []
  end.
Definition roland_export_gen : res (list wavfile) :=
  vs <- roland_tree ;;
  vnames <- routines (map (fun v => (vl_name v, false)) vs) ;;
  export_vols vs vnames.

(** the tree `ls` walks: volume number and name, performances, their programs and samples *)
Definition roland_ls_gen : res (list (Z * list Z * list (list Z * list (list Z) * list (list Z)))) :=
  vs <- roland_tree ;;
  Ok (map (fun v => (vl_index v, vl_name v,
                     map (fun p => (pf_name p, pf_programs p, map rs_name (pf_samples p))) (vl_perfs v))) vs).
End Image.

(** * 3. The image as a list of bytes *)
Definition dense_rd (img : list Z) (off n : Z) : list Z := slice img off (off + n).
Definition roland_export (img : list Z) : res (list wavfile) := roland_export_gen (zlen img) (dense_rd img).
Definition roland_ls (img : list Z) := roland_ls_gen (zlen img) (dense_rd img).

(** * 4. The image as increasing, non-overlapping runs (offset, length, bytes) over zeros *)
Fixpoint sparse_rd (runs : list (Z * Z * list Z)) (off n : Z) : list Z :=
  match runs with
  | [] => zrepeat 0 n
  | (o, len, bs) :: t =>
      if n <=? 0 then []
      else if o + len <=? off then sparse_rd t off n
      else if off + n <=? o then zrepeat 0 n
      else
        let z := Z.max 0 (o - off) in
        let a := off + z in
        let k := Z.min (o + len) (off + n) - a in
        zrepeat 0 z ++ slice bs (a - o) (a - o + k) ++ sparse_rd t (a + k) (off + n - (a + k))
  end.
Definition sparse_image_rd (len : Z) (runs : list (Z * Z * list Z)) (off n : Z) : list Z :=
  sparse_rd runs off (Z.min n (len - off)).
(** the runs are increasing, do not overlap, lie inside the image and carry their lengths
    (the driver refuses an encoding that is not) *)
Fixpoint runs_okb (runs : list (Z * Z * list Z)) (pos len : Z) : bool :=
  match runs with
  | [] => pos <=? len
  | (o, n, bs) :: t => (pos <=? o) && (zlen bs =? n) && runs_okb t (o + n) len
  end.
