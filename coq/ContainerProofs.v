(** The container views deliver the wrapped image (C09). *)
From SE Require Import Base Stream FatProofs StreamProofs Container.
Ltac Zify.zify_post_hook ::= Z.to_euclidean_division_equations.

Lemma znth_app_l' {A} (d : A) l1 l2 i : 0 <= i < zlen l1 -> znth d (l1 ++ l2) i = znth d l1 i.
Proof. intros H. unfold znth, zlen in *. apply app_nth1. lia. Qed.

Lemma slice_app_r {A} (a b : list A) x y : zlen a <= x -> slice (a ++ b) x y = slice b (x - zlen a) (y - zlen a).
Proof.
  intros H. unfold slice, zlen in *.
  replace (Z.to_nat x) with (length a + Z.to_nat (x - Z.of_nat (length a)))%nat by lia.
  rewrite skipn_app. rewrite skipn_all2 by lia. cbn [app].
  replace (length a + Z.to_nat (x - Z.of_nat (length a)) - length a)%nat with (Z.to_nat (x - Z.of_nat (length a))) by lia.
  f_equal. lia.
Qed.
Lemma slice_app_l {A} (a b : list A) x y : 0 <= x -> y <= zlen a -> slice (a ++ b) x y = slice a x y.
Proof.
  intros H1 H2. unfold slice, zlen in *.
  destruct (Z.le_gt_cases y x) as [Hle|Hgt].
  { replace (Z.to_nat (y - x)) with O by lia. reflexivity. }
  rewrite skipn_app, firstn_app. rewrite skipn_length.
  replace (Z.to_nat (y - x) - (length a - Z.to_nat x))%nat with O by lia.
  cbn [firstn]. now rewrite app_nil_r.
Qed.
Lemma slice_all {A} (l : list A) : slice l 0 (zlen l) = l.
Proof. unfold slice, zlen. cbn [Z.to_nat skipn]. rewrite Z.sub_0_r, Nat2Z.id. apply firstn_all. Qed.
Lemma zlen_zrepeat {A} (x : A) n : 0 <= n -> zlen (zrepeat x n) = n.
Proof. intros. unfold zlen, zrepeat. rewrite repeat_length. lia. Qed.

(** * little-endian 64-bit field *)
Lemma le_bytes_len n v : length (le_bytes n v) = n.
Proof. revert v. induction n; intros; cbn; auto. Qed.
Lemma le_val_bytes : forall n v, 0 <= v < 256 ^ Z.of_nat n -> le_val (le_bytes n v) = v.
Proof.
  induction n as [|n IH]; intros v Hv.
  - cbn in *. lia.
  - cbn [le_bytes le_val fold_right]. fold (le_val (le_bytes n (v / 256))).
    rewrite IH; [lia|]. rewrite Nat2Z.inj_succ, Z.pow_succ_r in Hv by lia. lia.
Qed.

(** * MDX *)
Definition mdx_header (n : Z) : list Z :=
  MDX_MAGIC ++ [2; 1] ++ (169 :: zrepeat 32 25) ++ zrepeat 255 4 ++ le64_bytes (64 + n) ++ zrepeat 0 8.
Lemma mdx_header_len n : zlen (mdx_header n) = 64.
Proof. unfold mdx_header, zlen. rewrite !app_length. cbn [length]. unfold le64_bytes, zrepeat. rewrite le_bytes_len, !repeat_length. reflexivity. Qed.
Lemma wrap_mdx_split d : wrap_mdx d = mdx_header (zlen d) ++ d.
Proof. unfold wrap_mdx, mdx_header. now rewrite <- !app_assoc. Qed.

Lemma mdx_detect_lemma d : 0 <= zlen d < 2 ^ 63 -> detect (wrap_mdx d) = CMdx /\ le64 (wrap_mdx d) 48 = 64 + zlen d.
Proof.
  intros Hd. split.
  - unfold detect. assert (E1 : is_mdf (wrap_mdx d) = false).
    { unfold is_mdf. destruct (16 <=? zlen (wrap_mdx d)); [|reflexivity]. reflexivity. }
    rewrite E1. assert (E2 : is_mdx (wrap_mdx d) = true).
    { unfold is_mdx. rewrite wrap_mdx_split, zlen_app, mdx_header_len. pose proof (zlen_nonneg d).
      destruct (Z.leb_spec 64 (64 + zlen d)); [|lia]. reflexivity. }
    now rewrite E2.
  - unfold le64. rewrite wrap_mdx_split. rewrite slice_app_l by (rewrite ?mdx_header_len; lia).
    unfold mdx_header.
    change (MDX_MAGIC ++ [2; 1] ++ (169 :: zrepeat 32 25) ++ zrepeat 255 4 ++ le64_bytes (64 + zlen d) ++ zrepeat 0 8)
      with ((MDX_MAGIC ++ [2; 1] ++ (169 :: zrepeat 32 25) ++ zrepeat 255 4) ++ le64_bytes (64 + zlen d) ++ zrepeat 0 8).
    rewrite slice_app_r by (vm_compute; discriminate).
    change (zlen (MDX_MAGIC ++ [2; 1] ++ (169 :: zrepeat 32 25) ++ zrepeat 255 4)) with 48.
    replace (48 - 48) with 0 by lia. replace (48 + 8 - 48) with 8 by lia.
    assert (L8 : zlen (le64_bytes (64 + zlen d)) = 8) by (unfold zlen, le64_bytes; now rewrite le_bytes_len).
    rewrite slice_app_l by lia. rewrite <- L8, slice_all. unfold le64_bytes.
    apply le_val_bytes. change (256 ^ Z.of_nat 8) with (2 ^ 64). lia.
Qed.

(** An MDX-wrapped image is recognised as MDX and the view the parsers read through has the
    wrapped image as its logical content. *)
Lemma mdx_view_lemma d :
  0 < zlen d < 2 ^ 63 ->
  detect (wrap_mdx d) = CMdx /\
  wf (container_view (wrap_mdx d)) (wrap_mdx d) /\
  logical (container_view (wrap_mdx d)) (wrap_mdx d) = d.
Proof.
  intros Hd. destruct (mdx_detect_lemma d ltac:(lia)) as [E1 E2].
  split; [assumption|]. unfold container_view. rewrite E1, E2.
  replace (64 + zlen d - 64) with (zlen d) by lia.
  assert (Hl : zlen (wrap_mdx d) = 64 + zlen d) by (rewrite wrap_mdx_split, zlen_app, mdx_header_len; lia).
  split.
  - cbn [wf kind_ok logical]. repeat split; lia.
  - cbn [logical]. 
    transitivity (slice (wrap_mdx d) 64 (64 + zlen d)).
    + rewrite (slice_map_znth 0) by lia.
      replace (zrange 64 (64 + zlen d)) with (zrange (0 + 64) (zlen d + 64)) by (f_equal; lia).
      rewrite zrange_shift, map_map. apply map_ext. intros a. cbn [addr]. f_equal. lia.
    + rewrite wrap_mdx_split. rewrite slice_app_r by (rewrite mdx_header_len; lia).
      rewrite mdx_header_len. replace (64 - 64) with 0 by lia. replace (64 + zlen d - 64) with (zlen d) by lia.
      apply slice_all.
Qed.

(** * MODE1/2352 *)
Lemma raw_sector_len i b : zlen b = 2048 -> zlen (raw_sector i b) = 2352.
Proof.
  intros H. unfold raw_sector. rewrite !zlen_app, H, zlen_zrepeat by lia. reflexivity.
Qed.
Lemma raw_sector_body i b : zlen b = 2048 -> slice (raw_sector i b) 16 2064 = b.
Proof.
  intros H. unfold raw_sector.
  change (MDF_MAGIC ++ be24 i ++ [1] ++ b ++ zrepeat 0 288) with ((MDF_MAGIC ++ be24 i ++ [1]) ++ b ++ zrepeat 0 288).
  rewrite slice_app_r by (vm_compute; discriminate).
  change (zlen (MDF_MAGIC ++ be24 i ++ [1])) with 16. replace (16 - 16) with 0 by lia. replace (2064 - 16) with 2048 by lia.
  rewrite slice_app_l by lia. rewrite <- H. apply slice_all.
Qed.

Lemma wrap_blocks_len : forall bs i, Forall (fun b => zlen b = 2048) bs -> zlen (wrap_blocks i bs) = 2352 * zlen bs.
Proof.
  induction bs as [|b t IH]; intros i H; [reflexivity|]. inversion H; subst.
  cbn [wrap_blocks]. rewrite zlen_app, raw_sector_len, IH, zlen_cons by assumption. lia.
Qed.

Lemma zrange_succ_l a b : a < b -> zrange a b = a :: zrange (a + 1) b.
Proof.
  intros H. unfold zrange. replace (Z.to_nat (b - a)) with (S (Z.to_nat (b - (a + 1)))) by lia. reflexivity.
Qed.

(** the user-data view of raw sectors picks exactly the 2048-byte bodies, in order *)
Lemma wrap_blocks_bodies : forall bs i,
  Forall (fun b => zlen b = 2048) bs ->
  concat (map (fun k => slice (wrap_blocks i bs) (k * 2352 + 16) (k * 2352 + 2064)) (zrange 0 (zlen bs))) = concat bs.
Proof.
  induction bs as [|b t IH]; intros i H; [reflexivity|]. inversion H as [|? ? Hb Ht]; subst.
  rewrite zlen_cons. pose proof (zlen_nonneg t).
  rewrite zrange_succ_l by lia. cbn [map concat wrap_blocks]. f_equal.
  - rewrite slice_app_l by (rewrite ?raw_sector_len; lia). cbn [Z.mul Z.add]. now apply raw_sector_body.
  - rewrite <- (IH (i + 1) Ht).
    replace (zrange (0 + 1) (1 + zlen t)) with (zrange (0 + 1) (zlen t + 1)) by (f_equal; lia).
    rewrite zrange_shift, map_map. f_equal. apply map_ext_zrange. intros k Hk.
    rewrite slice_app_r by (rewrite raw_sector_len by assumption; lia).
    rewrite raw_sector_len by assumption. f_equal; lia.
Qed.

Lemma logical_mdf : forall (n : nat) sub c,
  Z.of_nat n * 2352 <= zlen (logical sub c) ->
  logical (V (KSect 2048 MMdf) (2048 * Z.of_nat n) sub) c
  = concat (map (fun k => slice (logical sub c) (k * 2352 + 16) (k * 2352 + 2064)) (zrange 0 (Z.of_nat n))).
Proof.
  intros n sub c. set (P := logical sub c). induction n as [|n IH]; intros Hl.
  - cbn. reflexivity.
  - cbn [logical] in *. fold P in IH |- *.
    rewrite Nat2Z.inj_succ. unfold Z.succ.
    rewrite (zrange_app 0 (2048 * Z.of_nat n) (2048 * (Z.of_nat n + 1))) by lia.
    rewrite (zrange_app 0 (Z.of_nat n) (Z.of_nat n + 1)) by lia.
    rewrite !map_app, concat_app. f_equal.
    + rewrite <- IH by lia. apply map_ext. intros a. reflexivity.
    + rewrite (zrange_succ_l (Z.of_nat n)) by lia. rewrite (zrange_empty (Z.of_nat n + 1) (Z.of_nat n + 1)) by lia. cbn [map concat]. rewrite app_nil_r.
      replace (Z.of_nat n * 2352 + 2064) with ((Z.of_nat n * 2352 + 16) + 2048) by lia.
      rewrite (slice_map_znth 0 P) by lia.
      replace (zrange (2048 * Z.of_nat n) (2048 * (Z.of_nat n + 1)))
        with (zrange ((Z.of_nat n * 2352 + 16) + (2048 * Z.of_nat n - (Z.of_nat n * 2352 + 16)))
                     ((Z.of_nat n * 2352 + 16 + 2048) + (2048 * Z.of_nat n - (Z.of_nat n * 2352 + 16)))) by (f_equal; lia).
      rewrite zrange_shift, map_map. apply map_ext_zrange. intros x Hx. f_equal. cbn [addr sbase].
      assert (Hq : (x + (2048 * Z.of_nat n - (Z.of_nat n * 2352 + 16))) / 2048 = Z.of_nat n) by lia.
      rewrite Hq. lia.
Qed.

(** splitting a list whose length is a multiple of n into blocks of n *)
Lemma blocks_spec : forall (k : nat) (n : nat) (l : list Z) fuel,
  (0 < n)%nat -> length l = (k * n)%nat -> (k <= fuel)%nat ->
  concat (blocks fuel n l) = l /\ Forall (fun b => length b = n) (blocks fuel n l) /\ length (blocks fuel n l) = k.
Proof.
  induction k as [|k IH]; intros n l fuel Hn Hl Hf.
  - destruct l; [|discriminate]. destruct fuel; cbn; repeat split; constructor.
  - destruct fuel as [|fuel]; [lia|].
    assert (Hs : length (skipn n l) = (k * n)%nat) by (rewrite skipn_length; lia).
    destruct (IH n (skipn n l) fuel Hn Hs ltac:(lia)) as (A & B & C).
    assert (E : blocks (S fuel) n l = firstn n l :: blocks fuel n (skipn n l)).
    { destruct l; [cbn in Hl; lia|reflexivity]. }
    rewrite E. cbn [concat length]. rewrite A, C. split; [apply firstn_skipn|]. split; [|reflexivity].
    constructor; [rewrite firstn_length; lia|assumption].
Qed.

Lemma pad_to_len d : (zlen (pad_to 2048 d) mod 2048 = 0) /\ (zlen d <= zlen (pad_to 2048 d) < zlen d + 2048).
Proof.
  unfold pad_to. rewrite zlen_app. pose proof (zlen_nonneg d).
  rewrite zlen_zrepeat by lia. lia.
Qed.

(** A MODE1/2352-wrapped image (non-empty) is recognised as MDF, and the 2048-byte user-data
    view the parsers then read through has the zero-padded image as its logical content. *)
Lemma mdf_view_lemma d :
  d <> [] ->
  detect (wrap_2352 d) = CMdf /\
  wf (container_view (wrap_2352 d)) (wrap_2352 d) /\
  logical (container_view (wrap_2352 d)) (wrap_2352 d) = pad_to 2048 d.
Proof.
  intros Hne. unfold wrap_2352. set (p := pad_to 2048 d).
  destruct (pad_to_len d) as [Hm Hb]. fold p in Hm, Hb.
  assert (Hd : 0 < zlen d) by (destruct d; [congruence|rewrite zlen_cons; pose proof (zlen_nonneg d); lia]).
  set (k := Z.to_nat (zlen p / 2048)).
  assert (Hk : length p = (k * 2048)%nat) by (unfold k, zlen in *; lia).
  destruct (blocks_spec k 2048 p (length p) ltac:(lia) Hk ltac:(lia)) as (Bc & Bl & Bn).
  set (bs := blocks (length p) 2048 p) in *.
  assert (Bl' : Forall (fun b => zlen b = 2048) bs).
  { eapply Forall_impl; [|exact Bl]. intros b Hb'. unfold zlen. cbn beta in Hb'. lia. }
  assert (Hz : zlen bs = Z.of_nat k) by (unfold zlen; lia).
  assert (Hk1 : (1 <= k)%nat) by (unfold k; lia).
  assert (HW : zlen (wrap_blocks 0 bs) = 2352 * Z.of_nat k) by (rewrite wrap_blocks_len, Hz by assumption; reflexivity).
  assert (Edet : detect (wrap_blocks 0 bs) = CMdf).
  { unfold detect. destruct bs as [|b t] eqn:Eb; [cbn in Bn; lia|].
    cbn [wrap_blocks]. unfold is_mdf. rewrite zlen_app.
    inversion Bl'; subst. rewrite raw_sector_len by assumption.
    pose proof (zlen_nonneg (wrap_blocks (0 + 1) t)).
    destruct (Z.leb_spec 16 (2352 + zlen (wrap_blocks (0 + 1) t))); [|lia]. reflexivity. }
  split; [exact Edet|]. unfold container_view. rewrite Edet. unfold mdf_view. rewrite HW.
  replace (2352 * Z.of_nat k / 2352 * 2048) with (2048 * Z.of_nat k) by lia.
  split.
  - cbn [wf kind_ok logical]. repeat split; try lia.
  - rewrite logical_mdf by (cbn [logical]; lia). cbn [logical].
    rewrite <- Hz, wrap_blocks_bodies by assumption. exact Bc.
Qed.

(** a file that begins with neither magic is read directly *)
Lemma raw_view_lemma f : is_mdf f = false -> is_mdx f = false -> container_view f = Base /\ (logical (container_view f) f) = f.
Proof. intros H1 H2. unfold container_view, detect. rewrite H1, H2. split; reflexivity. Qed.
