(** C01 - AKAI export is byte-exact for every sector allocation and file length.
    Property theorems only.  The whole-image model [akai_export] (AkaiImage.v) computes with
    LOGICAL contents; the theorems below tie those contents to the byte-window views the real
    code reads through (C08), to the allocation chains (C07) and to the transcoder (C12), for
    every chain order and every length.  The COMPOSITION over a whole image (partition scan,
    volume table, allocation table, file table, sample header, naming, pairing, transcoding) is
    theorem [akai_export_correct] at the end: for every logical image and every valid
    allocation (AkaiSpec.v), [akai_export] of the serialised bytes is exactly the expected list
    of files.  [akai_export] itself is tied to the real `export` by the end-to-end
    correspondence run on every generated image. *)
From SE Require Import Base Codecs Fat Cue Names Transcode Stream FatProofs StreamProofs
     TranscodeProofs TranscodeUnbounded NamesProofs AkaiChainProofs AkaiImage AkaiProofs
     AkaiSpec AkaiCompose.

(** A file read the way the real code reads it - StreamWrapper(size) over the sector-chained
    Segment over the partition window over the image file - is a well-formed view (so the C08
    theorem applies: under ANY seek/read history it behaves as an ordinary file over its
    logical content), and its logical content is what the model computes: the sectors of the
    chain concatenated IN CHAIN ORDER, whatever their numbers (contiguous, fragmented,
    backwards), cut at the directory's size. *)
Theorem akai_file_view_content :
  forall img p secs fsize,
    part_ok img p -> chain_in_part p secs -> secs <> [] -> 0 < fsize <= SECTOR * zlen secs ->
    wf (file_view p secs fsize) img /\
    logical (file_view p secs fsize) img = wrap_size (segment_content (part_content img p) secs) fsize.
Proof.
  intros img p secs fsize H1 H2 H3 H4. split.
  - now apply file_view_wf_lemma.
  - now apply file_view_logical_lemma.
Qed.
Print Assumptions akai_file_view_content.

(** ...hence every read history on the real file object returns the model's bytes. *)
Theorem akai_file_reads_exact :
  forall img p secs fsize ops s,
    part_ok img p -> chain_in_part p secs -> secs <> [] -> 0 < fsize <= SECTOR * zlen secs ->
    StreamProofs.good (file_view p secs fsize) s -> Forall op_ok ops ->
    fst (run (file_view p secs fsize) img s ops)
    = ref_run (wrap_size (segment_content (part_content img p) secs) fsize) (v_tell s) ops.
Proof.
  intros img p secs fsize ops s H1 H2 H3 H4 Hg Ho.
  rewrite <- (file_view_logical_lemma img p secs fsize H1 H2 H4).
  unfold file_view. apply view_refines_file_lemma; try assumption.
  now apply file_view_wf_lemma.
Qed.
Print Assumptions akai_file_reads_exact.

(** Following the file's sector chain through the partition's segment allocation table: for the
    11386 raw SAT words of a partition, ANY chain found by following the raw words from the
    file's first sector to an end-of-chain mark - its sectors in any order (contiguous,
    fragmented, backwards), each linked from exactly one place, whatever else the table holds -
    is what the decoded table resolves, so the file's bytes are those sectors in chain order
    (unbounded theorem akai_decode_chain of C07 instantiated at the real table size). *)
Theorem akai_chain_to_content :
  forall block sat pc s c,
    Forall (fun w => 0 <= w < 65536) block -> zlen block = SAT_ENTRIES ->
    akai_decode block = Ok sat ->
    raw_chain (S (length block)) block [] s = Some c -> linked_once block c = true ->
    get_segment pc sat s = Ok (segment_content pc c).
Proof. exact akai_chain_to_content_lemma. Qed.
Print Assumptions akai_chain_to_content.

(** The data window of a sample: StreamOffset(140 + 2*start, 2*(end-start)) over that file
    holds exactly the 16-bit words between the start and end markers - also when the file
    (140-byte header + data) fills its last sector exactly: no hypothesis relates the size to
    the sector boundary. *)
Theorem akai_sample_window :
  forall img p secs fsize st en,
    part_ok img p -> chain_in_part p secs -> 0 < fsize <= SECTOR * zlen secs ->
    0 <= st < en -> SAMPLE_HDR + 2 * en <= fsize ->
    logical (data_view p secs fsize st en) img
    = slice (wrap_size (segment_content (part_content img p) secs) fsize) (SAMPLE_HDR + 2 * st) (SAMPLE_HDR + 2 * en).
Proof. exact data_view_logical_lemma. Qed.
Print Assumptions akai_sample_window.

(** The model's sample parser takes exactly that window as the sample's PCM. *)
Theorem akai_sample_pcm :
  forall e s, parse_sample e = Some s ->
    sm_start s = u32 (fe_content e) 30 /\ sm_end s = u32 (fe_content e) 34 /\
    (sm_start s < sm_end s ->
     sm_pcm s = slice (fe_content e) (SAMPLE_HDR + 2 * sm_start s) (SAMPLE_HDR + 2 * sm_end s)).
Proof. exact parse_sample_pcm_lemma. Qed.
Print Assumptions akai_sample_pcm.

(** The written audio: a mono sample's PCM is written unchanged, for every length and every
    internal block size; an L/R pair of equal length is written as the frame-by-frame
    interleaving, left first. *)
Theorem akai_mono_export_pcm :
  forall target s, zlen (sm_pcm s) mod 2 = 0 -> transcode target [src_of s] 2 1 = Ok (sm_pcm s).
Proof. exact mono_export_even_lemma. Qed.
Print Assumptions akai_mono_export_pcm.
Theorem akai_pair_export_pcm :
  forall target l r F, zlen (sm_pcm l) = 2 * F -> zlen (sm_pcm r) = 2 * F ->
    transcode target [src_of l; src_of r] 2 2 = Ok (interleave2 (sm_pcm l) (sm_pcm r)).
Proof. exact pair_export_pcm_lemma. Qed.
Print Assumptions akai_pair_export_pcm.

(** The rate written is the header's, 44100 when stored as 0. *)
Theorem akai_rate_default : forall s, sm_rate s = if sm_rate_raw s =? 0 then 44100 else sm_rate_raw s.
Proof. reflexivity. Qed.

(** Non-vacuity: a 2-sector file stored BACKWARDS (sectors [6;5]) in a 8-sector partition at
    offset 8192 of a 9-sector image: hypotheses hold, and the content is sector 6 then 5. *)
Example c01_example :
  let img := concat (map (fun k => zrepeat (Z.of_nat k) 8192) (seq 0 9)) in
  let p := {| p_off := 8192; p_sectors := 8; p_vols := []; p_sat := [] |} in
  part_ok img p /\ chain_in_part p [6; 5] /\
  map (fun i => znth 0 (wrap_size (segment_content (part_content img p) [6; 5]) 8200) i) [0; 8191; 8192; 8199] = [7; 7; 6; 6].
Proof.
  cbv zeta. split; [|split].
  - unfold part_ok. cbn [p_off p_sectors]. split; [lia|]. split; [lia|]. vm_compute. discriminate.
  - repeat constructor; cbn; lia.
  - vm_compute. reflexivity.
Qed.

(** * The composition: export of a serialised logical image

    Specification side (AkaiSpec.v): a logical image [L] (partitions of [lp_sectors] sectors,
    each a list of volumes (name, type 1|3) together with the volume-table SLOT each one sits in
    ([lp_slots]: any strictly increasing slots out of 0..99 - the table may have HOLES, slot 99
    may be used; every other slot is written inactive), each volume a list of directory ENTRIES
    in directory order: SAMPLE files with their directory name and type, the 140-byte-header
    fields and the PCM bytes, and GHOSTS - slots that are not sample files: 12 name bytes of any
    value (bytes 8-9 not spelling the end-of-table mark), a type byte of any value except a
    sample's (115, 243) and a program's (112, 240) - so deleted entries (0), types the tool does
    not know (0xF8, 0x74, ...) and drum / QL / effects files (100, 113, 120) -, any 3-byte size
    and any content), an allocation [A] (for every volume directory and every entry the sectors
    it occupies, in chain order; a ghost may have none), the serialiser [akai_serialise L A]
    writing the on-disc format, validity [image_alloc_ok L A] (sectors pairwise distinct inside a
    partition, data sectors 3 <= s < size <= 11386, enough sectors for the content - a file may
    fill its last sector exactly -, directories as reserved-flag runs of consecutive sectors not
    adjacent to another run, names valid AKAI text, markers 0 <= start < end <= count, file
    length = 140 + 2*count < 2^24, slots strictly increasing inside 0..99, a drum / QL / effects
    ghost has at least one sector) and [image_plain L] (sibling names - of the volumes of a
    partition, of the SAMPLES of a volume - pairwise distinct after export-name sanitising and no
    left/right partner present: the renaming and pairing behaviour is C05/C06).  Ghost names are
    under NO hypothesis: no ghost becomes a child of its volume (not in the model, not in the
    real code, where Volume._realize_files drops the files whose content parses to None before
    the naming routines run), so a drum file may even carry the name of a sample next to it
    (second example below).  NOTHING is assumed about the order or contiguity of an entry's
    sectors, the number of partitions, volumes or entries.
    NOT covered: program files (112 / 240) among the entries - the tool parses their content. *)

(** (a) the partition header written at any offset of any image parses back to the written size,
    volume entries and allocation table *)
Theorem akai_partition_header_parses :
  forall P AP, part_alloc_ok P AP -> forall pre post,
    parse_partition (pre ++ partition_bytes P AP ++ post) (zlen pre) = Ok (part_of P AP (zlen pre)).
Proof. exact parse_partition_written. Qed.
Print Assumptions akai_partition_header_parses.

(** (b) following the written allocation-table words from a file's first sector gives the
    allocation's sector list, every sector linked exactly once (the hypotheses of
    akai_chain_to_content), whatever the order of the sectors *)
Theorem akai_written_chain :
  forall items n it,
    NoDup (all_secs items) -> secs_in items n -> n <= SAT_ENTRIES ->
    In it items -> it_dir it = false -> it_secs it <> [] ->
    raw_chain (S (length (sat_words items))) (sat_words items) [] (hd 0 (it_secs it)) = Some (it_secs it)
    /\ linked_once (sat_words items) (it_secs it) = true.
Proof.
  intros items n it H1 H2 H3 H4 H5 H6. split.
  - exact (file_raw_chain items n it H1 H2 H3 H4 H5 H6).
  - exact (file_linked_once items n it H1 H2 H3 H4 H5 H6).
Qed.
Print Assumptions akai_written_chain.

(** (d) the 140-byte header and the data window of a written sample file parse back to the
    written fields; the PCM is the bytes between the markers *)
Theorem akai_sample_header_parses :
  forall f nm ty sz st, sample_ok f ->
    parse_sample {| fe_name := nm; fe_type := ty; fe_size := sz; fe_start := st; fe_content := file_body f |}
    = Some (sample_of nm f).
Proof. exact parse_sample_written. Qed.
Print Assumptions akai_sample_header_parses.

(** (c) a ghost's directory entry contributes nothing to its volume: whatever the tool makes of
    it (skipped, or kept as a file entry that is neither sample nor program), no child results *)
Theorem akai_ghost_entry_no_child :
  forall P AP, part_alloc_ok P AP -> forall V AV, In (V, AV) (combine (lp_vols P) AP) ->
  forall g secs, In (LGhost g, secs) (combine (lv_entries V) (av_files AV)) ->
    exists k, kept (partition_bytes P AP) (sat_of (part_items P AP)) (dir_entry (LGhost g) secs) = Ok k
              /\ filter_map realize_file k = [].
Proof. exact kept_ghost. Qed.
Print Assumptions akai_ghost_entry_no_child.

(** a ghost whose name field is valid AKAI text (the usual case) meets the conditions on the
    name bytes: valid text never spells the end-of-table mark *)
Theorem akai_ghost_named_ok :
  forall n ty size data,
    name_ok n -> is_byte ty -> ~ In ty [115; 243; 112; 240] -> 0 <= size < 16777216 -> Forall is_byte data ->
    ghost_ok (ghost_named n ty size data).
Proof. exact ghost_named_ok_lemma. Qed.
Print Assumptions akai_ghost_named_ok.

(** THE COMPOSED THEOREM.  For every valid (L, A) with plain sibling names, [export] of the
    serialised image writes exactly: per partition, volume and SAMPLE in directory order, one
    file at [partition name; volume export name; file export name], with the header's rate
    (44100 when stored as 0), one channel, and as PCM the bytes between the start and end
    markers - and nothing else.  [pn] are the partition names "A:", "B:", ... as sanitised by
    the exporter (computed by the same closed expression the exporter uses; they are the
    letters for up to 26 partitions, second theorem). *)
Theorem akai_export_correct :
  forall L A pn,
    image_alloc_ok L A -> image_plain L -> partition_export_names (length L) = Ok pn ->
    akai_export (akai_serialise L A) = Ok (expected pn L).
Proof. exact akai_export_correct_lemma. Qed.
Print Assumptions akai_export_correct.

Theorem akai_export_correct_letters :
  forall L A,
    image_alloc_ok L A -> image_plain L -> (length L <= 26)%nat ->
    akai_export (akai_serialise L A) = Ok (expected (partition_letters (length L)) L).
Proof. exact akai_export_correct_letters_lemma. Qed.
Print Assumptions akai_export_correct_letters.

(** The first version of this theorem - volumes packed into slots 0..n-1, sample files only,
    validity as it was stated then - is the special case [image_v1]; on such images the
    serialiser writes that version's layout (volume entries first, then inactive ones; one
    directory entry per file). *)
Theorem akai_export_correct_v1 :
  forall L A pn,
    image_v1 L -> image_alloc_ok_v1 L A -> image_plain L -> partition_export_names (length L) = Ok pn ->
    akai_export (akai_serialise L A) = Ok (expected pn L).
Proof. exact akai_export_correct_v1_lemma. Qed.
Print Assumptions akai_export_correct_v1.
Theorem akai_v1_layout :
  forall P AP, partition_v1 P -> part_alloc_ok_v1 P AP ->
    vol_table P AP = vol_table_v1 P AP /\
    forall V AV, In (V, AV) (combine (lp_vols P) AP) -> dir_table V AV = dir_table_v1 V AV.
Proof. exact v1_layout_lemma. Qed.
Print Assumptions akai_v1_layout.

(** Non-vacuity: the example image of AkaiSpec.v (one 9-sector partition, volume "VOL 1" with its
    directory in sector 4, "KICK" in sector 6 with markers 1..3 and a stored rate of 0, "SNARE.1"
    of 8340 bytes stored BACKWARDS in sectors 8 then 7) satisfies the hypotheses; the theorem
    gives its export, whose two files are spelled out. *)
Example c01_composed_example :
  image_v1 ex_logical /\ image_alloc_ok ex_logical ex_alloc /\ image_plain ex_logical /\
  akai_export (akai_serialise ex_logical ex_alloc) = Ok (expected [[65]] ex_logical) /\
  map (fun w => (w_path w, w_rate w, w_channels w, zlen (w_pcm w), firstn 4 (w_pcm w))) (expected [[65]] ex_logical)
  = [([[65]; [86; 79; 76; 32; 49]; [75; 73; 67; 75]], 44100, 1, 4, [3; 4; 5; 6]);
     ([[65]; [86; 79; 76; 32; 49]; [83; 78; 65; 82; 69; 46; 49]], 22050, 1, 8200, [0; 1; 2; 3])].
Proof.
  split; [exact ex_v1|]. split; [exact ex_alloc_ok|]. split; [exact ex_plain|]. split; [exact ex_export|].
  vm_compute. reflexivity.
Qed.

(** Non-vacuity with HOLES and GHOSTS: the second example of AkaiSpec.v - one 40-sector partition,
    volumes in slots 0, 2 and 99 of the volume table; "FIRST" = KICK, a deleted entry (type 0,
    garbage name bytes, 300 bytes left in sector 11), SNARE.1 stored backwards; "THIRD" = a DRUM
    file (type 100) also named "KICK" with a size field of 5000, then the sample KICK; "LAST" =
    one entry of unknown type 0xF8 without any sector - satisfies the hypotheses; the theorem
    gives its export: the three samples, nothing for the ghosts, the sample next to the
    like-named drum file keeps its name. *)
Example c01_holes_ghosts_example :
  image_alloc_ok ex2_logical ex2_alloc /\ image_plain ex2_logical /\ ~ image_v1 ex2_logical /\
  akai_export (akai_serialise ex2_logical ex2_alloc) = Ok (expected [[65]] ex2_logical) /\
  map (fun w => (w_path w, w_rate w, w_channels w, zlen (w_pcm w), firstn 4 (w_pcm w))) (expected [[65]] ex2_logical)
  = [([[65]; [70; 73; 82; 83; 84]; [75; 73; 67; 75]], 44100, 1, 4, [3; 4; 5; 6]);
     ([[65]; [70; 73; 82; 83; 84]; [83; 78; 65; 82; 69; 46; 49]], 22050, 1, 8200, [0; 1; 2; 3]);
     ([[65]; [84; 72; 73; 82; 68]; [75; 73; 67; 75]], 44100, 1, 4, [3; 4; 5; 6])].
Proof.
  split; [exact ex2_alloc_ok|]. split; [exact ex2_plain|]. split; [exact ex2_not_v1|]. split; [exact ex2_export|].
  vm_compute. reflexivity.
Qed.
