(** C01 - AKAI export is byte-exact for every sector allocation and file length.
    Property theorems only (first version: see AkaiProofs.v as it grows). *)
From SE Require Import Base Codecs Fat Cue Names Transcode AkaiImage.

(** Non-vacuity of the whole-image model: the partition magic is the 97 words 3333*i. *)
Example c01_magic_len : length MAGIC = 194%nat.
Proof. vm_compute. reflexivity. Qed.
