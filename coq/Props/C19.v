(** C19 - De-emphasis filters give the same output however the signal is split into blocks.
    Property theorems only (model: Filters.v, lemmas: FiltersProofs.v).  No bound on signal
    length, number of blocks, number of taps/coefficients or their values. *)
From SE Require Import Base Filters FiltersProofs FiltersMoreProofs.

(** The circular buffer of iir.pyx represents the list of its N most recent pushes (newest
    first, zero-padded initial contents behind them); inner_prod and fill read that window
    in order.  No float algebra: both sides perform the same operations in the same order. *)
Theorem cbuffer_refines_window :
  forall x N pushes A n, (0 < N \/ 0 < length x)%nat ->
    let cb := fold_left cb_push pushes (cb_init x N) in
    let w := firstn (Nat.max N (length x)) (rev pushes ++ x ++ repeat fzero (N - length x)) in
    cb_N cb = Nat.max N (length x) /\
    ((length A <= cb_N cb)%nat -> cb_inner cb A = wdot A w) /\
    ((n <= cb_N cb)%nat -> cb_fill cb n = firstn n w).
Proof. exact cbuffer_refines_window_lemma. Qed.
Print Assumptions cbuffer_refines_window.

(** IIR (generic and ChickenSys kernels): for EVERY coefficient lists, every saved state
    (well-formed or not) and every two blocks of one dtype, processing the concatenation
    equals processing the blocks in turn: outputs appended, final states equal, errors equal. *)
Theorem iir_block_independent :
  forall f x1 x2, is_int x1 = is_int x2 ->
    iir_process f (acat x1 x2) =
    r1 <- iir_process f x1 ;; r2 <- iir_process (snd r1) x2 ;; Ok (acat (fst r1) (fst r2), snd r2).
Proof. exact iir_process_app. Qed.
Print Assumptions iir_block_independent.

(** ... hence for every composition of the signal into blocks, followed by the flush; and
    the number of output samples equals the number of input samples. *)
Theorem iir_split_independent :
  forall f b t k, Forall (fun a => is_int a = k) (b :: t) ->
    stream (FI f) (b :: t) = stream (FI f) [aconcat (b :: t)] /\
    (forall r, stream (FI f) (b :: t) = Ok r ->
               alen (fst (fst r)) + alen (snd (fst r)) = alen (aconcat (b :: t))).
Proof.
  intros f b t k HK. split; [exact (iir_stream_split_lemma f t b k HK) | intros r; exact (iir_stream_blocks_count f t b k r HK)].
Qed.
Print Assumptions iir_split_independent.

(** FIR (generic float64 taps, and the ChickenSys integer kernel with k <> 0), N >= 2 taps,
    any delay offset, any carried history: every split into blocks EACH OF LENGTH >= N-1 gives
    the output of the one-block run (block outputs concatenated, flushed tail, final filter). *)
Theorem fir_block_independent :
  forall f b t k, fir_wt f -> 2 <= fir_N f -> arr_ok (f_xprev f) ->
    Forall (fun a => is_int a = k) (b :: t) ->
    Forall (fun a => arr_ok a /\ fir_N f - 1 <= alen a) (b :: t) ->
    stream (FF f) (b :: t) = stream (FF f) [aconcat (b :: t)].
Proof. intros f b t k. exact (fir_stream_split_lemma f t b k). Qed.
Print Assumptions fir_block_independent.

(** ... and for a new filter (FirFilter.__init__ with 0 <= delay offset) the output count is
    the input count. *)
Theorem fir_output_count :
  forall chick kk h m0 f b t k r,
    fir_mk chick kk h m0 = Ok f -> fir_wt f -> 2 <= fir_N f -> 0 <= m0 ->
    Forall (fun a => is_int a = k) (b :: t) ->
    Forall (fun a => arr_ok a /\ fir_N f - 1 <= alen a) (b :: t) ->
    stream (FF f) (b :: t) = Ok r ->
    alen (fst (fst r)) + alen (snd (fst r)) = alen (aconcat (b :: t)).
Proof. intros chick kk h m0 f b t k r. exact (fir_stream_blocks_count chick kk h m0 f t b k r). Qed.
Print Assumptions fir_output_count.

(** D9 (finding in /repo): without the block-length hypothesis the statement is false of the
    faithful model: 3 taps [1,1,1], blocks [1],[2],[3],[4,5,6] give 3 samples, one block gives 6. *)
Theorem fir_short_block_refuted :
  exists f, fir_mk false 1 (AF d9_taps) 0 = Ok f /\ fir_wt f /\ fir_N f = 3 /\
    Forall (fun a => is_int a = true /\ arr_ok a /\ 1 <= alen a) d9_blocks /\
    (exists y1 r1 g1 y2 r2 g2,
        stream (FF f) d9_blocks = Ok (y1, r1, g1) /\
        stream (FF f) [aconcat d9_blocks] = Ok (y2, r2, g2) /\
        y1 = AI [1; 12; 15] /\ y2 = AI [1; 3; 6; 9; 12; 15] /\ alen y1 + alen r1 = 3 /\ alen (aconcat d9_blocks) = 6).
Proof. exact fir_short_block_refuted_lemma. Qed.
Print Assumptions fir_short_block_refuted.

(** D9, one tap: x[-0:] keeps the whole block, so even the unsplit signal yields twice as many
    samples as were fed. *)
Theorem fir_single_tap_refuted :
  exists f x, fir_mk false 1 (AF one_tap_h) 0 = Ok f /\ fir_wt f /\ fir_N f = 1 /\ is_int x = true /\ arr_ok x /\
    exists y r g, stream (FF f) [x] = Ok (y, r, g) /\ alen x = 4 /\ alen y + alen r = 8.
Proof. exact fir_single_tap_refuted_lemma. Qed.
Print Assumptions fir_single_tap_refuted.

(** The five presets of common.py on int16 signals: split independence and sample count for
    every split (IIR presets) / every split into blocks of at least 7 (CDXtract, 8 taps) or 18
    (ChickSysRoland, 19 taps) samples. *)
Theorem preset_split_independent :
  forall n f t b r, In n [0; 1; 2; 3; 4] -> preset n = Ok f ->
    Forall (fun a => is_int a = true /\ arr_ok a /\ preset_min_block n <= alen a) (b :: t) ->
    stream f (b :: t) = stream f [aconcat (b :: t)] /\
    (stream f (b :: t) = Ok r -> alen (fst (fst r)) + alen (snd (fst r)) = alen (aconcat (b :: t))).
Proof. exact preset_split_lemma. Qed.
Print Assumptions preset_split_independent.

(** Saturation, ChickenSys IIR (the three IIR presets): _c_fix_int(_c_bound(y)) lies within
    [-32767, 32767] for EVERY double y (NaN included: the x86 cast modelled in Filters.v yields
    0), and the final cast never wraps: it is exactly the integer part of the bounded value. *)
Theorem iir16_saturates :
  forall y, -32767 <= c_fix_int (c_bound y) <= 32767 /\
    (forall s m e, FloatOps.Prim2SF (c_bound y) = SpecFloat.S754_finite s m e ->
                   c_fix_int (c_bound y) = sgn s (trunc_mag m e)).
Proof. exact iir16_saturates_lemma. Qed.
Print Assumptions iir16_saturates.

(** ... hence every sample a ChickenSys IIR filter returns is within [-32767, 32767],
    for every coefficients, state and int16 block. *)
Theorem iir16_outputs_saturated :
  forall f l y g, i_chick f = true -> iir_process f (AI l) = Ok (y, g) ->
    exists o, y = AI o /\ Forall (fun z => -32767 <= z <= 32767) o.
Proof. exact chick_iir_output_range. Qed.
Print Assumptions iir16_outputs_saturated.

(** The recurrence of the three ChickenSys IIR presets never leaves the finite doubles on int16
    input (so the saturation above applies to every output): a new preset filter fed any int16
    block ends with a state without NaN (x =? x holds exactly for non-NaN doubles; infinities
    are excluded too, see iir16_block_stays_bounded).  Magnitude analysis on SpecFloat: every
    stored output is brought below 2^15 by _c_bound, inputs are below 2^16, the coefficients
    below 1, so each new value is below 2^24, far from overflow. *)
Theorem iir16_no_nan :
  forall n f l y g, In n [1; 2; 3] -> preset n = Ok (FI f) -> arr_ok (AI l) ->
    iir_process f (AI l) = Ok (y, g) -> Forall (fun v => PrimFloat.eqb v v = true) (i_yprev g).
Proof. exact iir16_no_nan_lemma. Qed.
Print Assumptions iir16_no_nan.

(** One sample (chick_raw = ((0 + c0*x) + c1*a - (0 + nc2*v)) / 1, the kernel's expression for
    B = [c0; c1], A = [1; nc2]): coefficients below 1 (fb 0), input samples below 2^16, previous
    output below 2^15 (fb K x: x is a zero or a finite double of magnitude < 2^K) give a finite
    value below 2^24 before _c_bound and below 2^15 after it. *)
Theorem iir16_step_bounded :
  forall c0 c1 nc2 x a v, fb 0 c0 -> fb 0 c1 -> fb 0 nc2 -> fb 16 x -> fb 16 a -> fb 15 v ->
    fb 24 (chick_raw c0 c1 nc2 x a v) /\ fb 15 (c_bound (chick_raw c0 c1 nc2 x a v)).
Proof. exact iir16_step_finite. Qed.
Print Assumptions iir16_step_bounded.

(** Any block, any bounded state of a filter of the presets' shape (two B taps and one feedback
    tap below 1, A[0] = 1): the new state is bounded again and every value handed to the final
    cast is a finite double below 2^15. *)
Theorem iir16_block_stays_bounded :
  forall f l y g, chick_state_ok f -> Forall i16 l -> iir_process f (AI l) = Ok (y, g) ->
    chick_state_ok g /\ exists o, y = AI (map c_fix_int o) /\ Forall (fb 15) o.
Proof. exact iir16_block_finite. Qed.
Print Assumptions iir16_block_stays_bounded.

(** ... hence after ANY history of process / get_remaining / reset_state calls on int16 blocks,
    the saved state of an IIR preset contains no NaN. *)
Theorem iir16_history_no_nan :
  forall n f ops r, In n [1; 2; 3] -> preset n = Ok (FI f) -> Forall op_ok ops ->
    run_ops (FI f) ops = Ok r ->
    exists g, snd r = FI g /\ Forall (fun v => PrimFloat.eqb v v = true) (i_xprev g ++ i_yprev g).
Proof. exact iir16_history_no_nan_lemma. Qed.
Print Assumptions iir16_history_no_nan.

(** Saturation, ChickenSys FIR (_c_bound_and_fix): for every finite double x = (-1)^s m 2^e the
    result is round-half-away(x) clamped to the int16 limits (the clamp branches fire exactly
    when the rounded value is outside, and the (short) cast never wraps). *)
Theorem fir16_clamp :
  forall x s m e, FloatOps.Prim2SF x = SpecFloat.S754_finite s m e ->
    c_bound_and_fix x = Z.max (-32768) (Z.min 32767 (sgn s (round_away_mag m e))).
Proof. exact fir16_clamp_lemma. Qed.
Print Assumptions fir16_clamp.

(** ... in particular the result is within the int16 limits for EVERY double (NaN, infinities
    included) and is exactly round-half-away(x) when neither clamp fires. *)
Theorem fir16_saturates :
  forall x,
    c_bound_and_fix x =
      (if PrimFloat.ltb f32767 x then 32767 else if PrimFloat.ltb x fm32768 then -32768
       else round_away_sf (FloatOps.Prim2SF x)) /\
    -32768 <= c_bound_and_fix x <= 32767.
Proof. exact fir16_saturates_lemma. Qed.
Print Assumptions fir16_saturates.

(** ... hence every sample of the ChickenSys convolution is within the int16 limits. *)
Theorem fir16_outputs_saturated :
  forall k hr N w, Forall (fun z => -32768 <= z <= 32767) (conv_valid (chick_dot k hr) N w).
Proof. exact chick_fir_output_range. Qed.
Print Assumptions fir16_outputs_saturated.

(** reset_state (and the flush, which ends with it) restores exactly the state of a new filter,
    after any history of process / get_remaining / reset_state calls. *)
Theorem reset_is_new :
  forall f ops r, is_new f -> run_ops f ops = Ok r -> filt_reset (snd r) = f.
Proof. exact reset_is_new_lemma. Qed.
Print Assumptions reset_is_new.

Theorem flush_is_reset : forall f r, filt_get_remaining f = Ok r -> snd r = filt_reset f.
Proof. exact filt_rem_reset. Qed.
Print Assumptions flush_is_reset.

(** The hypotheses are satisfiable: a 3-tap FIR with delay offset 1 on two int16 blocks. *)
Example fir_blocks_example :
  exists f, fir_mk false 1 (AF ex_taps) 1 = Ok f /\
    stream (FF f) [AI [1; 2]; AI [3; 4; 5]] = stream (FF f) [AI [1; 2; 3; 4; 5]] /\
    exists g, stream (FF f) [AI [1; 2]; AI [3; 4; 5]] = Ok (AI [4; 10; 16; 22], AI [22], g).
Proof. eexists. split; [reflexivity|]. split; [vm_compute; reflexivity|]. eexists. vm_compute. reflexivity. Qed.

(** ... and those of the IIR theorems: the three IIR presets accept an int16 block with the
    extreme samples (so iir16_no_nan is not vacuous), and saturate on it. *)
Example iir16_no_nan_example :
  forall n, In n [1; 2; 3] ->
    exists f y g, preset n = Ok (FI f) /\ chick_state_ok f /\
      iir_process f (AI [32767; 32767; -32768; -32768; 1]) = Ok (AI y, g) /\ length y = 5%nat.
Proof.
  intros n Hn. pose proof (preset_iir_ok n) as Hok.
  destruct Hn as [<-|[<-|[<-|[]]]]; (eexists; eexists; eexists; split; [reflexivity|]; split;
    [apply Hok; [cbn; tauto | reflexivity] |]; split; [vm_compute; reflexivity | reflexivity]).
Qed.
