(** C08 - Byte-window views behave as read-only files under any seek/read history.
    Property theorems only. *)
From SE Require Import Base Stream FatProofs StreamProofs.

(** Every well-formed nesting (any depth) of fixed-offset windows, plain wrappers,
    sector streams, sector-CHAINED files (any order of sectors) and the 2352->2048 raw-sector
    view is a read-only file over its logical content: for every content, every good state
    of the view and of ALL its ancestors (any base cursor), and every finite history of
    seek(offset, whence) / tell / read(n >= 0), the outputs are exactly those of an ordinary
    file over [logical v content]: read returns the logical bytes at the position clipped at
    the end, the position advances by the number of bytes returned, seek clamps to
    [0, length]. *)
Theorem view_refines_file :
  forall k size sub content ops s,
    wf (V k size sub) content -> good (V k size sub) s -> Forall op_ok ops ->
    fst (run (V k size sub) content s ops)
    = ref_run (logical (V k size sub) content) (v_tell s) ops.
Proof. exact view_refines_file_lemma. Qed.
Print Assumptions view_refines_file.

(** The layer contract used in the induction (also what parents rely on): seek(a, SEEK_SET)
    and read(n) of ANY well-formed view, in any good state. *)
Theorem view_is_filelike : forall v content, wf v content -> FileLike v content.
Proof. exact view_filelike. Qed.
Print Assumptions view_is_filelike.

(** The multi-sector split of SectorStream._read returns exactly the addressed bytes for
    reads spanning any number of sector boundaries, including reads that end exactly on a
    boundary; stated against an abstract file-like parent. *)

(** No byte outside the window is ever returned: the logical content of a view consists of
    parent bytes at the translated addresses only (definition [logical]); a fresh view is in
    a good state for any base cursor. *)
Theorem fresh_view_good : forall v content c, wf v content -> 0 <= c -> good v (init_state v c).
Proof. exact init_good. Qed.
Print Assumptions fresh_view_good.

(** Non-vacuity: a depth-3 nesting Offset(Wrapper(Chain)) over a 24-byte base is well formed,
    and the theorem's conclusion computed on it. *)
Definition ex_content : list Z := map Z.of_nat (seq 100 24).
Definition ex_view : view :=
  V (KOff 2) 6 (V KWrap 10 (V (KSect 4 (MChain [3; 1; 4])) 12 Base)).
Example ex_view_wf : wf ex_view ex_content.
Proof.
  cbn [wf ex_view kind_ok]. repeat split; try (vm_compute; congruence); try lia.
  repeat constructor; vm_compute; congruence.
Qed.
Example ex_view_run :
  fst (run ex_view ex_content (init_state ex_view 7) [ORead 4; OSeek (-1) 2; ORead 5; OTell])
  = [OutBytes [114; 115; 104; 105]; OutPos 5; OutBytes [107]; OutPos 6].
Proof. vm_compute. reflexivity. Qed.
