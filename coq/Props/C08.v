(** C08 - Byte-window views behave as read-only files under any seek/read history.
    Property theorems only. *)
From SE Require Import Base Stream FatProofs StreamProofs StreamRevProofs.

(** Three families of theorems:
    - [view_refines_file]: reversal-free nestings, histories of seek/tell/read(n >= 0);
    - [readall_refines_file]: the same nestings, histories that also contain read(n < 0)
      (readall): the rest of the logical content, position at the end, never out of fuel;
    - [reversed_view_refines_file] (+ [reversed_view_aligned_history]): the sample-reversed
      view at the top of such a nesting: an ordinary file over the sample-reversed logical
      content of its sub-view on sample-aligned operations, BadReadSize/BadAlign with the
      position unchanged on the others (full statement, every history, read(n < 0) too). *)

(** Every well-formed nesting (any depth) of fixed-offset windows, plain wrappers,
    sector streams, sector-CHAINED files (any order of sectors) and the 2352->2048 raw-sector
    view is a read-only file over its logical content: for every content, every good state
    of the view and of ALL its ancestors (any base cursor), and every finite history of
    seek(offset, whence) / tell / read(n >= 0), the outputs are exactly those of an ordinary
    file over [logical v content]: read returns the logical bytes at the position clipped at
    the end, the position advances by the number of bytes returned, seek clamps to
    [0, length]. *)
Theorem view_refines_file :
  forall k size sub content ops s,
    wf (V k size sub) content -> good (V k size sub) s -> Forall op_ok ops ->
    fst (run (V k size sub) content s ops)
    = ref_run (logical (V k size sub) content) (v_tell s) ops.
Proof. exact view_refines_file_lemma. Qed.
Print Assumptions view_refines_file.

(** The layer contract used in the induction (also what parents rely on): seek(a, SEEK_SET)
    and read(n) of ANY well-formed view, in any good state. *)
Theorem view_is_filelike : forall v content, wf v content -> FileLike v content.
Proof. exact view_filelike. Qed.
Print Assumptions view_is_filelike.

(** The multi-sector split of SectorStream._read returns exactly the addressed bytes for
    reads spanning any number of sector boundaries, including reads that end exactly on a
    boundary; stated against an abstract file-like parent. *)

(** No byte outside the window is ever returned: the logical content of a view consists of
    parent bytes at the translated addresses only (definition [logical]); a fresh view is in
    a good state for any base cursor. *)
Theorem fresh_view_good : forall v content c, wf v content -> 0 <= c -> good v (init_state v c).
Proof. exact init_good. Qed.
Print Assumptions fresh_view_good.

(** Non-vacuity: a depth-3 nesting Offset(Wrapper(Chain)) over a 24-byte base is well formed,
    and the theorem's conclusion computed on it. *)
Definition ex_content : list Z := map Z.of_nat (seq 100 24).
Definition ex_view : view :=
  V (KOff 2) 6 (V KWrap 10 (V (KSect 4 (MChain [3; 1; 4])) 12 Base)).
Example ex_view_wf : wf ex_view ex_content.
Proof.
  cbn [wf ex_view kind_ok]. repeat split; try (vm_compute; congruence); try lia.
  repeat constructor; vm_compute; congruence.
Qed.
Example ex_view_run :
  fst (run ex_view ex_content (init_state ex_view 7) [ORead 4; OSeek (-1) 2; ORead 5; OTell])
  = [OutBytes [114; 115; 104; 105]; OutPos 5; OutBytes [107]; OutPos 6].
Proof. vm_compute. reflexivity. Qed.

(** * read(n < 0) / readall() *)
(** [ref_runA]: the ordinary read-only file in which read(n < 0) returns everything from the
    position to the end and leaves the position at the end (no [op_ok] restriction any more).
    The fuel that [step] gives the readall loop always suffices (no [OutFuel] output). *)
Theorem readall_refines_file :
  forall k size sub content ops s,
    wf (V k size sub) content -> good (V k size sub) s ->
    fst (run (V k size sub) content s ops)
    = ref_runA (logical (V k size sub) content) (v_tell s) ops.
Proof. exact readall_refines_file_lemma. Qed.
Print Assumptions readall_refines_file.

(** one read(n < 0) spelled out *)
Theorem readall_reads_rest :
  forall k size sub content s n,
    wf (V k size sub) content -> good (V k size sub) s -> n < 0 ->
    let L := logical (V k size sub) content in
    exists s', step (V k size sub) content s (ORead n) = (OutBytes (slice L (v_tell s) (zlen L)), s')
               /\ good (V k size sub) s' /\ v_tell s' = zlen L.
Proof. exact readall_step_lemma. Qed.
Print Assumptions readall_reads_rest.

(** on histories without read(n < 0) the two reference files coincide *)
Theorem ref_runA_is_ref_run :
  forall L ops, Forall op_ok ops -> forall pos, ref_runA L pos ops = ref_run L pos ops.
Proof. exact ref_runA_ok. Qed.
Print Assumptions ref_runA_is_ref_run.

(** * The sample-reversed view (StreamReversed) at the top of a nesting *)
(** [wf_rev w size sub content]: 1 <= w, 0 < size, size a whole number of samples and equal to
    the length of the well-formed sub-view's logical content.
    [rev_ref_step] (StreamRevProofs.v) is the ordinary file [ref_stepA] over the reversed
    content PLUS the alignment checks: seek is rejected with BadAlign when its clamped target
    is not a multiple of w; read is rejected with BadReadSize when the number of bytes of the
    first block it fetches (the read clipped at the end of file; one 4096 buffer clipped at
    the end of file for read(n < 0)) is not a multiple of w, else with BadAlign when that
    block does not end on a multiple of w; a rejected operation leaves the position
    unchanged.  For EVERY history (no restriction on the operations) and every good state
    (any position, any ancestor state, any base cursor) the outputs of the view are those
    of this machine. *)
Theorem reversed_view_refines_file :
  forall w size sub content ops s,
    wf_rev w size sub content -> good (V (KRev w) size sub) s ->
    fst (run (V (KRev w) size sub) content s ops)
    = rev_ref_run w (rev_samples w (logical sub content)) (v_tell s) ops.
Proof. exact reversed_view_refines_file_lemma. Qed.
Print Assumptions reversed_view_refines_file.

(** the only errors of the reference machine are the two alignment errors, and they leave
    the position unchanged *)
Theorem reversed_view_rejection :
  forall w R pos o e,
    fst (rev_ref_step w R pos o) = OutErr e ->
    snd (rev_ref_step w R pos o) = pos /\ (e = BadAlign \/ e = BadReadSize).
Proof. exact rev_ref_step_rejected. Qed.
Print Assumptions reversed_view_rejection.

(** Aligned histories: from a sample-aligned position, every history of tell, seek(off, _)
    with off a multiple of w and read(n) with n >= 0 a multiple of w gives exactly the
    outputs of an ordinary read-only file over the reversed content. *)
Theorem reversed_view_aligned_history :
  forall w size sub content ops s,
    wf_rev w size sub content -> good (V (KRev w) size sub) s ->
    v_tell s mod w = 0 -> Forall (op_aligned w) ops ->
    fst (run (V (KRev w) size sub) content s ops)
    = ref_run (rev_samples w (logical sub content)) (v_tell s) ops.
Proof. exact reversed_view_aligned_ops_lemma. Qed.
Print Assumptions reversed_view_aligned_history.

(** More generally: any history of seek/tell/read(n >= 0) along which the ordinary file only
    visits sample-aligned positions (e.g. read(5) of a width-2 view two bytes before the
    end). *)
Theorem reversed_view_aligned_positions :
  forall w size sub content ops s,
    wf_rev w size sub content -> good (V (KRev w) size sub) s -> Forall op_ok ops ->
    v_tell s mod w = 0 ->
    Forall (fun p => p mod w = 0)
           (ref_positions (rev_samples w (logical sub content)) (v_tell s) ops) ->
    fst (run (V (KRev w) size sub) content s ops)
    = ref_run (rev_samples w (logical sub content)) (v_tell s) ops.
Proof. exact reversed_view_aligned_positions_lemma. Qed.
Print Assumptions reversed_view_aligned_positions.

(** Sample width 1: nothing is ever rejected, read(n < 0) included. *)
Theorem reversed_view_width1 :
  forall size sub content ops s,
    wf_rev 1 size sub content -> good (V (KRev 1) size sub) s ->
    fst (run (V (KRev 1) size sub) content s ops)
    = ref_runA (rev_samples 1 (logical sub content)) (v_tell s) ops.
Proof. exact reversed_view_width1_lemma. Qed.
Print Assumptions reversed_view_width1.

(** read(n < 0) of the reversed view works in 4096-byte buffers.  From a sample-aligned
    position it returns the rest of the reversed content and ends at the end whenever the
    sample width divides 4096 (the only width the code base uses is ROLAND_SAMPLE_WIDTH = 2)
    or at most one buffer is left; otherwise (e.g. width 3, more than 4096 bytes left) the
    first buffer is not a whole number of samples and the call is rejected with BadReadSize:
    see [reversed_view_refines_file] and [ex_rev_readall_width3]. *)
Theorem reversed_view_readall :
  forall w size sub content s n,
    wf_rev w size sub content -> good (V (KRev w) size sub) s -> n < 0 ->
    v_tell s mod w = 0 -> (4096 mod w = 0 \/ size - v_tell s <= 4096) ->
    let R := rev_samples w (logical sub content) in
    exists s', step (V (KRev w) size sub) content s (ORead n)
               = (OutBytes (slice R (v_tell s) (zlen R)), s')
               /\ good (V (KRev w) size sub) s' /\ v_tell s' = zlen R.
Proof. exact rev_readall_step_lemma. Qed.
Print Assumptions reversed_view_readall.

(** The reversed content byte by byte: [logical] of the reversed view (byte a of the view is
    byte size - (a/w + 1)*w + a mod w of the sub-view) is [rev_samples]; and its slices:
    bytes [p, p+t) for whole-sample p, t are the reversal of bytes [size-(p+t), size-p). *)
Theorem reversed_view_logical_content :
  forall w size sub content,
    wf_rev w size sub content ->
    logical (V (KRev w) size sub) content = rev_samples w (logical sub content).
Proof. exact logical_rev. Qed.
Print Assumptions reversed_view_logical_content.
Theorem reversed_content_slice :
  forall w Ls size p t,
    0 < w -> zlen Ls = size -> size mod w = 0 -> p mod w = 0 -> t mod w = 0 ->
    0 <= p -> 0 <= t -> p + t <= size ->
    slice (rev_samples w Ls) p (p + t) = rev_samples w (slice Ls (size - (p + t)) (size - p)).
Proof. exact rev_slice. Qed.
Print Assumptions reversed_content_slice.

(** a fresh reversed view is in a good state (position 0: aligned) *)
Theorem fresh_reversed_view_good :
  forall w size sub content c,
    wf_rev w size sub content -> 0 <= c ->
    good (V (KRev w) size sub) (init_state (V (KRev w) size sub) c)
    /\ v_tell (init_state (V (KRev w) size sub) c) mod w = 0.
Proof. exact init_good_rev. Qed.
Print Assumptions fresh_reversed_view_good.

(** Non-vacuity: Reversed 2 over Offset over a chained file (the shape built by
    roland/s7xx/sample_file.py: StreamReversed(StreamOffset(stream, size, off), size, 2)). *)
Definition ex_rev_sub : view := V (KOff 3) 8 (V (KSect 4 (MChain [4; 0; 2])) 12 Base).
Definition ex_rev_view : view := V (KRev 2) 8 ex_rev_sub.
Example ex_rev_wf : wf_rev 2 8 ex_rev_sub ex_content.
Proof.
  unfold wf_rev. split; [lia|]. split; [lia|]. split; [reflexivity|]. split; [reflexivity|].
  cbn [wf ex_rev_sub kind_ok]. repeat split; try (vm_compute; congruence); try lia.
  repeat constructor; vm_compute; congruence.
Qed.
Example ex_rev_content :
  logical ex_rev_sub ex_content = [119; 100; 101; 102; 103; 108; 109; 110]
  /\ rev_samples 2 (logical ex_rev_sub ex_content) = [109; 110; 103; 108; 101; 102; 119; 100].
Proof. vm_compute. auto. Qed.
(** aligned history: the ordinary file over the reversed content *)
Example ex_rev_run_aligned :
  let ops := [ORead 2; OSeek (-4) 2; ORead 6; OTell; OSeek 2 0; ORead 4] in
  Forall (op_aligned 2) ops
  /\ fst (run ex_rev_view ex_content (init_state ex_rev_view 5) ops)
     = [OutBytes [109; 110]; OutPos 4; OutBytes [101; 102; 119; 100]; OutPos 8; OutPos 2;
        OutBytes [103; 108; 101; 102]]
  /\ ref_run (rev_samples 2 (logical ex_rev_sub ex_content)) 0 ops
     = [OutBytes [109; 110]; OutPos 4; OutBytes [101; 102; 119; 100]; OutPos 8; OutPos 2;
        OutBytes [103; 108; 101; 102]].
Proof. split; [repeat constructor; cbn; lia|]. vm_compute. auto. Qed.
(** non-aligned operations are rejected and do not move the position; read(3) two bytes
    before the end is clipped to one sample and accepted; read(-1) reads the rest *)
Example ex_rev_run_rejects :
  fst (run ex_rev_view ex_content (init_state ex_rev_view 0)
           [ORead 3; OTell; OSeek 3 0; OTell; ORead 2; OSeek 6 0; ORead 3; OSeek 2 0; ORead (-1); OTell])
  = [OutErr BadReadSize; OutPos 0; OutErr BadAlign; OutPos 0; OutBytes [109; 110]; OutPos 6;
     OutBytes [119; 100]; OutPos 2; OutBytes [103; 108; 101; 102; 119; 100]; OutPos 8].
Proof. vm_compute. reflexivity. Qed.
(** read(-1) of a width-3 reversed view with more than one 4096-byte buffer left is rejected
    (StreamWrapper.readall reads buffer_length = 4096 bytes at a time); the real class
    behaves the same: StreamReversed(BytesIO(bytes(4098)), 4098, sample_width=3).read(-1)
    raises BadReadSize. *)
Example ex_rev_readall_width3 :
  let c := map (fun i => Z.of_nat i mod 251) (seq 0 (Z.to_nat 4098)) in
  let v := V (KRev 3) 4098 Base in
  wf_rev 3 4098 Base c
  /\ fst (run v c (init_state v 0) [ORead (-1); OTell; OSeek 6 0; ORead (-1); OTell])
     = [OutErr BadReadSize; OutPos 0; OutPos 6;
        OutBytes (slice (rev_samples 3 c) 6 4098); OutPos 4098].
Proof.
  split; [unfold wf_rev; repeat split; try lia; vm_compute; reflexivity|].
  vm_compute. reflexivity.
Qed.
(** readall on the reversal-free example view *)
Example ex_view_readall :
  fst (run ex_view ex_content (init_state ex_view 7) [ORead 1; ORead (-1); OTell; ORead (-3)])
  = [OutBytes [114]; OutBytes [115; 104; 105; 106; 107]; OutPos 6; OutBytes []].
Proof. vm_compute. reflexivity. Qed.
