(** C10 - Every item `ls` shows can be addressed by the names shown; other paths say so.
    Property theorems only. *)
From SE Require Import Base Codecs Cue Names NamesProofs PathProofs NamesMoreProofs NamesTotalProofs.

(** Sibling names printed by `ls` (make_safe_names) are pairwise distinct, one per item, for
    ANY raw names... *)
Theorem ls_names_distinct :
  forall elems names, make_safe_names elems = Ok names -> NoDup names /\ length names = length elems.
Proof. intros elems names. apply sanitize_names_distinct_lemma. Qed.
Print Assumptions ls_names_distinct.

(** The naming routines ALWAYS succeed: for any sibling list whatsoever (any raw names, any number of
    identical ones) every item is given a printed name and an export name - never
    CouldNotDetermineName, never out of fuel (pigeonhole on the set of names already taken) - and
    the names are pairwise distinct.  So every item `ls` shows has a name by which it can be addressed. *)
Theorem ls_names_always_assigned :
  forall elems, exists names, make_safe_names elems = Ok names /\ NoDup names /\ length names = length elems.
Proof. intros elems. apply sanitize_names_ok_lemma. Qed.
Print Assumptions ls_names_always_assigned.
Theorem export_names_always_assigned :
  forall elems, exists names, make_export_names elems = Ok names /\ NoDup names /\ length names = length elems.
Proof. intros elems. apply sanitize_names_ok_lemma. Qed.
Print Assumptions export_names_always_assigned.

(** ...and contain neither "/" nor "\", so a printed name is never split by the tokenizer. *)
Theorem ls_names_no_separator :
  forall elems names, make_safe_names elems = Ok names -> forall n, In n names -> nosep n.
Proof. exact safe_names_nosep_lemma. Qed.
Print Assumptions ls_names_no_separator.

(** For names without surrounding blanks the lookup key (non-AKAI normalisation: strip) is the
    name itself, so distinct names have distinct keys. *)
Theorem ls_keys_distinct :
  forall names, Forall stripped names -> NoDup names -> NoDup (map (sanitize_token false) names).
Proof. exact keys_distinct_lemma. Qed.
Print Assumptions ls_keys_distinct.

(** In general - for ANY raw sibling names - the lookup keys of the names `ls` prints are
    pairwise distinct.  The printed names are not always stripped: the counted forms of the
    empty safe name and of stereo-shaped names with an empty stem ("-L", "-L" -> "-L",
    " (2) L") begin with a blank; but such a name is one blank followed by "(", and
    make_safe_name never outputs a parenthesis, so no two printed names strip to the same
    key.  This discharges the sibling-key hypothesis of [node_at] (used by [path_roundtrip])
    for every directory of a non-AKAI image. *)
Theorem ls_keys_distinct_general :
  forall elems names, make_safe_names elems = Ok names -> NoDup (map (sanitize_token false) names).
Proof. exact keys_distinct_general_lemma. Qed.
Print Assumptions ls_keys_distinct_general.

(** AKAI images normalise with upper-case + strip + one trailing colon dropped.  For raw
    names over the AKAI display alphabet (digits, blank, A-Z, # + - . : what
    [akai_to_ascii] yields) the printed names (with the "(" ")" of counted forms) contain no
    lower-case letter and no colon, the AKAI key of a printed name is its strip, and the keys
    are pairwise distinct as well. *)
Theorem ls_keys_distinct_akai :
  forall elems names,
    Forall (fun e => Forall (fun c => akai_char c = true) (fst e)) elems ->
    make_safe_names elems = Ok names -> NoDup (map (sanitize_token true) names).
Proof. exact keys_distinct_akai_lemma. Qed.
Print Assumptions ls_keys_distinct_akai.

(** the alphabet hypothesis holds of every name the AKAI string decoder returns *)
Theorem akai_decoded_names_in_alphabet :
  forall l s, akai_to_ascii l = Ok s -> Forall (fun c => akai_char c = true) s.
Proof. exact akai_to_ascii_alphabet. Qed.
Print Assumptions akai_decoded_names_in_alphabet.

(** more generally: raw names without lower-case letters and without ":" (any other
    characters allowed): the AKAI keys coincide with the plain keys and are distinct *)
Theorem ls_keys_distinct_no_lowercase_no_colon :
  forall elems names,
    Forall (fun e => Forall (fun c => plain_c c = true) (fst e)) elems ->
    make_safe_names elems = Ok names ->
    map (sanitize_token true) names = map (sanitize_token false) names
    /\ NoDup (map (sanitize_token true) names).
Proof. exact keys_distinct_plain_lemma. Qed.
Print Assumptions ls_keys_distinct_no_lowercase_no_colon.

(** Non-vacuity: "-L", "-L", "--L", "--L", "", "" -> printed "-L", " (2) L", "--L", " (3) L",
    "", " (2)" (three begin with a blank); keys "-L", "(2) L", "--L", "(3) L", "", "(2)".
    AKAI: "KICK", "KICK", "KICK -L", "KICK -L". *)
Example c10_keys_example :
  let elems := [([45;76], true); ([45;76], true); ([45;45;76], true); ([45;45;76], true); ([], true); ([], true)] in
  let akai := [([75;73;67;75], true); ([75;73;67;75], true); ([75;73;67;75;32;45;76], true); ([75;73;67;75;32;45;76], true)] in
  make_safe_names elems = Ok [[45;76]; [32;40;50;41;32;76]; [45;45;76]; [32;40;51;41;32;76]; []; [32;40;50;41]]
  /\ map (sanitize_token false) [[45;76]; [32;40;50;41;32;76]; [45;45;76]; [32;40;51;41;32;76]; []; [32;40;50;41]]
     = [[45;76]; [40;50;41;32;76]; [45;45;76]; [40;51;41;32;76]; []; [40;50;41]]
  /\ Forall (fun e => Forall (fun c => akai_char c = true) (fst e)) akai
  /\ (r <- make_safe_names akai ;; Ok (map (sanitize_token true) r))
     = Ok [[75;73;67;75]; [75;73;67;75;32;40;50;41]; [75;73;67;75;32;45;76]; [75;73;67;75;32;40;50;41;32;76]].
Proof. cbv zeta. split; [|split; [|split]]; try (vm_compute; reflexivity). repeat constructor. Qed.

(** Tokenizer: a path string that reads, after stripping, t0 sep t1 sep ... tn with an
    optional trailing separator (sep = "/", "\" or "\\"; tokens free of separators and
    non-empty) yields exactly the tokens t0..tn. *)
Theorem path_tokens_exact :
  forall p t0 r,
    nosep t0 -> wf_rest r -> (forall t, In t (t0 :: map snd r) -> t <> []) ->
    (strip p = t0 ++ join_rest r \/ exists s, is_sepstr s /\ strip p = t0 ++ join_rest r ++ s) ->
    path_tokens p = t0 :: map snd r.
Proof.
  intros p t0 r H0 Hr Hne [H|(s & Hs & H)].
  - now apply path_tokens_join.
  - eapply path_tokens_join_trailing; eauto.
Qed.
Print Assumptions path_tokens_exact.

(** Round trip, any depth: if the node reached by child indices [idxs] carries the names
    [names] on the way (sibling keys distinct at every directory passed), then ANY token list
    whose tokens normalise to those names - blanks around them, and for AKAI images any letter
    case and a trailing colon - resolves to exactly that node. *)
Theorem path_roundtrip :
  forall akai root idxs names toks,
    node_at akai root idxs names ->
    Forall2 (fun tok name => sanitize_token akai tok = sanitize_token akai name) toks names ->
    walk akai toks root = Some idxs.
Proof. exact walk_roundtrip. Qed.
Print Assumptions path_roundtrip.

(** Combined, on the path STRING. *)
Theorem path_string_roundtrip :
  forall akai root idxs names p t0 r,
    node_at akai root idxs names ->
    nosep t0 -> wf_rest r -> (forall t, In t (t0 :: map snd r) -> t <> []) ->
    (strip p = t0 ++ join_rest r \/ exists s, is_sepstr s /\ strip p = t0 ++ join_rest r ++ s) ->
    Forall2 (fun tok name => sanitize_token akai tok = sanitize_token akai name) (t0 :: map snd r) names ->
    parse_path akai root p = Some idxs.
Proof.
  intros akai root idxs names p t0 r Hn H0 Hr Hne Hp HF. unfold parse_path.
  rewrite (path_tokens_exact p t0 r H0 Hr Hne Hp). eapply walk_roundtrip; eassumption.
Qed.
Print Assumptions path_string_roundtrip.

(** Any other path string whatsoever: the walk answers with an existing node (as many
    indices as tokens, each inside its directory) or with "not found" - there is no third
    outcome. *)
Theorem path_total :
  forall akai root p,
    parse_path akai root p = None \/
    exists idxs, parse_path akai root p = Some idxs /\ length idxs = length (path_tokens p).
Proof.
  intros akai root p. unfold parse_path. destruct (walk akai (path_tokens p) root) as [idxs|] eqn:E; [|now left].
  right. exists idxs. split; [reflexivity|]. exact (proj1 (walk_sound akai _ _ _ E)).
Qed.
Print Assumptions path_total.

(** Non-vacuity: partition A / volume "VOL 1" / sample "KICK (2)"; decorated AKAI path
    " a: \\ vol 1 /KICK (2)/ " resolves to [0;1;1]. *)
Example c10_example :
  let smp := [([75;73;67;75], Leaf); ([75;73;67;75;32;40;50;41], Leaf)] in
  let root := Dir [([65], Dir [([88], Dir []); ([86;79;76;32;49], Dir smp)])] in
  parse_path true root [32;97;58;32;92;92;32;118;111;108;32;49;32;47;75;73;67;75;32;40;50;41;47;32] = Some [0%nat;1%nat;1%nat]
  /\ parse_path true root [65;47;78;79;80;69] = None.
Proof. vm_compute. split; reflexivity. Qed.
