(** C07 - Allocation chains resolve to exactly the linked sectors, and always terminate.
    Property theorems only. *)
From SE Require Import Base Fat FatProofs AkaiChainProofs.

(** Resolution through a link table: a chain present in the table (every sector in range,
    followed through its links to an end marker) that fits in the table is returned
    exactly, in order - for every table, start and length. *)
Theorem get_path_follows :
  forall links size start c,
    Chain links start c -> zlen c <= size -> get_path size links start = Ok c.
Proof. exact get_path_follows_lemma. Qed.
Print Assumptions get_path_follows.

(** For ANY table whatsoever (cycles, self links, links beyond the table...) resolution
    terminates: it never exhausts fuel [size+1]; it answers with a path of at most [size]
    in-range sectors starting at the start sector, or with one of two reported errors. *)
Theorem get_path_total :
  forall size links start, 0 <= size ->
    get_path size links start <> OutOfFuel /\
    (forall p, get_path size links start = Ok p ->
       zlen p <= size /\ Forall (fun s => s < zlen links) p /\ exists t, p = start :: t) /\
    (forall e, get_path size links start = Err e ->
       e = RequestedInvalidSector \/ e = InvalidFatDefinition).
Proof. exact get_path_total_lemma. Qed.
Print Assumptions get_path_total.

(** AKAI SAT decoding terminates for every table of non-negative words of any length
    (inner walk bounded by 2*size+2 steps: potential = clean sectors + distance to the end
    of the current reserved run) and returns one link per entry. *)
Theorem akai_decode_total :
  forall block, Forall (fun w => 0 <= w) block ->
    akai_decode block <> OutOfFuel /\
    (forall t, akai_decode block = Ok t -> length t = length block).
Proof. exact akai_decode_total_lemma. Qed.
Print Assumptions akai_decode_total.

(** Roland FAT decoding terminates for every table (after the D2 fix: a walk longer than
    the table is rejected), and so does get_file. *)
Theorem roland_decode_total : forall fat, roland_decode fat <> OutOfFuel.
Proof. exact roland_decode_total_lemma. Qed.
Print Assumptions roland_decode_total.
Theorem roland_get_file_total :
  forall N links index off, 0 <= N -> roland_get_file N links index off <> OutOfFuel.
Proof. exact roland_get_file_total_lemma. Qed.

(** Chain resolution through the DECODED AKAI table, UNBOUNDED: for every raw table (any
    length up to 0xC000 words, any contents) and every start, a raw chain (every sector in
    range, not repeated, word neither free nor a reserved flag, ending at an EOF word) whose
    sectors are each linked exactly once (the head from no table word) resolves to exactly
    itself - whatever the order of its sectors (after the D4 fix the head need not be the
    lowest sector) and whatever else the table holds.
    The hypothesis [zlen block <= 49152] (weaker than the <= 16384 that keeps all three flag
    words out of range; the real table has 11386 entries) is NEEDED: in a larger table the EOF
    word 0xC000 is itself an in-range link, see [akai_decode_chain_statement_refuted]. *)
Theorem akai_decode_chain :
  forall block s c,
    Forall (fun w => 0 <= w < 65536) block ->
    zlen block <= 49152 ->
    raw_chain (S (length block)) block [] s = Some c ->
    linked_once block c = true ->
    akai_get_segment block s = Ok c.
Proof. exact akai_decode_chain_lemma. Qed.
Print Assumptions akai_decode_chain.

(** The statement without the size bound ([FatProofs.akai_decode_chain_statement]) is false of
    the model (and of the code): witness = 49152 free words followed by two EOF words, start
    49153: the decoder joins sector 49153 to the already decoded sector 49152 = 0xC000. *)
Theorem akai_decode_chain_statement_refuted : ~ akai_decode_chain_statement.
Proof. exact akai_decode_chain_statement_refuted_lemma. Qed.
Print Assumptions akai_decode_chain_statement_refuted.

(** Directory areas, UNBOUNDED: from the first sector of every maximal run of reserved-flag
    words (preceded by a non-reserved word or the table start) resolution yields exactly the
    run, including a run that ends with the table (D11 fix) - for every table of at most
    0x4000 words (so that the reserved flags are never in-range links), whatever else it holds
    (other chains may link into the middle of the run). *)
Theorem akai_decode_dir_run :
  forall block s,
    Forall (fun w => 0 <= w < 65536) block ->
    zlen block <= 16384 ->
    0 <= s < zlen block ->
    is_dir_word (znth 0 block s) = true ->
    (s = 0 \/ is_dir_word (znth 0 block (s - 1)) = false) ->
    akai_get_segment block s = Ok (run_from (length block) block s).
Proof. exact akai_decode_dir_run_lemma. Qed.
Print Assumptions akai_decode_dir_run.

(** ... and that bound is needed too: 16385 free words followed by one reserved flag. *)
Theorem akai_dir_run_bound_needed :
  exists block s,
    Forall (fun w => 0 <= w < 65536) block /\ 0 <= s < zlen block /\
    is_dir_word (znth 0 block s) = true /\
    (s = 0 \/ is_dir_word (znth 0 block (s - 1)) = false) /\
    akai_get_segment block s <> Ok (run_from (length block) block s).
Proof. exact akai_dir_run_bound_needed_lemma. Qed.
Print Assumptions akai_dir_run_bound_needed.

(** The earlier bounded theorems (kept): complete enumeration of every raw table of n <= 4
    words over {free, EOF, reserved x2, every in-range link, one out-of-range} and every start. *)
Theorem akai_decode_chain_upto_4_partial : all_ok 1 && all_ok 2 && all_ok 3 && all_ok 4 = true.
Proof. exact akai_chain_small_scope_all. Qed.
Print Assumptions akai_decode_chain_upto_4_partial.
Theorem akai_dir_run_upto_4_partial : all_runs_ok 1 && all_runs_ok 2 && all_runs_ok 3 && all_runs_ok 4 = true.
Proof. exact akai_run_small_scope_all. Qed.
Print Assumptions akai_dir_run_upto_4_partial.

(** The two former findings, now repaired in /repo (fix: commits d707c3a, 99f5bc9). *)
Theorem akai_chain_head_not_lowest_fixed :
  akai_get_segment [0; 0; 0; 5; 0; SAT_EOF; 0; 3] 7 = Ok [7; 3; 5].
Proof. exact akai_chain_head_not_lowest_fixed_lemma. Qed.
Theorem akai_dir_run_at_table_end_fixed :
  akai_get_segment [0; 0; 0; SAT_RES_STD; SAT_RES_STD] 3 = Ok [3; 4]
  /\ akai_get_segment [0; 0; 0; SAT_RES_STD; SAT_RES_STD; 0] 3 = Ok [3; 4].
Proof. exact akai_dir_run_at_table_end_fixed_lemma. Qed.

(** Non-vacuity: a fragmented chain, a reserved run and garbage in one 8-word table. *)
Example c07_example_chain :
  Chain [dlink; dlink; {| lnext := 6; lend := false |}; dlink; dlink; dlink;
         {| lnext := 4; lend := false |}] 2 [2; 6; 4].
Proof.
  apply chain_step; [cbv; intuition discriminate|reflexivity|].
  apply chain_step; [cbv; intuition discriminate|reflexivity|].
  apply chain_end; [cbv; intuition discriminate|reflexivity].
Qed.
Example c07_example_akai :
  akai_get_segment [SAT_RES_STD; SAT_RES_STD; 6; 9; SAT_EOF; 2; 4; 1] 2 = Ok [2; 6; 4]
  /\ akai_get_segment [SAT_RES_STD; SAT_RES_STD; 6; 9; SAT_EOF; 2; 4; 1] 0 = Ok [0; 1].
Proof. vm_compute. split; reflexivity. Qed.

(** Non-vacuity of the hypotheses of [akai_decode_chain] / [akai_decode_dir_run]. *)
Example c07_example_chain_hyps :
  let block := [SAT_RES_STD; SAT_RES_STD; 6; 9; SAT_EOF; 2; 4; 1] in
  raw_chain (S (length block)) block [] 5 = Some [5; 2; 6; 4]
  /\ linked_once block [5; 2; 6; 4] = true
  /\ is_dir_word (znth 0 block 0) = true
  /\ run_from (length block) block 0 = [0; 1].
Proof. vm_compute. repeat split; reflexivity. Qed.
