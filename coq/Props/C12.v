(** C12 - PCM transcoding maps every source channel to the same-numbered output channel.
    Property theorems only. *)
From SE Require Import Base Transcode FatProofs TranscodeProofs.

(** Draining the transcoder terminates for ANY streams, block size and lengths. *)
Theorem transcode_total : forall target ss dw dc, transcode target ss dw dc <> OutOfFuel.
Proof. exact transcode_total_lemma. Qed.
Print Assumptions transcode_total.

(** The two argument errors of make_transcoder. *)
Theorem transcode_no_stream : forall target dw dc, transcode target [] dw dc = Err NoDataStream.
Proof. exact transcode_no_stream_lemma. Qed.
Theorem transcode_channel_mismatch :
  forall target s ss dw dc,
    fold_right (fun s a => nchan s + a) 0 (s :: ss) <> dc ->
    transcode target (s :: ss) dw dc = Err IncompatibleNumberOfChannels.
Proof. exact transcode_channel_mismatch_lemma. Qed.

(** The property itself ([prop_ok]: whole output frames of sum(channels) samples; frame
    count between the shortest and the longest source and exact when they are equal; output
    frame f / channel c = little-endian bytes of source channel c frame f for every f below
    the shortest source).  BOUNDED theorem - the bound is the grid in the statement: 1-2
    streams x 1-2 channels x width 1-2 x both byte orders x 0-3 frames x trailing partial
    frame x block size {1,3,4,8}; 8448 configurations enumerated inside Coq.  The unbounded
    statement is not proved yet (named _partial for that reason). *)
Theorem transcode_property_on_grid_partial : grid_ok = true.
Proof. exact transcode_grid_all. Qed.
Print Assumptions transcode_property_on_grid_partial.

(** Non-vacuity / what the predicate sees: a big-endian stereo stream next to a
    little-endian mono stream (the D7 shape), block of one frame. *)
Example c12_example_mixed :
  transcode 1 [ {| sbytes := [1;2;3;4; 5;6;7;8]; swidth := 2; schans := 2; sbig := true |};
                {| sbytes := [21;22; 23;24]; swidth := 2; schans := 1; sbig := false |} ] 2 3
  = Ok [2;1;4;3;21;22; 6;5;8;7;23;24].
Proof. vm_compute. reflexivity. Qed.
