(** C12 - PCM transcoding maps every source channel to the same-numbered output channel.
    Property theorems only. *)
From SE Require Import Base Transcode FatProofs TranscodeProofs TranscodeUnbounded.

(** Draining the transcoder terminates for ANY streams, block size and lengths. *)
Theorem transcode_total : forall target ss dw dc, transcode target ss dw dc <> OutOfFuel.
Proof. exact transcode_total_lemma. Qed.
Print Assumptions transcode_total.

(** The two argument errors of make_transcoder. *)
Theorem transcode_no_stream : forall target dw dc, transcode target [] dw dc = Err NoDataStream.
Proof. exact transcode_no_stream_lemma. Qed.
Theorem transcode_channel_mismatch :
  forall target s ss dw dc,
    fold_right (fun s a => nchan s + a) 0 (s :: ss) <> dc ->
    transcode target (s :: ss) dw dc = Err IncompatibleNumberOfChannels.
Proof. exact transcode_channel_mismatch_lemma. Qed.

(** * The property, UNBOUNDED: any number of streams, any common sample width [w >= 1], any
    channel counts [>= 1], any byte orders, any lengths (partial trailing frames included),
    any block size [target] (no condition on [target] at all: the code clamps the block to
    at least one frame).

    Vocabulary (TranscodeProofs.v / TranscodeUnbounded.v):
    - [uniform w ss]      every source has [swidth = w] and [schans >= 1];
    - [sum_chans ss]      the destination channel count, sum of the sources' channels;
    - [whole_frames s]    [len (sbytes s) / frame_size s];
    - [min_frames ss], [max_frames ss]   shortest / longest source, in whole frames;
    - [src_sample s f c]  the little-endian bytes of sample (frame f, channel c) of source s;
    - [expected_frame ss f]  all sources' frames f side by side, channels in source order;
    - [full_frame ss f]   same, but a source with no frame f contributes zero padding;
    - [block_frames target ss]  frames per block (get_buffer_sizes);
    - [out_count target ss] = min (ceil(min_frames / block_frames) * block_frames, max_frames). *)

(** EXACT output, all inputs: [out_count] frames, frame f = [full_frame ss f]. *)
Theorem transcode_exact :
  forall target ss w, ss <> [] -> 1 <= w -> uniform w ss ->
    transcode target ss w (sum_chans ss)
    = Ok (concat (map (full_frame ss) (map Z.of_nat (seq 0 (Z.to_nat (out_count target ss)))))).
Proof. exact transcode_exact_lemma. Qed.
Print Assumptions transcode_exact.

(** (3) Frame map and bounds for UNEQUAL lengths: the output consists of exactly
    [out_count target ss] whole frames of [sum_chans ss] samples; that count lies between the
    shortest and the longest source; every output frame f is [full_frame ss f]; and for every
    f below the shortest source it is exactly the sources' frames f, channel by channel in
    source order ([expected_frame]). *)
Theorem transcode_frame_map :
  forall target ss w, ss <> [] -> 1 <= w -> uniform w ss ->
  exists out,
    transcode target ss w (sum_chans ss) = Ok out
    /\ zlen out = out_count target ss * (sum_chans ss * w)
    /\ min_frames ss <= out_count target ss <= max_frames ss
    /\ (forall f, 0 <= f < out_count target ss ->
          slice out (f * (sum_chans ss * w)) ((f + 1) * (sum_chans ss * w)) = full_frame ss f)
    /\ (forall f, 0 <= f < min_frames ss ->
          slice out (f * (sum_chans ss * w)) ((f + 1) * (sum_chans ss * w)) = expected_frame ss f).
Proof. exact transcode_frame_map_lemma. Qed.
Print Assumptions transcode_frame_map.

(** (1) Equal frame counts: if every source has exactly [F] whole frames (a trailing
    partial frame is allowed and dropped) the output is the frame-by-frame interleaving
    [interleaved ss F = concat_{f<F} concat_{s in ss} concat_{c<schans s} src_sample s f c],
    whatever [target]. *)
Theorem transcode_equal_frames :
  forall target ss w F, ss <> [] -> 1 <= w -> uniform w ss ->
    (forall s, In s ss -> whole_frames s = F) ->
    transcode target ss w (sum_chans ss) = Ok (interleaved ss F).
Proof. exact transcode_equal_frames_lemma. Qed.
Print Assumptions transcode_equal_frames.
(** ... in particular when every length is exactly [F] frames. *)
Theorem transcode_equal_lengths :
  forall target ss w F, ss <> [] -> 1 <= w -> uniform w ss ->
    (forall s, In s ss -> zlen (sbytes s) = F * frame_size s) ->
    transcode target ss w (sum_chans ss) = Ok (interleaved ss F).
Proof. exact transcode_equal_lengths_lemma. Qed.
Print Assumptions transcode_equal_lengths.
Theorem transcode_equal_frames_length :
  forall w ss F, 1 <= w -> uniform w ss -> 0 <= F ->
    (forall s, In s ss -> whole_frames s = F) ->
    zlen (interleaved ss F) = F * (sum_chans ss * w).
Proof. exact interleaved_length. Qed.
Print Assumptions transcode_equal_frames_length.
Theorem transcode_block_size_independent :
  forall t1 t2 ss w F, ss <> [] -> 1 <= w -> uniform w ss ->
    (forall s, In s ss -> whole_frames s = F) ->
    transcode t1 ss w (sum_chans ss) = transcode t2 ss w (sum_chans ss).
Proof. exact transcode_block_size_independent_lemma. Qed.
Print Assumptions transcode_block_size_independent.

(** (2) The stereo pair of C05: two mono 16-bit little-endian streams of equal even
    length give the 2-byte samples of L and R alternately, L first in every frame. *)
Theorem transcode_stereo_pair :
  forall target L R F, zlen L = 2 * F -> zlen R = 2 * F ->
    transcode target [mono16 L; mono16 R] 2 2 = Ok (interleave2 L R).
Proof. exact transcode_stereo_pair_lemma. Qed.
Print Assumptions transcode_stereo_pair.

(** (4) Passthrough: a single little-endian stream (its encoding equals the destination,
    [enc_eq_dest] holds, PassthroughTranscoder runs) is copied, truncated to whole frames,
    for any block size. *)
Theorem transcode_passthrough :
  forall target w s, 1 <= w -> swidth s = w -> 1 <= schans s -> sbig s = false ->
    transcode target [s] w (schans s) = Ok (firstn (Z.to_nat (whole_frames s * frame_size s)) (sbytes s)).
Proof. exact transcode_single_le_lemma. Qed.
Print Assumptions transcode_passthrough.
Theorem transcode_passthrough_selected :
  forall w s, swidth s = w -> 1 <= schans s -> sbig s = false -> enc_eq_dest s w (schans s) = true.
Proof. exact single_le_is_passthrough. Qed.

(** The boolean predicate of the bounded theorem below holds for ALL uniform inputs. *)
Theorem transcode_property_all :
  forall target ss,
    match ss with [] => True | s0 :: _ => 1 <= swidth s0 /\ uniform (swidth s0) ss end ->
    prop_ok target ss = true.
Proof. exact prop_ok_all_lemma. Qed.
Print Assumptions transcode_property_all.

(** The property itself ([prop_ok]: whole output frames of sum(channels) samples; frame
    count between the shortest and the longest source and exact when they are equal; output
    frame f / channel c = little-endian bytes of source channel c frame f for every f below
    the shortest source).  BOUNDED theorem - the bound is the grid in the statement: 1-2
    streams x 1-2 channels x width 1-2 x both byte orders x 0-3 frames x trailing partial
    frame x block size {1,3,4,8}; 8448 configurations enumerated inside Coq.  Kept for reference:
    it is now subsumed by [transcode_property_all] above (the name is historical). *)
Theorem transcode_property_on_grid_partial : grid_ok = true.
Proof. exact transcode_grid_all. Qed.
Print Assumptions transcode_property_on_grid_partial.

(** Non-vacuity / what the predicate sees: a big-endian stereo stream next to a
    little-endian mono stream (the D7 shape), block of one frame. *)
Example c12_example_mixed :
  transcode 1 [ {| sbytes := [1;2;3;4; 5;6;7;8]; swidth := 2; schans := 2; sbig := true |};
                {| sbytes := [21;22; 23;24]; swidth := 2; schans := 1; sbig := false |} ] 2 3
  = Ok [2;1;4;3;21;22; 6;5;8;7;23;24].
Proof. vm_compute. reflexivity. Qed.

(** Instances of the unbounded theorems on concrete data. *)
Definition ex_be_stereo : src := {| sbytes := [1;2;3;4; 5;6;7;8; 9]; swidth := 2; schans := 2; sbig := true |}.
Definition ex_le_mono : src := {| sbytes := [21;22; 23;24]; swidth := 2; schans := 1; sbig := false |}.
Definition ex_le_mono_long : src := {| sbytes := [21;22; 23;24; 25;26; 27;28; 29;30]; swidth := 2; schans := 1; sbig := false |}.
Example c12_example_uniform : uniform 2 [ex_be_stereo; ex_le_mono].
Proof. repeat constructor; cbn; lia. Qed.
(** equal frame counts (the stereo source has a trailing partial frame), any block size *)
Example c12_example_equal_frames :
  forall target, transcode target [ex_be_stereo; ex_le_mono] 2 3 = Ok [2;1;4;3;21;22; 6;5;8;7;23;24].
Proof.
  intros target.
  apply (transcode_equal_frames target [ex_be_stereo; ex_le_mono] 2 2);
    [discriminate|lia|exact c12_example_uniform|].
  intros s [<-|[<-|[]]]; reflexivity.
Qed.
(** unequal lengths: 2 and 5 frames, block of one frame: output stops after the shortest *)
Example c12_example_unequal :
  out_count 1 [ex_be_stereo; ex_le_mono_long] = 2
  /\ min_frames [ex_be_stereo; ex_le_mono_long] = 2 /\ max_frames [ex_be_stereo; ex_le_mono_long] = 5
  /\ transcode 1 [ex_be_stereo; ex_le_mono_long] 2 3 = Ok [2;1;4;3;21;22; 6;5;8;7;23;24].
Proof.
  split; [reflexivity|]. split; [reflexivity|]. split; [reflexivity|].
  etransitivity;
    [apply (transcode_exact 1 [ex_be_stereo; ex_le_mono_long] 2); [discriminate|lia|repeat constructor; cbn; lia]
    |reflexivity].
Qed.
(** unequal lengths, block of 4096 bytes: the last block is padded up to the longest source *)
Example c12_example_unequal_padded :
  out_count 4096 [ex_be_stereo; ex_le_mono_long] = 5
  /\ transcode 4096 [ex_be_stereo; ex_le_mono_long] 2 3
     = Ok [2;1;4;3;21;22; 6;5;8;7;23;24; 0;0;0;0;25;26; 0;0;0;0;27;28; 0;0;0;0;29;30].
Proof.
  split; [reflexivity|].
  etransitivity;
    [apply (transcode_exact 4096 [ex_be_stereo; ex_le_mono_long] 2); [discriminate|lia|repeat constructor; cbn; lia]
    |reflexivity].
Qed.
Example c12_example_stereo_pair :
  forall target, transcode target [mono16 [1;2;3;4;5;6]; mono16 [11;12;13;14;15;16]] 2 2
                 = Ok [1;2;11;12; 3;4;13;14; 5;6;15;16].
Proof. intros target. exact (transcode_stereo_pair target [1;2;3;4;5;6] [11;12;13;14;15;16] 3 eq_refl eq_refl). Qed.
Example c12_example_passthrough :
  forall target, transcode target [ {| sbytes := [1;2;3;4;5;6;7;8;9;10]; swidth := 2; schans := 2; sbig := false |} ] 2 2
                 = Ok [1;2;3;4;5;6;7;8].
Proof. intros target. apply (transcode_passthrough target 2); cbn; (reflexivity || lia). Qed.
