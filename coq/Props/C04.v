(** C04 - every exported file is a structurally valid RIFF/WAVE PCM file.
    Property theorems only.  [build_wav] (coq/Wav.v) is the model of export_wav's builder;
    [wav_view_of] / [wav_wellformed] are the independent RIFF walker and the property text. *)
From SE Require Import Base Codecs Transcode Wav WavProofs.

(** For EVERY header value (channels, rate, root key, tuning, loop table - all symbolic) and
    every PCM length: if the build succeeds on 16-bit PCM that is a whole number of frames, the
    file parses as RIFF/WAVE with RIFF size = length - 8; chunks exactly fmt, smpl?, data in
    that order whose sizes 16, 36 + 24k, |pcm| add up to the file; PCM format tag, block align =
    2 x channels, byte rate = rate x block align, 16 bits; data = the PCM handed over; the smpl
    chunk is present exactly when requires_smpl_chunk says so, and k = its declared loop
    count = the number of loop records built (at most the number of loop regions). *)
Theorem wav_wellformed_all :
  forall d pcm b,
    d_width d = 2 -> 1 <= d_channels d -> zlen pcm mod (2 * d_channels d) = 0 ->
    build_wav d pcm = Ok b ->
    wav_wellformed b /\
    exists v, wav_view_of b = Some v
      /\ v_data v = pcm /\ f_channels (v_fmt v) = d_channels d /\ f_rate (v_fmt v) = d_rate d
      /\ (requires_smpl d = false -> v_smpl v = None)
      /\ (requires_smpl d = true -> exists c s,
            smpl_chunk_data d = Ok c /\ v_smpl v = Some s
            /\ s_loop_cnt s = zlen (s_loops c) /\ zlen s = 36 + 24 * zlen (s_loops c)
            /\ zlen (s_loops c) <= zlen (d_loops d)).
Proof. exact wav_wellformed_all_lemma. Qed.
Print Assumptions wav_wellformed_all.

(** The RIFF layer alone, for ANY list of chunks with 4-byte ids (any number, any bodies):
    what RiffStruct builds is read back by the walker as exactly that chunk list, the RIFF
    size is the file length minus 8 and the declared sizes add up to the file. *)
Theorem riff_build_parse :
  forall cs b,
    Forall (fun c => length (fst c) = 4%nat) cs ->
    build_riff cs = Ok b ->
    riff_parse b = Some {| r_size := zlen b - 8; r_chunks := cs |}
    /\ zlen b = 12 + chunks_size cs /\ zlen b - 8 < 4294967296.
Proof. exact build_riff_parse. Qed.
Print Assumptions riff_build_parse.

(** "for which export succeeds", made explicit: the build succeeds exactly when every fmt
    field fits its width, the smpl container can be computed and each of its fields fits 32
    bits, and the RIFF body is shorter than 2^32 bytes.  A field either fits, and then
    occupies exactly its width, or the build fails. *)
Theorem build_succeeds_iff :
  forall d pcm,
    (exists b, build_wav d pcm = Ok b) <->
    fmt_fits d /\
    (if requires_smpl d
     then exists c, smpl_chunk_data d = Ok c /\ smpl_fits c
                    /\ riff_body_size (Some (zlen (s_loops c))) (zlen pcm) < 2 ^ 32
     else riff_body_size None (zlen pcm) < 2 ^ 32).
Proof. exact build_succeeds_iff_lemma. Qed.
Print Assumptions build_succeeds_iff.

(** The data the transcoder hands over is a whole number of frames: for ANY list of source
    streams of a common sample width with >= 1 channel each, any lengths (equal or not, with
    trailing partial samples or frames) and any block size, a drained transcoder yields a
    multiple of width x channels bytes (both the passthrough and the pipeline transcoder). *)
Theorem wav_data_whole_frames :
  forall target ss dw dc pcm,
    1 <= dw -> Forall (fun s => swidth s = dw /\ 1 <= schans s) ss ->
    transcode target ss dw dc = Ok pcm ->
    1 <= dc /\ zlen pcm mod (dw * dc) = 0.
Proof. exact transcode_whole_frames_lemma. Qed.
Print Assumptions wav_data_whole_frames.

(** export_wav end to end (transcoder + builder): whatever 16-bit streams a sample has, a
    file that export_wav completes is well-formed, its data chunk is the transcoder output
    and a whole number of frames. *)
Theorem export_wav_wellformed :
  forall target d ss b,
    Forall (fun s => swidth s = 2 /\ 1 <= schans s) ss ->
    export_wav target d ss = Ok b ->
    wav_wellformed b /\
    exists v pcm, wav_view_of b = Some v /\ transcode target ss 2 (d_channels d) = Ok pcm
      /\ v_data v = pcm /\ zlen pcm mod (2 * d_channels d) = 0
      /\ f_channels (v_fmt v) = d_channels d /\ f_rate (v_fmt v) = d_rate d.
Proof. exact export_wav_wellformed_lemma. Qed.
Print Assumptions export_wav_wellformed.

(** The executable walker + check that the harness runs on every real file decides exactly
    the predicate the theorems are about. *)
Theorem wav_check_is_wellformed : forall b, wav_check b = true <-> wav_wellformed b.
Proof. exact wav_check_iff. Qed.
Print Assumptions wav_check_is_wellformed.

(** The build always terminates, and fails only in these ways: a field that does not fit
    (construct's FormatFieldError, class ConstructError), or - before anything is built -
    round() of a nan / an infinity / an int too large for a float while computing the smpl
    container (ValueError / OverflowError). *)
Theorem build_wav_errors :
  forall d pcm,
    build_wav d pcm <> OutOfFuel /\
    forall e, build_wav d pcm = Err e ->
      e = ConstructErr
      \/ (requires_smpl d = true /\ smpl_chunk_data d = Err e /\ (e = ValueErr \/ e = OverflowErr)).
Proof. exact build_wav_errors_lemma. Qed.
Print Assumptions build_wav_errors.

(** The failing header values, pitch part.  Integer tuning (Roland, CDDA, any int cents):
    the unity note written is root key + floor((50 x semi + cents) / 100) and the pitch
    fraction always fits; so the only failing pitch values are unity note < 0 or >= 2^32. *)
Theorem int_tuning_unity_note :
  forall d c cc,
    cents_or_0 (d_cents d) = PInt cc -> smpl_chunk_data d = Ok c ->
    to_midi_byte (s_note c)
    = to_midi_byte (match d_note d with Some n => n | None => note_C4 end)
      + (50 * (match d_semi d with Some s => s | None => 0 end) + cc) / 100
    /\ fits 32 (s_fraction c).
Proof. exact int_tuning_unity_note_lemma. Qed.
Print Assumptions int_tuning_unity_note.
(** AKAI headers: for ALL 256 x 256 (semitone byte, cents byte) pairs (finite domain = the whole
    domain, evaluated in IEEE binary64 inside Coq) and every root-key byte, the pitch fraction
    fits and the unity note is root key + an offset in [-65, 64]: an AKAI sample's pitch
    fields fail to encode exactly when root key + offset < 0. *)
Theorem akai_unity_note :
  forall d nb semi cb c,
    -128 <= semi <= 127 -> -128 <= cb <= 127 ->
    d_note d = Some (from_akai_byte nb) -> d_semi d = Some semi -> d_cents d = Some (parse_tune_cents cb) ->
    smpl_chunk_data d = Ok c ->
    exists no, -65 <= no <= 64 /\ to_midi_byte (s_note c) = nb + no /\ fits 32 (s_fraction c).
Proof. exact akai_unity_note_lemma. Qed.
Print Assumptions akai_unity_note.

(** Non-vacuity: a stereo sample with a root key, AKAI-style tuning and two loops. *)
Example c04_example :
  let d := {| d_channels := 2; d_width := 2; d_rate := 44100;
              d_note := Some {| degree := 2; sharp := true; octave := 3 |};
              d_semi := Some (-3); d_cents := Some (PInt 20);
              d_loops := [ {| l_start := 10; l_end := 500; l_type := 2; l_forever := true; l_play := None; l_dur := Some (PInt 9999) |};
                           {| l_start := 0; l_end := 4; l_type := 1; l_forever := false; l_play := Some 3; l_dur := None |} ] |} in
  exists b, build_wav d [1; 2; 3; 4; 5; 6; 7; 8] = Ok b /\ zlen b = 44 + 8 + 36 + 48 + 8 /\ wav_check b = true.
Proof. eexists. split; [vm_compute; reflexivity|]. split; vm_compute; reflexivity. Qed.
(** ... and a failing one: AKAI root key byte 24 with semitone byte -128 (unity note -40). *)
Example c04_example_fails :
  build_wav {| d_channels := 1; d_width := 2; d_rate := 44100; d_note := Some (from_akai_byte 24);
               d_semi := Some (-128); d_cents := Some (PInt 0); d_loops := [] |} [1; 2] = Err ConstructErr.
Proof. vm_compute. reflexivity. Qed.
(** ... and the transcoder hypothesis: an AKAI L/R pair of unequal length. *)
Example c04_example_transcode :
  exists pcm, transcode 4096 [ {| sbytes := [1;2;3;4;5]; swidth := 2; schans := 1; sbig := false |};
                               {| sbytes := [9;8]; swidth := 2; schans := 1; sbig := false |} ] 2 2 = Ok pcm
              /\ zlen pcm = 8.
Proof. eexists. split; vm_compute; reflexivity. Qed.
