(** C17 - Cue sheets are read the same regardless of case, spacing and unknown lines.
    Property theorems only. *)
From SE Require Import Base Codecs Cue FatProofs StreamProofs CueProofs.

(** Leading/trailing blanks on ANY lines of ANY text never change the result of parsing
    (the meaning, or the rejection): two line lists that agree after stripping each line parse
    identically.  Unbounded: any number of lines and tracks. *)
Theorem cue_padding_invariant :
  forall a b, same_stripped a b -> parse_cue_sheet a = parse_cue_sheet b.
Proof. exact cue_padding_lemma. Qed.
Print Assumptions cue_padding_invariant.

(** Text in which no line is a FILE line is not a cue sheet (any text, any length). *)
Theorem cue_no_file :
  forall lines, (forall l, In l lines -> m_file (strip l) = None) -> parse_cue_sheet lines = Err BadCueSheet.
Proof. exact cue_no_file_lemma. Qed.
Print Assumptions cue_no_file.

(** Keyword case, blank lines at every position and unrecognised lines before FILE / inside a
    track: BOUNDED theorem (fixed three-track sheet; 4 casings x 3 paddings x every single
    insertion position x 4 blank-line kinds x 5 unrecognised-line kinds, enumerated inside
    Coq).  The unbounded decoration theorem is not proved yet: named _partial. *)
Theorem cue_decorated_small_scope_partial : decorated_ok = true.
Proof. exact cue_decorated_small_scope. Qed.
Print Assumptions cue_decorated_small_scope_partial.

(** Boundary of the claim, stated: an unrecognised line between FILE and the first TRACK is
    rejected by the code (the property does not list that position). *)
Theorem cue_unrecognised_between_file_and_track_rejected :
  parse_cue_sheet (insert_at 1 [82;69;77;32;120] (sheet_lines (fun x => x) [])) = Err BadCueSheet.
Proof. exact cue_junk_after_file_rejected. Qed.

(** Routing: any non-audio track makes it a sampler image, otherwise CDDA (including the
    degenerate sheet with no tracks). *)
Theorem cue_route_cases : forall c,
  (cue_route c = RSampler <-> exists t, In t (c_tracks c) /\ is_audio t = false)
  /\ (cue_route c = RCdda <-> forall t, In t (c_tracks c) -> is_audio t = true).
Proof.
  intros c. unfold cue_route. destruct (existsb _ (c_tracks c)) eqn:E.
  - apply existsb_exists in E as (t & Hin & Ht). apply negb_true_iff in Ht. split.
    + split; [eauto|reflexivity].
    + split; [discriminate|]. intros H. rewrite (H t Hin) in Ht. discriminate.
  - split.
    + split; [discriminate|]. intros (t & Hin & Ht).
      assert (existsb (fun t0 => negb (is_audio t0)) (c_tracks c) = true).
      { apply existsb_exists. exists t. split; [assumption|]. now rewrite Ht. }
      congruence.
    + split; [|reflexivity]. intros _ t Hin. destruct (is_audio t) eqn:Ht; [reflexivity|].
      assert (existsb (fun t0 => negb (is_audio t0)) (c_tracks c) = true).
      { apply existsb_exists. exists t. split; [assumption|]. now rewrite Ht. }
      congruence.
Qed.
Print Assumptions cue_route_cases.
