(** C17 - Cue sheets are read the same regardless of case, spacing and unknown lines.
    Property theorems only. *)
From SE Require Import Base Codecs Cue FatProofs StreamProofs CueProofs CueDecorProofs.

(** Leading/trailing blanks on ANY lines of ANY text never change the result of parsing
    (the meaning, or the rejection): two line lists that agree after stripping each line parse
    identically.  Unbounded: any number of lines and tracks. *)
Theorem cue_padding_invariant :
  forall a b, same_stripped a b -> parse_cue_sheet a = parse_cue_sheet b.
Proof. exact cue_padding_lemma. Qed.
Print Assumptions cue_padding_invariant.

(** Text in which no line is a FILE line is not a cue sheet (any text, any length). *)
Theorem cue_no_file :
  forall lines, (forall l, In l lines -> m_file (strip l) = None) -> parse_cue_sheet lines = Err BadCueSheet.
Proof. exact cue_no_file_lemma. Qed.
Print Assumptions cue_no_file.

(** The canonical sheet of a meaning is read back to exactly that meaning.
    [print_cue c] is: FILE "<bin>" BINARY, then per track TRACK nn <mode>, an optional
    TITLE "<title>", and one INDEX nn mm:ss:ff per index (numbers in decimal, at least two
    digits).  [wf_cue c]: the bin name and the titles hold no double quote and no newline, every
    number is non-negative, every mode is a non-empty word over [A-z0-9/] (the parser's own
    class), no unparsed lines.  Any number of tracks (also none) and of indices (also none),
    numbers of any size.  (The model's int() has no digit limit; CPython >= 3.11 refuses
    digit strings longer than 4300 characters with ValueError.) *)
Theorem cue_parse_canonical :
  forall c, wf_cue c -> parse_cue_sheet (print_cue c) = Ok c.
Proof. exact cue_parse_canonical_lemma. Qed.
Print Assumptions cue_parse_canonical.

(** The UNBOUNDED decoration theorem.  [decorated ls ls'] (CueDecorProofs.v): [ls'] is [ls] with
    (a) each keyword TRACK / TITLE / INDEX / FILE / BINARY in any letter case and (b) any
        blanks before and after each line ([line_variant]);
    (c) blank lines inserted at any position;
    (d) before the FILE line: any inserted lines that are not FILE lines
        ([skipped_before_file]: the FILE pattern does not match the stripped line);
        after the first TRACK line, at any position up to the end: any inserted lines on
        which none of the TRACK / INDEX / TITLE patterns matches ([skipped_in_track]; this is
        exactly the test each parse loop applies, so REM, PERFORMER, FLAGS, PREGAP, ISRC,
        TITLE-without-quotes and even a second FILE line are allowed there: see
        [unrecognised_by_first_char] and the example);
        between the FILE line and the first TRACK line only blank lines (anything else is
        rejected by the code: cue_unrecognised_between_file_and_track_rejected below).
    Every decoration of the canonical sheet of a well-formed meaning parses to that meaning
    ([cue_meaning] forgets the per-track list of unparsed lines, which is where the parser
    keeps the inserted lines).  Any number of tracks, indices and inserted lines. *)
Theorem cue_parse_decorated :
  forall c ls', wf_cue c -> decorated (print_cue c) ls' ->
    exists c', parse_cue_sheet ls' = Ok c' /\ cue_meaning c' = c.
Proof. exact cue_parse_decorated_lemma. Qed.
Print Assumptions cue_parse_decorated.

(** ... "the image produced from it is therefore the same": same meaning tuple, same routing
    (sampler image / CDDA) and the same CDDA track windows for every bin length. *)
Theorem cue_decorated_same_image :
  forall c ls', wf_cue c -> decorated (print_cue c) ls' ->
    exists c', parse_cue_sheet ls' = Ok c' /\ meaning c' = meaning c
               /\ cue_route c' = cue_route c /\ forall eof, cdda_windows c' eof = cdda_windows c eof.
Proof. exact cue_decorated_same_image_lemma. Qed.
Print Assumptions cue_decorated_same_image.

(** The hypotheses are satisfiable on a non-trivial input: a three-track sheet (data track,
    empty title, track without INDEX) decorated with REM / PERFORMER / FLAGS / PREGAP / ISRC
    lines, a TRACK line before FILE, a FILE line inside a track, mixed-case keywords, tabs,
    blanks and blank lines. *)
Example cue_decoration_example :
  wf_cue ex_cue /\ decorated (print_cue ex_cue) ex_decorated
  /\ length ex_decorated = 23%nat /\ length (print_cue ex_cue) = 9%nat.
Proof. split; [exact ex_cue_wf|]. split; [exact ex_decorated_is_decorated|]. split; reflexivity. Qed.

(** Blank lines are a special case of both kinds of skipped lines; a line whose first
    non-blank character is none of T, I, F (either case) is unrecognised everywhere. *)
Theorem cue_blank_and_unrecognised_lines :
  (forall l, blank_line l -> skipped_before_file l /\ skipped_in_track l)
  /\ (forall l, unrecognised l -> skipped_before_file l /\ skipped_in_track l)
  /\ (forall l c t, strip l = c :: t -> lower_c c <> 116 -> lower_c c <> 105 -> lower_c c <> 102 ->
        unrecognised l).
Proof.
  split; [intros l H; split; [now apply blank_skipped_before_file|now apply blank_skipped_in_track]|].
  split; [exact unrecognised_skipped|exact unrecognised_by_first_char].
Qed.
Print Assumptions cue_blank_and_unrecognised_lines.

(** Why "unrecognised" is stated with the parser's own tests: an inserted line that one of the
    patterns DOES match changes the meaning (a TITLE line after the INDEX lines replaces the
    title; a FILE line before the FILE line leaves the sheet's own FILE line between FILE and
    TRACK, which is rejected). *)
Example cue_recognised_insertions_change_meaning :
  (exists c', parse_cue_sheet (print_cue ex_cue ++ [title_line [120]]) = Ok c' /\ meaning c' <> meaning ex_cue)
  /\ parse_cue_sheet (file_line [120] :: print_cue ex_cue) = Err BadCueSheet.
Proof. exact ex_recognised_insertions_change_meaning. Qed.

(** The former BOUNDED theorem (fixed three-track sheet; 4 casings x 3 paddings x every single
    insertion position x 4 blank-line kinds x 5 unrecognised-line kinds, enumerated inside
    Coq), kept for reference; it is subsumed by cue_parse_decorated. *)
Theorem cue_decorated_small_scope_partial : decorated_ok = true.
Proof. exact cue_decorated_small_scope. Qed.
Print Assumptions cue_decorated_small_scope_partial.

(** Boundary of the claim, stated: an unrecognised line between FILE and the first TRACK is
    rejected by the code (the property does not list that position). *)
Theorem cue_unrecognised_between_file_and_track_rejected :
  parse_cue_sheet (insert_at 1 [82;69;77;32;120] (sheet_lines (fun x => x) [])) = Err BadCueSheet.
Proof. exact cue_junk_after_file_rejected. Qed.

(** Routing: any non-audio track makes it a sampler image, otherwise CDDA (including the
    degenerate sheet with no tracks). *)
Theorem cue_route_cases : forall c,
  (cue_route c = RSampler <-> exists t, In t (c_tracks c) /\ is_audio t = false)
  /\ (cue_route c = RCdda <-> forall t, In t (c_tracks c) -> is_audio t = true).
Proof.
  intros c. unfold cue_route. destruct (existsb _ (c_tracks c)) eqn:E.
  - apply existsb_exists in E as (t & Hin & Ht). apply negb_true_iff in Ht. split.
    + split; [eauto|reflexivity].
    + split; [discriminate|]. intros H. rewrite (H t Hin) in Ht. discriminate.
  - split.
    + split; [discriminate|]. intros (t & Hin & Ht).
      assert (existsb (fun t0 => negb (is_audio t0)) (c_tracks c) = true).
      { apply existsb_exists. exists t. split; [assumption|]. now rewrite Ht. }
      congruence.
    + split; [|reflexivity]. intros _ t Hin. destruct (is_audio t) eqn:Ht; [reflexivity|].
      assert (existsb (fun t0 => negb (is_audio t0)) (c_tracks c) = true).
      { apply existsb_exists. exists t. split; [assumption|]. now rewrite Ht. }
      congruence.
Qed.
Print Assumptions cue_route_cases.
