(** C06 - Output paths are unique, file-system safe and confined to the destination.
    Property theorems only.  Names are arbitrary lists of character codes (no restriction to
    the alphabets the formats can store). *)
From SE Require Import Base Codecs Cue Names NamesProofs.

(** A path component is SAFE: non-empty, only word characters, blank, - . # ( ), begins with
    a word character, does not end in a blank or a dot. *)
Definition safe_component (n : list Z) : Prop :=
  n <> [] /\ Forall (fun c => ok_comp c = true) n /\ is_word (hd 0 n) = true
  /\ is_space_c (last_char n) = false /\ last_char n <> 46.

(** The export name of ANY raw name whatsoever is safe: as a file ("<name>.wav") and as a
    directory. *)
Theorem export_name_safe :
  forall name, safe_component (make_export_name name true ++ WAV) /\ safe_component (make_export_name name false).
Proof.
  intros name. split.
  - exact (export_name_safe_comp name true).
  - pose proof (export_name_safe_comp name false) as H. now rewrite app_nil_r in H.
Qed.
Print Assumptions export_name_safe.

(** After the sibling-name routine (sanitize_names_general with make_export_name), for ANY
    list of raw sibling names: one name per element, pairwise distinct... *)
Theorem sibling_export_names_distinct :
  forall elems names, make_export_names elems = Ok names -> NoDup names /\ length names = length elems.
Proof. intros elems names. apply sanitize_names_distinct_lemma. Qed.
Print Assumptions sibling_export_names_distinct.

(** ...every one of them (including the counted forms "X (2)", "X (2) L") a safe file
    component, and a safe directory component when the siblings are directories. *)
Theorem sibling_export_names_safe :
  forall elems names, make_export_names elems = Ok names ->
    (forall x, In x names -> safe_component (x ++ WAV))
    /\ ((forall e, In e elems -> snd e = false) -> forall x, In x names -> safe_component x).
Proof. exact export_names_safe_lemma. Qed.
Print Assumptions sibling_export_names_safe.

(** The names of the files written for one directory after stereo merging (a sibling export
    name, or the stem of a left/right pair) are safe file components. *)
Theorem output_file_names_safe :
  forall names, Forall safe_body names ->
    forall x src, In (x, src) (combine_stereo names) -> safe_component (x ++ WAV).
Proof. exact combine_stereo_names_safe_lemma. Qed.
Print Assumptions output_file_names_safe.

(** Confinement: a safe component is not "." or "..", and contains no "/" "\" or NUL, so a
    path made of safe components joined below the destination cannot leave it. *)
Theorem safe_component_confined :
  forall n, safe_component n -> n <> [46] /\ n <> [46; 46] /\ ~ In 47 n /\ ~ In 92 n /\ ~ In 0 n.
Proof. exact safe_comp_confined. Qed.
Print Assumptions safe_component_confined.

(** The naming loop terminates (never out of fuel) for every sibling list. *)
Theorem sanitize_names_terminates :
  forall elems, make_export_names elems <> OutOfFuel /\ make_safe_names elems <> OutOfFuel.
Proof. intros elems. split; apply sanitize_names_total_lemma. Qed.
Print Assumptions sanitize_names_terminates.

(** Uniqueness of the FILE names of one directory after stereo merging is FALSE on the
    faithful model (known finding D6): a pair is named after its stem even when a sibling
    already has that name.  Uniqueness before merging is the theorem above.  Every such
    collision involves a merged pair: C05, [output_name_collisions_involve_a_pair]. *)
Theorem stereo_stem_collision_refuted :
  exists names, NoDup names /\ ~ NoDup (map fst (combine_stereo names)).
Proof. exact stereo_stem_collision_refuted_lemma. Qed.

(** Non-vacuity: hostile sibling names; the routine succeeds and the theorems apply. *)
Example c06_example :
  (* "../x", "a/b", "B-L", "B L", "B-L", "B L" as files *)
  make_export_names [([46;46;47;120], true); ([97;47;98], true); ([66;45;76], true); ([66;32;76], true);
                     ([66;45;76], true); ([66;32;76], true)]
  = Ok [[48;46;46;32;120]; [97;32;98]; [66;45;76]; [66;32;76]; [66;32;40;50;41;32;76]; [66;32;40;51;41;32;76]].
Proof. vm_compute. reflexivity. Qed.
