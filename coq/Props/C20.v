(** C20 - `ls` reports the header values stored in the image for samples and programs.
    Property theorems only.  Model: Info.v; lemmas: InfoProofs.v.

    Scope of what is proved (all unbounded unless said otherwise):
    - record layouts: every field is read at the sum of the widths before it; parsing the
      serialisation of ANY in-range field values gives those values back (generic in the
      layout, then instantiated for the AKAI sample header, program header and keygroup);
    - derived values: rate default, loop start/end/duration, active-loop filter, Roland
      fine/coarse and nibbles;
    - keygroup chain: keygroups stored at arbitrary positive addresses and linked through
      their next words are read in stored order, number_of_keygroups of them; listed zones =
      non-empty slots in slot order;
    - rendering: a tree that renders within 300 rows and 80 columns reads back as every
      (key path, value) in order.
    str(float) of tuning values is NOT modelled: [print_cents] is a section variable and its
    injectivity a section hypothesis of [tuning_text_determines_stored_byte] (not an axiom). *)
From Coq Require Import String.
From SE Require Import Base Codecs Cue Info InfoProofs.
From Coq Require Import List.
Open Scope list_scope.
Open Scope Z_scope.

(** ** Layouts *)
(** the k-th field of a layout sits at the sum of the widths of the entries before it, and
    [parse] reads every field exactly there *)
Theorem layout_field_offsets :
  (forall L1 n w s b L2,
     offsets (L1 ++ Fld n w s b :: L2) 0 = offsets L1 0 ++ (lsize L1, w, s, b) :: offsets L2 (lsize L1 + w))
  /\ (forall L bs, parse L bs = map (read_at bs) (offsets L 0)).
Proof. exact (conj field_offset_lemma parse_offsets_lemma). Qed.
Print Assumptions layout_field_offsets.

(** for ALL in-range field values of ANY layout: the serialisation has the layout's size and
    parses back to exactly those values, whatever follows it *)
Theorem parse_build_fields :
  forall L vs tail, values_in_range L vs ->
    length (build L vs) = lsize L /\ parse L (build L vs ++ tail) = vs.
Proof. exact (fun L vs tail H => conj (build_length_lemma L vs) (parse_build_lemma L vs tail H)). Qed.
Print Assumptions parse_build_fields.

(** AKAI sample header (140 bytes, 53 fields incl. the 8-entry loop table): decoding the
    serialisation of in-range field values followed by any PCM yields the logical sample
    computed from those values by [sample_of_env] (names, type, rate default, markers,
    tuning, loop mode, active loops) *)
Theorem sample_header_fields :
  forall vs pcm, values_in_range sample_layout vs ->
    decode_sample (build sample_layout vs ++ pcm) = sample_of_env (combine (names sample_layout) vs).
Proof. exact decode_sample_build. Qed.
Print Assumptions sample_header_fields.

(** AKAI program header (72 bytes) *)
Theorem program_header_fields :
  forall vs rest, values_in_range program_layout vs ->
    parse_env program_layout (build program_layout vs ++ rest) = combine (names program_layout) vs.
Proof. exact (parse_env_build program_layout). Qed.
Print Assumptions program_header_fields.

(** AKAI keygroup with n stored zone slots (150 bytes for n = 4): the record is decoded with
    the layout for the stored slot count and yields the stored field values; the listed zones
    are computed from them by [active_zones] *)
Theorem keygroup_fields :
  forall n vs tail, values_in_range (keygroup_layout n) vs -> nth 30 vs 0 = Z.of_nat n ->
    decode_keygroup (build (keygroup_layout n) vs ++ tail) =
      (let e := combine (names (keygroup_layout n)) vs in
       zs_ <- decode_zone_names e n ;;
       Ok {| k_env := e; k_nzones := n; k_next := get e (! "next_keygroup_address");
             k_zones := active_zones zs_ |}).
Proof. exact decode_keygroup_build. Qed.
Print Assumptions keygroup_fields.

(** ** Derived values *)
Theorem sample_rate_default : forall r, sample_rate_of r = if r =? 0 then 44100 else r.
Proof. exact sample_rate_default_lemma. Qed.
Print Assumptions sample_rate_default.

Theorem loop_derivation :
  forall loop_at coarse dur,
    let l := decode_loop loop_at coarse dur in
    le_end l = loop_at /\ le_start l = Z.max 0 (loop_at - 1 - coarse) /\ le_duration l = dur /\
    (le_forever l = true <-> 9999 <= dur).
Proof. exact decode_loop_lemma. Qed.
Print Assumptions loop_derivation.

(** the listed loops are the table entries with a positive duration, in table order, and
    none when the loop mode is "no loop" *)
Theorem active_loop_filter :
  (forall lt table l, In l (active_loops lt table) <-> lt <> LOOP_INACTIVE /\ In l table /\ 0 < le_duration l)
  /\ (forall lt table, lt <> LOOP_INACTIVE -> active_loops lt table = filter (fun l => 0 <? le_duration l) table).
Proof. exact (conj active_loops_lemma active_loops_order). Qed.
Print Assumptions active_loop_filter.

Theorem roland_loop_point :
  forall raw, point_fine raw = raw mod 256 /\ point_address raw = raw / 256
              /\ raw = 256 * point_address raw + point_fine raw.
Proof.
  exact (fun raw => conj (proj1 (roland_point_lemma raw))
                         (conj (proj2 (roland_point_lemma raw)) (roland_point_recompose raw))).
Qed.
Print Assumptions roland_loop_point.
Theorem roland_option_nibbles : forall b, high_nibble b = b / 16 /\ low_nibble b = b mod 16.
Proof. exact roland_nibbles_lemma. Qed.
Print Assumptions roland_option_nibbles.

(** ** Keygroup chain *)
(** keygroups stored at ARBITRARY positive addresses (any order, gaps, before or after one
    another), each linked from its predecessor's next-keygroup word, are returned in stored
    (link) order, exactly [length ks] of them *)
Theorem keygroup_chain_order :
  forall file addrs ks, stored_chain file addrs ks ->
    forall idx total, idx + zlen ks = total ->
      keygroup_walk (length ks) idx total file (hd 0 addrs) = Ok ks.
Proof. exact keygroup_walk_chain. Qed.
Print Assumptions keygroup_chain_order.

(** whole program file: valid header whose count is the chain length and whose first address
    is the chain head *)
Theorem program_keygroups_in_stored_order :
  forall file addrs ks nm,
    let e := parse_env program_layout file in
    Z.of_nat (lsize program_layout) <= zlen file ->
    decode_name (get_arr e (! "program_name") 12) = Ok nm ->
    0 <= get e (! "priority") <= 3 ->
    0 <= get e (! "voice_reassign") <= 1 ->
    get e (! "number_of_keygroups") = zlen ks ->
    ks <> [] ->
    get e (! "first_keygroup_address") = hd 0 addrs ->
    stored_chain file addrs ks ->
    decode_program file = Ok {| p_env := e; p_name := nm; p_keygroups := ks |}.
Proof. exact decode_program_chain. Qed.
Print Assumptions program_keygroups_in_stored_order.

(** the zone slots are decoded in slot order 0..n-1 and the listed ones are exactly those
    with a non-empty name, order kept *)
Theorem listed_zones_are_nonempty_slots :
  (forall e n l, decode_zone_names e n = Ok l -> map z_slot l = seq 0 n)
  /\ (forall l z, In z (active_zones l) <-> In z l /\ z_name z <> [])
  /\ (forall l, exists f, active_zones l = filter f l /\ forall z, f z = true <-> z_name z <> []).
Proof. exact (conj decode_zone_names_slots (conj active_zones_spec active_zones_order)). Qed.
Print Assumptions listed_zones_are_nonempty_slots.

(** known finding D12 on the faithful model: a listed zone does NOT always show its own
    slot's entry of the per-zone arrays *)
Theorem zone_own_slot_refuted : ~ zone_own_slot_statement.
Proof. exact zone_own_slot_refuted_lemma. Qed.
Print Assumptions zone_own_slot_refuted.

(** ** Rendering *)
(** keys without a colon that do not begin with a blank; at most 299 rows (301 lines with the
    two header lines); every row within 80 columns: reading the printed lines back gives every
    (key path, value) of the tree, in order *)
Theorem render_complete :
  forall hdr t,
    keys_ok t -> zlen (rows 0 t) <= 299 ->
    Forall (fun r => zlen (line_of r) <= 80) (rows 0 t) ->
    unrender (print_lines hdr t) = flatten [] t.
Proof. exact render_complete_lemma. Qed.
Print Assumptions render_complete.

(** the same at the level of the text on stdout (lines joined by newlines, read back by
    splitting), when no key or value contains a newline *)
Theorem render_text_complete :
  forall hdr t,
    keys_ok t -> zlen (rows 0 t) <= 299 ->
    Forall (fun r => zlen (line_of r) <= 80) (rows 0 t) ->
    no_nl hdr -> Forall (fun r => no_nl (line_of r)) (rows 0 t) ->
    unrender_text (print_text hdr t) = flatten [] t.
Proof. exact render_text_complete_lemma. Qed.
Print Assumptions render_text_complete.

(** the items built for AKAI samples, AKAI programs (header, keygroups, zones) and CDDA tracks
    have readable keys WHATEVER values are stored, so for them the only conditions are the
    page limits: `ls` output, when it comes, is the listing of the decoded record, and it reads
    back as every (key path, value) of the item *)
Theorem ls_sample_complete :
  forall print_cents fn sn body lines,
    ls_sample print_cents fn sn body = Ok lines ->
    exists s, decode_sample body = Ok s /\
              (fits_page (keyed [] (sample_item print_cents fn s)) ->
               unrender lines = flatten [] (keyed [] (sample_item print_cents fn s))).
Proof. exact ls_sample_complete_lemma. Qed.
Print Assumptions ls_sample_complete.
Theorem ls_program_complete :
  forall print_cents fn sn tn body lines,
    ls_program print_cents fn sn tn body = Ok lines ->
    exists p, decode_program body = Ok p /\
              (fits_page (keyed [] (program_item print_cents fn p)) ->
               unrender lines = flatten [] (keyed [] (program_item print_cents fn p))).
Proof. exact ls_program_complete_lemma. Qed.
Print Assumptions ls_program_complete.
(** CDDA track: channel count 2, rate 44100 and the window's frame count, spelled out *)
Theorem ls_cdda_complete :
  forall sn w,
    unrender (ls_cdda_track sn w) =
      [([ ! "title" ], Some (window_title w)); ([ ! "num_channels" ], Some (str_Z 2));
       ([ ! "sample_rate" ], Some (str_Z 44100)); ([ ! "bytes_per_sample" ], Some (str_Z 2));
       ([ ! "num_audio_samples" ], Some (str_Z (w_samples w)))]
    \/ ~ fits_page (keyed [] (cdda_item (window_title w) (w_samples w))).
Proof. exact ls_cdda_complete_lemma. Qed.
Print Assumptions ls_cdda_complete.

(** ** The opaque printer *)
Section OpaqueFloatPrinter.
  Variable print_cents : Z -> list Z.
  Hypothesis print_cents_injective :
    forall a b, -128 <= a <= 127 -> -128 <= b <= 127 -> print_cents a = print_cents b -> a = b.
  (** two samples with the same listing tree hold the same tuning byte *)
  Theorem tuning_text_determines_stored_byte :
    forall fn s1 s2, -128 <= s_cents s1 <= 127 -> -128 <= s_cents s2 <= 127 ->
      sample_item print_cents fn s1 = sample_item print_cents fn s2 -> s_cents s1 = s_cents s2.
  Proof. exact (fun fn s1 s2 => sample_item_cents_lemma print_cents fn s1 s2 print_cents_injective). Qed.
End OpaqueFloatPrinter.
Print Assumptions tuning_text_determines_stored_byte.

(** ** Non-vacuity *)
(** a program file whose first keygroup is stored BEHIND its second one *)
Example c20_example_chain :
  exists k1 k2, stored_chain example_program_file [225; 75] [k1; k2]
                /\ map z_name (k_zones k1) = [[65]; [66]] /\ map z_name (k_zones k2) = [[67]; [68]]
                /\ map z_slot (k_zones k2) = [0%nat; 2%nat].
Proof.
  eexists. eexists. split.
  - eapply sc_cons; [lia|vm_compute; reflexivity|vm_compute; reflexivity|].
    eapply sc_last; [lia|vm_compute; reflexivity].
  - vm_compute. repeat split; reflexivity.
Qed.
Example c20_example_program :
  match decode_program example_program_file with
  | Ok p => map k_next (p_keygroups p) = [75; 0] /\ p_name p = [80; 82; 79; 71]
  | _ => False
  end.
Proof. vm_compute. split; reflexivity. Qed.
Example c20_example_render :
  let t := keyed [] (cdda_item [65; 32; 66] 1764) in
  keys_ok t /\ zlen (rows 0 t) <= 299 /\ Forall (fun r => zlen (line_of r) <= 80) (rows 0 t)
  /\ unrender (print_lines [72] t) =
       [([ ! "title" ], Some [65; 32; 66]); ([ ! "num_channels" ], Some [50]);
        ([ ! "sample_rate" ], Some (! "44100")); ([ ! "bytes_per_sample" ], Some [50]);
        ([ ! "num_audio_samples" ], Some (! "1764"))].
Proof.
  cbv zeta. split; [|split; [|split]].
  - unfold keys_ok. vm_compute. repeat constructor; try (intro H; repeat destruct H as [H|H]; try discriminate; exact H); discriminate.
  - vm_compute. discriminate.
  - vm_compute. repeat constructor; discriminate.
  - vm_compute. reflexivity.
Qed.
Example c20_example_values_in_range :
  exists vs, values_in_range sample_layout vs /\ length vs = 53%nat /\ nth 14 vs 0 = 2 /\ nth 15 vs 0 = -128.
Proof.
  exists ([3; 60] ++ repeat 10 12 ++ [2; -128; 127; 40; 3; 30] ++ repeat 7 32 ++ [44100]).
  split; [|vm_compute; repeat split; reflexivity].
  unfold values_in_range. vm_compute fields.
  repeat (first [apply Forall2_nil | apply Forall2_cons; [vm_compute; split; [discriminate|reflexivity] |]]).
Qed.
