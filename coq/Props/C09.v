(** C09 - Listing and export do not depend on the container the image is wrapped in.
    Property theorems only.  The parsers read an image through a byte-window view chosen by
    determine_image_type; by C08 (view_refines_file) a well-formed view behaves, under any
    history, as an ordinary file over its LOGICAL content.  The theorems below say that for
    each container the detection picks the right view, that the view is well formed, and
    that its logical content is the wrapped image itself - so every parser (any function of
    the bytes it reads) sees the same file whatever the wrapping. *)
From SE Require Import Base Stream FatProofs StreamProofs Cue CueProofs Container ContainerProofs Names AkaiImage.

(** Alcohol MDX wrapper: recognised as MDX; StreamOffset(64, eof - 64) is a well-formed view
    whose logical content is the wrapped image, for every image (of less than 2^63 bytes). *)
Theorem mdx_container_transparent :
  forall d, 0 < zlen d < 2 ^ 63 ->
    detect (wrap_mdx d) = CMdx /\
    wf (container_view (wrap_mdx d)) (wrap_mdx d) /\
    logical (container_view (wrap_mdx d)) (wrap_mdx d) = d.
Proof. exact mdx_view_lemma. Qed.
Print Assumptions mdx_container_transparent.

(** MODE1/2352 raw sectors: recognised as MDF; the 2048-byte user-data view is well formed
    and its logical content is the image padded with zeros to whole 2048-byte blocks, for an
    image of ANY length (multiple of 2048 or not). *)
Theorem raw_sector_container_transparent :
  forall d, d <> [] ->
    detect (wrap_2352 d) = CMdf /\
    wf (container_view (wrap_2352 d)) (wrap_2352 d) /\
    logical (container_view (wrap_2352 d)) (wrap_2352 d) = pad_to 2048 d.
Proof. exact mdf_view_lemma. Qed.
Print Assumptions raw_sector_container_transparent.

(** for whole-block images the padding is empty *)
Theorem pad_whole_blocks : forall d, zlen d mod 2048 = 0 -> pad_to 2048 d = d.
Proof.
  intros d H. unfold pad_to. rewrite H. cbn. unfold zrepeat. cbn. apply app_nil_r.
Qed.

(** A file that begins with neither magic is read directly. *)
Theorem raw_container_transparent :
  forall f, is_mdf f = false -> is_mdx f = false -> container_view f = Base /\ (logical (container_view f) f) = f.
Proof. exact raw_view_lemma. Qed.
Print Assumptions raw_container_transparent.

(** Consequently, through either wrapper, every read history on the view returns the bytes
    an ordinary file over the wrapped image would return (instance of C08). *)
Theorem mdx_reads_as_plain_file :
  forall d ops s, 0 < zlen d < 2 ^ 63 ->
    good (container_view (wrap_mdx d)) s -> Forall op_ok ops ->
    fst (run (container_view (wrap_mdx d)) (wrap_mdx d) s ops) = ref_run d (v_tell s) ops.
Proof.
  intros d ops s Hd Hg Ho. destruct (mdx_view_lemma d Hd) as (E & W & L).
  unfold container_view in *. rewrite E in *.
  rewrite (view_refines_file_lemma _ _ _ _ _ _ W Hg Ho). now rewrite L.
Qed.
Print Assumptions mdx_reads_as_plain_file.
Theorem raw_sectors_read_as_plain_file :
  forall d ops s, d <> [] ->
    good (container_view (wrap_2352 d)) s -> Forall op_ok ops ->
    fst (run (container_view (wrap_2352 d)) (wrap_2352 d) s ops) = ref_run (pad_to 2048 d) (v_tell s) ops.
Proof.
  intros d ops s Hd Hg Ho. destruct (mdf_view_lemma d Hd) as (E & W & L).
  unfold container_view in *. rewrite E in *. unfold mdf_view in *.
  rewrite (view_refines_file_lemma _ _ _ _ _ _ W Hg Ho). now rewrite L.
Qed.
Print Assumptions raw_sectors_read_as_plain_file.

(** Cue sheets: a sheet with a data track is a sampler image over its bin file (which then
    goes through the same detection), a sheet whose tracks are all audio is CDDA. *)
Theorem cue_routing :
  forall c, (cue_route c = RSampler <-> existsb (fun t => negb (is_audio t)) (c_tracks c) = true).
Proof.
  intros c. unfold cue_route. destruct (existsb _ (c_tracks c)); split; intros H; try reflexivity; discriminate.
Qed.


(** * Composition with the whole-image model (C01's [akai_export] / [akai_listing])
    [opened f] is the byte content every parser reads when handed the file [f]: the logical
    content of the view the detection chose (by the two theorems above every read history on
    that view returns exactly these bytes).  Export and listing THROUGH a container are the
    whole-image functions applied to it. *)
Definition opened (f : list Z) : list Z := logical (container_view f) f.
Definition export_of_file (f : list Z) := akai_export (opened f).
Definition listing_of_file (f : list Z) := akai_listing (opened f).

(** For EVERY image d (any bytes, any size, well-formed or not): wrapped in MDX, or in
    MODE1/2352 raw sectors when its size is a whole number of 2048-byte blocks, or not wrapped
    at all, the exported files (paths, rates, channel counts, PCM) and the listed tree are those
    of the plain image - including the error result when the plain image is rejected. *)
Theorem container_export_transparent_mdx :
  forall d, 0 < zlen d < 2 ^ 63 ->
    export_of_file (wrap_mdx d) = akai_export d /\ listing_of_file (wrap_mdx d) = akai_listing d.
Proof.
  intros d Hd. destruct (mdx_view_lemma d Hd) as (_ & _ & L).
  unfold export_of_file, listing_of_file, opened. rewrite L. split; reflexivity.
Qed.
Print Assumptions container_export_transparent_mdx.

Theorem container_export_transparent_2352 :
  forall d, d <> [] -> zlen d mod 2048 = 0 ->
    export_of_file (wrap_2352 d) = akai_export d /\ listing_of_file (wrap_2352 d) = akai_listing d.
Proof.
  intros d Hd Hm. destruct (mdf_view_lemma d Hd) as (_ & _ & L).
  unfold export_of_file, listing_of_file, opened. rewrite L, (pad_whole_blocks d Hm). split; reflexivity.
Qed.
Print Assumptions container_export_transparent_2352.

(** any length: the parsers see the image followed by fewer than 2048 zero bytes *)
Theorem container_export_2352_any_length :
  forall d, d <> [] ->
    export_of_file (wrap_2352 d) = akai_export (pad_to 2048 d) /\ listing_of_file (wrap_2352 d) = akai_listing (pad_to 2048 d).
Proof.
  intros d Hd. destruct (mdf_view_lemma d Hd) as (_ & _ & L).
  unfold export_of_file, listing_of_file, opened. rewrite L. split; reflexivity.
Qed.

Theorem container_export_transparent_raw :
  forall f, is_mdf f = false -> is_mdx f = false ->
    export_of_file f = akai_export f /\ listing_of_file f = akai_listing f.
Proof.
  intros f H1 H2. destruct (raw_view_lemma f H1 H2) as (_ & L).
  unfold export_of_file, listing_of_file, opened. rewrite L. split; reflexivity.
Qed.
Print Assumptions container_export_transparent_raw.

(** the same for ANY function of the bytes read (Roland parser, CDDA data tracks, ...) *)
Theorem container_transparent_for_every_parser :
  forall (T : Type) (parser : list Z -> T) d,
    (0 < zlen d < 2 ^ 63 -> parser (opened (wrap_mdx d)) = parser d) /\
    (d <> [] -> zlen d mod 2048 = 0 -> parser (opened (wrap_2352 d)) = parser d).
Proof.
  intros T parser d. split.
  - intros Hd. destruct (mdx_view_lemma d Hd) as (_ & _ & L). unfold opened. now rewrite L.
  - intros Hd Hm. destruct (mdf_view_lemma d Hd) as (_ & _ & L). unfold opened. now rewrite L, (pad_whole_blocks d Hm).
Qed.
Print Assumptions container_transparent_for_every_parser.

(** Non-vacuity: a 5000-byte image, both wrappings. *)
Example c09_example :
  let d := map (fun i => Z.of_nat i mod 251) (seq 0 50) ++ zrepeat 7 4950 in
  detect (wrap_2352 d) = CMdf /\ detect (wrap_mdx d) = CMdx /\ detect d = CRaw
  /\ zlen (wrap_2352 d) = 3 * 2352 /\ zlen (wrap_mdx d) = 5064.
Proof. vm_compute. repeat split; reflexivity. Qed.
