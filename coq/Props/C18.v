(** C18 - Name, note and tuning codecs round-trip over their whole domains.
    Property theorems only; each is closed by [exact] of a lemma proved elsewhere. *)
From SE Require Import Base Codecs CodecsProofs.

(** AKAI<->ASCII is a bijection between the 41 valid codes 0x00..0x28 and 41 distinct
    ASCII characters (both source implementations of AKAI->ASCII agree), and every other
    byte value is rejected with InvalidCharacter, in both directions. *)
Theorem akai_ascii_valid :
  forall b, 0 <= b <= 40 ->
    exists a, fast_akai_to_ascii_byte b = Ok a /\ convert_byte a ASCII AKAI = Ok b
              /\ convert_byte b AKAI ASCII = Ok a.
Proof. exact akai_valid_lemma. Qed.
Print Assumptions akai_ascii_valid.

Theorem akai_ascii_invalid :
  forall b, 40 < b < 256 ->
    fast_akai_to_ascii_byte b = Err InvalidCharacter /\ convert_byte b AKAI ASCII = Err InvalidCharacter.
Proof. exact akai_invalid_lemma. Qed.
Print Assumptions akai_ascii_invalid.

Theorem ascii_akai_back :
  forall a, 0 <= a < 256 ->
    (forall k, convert_byte a ASCII AKAI = Ok k -> 0 <= k <= 40 /\ fast_akai_to_ascii_byte k = Ok a)
    /\ (forall e, convert_byte a ASCII AKAI = Err e -> e = InvalidCharacter)
    /\ convert_byte a ASCII AKAI <> OutOfFuel.
Proof. exact ascii_back_lemma. Qed.
Print Assumptions ascii_akai_back.

Theorem akai_alphabet_has_41_characters : length akai_images = 41%nat /\ NoDup akai_images.
Proof. exact akai_images_41. Qed.
Print Assumptions akai_alphabet_has_41_characters.

(** Names of ANY length over the valid codes round-trip; one invalid byte rejects. *)
Theorem akai_string_roundtrip :
  forall l, Forall (fun b => 0 <= b <= 40) l ->
    exists s, akai_to_ascii l = Ok s /\ ascii_to_akai s = Ok l.
Proof. exact akai_string_roundtrip_lemma. Qed.
Print Assumptions akai_string_roundtrip.

Theorem ascii_string_roundtrip :
  forall s l, Forall (fun a => 0 <= a < 256) s -> ascii_to_akai s = Ok l -> akai_to_ascii l = Ok s.
Proof. exact ascii_string_roundtrip_lemma. Qed.
Print Assumptions ascii_string_roundtrip.

Theorem akai_string_invalid :
  forall l, Forall (fun b => 0 <= b < 256) l -> Exists (fun b => 40 < b) l ->
    akai_to_ascii l = Err InvalidCharacter.
Proof. exact akai_string_invalid_lemma. Qed.
Print Assumptions akai_string_invalid.

(** Note number -> note -> number is the identity for EVERY integer (so for every byte
    in both the AKAI and the MIDI offset conventions). *)
Theorem note_number_roundtrip : forall z, to_int_a0 (from_int_a0 z) = z.
Proof. exact note_number_roundtrip_lemma. Qed.
Print Assumptions note_number_roundtrip.
Theorem akai_byte_roundtrip : forall b, to_akai_byte (from_akai_byte b) = b.
Proof. exact akai_byte_roundtrip_lemma. Qed.
Theorem midi_byte_roundtrip : forall b, to_midi_byte (from_midi_byte b) = b.
Proof. exact midi_byte_roundtrip_lemma. Qed.

(** A note's text parses back to the same note for octaves 0..9. *)
Theorem note_text_roundtrip :
  forall d s o, 0 <= d <= 6 -> 0 <= o <= 9 ->
    note_from_string (note_to_string {| degree := d; sharp := s; octave := o |})
    = Ok {| degree := d; sharp := s; octave := o |}.
Proof. exact note_text_roundtrip_lemma. Qed.
Print Assumptions note_text_roundtrip.

(** Tuning byte -> cents -> byte, all 256 signed bytes, IEEE binary64 arithmetic. *)
Theorem tune_roundtrip : forall x, -128 <= x <= 127 -> build_tune_cents (parse_tune_cents x) = x.
Proof. exact tune_roundtrip_lemma. Qed.
Print Assumptions tune_roundtrip.

(** Non-vacuity: concrete instances. *)
Example c18_example_note : from_akai_byte 60 = {| degree := 2; sharp := false; octave := 3 |}.
Proof. reflexivity. Qed.
Example c18_example_string : akai_to_ascii [28; 11; 29; 10; 37; 1] = Ok [82; 65; 83; 32; 35; 49].
Proof. reflexivity. Qed.
