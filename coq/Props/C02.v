(** C02 - Roland S-7xx export is byte-exact for every cluster chain and loop mode.
    Property theorems only (lemmas in RolandProofs.v, RolandChainProofs.v, FatProofs.v,
    StreamProofs.v, StreamRevProofs.v). *)
From SE Require Import Base Fat FatProofs Stream StreamProofs StreamRevProofs Roland RolandProofs
                       RolandChainProofs.

(** The window every one of the seven _get_*_params functions selects, for EVERY loop-mode
    value and every five points: bytes [2*start, 2*start + 2*(end_mode - start + 1)) with
    end_mode = release-loop end for modes 1 and 3 and sustain-loop end for every other mode
    (0, 2, 4, 5, 6, and any unknown value, which falls back to mode 0); the stream is wrapped
    in the 16-bit reversing view exactly for modes 5 and 6. *)
Theorem roland_window : forall mode p,
  w_off (get_params mode p) = 2 * p_start p /\
  w_size (get_params mode p) = 2 * (roland_end mode p - p_start p + 1) /\
  w_rev (get_params mode p) = roland_reversed mode.
Proof. exact roland_window_lemma. Qed.
Print Assumptions roland_window.

(** The content of the exported data stream, for any file view below it: the words
    start..end_mode of the file, and for the two reverse modes [rev_samples 2] of that range
    (16-bit words in reverse time order).  Any window inside the file, including one that
    ends on the file's last byte. *)
Theorem roland_sample_bytes : forall mode p file content,
  0 <= p_start p -> p_start p <= roland_end mode p + 1 ->
  2 * (roland_end mode p + 1) <= zlen (logical file content) ->
  logical (roland_sample_view mode p file) content = window_bytes mode p (logical file content).
Proof. exact roland_sample_bytes_lemma. Qed.
Print Assumptions roland_sample_bytes.

(** Forward modes (0-4): under ANY history of seek / tell / read(n >= 0) - any block size the
    transcoder may use - the exported stream answers as an ordinary file over that window
    (instance of C08's view_refines_file; covers a read that ends exactly at the end). *)
Theorem roland_forward_reads : forall mode p file content ops s,
  roland_reversed mode = false -> wf file content ->
  0 <= p_start p -> p_start p <= roland_end mode p ->
  2 * (roland_end mode p + 1) <= zlen (logical file content) ->
  good (roland_sample_view mode p file) s -> Forall op_ok ops ->
  fst (run (roland_sample_view mode p file) content s ops)
  = ref_run (window_bytes mode p (logical file content)) (v_tell s) ops.
Proof. exact roland_forward_reads_lemma. Qed.
Print Assumptions roland_forward_reads.

(** The two REVERSE modes (5, 6).  readall() of the fresh exported stream returns the whole
    window with its 16-bit words in reverse time order, for every window inside the file
    (the window size is a whole, positive number of words by construction; readall works in
    4096-byte buffers, a whole number of words); never OutOfFuel, never an alignment error.
    Instance of C08's reversed-view theorems (StreamRevProofs.v). *)
Theorem roland_reverse_reads : forall mode p file content,
  roland_reversed mode = true -> wf file content ->
  0 <= p_start p -> p_start p <= roland_end mode p ->
  2 * (roland_end mode p + 1) <= zlen (logical file content) ->
  read_all (roland_sample_view mode p file) content = Ok (window_bytes mode p (logical file content)).
Proof. exact roland_reverse_reads_lemma. Qed.
Print Assumptions roland_reverse_reads.
(** ... and under ANY history of tell / seek(off, _) / read(n >= 0) whose offsets and sizes are
    whole numbers of 16-bit words - any block size the transcoder may use - from any
    word-aligned good state, the stream answers as an ordinary file over the reversed window
    (the counterpart of [roland_forward_reads]; non-aligned operations are rejected with
    BadAlign / BadReadSize, position unchanged: C08's reversed_view_refines_file). *)
Theorem roland_reverse_history : forall mode p file content ops s,
  roland_reversed mode = true -> wf file content ->
  0 <= p_start p -> p_start p <= roland_end mode p ->
  2 * (roland_end mode p + 1) <= zlen (logical file content) ->
  good (roland_sample_view mode p file) s -> v_tell s mod 2 = 0 -> Forall (op_aligned 2) ops ->
  fst (run (roland_sample_view mode p file) content s ops)
  = ref_run (window_bytes mode p (logical file content)) (v_tell s) ops.
Proof. exact roland_reverse_history_lemma. Qed.
Print Assumptions roland_reverse_history.
(** readall() for EVERY loop-mode value (forward modes: C08's readall_reads_rest). *)
Theorem roland_readall : forall mode p file content,
  wf file content ->
  0 <= p_start p -> p_start p <= roland_end mode p ->
  2 * (roland_end mode p + 1) <= zlen (logical file content) ->
  read_all (roland_sample_view mode p file) content = Ok (window_bytes mode p (logical file content)).
Proof. exact roland_readall_lemma. Qed.
Print Assumptions roland_readall.

(** The file of a sample: for ANY order of the clusters in the chain (no ordering hypothesis),
    byte a of the file is byte (a mod L) of the (a / L)-th cluster of the chain, for every a up
    to and including the last byte of the last cluster ... *)
Theorem roland_file_bytes : forall L secs parent content a,
  0 < L -> 0 <= a < L * zlen secs ->
  znth 0 (logical (chain_view L secs parent) content) a
  = znth 0 (logical parent content) (znth 0 secs (a / L) * L + a mod L).
Proof. exact roland_file_bytes_lemma. Qed.
Print Assumptions roland_file_bytes.
(** ... and that view is a well-formed file (so C08 applies to it and to every window over
    it) whenever its clusters lie inside the image's data window, whatever their order. *)
Theorem roland_file_wf : forall L doff ilen secs content,
  0 < L -> 0 <= doff -> doff < ilen -> ilen <= zlen content -> secs <> [] ->
  Forall (fun c => 0 <= c /\ (c + 1) * L <= ilen - doff) secs ->
  wf (roland_file_view L doff ilen secs) content.
Proof. exact roland_file_wf_lemma. Qed.
Print Assumptions roland_file_wf.

(** get_file on a link table that holds the chain returns the chain minus its [cluster_top]
    leading clusters, for every chain (any cluster order) and every offset.  (The name keeps
    its historical suffix: the step from the raw FAT words to the link table is
    [roland_decode_chain] below, the composition is [roland_chain_resolved].) *)
Theorem roland_chain_resolved_partial : forall N links c top,
  Chain links (hd 0 c) c -> zlen c <= N -> 0 <= top ->
  roland_get_file N links (hd 0 c) top = Ok (skipn (Z.to_nat top) c).
Proof. exact roland_get_file_chain_lemma. Qed.
Print Assumptions roland_chain_resolved_partial.

(** Raw FAT words -> link table.  [raw_roland_chain fat c] (RolandChainProofs.v): [c] is not
    empty; every cluster of [c] lies in the part of the table the decoder scans
    ([2, N - 9)) and below the flag values (automatic in the real table: N = 0x10000, so
    N - 9 = 0xfff7); the word of each cluster but the last is the number of the next one
    (the model, like the code, follows the raw 16-bit word whatever the FAT version), the
    word of the last is an end mark (>= 0xfff8).  No ordering, no "linked once" and no
    no-repetition hypothesis (absence of repetition FOLLOWS: [raw_roland_chain_nodup]). *)
Theorem raw_roland_chain_unfold : forall fat c,
  raw_roland_chain fat c <->
  c <> [] /\
  Forall (fun x => 2 <= x < zlen fat - 9 /\ x < FAT_END) c /\
  (forall i, 0 <= i < zlen c - 1 -> znth 0 fat (znth 0 c i) = znth 0 c (i + 1)) /\
  FAT_END <= znth 0 fat (znth 0 c (zlen c - 1)).
Proof. exact raw_roland_chain_unfold_lemma. Qed.
Print Assumptions raw_roland_chain_unfold.
(** In EVERY accepted table ([roland_decode] = Ok: no error flag on a walked path, no free /
    reserved word in the middle of a path, no loop) every raw chain is installed in the
    decoded link table - whatever else the table holds: chains entered at a cluster that is
    not their lowest, chains sharing a tail with other chains (cross-linked), any cluster
    order, any table size.  Unbounded (invariants over [roland_outer] / [roland_walk]). *)
Theorem roland_decode_chain : forall fat ver links c,
  roland_decode fat = Ok (ver, links) -> raw_roland_chain fat c -> Chain links (hd 0 c) c.
Proof. exact roland_decode_chain_lemma. Qed.
Print Assumptions roland_decode_chain.
Theorem raw_roland_chain_nodup : forall fat c,
  raw_roland_chain fat c -> NoDup c /\ zlen c <= zlen fat.
Proof. exact raw_roland_chain_nodup_lemma. Qed.
Print Assumptions raw_roland_chain_nodup.
(** Raw FAT words -> cluster list of the sample file (decode, then get_file). *)
Theorem roland_chain_resolved : forall fat ver links c top,
  roland_decode fat = Ok (ver, links) -> raw_roland_chain fat c -> 0 <= top ->
  roland_get_file (zlen fat) links (hd 0 c) top = Ok (skipn (Z.to_nat top) c).
Proof. exact roland_chain_resolved_lemma. Qed.
Print Assumptions roland_chain_resolved.

(** Raw FAT words + image bytes -> exported PCM bytes, composing everything above: for every
    accepted FAT, raw chain, [cluster_top] inside the chain, loop mode and window inside the
    remaining clusters (clusters inside the image's data window), readall() of the stream
    SampleFile.to_generalized builds over the decoded table is the window of the file made of
    the chain's clusters minus the first [cluster_top], in chain order (16-bit words reversed
    for modes 5, 6).  [L] = cluster size, [doff] = DATA_FAT_OFFSET (parameters of the model). *)
Theorem roland_sample_pcm_exact : forall L doff fat image ver links c top mode p,
  roland_decode fat = Ok (ver, links) -> raw_roland_chain fat c ->
  0 < L -> 0 <= doff < zlen image -> 0 <= top < zlen c ->
  Forall (fun x => (x + 1) * L <= zlen image - doff) c ->
  0 <= p_start p -> p_start p <= roland_end mode p ->
  2 * (roland_end mode p + 1) <= L * (zlen c - top) ->
  let file := roland_file_view L doff (zlen image) (skipn (Z.to_nat top) c) in
  roland_sample_pcm L doff fat image (hd 0 c) top mode p
  = Ok (window_bytes mode p (logical file image)).
Proof. exact roland_sample_pcm_lemma. Qed.
Print Assumptions roland_sample_pcm_exact.

(** The sample files of a performance are EXACTLY the samples reachable performance -> patch
    -> partial -> sample slot through non-negative, in-range pointers: every reachable sample
    is listed and nothing else is; within one patch each sample is listed once. *)
Theorem roland_reachable_exact : forall d p s, In s (perf_samples d p) <-> Reachable d p s.
Proof. exact roland_reachable_exact_lemma. Qed.
Print Assumptions roland_reachable_exact.
Theorem roland_patch_samples_once : forall d a, NoDup (patch_samples d a).
Proof. exact patch_samples_nodup_lemma. Qed.
Print Assumptions roland_patch_samples_once.

(** The pseudo volume holds exactly the performance directory entries no volume points to. *)
Theorem roland_orphans_exact : forall d p,
  In p (orphan_perfs d) <->
  In p (d_perf_dir d) /\ ~ exists raw, In raw (d_volumes d) /\ In p raw /\ 0 <= p.
Proof. exact roland_orphans_lemma. Qed.
Print Assumptions roland_orphans_exact.
(** The pseudo volume is PRESENT whenever such a performance exists (the counting test of
    VolumeEntriesList._parse: number of distinct listed pointers < num_performances), when
    the id area's num_performances counts the directory entries and the volumes only list
    directory entries (pigeonhole on the duplicate-free np.unique output). *)
Theorem roland_orphan_volume_present : forall d,
  NoDup (d_perf_dir d) -> d_num_perf d = zlen (d_perf_dir d) ->
  (forall p, In p (listed_perfs d) -> In p (d_perf_dir d)) ->
  orphan_perfs d <> [] -> In (ORPHAN_VOLUME, orphan_perfs d) (roland_volumes d).
Proof. exact roland_orphan_volume_present_lemma. Qed.
Print Assumptions roland_orphan_volume_present.
(** the same from weaker hypotheses: num_performances >= number of directory entries (the
    directory need not be duplicate free) *)
Theorem roland_orphan_volume_present_general : forall d,
  zlen (d_perf_dir d) <= d_num_perf d ->
  (forall p, In p (listed_perfs d) -> In p (d_perf_dir d)) ->
  orphan_perfs d <> [] -> In (ORPHAN_VOLUME, orphan_perfs d) (roland_volumes d).
Proof. exact roland_orphan_volume_present_general_lemma. Qed.
Print Assumptions roland_orphan_volume_present_general.
(** conversely (at most 128 real volumes): an entry numbered 128 comes from that test only and
    lists exactly the orphans *)
Theorem roland_orphan_volume_only : forall d ps,
  zlen (d_volumes d) <= ORPHAN_VOLUME ->
  In (ORPHAN_VOLUME, ps) (roland_volumes d) ->
  ps = orphan_perfs d /\ zlen (listed_perfs d) < d_num_perf d.
Proof. exact roland_orphan_volume_only_lemma. Qed.
Print Assumptions roland_orphan_volume_only.
(** Still not proved in Coq: the end-to-end composition with naming and the WAV writer
    (image-level oracle only). *)

(** Non-vacuity: a scaled-down disk (cluster = 4 bytes, data window at byte 3) whose sample
    lives on the chain 4 -> 2 -> 3 (entered at its HIGHEST cluster), one leading cluster
    skipped, reverse-loop mode, window = words 1..3 of the remaining two clusters, the last
    word being the last of the chain. *)
Definition ex_fat : list Z := [FAT_AREA_ID; 0; 3; FAT_V1; 2; 0; 0; 0; 0; 0; 0; 0; FAT_V1; FAT_V1].
Definition ex_image : list Z := map Z.of_nat (seq 100 23).
Definition ex_points : rpoints :=
  {| p_start := 1; p_sus_start := 2; p_sus_end := 3; p_rel_start := 0; p_rel_end := 1 |}.
Example c02_example_pcm :
  roland_sample_pcm 4 3 ex_fat ex_image 4 1 6 ex_points = Ok [117; 118; 115; 116; 113; 114]
  /\ roland_sample_pcm 4 3 ex_fat ex_image 4 1 1 ex_points = Ok [113; 114]
  /\ roland_sample_pcm 4 3 ex_fat ex_image 4 0 2 ex_points = Ok [121; 122; 111; 112; 113; 114].
Proof. vm_compute. repeat split; reflexivity. Qed.
Example c02_example_hypotheses :
  let file := roland_file_view 4 3 23 [2; 3] in
  wf file ex_image /\ 2 * (roland_end 6 ex_points + 1) <= zlen (logical file ex_image)
  /\ window_bytes 6 ex_points (logical file ex_image) = [117; 118; 115; 116; 113; 114].
Proof.
  cbn zeta. split; [|split].
  - apply roland_file_wf; try lia; try (vm_compute; congruence). 
    repeat constructor; vm_compute; congruence.
  - vm_compute. congruence.
  - vm_compute. reflexivity.
Qed.
Example c02_example_reachable :
  let d := {| d_num_perf := 2; d_volumes := [[0; -1]]; d_perf_dir := [0; 3];
              d_perf := [(0, [1; -1]); (3, [1])]; d_patch := [(1, [2; 2; -1])];
              d_partial := [(2, [5; -1; 7; 5])] |} in
  perf_samples d 0 = [5; 7] /\ roland_listing d = [(0, [(0, [5; 7])]); (128, [(3, [5; 7])])].
Proof. vm_compute. split; reflexivity. Qed.

(** Non-vacuity of the new theorems.  The chain 4 -> 2 -> 3 of [ex_fat] is a raw chain; so
    are, in a table where two chains share the tail 3 -> 4 (cross-linked), both of them; the
    end-to-end theorem applies to the example above (all its hypotheses hold) and gives the
    computed bytes; the example disk has an orphan and satisfies the presence hypotheses. *)
Example c02_example_raw_chain : raw_roland_chain ex_fat [4; 2; 3].
Proof.
  apply raw_roland_chain_unfold. split; [discriminate|]. split; [|split].
  - repeat constructor; vm_compute; congruence.
  - intros i Hi. change (zlen [4; 2; 3]) with 3 in Hi.
    assert (E : i = 0 \/ i = 1) by lia. destruct E as [->| ->]; reflexivity.
  - vm_compute. congruence.
Qed.
Definition ex_fat_shared : list Z :=
  [FAT_AREA_ID; 0; 5; 4; FAT_END; 3; 3; 0; 0; 0; 0; 0; 0; 0; FAT_V2; FAT_V1].
Example c02_example_shared_tail :
  raw_roland_chain ex_fat_shared [6; 3; 4] /\ raw_roland_chain ex_fat_shared [2; 5; 3; 4]
  /\ exists links, roland_decode ex_fat_shared = Ok (2, links)
       /\ roland_get_file 16 links 6 0 = Ok [6; 3; 4] /\ roland_get_file 16 links 2 1 = Ok [5; 3; 4].
Proof.
  split; [|split].
  - apply raw_roland_chain_unfold. split; [discriminate|]. split; [|split].
    + repeat constructor; vm_compute; congruence.
    + intros i Hi. change (zlen [6; 3; 4]) with 3 in Hi.
      assert (E : i = 0 \/ i = 1) by lia. destruct E as [->| ->]; reflexivity.
    + vm_compute. congruence.
  - apply raw_roland_chain_unfold. split; [discriminate|]. split; [|split].
    + repeat constructor; vm_compute; congruence.
    + intros i Hi. change (zlen [2; 5; 3; 4]) with 4 in Hi.
      assert (E : i = 0 \/ i = 1 \/ i = 2) by lia. destruct E as [->|[->| ->]]; reflexivity.
    + vm_compute. congruence.
  - destruct (roland_decode ex_fat_shared) as [[ver links]| |] eqn:E; try (vm_compute in E; discriminate).
    assert (ver = 2) as -> by (vm_compute in E; congruence).
    exists links. split; [reflexivity|]. split.
    + apply (roland_chain_resolved ex_fat_shared 2 links [6; 3; 4] 0 E); [|lia].
      apply raw_roland_chain_unfold. split; [discriminate|]. split; [|split].
      * repeat constructor; vm_compute; congruence.
      * intros i Hi. change (zlen [6; 3; 4]) with 3 in Hi.
        assert (Ei : i = 0 \/ i = 1) by lia. destruct Ei as [->| ->]; reflexivity.
      * vm_compute. congruence.
    + apply (roland_chain_resolved ex_fat_shared 2 links [2; 5; 3; 4] 1 E); [|lia].
      apply raw_roland_chain_unfold. split; [discriminate|]. split; [|split].
      * repeat constructor; vm_compute; congruence.
      * intros i Hi. change (zlen [2; 5; 3; 4]) with 4 in Hi.
        assert (Ei : i = 0 \/ i = 1 \/ i = 2) by lia. destruct Ei as [->|[->| ->]]; reflexivity.
      * vm_compute. congruence.
Qed.
(** [roland_sample_pcm_exact] instantiated: reverse-loop mode 6, cluster_top 1 *)
Example c02_example_pcm_by_theorem :
  roland_sample_pcm 4 3 ex_fat ex_image 4 1 6 ex_points
  = Ok (window_bytes 6 ex_points (logical (roland_file_view 4 3 23 [2; 3]) ex_image))
  /\ window_bytes 6 ex_points (logical (roland_file_view 4 3 23 [2; 3]) ex_image)
     = [117; 118; 115; 116; 113; 114].
Proof.
  split; [|vm_compute; reflexivity].
  destruct (roland_decode ex_fat) as [[ver links]| |] eqn:E; try (vm_compute in E; discriminate).
  apply (roland_sample_pcm_exact 4 3 ex_fat ex_image ver links [4; 2; 3] 1 6 ex_points E
           c02_example_raw_chain); try (vm_compute; intuition congruence).
  repeat constructor; vm_compute; congruence.
Qed.
(** [roland_reverse_reads] instantiated on the file of [c02_example_hypotheses] *)
Example c02_example_reverse_reads :
  read_all (roland_sample_view 6 ex_points (roland_file_view 4 3 23 [2; 3])) ex_image
  = Ok [117; 118; 115; 116; 113; 114].
Proof.
  destruct c02_example_hypotheses as (Hwf & Hlen & Hw). rewrite <- Hw.
  apply roland_reverse_reads; try assumption; try reflexivity; vm_compute; congruence.
Qed.
Example c02_example_orphan_volume :
  let d := {| d_num_perf := 2; d_volumes := [[0; -1]]; d_perf_dir := [0; 3];
              d_perf := [(0, [1; -1]); (3, [1])]; d_patch := [(1, [2; 2; -1])];
              d_partial := [(2, [5; -1; 7; 5])] |} in
  orphan_perfs d = [3] /\ In (ORPHAN_VOLUME, [3]) (roland_volumes d).
Proof.
  cbn zeta. split; [reflexivity|].
  match goal with |- In _ (roland_volumes ?d) => change [3] with (orphan_perfs d) end.
  apply roland_orphan_volume_present.
  - repeat constructor; cbn; intuition congruence.
  - reflexivity.
  - intros p Hp. vm_compute in Hp. destruct Hp as [<-|[]]. now left.
  - vm_compute. discriminate.
Qed.

(** * The whole-image model (RolandImage.v: [roland_export_gen], what `export` does on the
    bytes of one S-7xx image; compared with the real CLI export on every generated image) *)
From SE Require Import Transcode Names RolandImage RolandFatProofs RolandImageProofs.
From SE Require AkaiImage.

(** The model does NOT decode the 65536-entry table.  For the table of the real format
    (65536 words, none negative) its acceptance test on the raw words accepts exactly what
    the decoder model of FatAreaAdapter._decode accepts, with the same version ... *)
Theorem roland_raw_fat_check_exact : forall fat ver, fat_table fat ->
  (raw_fat_check fat = Ok ver <-> exists links, roland_decode fat = Ok (ver, links)).
Proof. exact raw_fat_check_exact_lemma. Qed.
Print Assumptions roland_raw_fat_check_exact.
(** ... rejects with ConstructError only, and never runs out of fuel (fuel: 65536 clusters per
    walk, the decoder's own loop bound). *)
Theorem roland_raw_fat_check_errors : forall fat, raw_fat_check fat <> OutOfFuel /\
  forall e, raw_fat_check fat = Err e -> e = ConstructErr.
Proof. exact raw_fat_check_errors_lemma. Qed.
Print Assumptions roland_raw_fat_check_errors.
(** The raw-chain shortcut.  In every table the decoder accepts, following the raw words from a
    start cluster gives what resolving that cluster through the decoded link table gives: for
    EVERY start (linked, free, reserved, the two head entries, the tail entries the decoder
    does not scan, beyond the table: same path or same exception) ... *)
Theorem roland_raw_chain_shortcut : forall fat ver links entry, fat_table fat ->
  roland_decode fat = Ok (ver, links) -> 0 <= entry ->
  raw_get_path fat entry = get_path (zlen fat) links entry.
Proof. exact raw_get_path_decoded_lemma. Qed.
Print Assumptions roland_raw_chain_shortcut.
(** ... and every cluster_top: get_file. *)
Theorem roland_raw_get_file : forall fat ver links entry top, fat_table fat ->
  roland_decode fat = Ok (ver, links) -> 0 <= entry ->
  raw_get_file fat entry top = roland_get_file (zlen fat) links entry top.
Proof. exact raw_get_file_decoded_lemma. Qed.
Print Assumptions roland_raw_get_file.

(** The closed-form content of the exported data stream used by the whole-image model is the
    window of the layer theorems above ([roland_readall]: what readall() of the real view
    returns): any reader [rd] of the image, any chain order, any loop mode, any window inside
    the chained file whose clusters lie inside the image. *)
Theorem roland_stream_content_window : forall img rd, reads img rd -> forall secs mode p,
  secs <> [] -> Forall (inside img) secs ->
  0 <= p_start p -> p_start p <= roland_end mode p ->
  2 * (roland_end mode p + 1) <= CLUSTER_SIZE * zlen secs ->
  stream_content (zlen img) rd secs (get_params mode p)
  = Ok (window_bytes mode p (logical (roland_file_view CLUSTER_SIZE DATA_FAT_OFFSET (zlen img) secs) img)).
Proof. exact stream_content_window_lemma. Qed.
Print Assumptions roland_stream_content_window.

(** One sample entry, from bytes to exported PCM.  In ANY image (whatever else it holds) in
    which sample number [s] is as a serialiser of one sample entry writes it - directory entry
    [ser_dirent] (32 bytes) at the sample's directory position, parameter record
    [ser_sample_param] (48 bytes) at its parameter position, the entry's first cluster heading a
    raw chain [c] of a table the model accepts, the chain's clusters inside the image, the
    window of the loop mode inside the chain minus its [cluster_top] leading clusters - the
    whole-image model parses the sample into the file named by the directory entry, with the
    rate of the frequency code, whose data stream holds exactly that window (16-bit words in
    reverse time order for modes 5, 6); and this is also what the layer model over the DECODED
    table ([roland_sample_pcm], tied to the real streams function by function) returns.
    Composes [roland_raw_fat_check_exact], [roland_raw_get_file], [roland_chain_resolved],
    [roland_stream_content_window], [roland_sample_pcm_exact]. *)
Theorem roland_export_sample_pcm : forall img rd fat ver s dn ty x f c rate,
  reads img rd ->
  0 <= s < 8192 ->
  slice img (dir_offset KSample s) (dir_offset KSample s + 32) = ser_dirent dn ty x (hd 0 c) ->
  slice img (par_offset KSample s) (par_offset KSample s + 48) = ser_sample_param f ->
  name_ok dn -> name_ok (sf_name f) ->
  frequency_of_code (sf_options f mod 16) = Ok rate ->
  fat_table fat -> raw_fat_check fat = Ok ver -> raw_roland_chain fat c ->
  0 <= sf_top f < zlen c ->
  Forall (fun k => (k + 1) * CLUSTER_SIZE <= zlen img - DATA_FAT_OFFSET) c ->
  let p := sample_points f in
  let mode := loop_mode_of_byte (sf_mode f) in
  0 <= p_start p -> p_start p <= roland_end mode p ->
  2 * (roland_end mode p + 1) <= CLUSTER_SIZE * (zlen c - sf_top f) ->
  let file := roland_file_view CLUSTER_SIZE DATA_FAT_OFFSET (zlen img) (skipn (Z.to_nat (sf_top f)) c) in
  parse_sample (zlen img) rd fat s
  = Ok (Some {| rs_index := s; rs_name := dn; rs_rate := rate;
                rs_data := Ok (window_bytes mode p (logical file img)) |})
  /\ roland_sample_pcm CLUSTER_SIZE DATA_FAT_OFFSET fat img (hd 0 c) (sf_top f) mode p
     = Ok (window_bytes mode p (logical file img)).
Proof. exact parse_sample_serialised_lemma. Qed.
Print Assumptions roland_export_sample_pcm.
(** ... and a sample file that is not paired with another one is written as ONE mono file whose
    PCM is exactly its data stream (a whole number of 16-bit words: [roland_window_length]),
    at the path prefix + its export name. *)
Theorem roland_export_single_file : forall prefix smps nm i s b,
  nth_error smps i = Some s -> rs_data s = Ok b -> zlen b mod 2 = 0 ->
  export_outputs prefix smps [(nm, [i])]
  = Ok [{| AkaiImage.w_path := prefix ++ [nm]; AkaiImage.w_rate := rs_rate s;
           AkaiImage.w_channels := 1; AkaiImage.w_pcm := b |}].
Proof. exact export_single_lemma. Qed.
Print Assumptions roland_export_single_file.
Theorem roland_window_length : forall mode p file content,
  0 <= p_start p -> p_start p <= roland_end mode p + 1 ->
  2 * (roland_end mode p + 1) <= zlen (logical file content) ->
  zlen (window_bytes mode p (logical file content)) = 2 * (roland_end mode p - p_start p + 1).
Proof. exact window_bytes_len. Qed.
Print Assumptions roland_window_length.

(** Termination.  For ANY image length and ANY reader (any bytes, damaged in any way) the
    whole-image export and listing return Ok or Err, never OutOfFuel.  Fuel of the loops:
    65536 clusters per FAT walk (the decoder's own bound, a longer path is a rejected loop);
    taken + 2 * siblings + 1 probes per name (Names.v); bytes + 2 blocks per transcoded stream;
    everything else is structural recursion on the 64 / 32 / 88 / 4 pointers of a record and
    the 128 / 512 directory positions. *)
Theorem roland_export_total : forall ilen rd, roland_export_gen ilen rd <> OutOfFuel.
Proof. exact roland_export_gen_total. Qed.
Print Assumptions roland_export_total.
Theorem roland_ls_total : forall ilen rd, roland_ls_gen ilen rd <> OutOfFuel.
Proof. exact roland_ls_gen_total. Qed.
Print Assumptions roland_ls_total.
Theorem roland_export_total_bytes : forall img, roland_export img <> OutOfFuel.
Proof. intros img. exact (roland_export_gen_total (zlen img) (dense_rd img)). Qed.
Print Assumptions roland_export_total_bytes.

(** The reader of the extracted driver (the image travels as runs over zeros and is never
    expanded) reads the image its runs denote, so every theorem above that speaks about a
    reader of [img] speaks about what the driver evaluates. *)
Theorem roland_sparse_reads : forall len runs, runs_okb runs 0 len = true ->
  zlen (dense_from runs 0 len) = len /\ reads (dense_from runs 0 len) (sparse_image_rd len runs).
Proof. intros len runs H. apply sparse_reads_lemma. now apply runs_okb_ok. Qed.
Print Assumptions roland_sparse_reads.
Theorem roland_dense_reads : forall img, reads img (dense_rd img).
Proof. exact dense_reads. Qed.
Print Assumptions roland_dense_reads.

(** Non-vacuity of [roland_export_sample_pcm]: a full-size image (2 868 224 bytes, described as
    zero runs around three pieces - never expanded) holding sample number 3 "S3": chain
    4 -> 2 entered at cluster 4, one leading cluster skipped (cluster_top = 1), reverse-loop
    mode 6, window = words 1..5 of cluster 2, 24 kHz; a full-size FAT that the raw check
    accepts.  Every hypothesis of the theorem holds; its conclusion gives the parsed sample. *)
Definition ex_big_fat : list Z :=
  [FAT_AREA_ID; 0; FAT_V1; 0; 2] ++ zrepeat 0 65529 ++ [FAT_V1; FAT_V1].
Definition ex_fields : sample_fields :=
  {| sf_name := [83; 51]; sf_start := 256 * 1 + 9; sf_sus_start := 256 * 2 + 7; sf_sus_end := 256 * 5;
     sf_rel_start := 0; sf_rel_end := 256 * 9 + 255; sf_mode := 6; sf_b37 := 1; sf_b38 := 0; sf_b39 := 0;
     sf_top := 1; sf_nclusters := 1; sf_options := 2; sf_key := 60 |}.
Definition ex_dir_rest : dir_rest :=
  {| df_attr := 0; df_fwd := 0; df_bwd := 0; df_link := 0; df_reserved := 0; df_nclusters := 2 |}.
Definition ex_cluster : list Z := map (fun i => i mod 251) (StreamProofs.zrange 0 9216).
Definition ex_big_image : list Z :=
  zrepeat 0 841824 ++ ser_dirent [83; 51] 68 ex_dir_rest 4 ++ zrepeat 0 1605648 ++
  ser_sample_param ex_fields ++ zrepeat 0 393024 ++ ex_cluster ++ zrepeat 0 18432.

Example c02_example_whole_image_sample :
  let file := roland_file_view CLUSTER_SIZE DATA_FAT_OFFSET (zlen ex_big_image) [2] in
  fat_table ex_big_fat /\ raw_fat_check ex_big_fat = Ok 1 /\ raw_roland_chain ex_big_fat [4; 2] /\
  zlen ex_big_image = 2868224 /\
  parse_sample (zlen ex_big_image) (dense_rd ex_big_image) ex_big_fat 3
  = Ok (Some {| rs_index := 3; rs_name := [83; 51]; rs_rate := 24000;
                rs_data := Ok (window_bytes 6 (sample_points ex_fields) (logical file ex_big_image)) |}) /\
  zlen (window_bytes 6 (sample_points ex_fields) (logical file ex_big_image)) = 10.
Proof.
  assert (Hname : name_ok [83; 51]).
  { split; [unfold zlen; cbn; lia|]. split; [repeat constructor; lia|cbn; lia]. }
  assert (Hd32 : zlen (ser_dirent [83; 51] 68 ex_dir_rest 4) = 32) by (apply zlen_ser_dirent; apply Hname).
  assert (Hp48 : zlen (ser_sample_param ex_fields) = 48) by (apply zlen_ser_sample_param; apply Hname).
  assert (Hcl : zlen ex_cluster = 9216).
  { unfold ex_cluster. rewrite StreamProofs.map_zlen, StreamProofs.zlen_zrange; lia. }
  assert (Hlen : zlen ex_big_image = 2868224).
  { unfold ex_big_image. rewrite !FatProofs.zlen_app, !ContainerProofs.zlen_zrepeat, Hd32, Hp48, Hcl by lia. reflexivity. }
  assert (Hflen : zlen ex_big_fat = 65536).
  { unfold ex_big_fat. rewrite !FatProofs.zlen_app, ContainerProofs.zlen_zrepeat by lia. reflexivity. }
  assert (Hft : fat_table ex_big_fat).
  { split; [exact Hflen|]. unfold ex_big_fat. apply Forall_app. split; [repeat constructor; unfold FAT_AREA_ID, FAT_V1; lia|].
    apply Forall_app. split; [|repeat constructor; unfold FAT_V1; lia].
    apply Forall_forall. intros v Hv. apply repeat_spec in Hv. lia. }
  assert (Hchk : raw_fat_check ex_big_fat = Ok 1) by (vm_compute; reflexivity).
  assert (Hc : raw_roland_chain ex_big_fat [4; 2]).
  { apply raw_roland_chain_unfold. split; [discriminate|]. rewrite Hflen. split; [|split].
    - repeat constructor; unfold FAT_END; lia.
    - intros i Hi. change (zlen [4; 2]) with 2 in Hi. assert (i = 0) as -> by lia. reflexivity.
    - change (FAT_END <= znth 0 ex_big_fat 2). unfold znth. change (Z.to_nat 2) with 2%nat.
      unfold ex_big_fat. cbn [app nth]. unfold FAT_END, FAT_V1. lia. }
  cbn zeta. split; [exact Hft|]. split; [exact Hchk|]. split; [exact Hc|]. split; [exact Hlen|].
  pose proof (roland_export_sample_pcm ex_big_image (dense_rd ex_big_image) ex_big_fat 1 3 [83; 51] 68 ex_dir_rest
                ex_fields [4; 2] 24000 (dense_reads _) ltac:(lia)) as T.
  cbn [hd] in T.
  assert (Z1 : zlen (zrepeat 0 841824) = 841824) by (apply ContainerProofs.zlen_zrepeat; clear; lia).
  assert (Z2 : zlen (zrepeat 0 1605648) = 1605648) by (apply ContainerProofs.zlen_zrepeat; clear; lia).
  assert (Hdir : slice ex_big_image (dir_offset KSample 3) (dir_offset KSample 3 + 32)
                 = ser_dirent [83; 51] 68 ex_dir_rest 4).
  { unfold ex_big_image.
    match goal with |- slice (?a ++ ?b) ?x ?y = _ => rewrite (AkaiCompose.slice_skip 841824 a b x y 0 32 Z1 eq_refl eq_refl ltac:(clear; lia)) end.
    now apply AkaiCompose.slice_here. }
  assert (Hpar : slice ex_big_image (par_offset KSample 3) (par_offset KSample 3 + 48) = ser_sample_param ex_fields).
  { unfold ex_big_image.
    match goal with |- slice (?a ++ ?b) ?x ?y = _ => rewrite (AkaiCompose.slice_skip 841824 a b x y 1605680 1605728 Z1 eq_refl eq_refl ltac:(clear; lia)) end.
    match goal with |- slice (?a ++ ?b) ?x ?y = _ => rewrite (AkaiCompose.slice_skip 32 a b x y 1605648 1605696 Hd32 eq_refl eq_refl ltac:(clear; lia)) end.
    match goal with |- slice (?a ++ ?b) ?x ?y = _ => rewrite (AkaiCompose.slice_skip 1605648 a b x y 0 48 Z2 eq_refl eq_refl ltac:(clear; lia)) end.
    now apply AkaiCompose.slice_here. }
  specialize (T Hdir Hpar Hname Hname eq_refl Hft Hchk Hc).
  assert (Hin : Forall (fun k => (k + 1) * CLUSTER_SIZE <= zlen ex_big_image - DATA_FAT_OFFSET) [4; 2]).
  { rewrite Hlen. repeat constructor; unfold CLUSTER_SIZE, DATA_FAT_OFFSET; lia. }
  specialize (T ltac:(cbn; unfold zlen; cbn; lia) Hin).
  cbn zeta in T.
  assert (Hpts : sample_points ex_fields
                 = {| p_start := 1; p_sus_start := 2; p_sus_end := 5; p_rel_start := 0; p_rel_end := 9 |}) by reflexivity.
  change (loop_mode_of_byte (sf_mode ex_fields)) with 6 in T.
  rewrite Hpts in *.
  specialize (T ltac:(cbn; lia) ltac:(cbn; lia) ltac:(cbn; unfold CLUSTER_SIZE, zlen; cbn; lia)).
  destruct T as [T _]. split; [exact T|].
  rewrite roland_window_length; [reflexivity|cbn; lia|cbn; lia|].
  unfold roland_file_view, chain_view. rewrite StreamProofs.logical_len; unfold CLUSTER_SIZE, zlen; cbn; lia.
Qed.

(** the table the whole-image model reads from an image of (non-negative) bytes IS a table of
    the real format, so the FAT theorems above apply to the model's own table *)
Theorem roland_fat_words_table : forall img rd fat, reads img rd -> Forall (fun b => 0 <= b) img ->
  fat_words (zlen img) rd = Some fat -> fat_table fat.
Proof. exact fat_words_table_lemma. Qed.
Print Assumptions roland_fat_words_table.
