(** C02 - Roland S-7xx export is byte-exact for every cluster chain and loop mode.
    Property theorems only (lemmas in RolandProofs.v, FatProofs.v, StreamProofs.v). *)
From SE Require Import Base Fat FatProofs Stream StreamProofs Roland RolandProofs.

(** The window every one of the seven _get_*_params functions selects, for EVERY loop-mode
    value and every five points: bytes [2*start, 2*start + 2*(end_mode - start + 1)) with
    end_mode = release-loop end for modes 1 and 3 and sustain-loop end for every other mode
    (0, 2, 4, 5, 6, and any unknown value, which falls back to mode 0); the stream is wrapped
    in the 16-bit reversing view exactly for modes 5 and 6. *)
Theorem roland_window : forall mode p,
  w_off (get_params mode p) = 2 * p_start p /\
  w_size (get_params mode p) = 2 * (roland_end mode p - p_start p + 1) /\
  w_rev (get_params mode p) = roland_reversed mode.
Proof. exact roland_window_lemma. Qed.
Print Assumptions roland_window.

(** The content of the exported data stream, for any file view below it: the words
    start..end_mode of the file, and for the two reverse modes [rev_samples 2] of that range
    (16-bit words in reverse time order).  Any window inside the file, including one that
    ends on the file's last byte. *)
Theorem roland_sample_bytes : forall mode p file content,
  0 <= p_start p -> p_start p <= roland_end mode p + 1 ->
  2 * (roland_end mode p + 1) <= zlen (logical file content) ->
  logical (roland_sample_view mode p file) content = window_bytes mode p (logical file content).
Proof. exact roland_sample_bytes_lemma. Qed.
Print Assumptions roland_sample_bytes.

(** Forward modes (0-4): under ANY history of seek / tell / read(n >= 0) - any block size the
    transcoder may use - the exported stream answers as an ordinary file over that window
    (instance of C08's view_refines_file; covers a read that ends exactly at the end). *)
Theorem roland_forward_reads : forall mode p file content ops s,
  roland_reversed mode = false -> wf file content ->
  0 <= p_start p -> p_start p <= roland_end mode p ->
  2 * (roland_end mode p + 1) <= zlen (logical file content) ->
  good (roland_sample_view mode p file) s -> Forall op_ok ops ->
  fst (run (roland_sample_view mode p file) content s ops)
  = ref_run (window_bytes mode p (logical file content)) (v_tell s) ops.
Proof. exact roland_forward_reads_lemma. Qed.
Print Assumptions roland_forward_reads.

(** The operational statement for the two REVERSE modes is not proved (the reversed view's
    refinement theorem is the open part of C08); what is proved for them is the content
    theorem [roland_sample_bytes] above; the block-wise reads are tied by the correspondence
    relation roland_sample_read / roland_sample_pcm and the image-level oracle. *)
Definition roland_reverse_reads_statement : Prop :=
  forall mode p file content,
    roland_reversed mode = true -> wf file content ->
    0 <= p_start p -> p_start p <= roland_end mode p ->
    2 * (roland_end mode p + 1) <= zlen (logical file content) ->
    read_all (roland_sample_view mode p file) content = Ok (window_bytes mode p (logical file content)).

(** The file of a sample: for ANY order of the clusters in the chain (no ordering hypothesis),
    byte a of the file is byte (a mod L) of the (a / L)-th cluster of the chain, for every a up
    to and including the last byte of the last cluster ... *)
Theorem roland_file_bytes : forall L secs parent content a,
  0 < L -> 0 <= a < L * zlen secs ->
  znth 0 (logical (chain_view L secs parent) content) a
  = znth 0 (logical parent content) (znth 0 secs (a / L) * L + a mod L).
Proof. exact roland_file_bytes_lemma. Qed.
Print Assumptions roland_file_bytes.
(** ... and that view is a well-formed file (so C08 applies to it and to every window over
    it) whenever its clusters lie inside the image's data window, whatever their order. *)
Theorem roland_file_wf : forall L doff ilen secs content,
  0 < L -> 0 <= doff -> doff < ilen -> ilen <= zlen content -> secs <> [] ->
  Forall (fun c => 0 <= c /\ (c + 1) * L <= ilen - doff) secs ->
  wf (roland_file_view L doff ilen secs) content.
Proof. exact roland_file_wf_lemma. Qed.
Print Assumptions roland_file_wf.

(** get_file on a link table that holds the chain returns the chain minus its [cluster_top]
    leading clusters, for every chain (any cluster order) and every offset.  PARTIAL: the
    step from the raw FAT words to the link table ([roland_decode] installs every raw chain,
    also one entered at a cluster that is not its lowest) is not proved; it is
    [roland_decode_chain_statement] below and is carried by the exhaustive correspondence
    roland_sample_pcm (every chain order over <= 4 live clusters) and C07's FAT relation. *)
Theorem roland_chain_resolved_partial : forall N links c top,
  Chain links (hd 0 c) c -> zlen c <= N -> 0 <= top ->
  roland_get_file N links (hd 0 c) top = Ok (skipn (Z.to_nat top) c).
Proof. exact roland_get_file_chain_lemma. Qed.
Print Assumptions roland_chain_resolved_partial.
Definition raw_fat_chain (fat : list Z) (c : list Z) : Prop :=
  c <> [] /\ NoDup c /\ Forall (fun x => 2 <= x < zlen fat - 9) c /\
  (forall i, 0 <= i < zlen c - 1 -> znth 0 fat (znth 0 c i) = znth 0 c (i + 1)) /\
  FAT_END <= znth 0 fat (znth 0 c (zlen c - 1)).
Definition roland_decode_chain_statement : Prop :=
  forall fat ver links c,
    roland_decode fat = Ok (ver, links) -> raw_fat_chain fat c -> Chain links (hd 0 c) c.

(** The sample files of a performance are EXACTLY the samples reachable performance -> patch
    -> partial -> sample slot through non-negative, in-range pointers: every reachable sample
    is listed and nothing else is; within one patch each sample is listed once. *)
Theorem roland_reachable_exact : forall d p s, In s (perf_samples d p) <-> Reachable d p s.
Proof. exact roland_reachable_exact_lemma. Qed.
Print Assumptions roland_reachable_exact.
Theorem roland_patch_samples_once : forall d a, NoDup (patch_samples d a).
Proof. exact patch_samples_nodup_lemma. Qed.
Print Assumptions roland_patch_samples_once.

(** The pseudo volume holds exactly the performance directory entries no volume points to. *)
Theorem roland_orphans_exact : forall d p,
  In p (orphan_perfs d) <->
  In p (d_perf_dir d) /\ ~ exists raw, In raw (d_volumes d) /\ In p raw /\ 0 <= p.
Proof. exact roland_orphans_lemma. Qed.
Print Assumptions roland_orphans_exact.
(** Not proved: that the pseudo volume is PRESENT whenever such a performance exists (the
    counting test of VolumeEntriesList._parse: number of distinct listed pointers <
    num_performances), and the end-to-end composition with naming and the WAV writer. *)
Definition roland_orphan_volume_present_statement : Prop :=
  forall d, NoDup (d_perf_dir d) -> d_num_perf d = zlen (d_perf_dir d) ->
    (forall p, In p (listed_perfs d) -> In p (d_perf_dir d)) ->
    orphan_perfs d <> [] -> In (ORPHAN_VOLUME, orphan_perfs d) (roland_volumes d).

(** Non-vacuity: a scaled-down disk (cluster = 4 bytes, data window at byte 3) whose sample
    lives on the chain 4 -> 2 -> 3 (entered at its HIGHEST cluster), one leading cluster
    skipped, reverse-loop mode, window = words 1..3 of the remaining two clusters, the last
    word being the last of the chain. *)
Definition ex_fat : list Z := [FAT_AREA_ID; 0; 3; FAT_V1; 2; 0; 0; 0; 0; 0; 0; 0; FAT_V1; FAT_V1].
Definition ex_image : list Z := map Z.of_nat (seq 100 23).
Definition ex_points : rpoints :=
  {| p_start := 1; p_sus_start := 2; p_sus_end := 3; p_rel_start := 0; p_rel_end := 1 |}.
Example c02_example_pcm :
  roland_sample_pcm 4 3 ex_fat ex_image 4 1 6 ex_points = Ok [117; 118; 115; 116; 113; 114]
  /\ roland_sample_pcm 4 3 ex_fat ex_image 4 1 1 ex_points = Ok [113; 114]
  /\ roland_sample_pcm 4 3 ex_fat ex_image 4 0 2 ex_points = Ok [121; 122; 111; 112; 113; 114].
Proof. vm_compute. repeat split; reflexivity. Qed.
Example c02_example_hypotheses :
  let file := roland_file_view 4 3 23 [2; 3] in
  wf file ex_image /\ 2 * (roland_end 6 ex_points + 1) <= zlen (logical file ex_image)
  /\ window_bytes 6 ex_points (logical file ex_image) = [117; 118; 115; 116; 113; 114].
Proof.
  cbn zeta. split; [|split].
  - apply roland_file_wf; try lia; try (vm_compute; congruence). 
    repeat constructor; vm_compute; congruence.
  - vm_compute. congruence.
  - vm_compute. reflexivity.
Qed.
Example c02_example_reachable :
  let d := {| d_num_perf := 2; d_volumes := [[0; -1]]; d_perf_dir := [0; 3];
              d_perf := [(0, [1; -1]); (3, [1])]; d_patch := [(1, [2; 2; -1])];
              d_partial := [(2, [5; -1; 7; 5])] |} in
  perf_samples d 0 = [5; 7] /\ roland_listing d = [(0, [(0, [5; 7])]); (128, [(3, [5; 7])])].
Proof. vm_compute. split; reflexivity. Qed.
