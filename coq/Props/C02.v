(** C02 - Roland S-7xx export is byte-exact for every cluster chain and loop mode.
    Property theorems only (lemmas in RolandProofs.v, RolandChainProofs.v, FatProofs.v,
    StreamProofs.v, StreamRevProofs.v). *)
From SE Require Import Base Fat FatProofs Stream StreamProofs StreamRevProofs Roland RolandProofs
                       RolandChainProofs.

(** The window every one of the seven _get_*_params functions selects, for EVERY loop-mode
    value and every five points: bytes [2*start, 2*start + 2*(end_mode - start + 1)) with
    end_mode = release-loop end for modes 1 and 3 and sustain-loop end for every other mode
    (0, 2, 4, 5, 6, and any unknown value, which falls back to mode 0); the stream is wrapped
    in the 16-bit reversing view exactly for modes 5 and 6. *)
Theorem roland_window : forall mode p,
  w_off (get_params mode p) = 2 * p_start p /\
  w_size (get_params mode p) = 2 * (roland_end mode p - p_start p + 1) /\
  w_rev (get_params mode p) = roland_reversed mode.
Proof. exact roland_window_lemma. Qed.
Print Assumptions roland_window.

(** The content of the exported data stream, for any file view below it: the words
    start..end_mode of the file, and for the two reverse modes [rev_samples 2] of that range
    (16-bit words in reverse time order).  Any window inside the file, including one that
    ends on the file's last byte. *)
Theorem roland_sample_bytes : forall mode p file content,
  0 <= p_start p -> p_start p <= roland_end mode p + 1 ->
  2 * (roland_end mode p + 1) <= zlen (logical file content) ->
  logical (roland_sample_view mode p file) content = window_bytes mode p (logical file content).
Proof. exact roland_sample_bytes_lemma. Qed.
Print Assumptions roland_sample_bytes.

(** Forward modes (0-4): under ANY history of seek / tell / read(n >= 0) - any block size the
    transcoder may use - the exported stream answers as an ordinary file over that window
    (instance of C08's view_refines_file; covers a read that ends exactly at the end). *)
Theorem roland_forward_reads : forall mode p file content ops s,
  roland_reversed mode = false -> wf file content ->
  0 <= p_start p -> p_start p <= roland_end mode p ->
  2 * (roland_end mode p + 1) <= zlen (logical file content) ->
  good (roland_sample_view mode p file) s -> Forall op_ok ops ->
  fst (run (roland_sample_view mode p file) content s ops)
  = ref_run (window_bytes mode p (logical file content)) (v_tell s) ops.
Proof. exact roland_forward_reads_lemma. Qed.
Print Assumptions roland_forward_reads.

(** The two REVERSE modes (5, 6).  readall() of the fresh exported stream returns the whole
    window with its 16-bit words in reverse time order, for every window inside the file
    (the window size is a whole, positive number of words by construction; readall works in
    4096-byte buffers, a whole number of words); never OutOfFuel, never an alignment error.
    Instance of C08's reversed-view theorems (StreamRevProofs.v). *)
Theorem roland_reverse_reads : forall mode p file content,
  roland_reversed mode = true -> wf file content ->
  0 <= p_start p -> p_start p <= roland_end mode p ->
  2 * (roland_end mode p + 1) <= zlen (logical file content) ->
  read_all (roland_sample_view mode p file) content = Ok (window_bytes mode p (logical file content)).
Proof. exact roland_reverse_reads_lemma. Qed.
Print Assumptions roland_reverse_reads.
(** ... and under ANY history of tell / seek(off, _) / read(n >= 0) whose offsets and sizes are
    whole numbers of 16-bit words - any block size the transcoder may use - from any
    word-aligned good state, the stream answers as an ordinary file over the reversed window
    (the counterpart of [roland_forward_reads]; non-aligned operations are rejected with
    BadAlign / BadReadSize, position unchanged: C08's reversed_view_refines_file). *)
Theorem roland_reverse_history : forall mode p file content ops s,
  roland_reversed mode = true -> wf file content ->
  0 <= p_start p -> p_start p <= roland_end mode p ->
  2 * (roland_end mode p + 1) <= zlen (logical file content) ->
  good (roland_sample_view mode p file) s -> v_tell s mod 2 = 0 -> Forall (op_aligned 2) ops ->
  fst (run (roland_sample_view mode p file) content s ops)
  = ref_run (window_bytes mode p (logical file content)) (v_tell s) ops.
Proof. exact roland_reverse_history_lemma. Qed.
Print Assumptions roland_reverse_history.
(** readall() for EVERY loop-mode value (forward modes: C08's readall_reads_rest). *)
Theorem roland_readall : forall mode p file content,
  wf file content ->
  0 <= p_start p -> p_start p <= roland_end mode p ->
  2 * (roland_end mode p + 1) <= zlen (logical file content) ->
  read_all (roland_sample_view mode p file) content = Ok (window_bytes mode p (logical file content)).
Proof. exact roland_readall_lemma. Qed.
Print Assumptions roland_readall.

(** The file of a sample: for ANY order of the clusters in the chain (no ordering hypothesis),
    byte a of the file is byte (a mod L) of the (a / L)-th cluster of the chain, for every a up
    to and including the last byte of the last cluster ... *)
Theorem roland_file_bytes : forall L secs parent content a,
  0 < L -> 0 <= a < L * zlen secs ->
  znth 0 (logical (chain_view L secs parent) content) a
  = znth 0 (logical parent content) (znth 0 secs (a / L) * L + a mod L).
Proof. exact roland_file_bytes_lemma. Qed.
Print Assumptions roland_file_bytes.
(** ... and that view is a well-formed file (so C08 applies to it and to every window over
    it) whenever its clusters lie inside the image's data window, whatever their order. *)
Theorem roland_file_wf : forall L doff ilen secs content,
  0 < L -> 0 <= doff -> doff < ilen -> ilen <= zlen content -> secs <> [] ->
  Forall (fun c => 0 <= c /\ (c + 1) * L <= ilen - doff) secs ->
  wf (roland_file_view L doff ilen secs) content.
Proof. exact roland_file_wf_lemma. Qed.
Print Assumptions roland_file_wf.

(** get_file on a link table that holds the chain returns the chain minus its [cluster_top]
    leading clusters, for every chain (any cluster order) and every offset.  (The name keeps
    its historical suffix: the step from the raw FAT words to the link table is
    [roland_decode_chain] below, the composition is [roland_chain_resolved].) *)
Theorem roland_chain_resolved_partial : forall N links c top,
  Chain links (hd 0 c) c -> zlen c <= N -> 0 <= top ->
  roland_get_file N links (hd 0 c) top = Ok (skipn (Z.to_nat top) c).
Proof. exact roland_get_file_chain_lemma. Qed.
Print Assumptions roland_chain_resolved_partial.

(** Raw FAT words -> link table.  [raw_roland_chain fat c] (RolandChainProofs.v): [c] is not
    empty; every cluster of [c] lies in the part of the table the decoder scans
    ([2, N - 9)) and below the flag values (automatic in the real table: N = 0x10000, so
    N - 9 = 0xfff7); the word of each cluster but the last is the number of the next one
    (the model, like the code, follows the raw 16-bit word whatever the FAT version), the
    word of the last is an end mark (>= 0xfff8).  No ordering, no "linked once" and no
    no-repetition hypothesis (absence of repetition FOLLOWS: [raw_roland_chain_nodup]). *)
Theorem raw_roland_chain_unfold : forall fat c,
  raw_roland_chain fat c <->
  c <> [] /\
  Forall (fun x => 2 <= x < zlen fat - 9 /\ x < FAT_END) c /\
  (forall i, 0 <= i < zlen c - 1 -> znth 0 fat (znth 0 c i) = znth 0 c (i + 1)) /\
  FAT_END <= znth 0 fat (znth 0 c (zlen c - 1)).
Proof. exact raw_roland_chain_unfold_lemma. Qed.
Print Assumptions raw_roland_chain_unfold.
(** In EVERY accepted table ([roland_decode] = Ok: no error flag on a walked path, no free /
    reserved word in the middle of a path, no loop) every raw chain is installed in the
    decoded link table - whatever else the table holds: chains entered at a cluster that is
    not their lowest, chains sharing a tail with other chains (cross-linked), any cluster
    order, any table size.  Unbounded (invariants over [roland_outer] / [roland_walk]). *)
Theorem roland_decode_chain : forall fat ver links c,
  roland_decode fat = Ok (ver, links) -> raw_roland_chain fat c -> Chain links (hd 0 c) c.
Proof. exact roland_decode_chain_lemma. Qed.
Print Assumptions roland_decode_chain.
Theorem raw_roland_chain_nodup : forall fat c,
  raw_roland_chain fat c -> NoDup c /\ zlen c <= zlen fat.
Proof. exact raw_roland_chain_nodup_lemma. Qed.
Print Assumptions raw_roland_chain_nodup.
(** Raw FAT words -> cluster list of the sample file (decode, then get_file). *)
Theorem roland_chain_resolved : forall fat ver links c top,
  roland_decode fat = Ok (ver, links) -> raw_roland_chain fat c -> 0 <= top ->
  roland_get_file (zlen fat) links (hd 0 c) top = Ok (skipn (Z.to_nat top) c).
Proof. exact roland_chain_resolved_lemma. Qed.
Print Assumptions roland_chain_resolved.

(** Raw FAT words + image bytes -> exported PCM bytes, composing everything above: for every
    accepted FAT, raw chain, [cluster_top] inside the chain, loop mode and window inside the
    remaining clusters (clusters inside the image's data window), readall() of the stream
    SampleFile.to_generalized builds over the decoded table is the window of the file made of
    the chain's clusters minus the first [cluster_top], in chain order (16-bit words reversed
    for modes 5, 6).  [L] = cluster size, [doff] = DATA_FAT_OFFSET (parameters of the model). *)
Theorem roland_sample_pcm_exact : forall L doff fat image ver links c top mode p,
  roland_decode fat = Ok (ver, links) -> raw_roland_chain fat c ->
  0 < L -> 0 <= doff < zlen image -> 0 <= top < zlen c ->
  Forall (fun x => (x + 1) * L <= zlen image - doff) c ->
  0 <= p_start p -> p_start p <= roland_end mode p ->
  2 * (roland_end mode p + 1) <= L * (zlen c - top) ->
  let file := roland_file_view L doff (zlen image) (skipn (Z.to_nat top) c) in
  roland_sample_pcm L doff fat image (hd 0 c) top mode p
  = Ok (window_bytes mode p (logical file image)).
Proof. exact roland_sample_pcm_lemma. Qed.
Print Assumptions roland_sample_pcm_exact.

(** The sample files of a performance are EXACTLY the samples reachable performance -> patch
    -> partial -> sample slot through non-negative, in-range pointers: every reachable sample
    is listed and nothing else is; within one patch each sample is listed once. *)
Theorem roland_reachable_exact : forall d p s, In s (perf_samples d p) <-> Reachable d p s.
Proof. exact roland_reachable_exact_lemma. Qed.
Print Assumptions roland_reachable_exact.
Theorem roland_patch_samples_once : forall d a, NoDup (patch_samples d a).
Proof. exact patch_samples_nodup_lemma. Qed.
Print Assumptions roland_patch_samples_once.

(** The pseudo volume holds exactly the performance directory entries no volume points to. *)
Theorem roland_orphans_exact : forall d p,
  In p (orphan_perfs d) <->
  In p (d_perf_dir d) /\ ~ exists raw, In raw (d_volumes d) /\ In p raw /\ 0 <= p.
Proof. exact roland_orphans_lemma. Qed.
Print Assumptions roland_orphans_exact.
(** The pseudo volume is PRESENT whenever such a performance exists (the counting test of
    VolumeEntriesList._parse: number of distinct listed pointers < num_performances), when
    the id area's num_performances counts the directory entries and the volumes only list
    directory entries (pigeonhole on the duplicate-free np.unique output). *)
Theorem roland_orphan_volume_present : forall d,
  NoDup (d_perf_dir d) -> d_num_perf d = zlen (d_perf_dir d) ->
  (forall p, In p (listed_perfs d) -> In p (d_perf_dir d)) ->
  orphan_perfs d <> [] -> In (ORPHAN_VOLUME, orphan_perfs d) (roland_volumes d).
Proof. exact roland_orphan_volume_present_lemma. Qed.
Print Assumptions roland_orphan_volume_present.
(** the same from weaker hypotheses: num_performances >= number of directory entries (the
    directory need not be duplicate free) *)
Theorem roland_orphan_volume_present_general : forall d,
  zlen (d_perf_dir d) <= d_num_perf d ->
  (forall p, In p (listed_perfs d) -> In p (d_perf_dir d)) ->
  orphan_perfs d <> [] -> In (ORPHAN_VOLUME, orphan_perfs d) (roland_volumes d).
Proof. exact roland_orphan_volume_present_general_lemma. Qed.
Print Assumptions roland_orphan_volume_present_general.
(** conversely (at most 128 real volumes): an entry numbered 128 comes from that test only and
    lists exactly the orphans *)
Theorem roland_orphan_volume_only : forall d ps,
  zlen (d_volumes d) <= ORPHAN_VOLUME ->
  In (ORPHAN_VOLUME, ps) (roland_volumes d) ->
  ps = orphan_perfs d /\ zlen (listed_perfs d) < d_num_perf d.
Proof. exact roland_orphan_volume_only_lemma. Qed.
Print Assumptions roland_orphan_volume_only.
(** Still not proved in Coq: the end-to-end composition with naming and the WAV writer
    (image-level oracle only). *)

(** Non-vacuity: a scaled-down disk (cluster = 4 bytes, data window at byte 3) whose sample
    lives on the chain 4 -> 2 -> 3 (entered at its HIGHEST cluster), one leading cluster
    skipped, reverse-loop mode, window = words 1..3 of the remaining two clusters, the last
    word being the last of the chain. *)
Definition ex_fat : list Z := [FAT_AREA_ID; 0; 3; FAT_V1; 2; 0; 0; 0; 0; 0; 0; 0; FAT_V1; FAT_V1].
Definition ex_image : list Z := map Z.of_nat (seq 100 23).
Definition ex_points : rpoints :=
  {| p_start := 1; p_sus_start := 2; p_sus_end := 3; p_rel_start := 0; p_rel_end := 1 |}.
Example c02_example_pcm :
  roland_sample_pcm 4 3 ex_fat ex_image 4 1 6 ex_points = Ok [117; 118; 115; 116; 113; 114]
  /\ roland_sample_pcm 4 3 ex_fat ex_image 4 1 1 ex_points = Ok [113; 114]
  /\ roland_sample_pcm 4 3 ex_fat ex_image 4 0 2 ex_points = Ok [121; 122; 111; 112; 113; 114].
Proof. vm_compute. repeat split; reflexivity. Qed.
Example c02_example_hypotheses :
  let file := roland_file_view 4 3 23 [2; 3] in
  wf file ex_image /\ 2 * (roland_end 6 ex_points + 1) <= zlen (logical file ex_image)
  /\ window_bytes 6 ex_points (logical file ex_image) = [117; 118; 115; 116; 113; 114].
Proof.
  cbn zeta. split; [|split].
  - apply roland_file_wf; try lia; try (vm_compute; congruence). 
    repeat constructor; vm_compute; congruence.
  - vm_compute. congruence.
  - vm_compute. reflexivity.
Qed.
Example c02_example_reachable :
  let d := {| d_num_perf := 2; d_volumes := [[0; -1]]; d_perf_dir := [0; 3];
              d_perf := [(0, [1; -1]); (3, [1])]; d_patch := [(1, [2; 2; -1])];
              d_partial := [(2, [5; -1; 7; 5])] |} in
  perf_samples d 0 = [5; 7] /\ roland_listing d = [(0, [(0, [5; 7])]); (128, [(3, [5; 7])])].
Proof. vm_compute. split; reflexivity. Qed.

(** Non-vacuity of the new theorems.  The chain 4 -> 2 -> 3 of [ex_fat] is a raw chain; so
    are, in a table where two chains share the tail 3 -> 4 (cross-linked), both of them; the
    end-to-end theorem applies to the example above (all its hypotheses hold) and gives the
    computed bytes; the example disk has an orphan and satisfies the presence hypotheses. *)
Example c02_example_raw_chain : raw_roland_chain ex_fat [4; 2; 3].
Proof.
  apply raw_roland_chain_unfold. split; [discriminate|]. split; [|split].
  - repeat constructor; vm_compute; congruence.
  - intros i Hi. change (zlen [4; 2; 3]) with 3 in Hi.
    assert (E : i = 0 \/ i = 1) by lia. destruct E as [->| ->]; reflexivity.
  - vm_compute. congruence.
Qed.
Definition ex_fat_shared : list Z :=
  [FAT_AREA_ID; 0; 5; 4; FAT_END; 3; 3; 0; 0; 0; 0; 0; 0; 0; FAT_V2; FAT_V1].
Example c02_example_shared_tail :
  raw_roland_chain ex_fat_shared [6; 3; 4] /\ raw_roland_chain ex_fat_shared [2; 5; 3; 4]
  /\ exists links, roland_decode ex_fat_shared = Ok (2, links)
       /\ roland_get_file 16 links 6 0 = Ok [6; 3; 4] /\ roland_get_file 16 links 2 1 = Ok [5; 3; 4].
Proof.
  split; [|split].
  - apply raw_roland_chain_unfold. split; [discriminate|]. split; [|split].
    + repeat constructor; vm_compute; congruence.
    + intros i Hi. change (zlen [6; 3; 4]) with 3 in Hi.
      assert (E : i = 0 \/ i = 1) by lia. destruct E as [->| ->]; reflexivity.
    + vm_compute. congruence.
  - apply raw_roland_chain_unfold. split; [discriminate|]. split; [|split].
    + repeat constructor; vm_compute; congruence.
    + intros i Hi. change (zlen [2; 5; 3; 4]) with 4 in Hi.
      assert (E : i = 0 \/ i = 1 \/ i = 2) by lia. destruct E as [->|[->| ->]]; reflexivity.
    + vm_compute. congruence.
  - destruct (roland_decode ex_fat_shared) as [[ver links]| |] eqn:E; try (vm_compute in E; discriminate).
    assert (ver = 2) as -> by (vm_compute in E; congruence).
    exists links. split; [reflexivity|]. split.
    + apply (roland_chain_resolved ex_fat_shared 2 links [6; 3; 4] 0 E); [|lia].
      apply raw_roland_chain_unfold. split; [discriminate|]. split; [|split].
      * repeat constructor; vm_compute; congruence.
      * intros i Hi. change (zlen [6; 3; 4]) with 3 in Hi.
        assert (Ei : i = 0 \/ i = 1) by lia. destruct Ei as [->| ->]; reflexivity.
      * vm_compute. congruence.
    + apply (roland_chain_resolved ex_fat_shared 2 links [2; 5; 3; 4] 1 E); [|lia].
      apply raw_roland_chain_unfold. split; [discriminate|]. split; [|split].
      * repeat constructor; vm_compute; congruence.
      * intros i Hi. change (zlen [2; 5; 3; 4]) with 4 in Hi.
        assert (Ei : i = 0 \/ i = 1 \/ i = 2) by lia. destruct Ei as [->|[->| ->]]; reflexivity.
      * vm_compute. congruence.
Qed.
(** [roland_sample_pcm_exact] instantiated: reverse-loop mode 6, cluster_top 1 *)
Example c02_example_pcm_by_theorem :
  roland_sample_pcm 4 3 ex_fat ex_image 4 1 6 ex_points
  = Ok (window_bytes 6 ex_points (logical (roland_file_view 4 3 23 [2; 3]) ex_image))
  /\ window_bytes 6 ex_points (logical (roland_file_view 4 3 23 [2; 3]) ex_image)
     = [117; 118; 115; 116; 113; 114].
Proof.
  split; [|vm_compute; reflexivity].
  destruct (roland_decode ex_fat) as [[ver links]| |] eqn:E; try (vm_compute in E; discriminate).
  apply (roland_sample_pcm_exact 4 3 ex_fat ex_image ver links [4; 2; 3] 1 6 ex_points E
           c02_example_raw_chain); try (vm_compute; intuition congruence).
  repeat constructor; vm_compute; congruence.
Qed.
(** [roland_reverse_reads] instantiated on the file of [c02_example_hypotheses] *)
Example c02_example_reverse_reads :
  read_all (roland_sample_view 6 ex_points (roland_file_view 4 3 23 [2; 3])) ex_image
  = Ok [117; 118; 115; 116; 113; 114].
Proof.
  destruct c02_example_hypotheses as (Hwf & Hlen & Hw). rewrite <- Hw.
  apply roland_reverse_reads; try assumption; try reflexivity; vm_compute; congruence.
Qed.
Example c02_example_orphan_volume :
  let d := {| d_num_perf := 2; d_volumes := [[0; -1]]; d_perf_dir := [0; 3];
              d_perf := [(0, [1; -1]); (3, [1])]; d_patch := [(1, [2; 2; -1])];
              d_partial := [(2, [5; -1; 7; 5])] |} in
  orphan_perfs d = [3] /\ In (ORPHAN_VOLUME, [3]) (roland_volumes d).
Proof.
  cbn zeta. split; [reflexivity|].
  match goal with |- In _ (roland_volumes ?d) => change [3] with (orphan_perfs d) end.
  apply roland_orphan_volume_present.
  - repeat constructor; cbn; intuition congruence.
  - reflexivity.
  - intros p Hp. vm_compute in Hp. destruct Hp as [<-|[]]. now left.
  - vm_compute. discriminate.
Qed.
