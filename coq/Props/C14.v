(** C14 - A damaged directory entry affects only that entry.  Property theorems only (AKAI
    file table; the Roland records are handled by the correspondence/oracle run, see the
    claim). *)
From SE Require Import Base Codecs Fat Cue Names AkaiImage AkaiProofs NamesProofs NamesMoreProofs.

(** The file-table loop treats every 24-byte entry on its own: for ANY table [es ++ tail]
    (any number of entries, none reading as the end mark) the result is the concatenation of
    what each entry yields alone, followed by what the tail yields.  This is the property the
    D8 fix restored (a failed parse no longer leaves the cursor mid-entry). *)
Theorem akai_table_entrywise :
  forall pc sat es m tail,
    Forall is_entry es ->
    entries_loop (length es + m) pc sat (concat es ++ tail)
    = (a <- kept_all pc sat es ;; r <- entries_loop m pc sat tail ;; Ok (a ++ r)).
Proof. exact entries_loop_decompose. Qed.
Print Assumptions akai_table_entrywise.

(** Isolation.  Replace the 24 bytes of ONE entry by ANY bytes whose bytes 8-9 are not the
    end-of-table mark (hypothesis h1: that mark is the format's own terminator): every other
    entry of the table yields exactly what it yielded before, in the same order, and at most
    the damaged entry's own item disappears or changes ([x] / [x'] hold at most one item).
    [pc'] is the partition content of the damaged image; the other entries read the same
    through it because a chain's bytes depend only on its own sectors
    ([chain_bytes_local]). *)
Theorem akai_entry_isolation :
  forall pc pc' sat es1 e e' es2 tail m A B x x',
    Forall is_entry es1 -> is_entry e -> is_entry e' -> Forall is_entry es2 ->
    u16 tail 8 = TABLE_END_FLAG ->
    kept_all pc sat es1 = Ok A -> kept_all pc' sat es1 = Ok A ->
    kept_all pc sat es2 = Ok B -> kept_all pc' sat es2 = Ok B ->
    kept pc sat e = Ok x -> kept pc' sat e' = Ok x' ->
    entries_loop (length (es1 ++ e :: es2) + m) pc sat (concat (es1 ++ e :: es2) ++ tail) = Ok (A ++ x ++ B)
    /\ entries_loop (length (es1 ++ e' :: es2) + m) pc' sat (concat (es1 ++ e' :: es2) ++ tail) = Ok (A ++ x' ++ B)
    /\ (length x <= 1)%nat /\ (length x' <= 1)%nat.
Proof. exact akai_entry_isolation_lemma. Qed.
Print Assumptions akai_entry_isolation.

Theorem chain_bytes_local :
  forall pc pc' secs,
    (forall s, In s secs -> slice pc (s * SECTOR) ((s + 1) * SECTOR) = slice pc' (s * SECTOR) ((s + 1) * SECTOR)) ->
    segment_content pc secs = segment_content pc' secs.
Proof. exact segment_content_local. Qed.
Print Assumptions chain_bytes_local.

(** Without h1 the statement is false, inherently: an entry whose name bytes 8-9 read 47 D7
    IS the end of the table, so every later entry is lost. *)
Theorem akai_entry_endflag_refuted :
  exists e tail, zlen e = 24 /\ u16 e 8 = TABLE_END_FLAG /\
    entries_loop 3 [] [] (e ++ tail) = Ok [].
Proof.
  exists ([0;0;0;0;0;0;0;0;71;215] ++ repeat 0 14), (repeat 1 48).
  vm_compute. repeat split; reflexivity.
Qed.

(** Non-vacuity: a table of two entries whose type byte is unknown (0x55: each yields
    nothing) and an end mark is of the shape the theorems quantify over. *)
Example c14_example :
  let e := repeat 10 12 ++ [0;0;0;0; 85; 0;0;0; 5;0; 0;0] in
  is_entry e /\ kept [] [] e = Ok [] /\
  entries_loop 3 [] [] (concat [e; e] ++ ([0;0;0;0;0;0;0;0;71;215] ++ repeat 0 14)) = Ok [].
Proof. cbv zeta. split; [split; [reflexivity|vm_compute; discriminate]|]. split; vm_compute; reflexivity. Qed.

(** * Hypothesis h2 made precise: the sibling NAMES after one entry changed

    The names `ls` prints and the export writes come from sanitize_names_general, which
    looks at all siblings of a directory together.  Let ONE element of a directory be
    replaced (damaged entry: its candidate name changes from [cand e] to [cand e'], at the same
    position).  If the old and the new candidate are each different from every other
    sibling's candidate, and neither is a counted form "g (i)" / "stem (i) L" (i >= 2) of a
    candidate g that occurs more than once among the other siblings, then every OTHER
    sibling is handed exactly the name it had before - for every sanitising function [f]
    (make_safe_name, make_export_name), any number of siblings, any names. *)
Theorem sibling_names_stable_under_one_change :
  forall f pre e e' post names names',
    let cand := fun x : list Z * bool => f (fst x) (snd x) in
    let others := map cand (pre ++ post) in
    ~ In (cand e) others -> ~ In (cand e') others ->
    (forall g i, (2 <= count_occ_name g others)%nat -> 2 <= i ->
       add_count g i <> cand e /\ add_count g i <> cand e') ->
    sanitize_names f (pre ++ e :: post) = Ok names ->
    sanitize_names f (pre ++ e' :: post) = Ok names' ->
    forall j, j <> length pre -> nth_error names j = nth_error names' j.
Proof. exact sibling_names_stable_lemma. Qed.
Print Assumptions sibling_names_stable_under_one_change.

(** Stronger: under the same hypotheses the two runs have the SAME OUTCOME (both succeed, or
    both raise the same exception), and on success the two name lists are
    np ++ [cand e] ++ nq and np ++ [cand e'] ++ nq with the same np, nq. *)
Theorem sibling_names_one_change_same_outcome :
  forall f pre e e' post,
    let cand := fun x : list Z * bool => f (fst x) (snd x) in
    let others := map cand (pre ++ post) in
    ~ In (cand e) others -> ~ In (cand e') others ->
    (forall g i, (2 <= count_occ_name g others)%nat -> 2 <= i ->
       add_count g i <> cand e /\ add_count g i <> cand e') ->
    res_same_shape
      (fun o o' => exists np nq, o = np ++ cand e :: nq /\ o' = np ++ cand e' :: nq /\ length np = length pre)
      (sanitize_names f (pre ++ e :: post)) (sanitize_names f (pre ++ e' :: post)).
Proof. exact sanitize_names_one_change_lemma. Qed.
Print Assumptions sibling_names_one_change_same_outcome.

(** Both hypotheses are needed.  First witness: B, A -> A, A (the new name equals a
    sibling's): the sibling becomes "A (2)".  Second witness: B, A, A -> "A (2)", A, A (the
    new name differs from all siblings but is the counted form of the duplicated A): the
    third element becomes "A (3)". *)
Theorem sibling_names_change_collision_refuted :
  (exists pre e e' post names names' j,
      sanitize_names (fun n _ => n) (pre ++ e :: post) = Ok names /\
      sanitize_names (fun n _ => n) (pre ++ e' :: post) = Ok names' /\
      ~ In (fst e) (map fst (pre ++ post)) /\ In (fst e') (map fst (pre ++ post)) /\
      j <> length pre /\ nth_error names j <> nth_error names' j)
  /\ (exists pre e e' post names names' j,
      sanitize_names (fun n _ => n) (pre ++ e :: post) = Ok names /\
      sanitize_names (fun n _ => n) (pre ++ e' :: post) = Ok names' /\
      ~ In (fst e) (map fst (pre ++ post)) /\ ~ In (fst e') (map fst (pre ++ post)) /\
      j <> length pre /\ nth_error names j <> nth_error names' j).
Proof. exact one_change_collision_refuted_lemma. Qed.

(** Non-vacuity: files A, A, B, A with B replaced by C (export names): the hypotheses hold
    (the counted forms of A all begin with "A"), both runs succeed, and the three A's keep
    A, "A (2)", "A (3)". *)
Example c14_names_example :
  let pre := [([65], true); ([65], true)] in
  let post := [([65], true)] in
  let e := ([66], true) in let e' := ([67], true) in
  let cand := fun x : list Z * bool => make_export_name (fst x) (snd x) in
  let others := map cand (pre ++ post) in
  (~ In (cand e) others /\ ~ In (cand e') others /\
   (forall g i, (2 <= count_occ_name g others)%nat -> 2 <= i ->
      add_count g i <> cand e /\ add_count g i <> cand e'))
  /\ make_export_names (pre ++ e :: post) = Ok [[65]; [65;32;40;50;41]; [66]; [65;32;40;51;41]]
  /\ make_export_names (pre ++ e' :: post) = Ok [[65]; [65;32;40;50;41]; [67]; [65;32;40;51;41]].
Proof.
  cbv zeta. split; [|split; vm_compute; reflexivity].
  split; [vm_compute; intuition discriminate|]. split; [vm_compute; intuition discriminate|].
  intros g i Hg _.
  assert (Hin : In g [[65]; [65]; [65]]).
  { destruct (in_dec (list_eq_dec Z.eq_dec) g [[65]; [65]; [65]]) as [H|H]; [assumption|].
    exfalso. change (map _ _) with [[65]; [65]; [65]] in Hg.
    rewrite (count_occ_name_zero g _ H) in Hg. lia. }
  assert (g = [65]) by (cbn in Hin; intuition congruence). subst g.
  change (add_count [65] i) with (65 :: 32 :: count_str i). vm_compute. split; discriminate.
Qed.

(** * Roland S-7xx: one sample's directory record (32 bytes) / parameter record (48 bytes)

    Model: RolandEntries.v - the parse of the sample entries a performance references, from
    the image bytes, for any table geometry [ly] with [layout_ok ly] (FAT area, sample
    directory table, sample parameter table, cluster 2 in that order; [real_layout] is the
    format's and satisfies it).  [damaged_sample ly img img' k]: [img'] has the length of
    [img] and the same byte everywhere outside the two records of sample [k] - inside them
    ANY bytes.  No bound on the image, the index list or the table size. *)
From SE Require Import Stream StreamProofs Roland RolandProofs RolandChainProofs NamesRemovalProofs
                       RolandEntries RolandEntriesProofs RolandNoEscapeProofs.

Theorem roland_real_layout_ok : layout_ok real_layout.
Proof. exact real_layout_ok_lemma. Qed.
Print Assumptions roland_real_layout_ok.

(** T1.  The records of two different samples are disjoint byte ranges (directory against
    directory, parameter against parameter), no directory record meets a parameter record,
    and every record lies behind the FAT area and before cluster 2. *)
Theorem roland_records_disjoint : forall ly i j a,
  layout_ok ly -> 0 <= i < ly_max ly -> 0 <= j < ly_max ly ->
  (i <> j -> in_dir_rec ly i a -> ~ in_dir_rec ly j a) /\
  (i <> j -> in_par_rec ly i a -> ~ in_par_rec ly j a) /\
  (in_dir_rec ly i a -> ~ in_par_rec ly j a) /\
  (in_dir_rec ly i a \/ in_par_rec ly i a ->
     ly_fat ly + 2 * ly_nfat ly <= a < ly_doff ly + 2 * ly_L ly).
Proof. exact roland_records_disjoint_lemma. Qed.
Print Assumptions roland_records_disjoint.
(** ... and, at the format's addresses, outside every record of the four other tables
    (volume, performance, patch, partial: the records through which the sample is reached, so
    that the list of referenced samples itself does not depend on a sample record). *)
Theorem roland_sample_records_apart : forall k m i a,
  k <> KSample -> 0 <= m < max_num k -> 0 <= i < max_num KSample ->
  in_dir_rec real_layout i a \/ in_par_rec real_layout i a ->
  ~ (dir_offset k m <= a < dir_offset k m + DIR_ENTRY_SIZE) /\
  ~ (par_offset k m <= a < par_offset k m + par_size k).
Proof. exact roland_sample_records_apart_lemma. Qed.
Print Assumptions roland_sample_records_apart.

(** T2.  Isolation of one reference: the outcome of parsing sample [j <> k] - the entry with
    its names, start cluster, cluster_top, loop mode, points, frequency; or the error that
    drops it; then the cluster list get_file returns, or what it raises - is the same in the
    damaged image.  ([j] arbitrary: negative, past the table.) *)
Theorem roland_entry_isolation : forall ly img img' k j,
  layout_ok ly -> 0 <= k < ly_max ly -> damaged_sample ly img img' k -> j <> k ->
  parse_sample_entry ly img' j = parse_sample_entry ly img j /\
  forall N links, sample_ref ly N links img' j = sample_ref ly N links img j /\
                  kept_ref ly N links img' j = kept_ref ly N links img j.
Proof. exact roland_entry_isolation_lemma. Qed.
Print Assumptions roland_entry_isolation.

(** T3.  The listing.  For ANY list of references (the damaged sample may be referenced by
    several patches): if the original image lists [L], the damaged image either lists [L']
    with the entries of all other samples unchanged, in order - or its listing fails, and then
    with a failure of the damaged sample's OWN reference that the tolerant loop does not
    swallow (only what get_file raises qualifies: RequestedInvalidSector /
    InvalidFatDefinition, which the format's 65536-entry table cannot produce for a 16-bit
    start cluster; a record's own parse errors are all swallowed: [kept_ref]). *)
Theorem roland_listing_isolation : forall ly N links img img' k idx L,
  layout_ok ly -> 0 <= k < ly_max ly -> damaged_sample ly img img' k ->
  entries_of ly N links img idx = Ok L ->
  (exists L', entries_of ly N links img' idx = Ok L' /\ other_entries k L' = other_entries k L)
  \/ (In k idx /\ escapes (sample_ref ly N links img' k) = true /\
      is_ok (entries_of ly N links img' idx) = false).
Proof. exact roland_listing_isolation_lemma. Qed.
Print Assumptions roland_listing_isolation.
(** The failure case cannot arise with the link table of an accepted FAT: get_path from ANY
    start cluster inside the table succeeds (every installed link is the raw link of a
    cluster that heads a raw path inside the table, of at most N clusters, to an end mark) -
    for every table of non-negative words, any size. *)
Theorem roland_get_file_never_raises : forall fat,
  Forall (fun w => 0 <= w) fat ->
  forall ver links entry top,
    roland_decode fat = Ok (ver, links) -> 0 <= entry < zlen fat ->
    exists secs, roland_get_file (zlen fat) links entry top = Ok secs.
Proof. exact roland_get_file_never_fails. Qed.
Print Assumptions roland_get_file_never_raises.
(** Hence, for images of bytes, a FAT of at least 65536 words (the start cluster is a 16-bit
    field) that the decoder accepts, and the decoded link table: the listing of ANY index list
    never fails, whatever the sample records hold ... *)
Theorem roland_listing_never_fails : forall ly img ver links img2 idx,
  byte_image img -> 65536 <= ly_nfat ly ->
  roland_decode (fat_words ly img) = Ok (ver, links) -> byte_image img2 ->
  exists L, entries_of ly (ly_nfat ly) links img2 idx = Ok L.
Proof. exact entries_of_never_fails_lemma. Qed.
Print Assumptions roland_listing_never_fails.
(** ... and T3 holds without the failure case: the damaged image has the same FAT, both
    listings succeed, and the entries of all other samples are the same, in order. *)
Theorem roland_listing_isolation_total : forall ly img img' k idx ver links,
  layout_ok ly -> 0 <= k < ly_max ly -> damaged_sample ly img img' k ->
  byte_image img -> byte_image img' -> 65536 <= ly_nfat ly ->
  roland_decode (fat_words ly img) = Ok (ver, links) ->
  roland_decode (fat_words ly img') = Ok (ver, links) /\
  exists L L', entries_of ly (ly_nfat ly) links img idx = Ok L /\
               entries_of ly (ly_nfat ly) links img' idx = Ok L' /\
               other_entries k L' = other_entries k L.
Proof. exact roland_listing_isolation_total_lemma. Qed.
Print Assumptions roland_listing_isolation_total.
(** (the format's geometry has the 65536 words) *)
Example roland_real_layout_fat_size : 65536 <= ly_nfat real_layout.
Proof. vm_compute. congruence. Qed.

(** The same with the damaged sample referenced once, in the form of [akai_entry_isolation]:
    both listings are A ++ x ++ B / A ++ x' ++ B with the same A and B, and x, x' hold at
    most one entry (the damaged sample's: kept, changed or dropped). *)
Theorem roland_listing_entrywise : forall ly N links img img' k pre post A B x x',
  layout_ok ly -> 0 <= k < ly_max ly -> damaged_sample ly img img' k ->
  ~ In k pre -> ~ In k post ->
  entries_of ly N links img pre = Ok A -> entries_of ly N links img post = Ok B ->
  kept_ref ly N links img k = Ok x -> kept_ref ly N links img' k = Ok x' ->
  entries_of ly N links img (pre ++ k :: post) = Ok (A ++ x ++ B)
  /\ entries_of ly N links img' (pre ++ k :: post) = Ok (A ++ x' ++ B)
  /\ (length x <= 1)%nat /\ (length x' <= 1)%nat.
Proof. exact roland_listing_decompose_lemma. Qed.
Print Assumptions roland_listing_entrywise.

(** T3, names.  The names `ls` prints / `export` writes for the files of a performance
    (programs, then samples) come from sanitize_names over all of them.  (a) The damaged
    sample still parses, with entry [x'] instead of [x]: under the two conditions of
    [sibling_names_stable_under_one_change] (old and new candidate differ from every other
    candidate; neither is a counted form of a candidate occurring twice among the others)
    every program and every other sample is listed under the name it had.  The namesake case
    is the design-inherent finding D15. *)
Theorem roland_listed_names_stable : forall f progs A B x x' names names',
  let cand := fun n : list Z => f n true in
  let others_c := map cand (progs ++ map entry_name (A ++ B)) in
  ~ In (cand (entry_name x)) others_c -> ~ In (cand (entry_name x')) others_c ->
  (forall g i, (2 <= count_occ_name g others_c)%nat -> 2 <= i ->
     add_count g i <> cand (entry_name x) /\ add_count g i <> cand (entry_name x')) ->
  perf_listed_names f progs (A ++ x :: B) = Ok names ->
  perf_listed_names f progs (A ++ x' :: B) = Ok names' ->
  forall j, j <> (length progs + length A)%nat -> nth_error names j = nth_error names' j.
Proof. exact roland_listed_names_lemma. Qed.
Print Assumptions roland_listed_names_stable.
(** (b) The damaged sample is DROPPED (its record no longer parses; or, read the other way,
    it did not parse and now does): the names of all the others are those of the listing
    without it, under the same conditions on its one candidate.  General form, for any
    directory: *)
Theorem sibling_names_stable_under_removal :
  forall f pre e post names names0,
    let cand := fun x : list Z * bool => f (fst x) (snd x) in
    let others := map cand (pre ++ post) in
    ~ In (cand e) others ->
    (forall g i, (2 <= count_occ_name g others)%nat -> 2 <= i -> add_count g i <> cand e) ->
    sanitize_names f (pre ++ e :: post) = Ok names ->
    sanitize_names f (pre ++ post) = Ok names0 ->
    exists np v nq, names = np ++ v :: nq /\ names0 = np ++ nq /\ length np = length pre.
Proof. exact sibling_names_removal_lemma. Qed.
Print Assumptions sibling_names_stable_under_removal.
Theorem roland_listed_names_dropped : forall f progs A B x names names0,
  let cand := fun n : list Z => f n true in
  let others_c := map cand (progs ++ map entry_name (A ++ B)) in
  ~ In (cand (entry_name x)) others_c ->
  (forall g i, (2 <= count_occ_name g others_c)%nat -> 2 <= i -> add_count g i <> cand (entry_name x)) ->
  perf_listed_names f progs (A ++ x :: B) = Ok names ->
  perf_listed_names f progs (A ++ B) = Ok names0 ->
  exists np v nq, names = np ++ v :: nq /\ names0 = np ++ nq /\ length np = (length progs + length A)%nat.
Proof. exact roland_listed_names_dropped_lemma. Qed.
Print Assumptions roland_listed_names_dropped.

(** T4.  Exported bytes.  Sample [j <> k] parses to [e]; its start cluster heads a raw chain
    [c] of the (accepted) FAT, [cluster_top] lies inside the chain and the loop-mode window
    inside the remaining clusters (the hypotheses of C02's [roland_sample_pcm_exact]).  Then
    readall() of its exported stream returns the same bytes in the damaged image: they are a
    function of its two records (T2), the FAT words (the FAT area precedes the tables) and
    the bytes of the chain's clusters (numbered >= 2: behind the parameter table). *)
Theorem roland_sample_bytes_local : forall ly img img' k j e ver links c,
  layout_ok ly -> 0 <= k < ly_max ly -> damaged_sample ly img img' k -> j <> k ->
  parse_sample_entry ly img j = Ok e ->
  let top := sp_cluster_top (se_par e) in
  let mode := sp_mode (se_par e) in
  let p := sp_points (se_par e) in
  roland_decode (fat_words ly img) = Ok (ver, links) -> raw_roland_chain (fat_words ly img) c ->
  hd 0 c = de_fat_entry (se_dir e) ->
  0 <= ly_doff ly < zlen img -> 0 <= top < zlen c ->
  Forall (fun x => (x + 1) * ly_L ly <= zlen img - ly_doff ly) c ->
  0 <= p_start p -> p_start p <= roland_end mode p ->
  2 * (roland_end mode p + 1) <= ly_L ly * (zlen c - top) ->
  sample_pcm ly img' j = sample_pcm ly img j
  /\ sample_pcm ly img j
     = Ok (window_bytes mode p
             (logical (roland_file_view (ly_L ly) (ly_doff ly) (zlen img) (skipn (Z.to_nat top) c)) img)).
Proof. exact roland_sample_bytes_local_lemma. Qed.
Print Assumptions roland_sample_bytes_local.
(** Not proved: the same for a sibling whose own chain is NOT a raw chain of clusters >= 2
    (e.g. start cluster 0 or 1, whose bytes overlap the last parameter records: such a
    sibling reads table bytes as audio, and damage to records 7808..8191 does change what it
    exports), and for one whose read fails. *)

(** Overwriting the 32 bytes of a directory record is such a damage. *)
Theorem roland_splice_is_damage : forall ly img k rep,
  0 <= k -> 0 <= ly_dbase ly -> zlen rep = DIR_REC -> dir_rec_offset ly k + DIR_REC <= zlen img ->
  damaged_sample ly img (splice img (dir_rec_offset ly k) rep) k.
Proof. exact splice_damaged_dir. Qed.
Print Assumptions roland_splice_is_damage.

Theorem roland_splice_par_is_damage : forall ly img k rep,
  0 <= k -> 0 <= ly_pbase ly -> zlen rep = PAR_REC -> par_rec_offset ly k + PAR_REC <= zlen img ->
  damaged_sample ly img (splice img (par_rec_offset ly k) rep) k.
Proof. exact splice_damaged_par. Qed.
Print Assumptions roland_splice_par_is_damage.

(** Both conditions of the removal theorem are needed (names used as they are).  First
    witness: A, A with the first removed - its candidate equals the other's: the other was
    "A (2)" and becomes "A" (two samples that ALREADY share a name: dropping one renames the
    other; design-inherent like D15).  Second witness: "A (2)", A, A with the first removed -
    its candidate is the counted form of the duplicated A: the third was "A (3)" and becomes
    "A (2)". *)
Theorem sibling_names_removal_collision_refuted :
  (exists pre e post names names0,
      sanitize_names (fun n _ => n) (pre ++ e :: post) = Ok names /\ sanitize_names (fun n _ => n) (pre ++ post) = Ok names0 /\
      In (fst e) (map fst (pre ++ post)) /\ nth_error names 1 <> nth_error names0 0)
  /\ (exists pre e post names names0,
      sanitize_names (fun n _ => n) (pre ++ e :: post) = Ok names /\ sanitize_names (fun n _ => n) (pre ++ post) = Ok names0 /\
      ~ In (fst e) (map fst (pre ++ post)) /\ nth_error names 2 <> nth_error names0 1).
Proof.
  split.
  - exists [], ([65], true), [([65], true)], [[65]; [65; 32; 40; 50; 41]], [[65]].
    split; [vm_compute; reflexivity|]. split; [vm_compute; reflexivity|].
    split; [now left|vm_compute; congruence].
  - exists [], ([65; 32; 40; 50; 41], true), [([65], true); ([65], true)],
      [[65; 32; 40; 50; 41]; [65]; [65; 32; 40; 51; 41]], [[65]; [65; 32; 40; 50; 41]].
    split; [vm_compute; reflexivity|]. split; [vm_compute; reflexivity|].
    split; [vm_compute; intuition discriminate|vm_compute; congruence].
Qed.

(** ** Non-vacuity: a scaled-down disk with a 3-sample table

    FAT of 24 words at 0; directory table (3 x 32) at 48; parameter table (3 x 48) at 144;
    clusters of 16 bytes, cluster c at 256 + 16 c (cluster 2 at 288 = end of the table);
    samples KICK (chain 2,3,4, forward), SNARE (chain 7), HAT (chain 5,6, cluster_top 1,
    reverse one-shot).  Damage: the directory record of SNARE overwritten (first name byte
    0xFF: no longer ASCII). *)
Definition ex_ly : rlayout :=
  {| ly_max := 3; ly_dbase := 48; ly_pbase := 144; ly_fat := 0; ly_nfat := 24; ly_L := 16; ly_doff := 256 |}.
Definition b16 (v : Z) : list Z := [v mod 256; v / 256].
Definition b32 (v : Z) : list Z := b16 (v mod 65536) ++ b16 (v / 65536).
Definition name16 (s : list Z) : list Z := s ++ repeat 0 (16 - length s).
Definition ex_dir (name : list Z) (first ncl : Z) : list Z :=
  name16 name ++ [68; 0] ++ b16 0 ++ b16 0 ++ b16 0 ++ b32 0 ++ b16 first ++ b16 ncl.
Definition ex_par (name : list Z) (pts : list Z) (mode top ncl opt : Z) : list Z :=
  name16 name ++ concat (map (fun a => b32 (256 * a)) pts) ++ [mode; 1; 0; 0] ++ b16 top ++ b16 ncl ++ [opt; 60; 0; 0].
Definition ex_fatw : list Z :=
  [FAT_AREA_ID; 0; 3; 4; FAT_END; 6; FAT_END; FAT_END] ++ repeat 0 14 ++ [FAT_V1; FAT_V1].
Definition KICK : list Z := [75; 73; 67; 75].
Definition SNARE : list Z := [83; 78; 65; 82; 69].
Definition HAT : list Z := [72; 65; 84].
Definition ex_img : list Z :=
  concat (map b16 ex_fatw)
  ++ ex_dir KICK 2 3 ++ ex_dir SNARE 7 1 ++ ex_dir HAT 5 2
  ++ ex_par KICK [0; 0; 23; 0; 23] 0 0 3 1 ++ ex_par SNARE [0; 0; 7; 0; 7] 2 0 1 0 ++ ex_par HAT [0; 0; 7; 0; 7] 5 1 1 3
  ++ map Z.of_nat (seq 1 128).
Definition ex_rep : list Z := 255 :: repeat 7 31.
Definition ex_img' : list Z := splice ex_img (dir_rec_offset ex_ly 1) ex_rep.

Example c14_roland_example_layout : layout_ok ex_ly /\ zlen ex_img = 416 /\ fat_words ex_ly ex_img = ex_fatw.
Proof. split; [|split]; vm_compute; intuition congruence. Qed.
Example c14_roland_example_damage : damaged_sample ex_ly ex_img ex_img' 1 /\ ex_img' <> ex_img.
Proof.
  split; [|vm_compute; congruence].
  apply roland_splice_is_damage; vm_compute; congruence.
Qed.
(** the listing before and after (link table = the decoded FAT): SNARE is dropped, KICK and
    HAT keep name, cluster list and window parameters - as T2 / T3 say *)
Example c14_roland_example_listing :
  exists links, roland_decode (fat_words ex_ly ex_img) = Ok (1, links) /\
    let view := fun r => match r with
                         | Ok l => Some (map (fun x : sentry * list Z =>
                             (entry_name x, snd x, sp_mode (se_par (fst x)), p_sus_end (sp_points (se_par (fst x))),
                              sp_freq (se_par (fst x)))) l)
                         | _ => None end in
    view (entries_of ex_ly 24 links ex_img [0; 1; 2])
    = Some [(KICK, [2; 3; 4], 0, 23, 44100); (SNARE, [7], 2, 7, 48000); (HAT, [6], 5, 7, 22050)]
    /\ view (entries_of ex_ly 24 links ex_img' [0; 1; 2])
    = Some [(KICK, [2; 3; 4], 0, 23, 44100); (HAT, [6], 5, 7, 22050)]
    /\ parse_sample_entry ex_ly ex_img' 1 = Err ConstructErr
    /\ (forall j, j <> 1 -> kept_ref ex_ly 24 links ex_img' j = kept_ref ex_ly 24 links ex_img j).
Proof.
  destruct (roland_decode (fat_words ex_ly ex_img)) as [[ver links]| |] eqn:E; try (vm_compute in E; discriminate).
  assert (ver = 1) as -> by (vm_compute in E; congruence).
  exists links. split; [reflexivity|].
  assert (Hl : links = match roland_decode (fat_words ex_ly ex_img) with Ok t => snd t | _ => [] end)
    by (now rewrite E).
  cbv zeta. split; [|split; [|split]].
  - rewrite Hl. vm_compute. reflexivity.
  - rewrite Hl. vm_compute. reflexivity.
  - vm_compute. reflexivity.
  - intros j Hj.
    apply (roland_entry_isolation ex_ly ex_img ex_img' 1 j); try assumption;
      [apply c14_roland_example_layout|vm_compute; intuition congruence|apply c14_roland_example_damage].
Qed.
(** get_file on the example's table: every start cluster inside it resolves (by the theorem) *)
Example c14_roland_example_get_file :
  exists links, roland_decode ex_fatw = Ok (1, links) /\
    forall entry top, 0 <= entry < 24 -> exists secs, roland_get_file 24 links entry top = Ok secs.
Proof.
  destruct (roland_decode ex_fatw) as [[ver links]| |] eqn:E; try (vm_compute in E; discriminate).
  assert (ver = 1) as -> by (vm_compute in E; congruence).
  exists links. split; [reflexivity|]. intros entry top He.
  apply (roland_get_file_never_raises ex_fatw ltac:(repeat constructor; vm_compute; congruence) 1 links entry top E He).
Qed.
(** T4 on the example: HAT (j = 2; chain 5,6 minus one leading cluster, reversed) exports the
    same 16 bytes from the damaged image - all hypotheses of the theorem hold *)
Example c14_roland_example_bytes :
  sample_pcm ex_ly ex_img' 2 = sample_pcm ex_ly ex_img 2
  /\ sample_pcm ex_ly ex_img 2 = Ok [79; 80; 77; 78; 75; 76; 73; 74; 71; 72; 69; 70; 67; 68; 65; 66].
Proof.
  destruct (roland_decode (fat_words ex_ly ex_img)) as [[ver links]| |] eqn:E; try (vm_compute in E; discriminate).
  pose (r := parse_sample_entry ex_ly ex_img 2). vm_compute in r.
  match goal with r := Ok ?x |- _ => pose (e := x) end.
  assert (Ee : parse_sample_entry ex_ly ex_img 2 = Ok e) by (vm_compute; reflexivity).
  assert (Hc : raw_roland_chain (fat_words ex_ly ex_img) [5; 6]).
  { apply raw_roland_chain_unfold_lemma. split; [discriminate|]. split; [|split].
    - repeat constructor; vm_compute; congruence.
    - intros i Hi. change (zlen [5; 6]) with 2 in Hi. assert (i = 0) as -> by lia. reflexivity.
    - vm_compute. congruence. }
  assert (H1 : sample_pcm ex_ly ex_img' 2 = sample_pcm ex_ly ex_img 2).
  { eapply proj1.
    apply (roland_sample_bytes_local ex_ly ex_img ex_img' 1 2 e ver links [5; 6]
              (proj1 c14_roland_example_layout) ltac:(vm_compute; intuition congruence)
              (proj1 c14_roland_example_damage) ltac:(lia) Ee E Hc);
      try (vm_compute; intuition congruence).
    repeat constructor; vm_compute; congruence. }
  split; [exact H1|]. vm_compute. reflexivity.
Qed.
(** T3 (names) on the example: program PATCH, samples KICK, SNARE -> SNARX, HAT: the
    conditions hold (no candidate occurs twice among the others), the listed names of the
    others are unchanged; and with SNARE dropped the three others keep their names *)
Example c14_roland_example_names :
  let ent := fun name => ({| se_index := 0; se_dir := {| de_name := name; de_type := 68; de_attr := 0;
                               de_fat_entry := 0; de_nclusters := 0 |};
                             se_par := {| sp_name := name; sp_points := {| p_start := 0; p_sus_start := 0;
                               p_sus_end := 0; p_rel_start := 0; p_rel_end := 0 |}; sp_fines := []; sp_mode := 0;
                               sp_sus_enable := 0; sp_sus_tune := 0; sp_rel_tune := 0; sp_cluster_top := 0;
                               sp_nclusters := 0; sp_sample_mode := 0; sp_freq := 48000;
                               sp_key := from_midi_byte 60 |} |}, @nil Z) in
  let PATCH := [80; 65; 84; 67; 72] in let SNARX := [83; 78; 65; 82; 88] in
  perf_listed_names make_export_name [PATCH] ([ent KICK] ++ ent SNARE :: [ent HAT]) = Ok [PATCH; KICK; SNARE; HAT]
  /\ perf_listed_names make_export_name [PATCH] ([ent KICK] ++ ent SNARX :: [ent HAT]) = Ok [PATCH; KICK; SNARX; HAT]
  /\ perf_listed_names make_export_name [PATCH] ([ent KICK] ++ [ent HAT]) = Ok [PATCH; KICK; HAT]
  /\ (let cand := fun n : list Z => make_export_name n true in
      let others_c := map cand ([PATCH] ++ map entry_name ([ent KICK] ++ [ent HAT])) in
      ~ In (cand (entry_name (ent SNARE))) others_c /\ ~ In (cand (entry_name (ent SNARX))) others_c /\
      (forall g i, (2 <= count_occ_name g others_c)%nat -> 2 <= i ->
         add_count g i <> cand (entry_name (ent SNARE)) /\ add_count g i <> cand (entry_name (ent SNARX)))).
Proof.
  cbv zeta. split; [vm_compute; reflexivity|]. split; [vm_compute; reflexivity|]. split; [vm_compute; reflexivity|].
  split; [vm_compute; intuition discriminate|]. split; [vm_compute; intuition discriminate|].
  intros g i Hg _. exfalso.
  change (map _ _) with [[80; 65; 84; 67; 72]; KICK; HAT] in Hg.
  destruct (in_dec (list_eq_dec Z.eq_dec) g [[80; 65; 84; 67; 72]; KICK; HAT]) as [H|H].
  - cbn in H. destruct H as [<-|[<-|[<-|[]]]]; vm_compute in Hg; lia.
  - rewrite (count_occ_name_zero g _ H) in Hg. lia.
Qed.

(** The chain hypothesis of T4 cannot be dropped: cluster numbers 0 and 1 are addressable
    (get_file follows any 16-bit start cluster) and their bytes lie INSIDE the parameter table
    (real geometry: cluster 0 = bytes 0x2B1000.. = parameter records 7808..8191).  A sample
    whose directory record names start cluster 0 - a value the format never allocates; the
    entry is itself corrupt - exports those table bytes, so damage to one of those records
    changes what it exports.  Scaled down: KICK's start cluster set to 0 (cluster 0 = bytes
    256..271 = the points of HAT's parameter record); HAT's parameter record overwritten. *)
Definition ex_img0 : list Z := splice ex_img (dir_rec_offset ex_ly 0 + 28) [0; 0].
Definition ex_img0' : list Z := splice ex_img0 (par_rec_offset ex_ly 2) (ex_par HAT [1; 2; 3; 4; 5] 0 0 1 0).
Example c14_roland_cluster0_boundary :
  damaged_sample ex_ly ex_img0 ex_img0' 2
  /\ (exists e, parse_sample_entry ex_ly ex_img0 0 = Ok e /\ de_fat_entry (se_dir e) = 0)
  /\ parse_sample_entry ex_ly ex_img0' 0 = parse_sample_entry ex_ly ex_img0 0
  /\ sample_pcm ex_ly ex_img0 0 <> sample_pcm ex_ly ex_img0' 0
  /\ is_ok (sample_pcm ex_ly ex_img0 0) = true /\ is_ok (sample_pcm ex_ly ex_img0' 0) = true.
Proof.
  split; [apply roland_splice_par_is_damage; vm_compute; congruence|].
  split; [eexists; split; vm_compute; reflexivity|].
  split; [vm_compute; reflexivity|]. split; [vm_compute; congruence|]. split; vm_compute; reflexivity.
Qed.
