(** C14 - A damaged directory entry affects only that entry.  Property theorems only (AKAI
    file table; the Roland records are handled by the correspondence/oracle run, see the
    claim). *)
From SE Require Import Base Codecs Fat Cue Names AkaiImage AkaiProofs NamesProofs NamesMoreProofs.

(** The file-table loop treats every 24-byte entry on its own: for ANY table [es ++ tail]
    (any number of entries, none reading as the end mark) the result is the concatenation of
    what each entry yields alone, followed by what the tail yields.  This is the property the
    D8 fix restored (a failed parse no longer leaves the cursor mid-entry). *)
Theorem akai_table_entrywise :
  forall pc sat es m tail,
    Forall is_entry es ->
    entries_loop (length es + m) pc sat (concat es ++ tail)
    = (a <- kept_all pc sat es ;; r <- entries_loop m pc sat tail ;; Ok (a ++ r)).
Proof. exact entries_loop_decompose. Qed.
Print Assumptions akai_table_entrywise.

(** Isolation.  Replace the 24 bytes of ONE entry by ANY bytes whose bytes 8-9 are not the
    end-of-table mark (hypothesis h1: that mark is the format's own terminator): every other
    entry of the table yields exactly what it yielded before, in the same order, and at most
    the damaged entry's own item disappears or changes ([x] / [x'] hold at most one item).
    [pc'] is the partition content of the damaged image; the other entries read the same
    through it because a chain's bytes depend only on its own sectors
    ([chain_bytes_local]). *)
Theorem akai_entry_isolation :
  forall pc pc' sat es1 e e' es2 tail m A B x x',
    Forall is_entry es1 -> is_entry e -> is_entry e' -> Forall is_entry es2 ->
    u16 tail 8 = TABLE_END_FLAG ->
    kept_all pc sat es1 = Ok A -> kept_all pc' sat es1 = Ok A ->
    kept_all pc sat es2 = Ok B -> kept_all pc' sat es2 = Ok B ->
    kept pc sat e = Ok x -> kept pc' sat e' = Ok x' ->
    entries_loop (length (es1 ++ e :: es2) + m) pc sat (concat (es1 ++ e :: es2) ++ tail) = Ok (A ++ x ++ B)
    /\ entries_loop (length (es1 ++ e' :: es2) + m) pc' sat (concat (es1 ++ e' :: es2) ++ tail) = Ok (A ++ x' ++ B)
    /\ (length x <= 1)%nat /\ (length x' <= 1)%nat.
Proof. exact akai_entry_isolation_lemma. Qed.
Print Assumptions akai_entry_isolation.

Theorem chain_bytes_local :
  forall pc pc' secs,
    (forall s, In s secs -> slice pc (s * SECTOR) ((s + 1) * SECTOR) = slice pc' (s * SECTOR) ((s + 1) * SECTOR)) ->
    segment_content pc secs = segment_content pc' secs.
Proof. exact segment_content_local. Qed.
Print Assumptions chain_bytes_local.

(** Without h1 the statement is false, inherently: an entry whose name bytes 8-9 read 47 D7
    IS the end of the table, so every later entry is lost. *)
Theorem akai_entry_endflag_refuted :
  exists e tail, zlen e = 24 /\ u16 e 8 = TABLE_END_FLAG /\
    entries_loop 3 [] [] (e ++ tail) = Ok [].
Proof.
  exists ([0;0;0;0;0;0;0;0;71;215] ++ repeat 0 14), (repeat 1 48).
  vm_compute. repeat split; reflexivity.
Qed.

(** Non-vacuity: a table of two entries whose type byte is unknown (0x55: each yields
    nothing) and an end mark is of the shape the theorems quantify over. *)
Example c14_example :
  let e := repeat 10 12 ++ [0;0;0;0; 85; 0;0;0; 5;0; 0;0] in
  is_entry e /\ kept [] [] e = Ok [] /\
  entries_loop 3 [] [] (concat [e; e] ++ ([0;0;0;0;0;0;0;0;71;215] ++ repeat 0 14)) = Ok [].
Proof. cbv zeta. split; [split; [reflexivity|vm_compute; discriminate]|]. split; vm_compute; reflexivity. Qed.

(** * Hypothesis h2 made precise: the sibling NAMES after one entry changed

    The names `ls` prints and the export writes come from sanitize_names_general, which
    looks at all siblings of a directory together.  Let ONE element of a directory be
    replaced (damaged entry: its candidate name changes from [cand e] to [cand e'], at the same
    position).  If the old and the new candidate are each different from every other
    sibling's candidate, and neither is a counted form "g (i)" / "stem (i) L" (i >= 2) of a
    candidate g that occurs more than once among the other siblings, then every OTHER
    sibling is handed exactly the name it had before - for every sanitising function [f]
    (make_safe_name, make_export_name), any number of siblings, any names. *)
Theorem sibling_names_stable_under_one_change :
  forall f pre e e' post names names',
    let cand := fun x : list Z * bool => f (fst x) (snd x) in
    let others := map cand (pre ++ post) in
    ~ In (cand e) others -> ~ In (cand e') others ->
    (forall g i, (2 <= count_occ_name g others)%nat -> 2 <= i ->
       add_count g i <> cand e /\ add_count g i <> cand e') ->
    sanitize_names f (pre ++ e :: post) = Ok names ->
    sanitize_names f (pre ++ e' :: post) = Ok names' ->
    forall j, j <> length pre -> nth_error names j = nth_error names' j.
Proof. exact sibling_names_stable_lemma. Qed.
Print Assumptions sibling_names_stable_under_one_change.

(** Stronger: under the same hypotheses the two runs have the SAME OUTCOME (both succeed, or
    both raise the same exception), and on success the two name lists are
    np ++ [cand e] ++ nq and np ++ [cand e'] ++ nq with the same np, nq. *)
Theorem sibling_names_one_change_same_outcome :
  forall f pre e e' post,
    let cand := fun x : list Z * bool => f (fst x) (snd x) in
    let others := map cand (pre ++ post) in
    ~ In (cand e) others -> ~ In (cand e') others ->
    (forall g i, (2 <= count_occ_name g others)%nat -> 2 <= i ->
       add_count g i <> cand e /\ add_count g i <> cand e') ->
    res_same_shape
      (fun o o' => exists np nq, o = np ++ cand e :: nq /\ o' = np ++ cand e' :: nq /\ length np = length pre)
      (sanitize_names f (pre ++ e :: post)) (sanitize_names f (pre ++ e' :: post)).
Proof. exact sanitize_names_one_change_lemma. Qed.
Print Assumptions sibling_names_one_change_same_outcome.

(** Both hypotheses are needed.  First witness: B, A -> A, A (the new name equals a
    sibling's): the sibling becomes "A (2)".  Second witness: B, A, A -> "A (2)", A, A (the
    new name differs from all siblings but is the counted form of the duplicated A): the
    third element becomes "A (3)". *)
Theorem sibling_names_change_collision_refuted :
  (exists pre e e' post names names' j,
      sanitize_names (fun n _ => n) (pre ++ e :: post) = Ok names /\
      sanitize_names (fun n _ => n) (pre ++ e' :: post) = Ok names' /\
      ~ In (fst e) (map fst (pre ++ post)) /\ In (fst e') (map fst (pre ++ post)) /\
      j <> length pre /\ nth_error names j <> nth_error names' j)
  /\ (exists pre e e' post names names' j,
      sanitize_names (fun n _ => n) (pre ++ e :: post) = Ok names /\
      sanitize_names (fun n _ => n) (pre ++ e' :: post) = Ok names' /\
      ~ In (fst e) (map fst (pre ++ post)) /\ ~ In (fst e') (map fst (pre ++ post)) /\
      j <> length pre /\ nth_error names j <> nth_error names' j).
Proof. exact one_change_collision_refuted_lemma. Qed.

(** Non-vacuity: files A, A, B, A with B replaced by C (export names): the hypotheses hold
    (the counted forms of A all begin with "A"), both runs succeed, and the three A's keep
    A, "A (2)", "A (3)". *)
Example c14_names_example :
  let pre := [([65], true); ([65], true)] in
  let post := [([65], true)] in
  let e := ([66], true) in let e' := ([67], true) in
  let cand := fun x : list Z * bool => make_export_name (fst x) (snd x) in
  let others := map cand (pre ++ post) in
  (~ In (cand e) others /\ ~ In (cand e') others /\
   (forall g i, (2 <= count_occ_name g others)%nat -> 2 <= i ->
      add_count g i <> cand e /\ add_count g i <> cand e'))
  /\ make_export_names (pre ++ e :: post) = Ok [[65]; [65;32;40;50;41]; [66]; [65;32;40;51;41]]
  /\ make_export_names (pre ++ e' :: post) = Ok [[65]; [65;32;40;50;41]; [67]; [65;32;40;51;41]].
Proof.
  cbv zeta. split; [|split; vm_compute; reflexivity].
  split; [vm_compute; intuition discriminate|]. split; [vm_compute; intuition discriminate|].
  intros g i Hg _.
  assert (Hin : In g [[65]; [65]; [65]]).
  { destruct (in_dec (list_eq_dec Z.eq_dec) g [[65]; [65]; [65]]) as [H|H]; [assumption|].
    exfalso. change (map _ _) with [[65]; [65]; [65]] in Hg.
    rewrite (count_occ_name_zero g _ H) in Hg. lia. }
  assert (g = [65]) by (cbn in Hin; intuition congruence). subst g.
  change (add_count [65] i) with (65 :: 32 :: count_str i). vm_compute. split; discriminate.
Qed.
