(** C14 - A damaged directory entry affects only that entry.  Property theorems only (AKAI
    file table; the Roland records are handled by the correspondence/oracle run, see the
    claim). *)
From SE Require Import Base Codecs Fat Cue Names AkaiImage AkaiProofs.

(** The file-table loop treats every 24-byte entry on its own: for ANY table [es ++ tail]
    (any number of entries, none reading as the end mark) the result is the concatenation of
    what each entry yields alone, followed by what the tail yields.  This is the property the
    D8 fix restored (a failed parse no longer leaves the cursor mid-entry). *)
Theorem akai_table_entrywise :
  forall pc sat es m tail,
    Forall is_entry es ->
    entries_loop (length es + m) pc sat (concat es ++ tail)
    = (a <- kept_all pc sat es ;; r <- entries_loop m pc sat tail ;; Ok (a ++ r)).
Proof. exact entries_loop_decompose. Qed.
Print Assumptions akai_table_entrywise.

(** Isolation.  Replace the 24 bytes of ONE entry by ANY bytes whose bytes 8-9 are not the
    end-of-table mark (hypothesis h1: that mark is the format's own terminator): every other
    entry of the table yields exactly what it yielded before, in the same order, and at most
    the damaged entry's own item disappears or changes ([x] / [x'] hold at most one item).
    [pc'] is the partition content of the damaged image; the other entries read the same
    through it because a chain's bytes depend only on its own sectors
    ([chain_bytes_local]). *)
Theorem akai_entry_isolation :
  forall pc pc' sat es1 e e' es2 tail m A B x x',
    Forall is_entry es1 -> is_entry e -> is_entry e' -> Forall is_entry es2 ->
    u16 tail 8 = TABLE_END_FLAG ->
    kept_all pc sat es1 = Ok A -> kept_all pc' sat es1 = Ok A ->
    kept_all pc sat es2 = Ok B -> kept_all pc' sat es2 = Ok B ->
    kept pc sat e = Ok x -> kept pc' sat e' = Ok x' ->
    entries_loop (length (es1 ++ e :: es2) + m) pc sat (concat (es1 ++ e :: es2) ++ tail) = Ok (A ++ x ++ B)
    /\ entries_loop (length (es1 ++ e' :: es2) + m) pc' sat (concat (es1 ++ e' :: es2) ++ tail) = Ok (A ++ x' ++ B)
    /\ (length x <= 1)%nat /\ (length x' <= 1)%nat.
Proof. exact akai_entry_isolation_lemma. Qed.
Print Assumptions akai_entry_isolation.

Theorem chain_bytes_local :
  forall pc pc' secs,
    (forall s, In s secs -> slice pc (s * SECTOR) ((s + 1) * SECTOR) = slice pc' (s * SECTOR) ((s + 1) * SECTOR)) ->
    segment_content pc secs = segment_content pc' secs.
Proof. exact segment_content_local. Qed.
Print Assumptions chain_bytes_local.

(** Without h1 the statement is false, inherently: an entry whose name bytes 8-9 read 47 D7
    IS the end of the table, so every later entry is lost. *)
Theorem akai_entry_endflag_refuted :
  exists e tail, zlen e = 24 /\ u16 e 8 = TABLE_END_FLAG /\
    entries_loop 3 [] [] (e ++ tail) = Ok [].
Proof.
  exists ([0;0;0;0;0;0;0;0;71;215] ++ repeat 0 14), (repeat 1 48).
  vm_compute. repeat split; reflexivity.
Qed.

(** Non-vacuity: a table of two entries whose type byte is unknown (0x55: each yields
    nothing) and an end mark is of the shape the theorems quantify over. *)
Example c14_example :
  let e := repeat 10 12 ++ [0;0;0;0; 85; 0;0;0; 5;0; 0;0] in
  is_entry e /\ kept [] [] e = Ok [] /\
  entries_loop 3 [] [] (concat [e; e] ++ ([0;0;0;0;0;0;0;0;71;215] ++ repeat 0 14)) = Ok [].
Proof. cbv zeta. split; [split; [reflexivity|vm_compute; discriminate]|]. split; vm_compute; reflexivity. Qed.
