(** C15 - placeholder until the theorems are merged. *)
From SE Require Import Base.
Example c15_placeholder : True. Proof. exact I. Qed.
